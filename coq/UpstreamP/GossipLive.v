(* Facts about the live view of the local gossip state (Piko.Gossip.Local upsert_local / delete_local), the
   endpoint key, and strconv.Itoa / strconv.Atoi - as needed by the manager proofs (C05). *)
From Coq Require Import List String Ascii NArith ZArith Bool Lia.
From Coq Require Import DecimalString DecimalN DecimalZ DecimalFacts DecimalPos.
From Piko Require Import Base.Maps Base.Strs Gossip.Types Gossip.Local Upstream.Balancer Upstream.Manager.
Import ListNotations.
Open Scope string_scope. Open Scope list_scope.

(* ---- the live view under the owner's writes ---- *)
Lemma gl_upsert_eq k v g : gossip_live k (upsert_local k v g) = Some v.
Proof.
  unfold upsert_local, gossip_live.
  destruct (lookup k (n_ents g)) as [ex|] eqn:E.
  - destruct (String.eqb (e_val ex) v && negb (e_del ex)) eqn:Eb.
    + rewrite E. apply andb_true_iff in Eb as [Ev Ed]. apply String.eqb_eq in Ev. apply negb_true_iff in Ed.
      rewrite Ed, Ev. reflexivity.
    + cbn [set_ents n_ents]. rewrite lookup_insert_eq. reflexivity.
  - cbn [set_ents n_ents]. rewrite lookup_insert_eq. reflexivity.
Qed.

Lemma gl_upsert_ne k k' v g : k' <> k -> gossip_live k' (upsert_local k v g) = gossip_live k' g.
Proof.
  intros Hne. unfold upsert_local, gossip_live.
  destruct (lookup k (n_ents g)) as [ex|] eqn:E.
  - destruct (String.eqb (e_val ex) v && negb (e_del ex)); [reflexivity|].
    cbn [set_ents n_ents]. rewrite lookup_insert_ne by exact Hne. reflexivity.
  - cbn [set_ents n_ents]. rewrite lookup_insert_ne by exact Hne. reflexivity.
Qed.

Lemma gl_delete_eq k g : gossip_live k (delete_local k g) = None.
Proof.
  unfold delete_local, gossip_live.
  destruct (lookup k (n_ents g)) as [ex|] eqn:E.
  - destruct (e_del ex) eqn:Ed.
    + rewrite E, Ed. reflexivity.
    + cbn [set_ents n_ents]. rewrite lookup_insert_eq. reflexivity.
  - rewrite E. reflexivity.
Qed.

Lemma gl_delete_ne k k' g : k' <> k -> gossip_live k' (delete_local k g) = gossip_live k' g.
Proof.
  intros Hne. unfold delete_local, gossip_live.
  destruct (lookup k (n_ents g)) as [ex|] eqn:E; [|reflexivity].
  destruct (e_del ex); [reflexivity|].
  cbn [set_ents n_ents]. rewrite lookup_insert_ne by exact Hne. reflexivity.
Qed.

(* ---- the endpoint key ---- *)
Lemma ep_key_inj e e' : ep_key e = ep_key e' -> e = e'.
Proof. unfold ep_key. cbn [append]. intros H. injection H. auto. Qed.

(* a freshly synced node advertises no endpoint *)
Lemma gl_init id g p a e : gossip_live (ep_key e) (m_gossip (minit id g p a)) = None.
Proof.
  unfold minit. cbn [m_gossip].
  rewrite gl_upsert_ne by (unfold ep_key; cbn [append]; discriminate).
  rewrite gl_upsert_ne by (unfold ep_key; cbn [append]; discriminate).
  reflexivity.
Qed.

(* ---- strconv.Atoi (strconv.Itoa n) = n ---- *)
Lemma uint_string_head d : d <> Decimal.Nil ->
  exists c r, NilZero.string_of_uint d = String c r /\ c <> "-"%char /\ c <> "+"%char.
Proof.
  intros Hd. destruct d; try contradiction; cbn; eexists _, _; (split; [reflexivity|split; discriminate]).
Qed.

Lemma atoi_itoa z : (0 <= z < 2^63)%Z -> atoi (itoa z) = Some z.
Proof.
  intros [H0 H1]. unfold itoa.
  destruct (z <? 0)%Z eqn:E; [apply Z.ltb_lt in E; lia|].
  unfold format_uint.
  assert (Hnn : N.to_uint (Z.to_N z) <> Decimal.Nil).
  { destruct (Z.to_N z) as [|q]; cbn; [discriminate|apply DecimalPos.Unsigned.to_uint_nonnil]. }
  destruct (uint_string_head _ Hnn) as [c [r [Hs [Hm Hp]]]].
  assert (Hu : NilZero.uint_of_string (NilZero.string_of_uint (N.to_uint (Z.to_N z))) = Some (N.to_uint (Z.to_N z)))
    by (apply NilZero.usu; exact Hnn).
  assert (Hgen : forall s, s = String c r ->
                 NilZero.uint_of_string s = Some (N.to_uint (Z.to_N z)) -> atoi s = Some z).
  { intros s -> Hus. unfold atoi.
    assert (Hres : match NilZero.uint_of_string (String c r) with
                   | Some d => let n := Z.of_N (N.of_uint d) in if (n <? 2 ^ 63)%Z then Some n else None
                   | None => None end = Some z).
    { rewrite Hus. cbn zeta. rewrite DecimalN.Unsigned.of_to. rewrite Z2N.id by exact H0.
      destruct (z <? 2^63)%Z eqn:E2; [reflexivity|apply Z.ltb_ge in E2; lia]. }
    destruct c as [b0 b1 b2 b3 b4 b5 b6 b7].
    destruct b0, b1, b2, b3, b4, b5, b6, b7; try exact Hres; exfalso; first [apply Hm; reflexivity|apply Hp; reflexivity]. }
  apply Hgen; [exact Hs|exact Hu].
Qed.
