(* Proofs about the round-robin balancer model (Upstream/Balancer.v). *)
From Coq Require Import List NArith Bool Arith Lia Permutation.
From Piko Require Import Upstream.Balancer.
Import ListNotations.
Open Scope list_scope.

Definition optN_eq_dec (a b : option N) : {a = b} + {a <> b}.
Proof. decide equality. apply N.eq_dec. Defined.

(* ------------------------------------------------------------------ invariant *)
(* the cursor is in range, and an emptied balancer has its cursor back at 0 (so it equals a fresh one) *)
Definition lb_inv (b : lb) : Prop := (ups b = [] /\ nxt b = 0) \/ nxt b < List.length (ups b).

Lemma lb_inv_empty : lb_inv lb_empty.
Proof. left. split; reflexivity. Qed.

Lemma lb_inv_nonempty b : lb_inv b -> ups b <> [] -> nxt b < List.length (ups b).
Proof. intros [[He _]|H] Hne; [contradiction|exact H]. Qed.

Lemma lb_add_inv u b : lb_inv b -> lb_inv (lb_add u b).
Proof.
  intros [[He Hn]|H]; right; unfold lb_add; cbn [ups nxt]; rewrite app_length; cbn [List.length]; lia.
Qed.

Lemma lb_add_nonempty u b : ups (lb_add u b) <> [].
Proof. unfold lb_add; cbn [ups]. destruct (ups b); discriminate. Qed.

Lemma remove_first_length u l l' : remove_first u l = Some l' -> List.length l = S (List.length l').
Proof.
  revert l'. induction l as [|x l IH]; intros l' H; cbn in H; [discriminate|].
  destruct (N.eqb x u).
  - injection H as <-. reflexivity.
  - destruct (remove_first u l) as [r|] eqn:E; cbn in H; [|discriminate].
    injection H as <-. cbn. f_equal. apply IH. reflexivity.
Qed.

Lemma remove_first_None u l : remove_first u l = None -> ~ In u l.
Proof.
  induction l as [|x l IH]; cbn; [tauto|].
  destruct (N.eqb x u) eqn:E; [discriminate|].
  destruct (remove_first u l) eqn:E2; cbn; [discriminate|].
  intros _ [H|H]; [subst; rewrite N.eqb_refl in E; discriminate|exact (IH eq_refl H)].
Qed.

Lemma remove_first_Some_In u l l' : remove_first u l = Some l' -> In u l.
Proof.
  revert l'. induction l as [|x l IH]; intros l' H; cbn in H; [discriminate|].
  destruct (N.eqb x u) eqn:E.
  - apply N.eqb_eq in E. left; exact E.
  - destruct (remove_first u l) eqn:E2; cbn in H; [|discriminate]. right. eapply IH. reflexivity.
Qed.

Lemma remove_first_keeps v u l l' : remove_first v l = Some l' -> u <> v -> In u l -> In u l'.
Proof.
  revert l'. induction l as [|x l IH]; intros l' H Hne Hin; cbn in H; [discriminate|].
  destruct (N.eqb x v) eqn:E.
  - injection H as <-. apply N.eqb_eq in E. destruct Hin as [Hx|Hx]; [congruence|exact Hx].
  - destruct (remove_first v l) as [r|] eqn:E2; cbn in H; [|discriminate].
    injection H as <-. destruct Hin as [Hx|Hx]; [left; exact Hx|right; apply IH; auto].
Qed.

Lemma remove_first_subset v u l l' : remove_first v l = Some l' -> In u l' -> In u l.
Proof.
  revert l'. induction l as [|x l IH]; intros l' H Hin; cbn in H; [discriminate|].
  destruct (N.eqb x v) eqn:E.
  - injection H as <-. right; exact Hin.
  - destruct (remove_first v l) as [r|] eqn:E2; cbn in H; [|discriminate].
    injection H as <-. destruct Hin as [Hx|Hx]; [left; exact Hx|right; eapply IH; eauto].
Qed.

Lemma lb_remove_inv u b : lb_inv b -> lb_inv (fst (lb_remove u b)).
Proof.
  intros Hinv. unfold lb_remove. destruct (remove_first u (ups b)) as [l|] eqn:E; [|exact Hinv].
  destruct l as [|x l]; cbn [fst].
  - left. cbn [ups nxt]. split; [reflexivity|].
    apply remove_first_length in E. cbn in E.
    destruct Hinv as [[He _]|H]; [rewrite He in E; discriminate|lia].
  - right. cbn [ups nxt]. apply Nat.mod_upper_bound. cbn; lia.
Qed.

Lemma lb_next_inv b : lb_inv b -> lb_inv (snd (lb_next b)).
Proof.
  intros Hinv. unfold lb_next. destruct (ups b) as [|x l] eqn:E; cbn [snd]; [exact Hinv|].
  right. cbn [ups nxt]. apply Nat.mod_upper_bound. cbn; lia.
Qed.

Lemma lb_next_ups b : ups (snd (lb_next b)) = ups b.
Proof. unfold lb_next. destruct (ups b) eqn:E; cbn [snd ups]; congruence. Qed.

(* Next on a non-empty balancer whose cursor is in range returns one of its upstreams (never nil, never a panic) *)
Lemma lb_next_some b : lb_inv b -> ups b <> [] -> exists u, fst (lb_next b) = Some u /\ In u (ups b).
Proof.
  intros Hinv Hne. pose proof (lb_inv_nonempty _ Hinv Hne) as Hlt.
  unfold lb_next. destruct (ups b) as [|x l] eqn:E; [contradiction|]. cbn [fst].
  destruct (nth_error (x :: l) (nxt b)) as [u|] eqn:En.
  - exists u. split; [reflexivity|]. eapply nth_error_In, En.
  - apply nth_error_None in En. lia.
Qed.

Lemma lb_step_inv b o : lb_inv b -> lb_inv (fst (lb_step b o)).
Proof.
  intros H. destruct o as [u|u|]; cbn [lb_step fst].
  - apply lb_add_inv, H.
  - apply lb_remove_inv, H.
  - pose proof (lb_next_inv b H) as H2. destruct (lb_next b). exact H2.
Qed.

Lemma lb_run_inv ops : forall b, lb_inv b -> lb_inv (fst (lb_run b ops)).
Proof.
  induction ops as [|o r IH]; intros b H; cbn [lb_run fst]; [exact H|].
  pose proof (lb_step_inv b o H) as H1. destruct (lb_step b o) as [b1 o1]. cbn [fst] in H1.
  pose proof (IH b1 H1) as H2. destruct (lb_run b1 r) as [b2 o2]. exact H2.
Qed.

Lemma lb_run_app ops1 ops2 b :
  lb_run b (ops1 ++ ops2) =
  (fst (lb_run (fst (lb_run b ops1)) ops2), snd (lb_run b ops1) ++ snd (lb_run (fst (lb_run b ops1)) ops2)).
Proof.
  revert b. induction ops1 as [|o r IH]; intros b; cbn [lb_run app fst snd].
  - destruct (lb_run b ops2); reflexivity.
  - destruct (lb_step b o) as [b1 o1]. rewrite IH. destruct (lb_run b1 r) as [b2 o2]. cbn [fst snd].
    rewrite app_assoc. reflexivity.
Qed.

(* ------------------------------------------------------------------ the slice is the connect/disconnect history *)
(* spec-level removal of one occurrence (total) *)
Fixpoint remove1 (u : N) (l : list N) : list N :=
  match l with [] => [] | x :: r => if N.eqb x u then r else x :: remove1 u r end.

Lemma remove_first_remove1 u l :
  remove1 u l = match remove_first u l with Some l' => l' | None => l end.
Proof.
  induction l as [|x l IH]; cbn; [reflexivity|].
  destruct (N.eqb x u); [reflexivity|]. rewrite IH. destruct (remove_first u l); reflexivity.
Qed.

Lemma lb_remove_ups u b : ups (fst (lb_remove u b)) = remove1 u (ups b).
Proof.
  rewrite remove_first_remove1. unfold lb_remove.
  destruct (remove_first u (ups b)) as [[|x l]|]; reflexivity.
Qed.

Lemma lb_remove_empty_flag u b : snd (lb_remove u b) = match remove1 u (ups b) with [] => true | _ => false end.
Proof.
  rewrite remove_first_remove1. unfold lb_remove.
  destruct (remove_first u (ups b)) as [[|x l]|]; reflexivity.
Qed.

Lemma remove1_subset u x l : In x (remove1 u l) -> In x l.
Proof.
  induction l as [|y l IH]; cbn; [tauto|].
  destruct (N.eqb y u); [intros H; right; exact H|].
  intros [H|H]; [left; exact H|right; apply IH, H].
Qed.

Lemma remove1_count u l : count_occ N.eq_dec l u <= 1 -> ~ In u (remove1 u l).
Proof.
  induction l as [|y l IH]; cbn [remove1 count_occ]; [tauto|].
  destruct (N.eq_dec y u) as [->|Hne].
  - rewrite N.eqb_refl. intros H Hin. apply (count_occ_In N.eq_dec) in Hin. lia.
  - destruct (N.eqb y u) eqn:E; [apply N.eqb_eq in E; contradiction|].
    intros H [Hx|Hx]; [contradiction|exact (IH H Hx)].
Qed.

Lemma remove1_length_le u l : List.length (remove1 u l) <= List.length l.
Proof. induction l as [|y l IH]; cbn; [lia|]. destruct (N.eqb y u); cbn; lia. Qed.

(* ------------------------------------------------------------------ round robin *)
Lemma mod_lt_2n a n : n <> 0 -> a < 2 * n -> a mod n = if a <? n then a else a - n.
Proof.
  intros Hn Ha. destruct (a <? n) eqn:E.
  - apply Nat.ltb_lt in E. apply Nat.mod_small, E.
  - apply Nat.ltb_ge in E. symmetry. apply (Nat.mod_unique a n 1); lia.
Qed.

Lemma map_nth_error_seq {A} (l : list A) : map (nth_error l) (seq 0 (List.length l)) = map Some l.
Proof.
  induction l as [|a l IH]; [reflexivity|].
  cbn [List.length seq map nth_error]. f_equal.
  rewrite <- seq_shift, map_map. cbn [nth_error]. exact IH.
Qed.

Lemma NoDup_map_inj_on {A B} (f : A -> B) (l : list A) :
  NoDup l -> (forall x y, In x l -> In y l -> f x = f y -> x = y) -> NoDup (map f l).
Proof.
  induction 1 as [|a l Hni Hnd IH]; intros Hinj; cbn; constructor.
  - intros Hin. apply in_map_iff in Hin as [y [Hy Hiny]].
    assert (y = a) by (apply Hinj; [right; exact Hiny|left; reflexivity|exact Hy]). subst. contradiction.
  - apply IH. intros x y Hx Hy. apply Hinj; right; assumption.
Qed.

Lemma rotation_perm c n : c < n -> Permutation (map (fun i => (c + i) mod n) (seq 0 n)) (seq 0 n).
Proof.
  intros Hc. apply NoDup_Permutation_bis.
  - apply NoDup_map_inj_on; [apply seq_NoDup|].
    intros x y Hx Hy. apply in_seq in Hx, Hy.
    rewrite !mod_lt_2n by lia.
    destruct (c + x <? n) eqn:E1, (c + y <? n) eqn:E2;
      try apply Nat.ltb_lt in E1; try apply Nat.ltb_lt in E2;
      try apply Nat.ltb_ge in E1; try apply Nat.ltb_ge in E2; lia.
  - rewrite map_length. lia.
  - intros z Hz. apply in_map_iff in Hz as [i [<- Hi]]. apply in_seq.
    split; [lia|]. cbn. apply Nat.mod_upper_bound. lia.
Qed.

(* k consecutive Next calls visit the positions cursor, cursor+1, ... cyclically and never change the slice *)
Lemma lb_nexts_spec k : forall b, nxt b < List.length (ups b) ->
  lb_nexts k b =
  ({| ups := ups b; nxt := (nxt b + k) mod List.length (ups b) |},
   map (fun i => nth_error (ups b) ((nxt b + i) mod List.length (ups b))) (seq 0 k)).
Proof.
  unfold lb_nexts. induction k as [|k IH]; intros b Hlt.
  - cbn [repeat lb_run seq map]. rewrite Nat.add_0_r, Nat.mod_small by exact Hlt. destruct b; reflexivity.
  - cbn [repeat lb_run lb_step]. unfold lb_next at 1.
    destruct (ups b) as [|x l] eqn:E; [cbn in Hlt; lia|]. rewrite <- E in *.
    set (n := List.length (ups b)) in *.
    assert (Hn : n <> 0) by lia.
    set (b1 := {| ups := ups b; nxt := S (nxt b) mod n |}).
    assert (H1 : nxt b1 < List.length (ups b1)) by (cbn [b1 ups nxt]; apply Nat.mod_upper_bound, Hn).
    rewrite (IH b1 H1). cbn [b1 ups nxt]. fold n.
    f_equal.
    + f_equal. rewrite Nat.add_mod_idemp_l by exact Hn. f_equal. lia.
    + cbn [seq map app]. f_equal.
      * rewrite Nat.add_0_r, Nat.mod_small by exact Hlt. reflexivity.
      * rewrite <- seq_shift, map_map. apply map_ext. intros i.
        rewrite Nat.add_mod_idemp_l by exact Hn. do 2 f_equal. lia.
Qed.

Lemma lb_nexts_ups k b : lb_inv b -> ups (fst (lb_nexts k b)) = ups b /\ lb_inv (fst (lb_nexts k b)).
Proof.
  intros Hinv. split; [|apply lb_run_inv, Hinv].
  unfold lb_nexts. revert b Hinv. induction k as [|k IH]; intros b Hinv; cbn [repeat lb_run fst]; [reflexivity|].
  cbn [lb_step]. pose proof (lb_next_ups b) as Hu. pose proof (lb_next_inv b Hinv) as Hi.
  destruct (lb_next b) as [r b1]. cbn [snd] in Hu, Hi.
  pose proof (IH b1 Hi) as H2. destruct (lb_run b1 (repeat BNext k)) as [b2 o2]. cbn [fst] in *. congruence.
Qed.

(* with a stable set of n upstreams, n consecutive selections return each of them once (as a multiset: the same
   uid registered twice is returned twice) and bring the cursor back to where it was *)
Lemma lb_round_robin b :
  lb_inv b -> ups b <> [] ->
  fst (lb_nexts (List.length (ups b)) b) = b /\
  Permutation (snd (lb_nexts (List.length (ups b)) b)) (map Some (ups b)).
Proof.
  intros Hinv Hne. pose proof (lb_inv_nonempty _ Hinv Hne) as Hlt.
  rewrite (lb_nexts_spec _ b Hlt). cbn [fst snd]. split.
  - replace (nxt b + List.length (ups b)) with (nxt b + 1 * List.length (ups b)) by lia.
    rewrite Nat.mod_add by lia. rewrite Nat.mod_small by exact Hlt. destruct b; reflexivity.
  - rewrite <- map_nth_error_seq.
    rewrite <- (map_map (fun i => (nxt b + i) mod List.length (ups b)) (nth_error (ups b))).
    apply Permutation_map, rotation_perm, Hlt.
Qed.

(* ... and this holds for ANY window of n consecutive selections, wherever it starts *)
Lemma lb_round_robin_window k b :
  lb_inv b -> ups b <> [] ->
  Permutation (snd (lb_nexts (List.length (ups b)) (fst (lb_nexts k b)))) (map Some (ups b)).
Proof.
  intros Hinv Hne. destruct (lb_nexts_ups k b Hinv) as [Hu Hi].
  rewrite <- Hu. apply lb_round_robin; [exact Hi|rewrite Hu; exact Hne].
Qed.

(* each exactly once when the uids are distinct *)
Lemma lb_round_robin_once k b u :
  lb_inv b -> NoDup (ups b) -> In u (ups b) ->
  count_occ optN_eq_dec (snd (lb_nexts (List.length (ups b)) (fst (lb_nexts k b)))) (Some u) = 1.
Proof.
  intros Hinv Hnd Hin.
  assert (Hne : ups b <> []) by (intros E; rewrite E in Hin; exact Hin).
  pose proof (lb_round_robin_window k b Hinv Hne) as HP.
  rewrite (proj1 (Permutation_count_occ optN_eq_dec _ _) HP (Some u)).
  assert (Hnd' : NoDup (map Some (ups b))).
  { apply NoDup_map_inj_on; [exact Hnd|]. intros x y _ _ H. injection H; auto. }
  apply (proj1 (NoDup_count_occ' optN_eq_dec _) Hnd').
  apply in_map, Hin.
Qed.

(* ------------------------------------------------------------------ bounded waiting under churn *)
Definition count_remove (ops : list bop) : nat :=
  List.length (filter (fun o => match o with BRemove _ => true | _ => false end) ops).

(* cyclic distance from the cursor c to position p in a slice of length n *)
Definition cyc (p c n : nat) : nat := if c <=? p then p - c else n - c + p.

Lemma In_nth_error_lt {A} (x : A) l : In x l -> exists p, p < List.length l /\ nth_error l p = Some x.
Proof.
  intros H. apply In_nth_error in H as [p Hp]. exists p. split; [|exact Hp].
  apply nth_error_Some. rewrite Hp. discriminate.
Qed.

(* core induction: k bounds the cyclic distance from the cursor to some occurrence of u *)
Lemma starvation_core u ops : forall b k,
  nxt b < List.length (ups b) ->
  (exists p, nth_error (ups b) p = Some u /\ cyc p (nxt b) (List.length (ups b)) <= k) ->
  (forall v, In (BRemove v) ops -> v <> u) ->
  ~ In (Some u) (snd (lb_run b ops)) ->
  count_next ops <= k + count_add ops + count_remove ops * (List.length (ups b) + count_add ops).
Proof.
  unfold count_next, count_add, count_remove.
  induction ops as [|o r IH]; intros b k Hlt [p [Hp Hk]] Hrm Hnot; [cbn; lia|].
  assert (Hplt : p < List.length (ups b)) by (apply nth_error_Some; rewrite Hp; discriminate).
  assert (Hrm' : forall v, In (BRemove v) r -> v <> u) by (intros v Hv; apply Hrm; right; exact Hv).
  destruct o as [v|v|]; cbn [lb_run lb_step] in Hnot; cbn [filter List.length].
  - (* add *)
    destruct (lb_run (lb_add v b) r) as [b2 o2] eqn:E2. cbn [snd app] in Hnot.
    assert (Hlen : List.length (ups (lb_add v b)) = S (List.length (ups b)))
      by (unfold lb_add; cbn [ups]; rewrite app_length; cbn; lia).
    assert (Hn1 : nxt (lb_add v b) = nxt b) by reflexivity.
    assert (Hlt1 : nxt (lb_add v b) < List.length (ups (lb_add v b))) by lia.
    assert (HI : exists p0, nth_error (ups (lb_add v b)) p0 = Some u /\
                            cyc p0 (nxt (lb_add v b)) (List.length (ups (lb_add v b))) <= S k).
    { exists p. split.
      - unfold lb_add; cbn [ups]. rewrite nth_error_app1 by exact Hplt. exact Hp.
      - rewrite Hlen, Hn1. unfold cyc in *. destruct (nxt b <=? p); lia. }
    pose proof (IH (lb_add v b) (S k) Hlt1 HI Hrm') as H. rewrite E2 in H. cbn [snd] in H.
    specialize (H Hnot). rewrite Hlen in H.
    set (A := List.length (filter (fun o => match o with BAdd _ => true | _ => false end) r)) in *.
    set (R := List.length (filter (fun o => match o with BRemove _ => true | _ => false end) r)) in *.
    replace (S (List.length (ups b)) + A) with (List.length (ups b) + S A) in H by lia. lia.
  - (* remove of another upstream *)
    assert (Hvu : v <> u) by (apply Hrm; left; reflexivity).
    destruct (lb_run (fst (lb_remove v b)) r) as [b2 o2] eqn:E2. cbn [snd app] in Hnot.
    set (A := List.length (filter (fun o => match o with BAdd _ => true | _ => false end) r)) in *.
    set (R := List.length (filter (fun o => match o with BRemove _ => true | _ => false end) r)) in *.
    assert (Hin : In u (ups b)) by (eapply nth_error_In, Hp).
    unfold lb_remove in E2.
    destruct (remove_first v (ups b)) as [l|] eqn:Er.
    + pose proof (remove_first_length _ _ _ Er) as Hlen.
      assert (Hin' : In u l) by (eapply remove_first_keeps; [exact Er|congruence|exact Hin]).
      destruct l as [|x l]; [contradiction|]. cbn [fst] in E2.
      set (b1 := {| ups := x :: l; nxt := nxt b mod List.length (x :: l) |}) in *.
      assert (Hlt1 : nxt b1 < List.length (ups b1))
        by (cbn [b1 ups nxt]; apply Nat.mod_upper_bound; cbn; lia).
      destruct (In_nth_error_lt _ _ Hin') as [p' [Hp'lt Hp']].
      assert (HI : exists p0, nth_error (ups b1) p0 = Some u /\
                              cyc p0 (nxt b1) (List.length (ups b1)) <= List.length (ups b1) - 1).
      { exists p'. split; [exact Hp'|].
        assert (Hu1 : ups b1 = x :: l) by reflexivity. rewrite Hu1 in *. unfold cyc.
        destruct (nxt b1 <=? p') eqn:El; [apply Nat.leb_le in El|apply Nat.leb_gt in El]; lia. }
      pose proof (IH b1 _ Hlt1 HI Hrm') as H. rewrite E2 in H. cbn [snd] in H. specialize (H Hnot).
      assert (Hu1 : ups b1 = x :: l) by reflexivity. rewrite Hu1 in H. fold A R in H.
      assert (R * (List.length (x :: l) + A) <= R * (List.length (ups b) + A)) by (apply Nat.mul_le_mono_l; lia).
      cbn [Nat.mul]. lia.
    + cbn [fst] in E2.
      pose proof (IH b k Hlt ltac:(exists p; split; assumption) Hrm') as H.
      rewrite E2 in H. cbn [snd] in H. specialize (H Hnot). fold A R in H. cbn [Nat.mul]. lia.
  - (* next *)
    unfold lb_next in Hnot. destruct (ups b) as [|x l] eqn:E; [cbn in Hlt; lia|]. rewrite <- E in *.
    set (n := List.length (ups b)) in *.
    set (b1 := {| ups := ups b; nxt := S (nxt b) mod n |}) in *.
    destruct (lb_run b1 r) as [b2 o2] eqn:E2. cbn [snd app] in Hnot.
    assert (Hn : n <> 0) by lia.
    assert (Hcp : nxt b <> p).
    { intros Hc. apply Hnot. left. rewrite Hc. exact Hp. }
    assert (Hk1 : 1 <= cyc p (nxt b) n).
    { unfold cyc. destruct (nxt b <=? p) eqn:El; [apply Nat.leb_le in El|apply Nat.leb_gt in El]; lia. }
    assert (Hlt1 : nxt b1 < List.length (ups b1)) by (cbn [b1 ups nxt]; apply Nat.mod_upper_bound, Hn).
    assert (Hc1 : cyc p (nxt b1) (List.length (ups b1)) <= k - 1).
    { cbn [b1 ups nxt]. fold n. unfold cyc in *.
      rewrite (mod_lt_2n (S (nxt b)) n Hn) by lia.
      destruct (S (nxt b) <? n) eqn:E3; [apply Nat.ltb_lt in E3|apply Nat.ltb_ge in E3].
      - destruct (nxt b <=? p) eqn:E4; [apply Nat.leb_le in E4|apply Nat.leb_gt in E4];
          destruct (S (nxt b) <=? p) eqn:E5; try apply Nat.leb_le in E5; try apply Nat.leb_gt in E5; lia.
      - replace (S (nxt b) - n) with 0 by lia.
        destruct (nxt b <=? p) eqn:E4; [apply Nat.leb_le in E4|apply Nat.leb_gt in E4]; cbn [Nat.leb]; lia. }
    pose proof (IH b1 (k - 1) Hlt1 ltac:(exists p; split; [exact Hp|exact Hc1]) Hrm') as H.
    rewrite E2 in H. cbn [snd] in H.
    specialize (H ltac:(intros Hx; apply Hnot; right; exact Hx)).
    cbn [b1 ups] in H. fold n in H. lia.
Qed.

(* Bounded waiting. From any state in which u is registered, run ANY sequence of additions, removals of OTHER
   upstreams and selections: if u is never selected, the number of selections is bounded by
   (set size - 1) + additions + removals * (set size + additions). *)
Lemma lb_no_starvation_bound u ops b :
  lb_inv b -> In u (ups b) ->
  (forall v, In (BRemove v) ops -> v <> u) ->
  ~ In (Some u) (snd (lb_run b ops)) ->
  count_next ops <= (List.length (ups b) - 1) + count_add ops + count_remove ops * (List.length (ups b) + count_add ops).
Proof.
  intros Hinv Hin Hrm Hnot.
  assert (Hne : ups b <> []) by (intros E; rewrite E in Hin; exact Hin).
  pose proof (lb_inv_nonempty _ Hinv Hne) as Hlt.
  destruct (In_nth_error_lt _ _ Hin) as [p [Hplt Hp]].
  apply (starvation_core u ops b _ Hlt); [|exact Hrm|exact Hnot].
  exists p. split; [exact Hp|]. unfold cyc.
  destruct (nxt b <=? p) eqn:El; [apply Nat.leb_le in El|apply Nat.leb_gt in El]; lia.
Qed.

(* contrapositive: enough selections => u is selected *)
Lemma lb_no_starvation u ops b :
  lb_inv b -> In u (ups b) ->
  (forall v, In (BRemove v) ops -> v <> u) ->
  (1 + count_remove ops) * (List.length (ups b) + count_add ops) <= count_next ops ->
  In (Some u) (snd (lb_run b ops)).
Proof.
  intros Hinv Hin Hrm Hcnt.
  destruct (in_dec optN_eq_dec (Some u) (snd (lb_run b ops))) as [H|H]; [exact H|exfalso].
  pose proof (lb_no_starvation_bound u ops b Hinv Hin Hrm H) as Hb.
  assert (Hpos : 1 <= List.length (ups b)) by (destruct (ups b); [contradiction|cbn; lia]).
  cbn [Nat.mul Nat.add] in Hcnt. lia.
Qed.

(* without removals (additions and selections only): within set size + additions selections *)
Lemma lb_no_starvation_adds u ops b :
  lb_inv b -> In u (ups b) -> count_remove ops = 0 ->
  List.length (ups b) + count_add ops <= count_next ops ->
  In (Some u) (snd (lb_run b ops)).
Proof.
  intros Hinv Hin H0 Hcnt. apply lb_no_starvation; [exact Hinv|exact Hin| |rewrite H0; cbn; lia].
  intros v Hv. exfalso. unfold count_remove in H0.
  assert (Hf : In (BRemove v) (filter (fun o => match o with BRemove _ => true | _ => false end) ops))
    by (apply filter_In; split; [exact Hv|reflexivity]).
  destruct (filter _ ops); [exact Hf|discriminate].
Qed.

(* with a stable set: every upstream is selected within [length ups] selections *)
Lemma lb_no_starvation_stable u b k :
  lb_inv b -> In u (ups b) -> List.length (ups b) <= k -> In (Some u) (snd (lb_nexts k b)).
Proof.
  intros Hinv Hin Hk. unfold lb_nexts.
  assert (Hc : forall n, count_next (repeat BNext n) = n /\ count_add (repeat BNext n) = 0 /\ count_remove (repeat BNext n) = 0).
  { unfold count_next, count_add, count_remove. induction n as [|n [I1 [I2 I3]]]; cbn; [auto|]. rewrite I1, I2, I3. auto. }
  destruct (Hc k) as [H1 [H2 H3]].
  apply lb_no_starvation_adds; [exact Hinv|exact Hin|exact H3|]. rewrite H1, H2. lia.
Qed.

(* ------------------------------------------------------------------ the additions term is necessary *)
(* one addition per selection postpones u for as long as it lasts *)
Fixpoint add_next_rounds (x : N) (k : nat) : list bop :=
  match k with O => [] | S k' => BAdd x :: BNext :: add_next_rounds x k' end.

Lemma add_next_counts x k :
  count_next (add_next_rounds x k) = k /\ count_add (add_next_rounds x k) = k /\ count_remove (add_next_rounds x k) = 0.
Proof.
  unfold count_next, count_add, count_remove. induction k as [|k [I1 [I2 I3]]]; cbn; [auto|].
  rewrite I1, I2, I3. auto.
Qed.

Lemma starve_by_additions u x k : x <> u -> forall l,
  l <> [] -> ~ In u l ->
  ~ In (Some u) (snd (lb_run {| ups := u :: l; nxt := List.length l |} (add_next_rounds x k))).
Proof.
  intros Hx. induction k as [|k IH]; intros l Hl Hni; cbn [add_next_rounds lb_run lb_step]; [cbn; tauto|].
  unfold lb_add. cbn [ups nxt]. unfold lb_next. cbn [ups nxt app].
  assert (Hlen : List.length (u :: l ++ [x]) = S (S (List.length l))) by (cbn; rewrite app_length; cbn; lia).
  rewrite Hlen.
  rewrite (Nat.mod_small (S (List.length l))) by lia.
  assert (Hl2 : S (List.length l) = List.length (l ++ [x])) by (rewrite app_length; cbn; lia).
  rewrite Hl2.
  specialize (IH (l ++ [x])).
  destruct (lb_run {| ups := u :: l ++ [x]; nxt := List.length (l ++ [x]) |} (add_next_rounds x k)) as [b2 o2] eqn:E.
  cbn [snd app]. cbn [snd] in IH.
  intros [H|H].
  - (* the element under the cursor is the last element of l, which is not u *)
    destruct l as [|y l']; [contradiction|]. cbn [List.length nth_error] in H.
    rewrite nth_error_app1 in H by (cbn; lia).
    apply nth_error_In in H. contradiction.
  - revert H. apply IH.
    + destruct l; discriminate.
    + intros Hin. apply in_app_or in Hin as [Hin|[Hin|[]]]; [contradiction|congruence].
Qed.
