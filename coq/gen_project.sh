#!/bin/sh
# regenerate _CoqProject from the directory listing (generated/ files included when present)
cd "$(dirname "$0")"
{ echo "-Q . Piko"; find . -name '*.v' -not -path './Cases/*' | sed 's|^\./||' | sort; } > _CoqProject.new
if ! cmp -s _CoqProject.new _CoqProject 2>/dev/null; then mv _CoqProject.new _CoqProject; coq_makefile -f _CoqProject -o Makefile >/dev/null; else rm _CoqProject.new; fi
[ -f Makefile ] || coq_makefile -f _CoqProject -o Makefile >/dev/null
