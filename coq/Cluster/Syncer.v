(* The routing table (server/cluster/state.go) and the syncer that feeds it from gossip watcher events
   (server/gossip/syncer.go). Models only. *)
From Coq Require Import List String NArith ZArith Bool.
From Piko Require Import Base.Maps Base.Strs Gossip.Types.
Import ListNotations.
Open Scope string_scope. Open Scope list_scope.

Inductive nstatus := SNone (* "" : not decided yet, pending only *) | SActive | SUnreach | SLeft.

Definition nstatus_eqb (a b : nstatus) : bool :=
  match a, b with SNone, SNone | SActive, SActive | SUnreach, SUnreach | SLeft, SLeft => true | _, _ => false end.

(* cluster.Node *)
Record cnode := { cn_id : string; cn_status : nstatus; cn_proxy : string; cn_admin : string; cn_eps : amap Z }.

(* cluster.State (nodes incl. the local one) + syncer.pendingNodes + whether Sync() subscribed the syncer *)
Record sstate := { ss_local : string; ss_nodes : amap cnode; ss_pending : amap cnode; ss_synced : bool }.

Definition new_sstate (id proxy admin : string) : sstate :=
  {| ss_local := id;
     ss_nodes := [(id, {| cn_id := id; cn_status := SActive; cn_proxy := proxy; cn_admin := admin; cn_eps := [] |})];
     ss_pending := []; ss_synced := false |}.

Definition set_cnodes (s : sstate) (m : amap cnode) : sstate :=
  {| ss_local := ss_local s; ss_nodes := m; ss_pending := ss_pending s; ss_synced := ss_synced s |}.
Definition set_pending (s : sstate) (m : amap cnode) : sstate :=
  {| ss_local := ss_local s; ss_nodes := ss_nodes s; ss_pending := m; ss_synced := ss_synced s |}.

Definition with_status (n : cnode) (st : nstatus) : cnode :=
  {| cn_id := cn_id n; cn_status := st; cn_proxy := cn_proxy n; cn_admin := cn_admin n; cn_eps := cn_eps n |}.
Definition with_eps (n : cnode) (m : amap Z) : cnode :=
  {| cn_id := cn_id n; cn_status := cn_status n; cn_proxy := cn_proxy n; cn_admin := cn_admin n; cn_eps := m |}.
Definition with_proxy (n : cnode) (a : string) : cnode :=
  {| cn_id := cn_id n; cn_status := cn_status n; cn_proxy := a; cn_admin := cn_admin n; cn_eps := cn_eps n |}.
Definition with_admin (n : cnode) (a : string) : cnode :=
  {| cn_id := cn_id n; cn_status := cn_status n; cn_proxy := cn_proxy n; cn_admin := a; cn_eps := cn_eps n |}.

(* ---- cluster.State mutators; the bool is the Go return value ---- *)
Definition update_remote_status (s : sstate) (id : string) (st : nstatus) : sstate * bool :=
  if String.eqb id (ss_local s) then (s, false) else
  match lookup id (ss_nodes s) with
  | None => (s, false)
  | Some n => (set_cnodes s (insert id (with_status n st) (ss_nodes s)), true)
  end.

Definition add_node (s : sstate) (n : cnode) : sstate :=
  if String.eqb (cn_id n) (ss_local s) then s else set_cnodes s (insert (cn_id n) n (ss_nodes s)).

Definition remove_node (s : sstate) (id : string) : sstate * bool :=
  if String.eqb id (ss_local s) then (s, false) else
  match lookup id (ss_nodes s) with
  | None => (s, false)
  | Some _ => (set_cnodes s (remove id (ss_nodes s)), true)
  end.

Definition update_remote_endpoint (s : sstate) (id ep : string) (n : Z) : sstate * bool :=
  if String.eqb id (ss_local s) then (s, false) else
  match lookup id (ss_nodes s) with
  | None => (s, false)
  | Some nd => (set_cnodes s (insert id (with_eps nd (insert ep n (cn_eps nd))) (ss_nodes s)), true)
  end.

Definition remove_remote_endpoint (s : sstate) (id ep : string) : sstate * bool :=
  if String.eqb id (ss_local s) then (s, false) else
  match lookup id (ss_nodes s) with
  | None => (s, false)
  | Some nd => (set_cnodes s (insert id (with_eps nd (remove ep (cn_eps nd))) (ss_nodes s)), true)
  end.

(* LookupEndpoint: Go map iteration returns ANY active remote node advertising the endpoint *)
Definition lookup_candidates (s : sstate) (ep : string) : list string :=
  map cn_id (filter (fun n => negb (String.eqb (cn_id n) (ss_local s)) && nstatus_eqb (cn_status n) SActive
                              && match lookup ep (cn_eps n) with Some c => (0 <? c)%Z | None => false end)
                    (values (ss_nodes s))).

(* ---- syncer callbacks ---- *)
Definition endpoint_prefix := "endpoint:".
Definition endpoint_of_key (k : string) : option string :=
  if prefixb endpoint_prefix k then Some (drop (String.length endpoint_prefix) k) else None.

Definition on_join (s : sstate) (id : string) : sstate :=
  if String.eqb id (ss_local s) then s else
  if mem id (ss_nodes s) then s else
  if mem id (ss_pending s) then s else
  set_pending s (insert id {| cn_id := id; cn_status := SNone; cn_proxy := ""; cn_admin := ""; cn_eps := [] |} (ss_pending s)).

Definition on_status (s : sstate) (id : string) (st : nstatus) : sstate :=
  if String.eqb id (ss_local s) then s else
  let '(s', ok) := update_remote_status s id st in
  if ok then s' else
  match lookup id (ss_pending s) with
  | Some p => set_pending s (insert id (with_status p st) (ss_pending s))
  | None => s
  end.

Definition on_leave (s : sstate) (id : string) : sstate :=
  if String.eqb id (ss_local s) then s else
  let '(s', ok) := update_remote_status s id SLeft in
  if ok then s' else set_pending s (remove id (ss_pending s)).

Definition on_expired (s : sstate) (id : string) : sstate :=
  if String.eqb id (ss_local s) then s else
  let '(s', ok) := remove_node s id in
  if ok then s' else set_pending s (remove id (ss_pending s)).

Definition promote (s : sstate) (n : cnode) : sstate :=
  if negb (String.eqb (cn_proxy n) "") && negb (String.eqb (cn_admin n) "") then
    let n' := match cn_status n with SNone => with_status n SActive | _ => n end in
    add_node (set_pending s (remove (cn_id n) (ss_pending s))) n'
  else set_pending s (insert (cn_id n) n (ss_pending s)).

Definition on_upsert (s : sstate) (id k v : string) : sstate :=
  if String.eqb id (ss_local s) then s else
  if (String.eqb k "proxy_addr" || String.eqb k "admin_addr") && mem id (ss_nodes s) then s else
  match endpoint_of_key k with
  | Some ep =>
      match atoi v with
      | None => s
      | Some n =>
          let '(s', ok) := update_remote_endpoint s id ep n in
          if ok then s' else
          match lookup id (ss_pending s) with
          | None => s
          | Some p => promote s (with_eps p (insert ep n (cn_eps p)))
          end
      end
  | None =>
      match lookup id (ss_pending s) with
      | None => s
      | Some p =>
          if String.eqb k "proxy_addr" then promote s (with_proxy p v)
          else if String.eqb k "admin_addr" then promote s (with_admin p v)
          else s
      end
  end.

Definition on_delete (s : sstate) (id k : string) : sstate :=
  if String.eqb id (ss_local s) then s else
  match endpoint_of_key k with
  | None => s
  | Some ep =>
      let '(s', ok) := remove_remote_endpoint s id ep in
      if ok then s' else
      match lookup id (ss_pending s) with
      | None => s
      | Some p => set_pending s (insert id (with_eps p (remove ep (cn_eps p))) (ss_pending s))
      end
  end.

Definition on_event (s : sstate) (e : event) : sstate :=
  match e with
  | EJoin id => on_join s id
  | ELeave id => on_leave s id
  | EReach id => on_status s id SActive
  | EUnreach id => on_status s id SUnreach
  | EExpired id => on_expired s id
  | EUpsert id k v => on_upsert s id k v
  | EDelete id k => on_delete s id k
  end.

Definition on_events (s : sstate) (evs : list event) : sstate := fold_left on_event evs s.

(* ---- local endpoints: AddLocalEndpoint / RemoveLocalEndpoint / LocalEndpointListeners ---- *)
Definition local_eps (s : sstate) : amap Z :=
  match lookup (ss_local s) (ss_nodes s) with Some n => cn_eps n | None => [] end.

Definition set_local_eps (s : sstate) (m : amap Z) : sstate :=
  match lookup (ss_local s) (ss_nodes s) with
  | Some n => set_cnodes s (insert (ss_local s) (with_eps n m) (ss_nodes s))
  | None => s
  end.

Definition local_count (s : sstate) (ep : string) : Z :=
  match lookup ep (local_eps s) with Some c => c | None => 0%Z end.

(* returns the new state and whether subscribers are notified *)
Definition add_local_endpoint (s : sstate) (ep : string) : sstate * bool :=
  (set_local_eps s (insert ep (local_count s ep + 1)%Z (local_eps s)), true).

Definition remove_local_endpoint (s : sstate) (ep : string) : sstate * bool :=
  match lookup ep (local_eps s) with
  | None => (s, false)
  | Some c =>
      if (c =? 0)%Z then (s, false)
      else if (1 <? c)%Z then (set_local_eps s (insert ep (c - 1)%Z (local_eps s)), true)
      else (set_local_eps s (remove ep (local_eps s)), true)
  end.

(* the gossip-side write the subscriber performs (onLocalEndpointUpdate): Some (key, Some value) = UpsertLocal,
   Some (key, None) = DeleteLocal *)
Definition local_endpoint_write (s : sstate) (ep : string) : string * option string :=
  let c := local_count s ep in
  if (0 <? c)%Z then ((endpoint_prefix ++ ep)%string, Some (itoa c)) else ((endpoint_prefix ++ ep)%string, None).
