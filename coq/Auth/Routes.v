(* gin v1.11.0 registration and dispatch semantics (model only, no proofs).
   routergroup.go: Use / Group / handle (combineHandlers, calculateAbsolutePath);
   gin.go: Engine.Use, NoRoute, rebuild404Handlers, handleHTTPRequest, redirectTrailingSlash.
   A route captures the handlers of its group AT REGISTRATION; a group captures its parent's handlers when it is
   created; engine.allNoRoute is rebuilt from the root group's handlers on every Engine.Use and Engine.NoRoute. *)
From Coq Require Import List String Ascii Bool.
Import ListNotations.
Open Scope string_scope. Open Scope list_scope.

(* the `if` conditions a registration statement is under: a conjunction of (condition text, polarity).
   The extractor spells `<verifier parameter> != nil` as "verifier". *)
Definition cond := list (string * bool).

Inductive regop :=
| OUse (c : cond) (grp : string) (mw : string)                       (* <grp>.Use(mw); grp "" = the engine *)
| OGroup (c : cond) (name parent prefix : string) (mws : list string) (* name := parent.Group(prefix, mws...) *)
| OHandle (c : cond) (grp method path : string) (mws : list string) (handler : string)
| ONoRoute (c : cond) (handlers : list string).                       (* engine.NoRoute(handlers...) *)

Record route := { rt_method : string; rt_path : string; rt_mws : list string; rt_handler : string }.

Record group := { g_name : string; g_base : string; g_handlers : list string }.

Record engine := {
  e_groups : list group;            (* head = most recent; the root group is named "" *)
  e_routes : list route;            (* in registration order *)
  e_noroute : list string;          (* engine.noRoute *)
  e_allnoroute : list string        (* engine.allNoRoute *)
}.

Definition init_engine : engine :=
  {| e_groups := [{| g_name := ""; g_base := "/"; g_handlers := [] |}]; e_routes := []; e_noroute := []; e_allnoroute := [] |}.

Definition holds (env : string -> bool) (c : cond) : bool :=
  forallb (fun nb => Bool.eqb (env (fst nb)) (snd nb)) c.

Fixpoint find_group (n : string) (gs : list group) : option group :=
  match gs with
  | [] => None
  | g :: r => if String.eqb (g_name g) n then Some g else find_group n r
  end.

Fixpoint set_group (g' : group) (gs : list group) : list group :=
  match gs with
  | [] => []
  | g :: r => if String.eqb (g_name g) (g_name g') then g' :: r else g :: set_group g' r
  end.

Definition root_handlers (e : engine) : list string :=
  match find_group "" (e_groups e) with Some g => g_handlers g | None => [] end.

(* joinPaths (utils.go) for the path shapes the extractor admits: relative paths start with "/" and contain
   no "//", "." or ".." segments, so path.Join only removes the slash between the two parts *)
Fixpoint strip_trailing_slash (s : string) : string :=
  match s with
  | EmptyString => EmptyString
  | String c r => match r with
                  | EmptyString => if Ascii.eqb c "/"%char then EmptyString else s
                  | _ => String c (strip_trailing_slash r)
                  end
  end.

Definition join_paths (base rel : string) : string :=
  if String.eqb rel "" then base else strip_trailing_slash base ++ rel.

Definition step (env : string -> bool) (e : engine) (o : regop) : engine :=
  match o with
  | OUse c gn mw =>
      if holds env c then
        match find_group gn (e_groups e) with
        | None => e
        | Some g =>
            let g' := {| g_name := gn; g_base := g_base g; g_handlers := g_handlers g ++ [mw] |} in
            let gs := set_group g' (e_groups e) in
            if String.eqb gn "" then
              (* Engine.Use: rebuild404Handlers *)
              {| e_groups := gs; e_routes := e_routes e; e_noroute := e_noroute e;
                 e_allnoroute := g_handlers g' ++ e_noroute e |}
            else {| e_groups := gs; e_routes := e_routes e; e_noroute := e_noroute e; e_allnoroute := e_allnoroute e |}
        end
      else e
  | OGroup c name parent prefix mws =>
      if holds env c then
        match find_group parent (e_groups e) with
        | None => e
        | Some p =>
            let g := {| g_name := name; g_base := join_paths (g_base p) prefix; g_handlers := g_handlers p ++ mws |} in
            {| e_groups := g :: e_groups e; e_routes := e_routes e; e_noroute := e_noroute e; e_allnoroute := e_allnoroute e |}
        end
      else e
  | OHandle c gn method path mws h =>
      if holds env c then
        match find_group gn (e_groups e) with
        | None => e
        | Some g =>
            let r := {| rt_method := method; rt_path := join_paths (g_base g) path;
                        rt_mws := g_handlers g ++ mws; rt_handler := h |} in
            {| e_groups := e_groups e; e_routes := e_routes e ++ [r]; e_noroute := e_noroute e; e_allnoroute := e_allnoroute e |}
        end
      else e
  | ONoRoute c hs =>
      if holds env c then
        {| e_groups := e_groups e; e_routes := e_routes e; e_noroute := hs; e_allnoroute := root_handlers e ++ hs |}
      else e
  end.

Definition build (env : string -> bool) (ops : list regop) : engine := fold_left (step env) ops init_engine.

(* a chain = the middleware that runs first, then (if any) the final handler *)
Definition chain := (list string * option string)%type.

Definition route_chain (r : route) : chain := (rt_mws r, Some (rt_handler r)).

(* engine.allNoRoute = root handlers ++ noRoute; the last noRoute handler (if any) is "the" handler,
   without one gin answers its default 404 after the middleware (serveError) *)
Definition noroute_chain (e : engine) : chain :=
  match rev (e_noroute e) with
  | [] => (e_allnoroute e, None)
  | h :: _ => (removelast (e_allnoroute e), Some h)
  end.

(* ------------------------------------------------------------------ dispatch *)
Fixpoint split_slash (s : string) : list string :=
  match s with
  | EmptyString => [EmptyString]
  | String a r =>
      if Ascii.eqb a "/"%char then EmptyString :: split_slash r
      else match split_slash r with
           | x :: l => String a x :: l
           | [] => [String a EmptyString]
           end
  end.

Definition is_param (seg : string) : bool :=
  match seg with String c _ => Ascii.eqb c ":"%char | EmptyString => false end.

Definition param_name (seg : string) : string :=
  match seg with String _ r => r | EmptyString => EmptyString end.

(* segment-wise match; a ":name" segment matches one non-empty segment *)
Fixpoint match_segs (pat path : list string) : option (list (string * string)) :=
  match pat, path with
  | [], [] => Some []
  | p :: pr, s :: sr =>
      if is_param p then
        if String.eqb s "" then None
        else match match_segs pr sr with Some ps => Some ((param_name p, s) :: ps) | None => None end
      else if String.eqb p s then match_segs pr sr else None
  | _, _ => None
  end.

Definition match_route (method path : string) (r : route) : option (list (string * string)) :=
  if String.eqb (rt_method r) method then match_segs (split_slash (rt_path r)) (split_slash path) else None.

Fixpoint first_match (method path : string) (rs : list route) : option (route * list (string * string)) :=
  match rs with
  | [] => None
  | r :: rest => match match_route method path r with
                 | Some ps => Some (r, ps)
                 | None => first_match method path rest
                 end
  end.

(* static routes take priority over parameter routes (tree.go: static children are tried first) *)
Definition find_route (e : engine) (method path : string) : option (route * list (string * string)) :=
  match first_match method path (filter (fun r => String.eqb (rt_path r) path) (e_routes e)) with
  | Some x => Some x
  | None => first_match method path (e_routes e)
  end.

Fixpoint ends_with_slash (s : string) : bool :=
  match s with
  | EmptyString => false
  | String c EmptyString => Ascii.eqb c "/"%char
  | String _ r => ends_with_slash r
  end.

Definition toggle_slash (p : string) : string :=
  if ends_with_slash p then strip_trailing_slash p else p ++ "/".

Inductive dispatched :=
| DRoute (r : route) (params : list (string * string))
| DRedirect                       (* redirectTrailingSlash: answered before any handler of any chain *)
| DNoRoute.

(* Engine.handleHTTPRequest with RedirectTrailingSlash = true, RedirectFixedPath = false,
   HandleMethodNotAllowed = false (the gin.New() defaults; the extractor rejects writes to the engine) *)
Definition dispatch (e : engine) (method path : string) : dispatched :=
  match find_route e method path with
  | Some (r, ps) => DRoute r ps
  | None =>
      if negb (String.eqb method "CONNECT") && negb (String.eqb path "/")
         && match find_route e method (toggle_slash path) with Some _ => true | None => false end
      then DRedirect else DNoRoute
  end.

Fixpoint lookup_param (n : string) (ps : list (string * string)) : string :=
  match ps with
  | [] => ""
  | (k, v) :: r => if String.eqb k n then v else lookup_param n r
  end.
