(* Abstract JWTs and keys (model only, no proofs).
   Stands for: what golang-jwt v5.3.1 sees of a compact JWT (header alg/kid, registered claims, the piko
   claim) + the signature relation of the crypto primitives, which is abstracted:
     a token's signature verifies under key k  iff  the token was signed with k's secret/private half
     (t_signed_by = Some k), nothing was altered afterwards (t_intact) and the header algorithm belongs to
     k's family (golang-jwt's SigningMethodX.Verify rejects keys of another Go type: ErrInvalidKeyType). *)
From Coq Require Import List String ZArith Bool.
Import ListNotations.
Open Scope string_scope. Open Scope list_scope.

(* key families = the Go key types []byte / *rsa.PublicKey / *ecdsa.PublicKey / ed25519.PublicKey *)
Inductive family := FHmac | FRsa | FEcdsa | FEd.

Definition family_eqb (a b : family) : bool :=
  match a, b with
  | FHmac, FHmac | FRsa, FRsa | FEcdsa, FEcdsa | FEd, FEd => true
  | _, _ => false
  end.

Record key := { k_id : string; k_fam : family }.

Definition key_eqb (a b : key) : bool := String.eqb (k_id a) (k_id b) && family_eqb (k_fam a) (k_fam b).

(* the HMAC key of length 0: what `v.hmacSecretKey` is when no HMAC secret is configured
   (pkg/auth/jwtverifier.go:87, a nil []byte passes golang-jwt's `key.([]byte)` check, hmac.go:62) *)
Definition empty_hmac_key : key := {| k_id := ""; k_fam := FHmac |}.

Definition mem (s : string) (l : list string) : bool := existsb (String.eqb s) l.

(* jwt.GetSigningMethod (signing_method.go): the registered algorithms and the key type each one demands.
   "none" is registered too but verifies only under the magic constant jwt.UnsafeAllowNoneSignatureType (none.go:28). *)
Definition hs_algs := ["HS256"; "HS384"; "HS512"].
Definition rs_algs := ["RS256"; "RS384"; "RS512"].
Definition ps_algs := ["PS256"; "PS384"; "PS512"].
Definition es_algs := ["ES256"; "ES384"; "ES512"].

Definition alg_family (a : string) : option family :=
  if mem a hs_algs then Some FHmac
  else if mem a rs_algs then Some FRsa
  else if mem a ps_algs then Some FRsa
  else if mem a es_algs then Some FEcdsa
  else if String.eqb a "EdDSA" then Some FEd
  else None.

Definition alg_registered (a : string) : bool :=
  match alg_family a with Some _ => true | None => String.eqb a "none" end.

Record token := {
  t_alg : string;               (* header "alg" *)
  t_signed_by : option key;     (* whose secret/private half produced the signature segment (None: nobody's) *)
  t_intact : bool;              (* false: a segment was altered after signing *)
  t_kid : option string;        (* header "kid" *)
  t_exp : option Z;             (* claim exp, seconds since the epoch (jwt.NumericDate, second precision) *)
  t_nbf : option Z;             (* claim nbf *)
  t_aud : list string;          (* claim aud (a single string is a one-element list: ClaimStrings) *)
  t_iss : option string;        (* claim iss *)
  t_endpoints : list string     (* claim piko.endpoints (auth.PikoClaims) *)
}.

(* SigningMethod.Verify(signingString, sig, key) = nil *)
Definition sig_valid (t : token) (k : key) : bool :=
  t_intact t
  && match t_signed_by t with Some k' => key_eqb k' k | None => false end
  && match alg_family (t_alg t) with Some f => family_eqb f (k_fam k) | None => false end.
