(* Token verification and the three endpoint-checking route functions (model only, no proofs).
   pkg/middleware/auth.go, pkg/auth/jwtverifier.go, pkg/auth/multi_tenant_verifier.go, pkg/auth/verifier.go,
   server/proxy/server.go (proxyHTTPRoute, proxyTCPRoute, EndpointIDFromRequest), server/upstream/server.go (upstreamRoute). *)
From Coq Require Import List String Ascii ZArith NArith Bool.
From Piko Require Import Auth.Token.
Import ListNotations.
Open Scope string_scope. Open Scope list_scope.

(* ------------------------------------------------------------------ verifier configuration *)
(* one key of a JWK set: kid, key material, optional "alg" parameter *)
Record jwk := { j_kid : string; j_key : key; j_alg : option string }.

(* auth.LoadedConfig (pkg/auth/config.go:51) as consumed by NewJWTVerifier (jwtverifier.go:40) *)
Record vcfg := {
  c_hmac : option key;          (* len(conf.HMACSecretKey) > 0 *)
  c_rsa : option key;           (* conf.RSAPublicKey != nil *)
  c_ecdsa : option key;         (* conf.ECDSAPublicKey != nil *)
  c_jwks : option (list jwk);   (* conf.JWKS != nil: keyfunc over the loaded set *)
  c_aud : string;               (* "" = audience not checked *)
  c_iss : string;               (* "" = issuer not checked *)
  c_noexp : bool                (* DisableDisconnectOnExpiry *)
}.

Definition is_some {A} (o : option A) : bool := match o with Some _ => true | None => false end.
Definition is_nil {A} (l : list A) : bool := match l with [] => true | _ => false end.

(* auth.Config.Enabled (config.go:64): at least one verification key is configured *)
Definition enabled (c : vcfg) : bool := is_some (c_hmac c) || is_some (c_rsa c) || is_some (c_ecdsa c) || is_some (c_jwks c).

(* v.methods (jwtverifier.go:47-58): derived from the configured static keys only *)
Definition methods (c : vcfg) : list string :=
  (if is_some (c_hmac c) then hs_algs else []) ++
  (if is_some (c_rsa c) then rs_algs else []) ++
  (if is_some (c_ecdsa c) then es_algs else []).

(* what the key function hands to golang-jwt *)
Inductive keyres :=
| KKey (k : key)            (* one key *)
| KSet (ks : list key)      (* jwt.VerificationKeySet: any of them may verify *)
| KNilKey                   (* a nil *rsa.PublicKey / *ecdsa.PublicKey: Verify dereferences it and panics *)
| KErr.                     (* key function error: ErrTokenUnverifiable *)

(* the switch of the key function, jwtverifier.go:82-103 *)
Definition static_key (c : vcfg) (a : string) : keyres :=
  if mem a hs_algs then KKey (match c_hmac c with Some k => k | None => empty_hmac_key end)
  else if mem a rs_algs then match c_rsa c with Some k => KKey k | None => KNilKey end
  else if mem a es_algs then match c_ecdsa c with Some k => KKey k | None => KNilKey end
  else KErr.

(* keyfunc v3.8.0 KeyfuncCtx (keyfunc.go:215-265): no kid -> all keys; kid -> that key, whose "alg"
   parameter (when present) must equal the token's *)
Definition jwks_key (ks : list jwk) (t : token) : keyres :=
  match t_kid t with
  | None => if is_nil ks then KErr else KSet (map j_key ks)
  | Some kid =>
      match find (fun j => String.eqb (j_kid j) kid) ks with
      | None => KErr
      | Some j =>
          match j_alg j with
          | Some a => if String.eqb a (t_alg t) then KKey (j_key j) else KErr
          | None => KKey (j_key j)
          end
      end
  end.

(* keyFunc (JWKS) takes precedence over the other ways of verification, jwtverifier.go:78 *)
Definition key_for (c : vcfg) (t : token) : keyres :=
  match c_jwks c with
  | Some ks => jwks_key ks t
  | None => static_key c (t_alg t)
  end.

Inductive vres :=
| VOk (expiry : option Z) (endpoints : list string)
| VInvalid                  (* auth.ErrInvalidToken *)
| VExpired                  (* auth.ErrExpiredToken *)
| VPanic.                   (* nil public key dereferenced (only a verifier without keys can get here) *)

Definition ns (sec : Z) : Z := (sec * 1000000000)%Z.

(* Validator.Validate (golang-jwt validator.go:95): all failing checks are joined; JWTVerifier.Verify
   answers ErrExpiredToken when ErrTokenExpired is among them, otherwise ErrInvalidToken (jwtverifier.go:107-112).
   now is in nanoseconds, claims in seconds: exp valid iff now < exp, nbf valid iff nbf <= now. *)
Definition claims_check (c : vcfg) (t : token) (now : Z) : vres :=
  let e_exp := match t_exp t with Some e => negb (now <? ns e)%Z | None => false end in
  let e_nbf := match t_nbf t with Some n => (now <? ns n)%Z | None => false end in
  let e_aud := negb (String.eqb (c_aud c) "") && negb (mem (c_aud c) (t_aud t)) in
  let e_iss := negb (String.eqb (c_iss c) "")
               && negb (match t_iss t with Some i => String.eqb i (c_iss c) | None => false end) in
  if e_exp then VExpired
  else if e_nbf || e_aud || e_iss then VInvalid
  else VOk (if c_noexp c then None else t_exp t) (t_endpoints t).

(* JWTVerifier.Verify (jwtverifier.go:63) over jwt.ParseWithClaims (parser.go:55).
   ot = None: the string is not a parseable compact JWT (ErrTokenMalformed). *)
Definition jwt_verify (c : vcfg) (ot : option token) (now : Z) : vres :=
  match ot with
  | None => VInvalid
  | Some t =>
      if negb (alg_registered (t_alg t)) then VInvalid     (* signing method (alg) is unavailable *)
      else
        let ms := methods c in
        (* WithValidMethods(v.methods): golang-jwt skips the check when the slice is nil (parser.go:62) *)
        if negb (is_nil ms) && negb (mem (t_alg t) ms) then VInvalid
        else match key_for c t with
             | KErr => VInvalid
             | KNilKey => VPanic
             | KKey k => if sig_valid t k then claims_check c t now else VInvalid
             | KSet ks => if existsb (sig_valid t) ks then claims_check c t now else VInvalid
             end
  end.

(* ------------------------------------------------------------------ MultiTenantVerifier (multi_tenant_verifier.go) *)
Record mtv := { mt_default : vcfg; mt_tenants : list (string * vcfg) }.

Fixpoint lookup_tenant (id : string) (l : list (string * vcfg)) : option vcfg :=
  match l with
  | [] => None
  | (k, v) :: r => if String.eqb k id then Some v else lookup_tenant id r
  end.

(* auth.Token (verifier.go:17) *)
Record atoken := { at_endpoints : list string; at_tenant : string; at_expiry : option Z }.

Inductive mres := MOk (t : atoken) | MInvalid | MExpired | MUnknownTenant | MPanic.

Definition lift_vres (tenant : string) (r : vres) : mres :=
  match r with
  | VOk ex eps => MOk {| at_endpoints := eps; at_tenant := tenant; at_expiry := ex |}
  | VInvalid => MInvalid
  | VExpired => MExpired
  | VPanic => MPanic
  end.

Definition multi_tenant (m : mtv) (ot : option token) (tenant : string) (now : Z) : mres :=
  if String.eqb tenant "" then
    if negb (is_nil (mt_tenants m)) then MUnknownTenant   (* tenants configured: the default tenant is disabled *)
    else lift_vres "" (jwt_verify (mt_default m) ot now)
  else
    match lookup_tenant tenant (mt_tenants m) with
    | None => MUnknownTenant
    | Some c => lift_vres tenant (jwt_verify c ot now)
    end.

(* ------------------------------------------------------------------ requests and the Auth middleware *)
Record request := {
  rq_method : string;
  rq_path : string;             (* URL path *)
  rq_host : string;             (* Host header *)
  rq_xendpoint : string;        (* x-piko-endpoint, "" = absent *)
  rq_xauth : string;            (* x-piko-authorization, "" = absent *)
  rq_auth : string;             (* Authorization, "" = absent *)
  rq_tenant : string;           (* x-piko-tenant-id, "" = absent *)
  rq_forward : option string    (* query parameter forward (admin port) *)
}.

(* strings.Cut(s, " ") *)
Fixpoint cut_space (s : string) : option (string * string) :=
  match s with
  | EmptyString => None
  | String c r =>
      if Ascii.eqb c " "%char then Some (EmptyString, r)
      else match cut_space r with
           | Some (a, b) => Some (String c a, b)
           | None => None
           end
  end.

(* the header the middleware reads: x-piko-authorization takes precedence, auth.go:96-99 *)
Definition preferred_header (rq : request) : string :=
  if String.eqb (rq_xauth rq) "" then rq_auth rq else rq_xauth rq.

Inductive parsed := PTok (s : string) | PErr (e : string).

(* Auth.parseToken, auth.go:92-131 *)
Definition parse_token (rq : request) : parsed :=
  let a := preferred_header rq in
  if String.eqb a "" then PErr "missing authorization"
  else match cut_space a with
       | None => PErr "invalid authorization"
       | Some (ty, tok) => if String.eqb ty "Bearer" then PTok tok else PErr "unsupported auth type"
       end.

Inductive decision := Accept (t : atoken) | Reject (status : N) (err : string).

(* Auth.Verify, auth.go:36-90. dec = the JWT parse of a token string (None: malformed).
   A panic is answered by gin's recovery middleware with 500 (panicRoute). *)
Definition auth_mw (m : mtv) (dec : string -> option token) (rq : request) (now : Z) : decision :=
  match parse_token rq with
  | PErr e => Reject 401 e
  | PTok s =>
      match multi_tenant m (dec s) (rq_tenant rq) now with
      | MOk t => Accept t
      | MInvalid => Reject 401 "invalid token"
      | MExpired => Reject 401 "expired token"
      | MUnknownTenant => Reject 401 "unknown tenant"
      | MPanic => Reject 500 ""
      end
  end.

(* ------------------------------------------------------------------ endpoint permission and routing *)
(* Token.EndpointPermitted, verifier.go:36: no endpoints = all; otherwise slices.Contains *)
Definition endpoint_permitted (t : atoken) (e : string) : bool :=
  match at_endpoints t with
  | [] => true
  | l => mem e l
  end.

(* --- EndpointIDFromRequest, server/proxy/server.go:186. Host parsing is modelled for hosts of the forms
   name(.name)*[:port], a.b.c.d[:port] (no IPv6 literals, no brackets). *)
Fixpoint count_char (c : ascii) (s : string) : nat :=
  match s with EmptyString => O | String a r => (if Ascii.eqb a c then 1 else 0) + count_char c r end.

Fixpoint before_char (c : ascii) (s : string) : string :=
  match s with
  | EmptyString => EmptyString
  | String a r => if Ascii.eqb a c then EmptyString else String a (before_char c r)
  end.

Fixpoint split_on (c : ascii) (s : string) : list string :=
  match s with
  | EmptyString => [EmptyString]
  | String a r =>
      if Ascii.eqb a c then EmptyString :: split_on c r
      else match split_on c r with
           | x :: l => String a x :: l
           | [] => [String a EmptyString]
           end
  end.

(* net.SplitHostPort: exactly one colon -> the part before it; otherwise an error and the whole Host is kept *)
Definition strip_port (h : string) : string :=
  match count_char ":"%char h with
  | 1%nat => before_char ":"%char h
  | _ => h
  end.

Definition is_digit (c : ascii) : bool := let n := N_of_ascii c in (48 <=? n)%N && (n <=? 57)%N.
Fixpoint all_digits (s : string) : bool :=
  match s with EmptyString => true | String c r => is_digit c && all_digits r end.
Fixpoint dec_value (acc : N) (s : string) : N :=
  match s with EmptyString => acc | String c r => dec_value (acc * 10 + (N_of_ascii c - 48))%N r end.

(* one field of a dotted quad as net.ParseIP / netip accept it: 1-3 digits, <= 255, no leading zero *)
Definition quad_field (s : string) : bool :=
  match s with
  | EmptyString => false
  | String c r =>
      all_digits s && (String.length s <=? 3)%nat && (dec_value 0 s <=? 255)%N
      && (negb (Ascii.eqb c "0"%char) || String.eqb r "")
  end.

Definition is_ipv4 (h : string) : bool :=
  match split_on "."%char h with
  | [a; b; c; d] => quad_field a && quad_field b && quad_field c && quad_field d
  | _ => false
  end.

Definition endpoint_id_from_request (rq : request) : string :=
  if negb (String.eqb (rq_xendpoint rq) "") then rq_xendpoint rq      (* x-piko-endpoint takes precedence *)
  else
    let host := strip_port (rq_host rq) in
    if String.eqb host "" then ""
    else if is_ipv4 host then ""                                       (* ignore IP addresses *)
    else match split_on "."%char host with
         | lbl :: _ :: _ => lbl                                        (* contains ".": the bottom-level label *)
         | _ => ""
         end.

(* what a route function does, in order: the permission check it makes and the routing call it makes *)
Inductive event :=
| EvPermitted (e : string)      (* endpointToken.EndpointPermitted(e) evaluated *)
| EvSelect (e : string)         (* upstreams.Select(e, ..) through HTTPProxy/TCPProxy.ServeHTTP(w, r, e) *)
| EvAddConn (e : string).       (* upstreams.AddConn(NewConnUpstream(e, sess)) *)

Inductive route_answer :=
| RA401 (err : string)          (* c.JSON(401, {"error": err}) *)
| RA400 (err : string)          (* c.JSON(400, {"error": err}) *)
| RARouted.                     (* handed to the proxy / registered *)

(* check-then-route over one endpoint id: the common body of the three route functions.
   tok = c.Get(TokenContextKey): None when no auth middleware ran. *)
Definition check_then_route (tok : option atoken) (e : string) (route : string -> event) : list event * route_answer :=
  match tok with
  | Some t =>
      if endpoint_permitted t e then ([EvPermitted e; route e], RARouted)
      else ([EvPermitted e], RA401 "endpoint not permitted")
  | None => ([route e], RARouted)
  end.

(* Server.proxyHTTPRoute, server/proxy/server.go:117 *)
Definition proxy_http_route (tok : option atoken) (rq : request) : list event * route_answer :=
  let e := endpoint_id_from_request rq in
  if String.eqb e "" then ([], RA400 "missing endpoint id")
  else check_then_route tok e EvSelect.

(* Server.proxyTCPRoute, server/proxy/server.go:152; param = c.Param("endpointID") *)
Definition proxy_tcp_route (tok : option atoken) (param : string) : list event * route_answer :=
  check_then_route tok param EvSelect.

(* Server.upstreamRoute, server/upstream/server.go:163 (up to AddConn; the websocket upgrade is environment) *)
Definition upstream_route (tok : option atoken) (param : string) : list event * route_answer :=
  check_then_route tok param EvAddConn.
