(* One request against one piko port: gin dispatch over the registered table, then the handler chain
   (model only, no proofs). gin context.go Next/Abort: the chain runs in order, an aborting middleware ends it. *)
From Coq Require Import List String ZArith NArith Bool.
From Piko Require Import Auth.Token Auth.Verify Auth.Routes.
Import ListNotations.
Open Scope string_scope. Open Scope list_scope.

(* what a port was constructed with (the arguments of proxy/upstream/admin.NewServer that registration depends on) *)
Record portcfg := {
  pc_verifier : option mtv;                       (* verifier != nil *)
  pc_cluster : option (string * list string);     (* clusterState != nil: (local node id, other known node ids) *)
  pc_registry : bool                              (* registry != nil *)
}.

(* valuation of the condition texts the extractor emits; an unknown condition counts as false *)
Definition env_of (pc : portcfg) (name : string) : bool :=
  if String.eqb name "verifier" then is_some (pc_verifier pc)
  else if String.eqb name "clusterState != nil" then is_some (pc_cluster pc)
  else if String.eqb name "s.registry != nil" then pc_registry pc
  else false.

Inductive outcome :=
| O401 (err : string)               (* 401 {"error": err}; nothing else happened *)
| OStatus (code : N) (err : string) (* another definite piko answer without side effect (400, 404, 500) *)
| ORedirect                         (* gin's trailing-slash redirect (301 GET / 307 otherwise) *)
| OSelect (e : string)              (* proxy port: upstreams.Select(e, _) was called *)
| OAddConn (e : string)             (* upstream port: upstreams.AddConn(endpoint e) was called *)
| OForward (node : string)          (* admin port: the request was forwarded to that node's admin address *)
| OHandler (name : string).         (* a handler whose own answer is not modelled ran *)

Definition outcome_of_reject (status : N) (err : string) : outcome :=
  if (status =? 401)%N then O401 err else OStatus status err.

(* the final handler; tok = c.Get(TokenContextKey) *)
Definition run_handler (h : option string) (tok : option atoken) (rq : request) (params : list (string * string)) : outcome :=
  let of_route (r : list event * route_answer) (routed : string -> outcome) (e : string) :=
      match snd r with
      | RA401 err => O401 err
      | RA400 err => OStatus 400 err
      | RARouted => routed e
      end in
  match h with
  | None => OStatus 404 ""                                      (* gin's default 404 body, no JSON error *)
  | Some name =>
      if String.eqb name "s.proxyHTTPRoute" then
        of_route (proxy_http_route tok rq) OSelect (endpoint_id_from_request rq)
      else if String.eqb name "s.proxyTCPRoute" then
        of_route (proxy_tcp_route tok (lookup_param "endpointID" params)) OSelect (lookup_param "endpointID" params)
      else if String.eqb name "s.upstreamRoute" then
        of_route (upstream_route tok (lookup_param "endpointID" params)) OAddConn (lookup_param "endpointID" params)
      else OHandler name
  end.

(* the middleware of a chain, in order. "auth" = middleware.Auth.Verify; "server.forwardInterceptor" =
   admin.Server.forwardInterceptor (server/admin/server.go:156); every other middleware calls c.Next(). *)
Fixpoint run_chain (pc : portcfg) (dec : string -> option token) (rq : request) (now : Z)
         (mws : list string) (h : option string) (params : list (string * string)) (tok : option atoken) : outcome :=
  match mws with
  | [] => run_handler h tok rq params
  | mw :: rest =>
      if String.eqb mw "auth" then
        match pc_verifier pc with
        | None => run_chain pc dec rq now rest h params tok
        | Some m =>
            match auth_mw m dec rq now with
            | Accept t => run_chain pc dec rq now rest h params (Some t)
            | Reject s e => outcome_of_reject s e
            end
        end
      else if String.eqb mw "server.forwardInterceptor" then
        match rq_forward rq, pc_cluster pc with
        | Some id, Some (local, nodes) =>
            if String.eqb id local then run_chain pc dec rq now rest h params tok
            else if mem id nodes then OForward id
            else OStatus 404 ""
        | _, _ => run_chain pc dec rq now rest h params tok
        end
      else run_chain pc dec rq now rest h params tok
  end.

Definition serve_on (e : engine) (pc : portcfg) (dec : string -> option token) (rq : request) (now : Z) : outcome :=
  match dispatch e (rq_method rq) (rq_path rq) with
  | DRedirect => ORedirect
  | DRoute r ps => run_chain pc dec rq now (rt_mws r) (Some (rt_handler r)) ps None
  | DNoRoute => let ch := noroute_chain e in run_chain pc dec rq now (fst ch) (snd ch) [] None
  end.

Definition serve (ops : list regop) (pc : portcfg) (dec : string -> option token) (rq : request) (now : Z) : outcome :=
  serve_on (build (env_of pc) ops) pc dec rq now.
