(** Facts about the binary64 operations used by the rebalance model (Flocq), property C19. *)
From Coq Require Import ZArith List Bool Reals Lia Lra.
From Flocq Require Import Core IEEE754.BinarySingleNaN.
From Piko Require Import Rebalance.Rebalance.
Import ListNotations.
Open Scope Z_scope.

Notation fexp64 := (SpecFloat.fexp 53 1024).
Notation RN := (round radix2 fexp64 ZnearestE).

Lemma valid_exp64 : Valid_exp fexp64.
Proof. apply (fexp_correct 53 1024). exact Hprec64. Qed.
#[export] Existing Instance valid_exp64.

(* integers below 2^53 in magnitude are binary64 numbers *)
Lemma generic_format_IZR_small :
  forall z : Z, Z.abs z < 2 ^ 53 -> generic_format radix2 fexp64 (IZR z).
Proof.
  intros z Hz.
  apply (generic_format_FLT radix2 (3 - 1024 - 53) 53).
  apply (FLT_spec radix2 (3 - 1024 - 53) 53 (IZR z) (Float radix2 z 0)).
  - unfold F2R. simpl. lra.
  - simpl. exact Hz.
  - simpl. lia.
Qed.

Lemma RN_IZR_small : forall z : Z, Z.abs z < 2 ^ 53 -> RN (IZR z) = IZR z.
Proof.
  intros z Hz. apply round_generic.
  - apply valid_rnd_N.
  - now apply generic_format_IZR_small.
Qed.

Lemma bpow53_lt_emax : (bpow radix2 53 < bpow radix2 1024)%R.
Proof. apply bpow_lt. lia. Qed.

Lemma bpow53_IZR : bpow radix2 53 = IZR (2 ^ 53).
Proof. reflexivity. Qed.

(* |x| <= 2^53  ->  |RN x| <= 2^53 *)
Lemma RN_abs_le_2p53 : forall x : R, (Rabs x <= IZR (2 ^ 53))%R -> (Rabs (RN x) <= IZR (2 ^ 53))%R.
Proof.
  intros x Hx. rewrite <- bpow53_IZR in *.
  apply (@abs_round_le_generic radix2 fexp64 valid_exp64 ZnearestE (valid_rnd_N _)).
  - apply generic_format_bpow. unfold SpecFloat.fexp, SpecFloat.emin. lia.
  - exact Hx.
Qed.

Lemma RN_no_overflow_2p53 :
  forall x : R, (Rabs x <= IZR (2 ^ 53))%R -> Rlt_bool (Rabs (RN x)) (bpow radix2 1024) = true.
Proof.
  intros x Hx. apply Rlt_bool_true.
  apply Rle_lt_trans with (IZR (2 ^ 53)).
  - now apply RN_abs_le_2p53.
  - rewrite <- bpow53_IZR. apply bpow53_lt_emax.
Qed.

(** float64(i) is exact below 2^53 *)
Lemma f64_of_int_exact :
  forall z : Z, Z.abs z < 2 ^ 53 ->
  B2R (f64_of_int z) = IZR z /\ is_finite (f64_of_int z) = true.
Proof.
  intros z Hz.
  generalize (binary_normalize_correct 53 1024 Hprec64 Hpe64 mode_NE z 0 false).
  cbv zeta. fold (f64_of_int z).
  assert (HF : F2R (Float radix2 z 0) = IZR z) by (unfold F2R; simpl; lra).
  rewrite HF. simpl round_mode.
  rewrite RN_IZR_small by exact Hz.
  rewrite Rlt_bool_true.
  - intros [H1 [H2 _]]. split; assumption.
  - apply Rle_lt_trans with (IZR (2 ^ 53)).
    + rewrite <- abs_IZR. apply IZR_le. lia.
    + rewrite <- bpow53_IZR. apply bpow53_lt_emax.
Qed.

(** math.Ceil *)
Lemma fceil_correct :
  forall x : f64, B2R (fceil x) = IZR (Zceil (B2R x)) /\ is_finite (fceil x) = is_finite x.
Proof.
  intros x. unfold fceil.
  destruct (Bnearbyint_correct 53 1024 Hpe64 mode_UP x) as [H1 [H2 _]].
  split; [|exact H2].
  rewrite H1. simpl round_mode. apply round_FIX_IZR.
Qed.

(** int(f): either the "integer indefinite" value, or f is finite and the result is its truncation *)
Lemma go_int_of_f64_cases :
  forall x : f64,
  go_int_of_f64 x = min_int64 \/ (is_finite x = true /\ go_int_of_f64 x = Ztrunc (B2R x)).
Proof.
  intros x. unfold go_int_of_f64.
  destruct (Bleb (f64_of_int min_int64) x && Bltb x (f64_of_int (2 ^ 63))) eqn:E; [|now left].
  right.
  assert (Hfin : is_finite x = true).
  { destruct x as [s|[|]| |s m e H]; try reflexivity; vm_compute in E; discriminate E. }
  split; [exact Hfin|].
  apply eq_IZR. rewrite (Btrunc_correct 53 1024 Hpe64 x). apply round_FIX_IZR.
Qed.

(** comparison of finite floats is comparison of their values *)
Lemma flt_correct :
  forall x y : f64, is_finite x = true -> is_finite y = true -> flt x y = Rlt_bool (B2R x) (B2R y).
Proof. intros x y Hx Hy. unfold flt. now apply Bltb_correct. Qed.

Lemma Rlt_bool_false_le : forall x y : R, Rlt_bool x y = false -> (y <= x)%R.
Proof. intros x y H. destruct (Rlt_bool_spec x y) as [H'|H']; [discriminate H | exact H']. Qed.
