(** Proofs about the rebalance model (property C19). *)
From Coq Require Import ZArith List Bool Reals Lia Lra.
From Flocq Require Import Core IEEE754.BinarySingleNaN.
From Piko Require Import Rebalance.Rebalance RebalanceP.FloatP.
Import ListNotations.
Open Scope Z_scope.

(** * The cap  float64(avgConns) * ShedRate *)

Definition rate_ok (cfg : config) : Prop :=
  is_finite (c_shed_rate cfg) = true /\ (0 <= B2R (c_shed_rate cfg) <= 1)%R.

(* the real-number cap of the property: shed rate times the (integer) average, rounded up *)
Definition real_cap (cfg : config) (avg : Z) : Z := Zceil (IZR avg * B2R (c_shed_rate cfg)).

Lemma rate_valid_ok : forall cfg : config, rate_valid cfg = true -> rate_ok cfg.
Proof.
  intros cfg H. unfold rate_valid in H.
  apply andb_prop in H. destruct H as [H H1]. apply andb_prop in H. destruct H as [Hfin H0].
  split; [exact Hfin|].
  destruct (f64_of_int_exact 1 ltac:(lia)) as [Hone Honefin]. fold fone in Hone, Honefin.
  unfold fle in *.
  rewrite (Bleb_correct 53 1024 fzero (c_shed_rate cfg) eq_refl Hfin) in H0.
  rewrite (Bleb_correct 53 1024 (c_shed_rate cfg) fone Hfin Honefin) in H1.
  rewrite Hone in H1. simpl (B2R fzero) in H0.
  split.
  - destruct (Rle_bool_spec 0 (B2R (c_shed_rate cfg))); [assumption | discriminate].
  - destruct (Rle_bool_spec (B2R (c_shed_rate cfg)) 1); [assumption | discriminate].
Qed.

(* x * r lies between 0 and x for 0 <= r <= 1 *)
Lemma mul_rate_between :
  forall x r : R, (0 <= r <= 1)%R ->
  ((0 <= x -> 0 <= x * r <= x) /\ (x <= 0 -> x <= x * r <= 0))%R.
Proof.
  intros x r Hr. split; intros Hx.
  - split.
    + apply Rmult_le_pos; lra.
    + rewrite <- (Rmult_1_r x) at 2. apply Rmult_le_compat_l; lra.
  - assert (H1 : (0 <= (- x) * r)%R) by (apply Rmult_le_pos; lra).
    assert (H2 : ((- x) * r <= (- x) * 1)%R) by (apply Rmult_le_compat_l; lra).
    lra.
Qed.

Lemma abs_mul_rate_le :
  forall (a : Z) (r : R), (0 <= r <= 1)%R -> (Rabs (IZR a * r) <= IZR (Z.abs a))%R.
Proof.
  intros a r Hr. rewrite Rabs_mult, abs_IZR, (Rabs_pos_eq r) by lra.
  destruct (mul_rate_between (Rabs (IZR a)) r Hr) as [H _].
  apply H, Rabs_pos.
Qed.

Lemma cap_correct :
  forall (cfg : config) (avg : Z),
  Z.abs avg < 2 ^ 53 -> rate_ok cfg ->
  is_finite (cap cfg avg) = true /\ B2R (cap cfg avg) = RN (IZR avg * B2R (c_shed_rate cfg)).
Proof.
  intros cfg avg Havg [Hfin Hr].
  destruct (f64_of_int_exact avg Havg) as [HA HAfin].
  unfold cap, fmul.
  generalize (Bmult_correct 53 1024 Hprec64 Hpe64 mode_NE (f64_of_int avg) (c_shed_rate cfg)).
  rewrite HA. simpl round_mode.
  rewrite RN_no_overflow_2p53.
  - intros [H1 [H2 _]]. rewrite H2, HAfin, Hfin. split; [reflexivity | exact H1].
  - apply Rle_trans with (IZR (Z.abs avg)).
    + now apply abs_mul_rate_le.
    + apply IZR_le. lia.
Qed.

Lemma real_cap_abs_le :
  forall (cfg : config) (avg : Z), rate_ok cfg -> Z.abs (real_cap cfg avg) <= Z.abs avg.
Proof.
  intros cfg avg [_ Hr]. unfold real_cap.
  set (r := B2R (c_shed_rate cfg)) in *.
  destruct (Z_le_gt_dec 0 avg) as [Hp|Hn].
  - assert (H0 : (0 <= IZR avg)%R) by now apply IZR_le.
    assert (Hlo : 0 <= Zceil (IZR avg * r)).
    { rewrite <- (Zceil_IZR 0). apply Zceil_le. apply (mul_rate_between (IZR avg) r Hr); lra. }
    assert (Hhi : Zceil (IZR avg * r) <= avg).
    { rewrite <- (Zceil_IZR avg) at 2. apply Zceil_le. apply (mul_rate_between (IZR avg) r Hr); lra. }
    lia.
  - assert (H0 : (IZR avg < 0)%R) by (apply IZR_lt; lia).
    assert (Hhi : Zceil (IZR avg * r) <= 0).
    { rewrite <- (Zceil_IZR 0). apply Zceil_le. apply (mul_rate_between (IZR avg) r Hr); lra. }
    assert (Hlo : avg <= Zceil (IZR avg * r)).
    { rewrite <- (Zceil_IZR avg) at 1. apply Zceil_le. apply (mul_rate_between (IZR avg) r Hr); lra. }
    lia.
Qed.

(* monotonicity of rounding: the float cap never exceeds the real-number cap *)
Lemma cap_le_real_cap :
  forall (cfg : config) (avg : Z),
  Z.abs avg < 2 ^ 53 -> rate_ok cfg ->
  (B2R (cap cfg avg) <= IZR (real_cap cfg avg))%R.
Proof.
  intros cfg avg Havg Hr.
  destruct (cap_correct cfg avg Havg Hr) as [_ HB]. rewrite HB.
  assert (Hc : Z.abs (real_cap cfg avg) < 2 ^ 53).
  { generalize (real_cap_abs_le cfg avg Hr). lia. }
  rewrite <- (RN_IZR_small (real_cap cfg avg) Hc).
  apply (@round_le radix2 fexp64 valid_exp64 ZnearestE (valid_rnd_N _)).
  unfold real_cap. apply Zceil_ub.
Qed.

(** * The argument of shedSessions never exceeds the real-number cap *)

Lemma min_int64_lt : forall z : Z, Z.abs z < 2 ^ 53 -> min_int64 <= z.
Proof. intros z Hz. unfold min_int64. lia. Qed.

Lemma shed_arg_le_real_cap :
  forall (cfg : config) (open avg : Z),
  Z.abs avg < 2 ^ 53 -> rate_ok cfg ->
  go_int_of_f64 (shedding cfg open avg) <= real_cap cfg avg.
Proof.
  intros cfg open avg Havg Hr.
  assert (Hc : Z.abs (real_cap cfg avg) < 2 ^ 53).
  { generalize (real_cap_abs_le cfg avg Hr). lia. }
  destruct (cap_correct cfg avg Havg Hr) as [Hcfin _].
  generalize (cap_le_real_cap cfg avg Havg Hr). intros Hle.
  unfold shedding.
  set (s := fmul (f64_of_int open) (balance open avg)).
  destruct (fgt s (cap cfg avg)) eqn:E.
  - (* capped: ceil of the float cap *)
    destruct (go_int_of_f64_cases (fceil (cap cfg avg))) as [H|[_ H]]; rewrite H.
    + now apply min_int64_lt.
    + destruct (fceil_correct (cap cfg avg)) as [HB _]. rewrite HB, Ztrunc_IZR.
      rewrite <- (Zceil_IZR (real_cap cfg avg)). now apply Zceil_le.
  - (* not capped: shedding <= cap *)
    destruct (go_int_of_f64_cases s) as [H|[Hsfin H]]; rewrite H.
    + now apply min_int64_lt.
    + unfold fgt in E. rewrite (Bltb_correct 53 1024 _ _ Hcfin Hsfin) in E.
      apply Rlt_bool_false_le in E.
      rewrite <- (Ztrunc_IZR (real_cap cfg avg)). apply Ztrunc_le. lra.
Qed.

(** * Guards *)

Theorem guarded_closes_nothing :
  forall (cfg : config) (open : Z) (c : cluster),
  guarded cfg open c = true -> tick cfg open c = 0.
Proof.
  intros cfg open c. unfold guarded, tick, rebalance, decide.
  destruct (enabled cfg); [|reflexivity].
  destruct (known_nodes c <=? 1); [reflexivity|].
  destruct (open =? 0); [reflexivity|].
  destruct (open <? go_int_of_uint (c_min_conns cfg)); [reflexivity|].
  destruct (flt (balance open (avg_conns c)) (c_threshold cfg)); [reflexivity|].
  simpl. discriminate.
Qed.

Theorem guards_close_nothing :
  forall (cfg : config) (open : Z) (c : cluster),
  enabled cfg = false \/ known_nodes c <= 1 \/ open = 0 \/ open < go_int_of_uint (c_min_conns cfg)
  \/ flt (balance open (avg_conns c)) (c_threshold cfg) = true ->
  tick cfg open c = 0.
Proof.
  intros cfg open c H. apply guarded_closes_nothing. unfold guarded.
  destruct H as [H|[H|[H|[H|H]]]].
  - now rewrite H.
  - apply Z.leb_le in H. rewrite H. now rewrite !orb_true_r.
  - apply Z.eqb_eq in H. rewrite H. now rewrite !orb_true_r.
  - apply Z.ltb_lt in H. rewrite H. now rewrite !orb_true_r.
  - rewrite H. now rewrite !orb_true_r.
Qed.

Theorem sheds_only_past_guards :
  forall (cfg : config) (open : Z) (c : cluster),
  0 <= open -> tick cfg open c <> 0 ->
  enabled cfg = true /\ 1 < known_nodes c /\ 0 < open /\ go_int_of_uint (c_min_conns cfg) <= open
  /\ flt (balance open (avg_conns c)) (c_threshold cfg) = false.
Proof.
  intros cfg open c Hopen Hk.
  destruct (guarded cfg open c) eqn:G.
  { elim Hk. now apply guarded_closes_nothing. }
  unfold guarded in G.
  apply orb_false_elim in G. destruct G as [G G5].
  apply orb_false_elim in G. destruct G as [G G4].
  apply orb_false_elim in G. destruct G as [G G3].
  apply orb_false_elim in G. destruct G as [G1 G2].
  apply negb_false_iff in G1. apply Z.leb_gt in G2. apply Z.eqb_neq in G3. apply Z.ltb_ge in G4.
  repeat split; auto; lia.
Qed.

Lemma decide_shed_inv :
  forall (cfg : config) (open : Z) (c : cluster) (n : Z),
  decide cfg open c = Shed n -> n = go_int_of_f64 (shedding cfg open (avg_conns c)).
Proof.
  intros cfg open c n. unfold decide.
  destruct (known_nodes c <=? 1); [discriminate|].
  destruct ((open =? 0) || (open <? go_int_of_uint (c_min_conns cfg))); [discriminate|].
  destruct (flt (balance open (avg_conns c)) (c_threshold cfg)); [discriminate|].
  intros H. now inversion H.
Qed.

Theorem unguarded_closes_at_least_one :
  forall (cfg : config) (open : Z) (c : cluster),
  0 <= open -> guarded cfg open c = false -> 1 <= tick cfg open c <= open.
Proof.
  intros cfg open c Hopen. unfold guarded, tick, rebalance, decide.
  destruct (enabled cfg); [|discriminate].
  destruct (known_nodes c <=? 1); [discriminate|].
  destruct (open =? 0) eqn:E0; [discriminate|].
  destruct (open <? go_int_of_uint (c_min_conns cfg)); [discriminate|].
  destruct (flt (balance open (avg_conns c)) (c_threshold cfg)); [discriminate|].
  intros _. simpl. unfold shed_sessions.
  apply Z.eqb_neq in E0.
  destruct (open <=? 0) eqn:E1; [apply Z.leb_le in E1; lia|]. lia.
Qed.

(** * Bounds on what one step closes *)

Theorem tick_bounds :
  forall (cfg : config) (open : Z) (c : cluster),
  0 <= open -> Z.abs (avg_conns c) < 2 ^ 53 -> rate_ok cfg ->
  0 <= tick cfg open c <= open /\ tick cfg open c <= Z.max 1 (real_cap cfg (avg_conns c)).
Proof.
  intros cfg open c Hopen Havg Hr. unfold tick.
  destruct (enabled cfg); [|lia].
  unfold rebalance.
  destruct (decide cfg open c) as [| | |n] eqn:D; simpl; try lia.
  apply decide_shed_inv in D.
  generalize (shed_arg_le_real_cap cfg open (avg_conns c) Havg Hr). rewrite <- D. intros Hn.
  unfold shed_sessions. destruct (open <=? 0); lia.
Qed.

Theorem shed_bounds :
  forall (cfg : config) (open : Z) (c : cluster),
  rate_valid cfg = true -> 0 <= open -> Z.abs (avg_conns c) < 2 ^ 53 ->
  tick cfg open c <> 0 ->
  1 <= tick cfg open c <= open /\
  tick cfg open c <= Z.max 1 (Zceil (IZR (avg_conns c) * B2R (c_shed_rate cfg))).
Proof.
  intros cfg open c Hr Hopen Havg Hk.
  destruct (tick_bounds cfg open c Hopen Havg (rate_valid_ok cfg Hr)) as [H1 H2].
  unfold real_cap in H2. lia.
Qed.

(** * At or below the average *)

Lemma balance_correct :
  forall open avg : Z,
  0 < avg < 2 ^ 53 -> Z.abs (open - avg) < 2 ^ 53 ->
  is_finite (balance open avg) = true /\
  B2R (balance open avg) = RN (IZR (open - avg) / IZR avg).
Proof.
  intros open avg Havg Hd.
  assert (Ha : Z.abs avg < 2 ^ 53) by lia.
  destruct (f64_of_int_exact avg Ha) as [HA HAfin].
  destruct (f64_of_int_exact (open - avg) Hd) as [HD HDfin].
  assert (H1 : (1 <= IZR avg)%R) by (apply IZR_le; lia).
  unfold balance, fdiv.
  generalize (Bdiv_correct 53 1024 Hprec64 Hpe64 mode_NE (f64_of_int (open - avg)) (f64_of_int avg)).
  rewrite HA, HD. simpl round_mode.
  intros H. specialize (H ltac:(lra)).
  rewrite RN_no_overflow_2p53 in H.
  - destruct H as [H2 [H3 _]]. rewrite H3, HDfin. split; [reflexivity | exact H2].
  - unfold Rdiv. rewrite Rabs_mult, <- abs_IZR.
    assert (Hinv : (0 < / IZR avg <= 1)%R).
    { split. apply Rinv_0_lt_compat; lra.
      rewrite <- Rinv_1. apply Rinv_le_contravar; lra. }
    rewrite (Rabs_pos_eq (/ IZR avg)) by lra.
    assert (H0 : (0 <= IZR (Z.abs (open - avg)))%R) by (apply IZR_le; lia).
    assert (H53 : (IZR (Z.abs (open - avg)) <= IZR (2 ^ 53))%R) by (apply IZR_le; lia).
    destruct (mul_rate_between (IZR (Z.abs (open - avg))) (/ IZR avg) ltac:(lra)) as [Hb _].
    specialize (Hb H0). lra.
Qed.

Definition threshold_ok (cfg : config) : Prop :=
  is_finite (c_threshold cfg) = true /\ (0 < B2R (c_threshold cfg))%R.

Lemma threshold_valid_ok : forall cfg : config, threshold_valid cfg = true -> threshold_ok cfg.
Proof.
  intros cfg H. unfold threshold_valid in H.
  apply andb_prop in H. destruct H as [Hfin H0].
  split; [exact Hfin|].
  rewrite (flt_correct fzero (c_threshold cfg) eq_refl Hfin) in H0. simpl (B2R fzero) in H0.
  destruct (Rlt_bool_spec 0 (B2R (c_threshold cfg))); [assumption | discriminate].
Qed.

(* a valid threshold is not 0, so the rebalance loop runs *)
Lemma threshold_valid_enabled : forall cfg : config, threshold_valid cfg = true -> enabled cfg = true.
Proof.
  intros cfg H. destruct (threshold_valid_ok cfg H) as [Hfin Hpos].
  unfold enabled, feq. rewrite (Beqb_correct 53 1024 (c_threshold cfg) fzero Hfin eq_refl).
  simpl (B2R fzero). rewrite Req_bool_false by lra. reflexivity.
Qed.

Theorem at_or_below_average_guarded :
  forall (cfg : config) (open : Z) (c : cluster),
  threshold_ok cfg ->
  0 <= open <= avg_conns c -> 0 < avg_conns c < 2 ^ 53 ->
  flt (balance open (avg_conns c)) (c_threshold cfg) = true.
Proof.
  intros cfg open c [Htfin Htpos] Hopen Havg.
  set (avg := avg_conns c) in *.
  destruct (balance_correct open avg Havg ltac:(lia)) as [Hbfin Hb].
  rewrite (flt_correct _ _ Hbfin Htfin). apply Rlt_bool_true.
  apply Rle_lt_trans with (2 := Htpos).
  rewrite Hb.
  rewrite <- (round_0 radix2 fexp64 ZnearestE).
  apply (@round_le radix2 fexp64 valid_exp64 ZnearestE (valid_rnd_N _)).
  assert (H1 : (1 <= IZR avg)%R) by (apply IZR_le; lia).
  assert (H2 : (IZR (open - avg) <= 0)%R) by (apply IZR_le; lia).
  unfold Rdiv.
  assert (Hinv : (0 < / IZR avg)%R) by (apply Rinv_0_lt_compat; lra).
  assert (Hm : (0 <= (- IZR (open - avg)) * / IZR avg)%R) by (apply Rmult_le_pos; lra).
  lra.
Qed.

Theorem at_or_below_average_closes_nothing :
  forall (cfg : config) (open : Z) (c : cluster),
  threshold_ok cfg ->
  0 <= open <= avg_conns c -> 0 < avg_conns c < 2 ^ 53 ->
  tick cfg open c = 0.
Proof.
  intros cfg open c Ht Hopen Havg. apply guarded_closes_nothing.
  unfold guarded. rewrite (at_or_below_average_guarded cfg open c Ht Hopen Havg).
  now rewrite !orb_true_r.
Qed.

Theorem at_or_below_average :
  forall (cfg : config) (open : Z) (c : cluster),
  threshold_valid cfg = true ->
  0 <= open <= avg_conns c -> 0 < avg_conns c < 2 ^ 53 ->
  tick cfg open c = 0.
Proof.
  intros cfg open c Ht. apply at_or_below_average_closes_nothing. now apply threshold_valid_ok.
Qed.

(* shedding happens only strictly above the average, and only when the (rounded) relative excess reaches the threshold *)
Theorem shed_implies_imbalanced :
  forall (cfg : config) (open : Z) (c : cluster),
  threshold_ok cfg ->
  0 <= open < 2 ^ 53 -> 0 < avg_conns c < 2 ^ 53 ->
  tick cfg open c <> 0 ->
  avg_conns c < open /\
  (B2R (c_threshold cfg) <= RN (IZR (open - avg_conns c) / IZR (avg_conns c)))%R.
Proof.
  intros cfg open c Ht Hopen Havg Hk.
  assert (Hgt : avg_conns c < open).
  { destruct (Z_lt_le_dec (avg_conns c) open) as [H|H]; [exact H|].
    elim Hk. apply at_or_below_average_closes_nothing; auto. lia. }
  split; [exact Hgt|].
  destruct (guarded cfg open c) eqn:G.
  { elim Hk. now apply guarded_closes_nothing. }
  unfold guarded in G. apply orb_false_elim in G. destruct G as [_ G].
  destruct Ht as [Htfin Htpos].
  destruct (balance_correct open (avg_conns c) Havg ltac:(lia)) as [Hbfin Hb].
  rewrite (flt_correct _ _ Hbfin Htfin) in G.
  apply Rlt_bool_false_le in G. now rewrite <- Hb.
Qed.

Theorem shed_implies_imbalanced_b :
  forall (cfg : config) (open : Z) (c : cluster),
  threshold_valid cfg = true ->
  0 <= open < 2 ^ 53 -> 0 < avg_conns c < 2 ^ 53 ->
  tick cfg open c <> 0 ->
  avg_conns c < open /\
  (B2R (c_threshold cfg) <= RN (IZR (open - avg_conns c) / IZR (avg_conns c)))%R.
Proof.
  intros cfg open c Ht. apply shed_implies_imbalanced. now apply threshold_valid_ok.
Qed.

(** * Integer average 0 *)

Lemma f64_of_int_pos_shape :
  forall z : Z, 0 < z < 2 ^ 53 ->
  exists m e H, f64_of_int z = B754_finite false m e H.
Proof.
  intros z Hz.
  destruct (f64_of_int_exact z ltac:(lia)) as [HB Hfin].
  assert (Hpos : (0 < IZR z)%R) by (apply IZR_lt; lia).
  destruct (f64_of_int z) as [s|s| |s m e H]; try discriminate Hfin.
  - simpl in HB. lra.
  - destruct s.
    + exfalso. simpl in HB.
      assert (F2R (Float radix2 (Z.neg m) e) < 0)%R by now apply F2R_lt_0.
      unfold cond_Zopp in HB. lra.
    + now exists m, e, H.
Qed.

Lemma flt_pos_inf_false : forall t : f64, flt (B754_infinity false) t = false.
Proof. intros [s|[|]| |s m e H]; reflexivity. Qed.

(* with average 0:  shedding = +Inf, the cap is (+-)0 or NaN, and int(...) is 0 or MinInt64 *)
Lemma shed_arg_zero_avg :
  forall (rate : f64) (m : positive) (e : Z) (H : SpecFloat.bounded 53 1024 m e = true),
  let s := fmul (B754_finite false m e H) (B754_infinity false) in
  let cp := fmul (B754_zero false) rate in
  go_int_of_f64 (if fgt s cp then fceil cp else s) <= 1.
Proof.
  intros rate m e H.
  destruct rate as [sr|[|]| |[|] mr er Hr]; try destruct sr; vm_compute; discriminate.
Qed.

Theorem zero_average_closes_one :
  forall (cfg : config) (open : Z) (c : cluster),
  avg_conns c = 0 -> 0 < open < 2 ^ 53 ->
  1 < known_nodes c -> go_int_of_uint (c_min_conns cfg) <= open ->
  rebalance cfg open c = 1.
Proof.
  intros cfg open c Havg Hopen Hn Hmin.
  unfold rebalance, decide. rewrite Havg.
  destruct (known_nodes c <=? 1) eqn:E1; [apply Z.leb_le in E1; lia|].
  destruct (open =? 0) eqn:E2; [apply Z.eqb_eq in E2; lia|].
  destruct (open <? go_int_of_uint (c_min_conns cfg)) eqn:E3; [apply Z.ltb_lt in E3; lia|].
  simpl orb. cbv iota.
  unfold shedding, cap, balance. rewrite Z.sub_0_r.
  destruct (f64_of_int_pos_shape open Hopen) as [m [e [H Ho]]]. rewrite Ho.
  change (f64_of_int 0) with (@B754_zero 53 1024 false).
  change (fdiv (B754_finite false m e H) (B754_zero false)) with (@B754_infinity 53 1024 false).
  rewrite flt_pos_inf_false.
  generalize (shed_arg_zero_avg (c_shed_rate cfg) m e H). cbv zeta. intros Hle.
  unfold closed_by, shed_sessions.
  destruct (open <=? 0) eqn:E; [apply Z.leb_le in E; lia|]. lia.
Qed.

(** * The average is taken over active nodes only, to whole connections *)

Lemma filter_is_active_idem : forall l : list node, filter is_active (filter is_active l) = filter is_active l.
Proof.
  induction l as [|n l IH]; [reflexivity|].
  simpl. destruct (is_active n) eqn:E; simpl; [rewrite E, IH|]; auto.
Qed.

Theorem avg_ignores_inactive :
  forall (local : list Z) (remotes : list node),
  avg_conns {| cl_local := local; cl_remotes := remotes |}
  = avg_conns {| cl_local := local; cl_remotes := filter is_active remotes |}.
Proof.
  intros local remotes. unfold avg_conns, total_conns, active_nodes, active_remotes. simpl.
  now rewrite filter_is_active_idem.
Qed.

Theorem avg_is_floor :
  forall c : cluster, 0 <= total_conns c ->
  avg_conns c * active_nodes c <= total_conns c < (avg_conns c + 1) * active_nodes c.
Proof.
  intros c Ht. unfold avg_conns.
  assert (Hn : 0 < active_nodes c) by (unfold active_nodes; lia).
  rewrite Z.quot_div_nonneg by lia.
  generalize (Z.mul_div_le (total_conns c) (active_nodes c) Hn).
  generalize (Z.mul_succ_div_gt (total_conns c) (active_nodes c) Hn). lia.
Qed.
