(** Concrete configurations showing that the hypotheses of the C19 theorems are satisfiable and not trivial,
    and the boundary case where exact rationals and binary64 disagree. All by computation. *)
From Coq Require Import ZArith List Bool.
From Flocq Require Import Core IEEE754.BinarySingleNaN.
From Piko Require Import Rebalance.Rebalance.
Import ListNotations.
Open Scope Z_scope.

(* threshold 0.2, shed rate 0.05, min conns 1 *)
Definition ex_cfg : config :=
  {| c_threshold := f64_of_bits 0x3FC999999999999A; c_shed_rate := f64_of_bits 0x3FA999999999999A; c_min_conns := 1 |}.

(* local node with 60 connections over two endpoints; an active remote with 4; an unreachable one advertising 400
   and one that left advertising 7 (both ignored by the average): average (60+4)/2 = 32 *)
Definition ex_cluster : cluster :=
  {| cl_local := [50; 10];
     cl_remotes := [ {| n_status := SActive; n_endpoints := [2; 2] |};
                     {| n_status := SUnreachable; n_endpoints := [400] |};
                     {| n_status := SLeft; n_endpoints := [7] |} ] |}.

Lemma ex_hyps :
  rate_valid ex_cfg = true /\ threshold_valid ex_cfg = true /\ enabled ex_cfg = true /\
  avg_conns ex_cluster = 32 /\ known_nodes ex_cluster = 4 /\ guarded ex_cfg 60 ex_cluster = false /\
  tick ex_cfg 60 ex_cluster = 2.   (* ceil (32 * 0.05) = ceil 1.6 = 2 *)
Proof. vm_compute. repeat split. Qed.

(* a node at the average: guarded *)
Lemma ex_at_average : guarded ex_cfg 32 ex_cluster = true /\ tick ex_cfg 32 ex_cluster = 0.
Proof. vm_compute. split; reflexivity. Qed.

(* threshold 0.2, average 5, 6 local connections: 1/5 rounds to the binary64 number nearest 0.2, which IS the
   constant 0.2, so `balance < threshold` is false and one connection is shed — exact rational arithmetic
   (1/5 < 0.200000000000000011102230246251565404236316680908203125) would skip *)
Definition ex_boundary_cluster : cluster :=
  {| cl_local := [6]; cl_remotes := [ {| n_status := SActive; n_endpoints := [4] |} ] |}.
Lemma ex_boundary :
  avg_conns ex_boundary_cluster = 5 /\
  flt (balance 6 5) (c_threshold ex_cfg) = false /\ tick ex_cfg 6 ex_boundary_cluster = 1.
Proof. vm_compute. repeat split. Qed.

(* integer average 0: two nodes, one connection in total; exactly one connection is closed per step *)
Definition ex_zero_cluster : cluster :=
  {| cl_local := [1]; cl_remotes := [ {| n_status := SActive; n_endpoints := [] |} ] |}.
Lemma ex_zero_average : avg_conns ex_zero_cluster = 0 /\ tick ex_cfg 1 ex_zero_cluster = 1.
Proof. vm_compute. split; reflexivity. Qed.

(* outside the hypotheses: a NaN threshold passes Validate and `Threshold != 0`; `balance < NaN` is false, so a node
   BELOW the average sheds one connection per step *)
Definition ex_nan_cfg : config :=
  {| c_threshold := f64_of_bits 0x7FF8000000000001; c_shed_rate := f64_of_bits 0x3FA999999999999A; c_min_conns := 1 |}.
Lemma ex_nan_threshold :
  threshold_valid ex_nan_cfg = false /\ enabled ex_nan_cfg = true /\ tick ex_nan_cfg 3 ex_cluster = 1.
Proof. vm_compute. repeat split. Qed.
