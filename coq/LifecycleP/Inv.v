(* The invariant of the lifecycle model and its preservation by every event (for the D1-fixed RemoveConn). *)
From Coq Require Import List String ZArith Bool Arith Lia.
From Piko Require Import Base.Maps Lifecycle.Lifecycle LifecycleP.Basics.
Import ListNotations.
Open Scope string_scope. Open Scope list_scope.

(* views of the connection table *)
Definition live_of (m : amap conn) (c : string) : bool :=
  match lookup c m with Some k => live_state (c_state k) | None => false end.
Definition bal_of (m : amap conn) (c e : string) : bool :=
  match lookup c m with Some k => in_balancer (c_state k) && String.eqb (c_ep k) e | None => false end.

Lemma is_live_live_of s c : is_live s c = live_of (s_conns s) c.
Proof. reflexivity. Qed.

(* registry + advertised counts agree with the table *)
Record RegInv (reg : amap (list string)) (cnt : amap nat) (m : amap conn) : Prop := {
  ri_mem : forall e c, In c (lookup_list e reg) <-> bal_of m c e = true;
  ri_nodup : forall e, NoDup (lookup_list e reg);
  ri_nonempty : forall e, lookup e reg <> Some [];
  ri_count : forall e, count_of e cnt = List.length (lookup_list e reg);
  ri_count_nz : forall e, lookup e cnt <> Some 0 }.

(* session table + ghost open set agree with the table *)
Record SessInv (sess opn : list string) (m : amap conn) : Prop := {
  si_sess : forall c, In c sess <-> live_of m c = true;
  si_sess_nodup : NoDup sess;
  si_open : forall c, In c opn <-> live_of m c = true;
  si_open_nodup : NoDup opn }.

(* per-connection facts that do not depend on the rest of the state *)
Record conn_ok (cfg : config) (k : conn) : Prop := {
  co_deadline_cfg : forall T, c_deadline k = Some T ->
      cfg_auth cfg = true /\ cfg_disable_expiry cfg = false /\ exists t, c_tok k = Some t /\ tk_exp t = Some T;
  co_cause_deadline : c_cause k = Some CDeadline ->
      exists T at_, c_deadline k = Some T /\ c_ended_at k = Some at_ /\ (T <= at_)%Z;
  co_handshaking : c_state k = Handshaking -> c_deadline k = None;
  co_cause_ended : c_cause k <> None -> c_state k = Ended;
  co_ended_cause : c_state k = Ended -> c_cause k <> None;
  co_live_deadline : live_state (c_state k) = true -> c_deadline k = effective_deadline cfg k }.

Definition ConnsOk (cfg : config) (m : amap conn) : Prop := forall c k, lookup c m = Some k -> conn_ok cfg k.

Record Inv0 (cfg : config) (s : state) : Prop := {
  i_reg : RegInv (s_reg s) (s_counts s) (s_conns s);
  i_sess : SessInv (s_sessions s) (s_open s) (s_conns s);
  i_conns : ConnsOk cfg (s_conns s) }.

(* a live connection's deadline is still ahead *)
Definition InvD (s : state) : Prop :=
  forall c k T, lookup c (s_conns s) = Some k -> live_state (c_state k) = true -> c_deadline k = Some T -> (s_clock s < T)%Z.
(* after Shutdown nothing is live *)
Definition InvSD (s : state) : Prop := s_shutdown s = true -> forall c, live_of (s_conns s) c = false.

Definition Inv (cfg : config) (s : state) : Prop := Inv0 cfg s /\ InvD s /\ InvSD s.

(* ---------------------------------------------------------------- table updates *)
Lemma live_of_insert m c k x : live_of (insert c k m) x = if String.eqb x c then live_state (c_state k) else live_of m x.
Proof. unfold live_of. rewrite lookup_insert. destruct (String.eqb x c); reflexivity. Qed.

Lemma bal_of_insert m c k x e :
  bal_of (insert c k m) x e = if String.eqb x c then in_balancer (c_state k) && String.eqb (c_ep k) e else bal_of m x e.
Proof. unfold bal_of. rewrite lookup_insert. destruct (String.eqb x c); reflexivity. Qed.

Lemma ConnsOk_insert cfg m c k : ConnsOk cfg m -> conn_ok cfg k -> ConnsOk cfg (insert c k m).
Proof.
  intros H Hk x k'. rewrite lookup_insert. destruct (String.eqb x c); [intros [= <-]; exact Hk|apply H].
Qed.

Lemma RegInv_ext reg cnt m m' : (forall c e, bal_of m' c e = bal_of m c e) -> RegInv reg cnt m -> RegInv reg cnt m'.
Proof.
  intros Hb [H1 H2 H3 H4 H5]. constructor; try assumption.
  intros e c. rewrite Hb. apply H1.
Qed.

Lemma SessInv_ext sess opn m m' : (forall c, live_of m' c = live_of m c) -> SessInv sess opn m -> SessInv sess opn m'.
Proof.
  intros Hl [H1 H2 H3 H4]. constructor; try assumption.
  - intros c. rewrite Hl. apply H1.
  - intros c. rewrite Hl. apply H3.
Qed.

(* RemoveConn of c (endpoint e) when the table afterwards has c out of the balancer *)
Lemma RegInv_remove_conn e c s m m' :
  RegInv (s_reg s) (s_counts s) m ->
  (forall e', bal_of m c e' = true -> e' = e) ->
  (forall x e', bal_of m' x e' = if String.eqb x c then false else bal_of m x e') ->
  RegInv (s_reg (remove_conn true e c s)) (s_counts (remove_conn true e c s)) m'.
Proof.
  intros [H1 H2 H3 H4 H5] Hep Hb. constructor.
  - intros e' x. rewrite lookup_list_remove_conn, Hb.
    destruct (String.eqb e' e) eqn:E.
    + apply String.eqb_eq in E. subst e'. rewrite (in_remove_first c x _ (H2 e)). rewrite H1.
      destruct (String.eqb x c) eqn:Ex.
      * apply String.eqb_eq in Ex. subst. split; [intros [_ Hne]; congruence|discriminate].
      * apply String.eqb_neq in Ex. tauto.
    + rewrite H1. destruct (String.eqb x c) eqn:Ex; [|tauto].
      apply String.eqb_eq in Ex. subst x. split; [|discriminate].
      intros Hb'. apply Hep in Hb'. subst e'. rewrite String.eqb_refl in E. discriminate.
  - intros e'. rewrite lookup_list_remove_conn. destruct (String.eqb e' e); [apply NoDup_remove_first|]; apply H2.
  - apply lookup_remove_conn_nonempty. exact H3.
  - apply count_of_remove_conn_fixed. exact H4.
  - apply remove_conn_counts_nz. exact H5.
Qed.

(* AddConn of a connection that was in no balancer *)
Lemma RegInv_add_conn e c s m m' :
  RegInv (s_reg s) (s_counts s) m ->
  (forall e', bal_of m c e' = false) ->
  (forall x e', bal_of m' x e' = if String.eqb x c then String.eqb e e' else bal_of m x e') ->
  RegInv (s_reg (add_conn e c s)) (s_counts (add_conn e c s)) m'.
Proof.
  intros [H1 H2 H3 H4 H5] Hno Hb. constructor.
  - intros e' x. rewrite lookup_list_add_conn, Hb.
    destruct (String.eqb e' e) eqn:E.
    + apply String.eqb_eq in E. subst e'. rewrite in_app_iff. cbn. rewrite H1.
      destruct (String.eqb x c) eqn:Ex.
      * apply String.eqb_eq in Ex. subst. rewrite String.eqb_refl. tauto.
      * apply String.eqb_neq in Ex. split; [intros [H|[H|[]]]; [exact H|congruence]|tauto].
    + rewrite H1. destruct (String.eqb x c) eqn:Ex; [|tauto].
      apply String.eqb_eq in Ex. subst x. rewrite Hno. rewrite String.eqb_sym, E. tauto.
  - intros e'. rewrite lookup_list_add_conn. destruct (String.eqb e' e); [|apply H2].
    apply NoDup_app_one; [apply H2|]. rewrite H1, Hno. discriminate.
  - apply lookup_add_conn_nonempty. exact H3.
  - intros e'. rewrite count_of_add_conn, lookup_list_add_conn.
    destruct (String.eqb e' e); [|apply H4]. rewrite app_length. cbn. rewrite H4. lia.
  - unfold add_conn. cbn [s_counts set_counts set_reg]. apply cluster_add_nz. exact H5.
Qed.

Lemma SessInv_remove c sess opn m m' :
  SessInv sess opn m ->
  (forall x, live_of m' x = if String.eqb x c then false else live_of m x) ->
  SessInv (remove_first c sess) (remove_first c opn) m'.
Proof.
  intros [H1 H2 H3 H4] Hl. constructor.
  - intros x. rewrite (in_remove_first c x _ H2), H1, Hl.
    destruct (String.eqb x c) eqn:Ex.
    + apply String.eqb_eq in Ex. split; [intros [_ Hne]; congruence|discriminate].
    + apply String.eqb_neq in Ex. tauto.
  - apply NoDup_remove_first, H2.
  - intros x. rewrite (in_remove_first c x _ H4), H3, Hl.
    destruct (String.eqb x c) eqn:Ex.
    + apply String.eqb_eq in Ex. split; [intros [_ Hne]; congruence|discriminate].
    + apply String.eqb_neq in Ex. tauto.
  - apply NoDup_remove_first, H4.
Qed.

Lemma SessInv_add c sess opn m m' :
  SessInv sess opn m ->
  live_of m c = false ->
  (forall x, live_of m' x = if String.eqb x c then true else live_of m x) ->
  SessInv (sess ++ [c]) (opn ++ [c]) m'.
Proof.
  intros [H1 H2 H3 H4] Hno Hl. constructor.
  - intros x. rewrite in_app_iff, H1, Hl. cbn. destruct (String.eqb x c) eqn:Ex.
    + apply String.eqb_eq in Ex. subst. tauto.
    + apply String.eqb_neq in Ex. split; [intros [H|[H|[]]]; [exact H|congruence]|tauto].
  - apply NoDup_app_one; [exact H2|]. rewrite H1, Hno. discriminate.
  - intros x. rewrite in_app_iff, H3, Hl. cbn. destruct (String.eqb x c) eqn:Ex.
    + apply String.eqb_eq in Ex. subst. tauto.
    + apply String.eqb_neq in Ex. split; [intros [H|[H|[]]]; [exact H|congruence]|tauto].
  - apply NoDup_app_one; [exact H4|]. rewrite H3, Hno. discriminate.
Qed.

(* ---------------------------------------------------------------- conn_ok of the updated records *)
Lemma conn_ok_ended cfg k cs now :
  conn_ok cfg k ->
  (cs = CDeadline -> exists T, c_deadline k = Some T /\ (T <= now)%Z) ->
  conn_ok cfg (ended k cs now).
Proof.
  intros [H1 H2 H3 H4 H5 H6] Hd. constructor; cbn.
  - exact H1.
  - intros [= ->]. destruct (Hd eq_refl) as [T [HT Hle]]. exists T, now. auto.
  - discriminate.
  - reflexivity.
  - discriminate.
  - discriminate.
Qed.

Lemma conn_ok_with_state cfg k st :
  conn_ok cfg k -> c_cause k = None -> live_state (c_state k) = true -> st <> Handshaking -> st <> Ended ->
  conn_ok cfg (with_state k st).
Proof.
  intros [H1 H2 H3 H4 H5 H6] Hc Hl Hs He. constructor; cbn.
  - exact H1.
  - exact H2.
  - intros ->. congruence.
  - rewrite Hc. congruence.
  - intros ->. congruence.
  - intros _. apply H6, Hl.
Qed.

(* a connection that is not Ended has no cause yet *)
Lemma conn_ok_no_cause cfg k : conn_ok cfg k -> c_state k <> Ended -> c_cause k = None.
Proof.
  intros [_ _ _ H4 _ _] Hne. destruct (c_cause k) eqn:E; [|reflexivity].
  exfalso. apply Hne, H4. discriminate.
Qed.

(* ---------------------------------------------------------------- end_conn *)
Lemma end_conn_unfold cfg c cs s k :
  lookup c (s_conns s) = Some k -> live_state (c_state k) = true ->
  end_conn cfg c cs s =
  d_conn_close c k cs (d_sess_close c (d_remove_session c (remove_conn (cfg_d1_fixed cfg) (c_ep k) c s))).
Proof. intros L Hl. unfold end_conn, d_remove_conn. rewrite L, Hl. reflexivity. Qed.

Lemma end_conn_noop cfg c cs s : live_of (s_conns s) c = false -> end_conn cfg c cs s = s.
Proof.
  unfold live_of, end_conn. destruct (lookup c (s_conns s)) as [k|]; [|reflexivity].
  intros ->. reflexivity.
Qed.

Lemma end_conn_conns cfg c cs s k :
  lookup c (s_conns s) = Some k -> live_state (c_state k) = true ->
  s_conns (end_conn cfg c cs s) = insert c (ended k cs (s_clock s)) (s_conns s).
Proof.
  intros L Hl. rewrite (end_conn_unfold cfg c cs s k L Hl).
  unfold d_conn_close, d_sess_close, d_remove_session. cbn [s_conns set_conns set_open set_sessions s_clock].
  rewrite remove_conn_conns, remove_conn_clock. reflexivity.
Qed.

Lemma end_conn_clock cfg c cs s : s_clock (end_conn cfg c cs s) = s_clock s.
Proof.
  unfold end_conn. destruct (lookup c (s_conns s)) as [k|]; [|reflexivity].
  destruct (live_state (c_state k)); [|reflexivity].
  unfold d_conn_close, d_sess_close, d_remove_session, d_remove_conn. cbn [s_clock set_conns set_open set_sessions].
  apply remove_conn_clock.
Qed.

Lemma end_conn_shutdown cfg c cs s : s_shutdown (end_conn cfg c cs s) = s_shutdown s.
Proof.
  unfold end_conn. destruct (lookup c (s_conns s)) as [k|]; [|reflexivity].
  destruct (live_state (c_state k)); [|reflexivity].
  unfold d_conn_close, d_sess_close, d_remove_session, d_remove_conn. cbn [s_shutdown set_conns set_open set_sessions].
  apply remove_conn_shutdown.
Qed.

(* what end_conn does to the table, whatever c is *)
Lemma end_conn_lookup cfg c cs s x :
  lookup x (s_conns (end_conn cfg c cs s)) =
  if String.eqb x c && live_of (s_conns s) c
  then option_map (fun k => ended k cs (s_clock s)) (lookup c (s_conns s))
  else lookup x (s_conns s).
Proof.
  unfold live_of. destruct (lookup c (s_conns s)) as [k|] eqn:L.
  - destruct (live_state (c_state k)) eqn:Hl.
    + rewrite (end_conn_conns cfg c cs s k L Hl), lookup_insert.
      destruct (String.eqb x c); reflexivity.
    + rewrite end_conn_noop by (unfold live_of; rewrite L; exact Hl).
      rewrite andb_false_r. reflexivity.
  - rewrite end_conn_noop by (unfold live_of; rewrite L; reflexivity).
    rewrite andb_false_r. reflexivity.
Qed.

Lemma end_conn_live_of cfg c cs s x :
  live_of (s_conns (end_conn cfg c cs s)) x = if String.eqb x c then false else live_of (s_conns s) x.
Proof.
  unfold live_of at 1. rewrite end_conn_lookup.
  destruct (String.eqb x c) eqn:E; cbn [andb]; [|reflexivity].
  apply String.eqb_eq in E. subst x.
  destruct (live_of (s_conns s) c) eqn:Hl.
  - unfold live_of in Hl. destruct (lookup c (s_conns s)); [reflexivity|discriminate].
  - exact Hl.
Qed.

Lemma end_conn_Inv0 cfg c cs s :
  cfg_d1_fixed cfg = true ->
  Inv0 cfg s ->
  (cs = CDeadline -> forall k, lookup c (s_conns s) = Some k -> exists T, c_deadline k = Some T /\ (T <= s_clock s)%Z) ->
  Inv0 cfg (end_conn cfg c cs s).
Proof.
  intros Hfix [HR HS HC] Hd.
  destruct (lookup c (s_conns s)) as [k|] eqn:L.
  2:{ rewrite end_conn_noop; [constructor; assumption|]. unfold live_of. rewrite L. reflexivity. }
  destruct (live_state (c_state k)) eqn:Hl.
  2:{ rewrite end_conn_noop; [constructor; assumption|]. unfold live_of. rewrite L. exact Hl. }
  pose proof (end_conn_conns cfg c cs s k L Hl) as Hconns.
  rewrite (end_conn_unfold cfg c cs s k L Hl) in *. rewrite Hfix in *.
  set (s1 := remove_conn true (c_ep k) c s) in *.
  constructor.
  - unfold d_conn_close, d_sess_close, d_remove_session.
    cbn [s_reg s_counts s_conns set_conns set_open set_sessions s_clock].
    apply (RegInv_remove_conn (c_ep k) c s (s_conns s)).
    + exact HR.
    + intros e'. unfold bal_of. rewrite L. intros Hb. apply andb_true_iff in Hb. destruct Hb as [_ Hb].
      apply String.eqb_eq in Hb. symmetry. exact Hb.
    + intros x e'. unfold s1. rewrite remove_conn_conns. rewrite bal_of_insert.
      destruct (String.eqb x c); reflexivity.
  - unfold d_conn_close, d_sess_close, d_remove_session.
    cbn [s_sessions s_open s_conns set_conns set_open set_sessions s_clock].
    unfold s1. rewrite remove_conn_sessions, remove_conn_open, remove_conn_conns.
    apply (SessInv_remove c _ _ (s_conns s)); [exact HS|].
    intros x. rewrite live_of_insert. destruct (String.eqb x c); reflexivity.
  - rewrite Hconns. apply ConnsOk_insert; [exact HC|].
    apply conn_ok_ended; [apply (HC c k L)|].
    intros Hcs. apply (Hd Hcs k eq_refl).
Qed.

Lemma end_conn_InvD cfg c cs s : InvD s -> InvD (end_conn cfg c cs s).
Proof.
  intros H x k T. rewrite end_conn_lookup, end_conn_clock.
  destruct (String.eqb x c && live_of (s_conns s) c).
  - destruct (lookup c (s_conns s)); cbn; [|discriminate]. intros [= <-]. cbn. discriminate.
  - apply H.
Qed.

(* ---------------------------------------------------------------- folds of end_conn (Shutdown, sweep) *)
Lemma lookup_none_end_conn cfg c cs s x :
  lookup x (s_conns (end_conn cfg c cs s)) = None <-> lookup x (s_conns s) = None.
Proof.
  rewrite end_conn_lookup. destruct (String.eqb x c) eqn:E; cbn [andb]; [|tauto].
  apply String.eqb_eq in E. subst x.
  destruct (live_of (s_conns s) c) eqn:Hl; [|tauto].
  unfold live_of in Hl. destruct (lookup c (s_conns s)); cbn; [|discriminate]. split; discriminate.
Qed.

Lemma shutdown_fold cfg l : forall s,
  cfg_d1_fixed cfg = true -> Inv0 cfg s -> InvD s ->
  let s' := fold_left (fun s c => end_conn cfg c CServerShutdown s) l s in
  Inv0 cfg s' /\ InvD s' /\ s_clock s' = s_clock s /\ s_shutdown s' = s_shutdown s /\
  (forall x, live_of (s_conns s') x = if existsb (String.eqb x) l then false else live_of (s_conns s) x) /\
  (forall x, lookup x (s_conns s') = None <-> lookup x (s_conns s) = None).
Proof.
  induction l as [|c l IH]; intros s Hfix H0 HD; cbn [fold_left].
  - refine (conj H0 (conj HD (conj eq_refl (conj eq_refl (conj _ _))))); intros x; [reflexivity|tauto].
  - assert (H0' : Inv0 cfg (end_conn cfg c CServerShutdown s)) by (apply end_conn_Inv0; [assumption|assumption|discriminate]).
    assert (HD' : InvD (end_conn cfg c CServerShutdown s)) by (apply end_conn_InvD; assumption).
    destruct (IH _ Hfix H0' HD') as [I1 [I2 [I3 [I4 [I5 I6]]]]].
    refine (conj I1 (conj I2 (conj _ (conj _ (conj _ _))))).
    + rewrite I3. apply end_conn_clock.
    + rewrite I4. apply end_conn_shutdown.
    + intros x. rewrite I5, end_conn_live_of. cbn [existsb].
      destruct (String.eqb x c); cbn [orb]; [destruct (existsb _ l); reflexivity|reflexivity].
    + intros x. rewrite I6. apply lookup_none_end_conn.
Qed.

Lemma existsb_keys_lookup {V} (m : amap V) x : existsb (String.eqb x) (keys m) = false -> lookup x m = None.
Proof.
  intros H. apply notin_lookup_None. intros Hin.
  assert (existsb (String.eqb x) (keys m) = true) by (apply existsb_exists; exists x; split; [exact Hin|apply String.eqb_refl]).
  congruence.
Qed.

Lemma shutdown_Inv cfg s : cfg_d1_fixed cfg = true -> Inv cfg s -> Inv cfg (shutdown cfg s).
Proof.
  intros Hfix [H0 [HD _]]. unfold shutdown.
  assert (H0' : Inv0 cfg (set_shutdown s true)) by (destruct H0; constructor; assumption).
  assert (HD' : InvD (set_shutdown s true)) by exact HD.
  destruct (shutdown_fold cfg (keys (s_conns s)) (set_shutdown s true) Hfix H0' HD') as [I1 [I2 [I3 [I4 [I5 I6]]]]].
  cbn [s_conns set_shutdown] in *.
  split; [exact I1|split; [exact I2|]].
  intros _ x. rewrite I5. destruct (existsb (String.eqb x) (keys (s_conns s))) eqn:E; [reflexivity|].
  unfold live_of. rewrite (existsb_keys_lookup _ _ E). reflexivity.
Qed.

(* sweep: afterwards nothing live is due *)
Definition not_due (s : state) (x : string) : Prop :=
  forall k, lookup x (s_conns s) = Some k -> due (s_clock s) k = false.

Lemma sweep_one_Inv0 cfg s c : cfg_d1_fixed cfg = true -> Inv0 cfg s -> Inv0 cfg (sweep_one cfg s c).
Proof.
  intros Hfix H0. unfold sweep_one. destruct (lookup c (s_conns s)) as [k|] eqn:L; [|exact H0].
  destruct (due (s_clock s) k) eqn:Hdue; [|exact H0].
  apply end_conn_Inv0; [assumption|assumption|].
  intros _ k' L'. rewrite L in L'. injection L' as <-.
  unfold due in Hdue. apply andb_true_iff in Hdue. destruct Hdue as [_ Hd].
  destruct (c_deadline k) as [T|]; [|discriminate]. exists T. split; [reflexivity|]. apply Z.leb_le. exact Hd.
Qed.

Lemma sweep_one_clock cfg s c : s_clock (sweep_one cfg s c) = s_clock s.
Proof.
  unfold sweep_one. destruct (lookup c (s_conns s)) as [k|]; [|reflexivity].
  destruct (due (s_clock s) k); [apply end_conn_clock|reflexivity].
Qed.

Lemma sweep_one_shutdown cfg s c : s_shutdown (sweep_one cfg s c) = s_shutdown s.
Proof.
  unfold sweep_one. destruct (lookup c (s_conns s)) as [k|]; [|reflexivity].
  destruct (due (s_clock s) k); [apply end_conn_shutdown|reflexivity].
Qed.

Lemma due_ended k cs now t : due t (ended k cs now) = false.
Proof. reflexivity. Qed.

Lemma sweep_one_not_due_self cfg s c : not_due (sweep_one cfg s c) c.
Proof.
  intros k. rewrite sweep_one_clock. unfold sweep_one.
  destruct (lookup c (s_conns s)) as [k0|] eqn:L; [|rewrite L; discriminate].
  destruct (due (s_clock s) k0) eqn:Hdue.
  - assert (Hlive : live_of (s_conns s) c = true).
    { unfold live_of. rewrite L. unfold due in Hdue. apply andb_true_iff in Hdue. apply Hdue. }
    rewrite end_conn_lookup, String.eqb_refl, Hlive, L. cbn. intros [= <-]. reflexivity.
  - rewrite L. intros [= <-]. exact Hdue.
Qed.

Lemma sweep_one_not_due_other cfg s c x : not_due s x -> not_due (sweep_one cfg s c) x.
Proof.
  intros Hx k. rewrite sweep_one_clock. unfold sweep_one.
  destruct (lookup c (s_conns s)) as [k0|] eqn:L; [|apply Hx].
  destruct (due (s_clock s) k0); [|apply Hx].
  rewrite end_conn_lookup. destruct (String.eqb x c && live_of (s_conns s) c); [|apply Hx].
  rewrite L. cbn. intros [= <-]. reflexivity.
Qed.

Lemma sweep_one_lookup_none cfg s c x : lookup x (s_conns (sweep_one cfg s c)) = None <-> lookup x (s_conns s) = None.
Proof.
  unfold sweep_one. destruct (lookup c (s_conns s)) as [k0|]; [|tauto].
  destruct (due (s_clock s) k0); [apply lookup_none_end_conn|tauto].
Qed.

Lemma sweep_one_live_mono cfg s c x : live_of (s_conns (sweep_one cfg s c)) x = true -> live_of (s_conns s) x = true.
Proof.
  unfold sweep_one. destruct (lookup c (s_conns s)) as [k0|]; [|tauto].
  destruct (due (s_clock s) k0); [|tauto].
  rewrite end_conn_live_of. destruct (String.eqb x c); [discriminate|tauto].
Qed.

Lemma sweep_fold cfg l : forall s,
  cfg_d1_fixed cfg = true -> Inv0 cfg s ->
  let s' := fold_left (sweep_one cfg) l s in
  Inv0 cfg s' /\ s_clock s' = s_clock s /\ s_shutdown s' = s_shutdown s /\
  (forall x, In x l -> not_due s' x) /\ (forall x, not_due s x -> not_due s' x) /\
  (forall x, lookup x (s_conns s') = None <-> lookup x (s_conns s) = None) /\
  (forall x, live_of (s_conns s') x = true -> live_of (s_conns s) x = true).
Proof.
  induction l as [|c l IH]; intros s Hfix H0; cbn [fold_left].
  - refine (conj H0 (conj eq_refl (conj eq_refl (conj _ (conj _ (conj _ _)))))); intros x; try tauto. intros [].
  - destruct (IH _ Hfix (sweep_one_Inv0 cfg s c Hfix H0)) as [I1 [I2 [I3 [I4 [I5 [I6 I7]]]]]].
    refine (conj I1 (conj _ (conj _ (conj _ (conj _ (conj _ _)))))).
    + rewrite I2. apply sweep_one_clock.
    + rewrite I3. apply sweep_one_shutdown.
    + intros x [<-|Hin]; [apply I5, sweep_one_not_due_self|apply I4, Hin].
    + intros x Hx. apply I5, sweep_one_not_due_other, Hx.
    + intros x. rewrite I6. apply sweep_one_lookup_none.
    + intros x Hx. apply (sweep_one_live_mono cfg s c), I7, Hx.
Qed.

Lemma sweep_all_not_due cfg s : cfg_d1_fixed cfg = true -> Inv0 cfg s -> forall x, not_due (sweep cfg s) x.
Proof.
  intros Hfix H0 x. unfold sweep.
  destruct (sweep_fold cfg (keys (s_conns s)) s Hfix H0) as [_ [_ [_ [I4 [_ [I6 _]]]]]].
  destruct (in_dec string_dec x (keys (s_conns s))) as [Hin|Hni]; [apply I4, Hin|].
  intros k Hk. apply notin_lookup_None in Hni. apply (proj2 (I6 x)) in Hni. congruence.
Qed.

Lemma tick_Inv cfg t s : cfg_d1_fixed cfg = true -> Inv cfg s -> Inv cfg (tick cfg t s).
Proof.
  intros Hfix [H0 [HD HSD]]. unfold tick.
  set (s1 := set_clock s (Z.max (s_clock s) t)).
  assert (H0' : Inv0 cfg s1) by (destruct H0; constructor; assumption).
  pose proof (sweep_all_not_due cfg s1 Hfix H0') as Hnd.
  unfold sweep in *.
  destruct (sweep_fold cfg (keys (s_conns s1)) s1 Hfix H0') as [I1 [I2 [I3 [_ [_ [_ I7]]]]]].
  split; [exact I1|split].
  - intros x k T L Hl HT. specialize (Hnd x k L). unfold due in Hnd. rewrite Hl, HT in Hnd. cbn in Hnd.
    apply Z.leb_gt in Hnd. exact Hnd.
  - intros Hsd x. rewrite I3 in Hsd. cbn in Hsd.
    destruct (live_of (s_conns (fold_left (sweep_one cfg) (keys (s_conns s1)) s1)) x) eqn:E; [|reflexivity].
    apply I7 in E. cbn in E. rewrite (HSD Hsd x) in E. discriminate.
Qed.

(* after a tick the clock has not gone backwards and is at least t *)
Lemma tick_clock cfg t s : s_clock (tick cfg t s) = Z.max (s_clock s) t.
Proof.
  unfold tick, sweep.
  set (s1 := set_clock s (Z.max (s_clock s) t)).
  assert (H : forall l s0, s_clock (fold_left (sweep_one cfg) l s0) = s_clock s0).
  { induction l as [|c l IH]; intros s0; cbn [fold_left]; [reflexivity|]. rewrite IH. apply sweep_one_clock. }
  rewrite H. reflexivity.
Qed.

(* ---------------------------------------------------------------- the other events *)
Lemma Inv0_update_neutral cfg s c k' :
  Inv0 cfg s ->
  (live_state (c_state k') = live_of (s_conns s) c) ->
  (forall e, in_balancer (c_state k') && String.eqb (c_ep k') e = bal_of (s_conns s) c e) ->
  conn_ok cfg k' ->
  Inv0 cfg (set_conns s (insert c k' (s_conns s))).
Proof.
  intros [HR HS HC] Hl Hb Hk. constructor; cbn [s_reg s_counts s_conns s_sessions s_open set_conns].
  - apply (RegInv_ext _ _ (s_conns s)); [|exact HR].
    intros x e. rewrite bal_of_insert. destruct (String.eqb x c) eqn:E; [|reflexivity].
    apply String.eqb_eq in E. subst. apply Hb.
  - apply (SessInv_ext _ _ (s_conns s)); [|exact HS].
    intros x. rewrite live_of_insert. destruct (String.eqb x c) eqn:E; [|reflexivity].
    apply String.eqb_eq in E. subst. exact Hl.
  - apply ConnsOk_insert; assumption.
Qed.

Lemma InvD_update_notlive s c k' :
  InvD s -> live_state (c_state k') = false -> InvD (set_conns s (insert c k' (s_conns s))).
Proof.
  intros HD Hl x k T. cbn [s_conns set_conns s_clock]. rewrite lookup_insert.
  destruct (String.eqb x c); [intros [= <-]; congruence|apply HD].
Qed.

Lemma InvSD_update_notlive s c k' :
  InvSD s -> live_state (c_state k') = false -> InvSD (set_conns s (insert c k' (s_conns s))).
Proof.
  intros HSD Hl Hsd x. cbn [s_conns set_conns]. rewrite live_of_insert.
  destruct (String.eqb x c); [exact Hl|apply HSD, Hsd].
Qed.

(* ending a connection that never got past the handshake *)
Lemma end_handshaking_Inv cfg s c k cs :
  Inv cfg s -> lookup c (s_conns s) = Some k -> c_state k = Handshaking -> cs <> CDeadline ->
  Inv cfg (set_conns s (insert c (ended k cs (s_clock s)) (s_conns s))).
Proof.
  intros [H0 [HD HSD]] L Hs Hcs. split; [|split].
  - apply Inv0_update_neutral; [exact H0| | |].
    + unfold live_of. rewrite L, Hs. reflexivity.
    + intros e. unfold bal_of. rewrite L, Hs. reflexivity.
    + apply conn_ok_ended; [apply (i_conns _ _ H0 c k L)|]. intros ->. congruence.
  - apply InvD_update_notlive; [exact HD|reflexivity].
  - apply InvSD_update_notlive; [exact HSD|reflexivity].
Qed.

Lemma end_conn_Inv cfg c cs s :
  cfg_d1_fixed cfg = true -> Inv cfg s -> cs <> CDeadline -> Inv cfg (end_conn cfg c cs s).
Proof.
  intros Hfix [H0 [HD HSD]] Hcs. split; [|split].
  - apply end_conn_Inv0; [assumption|assumption|]. intros ->. congruence.
  - apply end_conn_InvD, HD.
  - intros Hsd x. rewrite end_conn_shutdown in Hsd. rewrite end_conn_live_of.
    destruct (String.eqb x c); [reflexivity|apply HSD, Hsd].
Qed.

Lemma accept_Inv cfg c s : cfg_d1_fixed cfg = true -> Inv cfg s -> Inv cfg (fst (accept cfg c s)).
Proof.
  intros Hfix HI. pose proof HI as [H0 [HD HSD]]. unfold accept.
  destruct (lookup c (s_conns s)) as [k|] eqn:L; [|exact HI].
  destruct (c_state k) eqn:Hs; try exact HI.
  pose proof (i_conns _ _ H0 c k L) as Hk.
  assert (Hnl : live_of (s_conns s) c = false) by (unfold live_of; rewrite L, Hs; reflexivity).
  assert (Hnb : forall e, bal_of (s_conns s) c e = false) by (intros e; unfold bal_of; rewrite L, Hs; reflexivity).
  destruct (token_ok cfg (s_clock s) k) eqn:Htok; cbn [fst].
  2:{ (* refused *)
      split; [|split].
      - apply Inv0_update_neutral; [exact H0|rewrite Hnl; reflexivity|intros e; rewrite Hnb; reflexivity|].
        apply conn_ok_ended; [exact Hk|discriminate].
      - apply InvD_update_notlive; [exact HD|reflexivity].
      - apply InvSD_update_notlive; [exact HSD|reflexivity]. }
  set (k' := with_deadline (with_state k Registered) (effective_deadline cfg k)).
  set (s1 := set_conns s (insert c k' (s_conns s))).
  set (s2 := set_open (set_sessions s1 (s_sessions s1 ++ [c])) (s_open s1 ++ [c])).
  set (s3 := add_conn (c_ep k) c s2).
  assert (Hk' : conn_ok cfg k').
  { pose proof (conn_ok_no_cause cfg k Hk) as Hnc. destruct Hk as [K1 K2 K3 K4 K5 K6].
    rewrite Hs in Hnc. specialize (Hnc ltac:(discriminate)).
    constructor; cbn.
    - intros T. unfold effective_deadline. destruct (cfg_auth cfg) eqn:Ha; cbn; [|discriminate].
      destruct (cfg_disable_expiry cfg) eqn:Hdz; cbn; [discriminate|].
      destruct (c_tok k) as [tk|]; [|discriminate]. intros HT. repeat split. exists tk. split; [reflexivity|exact HT].
    - rewrite Hnc. discriminate.
    - discriminate.
    - rewrite Hnc. congruence.
    - discriminate.
    - reflexivity. }
  assert (H03 : Inv0 cfg s3).
  { destruct H0 as [HR HS HC]. constructor.
    - unfold s3. rewrite add_conn_conns.
      apply (RegInv_add_conn (c_ep k) c s2 (s_conns s)); [exact HR|exact Hnb|].
      intros x e'. cbn [s2 s1 s_conns set_open set_sessions set_conns]. rewrite bal_of_insert.
      destruct (String.eqb x c); reflexivity.
    - unfold s3. rewrite add_conn_sessions, add_conn_open, add_conn_conns.
      cbn [s2 s1 s_conns s_sessions s_open set_open set_sessions set_conns].
      apply (SessInv_add c _ _ (s_conns s)); [exact HS|exact Hnl|].
      intros x. rewrite live_of_insert. destruct (String.eqb x c); reflexivity.
    - unfold s3. rewrite add_conn_conns. cbn [s2 s1 s_conns set_open set_sessions set_conns].
      apply ConnsOk_insert; assumption. }
  assert (HD3 : InvD s3).
  { intros x kx T. unfold s3. rewrite add_conn_conns, add_conn_clock.
    cbn [s2 s1 s_conns s_clock set_open set_sessions set_conns]. rewrite lookup_insert.
    destruct (String.eqb x c); [|apply HD].
    intros [= <-] _. cbn. unfold effective_deadline.
    destruct (cfg_auth cfg) eqn:Ha; cbn; [|discriminate].
    destruct (cfg_disable_expiry cfg); cbn; [discriminate|].
    unfold token_ok in Htok. rewrite Ha in Htok.
    destruct (c_tok k) as [tk|]; [|discriminate]. intros HT. rewrite HT in Htok.
    apply andb_true_iff in Htok. destruct Htok as [_ Hlt]. apply Z.ltb_lt. exact Hlt. }
  change (Inv cfg (if s_shutdown s3 then end_conn cfg c CServerShutdown s3 else s3)).
  destruct (s_shutdown s3) eqn:Hsd.
  - split; [|split].
    + apply end_conn_Inv0; [assumption|assumption|discriminate].
    + apply end_conn_InvD, HD3.
    + intros _ x. rewrite end_conn_live_of. destruct (String.eqb x c) eqn:E; [reflexivity|].
      unfold s3. rewrite add_conn_conns. cbn [s2 s1 s_conns set_open set_sessions set_conns].
      rewrite live_of_insert, E. apply HSD. exact Hsd.
  - split; [exact H03|split; [exact HD3|]]. intros Hx. congruence.
Qed.

Lemma proxy_err_gone_Inv cfg c s : cfg_d1_fixed cfg = true -> Inv cfg s -> Inv cfg (fst (proxy_err_gone cfg c s)).
Proof.
  intros Hfix HI. pose proof HI as [H0 [HD HSD]]. unfold proxy_err_gone.
  destruct (lookup c (s_conns s)) as [k|] eqn:L; [|exact HI].
  pose proof (i_conns _ _ H0 c k L) as Hk.
  assert (Hep : forall e', bal_of (s_conns s) c e' = true -> e' = c_ep k).
  { intros e'. unfold bal_of. rewrite L. intros Hb. apply andb_true_iff in Hb. destruct Hb as [_ Hb].
    apply String.eqb_eq in Hb. symmetry. exact Hb. }
  destruct (c_state k) eqn:Hs; try exact HI; cbn [fst]; rewrite Hfix.
  - (* GoAwayed -> GoneAnnounced *)
    set (s1 := remove_conn true (c_ep k) c s).
    assert (Hc1 : s_conns s1 = s_conns s) by apply remove_conn_conns.
    split; [|split].
    + destruct H0 as [HR HS HC]. constructor; cbn [s_reg s_counts s_conns s_sessions s_open set_conns].
      * apply (RegInv_remove_conn (c_ep k) c s (s_conns s)); [exact HR|exact Hep|].
        intros x e'. rewrite Hc1, bal_of_insert. destruct (String.eqb x c); reflexivity.
      * unfold s1. rewrite remove_conn_sessions, remove_conn_open, remove_conn_conns.
        apply (SessInv_ext _ _ (s_conns s)); [|exact HS].
        intros x. rewrite live_of_insert. destruct (String.eqb x c) eqn:E; [|reflexivity].
        apply String.eqb_eq in E. subst. unfold live_of. rewrite L, Hs. reflexivity.
      * rewrite Hc1. apply ConnsOk_insert; [exact HC|].
        apply conn_ok_with_state; [exact Hk| |rewrite Hs; reflexivity|discriminate|discriminate].
        apply (conn_ok_no_cause cfg k Hk). rewrite Hs. discriminate.
    + intros x kx T. cbn [s_conns set_conns s_clock]. rewrite Hc1. unfold s1. rewrite remove_conn_clock, lookup_insert.
      destruct (String.eqb x c) eqn:E; [|apply HD].
      apply String.eqb_eq in E. subst x. intros [= <-] _. cbn. apply (HD c k T L). rewrite Hs. reflexivity.
    + intros Hsd x. cbn [s_conns set_conns s_shutdown] in *. unfold s1 in Hsd. rewrite remove_conn_shutdown in Hsd.
      rewrite Hc1, live_of_insert. destruct (String.eqb x c) eqn:E; [|apply HSD, Hsd].
      apply String.eqb_eq in E. subst x. pose proof (HSD Hsd c) as Hc. unfold live_of in Hc. rewrite L, Hs in Hc. discriminate.
  - (* GoneAnnounced: the repeated RemoveConn finds nothing *)
    set (s1 := remove_conn true (c_ep k) c s).
    assert (Hc1 : s_conns s1 = s_conns s) by apply remove_conn_conns.
    split; [|split].
    + destruct H0 as [HR HS HC]. constructor.
      * rewrite Hc1. apply (RegInv_remove_conn (c_ep k) c s (s_conns s)); [exact HR|exact Hep|].
        intros x e'. destruct (String.eqb x c) eqn:E; [|reflexivity].
        apply String.eqb_eq in E. subst x. unfold bal_of. rewrite L, Hs. reflexivity.
      * unfold s1. rewrite remove_conn_sessions, remove_conn_open, remove_conn_conns. exact HS.
      * rewrite Hc1. exact HC.
    + intros x kx T. rewrite Hc1. unfold s1. rewrite remove_conn_clock. apply HD.
    + intros Hsd x. rewrite Hc1. unfold s1 in Hsd. rewrite remove_conn_shutdown in Hsd. apply HSD, Hsd.
Qed.

Lemma step_Inv cfg s ev : cfg_d1_fixed cfg = true -> Inv cfg s -> Inv cfg (fst (step cfg s ev)).
Proof.
  intros Hfix HI. pose proof HI as [H0 [HD HSD]].
  destruct ev as [c e tok|c|c|c|c|c|c| |c t|t]; cbn [step].
  - (* Dial *)
    destruct (mem c (s_conns s)) eqn:Hm; [exact HI|]. cbn [fst].
    assert (L : lookup c (s_conns s) = None) by (unfold mem in Hm; destruct (lookup c (s_conns s)); [discriminate|reflexivity]).
    split; [|split].
    + apply Inv0_update_neutral; [exact H0| | |].
      * unfold live_of. rewrite L. reflexivity.
      * intros e'. unfold bal_of. rewrite L. reflexivity.
      * constructor; cbn; try discriminate; try congruence.
    + apply InvD_update_notlive; [exact HD|reflexivity].
    + apply InvSD_update_notlive; [exact HSD|reflexivity].
  - apply accept_Inv; assumption.
  - (* ClientClose *)
    destruct (lookup c (s_conns s)) as [k|] eqn:L; [|exact HI].
    destruct (c_state k) eqn:Hs; cbn [fst];
      try (apply end_conn_Inv; [assumption|assumption|discriminate]).
    apply end_handshaking_Inv; [exact HI|exact L|exact Hs|discriminate].
  - (* GoAway *)
    destruct (lookup c (s_conns s)) as [k|] eqn:L; [|exact HI].
    destruct (c_state k) eqn:Hs; try exact HI. cbn [fst].
    pose proof (i_conns _ _ H0 c k L) as Hk.
    split; [|split].
    + apply Inv0_update_neutral; [exact H0| | |].
      * unfold live_of. rewrite L, Hs. reflexivity.
      * intros e'. unfold bal_of. rewrite L, Hs. reflexivity.
      * apply conn_ok_with_state; [exact Hk| |rewrite Hs; reflexivity|discriminate|discriminate].
        apply (conn_ok_no_cause cfg k Hk). rewrite Hs. discriminate.
    + intros x kx T. cbn [s_conns set_conns s_clock]. rewrite lookup_insert.
      destruct (String.eqb x c) eqn:E; [|apply HD].
      apply String.eqb_eq in E. subst x. intros [= <-] _. cbn. apply (HD c k T L). rewrite Hs. reflexivity.
    + intros Hsd x. cbn [s_conns set_conns s_shutdown] in *. rewrite live_of_insert.
      destruct (String.eqb x c) eqn:E; [|apply HSD, Hsd].
      apply String.eqb_eq in E. subst x. pose proof (HSD Hsd c) as Hc. unfold live_of in Hc. rewrite L, Hs in Hc. discriminate.
  - apply proxy_err_gone_Inv; assumption.
  - (* NetDrop *)
    destruct (lookup c (s_conns s)) as [k|] eqn:L; [|exact HI].
    destruct (c_state k) eqn:Hs; cbn [fst];
      try (apply end_conn_Inv; [assumption|assumption|discriminate]).
    apply end_handshaking_Inv; [exact HI|exact L|exact Hs|discriminate].
  - (* Shed *)
    destruct (existsb (String.eqb c) (s_sessions s)); [|exact HI]. cbn [fst].
    apply end_conn_Inv; [assumption|assumption|discriminate].
  - apply shutdown_Inv; assumption.
  - destruct (deadline_enabled s c t); [|exact HI]. cbn [fst]. apply tick_Inv; assumption.
  - apply tick_Inv; assumption.
Qed.

Lemma init_Inv cfg : Inv cfg init.
Proof.
  split; [|split].
  - constructor.
    + constructor.
      * intros e c. cbn. split; [tauto|discriminate].
      * intros e. cbn. constructor.
      * intros e. cbn. discriminate.
      * intros e. reflexivity.
      * intros e. cbn. discriminate.
    + constructor.
      * intros c. cbn. split; [tauto|discriminate].
      * constructor.
      * intros c. cbn. split; [tauto|discriminate].
      * constructor.
    + intros c k. cbn. discriminate.
  - intros c k T. cbn. discriminate.
  - intros _ c. reflexivity.
Qed.

Lemma run_from_Inv cfg evs : forall s, cfg_d1_fixed cfg = true -> Inv cfg s -> Inv cfg (run_from cfg s evs).
Proof.
  induction evs as [|ev evs IH]; intros s Hfix HI; cbn [run_from fold_left]; [exact HI|].
  apply IH; [exact Hfix|]. apply step_Inv; assumption.
Qed.

Theorem run_Inv cfg evs : cfg_d1_fixed cfg = true -> Inv cfg (run cfg evs).
Proof. intros Hfix. apply run_from_Inv; [exact Hfix|apply init_Inv]. Qed.
