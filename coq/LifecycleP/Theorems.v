(* The statements of property C16, derived from the invariant (LifecycleP/Inv.v), for ALL event lists. *)
From Coq Require Import List String ZArith Bool Arith Lia.
From Piko Require Import Base.Maps Lifecycle.Lifecycle LifecycleP.Basics LifecycleP.Inv.
Import ListNotations.
Open Scope string_scope. Open Scope list_scope.

Lemma in_balancer_live_not_dropped st :
  in_balancer st = true <-> live_state st = true /\ match st with GoneAnnounced => true | _ => false end = false.
Proof. destruct st; cbn; intuition congruence. Qed.

(* ---------------------------------------------------------------- registered <-> open, sessions = open *)
Theorem registered_iff_open cfg evs :
  cfg_d1_fixed cfg = true ->
  let s := run cfg evs in
  (forall c, registered s c <-> In c (s_open s) /\ is_dropped s c = false)
  /\ (forall e c, In c (lookup_list e (s_reg s)) <->
                  In c (s_open s) /\ is_dropped s c = false /\ option_map c_ep (lookup c (s_conns s)) = Some e)
  /\ (forall e, NoDup (lookup_list e (s_reg s)))
  /\ (forall c, In c (s_sessions s) <-> In c (s_open s))
  /\ NoDup (s_sessions s) /\ NoDup (s_open s).
Proof.
  intros Hfix s. destruct (run_Inv cfg evs Hfix) as [[[R1 R2 R3 R4 R5] [S1 S2 S3 S4] HC] _]. fold s in R1, R2, S1, S2, S3, S4.
  assert (Hmem : forall e c, In c (lookup_list e (s_reg s)) <->
                  In c (s_open s) /\ is_dropped s c = false /\ option_map c_ep (lookup c (s_conns s)) = Some e).
  { intros e c. rewrite R1, S3. unfold bal_of, live_of, is_dropped.
    destruct (lookup c (s_conns s)) as [k|]; cbn; [|intuition congruence].
    rewrite andb_true_iff, in_balancer_live_not_dropped, String.eqb_eq. intuition congruence. }
  refine (conj _ (conj Hmem (conj R2 (conj _ (conj S2 S4))))).
  - intros c. unfold registered. split.
    + intros [e He]. apply Hmem in He. tauto.
    + intros [Ho Hd]. pose proof (proj1 (S3 c) Ho) as Hl. unfold live_of in Hl.
      destruct (lookup c (s_conns s)) as [k|] eqn:L; [|discriminate].
      exists (c_ep k). apply Hmem. rewrite L. cbn. tauto.
  - intros c. rewrite S1, S3. tauto.
Qed.

(* ---------------------------------------------------------------- nothing is left once nothing is open *)
Theorem no_leak cfg evs :
  cfg_d1_fixed cfg = true ->
  let s := run cfg evs in
  s_open s = [] -> s_reg s = [] /\ s_counts s = [] /\ s_sessions s = [].
Proof.
  intros Hfix s Hopen. destruct (run_Inv cfg evs Hfix) as [[[R1 R2 R3 R4 R5] [S1 S2 S3 S4] HC] _].
  fold s in R1, R2, R3, R4, R5, S1, S2, S3, S4.
  assert (Hnolive : forall c, live_of (s_conns s) c = false).
  { intros c. destruct (live_of (s_conns s) c) eqn:E; [|reflexivity]. apply S3 in E. rewrite Hopen in E. destruct E. }
  assert (Hnil : forall e, lookup_list e (s_reg s) = []).
  { intros e. destruct (lookup_list e (s_reg s)) as [|c r] eqn:E; [reflexivity|].
    assert (Hin : In c (lookup_list e (s_reg s))) by (rewrite E; left; reflexivity).
    apply R1 in Hin. unfold bal_of in Hin. pose proof (Hnolive c) as Hl. unfold live_of in Hl.
    destruct (lookup c (s_conns s)) as [k|]; [|discriminate].
    apply andb_true_iff in Hin. destruct Hin as [Hb _]. destruct (c_state k); discriminate. }
  split; [|split].
  - destruct (s_reg s) as [|[e l] r] eqn:E; [reflexivity|]. exfalso.
    pose proof (Hnil e) as Hn. pose proof (R3 e) as Hne. unfold lookup_list in Hn. cbn in Hn, Hne.
    rewrite String.eqb_refl in Hn, Hne. subst l. apply Hne. reflexivity.
  - destruct (s_counts s) as [|[e n] r] eqn:E; [reflexivity|]. exfalso.
    pose proof (R4 e) as Hc. pose proof (R5 e) as Hnz. rewrite Hnil in Hc. unfold count_of in Hc.
    cbn in Hc, Hnz. rewrite String.eqb_refl in Hc, Hnz. cbn in Hc. subst n. apply Hnz. reflexivity.
  - destruct (s_sessions s) as [|c r] eqn:E; [reflexivity|]. exfalso.
    assert (Hin : In c (c :: r)) by (left; reflexivity).
    apply S1 in Hin. rewrite Hnolive in Hin. discriminate.
Qed.

(* ---------------------------------------------------------------- advertised count = number registered *)
Theorem counts cfg evs :
  cfg_d1_fixed cfg = true ->
  let s := run cfg evs in
  forall e, count_of e (s_counts s) = List.length (lookup_list e (s_reg s))
            /\ (lookup e (s_counts s) = None <-> lookup e (s_reg s) = None).
Proof.
  intros Hfix s e. destruct (run_Inv cfg evs Hfix) as [[[R1 R2 R3 R4 R5] _ _] _].
  fold s in R3, R4, R5. split; [apply R4|].
  pose proof (R4 e) as Hc. pose proof (R3 e) as H3. pose proof (R5 e) as H5.
  unfold count_of, lookup_list in Hc.
  destruct (lookup e (s_counts s)) as [n|]; destruct (lookup e (s_reg s)) as [l|]; split; intros H; try discriminate; try reflexivity.
  - subst n. exfalso. apply H5. reflexivity.
  - destruct l; [congruence|discriminate].
Qed.

(* the pinned tree's RemoveConn (no early return, D1): go-away, proxy removes it after ErrGone, then it
   disconnects -> the sibling stays registered but the node advertises nothing *)
Definition cfg_pinned : config := {| cfg_auth := false; cfg_disable_expiry := false; cfg_d1_fixed := false |}.
Definition d1_witness : list event :=
  [EvDial "u1" "e" None; EvAccept "u1"; EvDial "u2" "e" None; EvAccept "u2";
   EvGoAway "u1"; EvProxyErrGone "u1"; EvClientClose "u1"].

Theorem refuted_pinned_d1 :
  exists evs e, let s := run cfg_pinned evs in
    evs = d1_witness /\ lookup_list e (s_reg s) = ["u2"] /\ s_open s = ["u2"] /\ count_of e (s_counts s) = 0
    /\ count_of e (s_counts s) <> List.length (lookup_list e (s_reg s)).
Proof.
  exists d1_witness, "e". vm_compute. repeat split; discriminate.
Qed.

(* ---------------------------------------------------------------- every way to end releases everything *)
Lemma run_app cfg evs ev : run cfg (evs ++ [ev]) = fst (step cfg (run cfg evs) ev).
Proof. unfold run, run_from. rewrite fold_left_app. reflexivity. Qed.

Lemma not_live_released cfg s c :
  Inv cfg s -> live_of (s_conns s) c = false ->
  is_live s c = false /\ ~ registered s c /\ ~ In c (s_sessions s) /\ ~ In c (s_open s).
Proof.
  intros [[[R1 _ _ _ _] [S1 _ S3 _] _] _] Hl. split; [exact Hl|split; [|split]].
  - intros [e He]. apply R1 in He. unfold bal_of in He. unfold live_of in Hl.
    destruct (lookup c (s_conns s)) as [k|]; [|discriminate].
    apply andb_true_iff in He. destruct He as [Hb _]. destruct (c_state k); discriminate.
  - rewrite S1, Hl. discriminate.
  - rewrite S3, Hl. discriminate.
Qed.

Theorem every_end_releases cfg evs c ev :
  cfg_d1_fixed cfg = true ->
  In ev [EvClientClose c; EvNetDrop c; EvShed c; EvServerShutdown] ->
  let s' := run cfg (evs ++ [ev]) in
  is_live s' c = false /\ ~ registered s' c /\ ~ In c (s_sessions s') /\ ~ In c (s_open s').
Proof.
  intros Hfix Hev s'. pose proof (run_Inv cfg (evs ++ [ev]) Hfix) as HI'. fold s' in HI'.
  apply (not_live_released cfg s' c HI').
  pose proof (run_Inv cfg evs Hfix) as HI. unfold s'. rewrite run_app. set (s := run cfg evs) in *.
  destruct Hev as [<-|[<-|[<-|[<-|[]]]]]; cbn [step].
  - destruct (lookup c (s_conns s)) as [k|] eqn:L; cbn [fst]; [|unfold live_of; rewrite L; reflexivity].
    destruct (c_state k) eqn:Hs; cbn [fst]; try (rewrite end_conn_live_of, String.eqb_refl; reflexivity).
    cbn [s_conns set_conns]. rewrite live_of_insert, String.eqb_refl. reflexivity.
  - destruct (lookup c (s_conns s)) as [k|] eqn:L; cbn [fst]; [|unfold live_of; rewrite L; reflexivity].
    destruct (c_state k) eqn:Hs; cbn [fst]; try (rewrite end_conn_live_of, String.eqb_refl; reflexivity).
    cbn [s_conns set_conns]. rewrite live_of_insert, String.eqb_refl. reflexivity.
  - destruct (existsb (String.eqb c) (s_sessions s)) eqn:E; cbn [fst].
    + rewrite end_conn_live_of, String.eqb_refl. reflexivity.
    + destruct HI as [[_ [S1 _ _ _] _] _]. destruct (live_of (s_conns s) c) eqn:Hl; [|reflexivity].
      apply S1 in Hl. assert (existsb (String.eqb c) (s_sessions s) = true); [|congruence].
      apply existsb_exists. exists c. split; [exact Hl|apply String.eqb_refl].
  - cbn [fst]. destruct (shutdown_Inv cfg s Hfix HI) as [_ [_ HSD]]. apply HSD.
    unfold shutdown.
    assert (H : forall l s0, s_shutdown (fold_left (fun s1 c0 => end_conn cfg c0 CServerShutdown s1) l s0) = s_shutdown s0).
    { induction l as [|x l IH]; intros s0; cbn [fold_left]; [reflexivity|]. rewrite IH. apply end_conn_shutdown. }
    rewrite H. reflexivity.
Qed.

(* after Shutdown the node holds nothing *)
Theorem shutdown_holds_nothing cfg evs :
  cfg_d1_fixed cfg = true ->
  let s := run cfg evs in
  s_shutdown s = true -> s_open s = [] /\ s_reg s = [] /\ s_counts s = [] /\ s_sessions s = [].
Proof.
  intros Hfix s Hsd. pose proof (run_Inv cfg evs Hfix) as HI. fold s in HI.
  assert (Ho : s_open s = []).
  { destruct HI as [[_ [_ _ S3 _] _] [_ HSD]]. destruct (s_open s) as [|c r] eqn:E; [reflexivity|]. exfalso.
    assert (Hin : In c (c :: r)) by (left; reflexivity). apply S3 in Hin. rewrite (HSD Hsd c) in Hin. discriminate. }
  split; [exact Ho|]. apply (no_leak cfg evs Hfix Ho).
Qed.

(* ---------------------------------------------------------------- token deadline *)
(* (a) a connection authenticated with a token expiring at T, disconnect-on-expiry enabled, is not open at
       any state whose clock is >= T (clocks only move in EvTick / EvDeadline, which include the server's step) *)
Theorem deadline_closes cfg evs c k t T :
  cfg_d1_fixed cfg = true ->
  let s := run cfg evs in
  cfg_auth cfg = true -> cfg_disable_expiry cfg = false ->
  lookup c (s_conns s) = Some k -> c_tok k = Some t -> tk_exp t = Some T ->
  (T <= s_clock s)%Z ->
  (c_state k = Ended \/ c_state k = Handshaking)
  /\ is_live s c = false /\ ~ registered s c /\ ~ In c (s_sessions s) /\ ~ In c (s_open s).
Proof.
  intros Hfix s Ha Hdz L Ht HT Hclk. pose proof (run_Inv cfg evs Hfix) as HI. fold s in HI.
  assert (Hnl : live_state (c_state k) = false).
  { destruct (live_state (c_state k)) eqn:Hl; [|reflexivity]. exfalso.
    destruct HI as [[_ _ HC] [HD _]]. pose proof (co_live_deadline _ _ (HC c k L) Hl) as Hdl.
    unfold effective_deadline in Hdl. rewrite Ha, Hdz, Ht in Hdl. cbn in Hdl. rewrite HT in Hdl.
    pose proof (HD c k T L Hl Hdl). lia. }
  split.
  - destruct (c_state k); try discriminate; tauto.
  - apply (not_live_released cfg s c HI). unfold live_of. rewrite L. exact Hnl.
Qed.

(* in the same terms for the handler's context deadline: once the clock is at or past it the connection is Ended *)
Theorem deadline_ended cfg evs c k T :
  cfg_d1_fixed cfg = true ->
  let s := run cfg evs in
  lookup c (s_conns s) = Some k -> c_deadline k = Some T -> (T <= s_clock s)%Z -> c_state k = Ended.
Proof.
  intros Hfix s L HT Hclk. destruct (run_Inv cfg evs Hfix) as [[_ _ HC] [HD _]]. fold s in HC, HD.
  destruct (c_state k) eqn:Hs; try reflexivity.
  - pose proof (co_handshaking _ _ (HC c k L) Hs). congruence.
  - assert (Hl : live_state (c_state k) = true) by (rewrite Hs; reflexivity). pose proof (HD c k T L Hl HT). lia.
  - assert (Hl : live_state (c_state k) = true) by (rewrite Hs; reflexivity). pose proof (HD c k T L Hl HT). lia.
  - assert (Hl : live_state (c_state k) = true) by (rewrite Hs; reflexivity). pose proof (HD c k T L Hl HT). lia.
Qed.

(* (b) the server never ends a connection with cause Deadline before its token's expiry *)
Theorem deadline_not_before cfg evs c k :
  cfg_d1_fixed cfg = true ->
  let s := run cfg evs in
  lookup c (s_conns s) = Some k -> c_cause k = Some CDeadline ->
  exists T at_ t, c_tok k = Some t /\ tk_exp t = Some T /\ c_deadline k = Some T /\ c_ended_at k = Some at_ /\ (T <= at_)%Z
                  /\ cfg_auth cfg = true /\ cfg_disable_expiry cfg = false.
Proof.
  intros Hfix s L Hc. destruct (run_Inv cfg evs Hfix) as [[_ _ HC] _]. fold s in HC.
  destruct (co_cause_deadline _ _ (HC c k L) Hc) as [T [at_ [H1 [H2 H3]]]].
  destruct (co_deadline_cfg _ _ (HC c k L) T H1) as [Ha [Hd [t [Ht HT]]]].
  exists T, at_, t. tauto.
Qed.

(* a Deadline event is only enabled from the expiry on *)
Theorem deadline_event_enabled_only_from_T cfg evs c t :
  cfg_d1_fixed cfg = true ->
  let s := run cfg evs in
  deadline_enabled s c t = true ->
  exists k T, lookup c (s_conns s) = Some k /\ c_deadline k = Some T /\ (T <= t)%Z /\ In c (s_open s).
Proof.
  intros Hfix s He. destruct (run_Inv cfg evs Hfix) as [[_ [_ _ S3 _] _] _]. fold s in S3.
  unfold deadline_enabled in He. destruct (lookup c (s_conns s)) as [k|] eqn:L; [|discriminate].
  unfold due in He. apply andb_true_iff in He. destruct He as [Hl Hd].
  destruct (c_deadline k) as [T|] eqn:HT; [|discriminate]. exists k, T.
  split; [reflexivity|split; [exact HT|split; [apply Z.leb_le, Hd|]]]. apply S3. unfold live_of. rewrite L. exact Hl.
Qed.

(* (c) with disconnect-on-expiry disabled (or without a verifier) no connection has a deadline, no Deadline
       event is ever enabled and nothing ends with cause Deadline *)
Theorem no_deadline_when_disabled cfg evs :
  cfg_d1_fixed cfg = true ->
  cfg_disable_expiry cfg = true \/ cfg_auth cfg = false ->
  let s := run cfg evs in
  forall c, (forall t, deadline_enabled s c t = false)
            /\ (forall k, lookup c (s_conns s) = Some k -> c_deadline k = None /\ c_cause k <> Some CDeadline).
Proof.
  intros Hfix Hcfg s c. destruct (run_Inv cfg evs Hfix) as [[_ _ HC] _]. fold s in HC.
  assert (Hnone : forall k, lookup c (s_conns s) = Some k -> c_deadline k = None).
  { intros k L. destruct (c_deadline k) as [T|] eqn:HT; [|reflexivity]. exfalso.
    destruct (co_deadline_cfg _ _ (HC c k L) T HT) as [Ha [Hd _]]. destruct Hcfg; congruence. }
  split.
  - intros t. unfold deadline_enabled. destruct (lookup c (s_conns s)) as [k|] eqn:L; [|reflexivity].
    unfold due. rewrite (Hnone k eq_refl). apply andb_false_r.
  - intros k L. split; [apply Hnone, L|]. intros Hc.
    destruct (co_cause_deadline _ _ (HC c k L) Hc) as [T [at_ [H1 _]]]. rewrite (Hnone k L) in H1. discriminate.
Qed.

(* ---------------------------------------------------------------- examples: the hypotheses are satisfiable *)
Definition cfg_plain : config := {| cfg_auth := false; cfg_disable_expiry := false; cfg_d1_fixed := true |}.
Definition cfg_jwt : config := {| cfg_auth := true; cfg_disable_expiry := false; cfg_d1_fixed := true |}.
Definition cfg_jwt_nodisc : config := {| cfg_auth := true; cfg_disable_expiry := true; cfg_d1_fixed := true |}.
Definition tok_exp (T : Z) : option token := Some {| tk_exp := Some T; tk_permits := true |}.

(* a reachable state with two open connections of which one was dropped after go-away: registered = open minus dropped *)
Example ex_registered_minus_dropped :
  let s := run cfg_plain [EvDial "u1" "e" None; EvAccept "u1"; EvDial "u2" "e" None; EvAccept "u2"; EvDial "u3" "f" None; EvAccept "u3";
                          EvGoAway "u1"; EvProxyErrGone "u1"] in
  s_open s = ["u1"; "u2"; "u3"] /\ is_dropped s "u1" = true /\ lookup_list "e" (s_reg s) = ["u2"] /\ lookup_list "f" (s_reg s) = ["u3"]
  /\ count_of "e" (s_counts s) = 1 /\ s_sessions s = ["u1"; "u2"; "u3"].
Proof. vm_compute. repeat split. Qed.

(* the D1 sequence on the fixed RemoveConn keeps the sibling advertised; and open = [] is reachable non-trivially *)
Example ex_d1_fixed :
  let s := run cfg_plain d1_witness in
  lookup_list "e" (s_reg s) = ["u2"] /\ count_of "e" (s_counts s) = 1 /\ s_open s = ["u2"].
Proof. vm_compute. repeat split. Qed.

Example ex_all_gone :
  let s := run cfg_plain (d1_witness ++ [EvShed "u2"]) in s_open s = [] /\ s_conns s <> [].
Proof. vm_compute. split; [reflexivity|discriminate]. Qed.

(* a token expiring at 1000: still open at 999, Ended with cause Deadline at 1000 *)
Example ex_deadline :
  let evs := [EvDial "u1" "e" (tok_exp 1000); EvAccept "u1"; EvTick 999] in
  is_live (run cfg_jwt evs) "u1" = true
  /\ deadline_enabled (run cfg_jwt evs) "u1" 999 = false /\ deadline_enabled (run cfg_jwt evs) "u1" 1000 = true
  /\ option_map (fun k => (c_state k, c_cause k, c_ended_at k)) (lookup "u1" (s_conns (run cfg_jwt (evs ++ [EvTick 1000]))))
     = Some (Ended, Some CDeadline, Some 1000%Z)
  /\ s_open (run cfg_jwt (evs ++ [EvTick 1000])) = [].
Proof. vm_compute. repeat split. Qed.

(* the same token with disconnect-on-expiry disabled: open past the expiry, and refused once expired *)
Example ex_deadline_disabled :
  let s := run cfg_jwt_nodisc [EvDial "u1" "e" (tok_exp 1000); EvAccept "u1"; EvTick 5000; EvDial "u2" "e" (tok_exp 1000); EvAccept "u2"] in
  s_open s = ["u1"] /\ option_map c_cause (lookup "u2" (s_conns s)) = Some (Some CRejected).
Proof. vm_compute. repeat split. Qed.
