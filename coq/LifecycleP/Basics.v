(* Lemmas about the building blocks of Lifecycle.v: remove_first, the balancer registry, the advertised
   counts, AddConn / RemoveConn. *)
From Coq Require Import List String ZArith Bool Arith Lia.
From Piko Require Import Base.Maps Lifecycle.Lifecycle.
Import ListNotations.
Open Scope string_scope. Open Scope list_scope.

(* ---- remove_first ---- *)
Lemma remove_first_notin c l : ~ In c l -> remove_first c l = l.
Proof.
  induction l as [|x r IH]; cbn; [reflexivity|].
  intros Hni. destruct (String.eqb x c) eqn:E.
  - apply String.eqb_eq in E. subst. exfalso. apply Hni. left. reflexivity.
  - f_equal. apply IH. intros Hin. apply Hni. right. exact Hin.
Qed.

Lemma in_remove_first_subset c x l : In x (remove_first c l) -> In x l.
Proof.
  induction l as [|y r IH]; cbn; [tauto|].
  destruct (String.eqb y c); cbn.
  - intros H. right. exact H.
  - intros [H|H]; [left; exact H|right; apply IH, H].
Qed.

Lemma in_remove_first c x l : NoDup l -> (In x (remove_first c l) <-> In x l /\ x <> c).
Proof.
  induction l as [|y r IH]; cbn; [tauto|].
  intros Hnd. inversion Hnd as [|? ? Hni Hnd']; subst.
  destruct (String.eqb y c) eqn:E.
  - apply String.eqb_eq in E. subst y. split.
    + intros H. split; [right; exact H|]. intros ->. exact (Hni H).
    + intros [[H|H] Hne]; [congruence|exact H].
  - apply String.eqb_neq in E. cbn. rewrite (IH Hnd'). split.
    + intros [H|[H1 H2]]; [subst; split; [left; reflexivity|exact E]|split; [right; exact H1|exact H2]].
    + intros [[H|H] Hne]; [left; exact H|right; split; assumption].
Qed.

Lemma NoDup_remove_first c l : NoDup l -> NoDup (remove_first c l).
Proof.
  induction l as [|y r IH]; cbn; [constructor|].
  intros Hnd. inversion Hnd as [|? ? Hni Hnd']; subst.
  destruct (String.eqb y c); [exact Hnd'|].
  constructor; [|apply IH, Hnd'].
  intros H. apply Hni. eapply in_remove_first_subset, H.
Qed.

Lemma length_remove_first_in c l : In c l -> S (List.length (remove_first c l)) = List.length l.
Proof.
  induction l as [|y r IH]; cbn; [tauto|].
  intros Hin. destruct (String.eqb y c) eqn:E; [reflexivity|].
  apply String.eqb_neq in E. cbn. f_equal. apply IH. destruct Hin as [H|H]; [congruence|exact H].
Qed.

Lemma NoDup_app_one (c : string) l : NoDup l -> ~ In c l -> NoDup (l ++ [c]).
Proof.
  induction l as [|y r IH]; cbn; intros Hnd Hni.
  - constructor; [tauto|constructor].
  - inversion Hnd as [|? ? Hn1 Hn2]; subst. constructor.
    + rewrite in_app_iff. cbn. intros [H|[H|[]]]; [exact (Hn1 H)|]. apply Hni. left. symmetry. exact H.
    + apply IH; [exact Hn2|]. intros H. apply Hni. right. exact H.
Qed.

(* ---- advertised counts ---- *)
Lemma count_of_cluster_add e e' cnt :
  count_of e' (cluster_add e cnt) = if String.eqb e' e then S (count_of e cnt) else count_of e' cnt.
Proof.
  unfold cluster_add, count_of at 1. rewrite lookup_insert. destruct (String.eqb e' e); reflexivity.
Qed.

Lemma count_of_cluster_remove e e' cnt :
  count_of e' (cluster_remove e cnt) = if String.eqb e' e then pred (count_of e cnt) else count_of e' cnt.
Proof.
  unfold cluster_remove. unfold count_of at 2.
  destruct (lookup e cnt) as [[|[|n]]|] eqn:L.
  - destruct (String.eqb e' e) eqn:E; [|reflexivity]. apply String.eqb_eq in E. subst. unfold count_of. rewrite L. reflexivity.
  - unfold count_of at 1. rewrite lookup_remove. destruct (String.eqb e' e); reflexivity.
  - unfold count_of at 1. rewrite lookup_insert. destruct (String.eqb e' e); reflexivity.
  - destruct (String.eqb e' e) eqn:E; [|reflexivity]. apply String.eqb_eq in E. subst. unfold count_of. rewrite L. reflexivity.
Qed.

Lemma cluster_add_nz e cnt : (forall x, lookup x cnt <> Some 0) -> forall x, lookup x (cluster_add e cnt) <> Some 0.
Proof.
  intros H x. unfold cluster_add. rewrite lookup_insert. destruct (String.eqb x e); [discriminate|apply H].
Qed.

Lemma cluster_remove_nz e cnt : (forall x, lookup x cnt <> Some 0) -> forall x, lookup x (cluster_remove e cnt) <> Some 0.
Proof.
  intros H x. unfold cluster_remove. destruct (lookup e cnt) as [[|[|n]]|] eqn:L; try apply H.
  - rewrite lookup_remove. destruct (String.eqb x e); [discriminate|apply H].
  - rewrite lookup_insert. destruct (String.eqb x e); [discriminate|apply H].
Qed.

(* ---- AddConn / RemoveConn on the registry ---- *)
Lemma add_conn_conns e c s : s_conns (add_conn e c s) = s_conns s. Proof. reflexivity. Qed.
Lemma add_conn_sessions e c s : s_sessions (add_conn e c s) = s_sessions s. Proof. reflexivity. Qed.
Lemma add_conn_open e c s : s_open (add_conn e c s) = s_open s. Proof. reflexivity. Qed.
Lemma add_conn_clock e c s : s_clock (add_conn e c s) = s_clock s. Proof. reflexivity. Qed.
Lemma add_conn_shutdown e c s : s_shutdown (add_conn e c s) = s_shutdown s. Proof. reflexivity. Qed.

Lemma lookup_list_add_conn e c s e' :
  lookup_list e' (s_reg (add_conn e c s)) =
  if String.eqb e' e then lookup_list e (s_reg s) ++ [c] else lookup_list e' (s_reg s).
Proof.
  unfold add_conn. cbn [s_reg set_counts set_reg]. unfold lookup_list at 1. rewrite lookup_insert.
  destruct (String.eqb e' e); reflexivity.
Qed.

Lemma lookup_add_conn_nonempty e c s :
  (forall x, lookup x (s_reg s) <> Some []) -> forall x, lookup x (s_reg (add_conn e c s)) <> Some [].
Proof.
  intros H x. unfold add_conn. cbn [s_reg set_counts set_reg]. rewrite lookup_insert. destruct (String.eqb x e); [|apply H].
  intros [= Heq]. destruct (lookup_list e (s_reg s)); discriminate.
Qed.

Lemma count_of_add_conn e c s e' :
  count_of e' (s_counts (add_conn e c s)) = if String.eqb e' e then S (count_of e (s_counts s)) else count_of e' (s_counts s).
Proof. unfold add_conn. cbn [s_counts set_counts set_reg]. apply count_of_cluster_add. Qed.

Lemma remove_conn_conns f e c s : s_conns (remove_conn f e c s) = s_conns s.
Proof.
  unfold remove_conn. destruct (lookup e (s_reg s)); [|reflexivity].
  destruct (lb_remove c l) as [l' em]. destruct (f && _); reflexivity.
Qed.
Lemma remove_conn_sessions f e c s : s_sessions (remove_conn f e c s) = s_sessions s.
Proof.
  unfold remove_conn. destruct (lookup e (s_reg s)); [|reflexivity].
  destruct (lb_remove c l) as [l' em]. destruct (f && _); reflexivity.
Qed.
Lemma remove_conn_open f e c s : s_open (remove_conn f e c s) = s_open s.
Proof.
  unfold remove_conn. destruct (lookup e (s_reg s)); [|reflexivity].
  destruct (lb_remove c l) as [l' em]. destruct (f && _); reflexivity.
Qed.
Lemma remove_conn_clock f e c s : s_clock (remove_conn f e c s) = s_clock s.
Proof.
  unfold remove_conn. destruct (lookup e (s_reg s)); [|reflexivity].
  destruct (lb_remove c l) as [l' em]. destruct (f && _); reflexivity.
Qed.
Lemma remove_conn_shutdown f e c s : s_shutdown (remove_conn f e c s) = s_shutdown s.
Proof.
  unfold remove_conn. destruct (lookup e (s_reg s)); [|reflexivity].
  destruct (lb_remove c l) as [l' em]. destruct (f && _); reflexivity.
Qed.

Lemma remove_conn_reg f e c s :
  s_reg (remove_conn f e c s) =
  match lookup e (s_reg s) with
  | None => s_reg s
  | Some l => match remove_first c l with [] => remove e (s_reg s) | l' => insert e l' (s_reg s) end
  end.
Proof.
  unfold remove_conn, lb_remove. destruct (lookup e (s_reg s)) as [l|]; [|reflexivity].
  destruct (f && _); destruct (remove_first c l); reflexivity.
Qed.

Lemma lookup_list_remove_conn f e c s e' :
  lookup_list e' (s_reg (remove_conn f e c s)) =
  if String.eqb e' e then remove_first c (lookup_list e (s_reg s)) else lookup_list e' (s_reg s).
Proof.
  rewrite remove_conn_reg. unfold lookup_list at 2.
  destruct (lookup e (s_reg s)) as [l|] eqn:L.
  - destruct (remove_first c l) as [|y r] eqn:R; unfold lookup_list at 1.
    + rewrite lookup_remove. destruct (String.eqb e' e); reflexivity.
    + rewrite lookup_insert. destruct (String.eqb e' e); reflexivity.
  - destruct (String.eqb e' e) eqn:E; [|reflexivity]. apply String.eqb_eq in E. subst.
    unfold lookup_list. rewrite L. reflexivity.
Qed.

Lemma lookup_remove_conn_nonempty f e c s :
  (forall x, lookup x (s_reg s) <> Some []) -> forall x, lookup x (s_reg (remove_conn f e c s)) <> Some [].
Proof.
  intros H x. rewrite remove_conn_reg. destruct (lookup e (s_reg s)) as [l|]; [|apply H].
  destruct (remove_first c l) as [|y r].
  - rewrite lookup_remove. destruct (String.eqb x e); [discriminate|apply H].
  - rewrite lookup_insert. destruct (String.eqb x e); [discriminate|apply H].
Qed.

Lemma remove_conn_counts f e c s :
  s_counts (remove_conn f e c s) =
  match lookup e (s_reg s) with
  | None => s_counts s
  | Some l => if f && Nat.eqb (List.length (remove_first c l)) (List.length l) then s_counts s
              else cluster_remove e (s_counts s)
  end.
Proof.
  unfold remove_conn, lb_remove. destruct (lookup e (s_reg s)) as [l|]; [|reflexivity].
  destruct (f && _); reflexivity.
Qed.

(* the fixed RemoveConn keeps "advertised count = balancer length" *)
Lemma count_of_remove_conn_fixed e c s :
  (forall x, count_of x (s_counts s) = List.length (lookup_list x (s_reg s))) ->
  forall x, count_of x (s_counts (remove_conn true e c s)) = List.length (lookup_list x (s_reg (remove_conn true e c s))).
Proof.
  intros HC x. rewrite lookup_list_remove_conn, remove_conn_counts.
  pose proof (HC e) as HCe. unfold lookup_list in HCe |- * at 1.
  destruct (lookup e (s_reg s)) as [l|] eqn:L.
  - cbn [andb].
    destruct (in_dec string_dec c l) as [Hin|Hni].
    + pose proof (length_remove_first_in c l Hin) as Hlen.
      assert (Hne : Nat.eqb (List.length (remove_first c l)) (List.length l) = false) by (apply Nat.eqb_neq; lia).
      rewrite Hne. rewrite count_of_cluster_remove.
      destruct (String.eqb x e) eqn:E.
      * rewrite HCe. lia.
      * rewrite HC. unfold lookup_list. reflexivity.
    + rewrite (remove_first_notin c l Hni). rewrite Nat.eqb_refl.
      destruct (String.eqb x e) eqn:E.
      * apply String.eqb_eq in E. subst. exact HCe.
      * rewrite HC. reflexivity.
  - destruct (String.eqb x e) eqn:E.
    + apply String.eqb_eq in E. subst. cbn. exact HCe.
    + rewrite HC. reflexivity.
Qed.

Lemma remove_conn_counts_nz f e c s :
  (forall x, lookup x (s_counts s) <> Some 0) -> forall x, lookup x (s_counts (remove_conn f e c s)) <> Some 0.
Proof.
  intros H x. rewrite remove_conn_counts. destruct (lookup e (s_reg s)) as [l|]; [|apply H].
  destruct (f && _); [apply H|apply cluster_remove_nz, H].
Qed.
