(* The client side of an upstream connection over time: client/listener.go AcceptWithContext (the loop that notices a lost
   session and reconnects) on top of client/upstream.go Upstream.connect (dial, classify the error, back off, dial again),
   with the two contexts that govern them: the context of the Accept call and the listener's own close context
   (cancelled by Close / Shutdown). Models only; proofs in NodeLossP/ConnectP.v.

   Time is a position counter: every dial attempt takes two positions (p: the dial starts; p+1: the dial has failed and
   the loop looks at the context / waits for the backoff). A context is a monotone predicate on positions
   (once cancelled, cancelled for good). *)
From Coq Require Import List Bool Arith.
Import ListNotations.

Inductive dial := DialOk | DialRetryable | DialFatal.

Inductive conn_out :=
| KConnected (at_pos : nat)   (* a session was established by the dial that started at this position *)
| KCtx                        (* return nil, ctx.Err() *)
| KFatal                      (* non-retryable error *)
| KRetrying.                  (* script exhausted: still in the loop *)

(* upstream.go:111-172. websocket.Dial(ctx, ...) with a cancelled context fails; after a failed dial the context is looked
   at first (`if ctx.Err() != nil { return nil, ctx.Err() }`), then the error class; the backoff wait also ends when the
   context is cancelled. Returns the outcome and the position at which the loop ended. *)
Fixpoint connect_loop (done : nat -> bool) (p : nat) (dials : list dial) : conn_out * nat :=
  match dials with
  | [] => (KRetrying, p)
  | d :: r =>
      if done p then (KCtx, S p)
      else match d with
           | DialOk => (KConnected p, S p)
           | DialFatal => if done (S p) then (KCtx, S (S p)) else (KFatal, S (S p))
           | DialRetryable => if done (S p) then (KCtx, S (S p)) else connect_loop done (S (S p)) r
           end
  end.

(* which context AcceptWithContext hands to connect: the listener's close context (the code as it is) or the context of
   the Accept call (the variant) *)
Inductive which_ctx := UseCloseCtx | UseAcceptCtx.

(* one episode of the Accept loop: the session is lost at some position, then the loop decides *)
Inductive accept_out :=
| AReturnedCtx | AReturnedClosed | AConnectErr | AStillRetrying
| AReconnected (at_pos : nat).   (* a new session was established; Accept goes on accepting on it *)

(* listener.go:77-101, one lost session at position p with the dial outcomes that follow *)
Definition on_session_lost (w : which_ctx) (accept_done close_done : nat -> bool) (p : nat) (dials : list dial) : accept_out :=
  if accept_done p then AReturnedCtx
  else if close_done p then AReturnedClosed
  else match fst (connect_loop (match w with UseCloseCtx => close_done | UseAcceptCtx => accept_done end) p dials) with
       | KConnected q => AReconnected q
       | KCtx | KFatal => AConnectErr
       | KRetrying => AStillRetrying
       end.

Definition monotone (f : nat -> bool) : Prop := forall p q, p <= q -> f p = true -> f q = true.
