(* pkg/backoff/backoff.go (exponential backoff with jitter) and the timed view of the client's reconnection loop
   (client/upstream.go Upstream.connect) that is built on it. Models only; proofs in NodeLossP/BackoffP.v.

   Durations are integers (nanoseconds, Go time.Duration = int64, modelled unbounded: 2*last overflows only above 2^62 ns
   = 146 years; theorems carry no range hypothesis because the cap keeps every value below 1.1*max+1).

   The jitter is an ORACLE: `time.Duration(float64(backoff) * (1.0 + rand.Float64()*0.1))` is not reproduced bit by bit,
   the model takes the duration the real code returned and validates that it is a legal outcome for the base wait:
   base <= w <= base + base/10 + 1 (rand.Float64 is in [0,1), float64(base) is exact below 2^53 ns, the product is
   rounded once and truncated: never below base, never above 1.1*base by more than one nanosecond). *)
From Coq Require Import List ZArith Bool.
Import ListNotations.
Local Open Scope Z_scope.

Record bo := mkBo {
  bo_retries : Z;      (* 0 = retry forever *)
  bo_min : Z;
  bo_max : Z;
  bo_attempts : Z;
  bo_last : Z }.

(* backoff.go:23 New *)
Definition bo_new (retries minb maxb : Z) : bo := mkBo retries minb maxb 0 0.

(* backoff.go:47-57 nextWait before the jitter: min on the first call (lastBackoff == 0), twice the last wait (which
   includes the last jitter) afterwards, capped at max *)
Definition base_wait (b : bo) : Z :=
  let x := if bo_last b =? 0 then bo_min b else 2 * bo_last b in
  if x >? bo_max b then bo_max b else x.

(* legal outcomes of the jitter for a base wait *)
Definition valid_wait (base w : Z) : bool := (base <=? w) && (w <=? base + base / 10 + 1).

(* backoff.go:34-44 Backoff(): None = (0, false) "abort"; Some (b', w) = (w, true) *)
Definition backoff_step (b : bo) (w : Z) : option (bo * Z) :=
  if negb (bo_retries b =? 0) && (bo_attempts b >? bo_retries b) then None
  else Some (mkBo (bo_retries b) (bo_min b) (bo_max b) (bo_attempts b + 1) w, w).

(* a run of calls with the jitter outcomes ws: the waits returned (None from the first abort on; an aborting call does
   not change the state) *)
Fixpoint backoff_run (b : bo) (ws : list Z) : list (option Z) :=
  match ws with
  | [] => []
  | w :: r => match backoff_step b w with
              | None => None :: backoff_run b r
              | Some (b', w') => Some w' :: backoff_run b' r
              end
  end.

(* every oracle value was a legal jitter outcome at the moment it was used *)
Fixpoint legal_run (b : bo) (ws : list Z) : bool :=
  match ws with
  | [] => true
  | w :: r => match backoff_step b w with
              | None => legal_run b r
              | Some (b', _) => valid_wait (base_wait b) w && legal_run b' r
              end
  end.

(* --- the reconnection loop over time (client/upstream.go:111-172): attempt i starts at s_i, its dial takes d_i and
   fails with a retryable error, the loop then waits w_i (the backoff) and dials again:  s_{i+1} = s_i + d_i + w_i.
   A dial that succeeds ends the loop. [context cancellation and non-retryable errors: NodeLoss/Connect.v] *)
Fixpoint dial_starts (s : Z) (b : bo) (dws : list (Z * Z)) : list Z :=
  match dws with
  | [] => [s]
  | (d, w) :: r => match backoff_step b w with
                   | None => s :: dial_starts (s + d + 0) b r        (* abort flag ignored by connect: wait 0 *)
                   | Some (b', w') => s :: dial_starts (s + d + w') b' r
                   end
  end.

(* the configuration Upstream.connect builds: defaults 100ms / 15s when the fields are zero, retry forever *)
Definition connect_backoff (cfg_min cfg_max : Z) : bo :=
  bo_new 0 (if cfg_min =? 0 then 100000000 else cfg_min) (if cfg_max =? 0 then 15000000000 else cfg_max).

(* --- which failed dials are retried (pkg/websocket/conn.go Dial): no HTTP response at all (connection refused, reset,
   closed before the handshake answer) is retryable; a response is retryable iff its status is one of 408, 429, 500, 502,
   503, 504; every other status (401, 403, 404, a redirect ...) ends the loop with an error *)
Inductive dial_result := DRConnected | DRNoResponse | DRStatus (st : Z).
Definition retryable_status (st : Z) : bool := existsb (Z.eqb st) [408; 429; 500; 502; 503; 504].
Definition dial_fatal (r : dial_result) : bool :=
  match r with DRStatus st => negb (retryable_status st) | _ => false end.

(* the loop over a script of dial results (context never cancelled): how many dials are made and how it ends.
   true = connected, false = gave up with an error; None = the script ended while still retrying *)
Fixpoint connect_script (rs : list dial_result) : nat * option bool :=
  match rs with
  | [] => (O, None)
  | r :: rest =>
      match r with
      | DRConnected => (1%nat, Some true)
      | _ => if dial_fatal r then (1%nat, Some false)
             else let '(n, o) := connect_script rest in (S n, o)
      end
  end.
