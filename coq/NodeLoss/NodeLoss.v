(* C18 - Losing a node. Models only (proofs in NodeLossP/).
   (1) the client listener's reconnect decision   client/listener.go:75-101 (AcceptWithContext), with the pinned
       (pre-D4) decision kept for the refutation; the accept loop around it incl. client/upstream.go:108-190 (connect);
   (2) the server shutdown sequence                server/server.go:300-348 (Server.Shutdown) over an abstract node state;
   (3) the cluster-level composition               pkg/gossip/gossip.go:197-247 (Leave), 477-537 (leave),
       pkg/gossip/listener.go:170-200 (streamListener.leave) = LeaveLocal at the leaver + ApplyDelta of the leaver's
       LocalDelta at each notified peer, server/gossip/syncer.go:108-142 (OnLeave), server/cluster/state.go:104-126
       (LookupEndpoint) - all over the shared models Gossip/{Local,Apply}.v and Cluster/Syncer.v;
   (4) a cluster of survivors for the recovery statement. *)
From Coq Require Import List String NArith ZArith Bool.
From Piko Require Import Base.Maps Base.Strs Gossip.Types Gossip.Local Gossip.Apply Cluster.Syncer.
Import ListNotations.
Open Scope string_scope. Open Scope list_scope.

(* ------------------------------------------------------------------ (1) client reconnect decision *)

(* how the loss of the session surfaces in sess.AcceptStreamWithContext's error *)
Inductive sess_err :=
| ESessionShutdown      (* errors.Is(err, yamux.ErrSessionShutdown) *)
| ENetClosed            (* errors.Is(err, net.ErrClosed): what pkg/websocket maps a close frame / closed conn to *)
| EOtherErr.            (* EOF, connection reset, keepalive timeout, ... *)

Inductive decision :=
| DCtxErr               (* return nil, ctx.Err() *)
| DErrClosed            (* return nil, ErrClosed *)
| DReconnect.           (* log "disconnected; reconnecting", l.connect(l.closeCtx) *)

(* client/listener.go:82-100 as it is now (after commit "fix: reconnect the listener when the server closes the
   connection"): the caller's context first, then the listener's own close context; the error class is not looked at *)
Definition accept_decision (ctx_cancelled closed_locally : bool) (e : sess_err) : decision :=
  if ctx_cancelled then DCtxErr
  else if closed_locally then DErrClosed
  else DReconnect.

(* the pinned tree (before D4 was repaired): `errors.Is(err, yamux.ErrSessionShutdown) || errors.Is(err, net.ErrClosed)`
   decided "closed", whoever closed *)
Definition accept_decision_pinned (ctx_cancelled closed_locally : bool) (e : sess_err) : decision :=
  if ctx_cancelled then DCtxErr
  else match e with
       | ESessionShutdown | ENetClosed => DErrClosed
       | EOtherErr => DReconnect
       end.

(* result of l.connect(l.closeCtx) -> Upstream.connect (client/upstream.go:108-190): retries retryable dial errors
   with backoff for ever; ends with a session, with the close context's error, or with a non-retryable error *)
Inductive connect_result := CConnected | CCtxCancelled | CFatal.

(* one iteration of the for-loop of AcceptWithContext *)
Inductive accept_iter :=
| AStream                                                      (* a stream was accepted: return conn, nil *)
| AErr (ctx_cancelled closed_locally : bool) (e : sess_err) (c : connect_result).

Inductive accept_outcome :=
| OConn                 (* returns a connection *)
| OCtxErr | OErrClosed  (* the two decisions that return *)
| OConnectErr           (* fmt.Errorf("connect: %w", err) *)
| OBlocked.             (* script exhausted: still inside AcceptStreamWithContext on a live session *)

Fixpoint accept_loop (its : list accept_iter) : accept_outcome :=
  match its with
  | [] => OBlocked
  | AStream :: _ => OConn
  | AErr cc cl e c :: rest =>
      match accept_decision cc cl e with
      | DCtxErr => OCtxErr
      | DErrClosed => OErrClosed
      | DReconnect => match c with CConnected => accept_loop rest | _ => OConnectErr end
      end
  end.

(* ------------------------------------------------------------------ (2) server shutdown sequence *)

(* what the rest of the cluster and the clients can see of one server node *)
Record nstate := {
  ns_ready : bool;               (* admin /ready *)
  ns_upstream_open : bool;       (* upstream listener accepts new upstream connections *)
  ns_cancelled : bool;           (* upstream.Server.cancel() was called: every upstream handler has been told to end *)
  ns_conns : list string;        (* endpoint of every upstream connection still registered (one element per connection) *)
  ns_eps : amap Z;               (* cluster.State local endpoint counts = what the node advertises ("endpoint:<id>") *)
  ns_proxy_open : bool;          (* proxy listener *)
  ns_left : bool;                (* "_internal:left" marker published in the local gossip state *)
  ns_notified : list string;     (* peers that acknowledged the leave stream *)
  ns_gossip_open : bool;         (* gossip listeners / loops *)
  ns_admin_open : bool;
}.

Inductive shstep :=
| StNotReady            (* s.adminServer.SetReady(false)                                      server.go:317 *)
| StUpstream            (* s.shutdownUpstreamServer: httpServer.Shutdown closes the listener (hijacked websocket connections
                           are not waited for), then s.cancel() cancels every handler's context      server.go:327,
                           upstream/server.go:155-160. The handlers end in their own goroutines: StExit *)
| StExit (ep : string)  (* one upstream handler of endpoint ep returns (upstream/server.go:228-262): its deferred RemoveConn
                           takes the connection out of the balancer and decrements the advertised count
                           (manager.go RemoveConn -> cluster.State.RemoveLocalEndpoint -> syncer -> DeleteLocal/UpsertLocal).
                           NOT a step of Shutdown itself: it is scheduled by the runtime, anywhere in the sequence *)
| StProxy               (* s.shutdownProxyServer                                               server.go:331 *)
| StLeave (live : list string)   (* s.gossiper.Leave: LeaveLocal, then the leave stream to the live peers   server.go:334 *)
| StGossipClose         (* s.gossiper.Close()                                                  server.go:341 *)
| StAdmin.              (* s.shutdownAdminServer                                               server.go:343 *)

(* RemoveLocalEndpoint once per connection (server/cluster/state.go:151-183) *)
Definition dec_ep (m : amap Z) (ep : string) : amap Z :=
  match lookup ep m with
  | None => m
  | Some c => if (c =? 0)%Z then m else if (1 <? c)%Z then insert ep (c - 1)%Z m else remove ep m
  end.

Fixpoint remove_one (ep : string) (l : list string) : list string :=
  match l with [] => [] | x :: r => if String.eqb ep x then r else x :: remove_one ep r end.

(* Leave notifies the live peers in (shuffled) order and stops after the 4th acknowledgement (`notified > 3`) *)
Definition notified_of (live : list string) : list string := firstn 4 live.

Definition shutdown_step (n : nstate) (s : shstep) : nstate :=
  match s with
  | StNotReady => {| ns_ready := false; ns_upstream_open := ns_upstream_open n; ns_cancelled := ns_cancelled n; ns_conns := ns_conns n;
                     ns_eps := ns_eps n; ns_proxy_open := ns_proxy_open n; ns_left := ns_left n; ns_notified := ns_notified n;
                     ns_gossip_open := ns_gossip_open n; ns_admin_open := ns_admin_open n |}
  | StUpstream => {| ns_ready := ns_ready n; ns_upstream_open := false; ns_cancelled := true; ns_conns := ns_conns n;
                     ns_eps := ns_eps n; ns_proxy_open := ns_proxy_open n; ns_left := ns_left n; ns_notified := ns_notified n;
                     ns_gossip_open := ns_gossip_open n; ns_admin_open := ns_admin_open n |}
  | StExit ep => if existsb (String.eqb ep) (ns_conns n) then
                   {| ns_ready := ns_ready n; ns_upstream_open := ns_upstream_open n; ns_cancelled := ns_cancelled n;
                      ns_conns := remove_one ep (ns_conns n); ns_eps := dec_ep (ns_eps n) ep;
                      ns_proxy_open := ns_proxy_open n; ns_left := ns_left n; ns_notified := ns_notified n;
                      ns_gossip_open := ns_gossip_open n; ns_admin_open := ns_admin_open n |}
                 else n
  | StProxy => {| ns_ready := ns_ready n; ns_upstream_open := ns_upstream_open n; ns_cancelled := ns_cancelled n; ns_conns := ns_conns n;
                  ns_eps := ns_eps n; ns_proxy_open := false; ns_left := ns_left n; ns_notified := ns_notified n;
                  ns_gossip_open := ns_gossip_open n; ns_admin_open := ns_admin_open n |}
  | StLeave live => {| ns_ready := ns_ready n; ns_upstream_open := ns_upstream_open n; ns_cancelled := ns_cancelled n; ns_conns := ns_conns n;
                       ns_eps := ns_eps n; ns_proxy_open := ns_proxy_open n; ns_left := true;
                       ns_notified := notified_of live;   (* the leave stream is dialled out: it does not need the node's own listeners *)
                       ns_gossip_open := ns_gossip_open n; ns_admin_open := ns_admin_open n |}
  | StGossipClose => {| ns_ready := ns_ready n; ns_upstream_open := ns_upstream_open n; ns_cancelled := ns_cancelled n; ns_conns := ns_conns n;
                        ns_eps := ns_eps n; ns_proxy_open := ns_proxy_open n; ns_left := ns_left n; ns_notified := ns_notified n;
                        ns_gossip_open := false; ns_admin_open := ns_admin_open n |}
  | StAdmin => {| ns_ready := ns_ready n; ns_upstream_open := ns_upstream_open n; ns_cancelled := ns_cancelled n; ns_conns := ns_conns n;
                  ns_eps := ns_eps n; ns_proxy_open := ns_proxy_open n; ns_left := ns_left n; ns_notified := ns_notified n;
                  ns_gossip_open := ns_gossip_open n; ns_admin_open := false |}
  end.

(* Server.Shutdown, in the order of server/server.go:317-343 *)
Definition shutdown_script (live : list string) : list shstep :=
  [StNotReady; StUpstream; StProxy; StLeave live; StGossipClose; StAdmin].

Definition run_script (n : nstate) (steps : list shstep) : nstate := fold_left shutdown_step steps n.

Definition is_exit (s : shstep) : bool := match s with StExit _ => true | _ => false end.
(* the steps of Shutdown itself / the endpoints of the handler exits in a schedule *)
Definition script_of (sched : list shstep) : list shstep := filter (fun s => negb (is_exit s)) sched.
Definition exits_of (sched : list shstep) : list string :=
  flat_map (fun s => match s with StExit ep => [ep] | _ => [] end) sched.

(* a serving node: every connection is counted (C05/C16: advertised count = registered connections) *)
Definition count_conns (conns : list string) (ep : string) : Z :=
  Z.of_nat (List.length (filter (String.eqb ep) conns)).

Definition serving (conns : list string) (eps : amap Z) : nstate :=
  {| ns_ready := true; ns_upstream_open := true; ns_cancelled := false; ns_conns := conns; ns_eps := eps; ns_proxy_open := true;
     ns_left := false; ns_notified := []; ns_gossip_open := true; ns_admin_open := true |}.

(* the advertised counts of a node whose connections are [conns] *)
Definition eps_of_conns (conns : list string) : amap Z :=
  fold_left (fun m ep => insert ep (match lookup ep m with Some c => c + 1 | None => 1 end)%Z m) conns [].

(* ------------------------------------------------------------------ (3) leave reaches a notified peer *)

(* Gossip.leave(addr): the leaver sends LocalDelta() = [deltaEntry(local, 0)] of its state AFTER LeaveLocal *)
Definition leave_delta (own : node_state) : list delta_entry := [delta_entry_of (leave_local own) 0].

(* streamListener.leave at the peer: ApplyDelta(delta); the watcher events go to the peer's syncer *)
Definition peer_receives_leave (nows : amap Z) (c : cstate) (s : sstate) (own : node_state) : cstate * sstate * list event :=
  let '(c', evs) := apply_delta nows c (leave_delta own) in
  (c', on_events s evs, evs).

(* the failure detector's verdict reaching a survivor's syncer (crash: no leave) *)
Definition peer_detects_crash (s : sstate) (id : string) : sstate := on_event s (EUnreach id).

(* ------------------------------------------------------------------ (4) the surviving cluster *)

(* survivors: node id -> its cluster.State (routing view of the others + its own local registry) *)
Definition cluster := amap sstate.

(* a request for endpoint ep entering at a node with state sa (server/upstream/manager.go Select + proxy): it is served by
   a local upstream when one is registered; otherwise it is forwarded to whichever node LookupEndpoint returns, and a
   forwarded request is only ever served locally there (x-piko-forward, C06) *)
Definition served_from (w : cluster) (sa : sstate) (ep : string) : Prop :=
  (0 < local_count sa ep)%Z \/
  (lookup_candidates sa ep <> [] /\
   forall c, In c (lookup_candidates sa ep) -> exists sc, lookup c w = Some sc /\ (0 < local_count sc ep)%Z).
