(* Route guarding: a boolean check over ALL valuations of the registration conditions, its soundness, its
   evaluation on the regenerated tables, and what a guarded chain means for a refused request. *)
From Coq Require Import List String Ascii ZArith NArith Bool Lia.
From Piko Require Import Auth.Token Auth.Verify Auth.Routes Auth.Serve AuthP.VerifyP generated.RouteTables.
Import ListNotations.
Open Scope string_scope. Open Scope list_scope.

(* middleware that may run ahead of the auth middleware: it never answers a request nor touches an upstream
   (panic recovery, access log, request metrics) *)
Definition inert_mws : list string := ["gin.CustomRecoveryWithWriter"; "middleware.NewLogger"; "metrics.Handler"].

(* the auth middleware occurs in the chain and only inert middleware precedes it *)
Definition guarded (ch : chain) : Prop :=
  exists pre post, fst ch = pre ++ "auth" :: post /\ Forall (fun m => In m inert_mws) pre.

Fixpoint guardedb (mws : list string) : bool :=
  match mws with
  | [] => false
  | m :: r => if String.eqb m "auth" then true else mem m inert_mws && guardedb r
  end.

Lemma guardedb_sound mws h : guardedb mws = true -> guarded (mws, h).
Proof.
  induction mws as [|m r IH]; cbn; intros H; [discriminate|].
  destruct (String.eqb m "auth") eqn:E.
  - apply String.eqb_eq in E. subst m. exists [], r. split; [reflexivity|constructor].
  - apply andb_true_iff in H. destruct H as [Hm Hr].
    destruct (IH Hr) as [pre [post [Heq Hall]]]. cbn in Heq.
    exists (m :: pre), post. split; [cbn; rewrite Heq; reflexivity|].
    constructor; [apply mem_In; exact Hm|exact Hall].
Qed.

Definition engine_guardedb (e : engine) : bool :=
  forallb (fun r => guardedb (rt_mws r)) (e_routes e) && guardedb (fst (noroute_chain e)).

Definition engine_guarded (e : engine) : Prop :=
  (forall r, In r (e_routes e) -> guarded (route_chain r)) /\ guarded (noroute_chain e).

Lemma engine_guardedb_sound e : engine_guardedb e = true -> engine_guarded e.
Proof.
  unfold engine_guardedb, engine_guarded. intros H. apply andb_true_iff in H. destruct H as [Hr Hn]. split.
  - intros r Hin. rewrite forallb_forall in Hr. apply guardedb_sound. apply Hr. exact Hin.
  - destruct (noroute_chain e) as [mws h]. apply guardedb_sound. exact Hn.
Qed.

(* ------------------------------------------------------------------ all valuations of the conditions *)
Definition op_cond (o : regop) : cond :=
  match o with OUse c _ _ | OGroup c _ _ _ _ | OHandle c _ _ _ _ _ | ONoRoute c _ => c end.

Definition cond_names (ops : list regop) : list string := flat_map (fun o => map fst (op_cond o)) ops.

Fixpoint valuations (ns : list string) : list (list (string * bool)) :=
  match ns with
  | [] => [[]]
  | n :: r => flat_map (fun v => [(n, true) :: v; (n, false) :: v]) (valuations r)
  end.

Fixpoint env_of_val (v : list (string * bool)) (n : string) : bool :=
  match v with
  | [] => false
  | (k, b) :: r => if String.eqb k n then b else env_of_val r n
  end.

(* every valuation of the condition names with "verifier" forced to true *)
Definition all_guardedb (ops : list regop) : bool :=
  forallb (fun v => engine_guardedb (build (env_of_val (("verifier", true) :: v)) ops))
          (valuations (nodup string_dec (cond_names ops))).

Lemma valuations_complete (f : string -> bool) ns : In (map (fun n => (n, f n)) ns) (valuations ns).
Proof.
  induction ns as [|n r IH]; cbn; [left; reflexivity|].
  apply in_flat_map. exists (map (fun n => (n, f n)) r). split; [exact IH|].
  destruct (f n); [left|right; left]; reflexivity.
Qed.

Lemma env_of_val_map (f : string -> bool) ns n : In n ns -> env_of_val (map (fun n => (n, f n)) ns) n = f n.
Proof.
  induction ns as [|k r IH]; cbn; intros H; [contradiction|].
  destruct (String.eqb k n) eqn:E.
  - apply String.eqb_eq in E. subst. reflexivity.
  - destruct H as [H|H]; [subst; rewrite String.eqb_refl in E; discriminate|]. apply IH. exact H.
Qed.

Lemma holds_agree env1 env2 c :
  (forall n, In n (map fst c) -> env1 n = env2 n) -> holds env1 c = holds env2 c.
Proof.
  intros H. unfold holds. induction c as [|[n b] r IH]; cbn; [reflexivity|].
  rewrite (H n); [|left; reflexivity]. rewrite IH; [reflexivity|].
  intros n' Hn'. apply H. right. exact Hn'.
Qed.

Lemma step_agree env1 env2 e o :
  (forall n, In n (map fst (op_cond o)) -> env1 n = env2 n) -> step env1 e o = step env2 e o.
Proof.
  intros H. destruct o; cbn [op_cond] in H; cbn [step]; rewrite (holds_agree env1 env2 c H); reflexivity.
Qed.

Lemma build_agree env1 env2 ops :
  (forall n, In n (cond_names ops) -> env1 n = env2 n) -> build env1 ops = build env2 ops.
Proof.
  unfold build. generalize init_engine. induction ops as [|o r IH]; intros e H; cbn; [reflexivity|].
  rewrite (step_agree env1 env2 e o).
  - apply IH. intros n Hn. apply H. unfold cond_names. cbn. apply in_or_app. right. exact Hn.
  - intros n Hn. apply H. unfold cond_names. cbn. apply in_or_app. left. exact Hn.
Qed.

Lemma all_guardedb_sound ops :
  all_guardedb ops = true ->
  forall env : string -> bool, env "verifier" = true -> engine_guarded (build env ops).
Proof.
  intros H env Hv. unfold all_guardedb in H. rewrite forallb_forall in H.
  set (ns := nodup string_dec (cond_names ops)) in *.
  specialize (H (map (fun n => (n, env n)) ns) (valuations_complete env ns)).
  apply engine_guardedb_sound in H.
  rewrite (build_agree env (env_of_val (("verifier", true) :: map (fun n => (n, env n)) ns)) ops); [exact H|].
  intros n Hn. cbn [env_of_val].
  destruct (String.eqb "verifier" n) eqn:E.
  - apply String.eqb_eq in E. subst n. exact Hv.
  - symmetry. apply env_of_val_map. unfold ns. apply nodup_In. exact Hn.
Qed.

(* ------------------------------------------------------------------ the regenerated tables *)
Definition piko_tables : list (list regop) := [proxy_ops; upstream_ops; admin_ops].

(* BY COMPUTATION on generated/RouteTables.v, which every run rewrites from the current source *)
Lemma tables_all_guardedb : forallb all_guardedb piko_tables = true.
Proof. vm_compute. reflexivity. Qed.

Lemma every_route_guarded :
  forall ops, In ops piko_tables ->
  forall env : string -> bool, env "verifier" = true ->
  let e := build env ops in
  (forall r, In r (e_routes e) -> guarded (route_chain r)) /\ guarded (noroute_chain e).
Proof.
  intros ops Hin env Hv. pose proof tables_all_guardedb as H. rewrite forallb_forall in H.
  exact (all_guardedb_sound ops (H ops Hin) env Hv).
Qed.

(* ------------------------------------------------------------------ a refused request *)
Lemma inert_passes m : In m inert_mws -> String.eqb m "auth" = false /\ String.eqb m "server.forwardInterceptor" = false.
Proof.
  unfold inert_mws. intros [H|[H|[H|[]]]]; subst m; split; reflexivity.
Qed.

Lemma run_chain_inert_prefix pc dec rq now pre rest h ps tok :
  Forall (fun m => In m inert_mws) pre ->
  run_chain pc dec rq now (pre ++ rest) h ps tok = run_chain pc dec rq now rest h ps tok.
Proof.
  induction pre as [|m r IH]; intros Hall; [reflexivity|].
  inversion Hall as [|? ? Hm Hr]; subst. destruct (inert_passes m Hm) as [E1 E2].
  cbn [app run_chain]. rewrite E1, E2. apply IH. exact Hr.
Qed.

Lemma guarded_chain_reject pc dec rq now mws h ps m s e :
  pc_verifier pc = Some m -> guarded (mws, h) -> auth_mw m dec rq now = Reject s e ->
  run_chain pc dec rq now mws h ps None = outcome_of_reject s e.
Proof.
  intros Hv [pre [post [Heq Hall]]] Hrej. cbn [fst] in Heq. subst mws.
  rewrite run_chain_inert_prefix by exact Hall.
  cbn [run_chain]. rewrite String.eqb_refl, Hv, Hrej. reflexivity.
Qed.

Lemma first_match_In method path rs r ps : first_match method path rs = Some (r, ps) -> In r rs.
Proof.
  induction rs as [|x rest IH]; cbn; intros H; [discriminate|].
  destruct (match_route method path x) as [p|].
  - inversion H; subst. left. reflexivity.
  - right. apply IH. exact H.
Qed.

Lemma find_route_In e method path r ps : find_route e method path = Some (r, ps) -> In r (e_routes e).
Proof.
  unfold find_route. intros H.
  destruct (first_match method path (filter (fun r0 => String.eqb (rt_path r0) path) (e_routes e))) as [[r' ps']|] eqn:E.
  - inversion H; subst. apply first_match_In in E. apply filter_In in E. exact (proj1 E).
  - apply first_match_In in H. exact H.
Qed.

(* on a guarded engine a refused request is either gin's redirect (no chain runs at all) or the refusal itself *)
Lemma guarded_engine_reject e pc dec rq now m s err :
  engine_guarded e -> pc_verifier pc = Some m -> auth_mw m dec rq now = Reject s err ->
  serve_on e pc dec rq now = ORedirect \/ serve_on e pc dec rq now = outcome_of_reject s err.
Proof.
  intros [Hr Hn] Hv Hrej. unfold serve_on, dispatch.
  destruct (find_route e (rq_method rq) (rq_path rq)) as [[r ps]|] eqn:Ef.
  - right. apply find_route_In in Ef. apply (guarded_chain_reject pc dec rq now _ _ ps m s err Hv (Hr r Ef) Hrej).
  - destruct (negb (String.eqb (rq_method rq) "CONNECT") && negb (String.eqb (rq_path rq) "/")
              && match find_route e (rq_method rq) (toggle_slash (rq_path rq)) with Some _ => true | None => false end).
    + left. reflexivity.
    + right. destruct (noroute_chain e) as [mws h] eqn:En. cbn [fst snd].
      apply (guarded_chain_reject pc dec rq now mws h [] m s err Hv); [|exact Hrej]. exact Hn.
Qed.

Lemma env_of_verifier pc m : pc_verifier pc = Some m -> env_of pc "verifier" = true.
Proof. intros H. unfold env_of. cbn. rewrite H. reflexivity. Qed.

Lemma reject_is_401_no_handler ops pc dec rq now m err :
  In ops piko_tables -> pc_verifier pc = Some m -> auth_mw m dec rq now = Reject 401 err ->
  serve ops pc dec rq now = ORedirect \/ serve ops pc dec rq now = O401 err.
Proof.
  intros Hin Hv Hrej. unfold serve.
  pose proof (every_route_guarded ops Hin (env_of pc) (env_of_verifier pc m Hv)) as Hg.
  exact (guarded_engine_reject _ pc dec rq now m 401%N err Hg Hv Hrej).
Qed.

(* ------------------------------------------------------------------ A1: the redirect comes before any middleware *)
Definition a1_ops : list regop :=
  [OUse [] "" "gin.CustomRecoveryWithWriter"; OUse [("verifier", true)] "" "auth"; OHandle [] "" "GET" "/health" [] "s.healthRoute"].
Definition a1_cfg : portcfg :=
  {| pc_verifier := Some {| mt_default := {| c_hmac := Some {| k_id := "k"; k_fam := FHmac |}; c_rsa := None; c_ecdsa := None;
                                              c_jwks := None; c_aud := ""; c_iss := ""; c_noexp := false |};
                            mt_tenants := [] |};
     pc_cluster := None; pc_registry := false |}.
Definition a1_req : request :=
  {| rq_method := "GET"; rq_path := "/health/"; rq_host := "x"; rq_xendpoint := ""; rq_xauth := ""; rq_auth := "";
     rq_tenant := ""; rq_forward := None |}.

Lemma trailing_slash_redirect_precedes_auth :
  exists ops pc rq,
    all_guardedb ops = true /\ (exists m, pc_verifier pc = Some m) /\ preferred_header rq = "" /\
    forall dec now, serve ops pc dec rq now = ORedirect.
Proof.
  exists a1_ops, a1_cfg, a1_req. split; [vm_compute; reflexivity|]. split; [eexists; reflexivity|].
  split; [reflexivity|]. intros dec now. vm_compute. reflexivity.
Qed.

(* ------------------------------------------------------------------ C10 at the level of a served request *)
Lemma run_handler_routed h t rq ps e :
  (run_handler h (Some t) rq ps = OSelect e \/ run_handler h (Some t) rq ps = OAddConn e) ->
  endpoint_permitted t e = true.
Proof.
  unfold run_handler. destruct h as [name|]; [|intros [H|H]; discriminate].
  destruct (String.eqb name "s.proxyHTTPRoute").
  { unfold proxy_http_route. destruct (String.eqb (endpoint_id_from_request rq) "").
    - cbn. intros [H|H]; discriminate.
    - unfold check_then_route. destruct (endpoint_permitted t (endpoint_id_from_request rq)) eqn:Ep; cbn.
      + intros [H|H]; inversion H; subst. exact Ep.
      + intros [H|H]; discriminate. }
  destruct (String.eqb name "s.proxyTCPRoute").
  { unfold proxy_tcp_route, check_then_route. destruct (endpoint_permitted t (lookup_param "endpointID" ps)) eqn:Ep; cbn.
    - intros [H|H]; inversion H; subst. exact Ep.
    - intros [H|H]; discriminate. }
  destruct (String.eqb name "s.upstreamRoute").
  { unfold upstream_route, check_then_route. destruct (endpoint_permitted t (lookup_param "endpointID" ps)) eqn:Ep; cbn.
    - intros [H|H]; inversion H; subst. exact Ep.
    - intros [H|H]; discriminate. }
  intros [H|H]; discriminate.
Qed.

Lemma outcome_of_reject_not_routed s err e : outcome_of_reject s err <> OSelect e /\ outcome_of_reject s err <> OAddConn e.
Proof. unfold outcome_of_reject. destruct (s =? 401)%N; split; discriminate. Qed.

Lemma run_chain_routed_permitted pc dec rq now m t mws h ps e :
  pc_verifier pc = Some m -> auth_mw m dec rq now = Accept t ->
  (run_chain pc dec rq now mws h ps (Some t) = OSelect e \/ run_chain pc dec rq now mws h ps (Some t) = OAddConn e) ->
  endpoint_permitted t e = true.
Proof.
  intros Hv Hacc. induction mws as [|mw rest IH]; cbn [run_chain].
  - apply run_handler_routed.
  - destruct (String.eqb mw "auth").
    + rewrite Hv, Hacc. exact IH.
    + destruct (String.eqb mw "server.forwardInterceptor"); [|exact IH].
      destruct (rq_forward rq) as [id|]; [|exact IH].
      destruct (pc_cluster pc) as [[local nodes]|]; [|exact IH].
      destruct (String.eqb id local); [exact IH|].
      destruct (mem id nodes); intros [H|H]; discriminate.
Qed.

Lemma guarded_chain_routed pc dec rq now mws h ps m e :
  pc_verifier pc = Some m -> guarded (mws, h) ->
  (run_chain pc dec rq now mws h ps None = OSelect e \/ run_chain pc dec rq now mws h ps None = OAddConn e) ->
  exists t, auth_mw m dec rq now = Accept t /\ endpoint_permitted t e = true.
Proof.
  intros Hv [pre [post [Heq Hall]]]. cbn [fst] in Heq. subst mws.
  rewrite run_chain_inert_prefix by exact Hall.
  cbn [run_chain]. rewrite String.eqb_refl, Hv.
  destruct (auth_mw m dec rq now) as [t|s err] eqn:Ha.
  - intros H. exists t. split; [reflexivity|]. exact (run_chain_routed_permitted pc dec rq now m t post h ps e Hv Ha H).
  - intros [H|H]; [destruct (outcome_of_reject_not_routed s err e) as [N _]|destruct (outcome_of_reject_not_routed s err e) as [_ N]]; contradiction.
Qed.

(* on the real tables: whatever endpoint a protected port routes to was permitted by the accepted token *)
Lemma routed_is_permitted ops pc dec rq now m e :
  In ops piko_tables -> pc_verifier pc = Some m ->
  (serve ops pc dec rq now = OSelect e \/ serve ops pc dec rq now = OAddConn e) ->
  exists t, auth_mw m dec rq now = Accept t /\ endpoint_permitted t e = true.
Proof.
  intros Hin Hv. unfold serve.
  destruct (every_route_guarded ops Hin (env_of pc) (env_of_verifier pc m Hv)) as [Hr Hn].
  set (en := build (env_of pc) ops) in *. unfold serve_on.
  destruct (dispatch en (rq_method rq) (rq_path rq)) as [r ps| |] eqn:Ed.
  - unfold dispatch in Ed. destruct (find_route en (rq_method rq) (rq_path rq)) as [[r' ps']|] eqn:Ef.
    + inversion Ed; subst. apply find_route_In in Ef.
      apply (guarded_chain_routed pc dec rq now _ _ ps m e Hv (Hr r Ef)).
    + destruct (_ && _ && _); discriminate.
  - intros [H|H]; discriminate.
  - destruct (noroute_chain en) as [mws h] eqn:En. cbn [fst snd].
    apply (guarded_chain_routed pc dec rq now mws h [] m e Hv). exact Hn.
Qed.
