(* Lemmas about the token verification model (Auth/Token.v, Auth/Verify.v). *)
From Coq Require Import List String Ascii ZArith NArith Bool Lia.
From Piko Require Import Auth.Token Auth.Verify.
Import ListNotations.
Open Scope string_scope. Open Scope list_scope.

(* ------------------------------------------------------------------ small facts *)
Lemma mem_In s l : mem s l = true <-> In s l.
Proof.
  unfold mem. rewrite existsb_exists. split.
  - intros [x [Hin Heq]]. apply String.eqb_eq in Heq. subst. exact Hin.
  - intros Hin. exists s. split; [exact Hin|apply String.eqb_refl].
Qed.

Lemma mem_app s a b : mem s (a ++ b) = mem s a || mem s b.
Proof. unfold mem. apply existsb_app. Qed.

Lemma family_eqb_eq a b : family_eqb a b = true -> a = b.
Proof. destruct a, b; cbn; intros H; try reflexivity; discriminate. Qed.

Lemma key_eqb_eq a b : key_eqb a b = true -> a = b.
Proof.
  destruct a as [ia fa], b as [ib fb]. unfold key_eqb. cbn. intros H.
  apply andb_true_iff in H. destruct H as [H1 H2].
  apply String.eqb_eq in H1. apply family_eqb_eq in H2. subst. reflexivity.
Qed.

Lemma sig_valid_spec t k :
  sig_valid t k = true ->
  t_intact t = true /\ t_signed_by t = Some k /\ alg_family (t_alg t) = Some (k_fam k).
Proof.
  unfold sig_valid. intros H.
  apply andb_true_iff in H. destruct H as [H H3].
  apply andb_true_iff in H. destruct H as [H1 H2].
  split; [exact H1|].
  destruct (t_signed_by t) as [k'|]; [|discriminate].
  apply key_eqb_eq in H2. subst k'.
  destruct (alg_family (t_alg t)) as [f|]; [|discriminate].
  apply family_eqb_eq in H3. subst f. split; reflexivity.
Qed.

(* membership in the concrete algorithm lists *)
Ltac mem_cases H :=
  unfold mem, hs_algs, rs_algs, ps_algs, es_algs in H; cbn [existsb] in H;
  repeat rewrite orb_true_iff in H;
  repeat match type of H with
         | _ \/ _ => destruct H as [H|H]
         end;
  try discriminate H; try (apply String.eqb_eq in H; subst).

Lemma hs_not_rs a : mem a rs_algs = true -> mem a hs_algs = false.
Proof. intros H. mem_cases H; reflexivity. Qed.

Lemma es_not_hs_rs a : mem a es_algs = true -> mem a hs_algs = false /\ mem a rs_algs = false.
Proof. intros H. mem_cases H; split; reflexivity. Qed.

(* ------------------------------------------------------------------ configured keys *)
Definition configured (c : vcfg) (k : key) : Prop :=
  c_hmac c = Some k \/ c_rsa c = Some k \/ c_ecdsa c = Some k \/
  exists ks j, c_jwks c = Some ks /\ In j ks /\ j_key j = k.

(* with a configured verifier and an algorithm that passed the valid-methods check, the static key function
   returns a configured key (never the empty secret, never a nil key) *)
Lemma static_key_configured c a :
  c_jwks c = None -> enabled c = true ->
  (negb (is_nil (methods c)) && negb (mem a (methods c))) = false ->
  exists k, static_key c a = KKey k /\ configured c k.
Proof.
  intros Hj Hen Hm.
  assert (Hmem : mem a (methods c) = true).
  { unfold enabled in Hen. rewrite Hj in Hen. cbn [is_some] in Hen. rewrite orb_false_r in Hen.
    destruct (mem a (methods c)) eqn:E; [reflexivity|].
    rewrite andb_true_r in Hm. apply negb_false_iff in Hm.
    unfold methods in Hm, E.
    destruct (c_hmac c); [discriminate Hm|]. destruct (c_rsa c); [discriminate Hm|].
    destruct (c_ecdsa c); [discriminate Hm|]. discriminate Hen. }
  unfold methods in Hmem. rewrite !mem_app in Hmem.
  apply orb_true_iff in Hmem. destruct Hmem as [Hh|Hmem].
  - destruct (c_hmac c) as [k|] eqn:Ek; [|discriminate Hh]. cbn [is_some] in Hh.
    exists k. split; [|left; exact Ek]. unfold static_key. rewrite Hh, Ek. reflexivity.
  - apply orb_true_iff in Hmem. destruct Hmem as [Hr|He].
    + destruct (c_rsa c) as [k|] eqn:Ek; [|discriminate Hr]. cbn [is_some] in Hr.
      exists k. split; [|right; left; exact Ek].
      unfold static_key. rewrite (hs_not_rs _ Hr), Hr, Ek. reflexivity.
    + destruct (c_ecdsa c) as [k|] eqn:Ek; [|discriminate He]. cbn [is_some] in He.
      exists k. split; [|right; right; left; exact Ek].
      destruct (es_not_hs_rs _ He) as [H1 H2].
      unfold static_key. rewrite H1, H2, He, Ek. reflexivity.
Qed.

Lemma jwks_key_configured ks t :
  match jwks_key ks t with
  | KKey k => exists j, In j ks /\ j_key j = k
  | KSet l => forall k, In k l -> exists j, In j ks /\ j_key j = k
  | KNilKey => False
  | KErr => True
  end.
Proof.
  unfold jwks_key. destruct (t_kid t) as [kid|].
  - destruct (find (fun j => String.eqb (j_kid j) kid) ks) as [j|] eqn:E; [|exact I].
    apply find_some in E. destruct E as [Hin _].
    destruct (j_alg j) as [a|].
    + destruct (String.eqb a (t_alg t)); [|exact I]. exists j. split; [exact Hin|reflexivity].
    + exists j. split; [exact Hin|reflexivity].
  - destruct (is_nil ks); [exact I|].
    intros k Hk. apply in_map_iff in Hk. destruct Hk as [j [Hj Hin]]. exists j. split; [exact Hin|exact Hj].
Qed.

(* ------------------------------------------------------------------ JWTVerifier.Verify *)
(* every run of jwt_verify on a parseable token: rejected as invalid, or (only for a verifier without keys)
   a nil-key panic, or some key verified the signature and the claims decide *)
Lemma jwt_verify_cases c t now :
  jwt_verify c (Some t) now = VInvalid
  \/ (jwt_verify c (Some t) now = VPanic /\ enabled c = false)
  \/ (exists k, sig_valid t k = true /\ (enabled c = true -> configured c k)
                /\ jwt_verify c (Some t) now = claims_check c t now).
Proof.
  unfold jwt_verify.
  destruct (negb (alg_registered (t_alg t))); [left; reflexivity|].
  destruct (negb (is_nil (methods c)) && negb (mem (t_alg t) (methods c))) eqn:Hm; [left; reflexivity|].
  unfold key_for.
  destruct (c_jwks c) as [ks|] eqn:Hj.
  - pose proof (jwks_key_configured ks t) as Hk.
    destruct (jwks_key ks t) as [k|l| |].
    + destruct (sig_valid t k) eqn:Hs; [|left; reflexivity].
      right; right. exists k. split; [exact Hs|]. split; [|reflexivity].
      intros _. destruct Hk as [j [Hin Hjk]]. right; right; right. exists ks, j. auto.
    + destruct (existsb (sig_valid t) l) eqn:Hs; [|left; reflexivity].
      apply existsb_exists in Hs. destruct Hs as [k [Hin Hs]].
      right; right. exists k. split; [exact Hs|]. split; [|reflexivity].
      intros _. destruct (Hk k Hin) as [j [Hinj Hjk]]. right; right; right. exists ks, j. auto.
    + destruct Hk.
    + left; reflexivity.
  - destruct (enabled c) eqn:Hen.
    + destruct (static_key_configured c (t_alg t) Hj Hen Hm) as [k [Hk Hc]].
      rewrite Hk. destruct (sig_valid t k) eqn:Hs; [|left; reflexivity].
      right; right. exists k. split; [exact Hs|]. split; [intros _; exact Hc|reflexivity].
    + destruct (static_key c (t_alg t)) as [k|l| |].
      * destruct (sig_valid t k) eqn:Hs; [|left; reflexivity].
        right; right. exists k. split; [exact Hs|]. split; [intros H; discriminate H|reflexivity].
      * destruct (existsb (sig_valid t) l) eqn:Hs; [|left; reflexivity].
        apply existsb_exists in Hs. destruct Hs as [k [Hin Hs]].
        right; right. exists k. split; [exact Hs|]. split; [intros H; discriminate H|reflexivity].
      * right; left. split; reflexivity.
      * left; reflexivity.
Qed.

Lemma claims_check_ok c t now ex eps :
  claims_check c t now = VOk ex eps ->
  (forall e, t_exp t = Some e -> (now < ns e)%Z) /\
  (forall n, t_nbf t = Some n -> (ns n <= now)%Z) /\
  (c_aud c <> "" -> In (c_aud c) (t_aud t)) /\
  (c_iss c <> "" -> t_iss t = Some (c_iss c)) /\
  eps = t_endpoints t /\ ex = (if c_noexp c then None else t_exp t).
Proof.
  unfold claims_check. intros H.
  destruct (match t_exp t with Some e => negb (now <? ns e)%Z | None => false end) eqn:Eexp; [discriminate H|].
  destruct (match t_nbf t with Some n => (now <? ns n)%Z | None => false end) eqn:Enbf; [discriminate H|].
  destruct (negb (String.eqb (c_aud c) "") && negb (mem (c_aud c) (t_aud t))) eqn:Eaud; [discriminate H|].
  destruct (negb (String.eqb (c_iss c) "")
            && negb (match t_iss t with Some i => String.eqb i (c_iss c) | None => false end)) eqn:Eiss; [discriminate H|].
  cbn in H. inversion H; subst. clear H.
  repeat split.
  - intros e He. rewrite He in Eexp. apply negb_false_iff in Eexp. apply Z.ltb_lt in Eexp. exact Eexp.
  - intros n Hn. rewrite Hn in Enbf. apply Z.ltb_ge in Enbf. exact Enbf.
  - intros Hne. apply andb_false_iff in Eaud. destruct Eaud as [E|E].
    + apply negb_false_iff in E. apply String.eqb_eq in E. contradiction.
    + apply negb_false_iff in E. apply mem_In. exact E.
  - intros Hne. apply andb_false_iff in Eiss. destruct Eiss as [E|E].
    + apply negb_false_iff in E. apply String.eqb_eq in E. contradiction.
    + apply negb_false_iff in E. destruct (t_iss t) as [i|]; [|discriminate E].
      apply String.eqb_eq in E. subst. reflexivity.
Qed.

Lemma claims_check_never_panics c t now : claims_check c t now <> VPanic.
Proof.
  unfold claims_check.
  destruct (match t_exp t with Some e => negb (now <? ns e)%Z | None => false end); [discriminate|].
  destruct (_ || _ || _); discriminate.
Qed.

(* ------------------------------------------------------------------ header parsing *)
Lemma cut_space_spec s a b : cut_space s = Some (a, b) -> s = (a ++ " " ++ b)%string.
Proof.
  revert a b. induction s as [|c r IH]; intros a b H; cbn in H; [discriminate|].
  destruct (Ascii.eqb c " "%char) eqn:E.
  - inversion H; subst. apply Ascii.eqb_eq in E. subst. reflexivity.
  - destruct (cut_space r) as [[a' b']|]; [|discriminate].
    inversion H; subst. cbn. f_equal. apply IH. reflexivity.
Qed.

Lemma parse_token_ok rq s : parse_token rq = PTok s -> preferred_header rq = ("Bearer " ++ s)%string.
Proof.
  unfold parse_token. intros H.
  destruct (String.eqb (preferred_header rq) ""); [discriminate|].
  destruct (cut_space (preferred_header rq)) as [[ty tok]|] eqn:E; [|discriminate].
  destruct (String.eqb ty "Bearer") eqn:Et; [|discriminate].
  inversion H; subst. apply String.eqb_eq in Et. subst.
  apply cut_space_spec in E. exact E.
Qed.

(* ------------------------------------------------------------------ the middleware *)
(* which verifier a tenant header selects (None: the request is refused as unknown tenant) *)
Definition selected_verifier (m : mtv) (tenant : string) : option vcfg :=
  if String.eqb tenant "" then (if is_nil (mt_tenants m) then Some (mt_default m) else None)
  else lookup_tenant tenant (mt_tenants m).

Lemma multi_tenant_ok m ot tenant now t :
  multi_tenant m ot tenant now = MOk t ->
  exists c, selected_verifier m tenant = Some c /\ at_tenant t = tenant /\
            jwt_verify c ot now = VOk (at_expiry t) (at_endpoints t).
Proof.
  unfold multi_tenant, selected_verifier. intros H.
  destruct (String.eqb tenant "") eqn:Et.
  - destruct (is_nil (mt_tenants m)); cbn [negb] in H; [|discriminate].
    exists (mt_default m). apply String.eqb_eq in Et. subst tenant.
    destruct (jwt_verify (mt_default m) ot now); cbn in H; try discriminate.
    inversion H; subst. cbn. auto.
  - destruct (lookup_tenant tenant (mt_tenants m)) as [c|]; [|discriminate].
    exists c. destruct (jwt_verify c ot now); cbn in H; try discriminate.
    inversion H; subst. cbn. auto.
Qed.

Lemma auth_accept_inv m dec rq now t :
  auth_mw m dec rq now = Accept t ->
  exists tokstr c,
    preferred_header rq = ("Bearer " ++ tokstr)%string /\
    selected_verifier m (rq_tenant rq) = Some c /\ at_tenant t = rq_tenant rq /\
    jwt_verify c (dec tokstr) now = VOk (at_expiry t) (at_endpoints t).
Proof.
  unfold auth_mw. intros H.
  destruct (parse_token rq) as [s|e] eqn:Ep; [|discriminate].
  destruct (multi_tenant m (dec s) (rq_tenant rq) now) as [t'| | | |] eqn:Em; try discriminate.
  inversion H; subst t'. clear H.
  apply multi_tenant_ok in Em. destruct Em as [c [Hs [Ht Hv]]].
  exists s, c. split; [apply parse_token_ok; exact Ep|]. auto.
Qed.

(* C09_accept_sound *)
Lemma accept_sound m dec rq now t :
  auth_mw m dec rq now = Accept t ->
  exists tokstr tok c,
    preferred_header rq = ("Bearer " ++ tokstr)%string /\ dec tokstr = Some tok /\
    selected_verifier m (rq_tenant rq) = Some c /\
    (exists k, t_signed_by tok = Some k /\ alg_family (t_alg tok) = Some (k_fam k) /\ t_intact tok = true
               /\ (enabled c = true -> configured c k)) /\
    (forall e, t_exp tok = Some e -> (now < ns e)%Z) /\
    (forall n, t_nbf tok = Some n -> (ns n <= now)%Z) /\
    (c_aud c <> "" -> In (c_aud c) (t_aud tok)) /\
    (c_iss c <> "" -> t_iss tok = Some (c_iss c)) /\
    at_endpoints t = t_endpoints tok /\ at_tenant t = rq_tenant rq.
Proof.
  intros H. apply auth_accept_inv in H. destruct H as [s [c [Hh [Hs [Ht Hv]]]]].
  destruct (dec s) as [tok|] eqn:Ed; [|cbn in Hv; discriminate].
  exists s, tok, c. split; [exact Hh|]. split; [exact Ed|]. split; [exact Hs|].
  destruct (jwt_verify_cases c tok now) as [Hi|[[Hp _]|[k [Hsig [Hconf Hcl]]]]].
  - rewrite Hi in Hv. discriminate.
  - rewrite Hp in Hv. discriminate.
  - rewrite Hcl in Hv. apply claims_check_ok in Hv.
    destruct Hv as [He [Hn [Ha [Hi [Heps _]]]]].
    apply sig_valid_spec in Hsig. destruct Hsig as [S1 [S2 S3]].
    split; [exists k; auto|]. repeat split; auto.
Qed.

(* C09_none_and_confusion (verifier level) *)
Definition bad_signature (c : vcfg) (t : token) : Prop :=
  t_alg t = "none"
  \/ (alg_family (t_alg t) = Some FHmac /\ exists k, t_signed_by t = Some k /\ k_fam k <> FHmac)
  \/ (forall k, configured c k -> t_signed_by t <> Some k)
  \/ t_intact t = false.

Lemma bad_signature_invalid c t now :
  enabled c = true -> bad_signature c t -> jwt_verify c (Some t) now = VInvalid.
Proof.
  intros Hen Hbad.
  destruct (jwt_verify_cases c t now) as [Hi|[[_ Hp]|[k [Hsig [Hconf _]]]]].
  - exact Hi.
  - rewrite Hp in Hen. discriminate.
  - exfalso. specialize (Hconf Hen). apply sig_valid_spec in Hsig. destruct Hsig as [S1 [S2 S3]].
    destruct Hbad as [Hn|[[Hf [k' [Hs Hk]]]|[Hw|Ht]]].
    + rewrite Hn in S3. cbn in S3. discriminate.
    + rewrite Hs in S2. inversion S2; subst k'. rewrite Hf in S3. inversion S3 as [Hfam]. apply Hk. symmetry. exact Hfam.
    + exact (Hw k Hconf S2).
    + rewrite Ht in S1. discriminate.
Qed.

Lemma auth_bad_signature_rejected m dec rq now tokstr tok c :
  preferred_header rq = ("Bearer " ++ tokstr)%string -> dec tokstr = Some tok ->
  selected_verifier m (rq_tenant rq) = Some c -> enabled c = true -> bad_signature c tok ->
  auth_mw m dec rq now = Reject 401 "invalid token".
Proof.
  intros Hh Hd Hs Hen Hbad.
  assert (Hp : parse_token rq = PTok tokstr).
  { unfold parse_token. rewrite Hh. cbn. reflexivity. }
  unfold auth_mw. rewrite Hp, Hd.
  assert (Hm : multi_tenant m (Some tok) (rq_tenant rq) now = MInvalid).
  { unfold multi_tenant. unfold selected_verifier in Hs.
    destruct (String.eqb (rq_tenant rq) "").
    - destruct (is_nil (mt_tenants m)); [|discriminate]. inversion Hs; subst c. cbn [negb].
      rewrite (bad_signature_invalid _ _ now Hen Hbad). reflexivity.
    - rewrite Hs. rewrite (bad_signature_invalid _ _ now Hen Hbad). reflexivity. }
  rewrite Hm. reflexivity.
Qed.

(* a refusal is a 401 whenever the selected verifier has keys (the 500 is the nil-key panic of a key-less verifier) *)
Lemma auth_reject_status m dec rq now s e :
  (forall c, selected_verifier m (rq_tenant rq) = Some c -> enabled c = true) ->
  auth_mw m dec rq now = Reject s e -> s = 401%N.
Proof.
  intros Hen. unfold auth_mw.
  destruct (parse_token rq) as [tk|err]; [|intros H; inversion H; reflexivity].
  destruct (multi_tenant m (dec tk) (rq_tenant rq) now) eqn:Em; intros H; inversion H; try reflexivity.
  exfalso. unfold multi_tenant in Em. unfold selected_verifier in Hen.
  assert (Hnp : forall c, enabled c = true -> lift_vres (rq_tenant rq) (jwt_verify c (dec tk) now) <> MPanic
                          /\ lift_vres "" (jwt_verify c (dec tk) now) <> MPanic).
  { intros c Hc. destruct (dec tk) as [t|]; [|cbn; split; discriminate].
    destruct (jwt_verify_cases c t now) as [Hi|[[_ Hp]|[k [_ [_ Hcl]]]]].
    - rewrite Hi. cbn. split; discriminate.
    - rewrite Hp in Hc. discriminate.
    - rewrite Hcl. pose proof (claims_check_never_panics c t now) as Hn.
      destruct (claims_check c t now); cbn; split; try discriminate; contradiction. }
  destruct (String.eqb (rq_tenant rq) "").
  - destruct (is_nil (mt_tenants m)); cbn [negb] in Em; [|discriminate].
    destruct (Hnp (mt_default m) (Hen _ eq_refl)) as [_ Hn]. contradiction.
  - destruct (lookup_tenant (rq_tenant rq) (mt_tenants m)) as [c|]; [|discriminate].
    destruct (Hnp c (Hen _ eq_refl)) as [Hn _]. contradiction.
Qed.

(* ------------------------------------------------------------------ C10: endpoints *)
Lemma permitted_exact t e :
  at_endpoints t <> [] -> (endpoint_permitted t e = true <-> In e (at_endpoints t)).
Proof.
  intros Hne. unfold endpoint_permitted. destruct (at_endpoints t) as [|x l]; [contradiction|]. apply mem_In.
Qed.

Lemma permitted_any t e : at_endpoints t = [] -> endpoint_permitted t e = true.
Proof. intros H. unfold endpoint_permitted. rewrite H. reflexivity. Qed.

(* the events of check_then_route: the endpoint checked is the endpoint routed *)
Definition routing_event (ev : event) : option string :=
  match ev with EvSelect e | EvAddConn e => Some e | EvPermitted _ => None end.
Definition check_event (ev : event) : option string :=
  match ev with EvPermitted e => Some e | _ => None end.

Section CheckThenRoute.
  Variable route : string -> event.
  Hypothesis Hroute : forall x, routing_event (route x) = Some x.

  Lemma route_not_check x : check_event (route x) = None.
  Proof. specialize (Hroute x). destruct (route x); cbn in *; [discriminate|reflexivity|reflexivity]. Qed.

  (* whatever is routed is the endpoint that was named; with a token it was checked first and is permitted *)
  Lemma ctr_routed tok e ev x :
    In ev (fst (check_then_route tok e route)) -> routing_event ev = Some x ->
    x = e /\ snd (check_then_route tok e route) = RARouted /\
    (forall t, tok = Some t -> endpoint_permitted t e = true /\ In (EvPermitted e) (fst (check_then_route tok e route))).
  Proof.
    unfold check_then_route. destruct tok as [t|].
    - destruct (endpoint_permitted t e) eqn:Ep; cbn [fst snd]; intros Hin Hev.
      + destruct Hin as [H|[H|[]]]; subst ev; [cbn in Hev; discriminate|].
        rewrite Hroute in Hev. inversion Hev; subst x. split; [reflexivity|]. split; [reflexivity|].
        intros t' Ht. inversion Ht; subst t'. split; [exact Ep|left; reflexivity].
      + destruct Hin as [H|[]]; subst ev. cbn in Hev. discriminate.
    - cbn [fst snd]. intros Hin Hev. destruct Hin as [H|[]]; subst ev.
      rewrite Hroute in Hev. inversion Hev; subst x. split; [reflexivity|]. split; [reflexivity|].
      intros t' Ht. discriminate Ht.
  Qed.

  (* the only endpoint ever checked is the endpoint that was named *)
  Lemma ctr_checked tok e ev x :
    In ev (fst (check_then_route tok e route)) -> check_event ev = Some x -> x = e.
  Proof.
    unfold check_then_route. destruct tok as [t|].
    - destruct (endpoint_permitted t e); cbn [fst snd]; intros Hin Hev.
      + destruct Hin as [H|[H|[]]]; subst ev; [cbn in Hev; inversion Hev; reflexivity|].
        rewrite route_not_check in Hev. discriminate.
      + destruct Hin as [H|[]]; subst ev. cbn in Hev. inversion Hev. reflexivity.
    - cbn [fst snd]. intros Hin Hev. destruct Hin as [H|[]]; subst ev. rewrite route_not_check in Hev. discriminate.
  Qed.

  (* a token that does not permit the endpoint gets 401 and nothing is routed *)
  Lemma ctr_denied t e :
    endpoint_permitted t e = false ->
    snd (check_then_route (Some t) e route) = RA401 "endpoint not permitted" /\
    forall ev, In ev (fst (check_then_route (Some t) e route)) -> routing_event ev = None.
  Proof.
    intros Ep. unfold check_then_route. rewrite Ep. cbn [fst snd]. split; [reflexivity|].
    intros ev [H|[]]; subst ev. reflexivity.
  Qed.
End CheckThenRoute.

(* ------------------------------------------------------------------ C10: tenants *)
Lemma tenants_accept_only_under_named_tenant m dec rq now t :
  mt_tenants m <> [] -> auth_mw m dec rq now = Accept t ->
  rq_tenant rq <> "" /\ at_tenant t = rq_tenant rq /\
  exists c tokstr, lookup_tenant (rq_tenant rq) (mt_tenants m) = Some c /\
                   preferred_header rq = ("Bearer " ++ tokstr)%string /\
                   jwt_verify c (dec tokstr) now = VOk (at_expiry t) (at_endpoints t).
Proof.
  intros Hne H. apply auth_accept_inv in H. destruct H as [s [c [Hh [Hs [Ht Hv]]]]].
  unfold selected_verifier in Hs.
  destruct (String.eqb (rq_tenant rq) "") eqn:Et.
  - destruct (mt_tenants m); [contradiction|]. cbn in Hs. discriminate.
  - split; [intros E; rewrite E in Et; cbn in Et; discriminate|]. split; [exact Ht|].
    exists c, s. auto.
Qed.

Lemma tenants_missing_or_unknown_refused m dec rq now :
  mt_tenants m <> [] ->
  (rq_tenant rq = "" \/ lookup_tenant (rq_tenant rq) (mt_tenants m) = None) ->
  exists e, auth_mw m dec rq now = Reject 401 e /\
            (forall s, parse_token rq = PTok s -> e = "unknown tenant").
Proof.
  intros Hne Hor. unfold auth_mw.
  destruct (parse_token rq) as [s|e]; [|exists e; split; [reflexivity|discriminate]].
  assert (Hm : multi_tenant m (dec s) (rq_tenant rq) now = MUnknownTenant).
  { unfold multi_tenant. destruct (String.eqb (rq_tenant rq) "") eqn:Et.
    - destruct (mt_tenants m); [contradiction|]. reflexivity.
    - destruct Hor as [H|H]; [rewrite H in Et; cbn in Et; discriminate|]. rewrite H. reflexivity. }
  rewrite Hm. exists "unknown tenant". split; [reflexivity|]. intros; reflexivity.
Qed.

(* with a tenant table the default verifier plays no part *)
Lemma tenants_default_unreachable d1 d2 ts dec rq now :
  ts <> [] ->
  auth_mw {| mt_default := d1; mt_tenants := ts |} dec rq now = auth_mw {| mt_default := d2; mt_tenants := ts |} dec rq now.
Proof.
  intros Hne. unfold auth_mw. destruct (parse_token rq) as [s|e]; [|reflexivity].
  unfold multi_tenant. cbn [mt_tenants mt_default].
  destruct (String.eqb (rq_tenant rq) ""); [|reflexivity].
  destruct ts; [contradiction|]. reflexivity.
Qed.

Lemma no_tenants_header_refused m dec rq now :
  mt_tenants m = [] -> rq_tenant rq <> "" ->
  exists e, auth_mw m dec rq now = Reject 401 e /\ (forall s, parse_token rq = PTok s -> e = "unknown tenant").
Proof.
  intros Hnil Hne. unfold auth_mw.
  destruct (parse_token rq) as [s|e]; [|exists e; split; [reflexivity|discriminate]].
  assert (Hm : multi_tenant m (dec s) (rq_tenant rq) now = MUnknownTenant).
  { unfold multi_tenant. destruct (String.eqb (rq_tenant rq) "") eqn:Et.
    - apply String.eqb_eq in Et. contradiction.
    - rewrite Hnil. reflexivity. }
  rewrite Hm. exists "unknown tenant". split; [reflexivity|]. intros; reflexivity.
Qed.

(* the three route functions are check_then_route over EndpointIDFromRequest / the path parameter *)
Lemma route_functions_scheme :
  (forall tok rq, endpoint_id_from_request rq <> "" ->
      proxy_http_route tok rq = check_then_route tok (endpoint_id_from_request rq) EvSelect) /\
  (forall tok p, proxy_tcp_route tok p = check_then_route tok p EvSelect) /\
  (forall tok p, upstream_route tok p = check_then_route tok p EvAddConn) /\
  (forall rq, rq_xendpoint rq <> "" -> endpoint_id_from_request rq = rq_xendpoint rq).
Proof.
  repeat split.
  - intros tok rq Hne. unfold proxy_http_route.
    destruct (String.eqb (endpoint_id_from_request rq) "") eqn:E; [|reflexivity].
    apply String.eqb_eq in E. contradiction.
  - intros rq Hne. unfold endpoint_id_from_request.
    destruct (String.eqb (rq_xendpoint rq) "") eqn:E; [|reflexivity].
    apply String.eqb_eq in E. contradiction.
Qed.
