(* Concrete witnesses: the hypotheses of the C09 / C10 theorems are satisfiable, and the refutation witnesses. *)
From Coq Require Import List String ZArith NArith Bool.
From Piko Require Import Auth.Token Auth.Verify Auth.Routes Auth.Serve AuthP.VerifyP AuthP.RoutesP generated.RouteTables.
Import ListNotations.
Open Scope string_scope. Open Scope list_scope.

Definition ex_key : key := {| k_id := "hmacA"; k_fam := FHmac |}.
Definition ex_keyB : key := {| k_id := "hmacB"; k_fam := FHmac |}.
Definition ex_rsa : key := {| k_id := "rsaA"; k_fam := FRsa |}.
Definition ex_cfg : vcfg := {| c_hmac := Some ex_key; c_rsa := None; c_ecdsa := None; c_jwks := None; c_aud := "aud1"; c_iss := ""; c_noexp := false |}.
Definition ex_cfgB : vcfg := {| c_hmac := Some ex_keyB; c_rsa := None; c_ecdsa := None; c_jwks := None; c_aud := ""; c_iss := ""; c_noexp := false |}.
Definition ex_cfg_rsa : vcfg := {| c_hmac := Some ex_key; c_rsa := Some ex_rsa; c_ecdsa := None; c_jwks := None; c_aud := ""; c_iss := ""; c_noexp := false |}.
Definition ex_nokeys : vcfg := {| c_hmac := None; c_rsa := None; c_ecdsa := None; c_jwks := None; c_aud := ""; c_iss := ""; c_noexp := false |}.
Definition ex_mtv : mtv := {| mt_default := ex_cfg; mt_tenants := [] |}.
Definition ex_mtv_tenants : mtv := {| mt_default := ex_cfg; mt_tenants := [("t1", ex_cfgB)] |}.
Definition ex_tok : token :=
  {| t_alg := "HS256"; t_signed_by := Some ex_key; t_intact := true; t_kid := None; t_exp := Some 4600%Z;
     t_nbf := Some 900%Z; t_aud := ["other"; "aud1"]; t_iss := None; t_endpoints := ["e"] |}.
Definition ex_tokB : token :=
  {| t_alg := "HS512"; t_signed_by := Some ex_keyB; t_intact := true; t_kid := None; t_exp := None;
     t_nbf := None; t_aud := []; t_iss := None; t_endpoints := ["e"; "f"] |}.
Definition ex_confused : token :=
  {| t_alg := "HS256"; t_signed_by := Some ex_rsa; t_intact := true; t_kid := None; t_exp := None;
     t_nbf := None; t_aud := []; t_iss := None; t_endpoints := [] |}.
Definition ex_empty_secret : token :=
  {| t_alg := "HS256"; t_signed_by := Some empty_hmac_key; t_intact := true; t_kid := None; t_exp := None; t_nbf := None;
     t_aud := []; t_iss := None; t_endpoints := [] |}.
Definition ex_dec (s : string) : option token :=
  if String.eqb s "T" then Some ex_tok else if String.eqb s "TB" then Some ex_tokB else None.
Definition ex_req : request :=
  {| rq_method := "GET"; rq_path := "/x"; rq_host := "e.example.com"; rq_xendpoint := "";
     rq_xauth := "Bearer T"; rq_auth := "Basic abc"; rq_tenant := ""; rq_forward := None |}.
Definition ex_req_lower : request :=
  {| rq_method := "GET"; rq_path := "/health"; rq_host := "x"; rq_xendpoint := ""; rq_xauth := "";
     rq_auth := "bearer T"; rq_tenant := ""; rq_forward := None |}.
(* conflicting namings: Host says f, the header says e *)
Definition ex_req_conflict : request :=
  {| rq_method := "GET"; rq_path := "/x"; rq_host := "f.example.com:8000"; rq_xendpoint := "e";
     rq_xauth := "Bearer T"; rq_auth := ""; rq_tenant := ""; rq_forward := None |}.
Definition ex_req_tenant (ten : string) : request :=
  {| rq_method := "GET"; rq_path := "/piko/v1/upstream/e"; rq_host := "x"; rq_xendpoint := "";
     rq_xauth := ""; rq_auth := "Bearer TB"; rq_tenant := ten; rq_forward := None |}.
Definition ex_pc : portcfg := {| pc_verifier := Some ex_mtv; pc_cluster := None; pc_registry := false |}.

Lemma ex_accept :
  auth_mw ex_mtv ex_dec ex_req (ns 1000) = Accept {| at_endpoints := ["e"]; at_tenant := ""; at_expiry := Some 4600%Z |}.
Proof. vm_compute. reflexivity. Qed.

Lemma ex_confusion : enabled ex_cfg_rsa = true /\ bad_signature ex_cfg_rsa ex_confused /\ configured ex_cfg_rsa ex_rsa.
Proof.
  split; [reflexivity|]. split.
  - right; left. split; [reflexivity|]. exists ex_rsa. split; [reflexivity|discriminate].
  - right; left. reflexivity.
Qed.

Lemma keyless_verifier_accepts_empty_secret :
  exists c t, enabled c = false /\ (forall k, configured c k -> t_signed_by t <> Some k) /\
              forall now, jwt_verify c (Some t) now = VOk None [].
Proof.
  exists ex_nokeys, ex_empty_secret.
  split; [reflexivity|]. split.
  - intros k [H|[H|[H|[ks [j [H _]]]]]]; discriminate H.
  - intros now. reflexivity.
Qed.

Lemma tables_nonvacuous :
  let n ops := List.length (e_routes (build (fun _ => true) ops)) in
  (0 < n proxy_ops /\ 0 < n upstream_ops /\ 10 < n admin_ops)%nat.
Proof. vm_compute. repeat split; repeat constructor. Qed.

Lemma ex_reject : auth_mw ex_mtv ex_dec ex_req_lower (ns 1000) = Reject 401 "unsupported auth type".
Proof. vm_compute. reflexivity. Qed.

(* C10 *)
Lemma ex_near_misses :
  let t := {| at_endpoints := ["e"; "f"]; at_tenant := ""; at_expiry := None |} in
  endpoint_permitted t "e" = true /\ endpoint_permitted t "f" = true /\
  endpoint_permitted t "e1" = false /\ endpoint_permitted t "E" = false /\ endpoint_permitted t "e.x" = false /\
  endpoint_permitted t "" = false /\ endpoint_permitted t "ee" = false.
Proof. vm_compute. repeat split; reflexivity. Qed.

Lemma ex_conflict_routes_header_name :
  serve proxy_ops ex_pc ex_dec ex_req_conflict (ns 1000) = OSelect "e" /\
  serve proxy_ops ex_pc ex_dec ex_req (ns 1000) = OSelect "e" /\
  serve proxy_ops ex_pc ex_dec {| rq_method := "GET"; rq_path := "/_piko/v1/tcp/f"; rq_host := "e.example.com"; rq_xendpoint := "e";
                                  rq_xauth := "Bearer T"; rq_auth := ""; rq_tenant := ""; rq_forward := None |} (ns 1000)
    = O401 "endpoint not permitted".
Proof. vm_compute. repeat split; reflexivity. Qed.

Lemma ex_tenants :
  mt_tenants ex_mtv_tenants <> [] /\
  auth_mw ex_mtv_tenants ex_dec (ex_req_tenant "t1") 0%Z = Accept {| at_endpoints := ["e"; "f"]; at_tenant := "t1"; at_expiry := None |} /\
  auth_mw ex_mtv_tenants ex_dec (ex_req_tenant "") 0%Z = Reject 401 "unknown tenant" /\
  auth_mw ex_mtv_tenants ex_dec (ex_req_tenant "t2") 0%Z = Reject 401 "unknown tenant" /\
  auth_mw ex_mtv ex_dec (ex_req_tenant "t1") 0%Z = Reject 401 "unknown tenant".
Proof. split; [discriminate|]. vm_compute. repeat split; reflexivity. Qed.
