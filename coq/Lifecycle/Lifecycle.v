(* Life cycle of an upstream connection on one piko server node.
   Stands for  Server.upstreamRoute / shedSessions / Shutdown      server/upstream/server.go:154-304
               LoadBalancedManager.AddConn / RemoveConn, loadBalancer.Add / Remove
                                                                   server/upstream/manager.go:42-160
               State.AddLocalEndpoint / RemoveLocalEndpoint        server/cluster/state.go:126-181
               HTTPProxy.dialUpstream, TCPProxy (ErrGone branch)   server/proxy/httpproxy.go:143-152, tcpproxy.go:72-80
               JWTVerifier.Verify (Expiry, DisableDisconnectOnExpiry) pkg/auth/jwtverifier.go:133-144
   Models only, no proofs (they live in LifecycleP/).

   One connection goes  Handshaking -> Registered -> [GoAwayed -> [GoneAnnounced]] -> Ended.
   GoAwayed      = the client announced go-away (yamux remoteGoAway = 1), still in the balancer;
   GoneAnnounced = the proxy dialled it, got ErrGone and called RemoveConn: out of the balancer, session still open.
   Connection ids stand for the identity of the *ConnUpstream / *yamux.Session pointers.
   Ghost state (never compared with the implementation): s_open, c_cause, c_ended_at. *)
From Coq Require Import List String ZArith Bool Arith.
From Piko Require Import Base.Maps.
Import ListNotations.
Open Scope string_scope. Open Scope list_scope.

Inductive cstate := Handshaking | Registered | GoAwayed | GoneAnnounced | Ended.

(* why a connection ended; CRejected = refused at the handshake (401), never registered *)
Inductive cause := CClientClose | CNetDrop | CShed | CServerShutdown | CDeadline | CRejected.

(* what the verifier makes of the presented token: exp claim (None = no exp), endpoint permitted *)
Record token := { tk_exp : option Z; tk_permits : bool }.

Record conn := { c_ep : string; c_tok : option token; c_state : cstate;
                 c_deadline : option Z;          (* deadline of the handler's ctx (set at accept) *)
                 c_cause : option cause;         (* ghost *)
                 c_ended_at : option Z }.        (* ghost: clock when the deferred sequence ran *)

(* cfg_auth: NewServer got a verifier; cfg_disable_expiry: auth.Config.DisableDisconnectOnExpiry;
   cfg_d1_fixed: RemoveConn returns early when the balancer did not contain the upstream (fix e05aed6);
   false = the pinned tree's RemoveConn *)
Record config := { cfg_auth : bool; cfg_disable_expiry : bool; cfg_d1_fixed : bool }.

Record state := { s_conns : amap conn;
                  s_reg : amap (list string);    (* LoadBalancedManager.localUpstreams: endpoint -> lb.upstreams *)
                  s_counts : amap nat;           (* cluster.State local node Endpoints: endpoint -> listeners *)
                  s_sessions : list string;      (* Server.sessions *)
                  s_open : list string;          (* ghost: connections whose tunnel is really open *)
                  s_clock : Z;
                  s_shutdown : bool }.           (* s.ctx cancelled *)

Definition init : state :=
  {| s_conns := []; s_reg := []; s_counts := []; s_sessions := []; s_open := []; s_clock := 0%Z; s_shutdown := false |}.

Definition set_conns (s : state) (v : amap conn) : state :=
  {| s_conns := v; s_reg := s_reg s; s_counts := s_counts s; s_sessions := s_sessions s; s_open := s_open s;
     s_clock := s_clock s; s_shutdown := s_shutdown s |}.
Definition set_reg (s : state) (v : amap (list string)) : state :=
  {| s_conns := s_conns s; s_reg := v; s_counts := s_counts s; s_sessions := s_sessions s; s_open := s_open s;
     s_clock := s_clock s; s_shutdown := s_shutdown s |}.
Definition set_counts (s : state) (v : amap nat) : state :=
  {| s_conns := s_conns s; s_reg := s_reg s; s_counts := v; s_sessions := s_sessions s; s_open := s_open s;
     s_clock := s_clock s; s_shutdown := s_shutdown s |}.
Definition set_sessions (s : state) (v : list string) : state :=
  {| s_conns := s_conns s; s_reg := s_reg s; s_counts := s_counts s; s_sessions := v; s_open := s_open s;
     s_clock := s_clock s; s_shutdown := s_shutdown s |}.
Definition set_open (s : state) (v : list string) : state :=
  {| s_conns := s_conns s; s_reg := s_reg s; s_counts := s_counts s; s_sessions := s_sessions s; s_open := v;
     s_clock := s_clock s; s_shutdown := s_shutdown s |}.
Definition set_clock (s : state) (v : Z) : state :=
  {| s_conns := s_conns s; s_reg := s_reg s; s_counts := s_counts s; s_sessions := s_sessions s; s_open := s_open s;
     s_clock := v; s_shutdown := s_shutdown s |}.
Definition set_shutdown (s : state) (v : bool) : state :=
  {| s_conns := s_conns s; s_reg := s_reg s; s_counts := s_counts s; s_sessions := s_sessions s; s_open := s_open s;
     s_clock := s_clock s; s_shutdown := v |}.

Definition with_state (k : conn) (st : cstate) : conn :=
  {| c_ep := c_ep k; c_tok := c_tok k; c_state := st; c_deadline := c_deadline k; c_cause := c_cause k;
     c_ended_at := c_ended_at k |}.
Definition with_deadline (k : conn) (d : option Z) : conn :=
  {| c_ep := c_ep k; c_tok := c_tok k; c_state := c_state k; c_deadline := d; c_cause := c_cause k;
     c_ended_at := c_ended_at k |}.
Definition ended (k : conn) (cs : cause) (now : Z) : conn :=
  {| c_ep := c_ep k; c_tok := c_tok k; c_state := Ended; c_deadline := c_deadline k; c_cause := Some cs;
     c_ended_at := Some now |}.

(* the handler is between addSession/AddConn and its deferred calls *)
Definition live_state (st : cstate) : bool :=
  match st with Registered | GoAwayed | GoneAnnounced => true | _ => false end.
(* the upstream is in its endpoint's load balancer *)
Definition in_balancer (st : cstate) : bool :=
  match st with Registered | GoAwayed => true | _ => false end.

(* ---- load balancer (manager.go:42-62) ---- *)
Fixpoint remove_first (c : string) (l : list string) : list string :=
  match l with
  | [] => []
  | x :: r => if String.eqb x c then r else x :: remove_first c r
  end.

(* loadBalancer.Remove: drops the first occurrence; the result says "the balancer is now empty"
   (also when nothing was found: `return len(lb.upstreams) == 0`) *)
Definition lb_remove (c : string) (l : list string) : list string * bool :=
  let l' := remove_first c l in (l', match l' with [] => true | _ => false end).

Definition lookup_list (e : string) (reg : amap (list string)) : list string :=
  match lookup e reg with Some l => l | None => [] end.
Definition count_of (e : string) (cnt : amap nat) : nat :=
  match lookup e cnt with Some n => n | None => 0 end.

(* State.AddLocalEndpoint (state.go:126): Endpoints[e] = Endpoints[e] + 1 *)
Definition cluster_add (e : string) (cnt : amap nat) : amap nat := insert e (S (count_of e cnt)) cnt.
(* State.RemoveLocalEndpoint (state.go:151): absent or 0 -> warn and return; >1 -> decrement; 1 -> delete *)
Definition cluster_remove (e : string) (cnt : amap nat) : amap nat :=
  match lookup e cnt with
  | None => cnt
  | Some 0 => cnt
  | Some 1 => remove e cnt
  | Some (S n) => insert e n cnt
  end.

(* LoadBalancedManager.AddConn (manager.go:119): lb.Add(u); localUpstreams[e] = lb; cluster.AddLocalEndpoint(e) *)
Definition add_conn (e c : string) (s : state) : state :=
  set_counts (set_reg s (insert e (lookup_list e (s_reg s) ++ [c]) (s_reg s))) (cluster_add e (s_counts s)).

(* LoadBalancedManager.RemoveConn (manager.go:136). fixed = with the early return of e05aed6 *)
Definition remove_conn (fixed : bool) (e c : string) (s : state) : state :=
  match lookup e (s_reg s) with
  | None => s
  | Some l =>
      let '(l', emptied) := lb_remove c l in
      let s1 := set_reg s (if emptied then remove e (s_reg s) else insert e l' (s_reg s)) in
      if fixed && Nat.eqb (List.length l') (List.length l) then s1
      else set_counts s1 (cluster_remove e (s_counts s))
  end.

(* ---- the deferred calls of upstreamRoute, in the order they run (server.go:229-195, LIFO) ---- *)
Definition d_remove_conn (cfg : config) (c : string) (k : conn) (s : state) : state :=   (* defer s.upstreams.RemoveConn(upstream) *)
  remove_conn (cfg_d1_fixed cfg) (c_ep k) c s.
Definition d_remove_session (c : string) (s : state) : state :=                          (* defer s.removeSession(sess) *)
  set_sessions s (remove_first c (s_sessions s)).
Definition d_sess_close (c : string) (s : state) : state :=                              (* defer sess.Close() *)
  set_open s (remove_first c (s_open s)).
Definition d_conn_close (c : string) (k : conn) (cs : cause) (s : state) : state :=      (* defer conn.Close() *)
  set_conns s (insert c (ended k cs (s_clock s)) (s_conns s)).

(* the handler of connection c returns (whatever made AcceptStreamWithContext fail) *)
Definition end_conn (cfg : config) (c : string) (cs : cause) (s : state) : state :=
  match lookup c (s_conns s) with
  | None => s
  | Some k =>
      if live_state (c_state k)
      then d_conn_close c k cs (d_sess_close c (d_remove_session c (d_remove_conn cfg c k s)))
      else s
  end.

(* ---- handshake: auth middleware + EndpointPermitted + deadline of the handler context ---- *)
(* jwt: valid iff now < exp; checked also when DisableDisconnectOnExpiry *)
Definition token_ok (cfg : config) (now : Z) (k : conn) : bool :=
  if cfg_auth cfg then
    match c_tok k with
    | None => false
    | Some t => tk_permits t && match tk_exp t with Some T => (now <? T)%Z | None => true end
    end
  else true.

(* Token.Expiry is zero when DisableDisconnectOnExpiry or no exp claim; no token in the context without a verifier *)
Definition effective_deadline (cfg : config) (k : conn) : option Z :=
  if cfg_auth cfg && negb (cfg_disable_expiry cfg)
  then match c_tok k with Some t => tk_exp t | None => None end
  else None.

(* upstreamRoute up to the accept loop: addSession(sess); AddConn(upstream). When s.ctx is already
   cancelled the first AcceptStreamWithContext returns context.Canceled and the handler unwinds at once. *)
Definition accept (cfg : config) (c : string) (s : state) : state * bool :=
  match lookup c (s_conns s) with
  | None => (s, false)
  | Some k =>
      match c_state k with
      | Handshaking =>
          if token_ok cfg (s_clock s) k then
            let k' := with_deadline (with_state k Registered) (effective_deadline cfg k) in
            let s1 := set_conns s (insert c k' (s_conns s)) in
            let s2 := set_open (set_sessions s1 (s_sessions s1 ++ [c])) (s_open s1 ++ [c]) in
            let s3 := add_conn (c_ep k) c s2 in
            ((if s_shutdown s3 then end_conn cfg c CServerShutdown s3 else s3), true)
          else (set_conns s (insert c (ended k CRejected (s_clock s)) (s_conns s)), true)
      | _ => (s, false)
      end
  end.

(* ---- token deadline ---- *)
Definition due (now : Z) (k : conn) : bool :=
  live_state (c_state k) && match c_deadline k with Some T => (T <=? now)%Z | None => false end.

(* the server's step when time has advanced: every context whose deadline has passed fires *)
Definition sweep_one (cfg : config) (s : state) (c : string) : state :=
  match lookup c (s_conns s) with
  | Some k => if due (s_clock s) k then end_conn cfg c CDeadline s else s
  | None => s
  end.
Definition sweep (cfg : config) (s : state) : state := fold_left (sweep_one cfg) (keys (s_conns s)) s.
Definition tick (cfg : config) (t : Z) (s : state) : state := sweep cfg (set_clock s (Z.max (s_clock s) t)).

(* a Deadline event for c is enabled at time t *)
Definition deadline_enabled (s : state) (c : string) (t : Z) : bool :=
  match lookup c (s_conns s) with Some k => due t k | None => false end.

(* ---- Server.Shutdown: s.cancel() ends every handler ---- *)
Definition shutdown (cfg : config) (s : state) : state :=
  fold_left (fun s c => end_conn cfg c CServerShutdown s) (keys (s_conns s)) (set_shutdown s true).

(* ---- proxy: Dial returned ErrGone (remote go-away) -> RemoveConn(u). A request that selected u
   before another request removed it repeats the RemoveConn (state GoneAnnounced). ---- *)
Definition proxy_err_gone (cfg : config) (c : string) (s : state) : state * bool :=
  match lookup c (s_conns s) with
  | Some k =>
      match c_state k with
      | GoAwayed =>
          let s1 := remove_conn (cfg_d1_fixed cfg) (c_ep k) c s in
          (set_conns s1 (insert c (with_state k GoneAnnounced) (s_conns s1)), true)
      | GoneAnnounced => (remove_conn (cfg_d1_fixed cfg) (c_ep k) c s, true)
      | _ => (s, false)
      end
  | None => (s, false)
  end.

Inductive event :=
| EvDial (c e : string) (tok : option token)   (* a client starts the handshake for endpoint e *)
| EvAccept (c : string)                        (* the server finishes the handshake (register or 401) *)
| EvClientClose (c : string)                   (* client closes its session (Listener.Shutdown) *)
| EvGoAway (c : string)                        (* client announces go-away (Listener.Close) *)
| EvProxyErrGone (c : string)                  (* proxy dialled c, got ErrGone, calls RemoveConn *)
| EvNetDrop (c : string)                       (* the transport dies *)
| EvShed (c : string)                          (* shedSessions closes c's session *)
| EvServerShutdown
| EvDeadline (c : string) (t : Z)              (* c's context deadline fires, observed at time t *)
| EvTick (t : Z).                              (* time advances to t and the server takes its step *)

(* second component: the event was enabled (used only by the correspondence check) *)
Definition step (cfg : config) (s : state) (ev : event) : state * bool :=
  match ev with
  | EvDial c e tok =>
      if mem c (s_conns s) then (s, false)
      else (set_conns s (insert c {| c_ep := e; c_tok := tok; c_state := Handshaking; c_deadline := None;
                                     c_cause := None; c_ended_at := None |} (s_conns s)), true)
  | EvAccept c => accept cfg c s
  | EvClientClose c =>
      match lookup c (s_conns s) with
      | Some k =>
          match c_state k with
          | Handshaking => (set_conns s (insert c (ended k CClientClose (s_clock s)) (s_conns s)), true)
          | _ => (end_conn cfg c CClientClose s, true)
          end
      | None => (s, false)
      end
  | EvNetDrop c =>
      match lookup c (s_conns s) with
      | Some k =>
          match c_state k with
          | Handshaking => (set_conns s (insert c (ended k CNetDrop (s_clock s)) (s_conns s)), true)
          | _ => (end_conn cfg c CNetDrop s, true)
          end
      | None => (s, false)
      end
  | EvGoAway c =>
      match lookup c (s_conns s) with
      | Some k =>
          match c_state k with
          | Registered => (set_conns s (insert c (with_state k GoAwayed) (s_conns s)), true)
          | _ => (s, true)
          end
      | None => (s, false)
      end
  | EvProxyErrGone c => proxy_err_gone cfg c s
  | EvShed c => if existsb (String.eqb c) (s_sessions s) then (end_conn cfg c CShed s, true) else (s, false)
  | EvServerShutdown => (shutdown cfg s, true)
  | EvDeadline c t => if deadline_enabled s c t then (tick cfg t s, true) else (s, false)
  | EvTick t => (tick cfg t s, true)
  end.

Definition run_from (cfg : config) (s : state) (evs : list event) : state :=
  fold_left (fun s ev => fst (step cfg s ev)) evs s.
Definition run (cfg : config) (evs : list event) : state := run_from cfg init evs.

(* ---- derived views used in the statements ---- *)
Definition cstate_of (s : state) (c : string) : option cstate := option_map c_state (lookup c (s_conns s)).
Definition is_live (s : state) (c : string) : bool :=
  match lookup c (s_conns s) with Some k => live_state (c_state k) | None => false end.
(* dropped from the balancer by the proxy after announcing go-away, session still open *)
Definition is_dropped (s : state) (c : string) : bool :=
  match lookup c (s_conns s) with Some k => match c_state k with GoneAnnounced => true | _ => false end | None => false end.
(* registered anywhere *)
Definition registered (s : state) (c : string) : Prop := exists e, In c (lookup_list e (s_reg s)).
