(* C04: the syncer's fold of watcher events keeps the routing table in step with the watcher's own
   fold of the same events (the shadow of C14, which equals the visible gossip view). *)
From Coq Require Import List String NArith ZArith Bool Lia.
From Piko Require Import Base.Maps Base.Strs Gossip.Types Cluster.Syncer GossipP.WatchP.
Import ListNotations.
Open Scope string_scope. Open Scope list_scope.

(* what the owner advertises, read off a shadow node *)
Definition status_of (sn : snode) : nstatus :=
  if sn_left sn then SLeft else if sn_unreach sn then SUnreach else SActive.

Definition ep_key (ep : string) : string := (endpoint_prefix ++ ep)%string.

(* endpoints of a routing entry = the visible endpoint: keys, parsed *)
Definition eps_agree (n : cnode) (sn : snode) : Prop :=
  forall ep, lookup ep (cn_eps n) = match lookup (ep_key ep) (sn_kv sn) with Some v => atoi v | None => None end.

(* ---- endpoint keys ---- *)
Lemma prefixb_split p k : prefixb p k = true -> k = (p ++ drop (String.length p) k)%string.
Proof.
  revert k. induction p as [|a p IH]; intros k; cbn; [reflexivity|].
  destruct k as [|b k]; [discriminate|]. intros H. apply andb_prop in H. destruct H as [H1 H2].
  apply Ascii.eqb_eq in H1. subst b. f_equal. apply IH, H2.
Qed.

Lemma endpoint_of_ep_key ep : endpoint_of_key (ep_key ep) = Some ep.
Proof. unfold endpoint_of_key, ep_key. rewrite prefixb_append, drop_append. reflexivity. Qed.

Lemma endpoint_of_key_inv k ep : endpoint_of_key k = Some ep -> k = ep_key ep.
Proof.
  unfold endpoint_of_key, ep_key. destruct (prefixb endpoint_prefix k) eqn:E; [|discriminate].
  intros [= <-]. apply prefixb_split, E.
Qed.

Lemma ep_key_inj a b : ep_key a = ep_key b -> a = b.
Proof. intros H. pose proof (endpoint_of_ep_key a) as Ha. rewrite H, endpoint_of_ep_key in Ha. congruence. Qed.

Lemma endpoint_of_key_none k ep : endpoint_of_key k = None -> ep_key ep <> k.
Proof. intros H <-. rewrite endpoint_of_ep_key in H. discriminate. Qed.

Lemma addr_keys_not_endpoint : endpoint_of_key "proxy_addr" = None /\ endpoint_of_key "admin_addr" = None.
Proof. split; reflexivity. Qed.

(* how a change of one shadow key affects eps_agree *)
Lemma eps_agree_kv_other n sn kv' :
  eps_agree n sn -> (forall ep, lookup (ep_key ep) kv' = lookup (ep_key ep) (sn_kv sn)) ->
  eps_agree n {| sn_left := sn_left sn; sn_unreach := sn_unreach sn; sn_kv := kv' |}.
Proof. intros H Hk ep. cbn [sn_kv]. rewrite Hk. apply H. Qed.

Lemma eps_agree_flags n sn l u :
  eps_agree n sn -> eps_agree n {| sn_left := l; sn_unreach := u; sn_kv := sn_kv sn |}.
Proof. intros H ep. apply H. Qed.

Lemma eps_agree_upsert n sn ep0 v z :
  eps_agree n sn -> atoi v = Some z ->
  eps_agree (with_eps n (insert ep0 z (cn_eps n)))
            {| sn_left := sn_left sn; sn_unreach := sn_unreach sn; sn_kv := insert (ep_key ep0) v (sn_kv sn) |}.
Proof.
  intros H Hv ep. cbn [cn_eps with_eps sn_kv]. rewrite !lookup_insert.
  destruct (String.eqb ep ep0) eqn:E.
  - apply String.eqb_eq in E. subst ep0. rewrite String.eqb_refl. symmetry; exact Hv.
  - apply String.eqb_neq in E. destruct (String.eqb (ep_key ep) (ep_key ep0)) eqn:E2; [|apply H].
    apply String.eqb_eq, ep_key_inj in E2. contradiction.
Qed.

Lemma eps_agree_delete n sn ep0 :
  eps_agree n sn ->
  eps_agree (with_eps n (remove ep0 (cn_eps n)))
            {| sn_left := sn_left sn; sn_unreach := sn_unreach sn; sn_kv := remove (ep_key ep0) (sn_kv sn) |}.
Proof.
  intros H ep. cbn [cn_eps with_eps sn_kv]. rewrite !lookup_remove.
  destruct (String.eqb ep ep0) eqn:E.
  - apply String.eqb_eq in E. subst ep0. rewrite String.eqb_refl. reflexivity.
  - apply String.eqb_neq in E. destruct (String.eqb (ep_key ep) (ep_key ep0)) eqn:E2; [|apply H].
    apply String.eqb_eq, ep_key_inj in E2. contradiction.
Qed.

Section Fold.
  (* the immutable addresses each node announces (cluster.Node documents them immutable) *)
  Variable addr_of : string -> string * string.
  Hypothesis addr_nonempty : forall id, fst (addr_of id) <> "" /\ snd (addr_of id) <> "".

  Definition promoted (s : sstate) (id : string) (sn : snode) : Prop :=
    exists n, lookup id (ss_nodes s) = Some n /\ lookup id (ss_pending s) = None /\
              cn_id n = id /\ cn_proxy n = fst (addr_of id) /\ cn_admin n = snd (addr_of id) /\
              cn_status n = status_of sn /\ eps_agree n sn.

  Definition pending_ok (s : sstate) (id : string) (sn : snode) : Prop :=
    exists p, lookup id (ss_pending s) = Some p /\ lookup id (ss_nodes s) = None /\
              cn_id p = id /\ sn_left sn = false /\
              (cn_proxy p = "" \/ cn_proxy p = fst (addr_of id)) /\ (cn_admin p = "" \/ cn_admin p = snd (addr_of id)) /\
              (cn_proxy p = "" \/ cn_admin p = "") /\
              (lookup "proxy_addr" (sn_kv sn) <> None -> cn_proxy p <> "") /\
              (lookup "admin_addr" (sn_kv sn) <> None -> cn_admin p <> "") /\
              match cn_status p with
              | SNone | SActive => sn_unreach sn = false
              | SUnreach => sn_unreach sn = true
              | SLeft => False end /\
              eps_agree p sn.

  (* a pending node that left is dropped by the syncer and never promoted afterwards *)
  Definition dropped (s : sstate) (id : string) (sn : snode) : Prop :=
    lookup id (ss_pending s) = None /\ lookup id (ss_nodes s) = None /\ sn_left sn = true.

  Definition rel (s : sstate) (sh : shadow) : Prop :=
    forall id, id <> ss_local s ->
      match lookup id sh with
      | None => lookup id (ss_nodes s) = None /\ lookup id (ss_pending s) = None
      | Some sn => promoted s id sn \/ pending_ok s id sn \/ dropped s id sn
      end.

  (* events as an honest gossip layer produces them, relative to the shadow they are folded into *)
  Definition ev_ok (sh : shadow) (e : event) : Prop :=
    match e with
    | EJoin id => lookup id sh = None
    | ELeave id => lookup id sh <> None
    | EReach id => exists sn, lookup id sh = Some sn /\ sn_left sn = false /\ sn_unreach sn = true
    | EUnreach id => exists sn, lookup id sh = Some sn /\ sn_left sn = false /\ sn_unreach sn = false
    | EExpired id => lookup id sh <> None
    | EDelete id k => lookup id sh <> None
    | EUpsert id k v =>
        lookup id sh <> None /\
        (k = "proxy_addr" -> v = fst (addr_of id)) /\ (k = "admin_addr" -> v = snd (addr_of id)) /\
        (forall ep, k = ep_key ep -> atoi v <> None)
    end.

  (* ---- locality: a callback only touches its own node ---- *)
  Definition pend_wf (s : sstate) : Prop := forall k p, lookup k (ss_pending s) = Some p -> cn_id p = k.

  Ltac crush_step :=
    match goal with
    | H : lookup ?n (ss_pending ?s) = Some ?c, W : pend_wf ?s |- _ => rewrite (W n c H) in *
    | H : (_, _) = (_, _) |- _ => inversion H; subst; clear H
    | H : context [match ?x with _ => _ end] |- _ => destruct x eqn:?
    | H : context [if ?b then _ else _] |- _ => destruct b eqn:?
    | |- context [match ?x with _ => _ end] => destruct x eqn:?
    | |- context [if ?b then _ else _] => destruct b eqn:?
    end; cbn [ss_nodes ss_pending ss_local set_cnodes set_pending fst snd add_node cn_id with_status with_eps with_proxy with_admin] in *.

  Ltac crush_other :=
    repeat crush_step; try discriminate; rewrite ?lookup_insert_ne, ?lookup_remove_ne by congruence; auto.

  Lemma on_event_other s e id :
    pend_wf s -> ev_id e <> id ->
    lookup id (ss_nodes (on_event s e)) = lookup id (ss_nodes s) /\
    lookup id (ss_pending (on_event s e)) = lookup id (ss_pending s) /\ ss_local (on_event s e) = ss_local s.
  Proof.
    intros Hpw Hne. destruct e as [n|n|n|n|n k v|n k|n]; cbn [ev_id on_event] in *.
    - unfold on_join. crush_other.
    - unfold on_leave, update_remote_status. crush_other.
    - unfold on_status, update_remote_status. crush_other.
    - unfold on_status, update_remote_status. crush_other.
    - unfold on_upsert, update_remote_endpoint, promote, add_node. crush_other.
    - unfold on_delete, remove_remote_endpoint. crush_other.
    - unfold on_expired, remove_node. crush_other.
  Qed.

  Lemma pend_wf_insert s k p : pend_wf s -> cn_id p = k -> forall k0 p0, lookup k0 (insert k p (ss_pending s)) = Some p0 -> cn_id p0 = k0.
  Proof.
    intros Hw Hk k0 p0. rewrite lookup_insert. destruct (String.eqb k0 k) eqn:E; [|apply Hw].
    apply String.eqb_eq in E. intros [= <-]. congruence.
  Qed.

  Lemma pend_wf_remove s k : pend_wf s -> forall k0 p0, lookup k0 (remove k (ss_pending s)) = Some p0 -> cn_id p0 = k0.
  Proof.
    intros Hw k0 p0. rewrite lookup_remove. destruct (String.eqb k0 k); [discriminate|apply Hw].
  Qed.

  Ltac pend_id Hpw :=
    cbn [cn_id with_status with_eps with_proxy with_admin];
    first [reflexivity | match goal with H : lookup ?n (ss_pending _) = Some ?c |- cn_id ?c = ?n => exact (Hpw n c H) end].

  Lemma on_event_pend_wf s e : pend_wf s -> pend_wf (on_event s e).
  Proof.
    intros Hpw. destruct e as [n|n|n|n|n k v|n k|n]; cbn [on_event].
    - unfold on_join. repeat crush_step; try exact Hpw. intros k0 p0. apply pend_wf_insert; [exact Hpw|pend_id Hpw].
    - unfold on_leave, update_remote_status. repeat crush_step; try exact Hpw; try discriminate; intros k0 p0; apply pend_wf_remove, Hpw.
    - unfold on_status, update_remote_status. repeat crush_step; try exact Hpw; try discriminate.
      all: intros k0 p0; apply pend_wf_insert; [exact Hpw|pend_id Hpw].
    - unfold on_status, update_remote_status. repeat crush_step; try exact Hpw; try discriminate.
      all: intros k0 p0; apply pend_wf_insert; [exact Hpw|pend_id Hpw].
    - unfold on_upsert, update_remote_endpoint, promote, add_node. repeat crush_step; try exact Hpw; try discriminate.
      all: intros k0 p0; first [apply pend_wf_remove, Hpw | apply pend_wf_insert; [exact Hpw|pend_id Hpw]].
    - unfold on_delete, remove_remote_endpoint. repeat crush_step; try exact Hpw; try discriminate.
      all: intros k0 p0; apply pend_wf_insert; [exact Hpw|pend_id Hpw].
    - unfold on_expired, remove_node. repeat crush_step; try exact Hpw; try discriminate; intros k0 p0; apply pend_wf_remove, Hpw.
  Qed.

  Definition rel_at (s : sstate) (id : string) (o : option snode) : Prop :=
    match o with
    | None => lookup id (ss_nodes s) = None /\ lookup id (ss_pending s) = None
    | Some sn => promoted s id sn \/ pending_ok s id sn \/ dropped s id sn
    end.

  Lemma rel_at_ext s s' id o :
    lookup id (ss_nodes s') = lookup id (ss_nodes s) -> lookup id (ss_pending s') = lookup id (ss_pending s) ->
    rel_at s id o -> rel_at s' id o.
  Proof.
    intros H1 H2. unfold rel_at, promoted, pending_ok, dropped. rewrite H1, H2. auto.
  Qed.

  (* constructors for the three classes from raw lookups *)
  Lemma mk_promoted s id sn n :
    lookup id (ss_nodes s) = Some n -> lookup id (ss_pending s) = None -> cn_id n = id ->
    cn_proxy n = fst (addr_of id) -> cn_admin n = snd (addr_of id) -> cn_status n = status_of sn -> eps_agree n sn ->
    rel_at s id (Some sn).
  Proof. intros. left. exists n. auto 10. Qed.

  Lemma mk_dropped s id sn :
    lookup id (ss_pending s) = None -> lookup id (ss_nodes s) = None -> sn_left sn = true -> rel_at s id (Some sn).
  Proof. intros. right. right. split; auto. Qed.

  (* ---- the callbacks at their own node ---- *)
  Lemma neq_local s id : id <> ss_local s -> String.eqb id (ss_local s) = false.
  Proof. intros H. apply String.eqb_neq, H. Qed.

  Lemma step_join s sh id :
    id <> ss_local s -> rel_at s id (lookup id sh) -> ev_ok sh (EJoin id) ->
    rel_at (on_join s id) id (lookup id (fold_event sh (EJoin id))).
  Proof.
    intros Hne Hr Hok. cbn [ev_ok] in Hok. rewrite Hok in Hr. destruct Hr as [Hn Hp].
    cbn [fold_event]. rewrite lookup_insert_eq. unfold on_join, mem. rewrite (neq_local _ _ Hne), Hn, Hp.
    right. left. eexists. cbn [ss_pending ss_nodes set_pending]. rewrite lookup_insert_eq.
    split; [reflexivity|]. split; [exact Hn|]. cbn. repeat split; auto; try (intros H; exfalso; apply H; reflexivity).
  Qed.

  Lemma step_leave s sh id :
    id <> ss_local s -> rel_at s id (lookup id sh) -> ev_ok sh (ELeave id) ->
    rel_at (on_leave s id) id (lookup id (fold_event sh (ELeave id))).
  Proof.
    intros Hne Hr Hok. cbn [ev_ok] in Hok. cbn [fold_event]. rewrite upd_lookup, String.eqb_refl.
    destruct (lookup id sh) as [sn|] eqn:Esn; [|contradiction]. cbn [option_map].
    unfold on_leave, update_remote_status. rewrite (neq_local _ _ Hne).
    destruct Hr as [[n [H1 [H2 [H3 [H4 [H5 [H6 H7]]]]]]]|[[p [H1 [H2 [H3 [H4 H5]]]]]|[H1 [H2 H3]]]].
    - rewrite H1. cbn [fst snd ss_nodes ss_pending set_cnodes].
      apply (mk_promoted _ id _ (with_status n SLeft)); cbn [ss_nodes ss_pending set_cnodes cn_id cn_proxy cn_admin cn_status with_status];
        first [apply lookup_insert_eq | apply (eps_agree_flags n sn true (sn_unreach sn) H7) | assumption | reflexivity].
    - rewrite H2. cbn [ss_nodes ss_pending set_pending]. apply mk_dropped; cbn [ss_nodes ss_pending set_pending]; auto. apply lookup_remove_eq.
    - rewrite H2. cbn [ss_nodes ss_pending set_pending]. apply mk_dropped; cbn [ss_nodes ss_pending set_pending]; auto. apply lookup_remove_eq.
  Qed.

  Lemma step_status s sh id (up : bool) :
    id <> ss_local s -> rel_at s id (lookup id sh) ->
    ev_ok sh (if up then EReach id else EUnreach id) ->
    rel_at (on_status s id (if up then SActive else SUnreach)) id (lookup id (fold_event sh (if up then EReach id else EUnreach id))).
  Proof.
    intros Hne Hr Hok.
    assert (Hsn : exists sn, lookup id sh = Some sn /\ sn_left sn = false /\ sn_unreach sn = up).
    { destruct up; cbn [ev_ok] in Hok; destruct Hok as [sn [A [B C]]]; exists sn; auto. }
    destruct Hsn as [sn [Esn [Hl Hu]]]. rewrite Esn in Hr.
    assert (Hfold : lookup id (fold_event sh (if up then EReach id else EUnreach id)) =
                    Some {| sn_left := sn_left sn; sn_unreach := negb up; sn_kv := sn_kv sn |}).
    { destruct up; cbn [fold_event]; rewrite upd_lookup, String.eqb_refl, Esn; reflexivity. }
    rewrite Hfold. unfold on_status, update_remote_status. rewrite (neq_local _ _ Hne).
    destruct Hr as [[n [H1 [H2 [H3 [H4 [H5 [H6 H7]]]]]]]|[[p [H1 [H2 [H3 [H4 [H5 [H6 [H7 [H8 [H9 [H10 H11]]]]]]]]]]]|[H1 [H2 H3]]]].
    - rewrite H1. cbn [fst snd].
      apply (mk_promoted _ id _ (with_status n (if up then SActive else SUnreach)));
        cbn [ss_nodes ss_pending set_cnodes cn_id cn_proxy cn_admin cn_status with_status];
        first [apply lookup_insert_eq | apply (eps_agree_flags n sn _ _ H7) | assumption
              | unfold status_of; cbn [sn_left sn_unreach]; rewrite Hl; destruct up; reflexivity].
    - rewrite H2, H1. cbn [fst snd]. right. left. exists (with_status p (if up then SActive else SUnreach)).
      cbn [ss_nodes ss_pending set_pending cn_id cn_proxy cn_admin cn_status with_status sn_left sn_unreach sn_kv].
      rewrite lookup_insert_eq. repeat split; auto; first [destruct up; reflexivity | apply (eps_agree_flags p sn _ _ H11)].
    - congruence.
  Qed.

  Lemma step_expired s sh id :
    id <> ss_local s -> rel_at s id (lookup id sh) -> ev_ok sh (EExpired id) ->
    rel_at (on_expired s id) id (lookup id (fold_event sh (EExpired id))).
  Proof.
    intros Hne Hr Hok. cbn [ev_ok] in Hok. cbn [fold_event]. rewrite lookup_remove_eq.
    destruct (lookup id sh) as [sn|]; [|contradiction].
    unfold on_expired, remove_node. rewrite (neq_local _ _ Hne).
    destruct Hr as [[n [H1 [H2 _]]]|[[p [H1 [H2 _]]]|[H1 [H2 H3]]]].
    - rewrite H1. cbn [fst snd rel_at ss_nodes ss_pending set_cnodes]. split; [apply lookup_remove_eq|exact H2].
    - rewrite H2. cbn [fst snd rel_at ss_nodes ss_pending set_pending]. split; [exact H2|apply lookup_remove_eq].
    - rewrite H2. cbn [fst snd rel_at ss_nodes ss_pending set_pending]. split; [exact H2|apply lookup_remove_eq].
  Qed.

  Lemma kv_other_key k (kv : amap string) kv' :
    (forall k0, k0 <> k -> lookup k0 kv' = lookup k0 kv) -> endpoint_of_key k = None ->
    forall ep, lookup (ep_key ep) kv' = lookup (ep_key ep) kv.
  Proof. intros H Hk ep. apply H. apply endpoint_of_key_none, Hk. Qed.

  Lemma step_delete s sh id k :
    id <> ss_local s -> rel_at s id (lookup id sh) -> ev_ok sh (EDelete id k) ->
    rel_at (on_delete s id k) id (lookup id (fold_event sh (EDelete id k))).
  Proof.
    intros Hne Hr Hok. cbn [ev_ok] in Hok. cbn [fold_event]. rewrite upd_lookup, String.eqb_refl.
    destruct (lookup id sh) as [sn|] eqn:Esn; [|contradiction]. cbn [option_map].
    set (sn' := {| sn_left := sn_left sn; sn_unreach := sn_unreach sn; sn_kv := remove k (sn_kv sn) |}).
    unfold on_delete, remove_remote_endpoint. rewrite (neq_local _ _ Hne).
    destruct (endpoint_of_key k) as [ep0|] eqn:Ek.
    - apply endpoint_of_key_inv in Ek. subst k.
      destruct Hr as [[n [H1 [H2 [H3 [H4 [H5 [H6 H7]]]]]]]|[[p [H1 [H2 [H3 [H4 [H5 [H6 [H7 [H8 [H9 [H10 H11]]]]]]]]]]]|[H1 [H2 H3]]]].
      + rewrite H1. cbn [fst snd].
        apply (mk_promoted _ id sn' (with_eps n (remove ep0 (cn_eps n))));
          cbn [ss_nodes ss_pending set_cnodes cn_id cn_proxy cn_admin cn_status with_eps];
          first [apply lookup_insert_eq | apply (eps_agree_delete n sn ep0 H7) | assumption].
      + rewrite H2, H1. cbn [fst snd]. right. left. exists (with_eps p (remove ep0 (cn_eps p))).
        cbn [ss_nodes ss_pending set_pending cn_id cn_proxy cn_admin cn_status with_eps sn' sn_left sn_unreach sn_kv].
        rewrite lookup_insert_eq. repeat split; auto.
        * intros Hx. apply H8. rewrite lookup_remove_ne in Hx; [exact Hx|]. intros Heq. symmetry in Heq. revert Heq. apply endpoint_of_key_none. reflexivity.
        * intros Hx. apply H9. rewrite lookup_remove_ne in Hx; [exact Hx|]. intros Heq. symmetry in Heq. revert Heq. apply endpoint_of_key_none. reflexivity.
        * apply (eps_agree_delete p sn ep0 H11).
      + rewrite H2, H1. cbn [fst snd]. apply mk_dropped; auto.
    - assert (Hkv : forall ep, lookup (ep_key ep) (remove k (sn_kv sn)) = lookup (ep_key ep) (sn_kv sn)).
      { intros ep. apply lookup_remove_ne. apply endpoint_of_key_none, Ek. }
      destruct Hr as [[n [H1 [H2 [H3 [H4 [H5 [H6 H7]]]]]]]|[[p [H1 [H2 [H3 [H4 [H5 [H6 [H7 [H8 [H9 [H10 H11]]]]]]]]]]]|[H1 [H2 H3]]]].
      + apply (mk_promoted _ id sn' n); auto. apply (eps_agree_kv_other n sn _ H7 Hkv).
      + right. left. exists p. cbn [sn' sn_left sn_unreach sn_kv]. repeat split; auto.
        * intros Hx. apply H8. rewrite lookup_remove in Hx. destruct (String.eqb "proxy_addr" k); [contradiction|exact Hx].
        * intros Hx. apply H9. rewrite lookup_remove in Hx. destruct (String.eqb "admin_addr" k); [contradiction|exact Hx].
        * apply (eps_agree_kv_other p sn _ H11 Hkv).
      + apply mk_dropped; auto.
  Qed.

  Lemma eqb_nonempty a : a <> "" -> String.eqb a "" = false.
  Proof. intros H. apply String.eqb_neq, H. Qed.

  Lemma step_upsert s sh id k v :
    id <> ss_local s -> rel_at s id (lookup id sh) -> ev_ok sh (EUpsert id k v) ->
    rel_at (on_upsert s id k v) id (lookup id (fold_event sh (EUpsert id k v))).
  Proof.
    intros Hne Hr [Hok [Hpa [Haa Hep]]]. cbn [fold_event]. rewrite upd_lookup, String.eqb_refl.
    destruct (lookup id sh) as [sn|] eqn:Esn; [|contradiction]. cbn [option_map].
    set (sn' := {| sn_left := sn_left sn; sn_unreach := sn_unreach sn; sn_kv := insert k v (sn_kv sn) |}).
    destruct (addr_nonempty id) as [NP NA].
    unfold on_upsert. rewrite (neq_local _ _ Hne).
    destruct (endpoint_of_key k) as [ep0|] eqn:Ek.
    - (* an endpoint count *)
      pose proof (endpoint_of_key_inv _ _ Ek) as Hk. subst k.
      assert (Hnp : String.eqb (ep_key ep0) "proxy_addr" = false).
      { apply String.eqb_neq. apply endpoint_of_key_none. reflexivity. }
      assert (Hna : String.eqb (ep_key ep0) "admin_addr" = false).
      { apply String.eqb_neq. apply endpoint_of_key_none. reflexivity. }
      rewrite Hnp, Hna. cbn [orb andb].
      destruct (atoi v) as [z|] eqn:Ez; [|exfalso; apply (Hep ep0 eq_refl); reflexivity].
      unfold update_remote_endpoint. rewrite (neq_local _ _ Hne).
      destruct Hr as [[n [H1 [H2 [H3 [H4 [H5 [H6 H7]]]]]]]|[[p [H1 [H2 [H3 [H4 [H5 [H6 [H7 [H8 [H9 [H10 H11]]]]]]]]]]]|[H1 [H2 H3]]]].
      + rewrite H1. cbn [fst snd].
        apply (mk_promoted _ id sn' (with_eps n (insert ep0 z (cn_eps n))));
          cbn [ss_nodes ss_pending set_cnodes cn_id cn_proxy cn_admin cn_status with_eps];
          first [apply lookup_insert_eq | apply (eps_agree_upsert n sn ep0 v z H7 Ez) | assumption].
      + rewrite H2, H1. cbn [fst snd]. unfold promote. cbn [cn_proxy cn_admin cn_id with_eps]. rewrite H3.
        assert (Hnot : negb (String.eqb (cn_proxy p) "") && negb (String.eqb (cn_admin p) "") = false).
        { destruct H7 as [-> | ->]; cbn; [reflexivity|apply andb_false_r]. }
        rewrite Hnot. right. left. exists (with_eps p (insert ep0 z (cn_eps p))).
        cbn [ss_nodes ss_pending set_pending cn_id cn_proxy cn_admin cn_status with_eps sn' sn_left sn_unreach sn_kv].
        rewrite lookup_insert_eq. repeat split; auto.
        * intros Hx. apply H8. rewrite lookup_insert_ne in Hx; [exact Hx|]. intros Heq. symmetry in Heq. revert Heq. apply endpoint_of_key_none. reflexivity.
        * intros Hx. apply H9. rewrite lookup_insert_ne in Hx; [exact Hx|]. intros Heq. symmetry in Heq. revert Heq. apply endpoint_of_key_none. reflexivity.
        * apply (eps_agree_upsert p sn ep0 v z H11 Ez).
      + rewrite H2, H1. cbn [fst snd]. apply mk_dropped; auto.
    - (* any other key *)
      assert (Hkv : forall ep, lookup (ep_key ep) (insert k v (sn_kv sn)) = lookup (ep_key ep) (sn_kv sn)).
      { intros ep. apply lookup_insert_ne. apply endpoint_of_key_none, Ek. }
      destruct Hr as [[n [H1 [H2 [H3 [H4 [H5 [H6 H7]]]]]]]|[[p [H1 [H2 [H3 [H4 [H5 [H6 [H7 [H8 [H9 [H10 H11]]]]]]]]]]]|[H1 [H2 H3]]]].
      + (* promoted: addresses are sticky, other keys ignored *)
        assert (Hs : (if (String.eqb k "proxy_addr" || String.eqb k "admin_addr") && mem id (ss_nodes s) then s
                      else match lookup id (ss_pending s) with
                           | Some p => if String.eqb k "proxy_addr" then promote s (with_proxy p v)
                                       else if String.eqb k "admin_addr" then promote s (with_admin p v) else s
                           | None => s end) = s).
        { rewrite H2. destruct ((String.eqb k "proxy_addr" || String.eqb k "admin_addr") && mem id (ss_nodes s)); reflexivity. }
        rewrite Hs. apply (mk_promoted _ id sn' n); auto. apply (eps_agree_kv_other n sn _ H7 Hkv).
      + unfold mem. rewrite H2, andb_false_r, H1.
        destruct (String.eqb k "proxy_addr") eqn:Ekp.
        * apply String.eqb_eq in Ekp. subst k. specialize (Hpa eq_refl). subst v.
          unfold promote. cbn [cn_proxy cn_admin cn_id with_proxy cn_status]. rewrite H3, (eqb_nonempty _ NP). cbn [negb andb].
          destruct (String.eqb (cn_admin p) "") eqn:Ea; cbn [negb].
          -- (* still waiting for the admin address *)
             apply String.eqb_eq in Ea. right. left. exists (with_proxy p (fst (addr_of id))).
             cbn [ss_nodes ss_pending set_pending cn_id cn_proxy cn_admin cn_status with_proxy sn' sn_left sn_unreach sn_kv].
             rewrite lookup_insert_eq. repeat split; auto.
             ++ intros Hx. apply H9. rewrite lookup_insert_ne in Hx by discriminate. exact Hx.
             ++ apply (eps_agree_kv_other p sn _ H11 Hkv).
          -- (* both addresses known: promoted *)
             apply String.eqb_neq in Ea. destruct H6 as [H6|H6]; [contradiction|].
             unfold add_node. cbn [ss_local set_pending cn_id with_proxy with_status].
             assert (Hidl : String.eqb (cn_id match cn_status p with SNone => with_status (with_proxy p (fst (addr_of id))) SActive | _ => with_proxy p (fst (addr_of id)) end) (ss_local s) = false).
             { destruct (cn_status p); cbn [cn_id with_status with_proxy]; rewrite H3; apply neq_local, Hne. }
             rewrite Hidl.
             assert (Hcid : cn_id match cn_status p with SNone => with_status (with_proxy p (fst (addr_of id))) SActive | _ => with_proxy p (fst (addr_of id)) end = id).
             { destruct (cn_status p); cbn [cn_id with_status with_proxy]; exact H3. }
             rewrite Hcid.
             eapply (mk_promoted _ id sn'); cbn [ss_nodes ss_pending set_cnodes set_pending].
             ++ apply lookup_insert_eq.
             ++ apply lookup_remove_eq.
             ++ exact Hcid.
             ++ destruct (cn_status p); reflexivity.
             ++ destruct (cn_status p); cbn [cn_admin with_status with_proxy]; exact H6.
             ++ unfold status_of. cbn [sn' sn_left sn_unreach]. rewrite H4.
                destruct (cn_status p) eqn:Es; cbn [cn_status with_status with_proxy]; rewrite ?Es, ?H10; try reflexivity; contradiction.
             ++ assert (Hag : eps_agree p sn') by (apply (eps_agree_kv_other p sn _ H11 Hkv)).
                destruct (cn_status p); intros ep; apply Hag.
        * destruct (String.eqb k "admin_addr") eqn:Eka.
          -- apply String.eqb_eq in Eka. subst k. specialize (Haa eq_refl). subst v.
             unfold promote. cbn [cn_proxy cn_admin cn_id with_admin cn_status]. rewrite H3, (eqb_nonempty _ NA). cbn [negb andb].
             destruct (String.eqb (cn_proxy p) "") eqn:Ea; cbn [negb andb].
             ++ apply String.eqb_eq in Ea. right. left. exists (with_admin p (snd (addr_of id))).
                cbn [ss_nodes ss_pending set_pending cn_id cn_proxy cn_admin cn_status with_admin sn' sn_left sn_unreach sn_kv].
                rewrite lookup_insert_eq. repeat split; auto.
                ** intros Hx. apply H8. rewrite lookup_insert_ne in Hx by discriminate. exact Hx.
                ** apply (eps_agree_kv_other p sn _ H11 Hkv).
             ++ apply String.eqb_neq in Ea. destruct H5 as [H5|H5]; [contradiction|].
                unfold add_node. cbn [ss_local set_pending cn_id with_admin with_status].
                assert (Hidl : String.eqb (cn_id match cn_status p with SNone => with_status (with_admin p (snd (addr_of id))) SActive | _ => with_admin p (snd (addr_of id)) end) (ss_local s) = false).
                { destruct (cn_status p); cbn [cn_id with_status with_admin]; rewrite H3; apply neq_local, Hne. }
                rewrite Hidl.
                assert (Hcid : cn_id match cn_status p with SNone => with_status (with_admin p (snd (addr_of id))) SActive | _ => with_admin p (snd (addr_of id)) end = id).
                { destruct (cn_status p); cbn [cn_id with_status with_admin]; exact H3. }
                rewrite Hcid.
                eapply (mk_promoted _ id sn'); cbn [ss_nodes ss_pending set_cnodes set_pending].
                ** apply lookup_insert_eq.
                ** apply lookup_remove_eq.
                ** exact Hcid.
                ** destruct (cn_status p); cbn [cn_proxy with_status with_admin]; exact H5.
                ** destruct (cn_status p); reflexivity.
                ** unfold status_of. cbn [sn' sn_left sn_unreach]. rewrite H4.
                   destruct (cn_status p) eqn:Es; cbn [cn_status with_status with_admin]; rewrite ?Es, ?H10; try reflexivity; contradiction.
                ** assert (Hag : eps_agree p sn') by (apply (eps_agree_kv_other p sn _ H11 Hkv)).
                   destruct (cn_status p); intros ep; apply Hag.
          -- (* a key the syncer does not know *)
             apply String.eqb_neq in Ekp. apply String.eqb_neq in Eka.
             right. left. exists p. cbn [sn' sn_left sn_unreach sn_kv]. repeat split; auto.
             ++ intros Hx. apply H8. rewrite lookup_insert_ne in Hx by congruence. exact Hx.
             ++ intros Hx. apply H9. rewrite lookup_insert_ne in Hx by congruence. exact Hx.
             ++ apply (eps_agree_kv_other p sn _ H11 Hkv).
      + unfold mem. rewrite H2, andb_false_r, H1. apply mk_dropped; auto.
  Qed.

  (* ---- one event, any node ---- *)
  Lemma rel_step s sh e :
    rel s sh -> pend_wf s -> ev_ok sh e -> rel (on_event s e) (fold_event sh e) /\ pend_wf (on_event s e).
  Proof.
    intros Hr Hpw Hok. split; [|apply on_event_pend_wf, Hpw].
    intros id Hne. assert (Hloc : ss_local (on_event s e) = ss_local s).
    { destruct e; cbn [on_event]; unfold on_join, on_leave, on_status, on_expired, on_upsert, on_delete, update_remote_status,
        remove_node, update_remote_endpoint, remove_remote_endpoint, promote, add_node; repeat crush_step; reflexivity. }
    rewrite Hloc in Hne. specialize (Hr id Hne). fold (rel_at s id (lookup id sh)) in Hr.
    change (rel_at (on_event s e) id (lookup id (fold_event sh e))).
    destruct (String.eqb (ev_id e) id) eqn:E.
    - apply String.eqb_eq in E. destruct e as [n|n|n|n|n k v|n k|n]; cbn [ev_id] in E; subst n; cbn [on_event].
      + apply step_join; assumption.
      + apply step_leave; assumption.
      + apply (step_status s sh id true); assumption.
      + apply (step_status s sh id false); assumption.
      + apply step_upsert; assumption.
      + apply step_delete; assumption.
      + apply step_expired; assumption.
    - apply String.eqb_neq in E. destruct (on_event_other s e id Hpw E) as [H1 [H2 _]].
      rewrite (fold_event_other sh e id E). apply (rel_at_ext s); assumption.
  Qed.

  Inductive evs_ok : shadow -> list event -> Prop :=
  | evs_nil sh : evs_ok sh []
  | evs_cons sh e evs : ev_ok sh e -> evs_ok (fold_event sh e) evs -> evs_ok sh (e :: evs).

  Theorem fold_rel evs : forall s sh,
    rel s sh -> pend_wf s -> evs_ok sh evs ->
    rel (on_events s evs) (fold_events sh evs) /\ pend_wf (on_events s evs).
  Proof.
    induction evs as [|e evs IH]; intros s sh Hr Hpw Hok; [auto|].
    inversion Hok as [|? ? ? He Hrest]; subst. destruct (rel_step s sh e Hr Hpw He) as [Hr1 Hpw1].
    apply (IH (on_event s e) (fold_event sh e) Hr1 Hpw1 Hrest).
  Qed.

  Lemma rel_init id proxy admin : rel (new_sstate id proxy admin) [] /\ pend_wf (new_sstate id proxy admin).
  Proof.
    split.
    - intros k Hne. cbn in *. destruct (String.eqb k id) eqn:E; [apply String.eqb_eq in E; contradiction|]. auto.
    - intros k p. cbn. discriminate.
  Qed.

  (* ---- what the relation says about the routing table ---- *)
  (* a node whose two addresses are visible and that has not left is in the routing table, with exactly the announced
     addresses, the status given by the membership flags and the endpoint counts parsed from the visible entries *)
  Theorem routing_mirrors_visible s sh id sn :
    rel s sh -> id <> ss_local s -> lookup id sh = Some sn ->
    lookup "proxy_addr" (sn_kv sn) <> None -> lookup "admin_addr" (sn_kv sn) <> None -> sn_left sn = false ->
    exists n, lookup id (ss_nodes s) = Some n /\ cn_proxy n = fst (addr_of id) /\ cn_admin n = snd (addr_of id) /\
              cn_status n = status_of sn /\ eps_agree n sn.
  Proof.
    intros Hr Hne Hsn Hp Ha Hl. specialize (Hr id Hne). rewrite Hsn in Hr.
    destruct Hr as [[n [H1 [H2 [H3 [H4 [H5 [H6 H7]]]]]]]|[[p [H1 [H2 [H3 [H4 [H5 [H6 [H7 [H8 [H9 _]]]]]]]]]]|[_ [_ H3]]]].
    - exists n. auto.
    - exfalso. destruct H7 as [H7|H7]; [apply (H8 Hp H7)|apply (H9 Ha H7)].
    - congruence.
  Qed.

  (* every routing entry (promoted node) mirrors the shadow; nodes the shadow does not hold are not routed to *)
  Theorem routing_entries_sound s sh id n :
    rel s sh -> id <> ss_local s -> lookup id (ss_nodes s) = Some n ->
    exists sn, lookup id sh = Some sn /\ cn_status n = status_of sn /\ eps_agree n sn /\
               cn_proxy n = fst (addr_of id) /\ cn_admin n = snd (addr_of id).
  Proof.
    intros Hr Hne Hn. specialize (Hr id Hne). destruct (lookup id sh) as [sn|].
    - destruct Hr as [[n' [H1 [H2 [H3 [H4 [H5 [H6 H7]]]]]]]|[[p [H1 [H2 _]]]|[_ [H2 _]]]]; try congruence.
      assert (n' = n) by congruence. subst n'. exists sn. auto.
    - destruct Hr as [H1 _]. congruence.
  Qed.
End Fold.
