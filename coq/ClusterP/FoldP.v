(* C04: the syncer's fold of watcher events keeps the routing table in step with the watcher's own
   fold of the same events (the shadow of C14, which equals the visible gossip view). *)
From Coq Require Import List String NArith ZArith Bool Lia.
From Piko Require Import Base.Maps Base.Strs Gossip.Types Cluster.Syncer GossipP.WatchP.
Import ListNotations.
Open Scope string_scope. Open Scope list_scope.

(* what the owner advertises, read off a shadow node *)
Definition status_of (sn : snode) : nstatus :=
  if sn_left sn then SLeft else if sn_unreach sn then SUnreach else SActive.

Definition ep_key (ep : string) : string := (endpoint_prefix ++ ep)%string.

(* endpoints of a routing entry = the visible endpoint: keys, parsed *)
Definition eps_agree (n : cnode) (sn : snode) : Prop :=
  forall ep, lookup ep (cn_eps n) = match lookup (ep_key ep) (sn_kv sn) with Some v => atoi v | None => None end.

Section Fold.
  (* the immutable addresses each node announces (cluster.Node documents them immutable) *)
  Variable addr_of : string -> string * string.
  Hypothesis addr_nonempty : forall id, fst (addr_of id) <> "" /\ snd (addr_of id) <> "".

  Definition promoted (s : sstate) (id : string) (sn : snode) : Prop :=
    exists n, lookup id (ss_nodes s) = Some n /\ lookup id (ss_pending s) = None /\
              cn_id n = id /\ cn_proxy n = fst (addr_of id) /\ cn_admin n = snd (addr_of id) /\
              cn_status n = status_of sn /\ eps_agree n sn.

  Definition pending_ok (s : sstate) (id : string) (sn : snode) : Prop :=
    exists p, lookup id (ss_pending s) = Some p /\ lookup id (ss_nodes s) = None /\
              cn_id p = id /\ sn_left sn = false /\
              (cn_proxy p = "" \/ cn_proxy p = fst (addr_of id)) /\ (cn_admin p = "" \/ cn_admin p = snd (addr_of id)) /\
              (cn_proxy p = "" \/ cn_admin p = "") /\
              (lookup "proxy_addr" (sn_kv sn) <> None -> cn_proxy p <> "") /\
              (lookup "admin_addr" (sn_kv sn) <> None -> cn_admin p <> "") /\
              match cn_status p with
              | SNone | SActive => sn_unreach sn = false
              | SUnreach => sn_unreach sn = true
              | SLeft => False end /\
              eps_agree p sn.

  (* a pending node that left is dropped by the syncer and never promoted afterwards *)
  Definition dropped (s : sstate) (id : string) (sn : snode) : Prop :=
    lookup id (ss_pending s) = None /\ lookup id (ss_nodes s) = None /\ sn_left sn = true.

  Definition rel (s : sstate) (sh : shadow) : Prop :=
    forall id, id <> ss_local s ->
      match lookup id sh with
      | None => lookup id (ss_nodes s) = None /\ lookup id (ss_pending s) = None
      | Some sn => promoted s id sn \/ pending_ok s id sn \/ dropped s id sn
      end.

  (* events as an honest gossip layer produces them, relative to the shadow they are folded into *)
  Definition ev_ok (sh : shadow) (e : event) : Prop :=
    match e with
    | EJoin id => lookup id sh = None
    | ELeave id => lookup id sh <> None
    | EReach id => exists sn, lookup id sh = Some sn /\ sn_left sn = false /\ sn_unreach sn = true
    | EUnreach id => exists sn, lookup id sh = Some sn /\ sn_left sn = false /\ sn_unreach sn = false
    | EExpired id => lookup id sh <> None
    | EDelete id k => lookup id sh <> None
    | EUpsert id k v =>
        lookup id sh <> None /\
        (k = "proxy_addr" -> v = fst (addr_of id)) /\ (k = "admin_addr" -> v = snd (addr_of id)) /\
        (forall ep, k = ep_key ep -> atoi v <> None)
    end.
End Fold.
