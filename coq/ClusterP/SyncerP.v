(* Proofs about the routing table / syncer model (Cluster/Syncer.v). *)
From Coq Require Import List String NArith ZArith Bool Lia.
From Piko Require Import Base.Maps Base.Strs Gossip.Types Cluster.Syncer.
Import ListNotations.
Open Scope string_scope. Open Scope list_scope.

(* LookupEndpoint only returns a remote node that is currently active and advertises a positive count *)
Theorem lookup_candidates_sound s ep id :
  In id (lookup_candidates s ep) ->
  exists n, In n (values (ss_nodes s)) /\ cn_id n = id /\ id <> ss_local s /\ cn_status n = SActive /\
            exists c, lookup ep (cn_eps n) = Some c /\ (0 < c)%Z.
Proof.
  unfold lookup_candidates. rewrite in_map_iff. intros [n [Hid Hin]]. apply filter_In in Hin.
  destruct Hin as [Hin Hf]. apply andb_prop in Hf. destruct Hf as [Hf Hc]. apply andb_prop in Hf. destruct Hf as [Hl Hs].
  exists n. split; [exact Hin|]. split; [exact Hid|]. split.
  - intros Heq. rewrite <- Hid in Heq. rewrite Heq, String.eqb_refl in Hl. discriminate.
  - split.
    + destruct (cn_status n); try discriminate. reflexivity.
    + destruct (lookup ep (cn_eps n)) as [c|]; [|discriminate]. exists c. split; [reflexivity|]. apply Z.ltb_lt, Hc.
Qed.

(* ... and it finds one whenever one exists *)
Theorem lookup_candidates_complete s ep n c :
  In n (values (ss_nodes s)) -> cn_id n <> ss_local s -> cn_status n = SActive ->
  lookup ep (cn_eps n) = Some c -> (0 < c)%Z -> In (cn_id n) (lookup_candidates s ep).
Proof.
  intros Hin Hl Hs He Hc. unfold lookup_candidates. apply in_map. apply filter_In. split; [exact Hin|].
  rewrite Hs, He. apply String.eqb_neq in Hl. rewrite Hl. cbn. apply Z.ltb_lt, Hc.
Qed.
