(* C04 link: the events the gossip receiver model emits for honest data are well formed (evs_ok) with
   respect to the watcher's fold, so the syncer fold theorem (FoldP.fold_rel) applies to them. *)
From Coq Require Import List String NArith ZArith Bool Lia.
From Piko Require Import Base.Maps Base.Strs Gossip.Types Gossip.Local Gossip.Apply Cluster.Syncer.
From Piko Require Import GossipP.LocalP GossipP.ApplyP GossipP.WatchP GossipP.MemberP ClusterP.FoldP.
Import ListNotations.
Open Scope string_scope. Open Scope list_scope. Open Scope N_scope.

Section Link.
  Variable addr_of : string -> string * string.

  (* what an honest owner [id] writes: key-consistent entries, its two immutable addresses, numeric counts *)
  Definition honest_entry (id : string) (e : entry) : Prop :=
    kc_entry e /\
    (e_del e = false -> e_key e = "proxy_addr" -> e_val e = fst (addr_of id)) /\
    (e_del e = false -> e_key e = "admin_addr" -> e_val e = snd (addr_of id)) /\
    (e_del e = false -> forall ep, e_key e = ep_key ep -> atoi (e_val e) <> None).

  Definition honest_delta (dl : list delta_entry) : Prop :=
    Forall (fun de => Forall (honest_entry (de_id de)) (de_ents de)) dl.

  Lemma honest_kc_delta dl : honest_delta dl -> kc_delta dl.
  Proof.
    unfold honest_delta, kc_delta. intros H. eapply Forall_impl; [|exact H]. intros de Hde. cbn beta in *.
    eapply Forall_impl; [|exact Hde]. intros e [He _]. exact He.
  Qed.

  (* ev_ok only looks at the shadow entry of the event's own node *)
  Lemma ev_ok_congr sh1 sh2 e : lookup (ev_id e) sh1 = lookup (ev_id e) sh2 -> ev_ok addr_of sh1 e -> ev_ok addr_of sh2 e.
  Proof. destruct e; cbn [ev_ok ev_id]; intros H; rewrite <- H; auto. Qed.

  Lemma evs_ok_app sh a b : evs_ok addr_of sh a -> evs_ok addr_of (fold_events sh a) b -> evs_ok addr_of sh (a ++ b).
  Proof.
    revert sh. induction a as [|e a IH]; intros sh Ha Hb; cbn [app]; [exact Hb|].
    inversion Ha as [|? ? ? He Hr]; subst. constructor; [exact He|]. apply IH; [exact Hr|]. exact Hb.
  Qed.

  Lemma evs_ok_deletes sh nid ks : lookup nid sh <> None -> evs_ok addr_of sh (map (fun k => EDelete nid k) ks).
  Proof.
    revert sh. induction ks as [|k ks IH]; intros sh Hk; cbn [map]; constructor; [exact Hk|].
    apply IH. cbn [fold_event]. rewrite upd_lookup, String.eqb_refl. destruct (lookup nid sh); [discriminate|contradiction].
  Qed.

  (* ---- one entry ---- *)
  Lemma apply_entry_evs_ok now nid st e sn sh :
    honest_entry nid e -> lookup nid sh = Some sn ->
    evs_ok addr_of sh (snd (fst (apply_entry now nid st e))).
  Proof.
    intros [Hkc [Hp [Ha Hep]]] Hsh. unfold apply_entry.
    destruct (e_ver e <=? n_ver st); [constructor|].
    destruct (e_int e) eqn:Ei.
    - destruct (String.eqb (e_key e) leftKey).
      + cbn [fst snd]. constructor; [cbn; rewrite Hsh; discriminate|constructor].
      + destruct (String.eqb (e_key e) compactKey); [|constructor].
        destruct (parse_uint (e_val e)); [|constructor]. cbn [fst snd].
        rewrite <- map_map with (f := e_key) (g := fun k => EDelete nid k). apply evs_ok_deletes. rewrite Hsh. discriminate.
    - cbn [fst snd]. destruct (e_del e) eqn:Ed.
      + constructor; [cbn; rewrite Hsh; discriminate|constructor].
      + constructor; [|constructor]. cbn [ev_ok]. split; [rewrite Hsh; discriminate|].
        split; [apply (Hp eq_refl)|]. split; [apply (Ha eq_refl)|]. apply (Hep eq_refl).
  Qed.

  Lemma apply_entries_evs_ok now nid es : forall st sn sh,
    kc_state st -> Forall (honest_entry nid) es -> lookup nid sh = Some sn -> agrees sn st ->
    evs_ok addr_of sh (snd (apply_entries now nid st es)).
  Proof.
    induction es as [|e es IH]; intros st sn sh Hkc Hes Hsh Hag; cbn [apply_entries]; [constructor|].
    inversion Hes as [|? ? He Hes']; subst.
    pose proof (apply_entry_evs_ok now nid st e sn sh He Hsh) as H1.
    pose proof (apply_entry_agree now nid st e sn sh Hkc (proj1 He) Hsh Hag) as H2.
    destruct (apply_entry now nid st e) as [[st1 ev1] stop]. cbn [fst snd] in H1. destruct H2 as [_ [Hk1 [sn1 [Hs1 Hg1]]]].
    destruct stop; [exact H1|].
    specialize (IH st1 sn1 (fold_events sh ev1) Hk1 Hes' Hs1 Hg1).
    destruct (apply_entries now nid st1 es) as [st2 ev2]. cbn [snd] in *. apply evs_ok_app; assumption.
  Qed.

  (* ---- one delta entry / a delta ---- *)
  Lemma apply_delta_entry_evs_ok nows c de sh :
    kc_c c -> Forall (honest_entry (de_id de)) (de_ents de) -> agree sh c ->
    evs_ok addr_of sh (snd (apply_delta_entry nows c de)).
  Proof.
    intros Hkc Hes Hag. unfold apply_delta_entry.
    destruct (String.eqb (de_id de) (c_local c)) eqn:El; [constructor|]. apply String.eqb_neq in El.
    pose proof (Hag (de_id de) El) as Hat.
    destruct (lookup (de_id de) (c_nodes c)) as [st|] eqn:Es.
    - destruct (lookup (de_id de) sh) as [sn|] eqn:Esn; [|contradiction]. cbn [agree_at] in Hat.
      pose proof (apply_entries_evs_ok (now_of nows (de_id de)) (de_id de) (de_ents de) st sn sh (Hkc _ _ Es) Hes Esn Hat) as H.
      destruct (apply_entries _ _ st (de_ents de)) as [st' ev]. exact H.
    - destruct (lookup (de_id de) sh) as [sn|] eqn:Esn; [contradiction|].
      pose proof (apply_entries_evs_ok (now_of nows (de_id de)) (de_id de) (de_ents de) (new_node (de_id de) (de_addr de))
                    {| sn_left := false; sn_unreach := false; sn_kv := [] |} (fold_events sh [EJoin (de_id de)])
                    (kc_new_node _ _) Hes) as H.
      destruct (apply_entries _ _ (new_node (de_id de) (de_addr de)) (de_ents de)) as [st' ev]. cbn [snd app] in *.
      constructor; [exact Esn|]. apply H; [cbn; apply lookup_insert_eq|apply new_node_agrees].
  Qed.

  Lemma delta_fold_evs_ok nows dl : forall c ev sh,
    kc_c c -> honest_delta dl -> agree (fold_events sh ev) c -> evs_ok addr_of sh ev ->
    evs_ok addr_of sh (snd (fold_left (delta_step nows) dl (c, ev))).
  Proof.
    induction dl as [|de dl IH]; intros c ev sh Hkc Hdl Hag Hev; cbn [fold_left]; [exact Hev|].
    inversion Hdl as [|? ? Hde Hdl']; subst.
    assert (Hstep : delta_step nows (c, ev) de = (fst (apply_delta_entry nows c de), ev ++ snd (apply_delta_entry nows c de))).
    { unfold delta_step. destruct (apply_delta_entry nows c de). reflexivity. }
    rewrite Hstep.
    assert (Hkd : Forall kc_entry (de_ents de)). { eapply Forall_impl; [|exact Hde]. intros e [He _]. exact He. }
    pose proof (apply_delta_entry_agree nows c de (fold_events sh ev) Hkc Hkd Hag) as H1.
    pose proof (apply_delta_entry_evs_ok nows c de (fold_events sh ev) Hkc Hde Hag) as H2.
    destruct (apply_delta_entry nows c de) as [c' ev']. cbn [fst snd] in *. destruct H1 as [Hk' [Hg' _]].
    apply IH; auto.
    - rewrite fold_events_app. exact Hg'.
    - apply evs_ok_app; assumption.
  Qed.

  (* ---- digests ---- *)
  Lemma dig_fold_evs_ok dg : forall c ev sh,
    kc_c c -> mem (c_local c) (c_nodes c) = true -> agree (fold_events sh ev) c -> evs_ok addr_of sh ev ->
    evs_ok addr_of sh (snd (fold_left dig_step dg (c, ev))).
  Proof.
    induction dg as [|d dg IH]; intros c ev sh Hkc Hml Hag Hev; cbn [fold_left]; [exact Hev|].
    assert (Hstep : dig_step (c, ev) d =
                    if mem (d_id d) (c_nodes c) then (c, ev) else if d_left d then (c, ev)
                    else (set_nodes c (insert (d_id d) (new_node (d_id d) (d_addr d)) (c_nodes c)), ev ++ [EJoin (d_id d)])) by reflexivity.
    rewrite Hstep. destruct (mem (d_id d) (c_nodes c)) eqn:Em; [apply IH; assumption|].
    destruct (d_left d); [apply IH; assumption|].
    assert (Hnl : d_id d <> c_local c). { intros Heq. rewrite Heq, Hml in Em. discriminate. }
    set (c' := set_nodes c (insert (d_id d) (new_node (d_id d) (d_addr d)) (c_nodes c))).
    apply (IH c' (ev ++ [EJoin (d_id d)]) sh).
    - intros id st. cbn [c' c_nodes set_nodes]. rewrite lookup_insert.
      destruct (String.eqb id (d_id d)); [intros [= <-]; apply kc_new_node|apply Hkc].
    - cbn [c' c_nodes set_nodes c_local]. unfold mem in *. rewrite lookup_insert_ne by congruence. exact Hml.
    - intros id Hne. cbn [c' c_nodes set_nodes c_local] in *. rewrite fold_events_app.
      rewrite fold_events_cons, fold_events_nil. cbn [fold_event]. rewrite !lookup_insert.
      destruct (String.eqb id (d_id d)); [apply new_node_agrees|apply Hag, Hne].
    - apply evs_ok_app; [exact Hev|]. constructor; [|constructor]. cbn [ev_ok].
      specialize (Hag (d_id d) Hnl). unfold mem in Em. destruct (lookup (d_id d) (c_nodes c)); [discriminate|].
      destruct (lookup (d_id d) (fold_events sh ev)); [contradiction|reflexivity].
  Qed.

  (* ---- liveness ---- *)
  Lemma liveness_node_evs_ok local suspect nows s sn sh :
    lookup (n_id s) sh = Some sn -> agrees sn s ->
    evs_ok addr_of sh (snd (liveness_node local suspect nows s)).
  Proof.
    intros Hsh [Al [Au _]]. unfold liveness_node.
    destruct (String.eqb (n_id s) local || n_left s) eqn:E; [constructor|]. apply orb_false_elim in E. destruct E as [_ El].
    destruct (suspect (n_id s)); destruct (n_unreach s) eqn:Eu; try constructor; cbn [snd].
    - exists sn. rewrite Al, Au, El. auto.
    - constructor.
    - exists sn. rewrite Al, Au, El. auto.
    - constructor.
  Qed.

  Lemma liveness_fold_evs_ok local suspect nows (m : amap node_state) : forall sh,
    NoDup (keys m) -> (forall k s, lookup k m = Some s -> n_id s = k) ->
    (forall k s, lookup k m = Some s -> k <> local -> exists sn, lookup k sh = Some sn /\ agrees sn s) ->
    evs_ok addr_of sh (flat_map (fun kv => snd (liveness_node local suspect nows (snd kv))) m).
  Proof.
    induction m as [|[k s] m IH]; intros sh Hnd Hwf Hag; cbn [flat_map snd]; [constructor|].
    inversion Hnd as [|? ? Hni Hnd']; subst.
    assert (Hks : n_id s = k). { apply (Hwf k s). cbn. rewrite String.eqb_refl. reflexivity. }
    assert (Hin' : forall k0 s0, lookup k0 m = Some s0 -> lookup k0 ((k, s) :: m) = Some s0).
    { intros k0 s0 H0. cbn. destruct (String.eqb k0 k) eqn:E; [|exact H0].
      apply String.eqb_eq in E. subst k0. exfalso. apply Hni. apply lookup_In in H0. change k with (fst (k, s0)). apply in_map, H0. }
    pose proof (liveness_node_spec local suspect nows s) as Hsp.
    destruct (liveness_node local suspect nows s) as [s' ev] eqn:El. destruct Hsp as [_ [_ [_ [Hab _]]]]. cbn [snd].
    apply evs_ok_app.
    - destruct (String.eqb k local) eqn:Ekl.
      + (* the local node: liveness skips it, no event *)
        apply String.eqb_eq in Ekl. unfold liveness_node in El. rewrite Hks, Ekl, String.eqb_refl in El. cbn in El.
        injection El as _ <-. constructor.
      + apply String.eqb_neq in Ekl. destruct (Hag k s) as [sn [Hsn Hg]]; [cbn; rewrite String.eqb_refl; reflexivity|exact Ekl|].
        pose proof (liveness_node_evs_ok local suspect nows s sn sh) as H. rewrite El in H. cbn [snd] in H.
        apply H; [rewrite Hks; exact Hsn|exact Hg].
    - apply IH; [exact Hnd'|intros k0 s0 H0; apply Hwf, Hin', H0|].
      intros k0 s0 H0 Hne0. destruct (Hag k0 s0 (Hin' _ _ H0) Hne0) as [sn [Hsn Hg]]. exists sn. split; [|exact Hg].
      rewrite fold_events_other; [exact Hsn|]. intros e He. rewrite (Hab e He), Hks. intros Heq. subst k0.
      apply Hni. apply lookup_In in H0. change k with (fst (k, s0)). apply in_map, H0.
  Qed.

  (* ---- expiry ---- *)
  Lemma expired_evs_ok (l : list node_state) : forall sh,
    NoDup (map n_id l) -> (forall s, In s l -> lookup (n_id s) sh <> None) ->
    evs_ok addr_of sh (map (fun s => EExpired (n_id s)) l).
  Proof.
    induction l as [|s l IH]; intros sh Hnd Hk; cbn [map]; constructor.
    - cbn. apply Hk. left; reflexivity.
    - inversion Hnd as [|? ? Hni Hnd']; subst. apply IH; [exact Hnd'|].
      intros s0 H0. cbn [fold_event]. rewrite lookup_remove_ne; [apply Hk; right; exact H0|].
      intros Heq. apply Hni. rewrite <- Heq. apply in_map, H0.
  Qed.

  (* ---- any sequence of receiver operations ---- *)
  Definition rop_honest (o : rop) : Prop := match o with RDelta _ dl => honest_delta dl | _ => True end.

  Record LInvC (c : cstate) : Prop := { lc_r : RInv c; lc_local : local_ok c }.

  Lemma rstep_evs_ok c o sh :
    LInvC c -> rop_honest o -> agree sh c ->
    evs_ok addr_of sh (snd (rstep c o)) /\ LInvC (fst (rstep c o)) /\ agree (fold_events sh (snd (rstep c o))) (fst (rstep c o)).
  Proof.
    intros [[Hw Hn Hk] Hl] Ho Hag.
    assert (Hkc : rop_kc o). { destruct o; cbn in *; auto. apply honest_kc_delta, Ho. }
    destruct (rstep_agree c o sh (Build_RInv c Hw Hn Hk) Hkc Hag) as [Hri Hag'].
    destruct (local_ok_step c o Hw Hl) as [Hl' _].
    split; [|split; [constructor; assumption|exact Hag']].
    destruct Hl as [sl [Hsl [_ Hexp]]].
    destruct o as [dg|nows dl|sus nows|t]; cbn [rstep rop_honest] in *.
    - apply (dig_fold_evs_ok dg c [] sh Hk); [unfold mem; rewrite Hsl; reflexivity|exact Hag|constructor].
    - apply (delta_fold_evs_ok nows dl c [] sh Hk Ho Hag). constructor.
    - assert (Hev : snd (update_liveness (fun id => existsb (String.eqb id) sus) nows c) =
                    flat_map (fun kv => snd (liveness_node (c_local c) (fun id => existsb (String.eqb id) sus) nows (snd kv))) (c_nodes c)).
      { unfold update_liveness. cbn [snd]. rewrite flat_map_concat_map, map_map, <- flat_map_concat_map.
        apply flat_map_ext. intros [k s]. cbn [snd fst]. destruct (liveness_node (c_local c) _ nows s). reflexivity. }
      rewrite Hev. apply liveness_fold_evs_ok; [exact Hn|exact Hw|].
      intros k s Hs Hne. specialize (Hag k Hne). rewrite Hs in Hag. destruct (lookup k sh) as [sn|]; [|contradiction]. exists sn. auto.
    - unfold remove_expired. cbn [snd]. apply expired_evs_ok.
      + (* distinct ids: distinct keys and every state is stored under its id *)
        assert (Hmap : map n_id (values (c_nodes c)) = keys (c_nodes c)).
        { unfold values, keys. rewrite map_map. apply map_ext_in. intros [k s] Hin. cbn.
          apply (In_lookup _ _ _ Hn) in Hin. apply (Hw _ _ Hin). }
        assert (Hnd : NoDup (map n_id (values (c_nodes c)))) by (rewrite Hmap; exact Hn).
        clear -Hnd. induction (values (c_nodes c)) as [|s l IH]; cbn; [constructor|].
        inversion Hnd as [|? ? Hni Hnd']; subst. destruct (expired t s); cbn; [|apply IH, Hnd'].
        constructor; [|apply IH, Hnd']. intros Hin. apply Hni. apply in_map_iff in Hin. destruct Hin as [y [Hy Hin]].
        apply filter_In in Hin. rewrite <- Hy. apply in_map, Hin.
      + intros s Hin. apply filter_In in Hin. destruct Hin as [Hin He]. apply In_values in Hin. destruct Hin as [k Hin].
        apply (In_lookup _ _ _ Hn) in Hin. rewrite (Hw _ _ Hin).
        assert (Hne : k <> c_local c).
        { intros ->. rewrite Hsl in Hin. injection Hin as <-. unfold expired in He. rewrite Hexp in He. discriminate. }
        specialize (Hag k Hne). rewrite Hin in Hag. destruct (lookup k sh); [discriminate|contradiction].
  Qed.

  (* the gossip receiver's events, fed to the syncer, keep the routing state in relation with the watcher's fold,
     which in turn agrees with the gossip state: for EVERY sequence of receiver operations on honest data *)
  Theorem syncer_follows_gossip ops : forall c sh s,
    (forall id, fst (addr_of id) <> "" /\ snd (addr_of id) <> "") ->
    LInvC c -> Forall rop_honest ops -> agree sh c -> rel addr_of s sh -> pend_wf s ->
    let evs := snd (rrun c ops) in
    rel addr_of (on_events s evs) (fold_events sh evs) /\ pend_wf (on_events s evs) /\
    agree (fold_events sh evs) (fst (rrun c ops)) /\ LInvC (fst (rrun c ops)).
  Proof.
    induction ops as [|o ops IH]; intros c sh s Hne Hi Hops Hag Hrel Hpw; cbn [rrun]; [cbn; auto|].
    inversion Hops as [|? ? Ho Hops']; subst.
    destruct (rstep_evs_ok c o sh Hi Ho Hag) as [Hev [Hi1 Hag1]].
    destruct (rstep c o) as [c1 ev1]. cbn [fst snd] in *.
    destruct (fold_rel addr_of Hne ev1 s sh Hrel Hpw Hev) as [Hrel1 Hpw1].
    specialize (IH c1 (fold_events sh ev1) (on_events s ev1) Hne Hi1 Hops' Hag1 Hrel1 Hpw1).
    destruct (rrun c1 ops) as [c2 ev2]. cbn [fst snd] in *.
    unfold on_events in *. rewrite fold_events_app, fold_left_app. exact IH.
  Qed.
End Link.
