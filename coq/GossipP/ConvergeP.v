(* C03: the per-pair deficit (log versions not yet reached) never grows, strictly shrinks when a non-empty
   delta prefix is applied, and is zero exactly when the view has caught up with the owner. *)
From Coq Require Import List String NArith ZArith Bool Lia Permutation Sorted.
From Piko Require Import Base.Maps Base.Strs Gossip.Types Gossip.Local Gossip.Apply Gossip.Codec.
From Piko Require Import GossipP.SortP GossipP.LocalP GossipP.Valid GossipP.ApplyValid GossipP.CodecP.
Import ListNotations.
Open Scope string_scope. Open Scope list_scope. Open Scope N_scope.

(* distinct versions of the owner's log above v *)
Definition deficit (L : list entry) (v : N) : nat :=
  List.length (nodup N.eq_dec (filter (fun x => v <? x) (map e_ver L))).

Lemma incl_length_nodup (l1 l2 : list N) : NoDup l1 -> incl l1 l2 -> (List.length l1 <= List.length l2)%nat.
Proof. intros. apply NoDup_incl_length; assumption. Qed.

Lemma deficit_mono L v v' : v <= v' -> (deficit L v' <= deficit L v)%nat.
Proof.
  intros Hle. unfold deficit. apply NoDup_incl_length; [apply NoDup_nodup|].
  intros x Hx. apply nodup_In in Hx. apply nodup_In. apply filter_In in Hx. apply filter_In.
  destruct Hx as [H1 H2]. split; [exact H1|]. apply N.ltb_lt in H2. apply N.ltb_lt. lia.
Qed.

Lemma deficit_strict L v v' : v < v' -> In v' (map e_ver L) -> (deficit L v' < deficit L v)%nat.
Proof.
  intros Hlt Hin. unfold deficit.
  set (A := nodup N.eq_dec (filter (fun x => v' <? x) (map e_ver L))).
  set (B := nodup N.eq_dec (filter (fun x => v <? x) (map e_ver L))).
  assert (HA : NoDup (v' :: A)).
  { constructor; [|apply NoDup_nodup]. unfold A. intros H. apply nodup_In, filter_In in H. destruct H as [_ H].
    apply N.ltb_lt in H. lia. }
  assert (Hincl : incl (v' :: A) B).
  { intros x [<-|Hx]; unfold B; apply nodup_In, filter_In.
    - split; [exact Hin|]. apply N.ltb_lt. exact Hlt.
    - unfold A in Hx. apply nodup_In, filter_In in Hx. destruct Hx as [H1 H2]. split; [exact H1|].
      apply N.ltb_lt in H2. apply N.ltb_lt. lia. }
  pose proof (NoDup_incl_length HA Hincl) as H. cbn in H. lia.
Qed.

Lemma deficit_zero L v : deficit L v = 0%nat <-> forall e, In e L -> e_ver e <= v.
Proof.
  unfold deficit. split.
  - intros H e He. destruct (N.le_gt_cases (e_ver e) v) as [Hle|Hgt]; [exact Hle|]. exfalso.
    assert (Hin : In (e_ver e) (nodup N.eq_dec (filter (fun x => v <? x) (map e_ver L)))).
    { apply nodup_In, filter_In. split; [apply in_map, He|apply N.ltb_lt; exact Hgt]. }
    destruct (nodup N.eq_dec (filter (fun x => v <? x) (map e_ver L))); [destruct Hin|discriminate].
  - intros H. assert (Hn : filter (fun x => v <? x) (map e_ver L) = []).
    { apply filter_none. intros x Hx. apply in_map_iff in Hx. destruct Hx as [e [<- He]].
      apply N.ltb_ge. apply H, He. }
    rewrite Hn. reflexivity.
Qed.

(* zero deficit = caught up = identical state *)
Theorem stuck_is_converged O V L :
  OwnInv O L -> Valid V O L -> deficit L (n_ver V) = 0%nat ->
  n_ver V = n_ver O /\ forall k, lookup k (n_ents V) = lookup k (n_ents O).
Proof.
  intros HO HV Hz. assert (Heq : n_ver V = n_ver O).
  { pose proof (V1 _ _ _ HV) as H1. destruct (n_ents O) as [|kv m] eqn:Em.
    - pose proof (li_zero _ (O_l _ _ HO) Em). lia.
    - assert (Hne : n_ents O <> []) by (rewrite Em; discriminate).
      destruct (li_top _ (O_l _ _ HO) Hne) as [k [e [Hl Hv]]].
      pose proof (proj1 (deficit_zero L (n_ver V)) Hz e (Oa _ _ HO _ _ Hl)). lia. }
  split; [exact Heq|]. apply (caught_up_exact O V L HO HV Heq).
Qed.

(* applying a non-empty prefix of the delta cut for exactly the observer's version strictly shrinks the deficit *)
Section Progress.
  Variables (O S B : node_state) (L : list entry) (now : Z) (nid : string).
  Hypothesis HO : OwnInv O L.
  Hypothesis HS : Valid S O L.
  Hypothesis HB : Valid B O L.

  Let T := sort_by_ver (filter (fun e => n_ver B <? e_ver e) (values (n_ents S))).

  Lemma T_all_new x : In x T -> n_ver B < e_ver x /\ In x L.
  Proof.
    unfold T. intros Hx. apply In_sort, filter_In in Hx. destruct Hx as [Hx Hv]. apply N.ltb_lt in Hv. split; [exact Hv|].
    apply In_values in Hx. destruct Hx as [k Hx]. apply (In_lookup _ _ _ (V5 _ _ _ HS)) in Hx.
    apply (V2 _ _ _ HS _ _ Hx).
  Qed.

  (* every entry of the prefix is applied; the version ends at the last one *)
  Lemma apply_all_new es : forall st, (forall x, In x es -> n_ver st < e_ver x) ->
    StronglySorted ver_lt es -> (forall x, In x es -> e_key x = compactKey -> exists c, parse_uint (e_val x) = Some c) ->
    n_ver (fst (apply_entries now nid st es)) = match rev es with [] => n_ver st | l :: _ => e_ver l end.
  Proof.
    induction es as [|e es IH]; intros st Hnew Hs Hp; cbn [apply_entries]; [reflexivity|].
    inversion Hs as [|? ? Hs' Hall]; subst.
    assert (He : n_ver st < e_ver e) by (apply Hnew; left; reflexivity).
    assert (Hv1 : n_ver (fst (fst (apply_entry now nid st e))) = e_ver e /\ snd (apply_entry now nid st e) = false).
    { unfold apply_entry. assert (H : e_ver e <=? n_ver st = false) by (apply N.leb_gt; exact He). rewrite H.
      destruct (e_int e); [|cbn; auto]. destruct (String.eqb (e_key e) leftKey); [cbn; auto|].
      destruct (String.eqb (e_key e) compactKey) eqn:Ec; [|cbn; auto].
      apply String.eqb_eq in Ec. destruct (Hp e (or_introl eq_refl) Ec) as [c Hc]. rewrite Hc. cbn. auto. }
    destruct (apply_entry now nid st e) as [[st1 ev1] stop]. cbn [fst snd] in Hv1. destruct Hv1 as [Hv1 ->].
    specialize (IH st1). destruct (apply_entries now nid st1 es) as [st2 ev2]. cbn [fst] in *.
    rewrite IH.
    - cbn [rev]. destruct (rev es) as [|l r] eqn:Er; cbn; [exact Hv1|reflexivity].
    - intros x Hx. rewrite Hv1. rewrite Forall_forall in Hall. apply (Hall x Hx).
    - exact Hs'.
    - intros x Hx. apply Hp. right; exact Hx.
  Qed.

  Theorem exchange_progress e es :
    is_prefix_of (e :: es) T ->
    (deficit L (n_ver (fst (apply_entries now nid B (e :: es)))) < deficit L (n_ver B))%nat.
  Proof.
    intros [post HT].
    assert (Hin : forall x, In x (e :: es) -> In x T). { intros x Hx. rewrite HT. apply in_or_app. left; exact Hx. }
    assert (Hs : StronglySorted ver_lt (e :: es)).
    { pose proof (T_sorted O S L (n_ver B) HO HS) as Hs. fold T in Hs. rewrite HT in Hs.
      clear -Hs. induction (e :: es) as [|x l IH]; [constructor|]. cbn in Hs. inversion Hs as [|? ? Hs' Hall]; subst.
      constructor; [apply IH, Hs'|]. rewrite Forall_forall in *. intros y Hy. apply Hall. apply in_or_app. left; exact Hy. }
    rewrite (apply_all_new (e :: es) B).
    - destruct (rev (e :: es)) as [|l r] eqn:Er.
      + apply (f_equal (@List.length _)) in Er. rewrite rev_length in Er. discriminate.
      + assert (Hl : In l (e :: es)). { apply in_rev. rewrite Er. left; reflexivity. }
        destruct (T_all_new l (Hin l Hl)) as [H1 H2]. apply deficit_strict; [exact H1|apply in_map, H2].
    - intros x Hx. apply (T_all_new x (Hin x Hx)).
    - exact Hs.
    - intros x Hx Hk. destruct (T_all_new x (Hin x Hx)) as [_ HxL]. destruct (Oe _ _ HO _ HxL Hk) as [c [Hc _]]. exists c. exact Hc.
  Qed.
End Progress.
