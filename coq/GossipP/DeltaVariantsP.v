(* Both variants make an observer report a version of the owner below which it lacks one of the owner's entries. *)
From Coq Require Import List String NArith ZArith Bool.
From Piko Require Import Base.Maps Base.Strs Gossip.Types Gossip.Local Gossip.Apply Gossip.DeltaVariants.
Import ListNotations.
Local Open Scope string_scope.

(* an owner with three live keys; the map happens to list the newest first (any order is a legal Go map order) *)
Definition dv_owner : node_state :=
  {| n_id := "own"; n_addr := "10.0.0.2:7000"; n_ver := 3%N; n_left := false; n_unreach := false; n_expiry := None;
     n_ents := [("c", mk_entry "c" "3" 3 false false); ("a", mk_entry "a" "1" 1 false false); ("b", mk_entry "b" "2" 2 false false)] |}.

Definition dv_apply (de : delta_entry) : option node_state :=
  lookup "own" (c_nodes (fst (apply_delta [] (new_cstate "obs" "10.0.0.1:7000") [de]))).

(* cap 2: the delta is {c@3, a@1} sorted = [a; c]: the observer reports version 3 and has no b (version 2) *)
Lemma capped_variant_refuted :
  map e_key (de_ents (delta_entry_of dv_owner 0)) = ["a"; "b"; "c"] /\
  map e_key (de_ents (delta_entry_capped 2 dv_owner 0)) = ["a"; "c"] /\
  exists V, dv_apply (delta_entry_capped 2 dv_owner 0) = Some V /\ n_ver V = 3%N /\ lookup "b" (n_ents V) = None /\
            lookup "b" (n_ents dv_owner) <> None.
Proof.
  split; [vm_compute; reflexivity|]. split; [vm_compute; reflexivity|].
  eexists. split; [vm_compute; reflexivity|]. cbn [n_ver n_ents]. split; [reflexivity|]. split; [vm_compute; reflexivity|].
  vm_compute. discriminate.
Qed.

(* the owner deletes a key and compacts (threshold 1): live keys re-versioned, marker on top. With the marker sent first the
   observer - which held the pre-compaction state - jumps to the marker's version, discards the re-versioned entries as old and
   deletes everything at or below the compaction version: it ends with NONE of the owner's live keys at the owner's version *)
Definition dv_pre : node_state :=
  local_run (new_node "own" "10.0.0.2:7000") [LUpsert "a" "1"; LUpsert "b" "2"; LUpsert "x" "9"].
Definition dv_post : node_state := local_run dv_pre [LDelete "x"; LCompact 1].

Definition dv_observer : cstate :=
  fst (apply_delta [] (new_cstate "obs" "10.0.0.1:7000") [delta_entry_of dv_pre 0]).

Definition dv_sync (de : delta_entry) : option node_state :=
  lookup "own" (c_nodes (fst (apply_delta [] dv_observer [de]))).

Definition live_keys (s : node_state) : list string :=
  map e_key (filter (fun e => negb (e_del e) && negb (e_int e)) (sort_by_ver (values (n_ents s)))).

Lemma marker_first_variant_refuted :
  live_keys dv_post = ["a"; "b"] /\
  (exists V, dv_sync (delta_entry_of dv_post 3) = Some V /\ n_ver V = n_ver dv_post /\ live_keys V = ["a"; "b"]) /\
  (exists V, dv_sync (delta_entry_marker_first dv_post 3) = Some V /\ n_ver V = n_ver dv_post /\ live_keys V = []).
Proof.
  split; [vm_compute; reflexivity|]. split.
  - eexists. split; [vm_compute; reflexivity|]. split; vm_compute; reflexivity.
  - eexists. split; [vm_compute; reflexivity|]. split; vm_compute; reflexivity.
Qed.
