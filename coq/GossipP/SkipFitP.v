(* The "fill the packet" variant is not a prefix cut, and what the receiver makes of it has a hole below the version it then
   reports - for good: the digest it sends next carries that version, so the skipped entry is never asked for again. *)
From Coq Require Import List String NArith ZArith Bool Lia.
From Piko Require Import Base.Maps Base.Strs Gossip.Types Gossip.Apply Gossip.Codec Gossip.SkipFit.
Import ListNotations.
Local Open Scope string_scope.

(* the owner's outstanding entries in version order: small, LARGE, small *)
Definition sk_entries : list entry :=
  [ mk_entry "a" "1" 1 false false; mk_entry "b" "a-value-that-does-not-fit-into-what-is-left-of-the-packet" 2 false false;
    mk_entry "c" "3" 3 false false ].

Definition sk_max : N := 180.
Definition sk_used : N := blen (delta_prefix "own" "10.0.0.2:7000") + blen (enc_delta_header "own" "10.0.0.2:7000" 3).

Definition sk_real : list entry := fst (take_fit enc_entry sk_max sk_used sk_entries).
Definition sk_var : list entry := fst (take_skip enc_entry sk_max sk_used sk_entries).

(* the observer applies what the variant packed *)
Definition sk_view : option node_state :=
  lookup "own" (c_nodes (fst (apply_delta [] (new_cstate "obs" "10.0.0.1:7000")
                                 [{| de_id := "own"; de_addr := "10.0.0.2:7000"; de_ents := sk_var |}]))).

Lemma skip_variant_refuted :
  (* the real cut is a prefix: the first entry only *)
  map e_key sk_real = ["a"] /\
  (* the variant packs a and c: not a prefix of the outstanding entries *)
  map e_key sk_var = ["a"; "c"] /\ (forall rest, sk_entries <> (sk_var ++ rest)%list) /\
  (* the observer then reports version 3 of the owner and has no entry for b (written at version 2) *)
  (exists V, sk_view = Some V /\ n_ver V = 3%N /\ lookup "b" (n_ents V) = None /\
             exists e, In e sk_entries /\ e_key e = "b" /\ (e_ver e <= n_ver V)%N).
Proof.
  split; [vm_compute; reflexivity|]. split; [vm_compute; reflexivity|]. split.
  - intros rest H. vm_compute in H. discriminate.
  - eexists. split; [vm_compute; reflexivity|]. cbn [n_ver n_ents]. split; [reflexivity|]. split; [vm_compute; reflexivity|].
    eexists. split; [right; left; reflexivity|]. split; [reflexivity|]. vm_compute. discriminate.
Qed.
