(* A live node that a peer has forgotten (suspected, expired) is learned again from its own digest: a node's digest always
   lists the node itself, and ApplyDigest adds every listed node it does not know unless the entry is flagged left.
   (Seeded change C03-7 dropped the own entry from the digest request: over the datagram path nothing else re-introduces the
   sender - the handler never adds the header's node id, deltas only cover nodes the requester listed.) *)
From Coq Require Import List String NArith ZArith Bool Lia.
From Piko Require Import Base.Maps Base.Strs Gossip.Types Gossip.Local Gossip.Apply.
From Piko Require Import GossipP.ApplyP.
Import ListNotations.
Open Scope string_scope. Open Scope list_scope.

Lemma digest_lists_known c k s :
  lookup k (c_nodes c) = Some s -> In (dig_of_node s) (digest_of c).
Proof.
  intros H. unfold digest_of. apply in_map. unfold values. apply in_map_iff. exists (k, s). split; [reflexivity|].
  apply lookup_In, H.
Qed.

(* membership only grows through ApplyDigest, and a listed node that is not flagged left is a member afterwards *)
Lemma dig_fold_mem dg : forall c ev id,
  mem id (c_nodes c) = true -> mem id (c_nodes (fst (fold_left dig_step dg (c, ev)))) = true.
Proof.
  induction dg as [|d dg IH]; intros c ev id H; cbn [fold_left]; [exact H|].
  unfold dig_step at 2. destruct (mem (d_id d) (c_nodes c)) eqn:Em; [apply IH, H|].
  destruct (d_left d); [apply IH, H|]. apply IH. cbn [set_nodes c_nodes]. unfold mem in *.
  rewrite lookup_insert. destruct (String.eqb id (d_id d)); [reflexivity|exact H].
Qed.

Lemma dig_fold_learns dg : forall c ev d,
  In d dg -> d_left d = false -> mem (d_id d) (c_nodes (fst (fold_left dig_step dg (c, ev)))) = true.
Proof.
  induction dg as [|x dg IH]; intros c ev d Hin Hl; [destruct Hin|]. cbn [fold_left].
  destruct Hin as [->|Hin].
  - unfold dig_step at 2. destruct (mem (d_id d) (c_nodes c)) eqn:Em; [apply dig_fold_mem, Em|].
    rewrite Hl. apply dig_fold_mem. cbn [set_nodes c_nodes]. unfold mem. rewrite lookup_insert_eq. reflexivity.
  - destruct (dig_step (c, ev) x) as [c1 ev1] eqn:E. apply IH; assumption.
Qed.

Theorem apply_digest_learns c dg d :
  In d dg -> d_left d = false -> mem (d_id d) (c_nodes (fst (apply_digest c dg))) = true.
Proof. intros Hin Hl. unfold apply_digest. apply dig_fold_learns; assumption. Qed.

(* whatever b remembers or has forgotten: after b applies the digest of a live (not departed) node a, b knows a *)
Theorem forgotten_live_node_relearned (a b : cstate) (sa : node_state) :
  lookup (c_local a) (c_nodes a) = Some sa -> n_id sa = c_local a -> n_left sa = false ->
  mem (c_local a) (c_nodes (fst (apply_digest b (digest_of a)))) = true.
Proof.
  intros Hl Hid Hleft.
  pose proof (digest_lists_known a _ _ Hl) as Hin.
  pose proof (apply_digest_learns b (digest_of a) (dig_of_node sa) Hin) as H.
  unfold dig_of_node in H at 1 2. cbn [d_left d_id] in H. rewrite Hid in H. apply H. exact Hleft.
Qed.
