(* C14: the fold of the watcher events equals the visible state. *)
From Coq Require Import List String NArith ZArith Bool Lia.
From Piko Require Import Base.Maps Base.Strs Gossip.Types Gossip.Local Gossip.Apply.
From Piko Require Import GossipP.LocalP GossipP.ApplyP.
Import ListNotations.
Open Scope string_scope. Open Scope list_scope. Open Scope N_scope.

(* what a watcher reconstructs by replaying its notifications *)
Record snode := { sn_left : bool; sn_unreach : bool; sn_kv : amap string }.
Definition shadow := amap snode.

Definition upd (id : string) (f : snode -> snode) (sh : shadow) : shadow :=
  match lookup id sh with Some s => insert id (f s) sh | None => sh end.

Definition fold_event (sh : shadow) (e : event) : shadow :=
  match e with
  | EJoin id => insert id {| sn_left := false; sn_unreach := false; sn_kv := [] |} sh
  | ELeave id => upd id (fun s => {| sn_left := true; sn_unreach := sn_unreach s; sn_kv := sn_kv s |}) sh
  | EUnreach id => upd id (fun s => {| sn_left := sn_left s; sn_unreach := true; sn_kv := sn_kv s |}) sh
  | EReach id => upd id (fun s => {| sn_left := sn_left s; sn_unreach := false; sn_kv := sn_kv s |}) sh
  | EUpsert id k v => upd id (fun s => {| sn_left := sn_left s; sn_unreach := sn_unreach s; sn_kv := insert k v (sn_kv s) |}) sh
  | EDelete id k => upd id (fun s => {| sn_left := sn_left s; sn_unreach := sn_unreach s; sn_kv := remove k (sn_kv s) |}) sh
  | EExpired id => remove id sh
  end.

Definition fold_events (sh : shadow) (evs : list event) : shadow := fold_left fold_event evs sh.

Definition ev_id (e : event) : string :=
  match e with EJoin n | ELeave n | EReach n | EUnreach n | EUpsert n _ _ | EDelete n _ | EExpired n => n end.

(* visible part of a node state: flags + non-internal, non-deleted entries (= LocalP.live) *)
Definition agrees (sn : snode) (st : node_state) : Prop :=
  sn_left sn = n_left st /\ sn_unreach sn = n_unreach st /\ forall k, lookup k (sn_kv sn) = live st k.

Definition agree_at (o : option snode) (v : option node_state) : Prop :=
  match o, v with
  | None, None => True
  | Some sn, Some st => agrees sn st
  | _, _ => False
  end.

Definition agree (sh : shadow) (c : cstate) : Prop :=
  forall id, id <> c_local c -> agree_at (lookup id sh) (lookup id (c_nodes c)).

(* key-consistency of a node state / of incoming entries: stored under own key, internal flag fixed by the key *)
Definition kc_entry (e : entry) : Prop := e_int e = internal_key (e_key e).
Definition kc_state (st : node_state) : Prop :=
  NoDup (keys (n_ents st)) /\ forall k e, lookup k (n_ents st) = Some e -> e_key e = k /\ kc_entry e.
Definition kc_c (c : cstate) : Prop := forall id st, lookup id (c_nodes c) = Some st -> kc_state st.

(* ---- locality: an event only touches its own node ---- *)
Lemma upd_lookup id f sh id' :
  lookup id' (upd id f sh) = if String.eqb id' id then option_map f (lookup id sh) else lookup id' sh.
Proof.
  unfold upd. destruct (lookup id sh) as [s|] eqn:E.
  - rewrite lookup_insert. destruct (String.eqb id' id); reflexivity.
  - destruct (String.eqb id' id) eqn:E2; [|reflexivity]. apply String.eqb_eq in E2. subst. rewrite E. reflexivity.
Qed.

Lemma fold_event_other sh e id : ev_id e <> id -> lookup id (fold_event sh e) = lookup id sh.
Proof.
  intros Hne. destruct e; cbn [fold_event ev_id] in *;
    try (rewrite upd_lookup; destruct (String.eqb id n) eqn:E; [apply String.eqb_eq in E; congruence|reflexivity]).
  - apply lookup_insert_ne. congruence.
  - apply lookup_remove_ne. congruence.
Qed.

Lemma fold_event_congr sh1 sh2 e id :
  lookup id sh1 = lookup id sh2 -> lookup id (fold_event sh1 e) = lookup id (fold_event sh2 e).
Proof.
  intros H. destruct (String.eqb (ev_id e) id) eqn:E.
  - apply String.eqb_eq in E. subst id. destruct e; cbn [fold_event ev_id] in *;
      rewrite ?upd_lookup, ?String.eqb_refl, ?lookup_insert_eq, ?lookup_remove_eq, ?H; reflexivity.
  - apply String.eqb_neq in E. rewrite !fold_event_other by exact E. exact H.
Qed.

Lemma fold_events_cons sh e evs : fold_events sh (e :: evs) = fold_events (fold_event sh e) evs.
Proof. reflexivity. Qed.

Lemma fold_events_nil sh : fold_events sh [] = sh.
Proof. reflexivity. Qed.

Lemma fold_events_congr evs sh1 sh2 id :
  lookup id sh1 = lookup id sh2 -> lookup id (fold_events sh1 evs) = lookup id (fold_events sh2 evs).
Proof.
  revert sh1 sh2. induction evs as [|e evs IH]; intros sh1 sh2 H; [exact H|].
  rewrite !fold_events_cons. apply IH. apply fold_event_congr, H.
Qed.

Lemma fold_events_other evs sh id :
  (forall e, In e evs -> ev_id e <> id) -> lookup id (fold_events sh evs) = lookup id sh.
Proof.
  revert sh. induction evs as [|e evs IH]; intros sh H; [reflexivity|].
  rewrite fold_events_cons. rewrite IH by (intros e' He'; apply H; right; exact He').
  apply fold_event_other. apply H. left; reflexivity.
Qed.

Lemma fold_events_app sh a b : fold_events sh (a ++ b) = fold_events (fold_events sh a) b.
Proof. unfold fold_events. apply fold_left_app. Qed.

(* ---- one entry ---- *)
Lemma live_set_ents st m v k :
  live (set_ents st m v) k = match lookup k m with Some e => if e_del e || e_int e then None else Some (e_val e) | None => None end.
Proof. reflexivity. Qed.

Definition evs_about (id : string) (evs : list event) : Prop := forall e, In e evs -> ev_id e = id.

Lemma agrees_flags sn st st' :
  agrees sn st -> n_left st' = n_left st -> n_unreach st' = n_unreach st -> (forall k, live st' k = live st k) -> agrees sn st'.
Proof. intros [A [B C]] Hl Hu Hk. split; [congruence|]. split; [congruence|]. intros k. rewrite Hk. apply C. Qed.

(* the shadow entry of node [nid] after folding the events of applying one entry *)
Lemma apply_entry_agree now nid st e sn sh :
  kc_state st -> kc_entry e -> lookup nid sh = Some sn -> agrees sn st ->
  let '(st', ev, _) := apply_entry now nid st e in
  evs_about nid ev /\ kc_state st' /\
  exists sn', lookup nid (fold_events sh ev) = Some sn' /\ agrees sn' st'.
Proof.
  intros [Hnd Hkc] He Hsh Hag. unfold apply_entry.
  destruct (e_ver e <=? n_ver st); [split; [intros x []|]; split; [split; assumption|]; exists sn; split; assumption|].
  set (st1 := set_ents st (insert (e_key e) e (n_ents st)) (e_ver e)).
  assert (Hkc1 : kc_state st1).
  { split; [apply NoDup_insert, Hnd|]. intros k x. cbn [st1 n_ents set_ents]. rewrite lookup_insert.
    destruct (String.eqb k (e_key e)) eqn:E; [apply String.eqb_eq in E; intros [= <-]; auto|apply Hkc]. }
  assert (Hlive1 : forall k, live st1 k = if String.eqb k (e_key e) then (if e_del e || e_int e then None else Some (e_val e)) else live st k).
  { intros k. unfold live. cbn [st1 n_ents set_ents]. rewrite lookup_insert. destruct (String.eqb k (e_key e)); reflexivity. }
  destruct Hag as [Al [Au Ak]].
  destruct (e_int e) eqn:Ei.
  - (* internal entries are invisible; only leave / compaction have an effect *)
    assert (Hinv : forall k, live st1 k = live st k).
    { intros k. rewrite Hlive1. destruct (String.eqb k (e_key e)) eqn:E; [|reflexivity].
      apply String.eqb_eq in E. subst k. rewrite ?Ei, orb_true_r. unfold live.
      destruct (lookup (e_key e) (n_ents st)) as [x|] eqn:Ex; [|reflexivity].
      destruct (Hkc _ _ Ex) as [Hk Hx]. unfold kc_entry in Hx, He. rewrite Hk, <- He in Hx. rewrite Hx, ?Ei, orb_true_r. reflexivity. }
    destruct (String.eqb (e_key e) leftKey).
    + split; [intros x [<-|[]]; reflexivity|]. split; [exact Hkc1|].
      cbn [fold_events fold_left fold_event]. rewrite upd_lookup, String.eqb_refl, Hsh. cbn [option_map].
      eexists. split; [reflexivity|]. split; [reflexivity|]. split; [exact Au|]. intros k. cbn [sn_kv]. rewrite Ak.
      symmetry. apply Hinv.
    + destruct (String.eqb (e_key e) compactKey).
      * destruct (parse_uint (e_val e)) as [c|].
        -- (* purge *)
           set (dropped := mfilter (fun x => e_ver x <=? c) (n_ents st1)).
           set (dels := map (fun x => EDelete nid (e_key x)) (filter (fun x => negb (e_del x)) (values dropped))).
           split; [|split].
           ++ intros x Hx. unfold dels in Hx. apply in_map_iff in Hx. destruct Hx as [y [<- _]]. reflexivity.
           ++ split; [apply NoDup_mfilter, (proj1 Hkc1)|]. intros k x. cbn [n_ents set_ents].
              rewrite (lookup_mfilter _ _ _ (proj1 Hkc1)). destruct (lookup k (n_ents st1)) as [y|] eqn:Ey; [|discriminate].
              destruct (c <? e_ver y); [|discriminate]. intros [= <-]. apply (proj2 Hkc1 _ _ Ey).
           ++ (* folding the deletes removes exactly the dropped visible keys *)
              assert (Hfold : forall (l : list entry) sh0 sn0, lookup nid sh0 = Some sn0 ->
                        exists sn1, lookup nid (fold_events sh0 (map (fun x => EDelete nid (e_key x)) l)) = Some sn1 /\
                                    sn_left sn1 = sn_left sn0 /\ sn_unreach sn1 = sn_unreach sn0 /\
                                    forall k, lookup k (sn_kv sn1) = if existsb (fun x => String.eqb (e_key x) k) l then None else lookup k (sn_kv sn0)).
              { induction l as [|x l IHl]; intros sh0 sn0 H0; cbn [map fold_events fold_left existsb].
                - exists sn0. auto.
                - cbn [fold_event].
                  destruct (IHl (upd nid (fun s => {| sn_left := sn_left s; sn_unreach := sn_unreach s; sn_kv := remove (e_key x) (sn_kv s) |}) sh0)
                                {| sn_left := sn_left sn0; sn_unreach := sn_unreach sn0; sn_kv := remove (e_key x) (sn_kv sn0) |}) as [sn1 [H1 [H2 [H3 H4]]]].
                  { rewrite upd_lookup, String.eqb_refl, H0. reflexivity. }
                  exists sn1. split; [exact H1|]. split; [exact H2|]. split; [exact H3|]. intros k. rewrite H4. cbn [sn_kv].
                  rewrite lookup_remove. rewrite (String.eqb_sym (e_key x) k).
                  destruct (String.eqb k (e_key x)); cbn; destruct (existsb _ l); reflexivity. }
              destruct (Hfold (filter (fun x => negb (e_del x)) (values dropped)) sh sn Hsh) as [sn1 [H1 [H2 [H3 H4]]]].
              exists sn1. split; [exact H1|]. split; [cbn; congruence|]. split; [cbn; congruence|].
              intros k. rewrite H4, Ak, <- Hinv. unfold live. cbn [n_ents set_ents].
              rewrite (lookup_mfilter _ _ _ (proj1 Hkc1)).
              destruct (lookup k (n_ents st1)) as [y|] eqn:Ey.
              ** destruct (proj2 Hkc1 _ _ Ey) as [Hyk _].
                 destruct (c <? e_ver y) eqn:Ec.
                 --- (* kept: no delete for k *)
                     assert (Hno : existsb (fun x => String.eqb (e_key x) k) (filter (fun x => negb (e_del x)) (values dropped)) = false).
                     { apply not_true_is_false. intros Hex. apply existsb_exists in Hex. destruct Hex as [x [Hx1 Hx2]].
                       apply String.eqb_eq in Hx2. apply filter_In in Hx1. destruct Hx1 as [Hx1 _].
                       apply In_values in Hx1. destruct Hx1 as [kx Hx1]. unfold dropped in Hx1.
                       apply (In_lookup _ _ _ (NoDup_mfilter _ _ (proj1 Hkc1))) in Hx1.
                       rewrite (lookup_mfilter _ _ _ (proj1 Hkc1)) in Hx1.
                       destruct (lookup kx (n_ents st1)) as [z|] eqn:Ez; [|discriminate].
                       destruct (e_ver z <=? c) eqn:Ezc; [|discriminate]. injection Hx1 as <-.
                       destruct (proj2 Hkc1 _ _ Ez) as [Hzk _]. assert (kx = k) by congruence. subst kx.
                       assert (z = y) by congruence. subst z. apply N.leb_le in Ezc. apply N.ltb_lt in Ec. lia. }
                     rewrite Hno. reflexivity.
                 --- (* dropped *)
                     destruct (e_del y) eqn:Ed.
                     +++ destruct (existsb _ _); reflexivity.
                     +++ assert (Hyes : existsb (fun x => String.eqb (e_key x) k) (filter (fun x => negb (e_del x)) (values dropped)) = true).
                         { apply existsb_exists. exists y. split; [|rewrite Hyk; apply String.eqb_refl].
                           apply filter_In. split; [|rewrite Ed; reflexivity]. apply In_values. exists k. apply lookup_In.
                           unfold dropped. rewrite (lookup_mfilter _ _ _ (proj1 Hkc1)), Ey.
                           apply N.ltb_ge in Ec. apply N.leb_le in Ec. rewrite Ec. reflexivity. }
                         rewrite Hyes. reflexivity.
              ** assert (Hno : existsb (fun x => String.eqb (e_key x) k) (filter (fun x => negb (e_del x)) (values dropped)) = false).
                 { apply not_true_is_false. intros Hex. apply existsb_exists in Hex. destruct Hex as [x [Hx1 Hx2]].
                   apply String.eqb_eq in Hx2. apply filter_In in Hx1. destruct Hx1 as [Hx1 _].
                   apply In_values in Hx1. destruct Hx1 as [kx Hx1]. unfold dropped in Hx1.
                   apply (In_lookup _ _ _ (NoDup_mfilter _ _ (proj1 Hkc1))) in Hx1.
                   rewrite (lookup_mfilter _ _ _ (proj1 Hkc1)) in Hx1.
                   destruct (lookup kx (n_ents st1)) as [z|] eqn:Ez; [|discriminate].
                   destruct (e_ver z <=? c); [|discriminate]. injection Hx1 as <-.
                   destruct (proj2 Hkc1 _ _ Ez) as [Hzk _]. congruence. }
                 rewrite Hno. reflexivity.
        -- split; [intros x []|]. split; [exact Hkc1|]. exists sn. split; [exact Hsh|].
           split; [exact Al|]. split; [exact Au|]. intros k. rewrite Ak. symmetry. apply Hinv.
      * split; [intros x []|]. split; [exact Hkc1|]. exists sn. split; [exact Hsh|].
        split; [exact Al|]. split; [exact Au|]. intros k. rewrite Ak. symmetry. apply Hinv.
  - (* user entries: announced by an upsert or a delete *)
    split; [intros x [<-|[]]; destruct (e_del e); reflexivity|]. split; [exact Hkc1|].
    destruct (e_del e) eqn:Ed; cbn [fold_events fold_left fold_event]; rewrite upd_lookup, String.eqb_refl, Hsh; cbn [option_map];
      eexists; (split; [reflexivity|]); (split; [exact Al|]); (split; [exact Au|]); intros k; cbn [sn_kv]; rewrite Hlive1.
    + rewrite lookup_remove. destruct (String.eqb k (e_key e)); [reflexivity|apply Ak].
    + rewrite lookup_insert. destruct (String.eqb k (e_key e)); [reflexivity|apply Ak].
Qed.

(* ---- a list of entries ---- *)
Lemma apply_entries_agree now nid es : forall st sn sh,
  kc_state st -> Forall kc_entry es -> lookup nid sh = Some sn -> agrees sn st ->
  let '(st', ev) := apply_entries now nid st es in
  evs_about nid ev /\ kc_state st' /\ exists sn', lookup nid (fold_events sh ev) = Some sn' /\ agrees sn' st'.
Proof.
  induction es as [|e es IH]; intros st sn sh Hkc Hes Hsh Hag; cbn [apply_entries].
  - split; [intros x []|]. split; [exact Hkc|]. exists sn. auto.
  - inversion Hes as [|? ? He Hes']; subst.
    pose proof (apply_entry_agree now nid st e sn sh Hkc He Hsh Hag) as H1.
    destruct (apply_entry now nid st e) as [[st1 ev1] stop]. destruct H1 as [Ha1 [Hk1 [sn1 [Hs1 Hg1]]]].
    destruct stop; [split; [exact Ha1|]; split; [exact Hk1|]; exists sn1; auto|].
    specialize (IH st1 sn1 (fold_events sh ev1) Hk1 Hes' Hs1 Hg1).
    destruct (apply_entries now nid st1 es) as [st2 ev2]. destruct IH as [Ha2 [Hk2 [sn2 [Hs2 Hg2]]]].
    split; [intros x Hx; apply in_app_or in Hx; destruct Hx; auto|]. split; [exact Hk2|].
    exists sn2. rewrite fold_events_app. auto.
Qed.

(* ---- one delta entry ---- *)
Definition kc_delta (dl : list delta_entry) : Prop := Forall (fun de => Forall kc_entry (de_ents de)) dl.

Lemma new_node_agrees id addr : agrees {| sn_left := false; sn_unreach := false; sn_kv := [] |} (new_node id addr).
Proof. split; [reflexivity|]. split; [reflexivity|]. intros k. reflexivity. Qed.

Lemma kc_new_node id addr : kc_state (new_node id addr).
Proof. split; [constructor|]. cbn. intros k e [=]. Qed.

Lemma apply_delta_entry_agree nows c de sh :
  kc_c c -> Forall kc_entry (de_ents de) -> agree sh c ->
  let '(c', ev) := apply_delta_entry nows c de in
  kc_c c' /\ agree (fold_events sh ev) c' /\ c_local c' = c_local c.
Proof.
  intros Hkc Hes Hag. unfold apply_delta_entry.
  destruct (String.eqb (de_id de) (c_local c)) eqn:El; [split; [exact Hkc|]; split; [exact Hag|reflexivity]|].
  apply String.eqb_neq in El. set (id := de_id de) in *.
  pose proof (Hag id El) as Hat.
  assert (Hgen : forall st sn sh0 evj, kc_state st -> lookup id sh0 = Some sn -> agrees sn st ->
            (forall id', id' <> id -> lookup id' sh0 = lookup id' sh) ->
            sh0 = fold_events sh evj ->
            let '(st', ev) := apply_entries (now_of nows id) id st (de_ents de) in
            kc_c (set_nodes c (insert id st' (c_nodes c))) /\
            agree (fold_events sh (evj ++ ev)) (set_nodes c (insert id st' (c_nodes c))) /\
            c_local (set_nodes c (insert id st' (c_nodes c))) = c_local c).
  { intros st sn sh0 evj Hks Hs0 Hg0 Hoth Heq.
    pose proof (apply_entries_agree (now_of nows id) id (de_ents de) st sn sh0 Hks Hes Hs0 Hg0) as H1.
    destruct (apply_entries (now_of nows id) id st (de_ents de)) as [st' ev]. destruct H1 as [Ha [Hk' [sn' [Hs' Hg']]]].
    split; [|split; [|reflexivity]].
    - intros id' s'. cbn [c_nodes set_nodes]. rewrite lookup_insert. destruct (String.eqb id' id); [intros [= <-]; exact Hk'|apply Hkc].
    - intros id' Hne'. cbn [c_nodes set_nodes c_local] in *. rewrite fold_events_app, <- Heq, lookup_insert.
      destruct (String.eqb id' id) eqn:E.
      + apply String.eqb_eq in E. subst id'. rewrite Hs'. exact Hg'.
      + apply String.eqb_neq in E. rewrite fold_events_other by (intros x Hx; rewrite (Ha x Hx); congruence).
        rewrite (Hoth id' E). apply Hag, Hne'. }
  destruct (lookup id (c_nodes c)) as [st|] eqn:Es.
  - destruct (lookup id sh) as [sn|] eqn:Esn; [|contradiction]. cbn [agree_at] in Hat.
    specialize (Hgen st sn sh [] (Hkc _ _ Es) Esn Hat (fun _ _ => eq_refl) eq_refl).
    destruct (apply_entries (now_of nows id) id st (de_ents de)) as [st' ev]. exact Hgen.
  - destruct (lookup id sh) as [sn|] eqn:Esn; [contradiction|].
    specialize (Hgen (new_node id (de_addr de)) {| sn_left := false; sn_unreach := false; sn_kv := [] |}
                     (fold_events sh [EJoin id]) [EJoin id] (kc_new_node _ _)).
    destruct (apply_entries (now_of nows id) id (new_node id (de_addr de)) (de_ents de)) as [st' ev].
    apply Hgen; [cbn; apply lookup_insert_eq|apply new_node_agrees| |reflexivity].
    intros id' Hne'. cbn. apply lookup_insert_ne, Hne'.
Qed.

(* ---- a whole delta ---- *)
Lemma delta_fold_agree nows dl : forall c ev sh,
  kc_c c -> kc_delta dl -> agree (fold_events sh ev) c ->
  kc_c (fst (fold_left (delta_step nows) dl (c, ev))) /\
  agree (fold_events sh (snd (fold_left (delta_step nows) dl (c, ev)))) (fst (fold_left (delta_step nows) dl (c, ev))) /\
  c_local (fst (fold_left (delta_step nows) dl (c, ev))) = c_local c.
Proof.
  induction dl as [|de dl IH]; intros c ev sh Hkc Hdl Hag; cbn [fold_left]; [auto|].
  inversion Hdl as [|? ? Hde Hdl']; subst.
  pose proof (apply_delta_entry_agree nows c de (fold_events sh ev) Hkc Hde Hag) as H1.
  assert (Hstep : delta_step nows (c, ev) de = (fst (apply_delta_entry nows c de), ev ++ snd (apply_delta_entry nows c de))).
  { unfold delta_step. destruct (apply_delta_entry nows c de). reflexivity. }
  rewrite Hstep. destruct (apply_delta_entry nows c de) as [c' ev']. cbn [fst snd]. destruct H1 as [Hk' [Hg' Hl']].
  rewrite <- fold_events_app in Hg'. destruct (IH c' (ev ++ ev') sh Hk' Hdl' Hg') as [A [B C]].
  split; [exact A|]. split; [exact B|]. rewrite C. exact Hl'.
Qed.

Theorem apply_delta_agree nows c dl sh :
  kc_c c -> kc_delta dl -> agree sh c ->
  kc_c (fst (apply_delta nows c dl)) /\ agree (fold_events sh (snd (apply_delta nows c dl))) (fst (apply_delta nows c dl))
  /\ c_local (fst (apply_delta nows c dl)) = c_local c.
Proof. intros Hkc Hdl Hag. exact (delta_fold_agree nows dl c [] sh Hkc Hdl Hag). Qed.

(* ---- digests ---- *)
Lemma dig_fold_agree dg : forall c ev sh,
  kc_c c -> agree (fold_events sh ev) c ->
  kc_c (fst (fold_left dig_step dg (c, ev))) /\
  agree (fold_events sh (snd (fold_left dig_step dg (c, ev)))) (fst (fold_left dig_step dg (c, ev))) /\
  c_local (fst (fold_left dig_step dg (c, ev))) = c_local c.
Proof.
  induction dg as [|d dg IH]; intros c ev sh Hkc Hag; cbn [fold_left]; [auto|].
  assert (Hstep : dig_step (c, ev) d =
                  if mem (d_id d) (c_nodes c) then (c, ev) else if d_left d then (c, ev)
                  else (set_nodes c (insert (d_id d) (new_node (d_id d) (d_addr d)) (c_nodes c)), ev ++ [EJoin (d_id d)])) by reflexivity.
  rewrite Hstep. destruct (mem (d_id d) (c_nodes c)) eqn:Em; [apply IH; assumption|].
  destruct (d_left d); [apply IH; assumption|].
  set (c' := set_nodes c (insert (d_id d) (new_node (d_id d) (d_addr d)) (c_nodes c))).
  destruct (IH c' (ev ++ [EJoin (d_id d)]) sh) as [A [B C]].
  - intros id st. cbn [c' c_nodes set_nodes]. rewrite lookup_insert.
    destruct (String.eqb id (d_id d)); [intros [= <-]; apply kc_new_node|apply Hkc].
  - intros id Hne. cbn [c' c_nodes set_nodes c_local] in *. rewrite fold_events_app.
    rewrite fold_events_cons, fold_events_nil. cbn [fold_event]. rewrite !lookup_insert.
    destruct (String.eqb id (d_id d)); [apply new_node_agrees|apply Hag, Hne].
  - split; [exact A|]. split; [exact B|exact C].
Qed.

Theorem apply_digest_agree c dg sh :
  kc_c c -> agree sh c ->
  kc_c (fst (apply_digest c dg)) /\ agree (fold_events sh (snd (apply_digest c dg))) (fst (apply_digest c dg))
  /\ c_local (fst (apply_digest c dg)) = c_local c.
Proof. intros Hkc Hag. exact (dig_fold_agree dg c [] sh Hkc Hag). Qed.

(* ---- liveness ---- *)
Lemma liveness_node_spec local suspect nows s :
  let '(s', ev) := liveness_node local suspect nows s in
  n_id s' = n_id s /\ n_ents s' = n_ents s /\ n_left s' = n_left s /\
  (forall e, In e ev -> ev_id e = n_id s) /\
  forall sn sh, lookup (n_id s) sh = Some sn -> agrees sn s ->
    exists sn', lookup (n_id s) (fold_events sh ev) = Some sn' /\ agrees sn' s'.
Proof.
  unfold liveness_node.
  destruct (String.eqb (n_id s) local || n_left s); [repeat split; auto; [intros e []|intros sn sh H1 H2; exists sn; auto]|].
  destruct (suspect (n_id s)); destruct (n_unreach s) eqn:Eu;
    try (repeat split; auto; [intros e []|intros sn sh H1 H2; exists sn; auto]; fail).
  - repeat split; auto; [intros e [<-|[]]; reflexivity|]. intros sn sh H1 [A [B C]].
    rewrite fold_events_cons, fold_events_nil. cbn [fold_event]. rewrite upd_lookup, String.eqb_refl, H1. cbn [option_map].
    eexists. split; [reflexivity|]. split; [exact A|]. split; [reflexivity|exact C].
  - repeat split; auto; [intros e [<-|[]]; reflexivity|]. intros sn sh H1 [A [B C]].
    rewrite fold_events_cons, fold_events_nil. cbn [fold_event]. rewrite upd_lookup, String.eqb_refl, H1. cbn [option_map].
    eexists. split; [reflexivity|]. split; [exact A|]. split; [reflexivity|exact C].
Qed.

Lemma liveness_events_fold local suspect nows (m : amap node_state) : forall sh id,
  NoDup (keys m) -> (forall k s, lookup k m = Some s -> n_id s = k) ->
  lookup id (fold_events sh (flat_map (fun kv => snd (liveness_node local suspect nows (snd kv))) m))
  = match lookup id m with
    | Some s => lookup id (fold_events sh (snd (liveness_node local suspect nows s)))
    | None => lookup id sh
    end.
Proof.
  induction m as [|[k s] m IH]; intros sh id Hnd Hwf; cbn [flat_map lookup snd]; [reflexivity|].
  inversion Hnd as [|? ? Hni Hnd']; subst. rewrite fold_events_app.
  assert (Hks : n_id s = k). { apply (Hwf k s). cbn. rewrite String.eqb_refl. reflexivity. }
  assert (Hwf' : forall k0 s0, lookup k0 m = Some s0 -> n_id s0 = k0).
  { intros k0 s0 H0. apply Hwf. cbn. destruct (String.eqb k0 k) eqn:E; [|exact H0].
    apply String.eqb_eq in E. subst k0. exfalso. apply Hni. apply lookup_In in H0.
    change k with (fst (k, s0)). apply in_map, H0. }
  pose proof (liveness_node_spec local suspect nows s) as Hsp.
  destruct (liveness_node local suspect nows s) as [s' ev] eqn:El. destruct Hsp as [_ [_ [_ [Hab _]]]]. cbn [snd].
  rewrite (IH _ id Hnd' Hwf').
  destruct (String.eqb id k) eqn:E.
  - apply String.eqb_eq in E. subst id. rewrite (notin_lookup_None _ _ Hni), ?El. reflexivity.
  - apply String.eqb_neq in E.
    assert (Hoth : lookup id (fold_events sh ev) = lookup id sh).
    { apply fold_events_other. intros e He. rewrite (Hab e He), Hks. congruence. }
    destruct (lookup id m) as [s0|]; [|exact Hoth].
    apply fold_events_congr, Hoth.
Qed.

Theorem update_liveness_agree suspect nows c sh :
  wf_c c -> NoDup (keys (c_nodes c)) -> kc_c c -> agree sh c ->
  kc_c (fst (update_liveness suspect nows c)) /\
  agree (fold_events sh (snd (update_liveness suspect nows c))) (fst (update_liveness suspect nows c)).
Proof.
  intros Hw Hnd Hkc Hag.
  assert (Hev : snd (update_liveness suspect nows c) =
                flat_map (fun kv => snd (liveness_node (c_local c) suspect nows (snd kv))) (c_nodes c)).
  { unfold update_liveness. cbn [snd]. rewrite flat_map_concat_map, map_map, <- flat_map_concat_map.
    apply flat_map_ext. intros [k s]. cbn [snd fst]. destruct (liveness_node (c_local c) suspect nows s). reflexivity. }
  split.
  - intros id st. rewrite update_liveness_nodes.
    rewrite (lookup_map_nodes (fun s => fst (liveness_node (c_local c) suspect nows s))).
    destruct (lookup id (c_nodes c)) as [s|] eqn:E; [|discriminate]. cbn [option_map]. intros [= <-].
    pose proof (liveness_node_spec (c_local c) suspect nows s) as Hsp.
    destruct (liveness_node (c_local c) suspect nows s) as [s' ev]. destruct Hsp as [_ [He _]]. cbn [fst].
    destruct (Hkc _ _ E) as [K1 K2]. unfold kc_state. rewrite He. auto.
  - intros id Hne. rewrite Hev, (liveness_events_fold _ _ _ _ sh id Hnd Hw), update_liveness_nodes.
    rewrite (lookup_map_nodes (fun s => fst (liveness_node (c_local c) suspect nows s))).
    cbn [c_local update_liveness fst] in Hne.
    specialize (Hag id Hne).
    destruct (lookup id (c_nodes c)) as [s|] eqn:E; cbn [option_map].
    + destruct (lookup id sh) as [sn|] eqn:Esn; [|contradiction]. cbn [agree_at] in Hag.
      pose proof (liveness_node_spec (c_local c) suspect nows s) as Hsp.
      destruct (liveness_node (c_local c) suspect nows s) as [s' ev]. destruct Hsp as [_ [_ [_ [_ Hf]]]]. cbn [fst snd].
      rewrite (Hw _ _ E) in Hf. destruct (Hf sn sh Esn Hag) as [sn' [H1 H2]]. rewrite H1. exact H2.
    + exact Hag.
Qed.

(* ---- expiry ---- *)
Lemma expired_events_fold (l : list node_state) : forall sh id,
  lookup id (fold_events sh (map (fun s => EExpired (n_id s)) l))
  = if existsb (fun s => String.eqb (n_id s) id) l then None else lookup id sh.
Proof.
  induction l as [|s l IH]; intros sh id; cbn [map existsb]; [reflexivity|].
  rewrite fold_events_cons, IH. cbn [fold_event]. rewrite lookup_remove, (String.eqb_sym (n_id s) id).
  destruct (String.eqb id (n_id s)); cbn; destruct (existsb _ l); reflexivity.
Qed.

Theorem remove_expired_agree t c sh :
  wf_c c -> NoDup (keys (c_nodes c)) -> kc_c c -> agree sh c ->
  kc_c (fst (remove_expired t c)) /\
  agree (fold_events sh (snd (remove_expired t c))) (fst (remove_expired t c)).
Proof.
  intros Hw Hnd Hkc Hag. unfold remove_expired. cbn [fst snd]. split.
  - intros id st. cbn [c_nodes set_nodes]. rewrite (lookup_mfilter _ _ _ Hnd).
    destruct (lookup id (c_nodes c)) as [s|] eqn:E; [|discriminate]. destruct (negb (expired t s)); [|discriminate].
    intros [= <-]. apply (Hkc _ _ E).
  - intros id Hne. cbn [c_nodes set_nodes c_local] in *. rewrite expired_events_fold, (lookup_mfilter _ _ _ Hnd).
    specialize (Hag id Hne).
    destruct (lookup id (c_nodes c)) as [s|] eqn:E.
    + assert (Hex : existsb (fun s0 => String.eqb (n_id s0) id) (filter (expired t) (values (c_nodes c))) = expired t s).
      { destruct (expired t s) eqn:Ee.
        - apply existsb_exists. exists s. split; [|rewrite (Hw _ _ E); apply String.eqb_refl].
          apply filter_In. split; [|exact Ee]. apply In_values. exists id. apply lookup_In, E.
        - apply not_true_is_false. intros Hx. apply existsb_exists in Hx. destruct Hx as [s0 [H0 H1]].
          apply String.eqb_eq in H1. apply filter_In in H0. destruct H0 as [H0 H0'].
          apply In_values in H0. destruct H0 as [k0 H0]. apply (In_lookup _ _ _ Hnd) in H0.
          rewrite (Hw _ _ H0) in H1. subst k0. congruence. }
      rewrite Hex. destruct (expired t s); cbn [negb]; [exact I|exact Hag].
    + assert (Hex : existsb (fun s0 => String.eqb (n_id s0) id) (filter (expired t) (values (c_nodes c))) = false).
      { apply not_true_is_false. intros Hx. apply existsb_exists in Hx. destruct Hx as [s0 [H0 H1]].
        apply String.eqb_eq in H1. apply filter_In in H0. destruct H0 as [H0 _].
        apply In_values in H0. destruct H0 as [k0 H0]. apply (In_lookup _ _ _ Hnd) in H0.
        rewrite (Hw _ _ H0) in H1. subst k0. congruence. }
      rewrite Hex. exact Hag.
Qed.

(* ---- duplicate-free node maps ---- *)
Lemma dig_fold_nodup dg : forall c ev, NoDup (keys (c_nodes c)) -> NoDup (keys (c_nodes (fst (fold_left dig_step dg (c, ev))))).
Proof.
  induction dg as [|d dg IH]; intros c ev H; cbn [fold_left]; [exact H|].
  assert (Hstep : dig_step (c, ev) d =
                  if mem (d_id d) (c_nodes c) then (c, ev) else if d_left d then (c, ev)
                  else (set_nodes c (insert (d_id d) (new_node (d_id d) (d_addr d)) (c_nodes c)), ev ++ [EJoin (d_id d)])) by reflexivity.
  rewrite Hstep. destruct (mem (d_id d) (c_nodes c)); [apply IH, H|]. destruct (d_left d); [apply IH, H|].
  apply IH. cbn [c_nodes set_nodes]. apply NoDup_insert. exact H.
Qed.

Lemma apply_delta_entry_nodup nows c de : NoDup (keys (c_nodes c)) -> NoDup (keys (c_nodes (fst (apply_delta_entry nows c de)))).
Proof.
  intros H. unfold apply_delta_entry. destruct (String.eqb (de_id de) (c_local c)); [exact H|].
  destruct (lookup (de_id de) (c_nodes c)) as [st|].
  - destruct (apply_entries _ _ st (de_ents de)). cbn [fst c_nodes set_nodes]. apply NoDup_insert. exact H.
  - destruct (apply_entries _ _ (new_node (de_id de) (de_addr de)) (de_ents de)). cbn [fst c_nodes set_nodes]. apply NoDup_insert. exact H.
Qed.

Lemma delta_fold_nodup nows dl : forall c ev, NoDup (keys (c_nodes c)) -> NoDup (keys (c_nodes (fst (fold_left (delta_step nows) dl (c, ev))))).
Proof.
  induction dl as [|de dl IH]; intros c ev H; cbn [fold_left]; [exact H|].
  assert (Hstep : delta_step nows (c, ev) de = (fst (apply_delta_entry nows c de), ev ++ snd (apply_delta_entry nows c de))).
  { unfold delta_step. destruct (apply_delta_entry nows c de). reflexivity. }
  rewrite Hstep. apply IH. apply apply_delta_entry_nodup, H.
Qed.

Lemma update_liveness_nodup suspect nows c : NoDup (keys (c_nodes c)) -> NoDup (keys (c_nodes (fst (update_liveness suspect nows c)))).
Proof.
  intros H. rewrite update_liveness_nodes. unfold keys. rewrite map_map. cbn [fst]. exact H.
Qed.

(* ---- any sequence of receiver operations on one observer ---- *)
Inductive rop :=
| RDigest (dg : list dig_entry)
| RDelta (nows : amap Z) (dl : list delta_entry)
| RLiveness (suspects : list string) (nows : amap Z)
| RExpire (t : Z).

Definition rstep (c : cstate) (o : rop) : cstate * list event :=
  match o with
  | RDigest dg => apply_digest c dg
  | RDelta nows dl => apply_delta nows c dl
  | RLiveness sus nows => update_liveness (fun id => existsb (String.eqb id) sus) nows c
  | RExpire t => remove_expired t c
  end.

Definition rop_kc (o : rop) : Prop := match o with RDelta _ dl => kc_delta dl | _ => True end.

Fixpoint rrun (c : cstate) (ops : list rop) : cstate * list event :=
  match ops with
  | [] => (c, [])
  | o :: r => let '(c1, ev1) := rstep c o in let '(c2, ev2) := rrun c1 r in (c2, ev1 ++ ev2)
  end.

Record RInv (c : cstate) : Prop := { ri_wf : wf_c c; ri_nd : NoDup (keys (c_nodes c)); ri_kc : kc_c c }.

Lemma rstep_agree c o sh :
  RInv c -> rop_kc o -> agree sh c ->
  RInv (fst (rstep c o)) /\ agree (fold_events sh (snd (rstep c o))) (fst (rstep c o)).
Proof.
  intros [Hw Hn Hk] Ho Hag. destruct o as [dg|nows dl|sus nows|t]; cbn [rstep rop_kc] in *.
  - destruct (apply_digest_agree c dg sh Hk Hag) as [A [B _]]. split; [|exact B].
    constructor; [apply apply_digest_wf, Hw|apply (dig_fold_nodup dg c [] Hn)|exact A].
  - destruct (apply_delta_agree nows c dl sh Hk Ho Hag) as [A [B _]]. split; [|exact B].
    constructor; [apply apply_delta_wf, Hw|apply (delta_fold_nodup nows dl c [] Hn)|exact A].
  - destruct (update_liveness_agree (fun id => existsb (String.eqb id) sus) nows c sh Hw Hn Hk Hag) as [A B]. split; [|exact B].
    constructor; [apply update_liveness_wf, Hw|apply update_liveness_nodup, Hn|exact A].
  - destruct (remove_expired_agree t c sh Hw Hn Hk Hag) as [A B]. split; [|exact B].
    constructor; [apply remove_expired_wf; assumption|cbn; apply NoDup_mfilter, Hn|exact A].
Qed.

Theorem fold_equals_visible ops : forall c sh,
  RInv c -> Forall rop_kc ops -> agree sh c ->
  RInv (fst (rrun c ops)) /\ agree (fold_events sh (snd (rrun c ops))) (fst (rrun c ops)).
Proof.
  induction ops as [|o ops IH]; intros c sh Hi Hops Hag; cbn [rrun]; [auto|].
  inversion Hops as [|? ? Ho Hops']; subst.
  destruct (rstep_agree c o sh Hi Ho Hag) as [Hi1 Hag1].
  destruct (rstep c o) as [c1 ev1]. cbn [fst snd] in *.
  destruct (IH c1 (fold_events sh ev1) Hi1 Hops' Hag1) as [Hi2 Hag2].
  destruct (rrun c1 ops) as [c2 ev2]. cbn [fst snd] in *. rewrite fold_events_app. auto.
Qed.

Lemma RInv_new id addr : RInv (new_cstate id addr) /\ agree [] (new_cstate id addr).
Proof.
  split.
  - constructor; [apply (proj1 (wf_new id addr))|cbn; constructor; [intros []|constructor]|].
    intros k st. cbn. destruct (String.eqb k id); [|discriminate]. intros [= <-]. apply kc_new_node.
  - intros k Hne. cbn in *. destruct (String.eqb k id) eqn:E; [apply String.eqb_eq in E; contradiction|exact I].
Qed.
