(* Every id a node has ever heard of, and every id named in a packet in flight, is the id of a cluster member: without
   forged packets (WInject) ids only travel from node maps into packets and back. Needed by the convergence argument
   (GossipP/WorldRounds.v): whatever node a delta reply starts with, it is a member with a write log. *)
From Coq Require Import List String NArith ZArith Bool Lia.
From Piko Require Import Base.Maps Base.Strs Gossip.Types Gossip.Local Gossip.Apply Gossip.Codec Gossip.World.
From Piko Require Import GossipP.LocalP GossipP.ApplyP GossipP.MemberP GossipP.CodecP GossipP.WorldInv.
Import ListNotations.
Open Scope string_scope. Open Scope list_scope. Open Scope N_scope.

Section Ids.
  Variable ok : string -> Prop.

  Definition c_ids_ok (c : cstate) : Prop := forall id s, lookup id (c_nodes c) = Some s -> ok id.

  Definition body_ids_ok (b : pbody) : Prop :=
    match b with
    | PDigest _ _ _ dg => forall d, In d dg -> ok (d_id d)
    | PDelta _ _ parts => forall pt, In pt parts -> ok (dp_id pt)
    end.

  Definition w_ids_ok (w : world) : Prop :=
    (forall j c, nth_error (w_nodes w) j = Some c -> c_ids_ok c) /\
    (forall p, In p (w_net w) -> body_ids_ok (p_body p)).

  (* ---- the handlers only learn ids from what they are given ---- *)
  Lemma dig_fold_ids dg : forall c ev id s,
    lookup id (c_nodes (fst (fold_left dig_step dg (c, ev)))) = Some s ->
    (exists s', lookup id (c_nodes c) = Some s') \/ (exists d, In d dg /\ d_id d = id).
  Proof.
    induction dg as [|d dg IH]; intros c ev id s H; cbn [fold_left] in H; [left; exists s; exact H|].
    unfold dig_step at 2 in H.
    destruct (mem (d_id d) (c_nodes c)).
    - destruct (IH _ _ _ _ H) as [Hl|[d' [Hd Hi]]]; [left; exact Hl|right; exists d'; split; [right; exact Hd|exact Hi]].
    - destruct (d_left d).
      + destruct (IH _ _ _ _ H) as [Hl|[d' [Hd Hi]]]; [left; exact Hl|right; exists d'; split; [right; exact Hd|exact Hi]].
      + destruct (IH _ _ _ _ H) as [[s' Hl]|[d' [Hd Hi]]]; [|right; exists d'; split; [right; exact Hd|exact Hi]].
        cbn [c_nodes set_nodes] in Hl. rewrite lookup_insert in Hl.
        destruct (String.eqb id (d_id d)) eqn:E.
        * apply String.eqb_eq in E. right. exists d. split; [left; reflexivity|congruence].
        * left. exists s'. exact Hl.
  Qed.

  Lemma apply_digest_ids c dg :
    c_ids_ok c -> (forall d, In d dg -> ok (d_id d)) -> c_ids_ok (fst (apply_digest c dg)).
  Proof.
    intros Hc Hd id s H. rewrite apply_digest_eq in H.
    destruct (dig_fold_ids dg c [] id s H) as [[s' Hl]|[d [Hin Hi]]]; [apply (Hc _ _ Hl)|rewrite <- Hi; apply Hd, Hin].
  Qed.

  Lemma apply_delta_entry_ids nows c de :
    c_ids_ok c -> ok (de_id de) -> c_ids_ok (fst (apply_delta_entry nows c de)).
  Proof.
    intros Hc Hd id s H. rewrite apply_delta_entry_nodes in H.
    destruct (String.eqb (de_id de) (c_local c)); [apply (Hc _ _ H)|].
    rewrite lookup_insert in H. destruct (String.eqb id (de_id de)) eqn:E; [|apply (Hc _ _ H)].
    apply String.eqb_eq in E. subst id. exact Hd.
  Qed.

  Lemma delta_fold_ids nows dl : forall c ev,
    c_ids_ok c -> (forall de, In de dl -> ok (de_id de)) -> c_ids_ok (fst (fold_left (delta_step nows) dl (c, ev))).
  Proof.
    induction dl as [|de dl IH]; intros c ev Hc Hd; cbn [fold_left]; [exact Hc|].
    assert (Hs : delta_step nows (c, ev) de = (fst (apply_delta_entry nows c de), ev ++ snd (apply_delta_entry nows c de))).
    { unfold delta_step. destruct (apply_delta_entry nows c de). reflexivity. }
    rewrite Hs. apply IH.
    - apply apply_delta_entry_ids; [exact Hc|apply Hd; left; reflexivity].
    - intros de' Hin. apply Hd. right. exact Hin.
  Qed.

  Lemma apply_delta_ids nows c dl :
    c_ids_ok c -> (forall de, In de dl -> ok (de_id de)) -> c_ids_ok (fst (apply_delta nows c dl)).
  Proof. intros Hc Hd. unfold apply_delta. apply delta_fold_ids; assumption. Qed.

  Lemma update_liveness_ids suspect nows c : c_ids_ok c -> c_ids_ok (fst (update_liveness suspect nows c)).
  Proof.
    intros Hc id s H. rewrite update_liveness_nodes in H.
    rewrite (lookup_map_nodes (fun s0 => fst (liveness_node (c_local c) suspect nows s0))) in H.
    destruct (lookup id (c_nodes c)) as [s'|] eqn:E; [|discriminate]. apply (Hc _ _ E).
  Qed.

  (* ---- packets are made of what the sender knows ---- *)
  Lemma digest_packet_ids c dst req order max p :
    wf_c c -> c_ids_ok c -> make_digest_packet c dst req order max = Some p -> body_ids_ok (p_body p).
  Proof.
    intros Hw Hc Hm. destruct (make_digest_packet_body _ _ _ _ _ _ Hm) as [_ [me [dg [_ [Hb Hd]]]]].
    rewrite Hb. cbn [body_ids_ok]. intros d Hin.
    destruct (digest_in_order_entries c order dg Hw Hd d Hin) as [s [Hl _]]. apply (Hc _ _ Hl).
  Qed.

  Lemma delta_for_ids c dg de : wf_c c -> c_ids_ok c -> In de (delta_for c dg) -> ok (de_id de).
  Proof.
    intros Hw Hc Hin. destruct (delta_for_entries c dg de Hw Hin) as [d [s [_ [Hl [_ Hid]]]]].
    rewrite Hid. apply (Hc _ _ Hl).
  Qed.

  Lemma delta_packet_ids c dst dl max p :
    (forall de, In de dl -> ok (de_id de)) -> make_delta_packet c dst dl max = Some p -> body_ids_ok (p_body p).
  Proof.
    intros Hd Hm. destruct (make_delta_packet_parts _ _ _ _ _ Hm) as [_ [fid [faddr [parts [Hb Hcut]]]]].
    rewrite Hb. cbn [body_ids_ok]. intros pt Hin.
    destruct (delta_cut_parts dl parts Hcut pt Hin) as [de [Hde [Hid _]]]. rewrite Hid. apply Hd, Hde.
  Qed.

  Lemma delta_extras_ids c order de : wf_c c -> c_ids_ok c -> In de (delta_extras c order) -> ok (de_id de).
  Proof.
    intros Hw Hc Hin. unfold delta_extras in Hin. apply in_flat_map in Hin as [id [_ Hin]].
    destruct (lookup id (c_nodes c)) as [s|] eqn:E; [|destruct Hin]. destruct Hin as [<-|[]].
    cbn [de_id delta_entry_of]. rewrite (Hw _ _ E). apply (Hc _ _ E).
  Qed.

  Lemma digest_of_ids c d : wf_c c -> NoDup (keys (c_nodes c)) -> c_ids_ok c -> In d (digest_of c) -> ok (d_id d).
  Proof.
    intros Hw Hnd Hc Hin. unfold digest_of in Hin. apply in_map_iff in Hin as [s [<- Hs]].
    apply In_values in Hs as [k Hk]. pose proof (In_lookup k s _ Hnd Hk) as Hl.
    cbn [d_id dig_of_node]. rewrite (Hw _ _ Hl). apply (Hc _ _ Hl).
  Qed.

  (* ---- every allowed step keeps the ids inside the cluster ---- *)
  Definition nodes_wf (w : world) : Prop :=
    forall j c, nth_error (w_nodes w) j = Some c -> wf_c c /\ NoDup (keys (c_nodes c)) /\ ok (c_local c).

  Lemma set_nth_ids (nodes : list cstate) d c' :
    (forall j c, nth_error nodes j = Some c -> c_ids_ok c) -> c_ids_ok c' ->
    forall j c, nth_error (set_nth d c' nodes) j = Some c -> c_ids_ok c.
  Proof.
    intros Hn Hc j c H. rewrite nth_error_set_nth in H. destruct (Nat.eqb d j); [|apply (Hn _ _ H)].
    destruct (nth_error nodes j); [|discriminate]. injection H as <-. exact Hc.
  Qed.

  Lemma parts_ids parts :
    (forall pt, In pt parts -> ok (dp_id pt)) -> forall de, In de (map part_to_delta parts) -> ok (de_id de).
  Proof. intros H de Hin. apply in_map_iff in Hin as [pt [<- Hpt]]. cbn [de_id part_to_delta]. apply H, Hpt. Qed.

  Lemma handle_ids c b max nows order :
    wf_c c -> c_ids_ok c -> body_ids_ok b ->
    c_ids_ok (h_state (handle_packet c b max nows order)) /\
    (forall p', In p' (h_out (handle_packet c b max nows order)) -> body_ids_ok (p_body p')).
  Proof.
    intros Hw Hc Hb. split.
    - rewrite handle_state. destruct b as [fid faddr req dg|fid faddr parts]; cbn [body_ids_ok] in Hb.
      + apply apply_digest_ids; assumption.
      + apply apply_delta_ids; [exact Hc|apply parts_ids, Hb].
    - intros p' Hin. pose proof (handle_out c b max nows order p' Hin) as Ho.
      destruct b as [fid faddr req dg|fid faddr parts]; [|destruct Ho]. cbn [body_ids_ok] in Hb. cbn zeta in Ho.
      assert (Hw1 : wf_c (fst (apply_digest c dg))) by (apply apply_digest_wf, Hw).
      assert (Hc1 : c_ids_ok (fst (apply_digest c dg))) by (apply apply_digest_ids; assumption).
      destruct Ho as [Ho|Ho].
      + apply (delta_packet_ids _ _ _ _ _ (fun de Hde => delta_for_ids _ dg de Hw1 Hc1 Hde) Ho).
      + apply (digest_packet_ids _ _ _ _ _ _ Hw1 Hc1 Ho).
  Qed.

  Lemma w_ids_ok_step w o : w_ids_ok w -> nodes_wf w -> allowed o -> w_ids_ok (so_world (wstep w o)).
  Proof.
    intros [Hn Hp] Hwf Ha. destruct o; cbn [allowed] in Ha; try contradiction; cbn [wstep].
    - (* local write *)
      unfold local_update. destruct (nth_error (w_nodes w) n) as [c|] eqn:En; [|split; assumption].
      destruct (local_node c) as [me|] eqn:Eme; [|split; assumption]. cbn [so_world plain]. split; cbn [w_nodes w_net]; [|exact Hp].
      apply set_nth_ids; [exact Hn|]. intros id s H. cbn [c_nodes set_nodes] in H. rewrite lookup_insert in H.
      destruct (String.eqb id (c_local c)) eqn:E; [apply String.eqb_eq in E; subst id; apply (Hwf _ _ En)|apply (Hn _ _ En _ _ H)].
    - (* send *)
      destruct (nth_error (w_nodes w) a) as [ca|] eqn:Ea; [|split; assumption].
      destruct (nth_error (w_nodes w) b) as [cb|]; [|split; assumption].
      destruct (local_node cb) as [sb|]; [|split; assumption].
      destruct (make_digest_packet ca (n_addr sb) true order max) as [p|] eqn:Em; cbn [so_world]; [|split; assumption].
      split; cbn [w_nodes w_net with_nodes]; [exact Hn|]. intros p' Hin. apply in_app_or in Hin as [Hin|[<-|[]]]; [apply Hp, Hin|].
      apply (digest_packet_ids _ _ _ _ _ _ (proj1 (Hwf _ _ Ea)) (Hn _ _ Ea) Em).
    - (* deliver *)
      destruct (nth_error (w_net w) i) as [p|] eqn:Ep; [|split; assumption].
      assert (Hnet' : forall p', In p' (if keep then w_net w else remove_nth i (w_net w)) -> body_ids_ok (p_body p')).
      { intros p' Hin. destruct keep; [apply Hp, Hin|apply Hp, (In_remove_nth _ _ _ Hin)]. }
      destruct (find_node_by_addr (w_nodes w) (p_dst p)) as [d|]; [|cbn [so_world plain]; split; cbn [w_nodes w_net with_nodes]; assumption].
      destruct (nth_error (w_nodes w) d) as [c|] eqn:Ed; [|split; assumption]. cbn [so_world].
      destruct (handle_ids c (p_body p) max nows order (proj1 (Hwf _ _ Ed)) (Hn _ _ Ed) (Hp _ (nth_error_In _ _ Ep))) as [H1 H2].
      split; cbn [w_nodes w_net with_nodes].
      + apply set_nth_ids; assumption.
      + intros p' Hin. apply in_app_or in Hin as [Hin|Hin]; [apply Hnet', Hin|apply H2, Hin].
    - (* drop *)
      cbn [so_world plain]. split; cbn [w_nodes w_net with_nodes]; [exact Hn|]. intros p' Hin. apply Hp, (In_remove_nth _ _ _ Hin).
    - split; assumption.
    - (* liveness *)
      destruct (nth_error (w_nodes w) n) as [c|] eqn:En; [|split; assumption].
      pose proof (update_liveness_ids (fun id0 => existsb (String.eqb id0) suspects) nows c (Hn _ _ En)) as H.
      destruct (update_liveness _ nows c) as [c' ev]. cbn [fst so_world] in *. split; cbn [w_nodes w_net with_nodes]; [|exact Hp].
      apply set_nth_ids; assumption.
    - (* join stream *)
      destruct (Nat.eqb a b); [split; assumption|].
      destruct (nth_error (w_nodes w) a) as [ca|] eqn:Ea; [|split; assumption].
      destruct (nth_error (w_nodes w) b) as [cb|] eqn:Eb; [|split; assumption].
      destruct (local_node ca) as [ma|] eqn:Ema; [|split; assumption].
      destruct (Hwf _ _ Ea) as [Hwa [Hnda Hoka]]. destruct (Hwf _ _ Eb) as [Hwb [Hndb Hokb]].
      assert (Hma : ok (de_id (delta_entry_of ma 0))).
      { cbn [de_id delta_entry_of]. unfold local_node in Ema. rewrite (Hwa _ _ Ema). exact Hoka. }
      pose proof (apply_delta_ids nows_b cb [delta_entry_of ma 0] (Hn _ _ Eb) ltac:(intros de [<-|[]]; exact Hma)) as H1.
      pose proof (apply_delta_wf nows_b cb [delta_entry_of ma 0] Hwb) as W1.
      destruct (apply_delta nows_b cb [delta_entry_of ma 0]) as [cb1 ev1]. cbn [fst] in H1, W1.
      pose proof (apply_digest_ids cb1 (digest_of ca) H1 (fun d Hd => digest_of_ids ca d Hwa Hnda (Hn _ _ Ea) Hd)) as H2.
      pose proof (apply_digest_wf cb1 (digest_of ca) W1) as W2.
      destruct (apply_digest cb1 (digest_of ca)) as [cb2 ev2]. cbn [fst] in H2, W2.
      pose proof (apply_delta_ids nows_a ca (delta_for cb2 (digest_of ca) ++ delta_extras cb2 (extras_ids cb2 (digest_of ca))) (Hn _ _ Ea)) as H3.
      destruct (apply_delta nows_a ca _) as [ca1 ev3]. cbn [fst so_world] in *. split; cbn [w_nodes w_net with_nodes]; [|exact Hp].
      apply set_nth_ids; [apply set_nth_ids; [exact Hn|exact H2]|]. apply H3.
      intros de Hin. apply in_app_or in Hin as [Hin|Hin]; [apply (delta_for_ids _ _ _ W2 H2 Hin)|apply (delta_extras_ids _ _ _ W2 H2 Hin)].
    - (* leave stream *)
      destruct (Nat.eqb a b); [split; assumption|].
      destruct (nth_error (w_nodes w) a) as [ca|] eqn:Ea; [|split; assumption].
      destruct (nth_error (w_nodes w) b) as [cb|] eqn:Eb; [|split; assumption].
      destruct (local_node ca) as [ma|] eqn:Ema; [|split; assumption].
      destruct (Hwf _ _ Ea) as [Hwa [_ Hoka]].
      assert (Hma : ok (de_id (delta_entry_of ma 0))).
      { cbn [de_id delta_entry_of]. unfold local_node in Ema. rewrite (Hwa _ _ Ema). exact Hoka. }
      pose proof (apply_delta_ids nows cb [delta_entry_of ma 0] (Hn _ _ Eb) ltac:(intros de [<-|[]]; exact Hma)) as H1.
      destruct (apply_delta nows cb [delta_entry_of ma 0]) as [cb1 ev1]. cbn [fst so_world] in *. split; cbn [w_nodes w_net with_nodes]; [|exact Hp].
      apply set_nth_ids; assumption.
  Qed.
End Ids.
