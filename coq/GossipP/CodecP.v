(* Proofs about the wire encoder model (Gossip/Codec.v): size limit, prefix structure, maximality. *)
From Coq Require Import List String NArith ZArith Bool Lia.
From Piko Require Import Base.Maps Base.Strs Gossip.Types Gossip.Codec.
Import ListNotations.
Open Scope list_scope. Open Scope N_scope.

Lemma blen_app a b : blen (a ++ b) = blen a + blen b.
Proof. unfold blen. rewrite app_length. lia. Qed.

Definition total {A} (enc : A -> bytes) (l : list A) : N := blen (flat_map enc l).

Lemma total_cons {A} (enc : A -> bytes) x l : total enc (x :: l) = blen (enc x) + total enc l.
Proof. unfold total. cbn [flat_map]. apply blen_app. Qed.

Lemma total_nil {A} (enc : A -> bytes) : total enc [] = 0.
Proof. reflexivity. Qed.

Definition is_prefix {A} (p l : list A) : Prop := exists r, l = p ++ r.

(* ---- take_fit ---- *)
Lemma take_fit_spec {A} (enc : A -> bytes) max used items :
  let '(taken, u) := take_fit enc max used items in
  exists rest, items = taken ++ rest /\ u = used + total enc taken /\
               (used <= max -> u <= max) /\
               match rest with [] => True | x :: _ => max < u + blen (enc x) end.
Proof.
  revert used. induction items as [|x r IH]; intros used; cbn [take_fit].
  - exists []. rewrite total_nil. repeat split; auto; lia.
  - destruct (max <? used + blen (enc x)) eqn:E.
    + exists (x :: r). rewrite total_nil. apply N.ltb_lt in E. repeat split; auto; lia.
    + apply N.ltb_ge in E. specialize (IH (used + blen (enc x))).
      destruct (take_fit enc max (used + blen (enc x)) r) as [l u].
      destruct IH as [rest [H1 [H2 [H3 H4]]]]. exists rest. rewrite total_cons. subst r.
      repeat split; auto; lia.
Qed.

Lemma take_fit_prefix {A} (enc : A -> bytes) max used items :
  is_prefix (fst (take_fit enc max used items)) items.
Proof.
  pose proof (take_fit_spec enc max used items) as H. destruct (take_fit enc max used items) as [t u].
  destruct H as [rest [H _]]. exists rest. exact H.
Qed.

Lemma take_fit_first {A} (enc : A -> bytes) max used x r :
  used + blen (enc x) <= max -> exists t, fst (take_fit enc max used (x :: r)) = x :: t.
Proof.
  intros H. cbn [take_fit]. apply N.ltb_ge in H. rewrite H.
  destruct (take_fit enc max (used + blen (enc x)) r) as [l u]. exists l. reflexivity.
Qed.

(* ---- digests ---- *)
Theorem encode_digest_size id addr req dg max b :
  encode_digest id addr req dg max = Some b -> blen b <= max.
Proof.
  unfold encode_digest, cut_digest.
  destruct (max <? blen (digest_prefix id addr req)) eqn:E; [discriminate|]. apply N.ltb_ge in E.
  intros [= <-]. unfold encode_digest_full. rewrite blen_app.
  pose proof (take_fit_spec enc_dig_entry max (blen (digest_prefix id addr req)) dg) as H.
  destruct (take_fit enc_dig_entry max (blen (digest_prefix id addr req)) dg) as [t u]. cbn [fst].
  destruct H as [rest [_ [H2 [H3 _]]]]. specialize (H3 E). unfold total in H2. lia.
Qed.

Theorem encode_digest_prefix id addr req dg max b :
  encode_digest id addr req dg max = Some b ->
  exists sent rest, dg = sent ++ rest /\ b = encode_digest_full id addr req sent /\
    match rest with [] => True | x :: _ => max < blen b + blen (enc_dig_entry x) end.
Proof.
  unfold encode_digest, cut_digest.
  destruct (max <? blen (digest_prefix id addr req)) eqn:E; [discriminate|].
  intros [= <-].
  pose proof (take_fit_spec enc_dig_entry max (blen (digest_prefix id addr req)) dg) as H.
  destruct (take_fit enc_dig_entry max (blen (digest_prefix id addr req)) dg) as [t u]. cbn [fst].
  destruct H as [rest [H1 [H2 [_ H4]]]]. exists t, rest. split; [exact H1|]. split; [reflexivity|].
  unfold encode_digest_full. rewrite blen_app. unfold total in H2. rewrite <- H2. exact H4.
Qed.

Theorem encode_digest_error id addr req dg max :
  encode_digest id addr req dg max = None <-> max < blen (digest_prefix id addr req).
Proof.
  unfold encode_digest, cut_digest. destruct (max <? blen (digest_prefix id addr req)) eqn:E.
  - apply N.ltb_lt in E. tauto.
  - apply N.ltb_ge in E. split; [discriminate|lia].
Qed.

(* ---- deltas ---- *)
(* shape of what a delta packet carries, relative to the intended delta [dl]:
   complete nodes, then possibly one node with a strict prefix of its entries, nothing after *)
Inductive delta_cut : list delta_entry -> list delta_part -> Prop :=
| dc_nil dl : delta_cut dl []
| dc_full de dl ps :
    delta_cut dl ps ->
    delta_cut (de :: dl) ({| dp_id := de_id de; dp_addr := de_addr de;
                             dp_count := N.of_nat (List.length (de_ents de)); dp_ents := de_ents de |} :: ps)
| dc_partial de dl es :
    is_prefix es (de_ents de) -> (List.length es < List.length (de_ents de))%nat ->
    delta_cut (de :: dl) [{| dp_id := de_id de; dp_addr := de_addr de;
                             dp_count := N.of_nat (List.length (de_ents de)); dp_ents := es |}].

Definition parts_size (ps : list delta_part) : N := total enc_part ps.

Lemma enc_part_size p :
  blen (enc_part p) = blen (enc_delta_header (dp_id p) (dp_addr p) (dp_count p)) + total enc_entry (dp_ents p).
Proof. unfold enc_part. rewrite blen_app. reflexivity. Qed.

Lemma cut_delta_from_spec max used dl :
  used <= max ->
  let ps := cut_delta_from max used dl in
  delta_cut dl ps /\ used + parts_size ps <= max.
Proof.
  revert used. induction dl as [|de r IH]; intros used Hu; cbn [cut_delta_from].
  - split; [constructor|]. unfold parts_size. rewrite total_nil. lia.
  - set (cnt := N.of_nat (List.length (de_ents de))).
    destruct (max <? used + blen (enc_delta_header (de_id de) (de_addr de) cnt)) eqn:E.
    + split; [constructor|]. unfold parts_size. rewrite total_nil. lia.
    + apply N.ltb_ge in E.
      pose proof (take_fit_spec enc_entry max (used + blen (enc_delta_header (de_id de) (de_addr de) cnt)) (de_ents de)) as H.
      destruct (take_fit enc_entry max (used + blen (enc_delta_header (de_id de) (de_addr de) cnt)) (de_ents de)) as [es u2].
      destruct H as [rest [H1 [H2 [H3 H4]]]]. specialize (H3 E).
      destruct (Nat.ltb (List.length es) (List.length (de_ents de))) eqn:El.
      * apply Nat.ltb_lt in El. split.
        -- apply dc_partial; [exists rest; exact H1|exact El].
        -- unfold parts_size. rewrite total_cons, total_nil, enc_part_size. cbn [dp_id dp_addr dp_count dp_ents]. lia.
      * apply Nat.ltb_ge in El.
        assert (Hes : es = de_ents de).
        { rewrite H1 in El. rewrite app_length in El. destruct rest; [rewrite app_nil_r in H1; auto|cbn in El; lia]. }
        subst es. destruct (IH u2 H3) as [IH1 IH2]. split.
        -- apply dc_full. exact IH1.
        -- unfold parts_size in *. rewrite total_cons, enc_part_size. cbn [dp_id dp_addr dp_count dp_ents]. lia.
Qed.

Theorem encode_delta_size id addr dl max b :
  encode_delta id addr dl max = Some b -> blen b <= max.
Proof.
  unfold encode_delta, cut_delta. destruct (max <? blen (delta_prefix id addr)) eqn:E; [discriminate|].
  apply N.ltb_ge in E. intros [= <-]. unfold encode_delta_full. rewrite blen_app.
  destruct (cut_delta_from_spec max (blen (delta_prefix id addr)) dl E) as [_ H]. exact H.
Qed.

Theorem encode_delta_prefix id addr dl max b :
  encode_delta id addr dl max = Some b ->
  exists parts, delta_cut dl parts /\ b = encode_delta_full id addr parts.
Proof.
  unfold encode_delta, cut_delta. destruct (max <? blen (delta_prefix id addr)) eqn:E; [discriminate|].
  apply N.ltb_ge in E. intros [= <-]. exists (cut_delta_from max (blen (delta_prefix id addr)) dl).
  split; [|reflexivity]. apply (cut_delta_from_spec max (blen (delta_prefix id addr)) dl E).
Qed.

(* at least one entry whenever header + first node header + its first entry fit *)
Theorem encode_delta_at_least_one id addr de e es dl max :
  de_ents de = e :: es ->
  blen (delta_prefix id addr) + blen (enc_delta_header (de_id de) (de_addr de) (N.of_nat (List.length (de_ents de))))
    + blen (enc_entry e) <= max ->
  exists p ps t, cut_delta id addr (de :: dl) max = Some (p :: ps) /\ dp_id p = de_id de /\ dp_ents p = e :: t.
Proof.
  destruct de as [i a ents]. cbn [de_ents de_id de_addr]. intros -> Hfit. unfold cut_delta.
  destruct (max <? blen (delta_prefix id addr)) eqn:E; [apply N.ltb_lt in E; lia|].
  cbn [cut_delta_from de_ents de_id de_addr].
  destruct (max <? blen (delta_prefix id addr) + blen (enc_delta_header i a (N.of_nat (List.length (e :: es))))) eqn:E2;
    [apply N.ltb_lt in E2; lia|].
  destruct (take_fit_first enc_entry max (blen (delta_prefix id addr) + blen (enc_delta_header i a (N.of_nat (List.length (e :: es))))) e es) as [t Ht]; [lia|].
  destruct (take_fit enc_entry max _ (e :: es)) as [l u] eqn:Et. cbn [fst] in Ht. subst l.
  destruct (Nat.ltb (List.length (e :: t)) (List.length (e :: es))); eexists; eexists; exists t; (split; [reflexivity|split; reflexivity]).
Qed.

(* maximality of the cut inside a node: the first entry left out would not have fitted *)
Theorem take_fit_maximal {A} (enc : A -> bytes) max used items taken u x rest :
  take_fit enc max used items = (taken, u) -> items = taken ++ x :: rest -> max < u + blen (enc x).
Proof.
  intros Ht Hi. pose proof (take_fit_spec enc max used items) as H. rewrite Ht in H.
  destruct H as [rest' [H1 [_ [_ H4]]]]. rewrite Hi in H1. apply app_inv_head in H1. subst rest'. exact H4.
Qed.
