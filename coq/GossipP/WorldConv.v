(* C03 at the level of the whole cluster: without local writes no step of the world increases the total
   deficit (loss, duplication, reordering, truncation, relays and streams included). *)
From Coq Require Import List String NArith ZArith Bool Lia Permutation.
From Piko Require Import Base.Maps Base.Strs Gossip.Types Gossip.Local Gossip.Apply Gossip.Codec Gossip.World.
From Piko Require Import GossipP.LocalP GossipP.ApplyP GossipP.WatchP GossipP.MemberP GossipP.Valid GossipP.ApplyValid
     GossipP.CodecP GossipP.ConvergeP GossipP.WorldInv.
Import ListNotations.
Open Scope string_scope. Open Scope list_scope. Open Scope N_scope.

(* version of [id] reported by node a (0 when unknown) *)
Definition node_ver (w : world) (a : nat) (id : string) : N :=
  match nth_error (w_nodes w) a with Some c => ver_of c id | None => 0 end.

Lemma rstep_ver_mono c o id : (forall t, o <> RExpire t) -> ver_of c id <= ver_of (fst (rstep c o)) id.
Proof.
  intros Hne. unfold ver_of at 1. destruct (lookup id (c_nodes c)) as [s|] eqn:E; [|lia].
  assert (Hk : known c id) by (unfold known; rewrite E; discriminate).
  pose proof (proj2 (version_never_backwards c o id Hk Hne)) as H. unfold ver_of at 1 in H. rewrite E in H. exact H.
Qed.

Lemma digest_ver_mono c dg id : ver_of c id <= ver_of (fst (apply_digest c dg)) id.
Proof. apply (rstep_ver_mono c (RDigest dg) id). intros t; discriminate. Qed.

Lemma delta_ver_mono nows c dl id : ver_of c id <= ver_of (fst (apply_delta nows c dl)) id.
Proof. apply (rstep_ver_mono c (RDelta nows dl) id). intros t; discriminate. Qed.

Lemma node_ver_set_nth w d c' net a id :
  node_ver (with_nodes w (set_nth d c' (w_nodes w)) net) a id =
  if Nat.eqb d a then (match nth_error (w_nodes w) a with Some _ => ver_of c' id | None => 0 end) else node_ver w a id.
Proof.
  unfold node_ver. cbn [w_nodes with_nodes]. rewrite nth_error_set_nth. destruct (Nat.eqb d a); [|reflexivity].
  destruct (nth_error (w_nodes w) a); reflexivity.
Qed.

Lemma local_step_ver s o : n_ver s <= n_ver (local_step s o).
Proof. apply version_monotone. Qed.

(* every allowed step: reported versions never move backwards, anywhere *)
Theorem wstep_ver_mono w o a id : allowed o -> node_ver w a id <= node_ver (so_world (wstep w o)) a id.
Proof.
  intros Ha. destruct o; cbn [allowed] in Ha; try contradiction; cbn [wstep].
  - (* local write *)
    unfold local_update. destruct (nth_error (w_nodes w) n) as [c|] eqn:En; [|cbn [so_world plain]; apply N.le_refl].
    destruct (local_node c) as [me|] eqn:Eme; [|cbn [so_world plain]; apply N.le_refl]. cbn [so_world plain]. unfold node_ver. cbn [w_nodes].
    rewrite nth_error_set_nth. destruct (Nat.eqb n a) eqn:E; [|lia]. apply Nat.eqb_eq in E. subst a. rewrite En.
    unfold ver_of. cbn [c_nodes set_nodes]. rewrite lookup_insert. destruct (String.eqb id (c_local c)) eqn:E2; [|lia].
    apply String.eqb_eq in E2. subst id. unfold local_node in Eme. rewrite Eme. apply local_step_ver.
  - destruct (nth_error (w_nodes w) a0); [|cbn [so_world plain]; apply N.le_refl]. destruct (nth_error (w_nodes w) b); [|cbn [so_world plain]; apply N.le_refl].
    destruct (local_node c0); [|cbn [so_world plain]; apply N.le_refl]. destruct (make_digest_packet c (n_addr n) true order max); cbn [so_world]; unfold node_ver; cbn [w_nodes with_nodes]; apply N.le_refl.
  - destruct (nth_error (w_net w) i) as [p|]; [|cbn [so_world plain]; apply N.le_refl].
    destruct (find_node_by_addr (w_nodes w) (p_dst p)) as [d|]; [|cbn [so_world plain]; apply N.le_refl].
    destruct (nth_error (w_nodes w) d) as [c|] eqn:Ed; [|cbn [so_world plain]; apply N.le_refl]. cbn [so_world]. rewrite node_ver_set_nth.
    destruct (Nat.eqb d a) eqn:E; [|lia]. apply Nat.eqb_eq in E. subst a. unfold node_ver. rewrite Ed, handle_state.
    destruct (p_body p); [apply digest_ver_mono|apply delta_ver_mono].
  - cbn [so_world plain]. unfold node_ver. cbn [w_nodes with_nodes]. apply N.le_refl.
  - cbn [so_world plain]. unfold node_ver. cbn [w_nodes with_nodes]. apply N.le_refl.
  - destruct (nth_error (w_nodes w) n) as [c|] eqn:En; [|cbn [so_world plain]; apply N.le_refl].
    pose proof (rstep_ver_mono c (RLiveness suspects nows) id ltac:(intros t; discriminate)) as H. cbn [rstep] in H.
    destruct (update_liveness (fun id0 => existsb (String.eqb id0) suspects) nows c) as [c' ev]. cbn [so_world fst] in *.
    rewrite node_ver_set_nth. destruct (Nat.eqb n a) eqn:E; [|lia]. apply Nat.eqb_eq in E. subst a. unfold node_ver. rewrite En. exact H.
  - destruct (Nat.eqb a0 b) eqn:Eab; [cbn [so_world plain]; apply N.le_refl|]. apply Nat.eqb_neq in Eab.
    destruct (nth_error (w_nodes w) a0) as [ca|] eqn:Ea; [|cbn [so_world plain]; apply N.le_refl]. destruct (nth_error (w_nodes w) b) as [cb|] eqn:Eb; [|cbn [so_world plain]; apply N.le_refl].
    destruct (local_node ca) as [ma|]; [|cbn [so_world plain]; apply N.le_refl].
    pose proof (delta_ver_mono nows_b cb [delta_entry_of ma 0] id) as H1.
    destruct (apply_delta nows_b cb [delta_entry_of ma 0]) as [cb1 ev1]. cbn [fst] in H1.
    pose proof (digest_ver_mono cb1 (digest_of ca) id) as H2.
    destruct (apply_digest cb1 (digest_of ca)) as [cb2 ev2]. cbn [fst] in H2.
    pose proof (delta_ver_mono nows_a ca (delta_for cb2 (digest_of ca) ++ delta_extras cb2 (extras_ids cb2 (digest_of ca))) id) as H3.
    destruct (apply_delta nows_a ca _) as [ca1 ev3]. cbn [fst so_world] in *.
    unfold node_ver. cbn [w_nodes with_nodes]. rewrite !nth_error_set_nth.
    destruct (Nat.eqb a0 a) eqn:E1.
    + apply Nat.eqb_eq in E1. subst a. assert (Hba : Nat.eqb b a0 = false) by (apply Nat.eqb_neq; congruence). rewrite Hba, Ea. exact H3.
    + destruct (Nat.eqb b a) eqn:E2; [|lia]. apply Nat.eqb_eq in E2. subst a. rewrite Eb. lia.
  - destruct (Nat.eqb a0 b); [cbn [so_world plain]; apply N.le_refl|].
    destruct (nth_error (w_nodes w) a0) as [ca|]; [|cbn [so_world plain]; apply N.le_refl]. destruct (nth_error (w_nodes w) b) as [cb|] eqn:Eb; [|cbn [so_world plain]; apply N.le_refl].
    destruct (local_node ca) as [ma|]; [|cbn [so_world plain]; apply N.le_refl].
    pose proof (delta_ver_mono nows cb [delta_entry_of ma 0] id) as H1.
    destruct (apply_delta nows cb [delta_entry_of ma 0]) as [cb1 ev1]. cbn [fst so_world] in *.
    rewrite node_ver_set_nth. destruct (Nat.eqb b a) eqn:E; [|lia]. apply Nat.eqb_eq in E. subst a. unfold node_ver. rewrite Eb. exact H1.
Qed.

(* only local writes touch the logs *)
Lemma wstep_log w o id : (forall n lo, o <> WLocal n lo) -> log_of (so_world (wstep w o)) id = log_of w id.
Proof.
  intros Hnl. destruct o; cbn [wstep]; try reflexivity.
  - exfalso. apply (Hnl n o). reflexivity.
  - destruct (nth_error (w_nodes w) a); [|reflexivity]. destruct (nth_error (w_nodes w) b); [|reflexivity].
    destruct (local_node c0); [|reflexivity]. destruct (make_digest_packet c (n_addr n) true order max); reflexivity.
  - destruct (nth_error (w_net w) i) as [p|]; [|reflexivity].
    destruct (find_node_by_addr (w_nodes w) (p_dst p)); [|reflexivity]. destruct (nth_error (w_nodes w) n); reflexivity.
  - destruct (nth_error (w_nodes w) n); [|reflexivity]. destruct (handle_packet c b max nows order); reflexivity.
  - destruct (nth_error (w_nodes w) n); [|reflexivity]. destruct (update_liveness _ nows c). reflexivity.
  - destruct (nth_error (w_nodes w) n); [|reflexivity]. destruct (remove_expired t c). reflexivity.
  - destruct (Nat.eqb a b); [reflexivity|]. destruct (nth_error (w_nodes w) a); [|reflexivity]. destruct (nth_error (w_nodes w) b); [|reflexivity].
    destruct (local_node c); [|reflexivity]. destruct (apply_delta nows_b c0 _). destruct (apply_digest c1 _). destruct (apply_delta nows_a c _). reflexivity.
  - destruct (Nat.eqb a b); [reflexivity|]. destruct (nth_error (w_nodes w) a); [|reflexivity]. destruct (nth_error (w_nodes w) b); [|reflexivity].
    destruct (local_node c); [|reflexivity]. destruct (apply_delta nows c0 _). reflexivity.
Qed.

(* ---- the total deficit ---- *)
Definition pair_deficit (w : world) (a : nat) (id : string) : nat := deficit (log_of w id) (node_ver w a id).

Fixpoint sum_nat (l : list nat) : nat := match l with [] => 0%nat | x :: r => (x + sum_nat r)%nat end.

(* Psi over a set of observer indices and owner ids *)
Definition Psi (obs : list nat) (ids : list string) (w : world) : nat :=
  sum_nat (flat_map (fun a => map (fun id => pair_deficit w a id) ids) obs).

Lemma sum_nat_le (l1 l2 : list nat) : Forall2 le l1 l2 -> (sum_nat l1 <= sum_nat l2)%nat.
Proof. induction 1; cbn; lia. Qed.

Theorem Psi_no_regress obs ids w o :
  allowed o -> (forall n lo, o <> WLocal n lo) -> (Psi obs ids (so_world (wstep w o)) <= Psi obs ids w)%nat.
Proof.
  intros Ha Hnl. unfold Psi. apply sum_nat_le.
  induction obs as [|a obs IH]; cbn [flat_map]; [constructor|]. apply Forall2_app; [|exact IH].
  clear IH. induction ids as [|id ids IH]; cbn [map]; constructor; [|exact IH].
  unfold pair_deficit. rewrite (wstep_log w o id Hnl). apply deficit_mono, wstep_ver_mono, Ha.
Qed.

Lemma cut_delta_cut id addr dl max parts : cut_delta id addr dl max = Some parts -> delta_cut dl parts.
Proof.
  unfold cut_delta. destruct (max <? blen (delta_prefix id addr)) eqn:E; [discriminate|]. apply N.ltb_ge in E.
  intros [= <-]. apply (CodecP.cut_delta_from_spec max (blen (delta_prefix id addr)) dl E).
Qed.

Lemma delta_cut_head de dl p ps : delta_cut (de :: dl) (p :: ps) -> dp_id p = de_id de /\ is_prefix_of (dp_ents p) (de_ents de).
Proof.
  intros H. inversion H as [|? ? ? Hd'|? ? ? Hp' Hl']; subst; cbn [dp_id dp_ents].
  - split; [reflexivity|]. exists []. rewrite app_nil_r. reflexivity.
  - split; [reflexivity|exact Hp'].
Qed.

(* ---- one exchange makes progress (composition of the real handler functions) ----
   a sent a digest carrying its exact current version va of node y; b's reply delta starts with y's part, cut from
   b's valid state S of y, and the first missing entry fits the packet; a applies what the packet carries. Then a's
   deficit for y strictly decreases (and, by Psi_no_regress, nothing else regresses). *)
Theorem exchange_makes_progress O L nows ca y B S e es rest id addr max parts :
  OwnInv O L -> c_local ca <> y ->
  lookup y (c_nodes ca) = Some B -> Valid B O L -> Valid S O L -> n_id S = y ->
  de_ents (delta_entry_of S (n_ver B)) = e :: es ->
  blen (delta_prefix id addr) + blen (enc_delta_header (n_id S) (n_addr S) (N.of_nat (List.length (e :: es))))
    + blen (enc_entry e) <= max ->
  cut_delta id addr (delta_entry_of S (n_ver B) :: rest) max = Some parts ->
  (deficit L (ver_of (fst (apply_delta nows ca (map part_to_delta parts))) y) < deficit L (ver_of ca y))%nat.
Proof.
  intros HO Hloc HB HVB HVS Hid Hents Hfit Hcut.
  destruct (CodecP.encode_delta_at_least_one id addr (delta_entry_of S (n_ver B)) e es rest max Hents) as [p [ps [t [Hc [Hpid Hpe]]]]].
  { cbn [de_id de_addr delta_entry_of]. rewrite Hents. exact Hfit. }
  rewrite Hcut in Hc. injection Hc as ->.
  (* the entries carried for y are a prefix of the sorted entries above va *)
  assert (Hpre : is_prefix_of (dp_ents p) (de_ents (delta_entry_of S (n_ver B)))).
  { apply (delta_cut_head _ rest p ps). apply (cut_delta_cut id addr _ max), Hcut. }
  cbn [map]. unfold apply_delta. cbn [fold_left].
  assert (Hstep : delta_step nows (ca, []) (part_to_delta p) =
                  (fst (apply_delta_entry nows ca (part_to_delta p)), [] ++ snd (apply_delta_entry nows ca (part_to_delta p)))).
  { unfold delta_step. destruct (apply_delta_entry nows ca (part_to_delta p)). reflexivity. }
  rewrite Hstep. set (ca1 := fst (apply_delta_entry nows ca (part_to_delta p))).
  assert (H1 : (deficit L (ver_of ca1 y) < deficit L (ver_of ca y))%nat).
  { unfold ca1, ver_of. rewrite apply_delta_entry_nodes. cbn [de_id de_addr de_ents part_to_delta].
    rewrite Hpid. cbn [de_id delta_entry_of]. rewrite Hid.
    assert (Hl : String.eqb y (c_local ca) = false) by (apply String.eqb_neq; congruence). rewrite Hl.
    rewrite lookup_insert_eq, HB. rewrite Hpe in *.
    apply (exchange_progress O S B L _ _ HO HVS e t). exact Hpre. }
  assert (H2 : ver_of ca1 y <= ver_of (fst (fold_left (delta_step nows) (map part_to_delta ps) (ca1, [] ++ snd (apply_delta_entry nows ca (part_to_delta p))))) y).
  { generalize ([] ++ snd (apply_delta_entry nows ca (part_to_delta p))). generalize (map part_to_delta ps). generalize ca1. clear.
    intros c dl. revert c. induction dl as [|de dl IH]; intros c ev; cbn [fold_left]; [cbn; lia|].
    assert (Hs : delta_step nows (c, ev) de = (fst (apply_delta_entry nows c de), ev ++ snd (apply_delta_entry nows c de))).
    { unfold delta_step. destruct (apply_delta_entry nows c de). reflexivity. }
    rewrite Hs. specialize (IH (fst (apply_delta_entry nows c de)) (ev ++ snd (apply_delta_entry nows c de))).
    pose proof (delta_ver_mono nows c [de] y) as Hm. unfold apply_delta in Hm. cbn [fold_left] in Hm.
    assert (Hs0 : delta_step nows (c, []) de = (fst (apply_delta_entry nows c de), [] ++ snd (apply_delta_entry nows c de))).
    { unfold delta_step. destruct (apply_delta_entry nows c de). reflexivity. }
    rewrite Hs0 in Hm. cbn [fst] in Hm. lia. }
  pose proof (deficit_mono L _ _ H2). lia.
Qed.
