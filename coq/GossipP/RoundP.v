(* Proofs about peer selection (gossipRound) and the leave notification (Leave): Gossip/Round.v. *)
From Coq Require Import List String NArith Bool Arith Lia Permutation.
From Piko Require Import Base.Maps Base.Strs Gossip.Types Gossip.Apply Gossip.Round.
Import ListNotations.
Open Scope string_scope. Open Scope list_scope. Open Scope nat_scope.

(* ---------------------------------------------------------------- pick *)
Lemma pick_In {A} (l : list A) r x : pick l r = Some x -> In x l.
Proof. destruct l as [|a l]; [discriminate|]. unfold pick. apply nth_error_In. Qed.

Lemma pick_some {A} (l : list A) r : l <> [] -> exists x, pick l r = Some x.
Proof.
  destruct l as [|a l]; [contradiction|]. intros _. unfold pick.
  destruct (nth_error (a :: l) (r mod List.length (a :: l))) eqn:E; [eexists; reflexivity|].
  apply nth_error_None in E. pose proof (Nat.mod_upper_bound r (List.length (a :: l))). cbn [List.length] in *. lia.
Qed.

Lemma pick_index {A} (l : list A) i : i < List.length l -> pick l i = nth_error l i.
Proof. destruct l as [|a l]; cbn [List.length]; [lia|]. intros H. unfold pick. rewrite Nat.mod_small by exact H. reflexivity. Qed.

Lemma pick_nil {A} r : @pick A [] r = None.
Proof. reflexivity. Qed.

(* every element can be picked: by its index, and by every number congruent to it *)
Lemma pick_reaches {A} (l : list A) x : In x l -> exists i, i < List.length l /\ forall r, r mod List.length l = i -> pick l r = Some x.
Proof.
  intros HIn. destruct (In_nth_error _ _ HIn) as [i Hi]. exists i.
  assert (Hlt : i < List.length l) by (apply nth_error_Some; rewrite Hi; discriminate).
  split; [exact Hlt|]. intros r Hr. destruct l as [|a l]; [destruct HIn|]. unfold pick. rewrite Hr. exact Hi.
Qed.

(* ---------------------------------------------------------------- the round *)
Lemma round_targets_In lives unreach r1 r2 x :
  In x (round_targets lives unreach r1 r2) -> In x lives \/ In x unreach.
Proof.
  unfold round_targets. intros H. apply in_app_or in H. destruct H as [H|H].
  - destruct (pick lives r1) eqn:E; [|destruct H]. destruct H as [<-|[]]. left. eapply pick_In; eassumption.
  - destruct (pick unreach r2) eqn:E; [|destruct H]. destruct H as [<-|[]]. right. eapply pick_In; eassumption.
Qed.

Lemma live_peers_spec c s :
  In s (live_peers c) <-> In s (values (c_nodes c)) /\ n_id s <> c_local c /\ n_unreach s = false /\ n_left s = false.
Proof.
  unfold live_peers, is_live_peer. rewrite filter_In, andb_true_iff, !negb_true_iff, orb_false_iff.
  split.
  - intros (H & Hid & Hu & Hl). repeat split; try assumption. intros E. rewrite E, String.eqb_refl in Hid. discriminate.
  - intros (H & Hid & Hu & Hl). repeat split; try assumption. apply String.eqb_neq. exact Hid.
Qed.

Lemma unreach_peers_spec c s :
  In s (unreach_peers c) <-> In s (values (c_nodes c)) /\ n_id s <> c_local c /\ n_unreach s = true.
Proof.
  unfold unreach_peers, is_unreach_peer. rewrite filter_In, andb_true_iff, negb_true_iff.
  split.
  - intros (H & Hid & Hu). repeat split; try assumption. intros E. rewrite E, String.eqb_refl in Hid. discriminate.
  - intros (H & Hid & Hu). repeat split; try assumption. apply String.eqb_neq. exact Hid.
Qed.

(* a round only talks to known peers: never to the node itself, never to a peer that left unless it is (also) marked
   unreachable; the first target is live, the second unreachable *)
Lemma round_targets_sound c lives unreach r1 r2 x :
  Permutation lives (live_peers c) -> Permutation unreach (unreach_peers c) ->
  In x (round_targets lives unreach r1 r2) ->
  In x (values (c_nodes c)) /\ n_id x <> c_local c /\ (n_left x = true -> n_unreach x = true).
Proof.
  intros PL PU H. apply round_targets_In in H. destruct H as [H|H].
  - apply (Permutation_in _ PL) in H. apply live_peers_spec in H. destruct H as (A & B & C & D).
    repeat split; try assumption. intros E. rewrite D in E. discriminate.
  - apply (Permutation_in _ PU) in H. apply unreach_peers_spec in H. destruct H as (A & B & C). repeat split; try assumption. intros _. exact C.
Qed.

Lemma mem_str_In a l : mem_str a l = true <-> In a l.
Proof.
  unfold mem_str. rewrite existsb_exists. split.
  - intros (x & HIn & E). apply String.eqb_eq in E. subst. exact HIn.
  - intros H. exists a. split; [exact H|apply String.eqb_refl].
Qed.

Lemma perm_nil_iff {A} (l l' : list A) : Permutation l l' -> (l = [] <-> l' = []).
Proof.
  intros P. split; intros ->.
  - apply Permutation_nil in P. exact P.
  - apply Permutation_sym, Permutation_nil in P. exact P.
Qed.

(* what the round sends is a legal observation for the state: in whatever order Go lists the peers, whatever the random
   numbers *)
Lemma round_targets_legal c lives unreach r1 r2 :
  Permutation lives (live_peers c) -> Permutation unreach (unreach_peers c) ->
  round_legal c (map n_addr (round_targets lives unreach r1 r2)) = true.
Proof.
  intros PL PU. unfold round_legal, round_targets.
  assert (HL : forall x, pick lives r1 = Some x -> In (n_addr x) (map n_addr (live_peers c))).
  { intros x E. apply in_map. apply (Permutation_in _ PL). eapply pick_In; eassumption. }
  assert (HU : forall x, pick unreach r2 = Some x -> In (n_addr x) (map n_addr (unreach_peers c))).
  { intros x E. apply in_map. apply (Permutation_in _ PU). eapply pick_In; eassumption. }
  destruct (live_peers c) as [|l0 lr] eqn:EL; destruct (unreach_peers c) as [|u0 ur] eqn:EU.
  - apply Permutation_sym, Permutation_nil in PL. apply Permutation_sym, Permutation_nil in PU. subst. reflexivity.
  - apply Permutation_sym, Permutation_nil in PL. subst lives. rewrite pick_nil. cbn [app map].
    destruct (pick_some unreach r2) as [u Eu].
    { intros E. subst. apply Permutation_nil in PU. discriminate. }
    rewrite Eu. cbn [map app]. apply mem_str_In. exact (HU u Eu).
  - apply Permutation_sym, Permutation_nil in PU. subst unreach. rewrite pick_nil.
    destruct (pick_some lives r1) as [l El].
    { intros E. subst. apply Permutation_nil in PL. discriminate. }
    rewrite El. cbn [map app]. apply mem_str_In. exact (HL l El).
  - destruct (pick_some lives r1) as [l El].
    { intros E. subst. apply Permutation_nil in PL. discriminate. }
    destruct (pick_some unreach r2) as [u Eu].
    { intros E. subst. apply Permutation_nil in PU. discriminate. }
    rewrite El, Eu. cbn [map app]. apply andb_true_iff. split; apply mem_str_In; [exact (HL l El)|exact (HU u Eu)].
Qed.

(* every live peer, and every unreachable peer, is a possible target: for a whole residue class of random numbers *)
Lemma round_reaches_live lives unreach p :
  In p lives -> exists i, i < List.length lives /\
  forall r1 r2, r1 mod List.length lives = i -> In p (round_targets lives unreach r1 r2).
Proof.
  intros H. destruct (pick_reaches lives p H) as (i & Hi & Hp). exists i. split; [exact Hi|].
  intros r1 r2 Hr. unfold round_targets. rewrite (Hp r1 Hr). apply in_or_app. left. left. reflexivity.
Qed.

Lemma round_reaches_unreach lives unreach p :
  In p unreach -> exists i, i < List.length unreach /\
  forall r1 r2, r2 mod List.length unreach = i -> In p (round_targets lives unreach r1 r2).
Proof.
  intros H. destruct (pick_reaches unreach p H) as (i & Hi & Hp). exists i. split; [exact Hi|].
  intros r1 r2 Hr. unfold round_targets. rewrite (Hp r2 Hr). apply in_or_app. right. left. reflexivity.
Qed.

(* fairness: in a sequence of rounds (on an unchanged membership) whose random numbers hit every residue, every live peer
   and every unreachable peer is contacted *)
Lemma rounds_cover lives unreach (rs : list (nat * nat)) :
  (forall i, i < List.length lives -> exists r, In r rs /\ fst r mod List.length lives = i) ->
  (forall i, i < List.length unreach -> exists r, In r rs /\ snd r mod List.length unreach = i) ->
  forall p, In p lives \/ In p unreach -> exists r, In r rs /\ In p (round_targets lives unreach (fst r) (snd r)).
Proof.
  intros HL HU p [H|H].
  - destruct (round_reaches_live lives unreach p H) as (i & Hi & Hp).
    destruct (HL i Hi) as (r & HIn & Hr). exists r. split; [exact HIn|]. apply Hp. exact Hr.
  - destruct (round_reaches_unreach lives unreach p H) as (i & Hi & Hp).
    destruct (HU i Hi) as (r & HIn & Hr). exists r. split; [exact HIn|]. apply Hp. exact Hr.
Qed.

(* ---------------------------------------------------------------- Leave *)
Definition ackids (local : string) (ack : string -> bool) (order : list node_state) : list string :=
  map n_id (filter (fun s => leave_candidate local s && ack (n_id s)) order).
Definition nackids (local : string) (ack : string -> bool) (order : list node_state) : list string :=
  map n_id (filter (fun s => leave_candidate local s && negb (ack (n_id s))) order).

Definition is_nil {A} (l : list A) : bool := match l with [] => true | _ => false end.

Lemma leave_loop_spec local ack order : forall k told tried failed, k <= 3 ->
  let res := leave_loop local ack order k told tried failed in
  fst (fst res) = told ++ firstn (4 - k) (ackids local ack order) /\
  snd res = (if is_nil (ackids local ack order) then (k =? 0) && (failed || negb (is_nil (nackids local ack order))) else false).
Proof.
  induction order as [|s r IH]; intros k told tried failed Hk; cbn [leave_loop].
  - cbn. rewrite firstn_nil, app_nil_r, orb_false_r. split; reflexivity.
  - unfold ackids, nackids in *. cbn [filter].
    destruct (leave_candidate local s) eqn:Ec; cbn [andb].
    + destruct (ack (n_id s)) eqn:Ea; cbn [negb map].
      * destruct (Nat.ltb_spec 3 (S k)) as [Hlt|Hge].
        -- assert (k = 3) by lia. subst k. cbn [fst snd is_nil Nat.sub firstn]. split; reflexivity.
        -- destruct (IH (S k) (told ++ [n_id s]) (tried ++ [n_id s]) failed ltac:(lia)) as [A B].
           cbn zeta in A, B. rewrite A, B. split.
           ++ rewrite <- app_assoc. cbn [app]. replace (4 - k) with (S (4 - S k)) by lia. reflexivity.
           ++ cbn [is_nil]. destruct (is_nil _); reflexivity.
      * destruct (IH k told (tried ++ [n_id s]) true Hk) as [A B]. cbn zeta in A, B. rewrite A, B. split; [reflexivity|].
        cbn [is_nil orb negb]. destruct (is_nil (map n_id (filter _ r))); [|reflexivity]. rewrite orb_true_r. reflexivity.
    + destruct (IH k told tried failed Hk) as [A B]. cbn zeta in A, B. rewrite A, B. split; reflexivity.
Qed.

Lemma perm_filter_map {A B} (f : A -> bool) (g : A -> B) l l' :
  Permutation l l' -> Permutation (map g (filter f l)) (map g (filter f l')).
Proof.
  intros P. apply Permutation_map. induction P.
  - constructor.
  - cbn [filter]. destruct (f x); [constructor|]; assumption.
  - cbn [filter]. destruct (f x); destruct (f y); try constructor; try apply Permutation_refl.
  - eapply Permutation_trans; eassumption.
Qed.

Lemma nodup_str_NoDup l : NoDup l -> nodup_str l = true.
Proof.
  induction 1 as [|x l Hx Hn IH]; [reflexivity|]. cbn [nodup_str]. rewrite IH, andb_true_r. apply negb_true_iff.
  destruct (mem_str x l) eqn:E; [|reflexivity]. apply mem_str_In in E. contradiction.
Qed.

Lemma In_firstn_In {A} n (l : list A) x : In x (firstn n l) -> In x l.
Proof.
  revert n. induction l as [|a l IH]; intros n H; [rewrite firstn_nil in H; exact H|].
  destruct n; [destruct H|]. cbn [firstn] in H. destruct H as [->|H]; [left; reflexivity|right; eapply IH; eassumption].
Qed.

Lemma NoDup_firstn {A} n (l : list A) : NoDup l -> NoDup (firstn n l).
Proof.
  revert n. induction l as [|a l IH]; intros n H; [rewrite firstn_nil; constructor|].
  destruct n; [constructor|]. cbn [firstn]. inversion H; subst. constructor; [|apply IH; assumption].
  intros HIn. apply In_firstn_In in HIn. contradiction.
Qed.

Lemma NoDup_map_filter {A B} (f : A -> bool) (g : A -> B) l : NoDup (map g l) -> NoDup (map g (filter f l)).
Proof.
  induction l as [|a l IH]; intros H; [constructor|]. cbn [map] in H. inversion H; subst. cbn [filter].
  destruct (f a); [|apply IH; assumption]. cbn [map]. constructor; [|apply IH; assumption].
  intros HIn. apply in_map_iff in HIn. destruct HIn as (y & Ey & Hy). apply filter_In in Hy. destruct Hy as [Hy _].
  match goal with Hn : ~ In (g a) (map g l) |- _ => apply Hn end. rewrite <- Ey. apply in_map. exact Hy.
Qed.

(* whatever order rand.Shuffle produces and whichever streams are acknowledged, what Leave does is a legal observation:
   only live candidates whose stream is acknowledged are told, all of them when there are at most four, otherwise exactly
   four; Leave fails iff nobody could be told although somebody was tried *)
Lemma leave_run_legal c ack order :
  Permutation order (values (c_nodes c)) -> NoDup (map n_id (values (c_nodes c))) ->
  leave_legal c ack (fst (fst (leave_run c ack order))) (snd (leave_run c ack order)) = true.
Proof.
  intros P ND. unfold leave_run.
  destruct (leave_loop_spec (c_local c) ack order 0 [] [] false ltac:(lia)) as [A B]. cbn zeta in A, B.
  rewrite A, B. cbn [app Nat.sub orb Nat.eqb andb].
  assert (PA : Permutation (ackids (c_local c) ack order) (ack_cands c ack)) by (apply perm_filter_map; exact P).
  assert (PN : Permutation (nackids (c_local c) ack order) (nack_cands c ack)) by (apply perm_filter_map; exact P).
  assert (NDo : NoDup (ackids (c_local c) ack order)).
  { apply (Permutation_NoDup (Permutation_sym PA)). unfold ack_cands. apply NoDup_map_filter. exact ND. }
  unfold leave_legal. rewrite !andb_true_iff. repeat split.
  - apply nodup_str_NoDup. apply NoDup_firstn. exact NDo.
  - apply forallb_forall. intros x Hx. apply mem_str_In. apply (Permutation_in _ PA). eapply In_firstn_In. exact Hx.
  - rewrite firstn_length, <- (Permutation_length PA).
    destruct (Nat.leb_spec (List.length (ackids (c_local c) ack order)) 4); apply Nat.eqb_eq; lia.
  - apply Bool.eqb_true_iff.
    pose proof (perm_nil_iff _ _ PA) as NA. pose proof (perm_nil_iff _ _ PN) as NN.
    destruct (ackids (c_local c) ack order) as [|a0 ar] eqn:EA.
    + cbn [is_nil]. rewrite (proj1 NA eq_refl).
      destruct (nackids (c_local c) ack order) as [|n0 nr] eqn:EN.
      * cbn [is_nil negb]. rewrite (proj1 NN eq_refl). reflexivity.
      * cbn [is_nil negb]. destruct (nack_cands c ack) as [|m0 mr] eqn:EM; [|reflexivity].
        destruct NN as [_ NN]. specialize (NN eq_refl). discriminate.
    + cbn [is_nil]. destruct (ack_cands c ack) as [|b0 br] eqn:EB; [|reflexivity].
      destruct NA as [_ NA]. specialize (NA eq_refl). discriminate.
Qed.

(* the peers a departing node tells: never itself, never a node that has left or that it considers unreachable; at most
   four; and if at least one live peer acknowledges, Leave succeeds and told at least one *)
Lemma leave_told_sound c ack order x :
  Permutation order (values (c_nodes c)) ->
  In x (fst (fst (leave_run c ack order))) ->
  exists s, In s (values (c_nodes c)) /\ n_id s = x /\ n_id s <> c_local c /\ n_left s = false /\ n_unreach s = false /\ ack x = true.
Proof.
  intros P H. unfold leave_run in H.
  destruct (leave_loop_spec (c_local c) ack order 0 [] [] false ltac:(lia)) as [A _]. cbn zeta in A. rewrite A in H. cbn [app] in H.
  apply In_firstn_In in H. unfold ackids in H. apply in_map_iff in H. destruct H as (s & Es & Hs).
  apply filter_In in Hs. destruct Hs as [Hs Hc]. apply andb_true_iff in Hc. destruct Hc as [Hc Ha].
  unfold leave_candidate in Hc. apply andb_true_iff in Hc. destruct Hc as [Hid Hlu].
  apply negb_true_iff in Hid, Hlu. apply orb_false_iff in Hlu. destruct Hlu as [Hl Hu].
  exists s. repeat split; try assumption.
  - apply (Permutation_in _ P). exact Hs.
  - intros E. rewrite E, String.eqb_refl in Hid. discriminate.
  - rewrite <- Es. exact Ha.
Qed.

Lemma leave_told_count c ack order :
  List.length (fst (fst (leave_run c ack order))) = Nat.min 4 (List.length (ackids (c_local c) ack order)) /\
  (ackids (c_local c) ack order <> [] -> snd (leave_run c ack order) = false).
Proof.
  unfold leave_run.
  destruct (leave_loop_spec (c_local c) ack order 0 [] [] false ltac:(lia)) as [A B]. cbn zeta in A, B. rewrite A, B.
  cbn [app Nat.sub]. split; [apply firstn_length|]. intros H. destruct (ackids (c_local c) ack order); [contradiction|reflexivity].
Qed.

(* the hypothesis of leave_run_legal is an invariant of every cluster state of the model (nodes filed under their ids,
   GossipP.ApplyP.wf_c; the map has one entry per id) *)
Lemma ids_nodup c :
  (forall k s, lookup k (c_nodes c) = Some s -> n_id s = k) -> NoDup (keys (c_nodes c)) ->
  NoDup (map n_id (values (c_nodes c))).
Proof.
  intros Hwf Hnd.
  assert (E : forall m : amap node_state, (forall k s, In (k, s) m -> n_id s = k) -> map n_id (values m) = keys m).
  { induction m as [|[k s] m IH]; intros H; [reflexivity|]. unfold values, keys in *. cbn [map fst snd].
    rewrite (H k s (or_introl eq_refl)). f_equal. apply IH. intros k' s' HIn. apply H. right. exact HIn. }
  rewrite E; [exact Hnd|]. intros k s HIn. apply Hwf. apply In_lookup; assumption.
Qed.

(* a computed instance: node "a" knows b (live), c (unreachable), d (left), e (live), f (unreachable and left) *)
Definition ex_round_state : cstate :=
  let mk id addr u l := {| n_id := id; n_addr := addr; n_ver := 1%N; n_left := l; n_unreach := u; n_expiry := None; n_ents := [] |} in
  {| c_local := "a";
     c_nodes := [("a", mk "a" "A:1" false false); ("b", mk "b" "B:1" false false); ("c", mk "c" "C:1" true false);
                 ("d", mk "d" "D:1" false true); ("e", mk "e" "E:1" false false); ("f", mk "f" "F:1" true true)] |}.

Example ex_round_sel :
  map n_id (live_peers ex_round_state) = ["b"; "e"] /\ map n_id (unreach_peers ex_round_state) = ["c"; "f"] /\
  map n_id (round_targets (live_peers ex_round_state) (unreach_peers ex_round_state) 7 4) = ["e"; "c"] /\
  round_legal ex_round_state ["E:1"; "C:1"] = true /\ round_legal ex_round_state ["D:1"; "C:1"] = false /\
  round_legal ex_round_state ["B:1"] = false /\
  leave_run ex_round_state (fun id => negb (String.eqb id "e")) (rev (values (c_nodes ex_round_state))) = (["b"], ["e"; "b"], false) /\
  leave_legal ex_round_state (fun id => negb (String.eqb id "e")) ["b"] false = true /\
  leave_legal ex_round_state (fun _ => true) ["b"] false = false /\
  leave_run ex_round_state (fun _ => false) (values (c_nodes ex_round_state)) = ([], ["b"; "e"], true).
Proof. vm_compute. repeat split. Qed.

(* when every stream is acknowledged, the told peers are the first four live candidates in shuffle order: the
   `notified_of` of the shutdown model (NodeLoss/NodeLoss.v) *)
Lemma leave_all_ack c order :
  fst (fst (leave_run c (fun _ => true) order)) = firstn 4 (map n_id (filter (leave_candidate (c_local c)) order)).
Proof.
  unfold leave_run.
  destruct (leave_loop_spec (c_local c) (fun _ => true) order 0 [] [] false ltac:(lia)) as [A _]. cbn zeta in A. rewrite A.
  cbn [app Nat.sub]. unfold ackids. f_equal. f_equal. apply filter_ext. intros s. apply andb_true_r.
Qed.

Example ex_round_rounds :
  map n_id (live_peers ex_round_state) = ["b"; "e"] /\ map n_id (unreach_peers ex_round_state) = ["c"; "f"] /\
  map n_id (round_targets (live_peers ex_round_state) (unreach_peers ex_round_state) 7 4) = ["e"; "c"] /\
  round_legal ex_round_state ["E:1"; "C:1"] = true /\ round_legal ex_round_state ["D:1"; "C:1"] = false /\
  round_legal ex_round_state ["B:1"] = false.
Proof. vm_compute. repeat split. Qed.

Example ex_round_leave :
  leave_run ex_round_state (fun id => negb (String.eqb id "e")) (rev (values (c_nodes ex_round_state))) = (["b"], ["e"; "b"], false) /\
  leave_legal ex_round_state (fun id => negb (String.eqb id "e")) ["b"] false = true /\
  leave_legal ex_round_state (fun _ => true) ["b"] false = false /\
  leave_run ex_round_state (fun _ => false) (values (c_nodes ex_round_state)) = ([], ["b"; "e"], true).
Proof. vm_compute. repeat split. Qed.

(* the checker is tight: every destination list it accepts is what gossipRound sends for some pair of random numbers (with
   the peers listed in the model's own order) *)
Lemma addr_pickable (l : list node_state) a :
  In a (map n_addr l) -> exists r, option_map n_addr (pick l r) = Some a.
Proof.
  intros H. apply in_map_iff in H. destruct H as (p & <- & Hp).
  destruct (pick_reaches l p Hp) as (i & Hi & Hpick). exists i.
  rewrite (Hpick i (Nat.mod_small _ _ Hi)). reflexivity.
Qed.

Lemma round_legal_complete c dsts :
  round_legal c dsts = true ->
  exists r1 r2, map n_addr (round_targets (live_peers c) (unreach_peers c) r1 r2) = dsts.
Proof.
  unfold round_legal, round_targets.
  destruct (live_peers c) as [|l0 lr] eqn:EL; destruct (unreach_peers c) as [|u0 ur] eqn:EU; cbn [map].
  - destruct dsts; [|discriminate]. intros _. exists 0, 0. reflexivity.
  - destruct dsts as [|u [|? ?]]; try discriminate. intros H. apply mem_str_In in H.
    destruct (addr_pickable (u0 :: ur) u H) as (r2 & Hr2). exists 0, r2.
    rewrite pick_nil. cbn [app]. destruct (pick (u0 :: ur) r2); [|discriminate]. cbn in Hr2. inversion Hr2. reflexivity.
  - destruct dsts as [|a [|? ?]]; try discriminate. intros H. apply mem_str_In in H.
    destruct (addr_pickable (l0 :: lr) a H) as (r1 & Hr1). exists r1, 0.
    rewrite pick_nil. destruct (pick (l0 :: lr) r1); [|discriminate]. cbn in Hr1. inversion Hr1. reflexivity.
  - destruct dsts as [|a [|u [|? ?]]]; try discriminate. intros H. apply andb_true_iff in H. destruct H as [Ha Hu].
    apply mem_str_In in Ha, Hu.
    destruct (addr_pickable (l0 :: lr) a Ha) as (r1 & Hr1). destruct (addr_pickable (u0 :: ur) u Hu) as (r2 & Hr2).
    exists r1, r2. destruct (pick (l0 :: lr) r1); [|discriminate]. destruct (pick (u0 :: ur) r2); [|discriminate].
    cbn in Hr1, Hr2. inversion Hr1. inversion Hr2. reflexivity.
Qed.

(* ---------------------------------------------------------------- the leave checker is tight as well *)
Lemma nodup_str_sound l : nodup_str l = true -> NoDup l.
Proof.
  induction l as [|x r IH]; intros H; [constructor|]. cbn [nodup_str] in H. apply andb_true_iff in H. destruct H as [H1 H2].
  constructor; [|apply IH; exact H2]. intros HIn. apply mem_str_In in HIn. rewrite HIn in H1. discriminate.
Qed.

Lemma nodup_ids_inj (nodes : list node_state) p q :
  NoDup (map n_id nodes) -> In p nodes -> In q nodes -> n_id p = n_id q -> p = q.
Proof.
  induction nodes as [|a l IH]; intros ND Hp Hq E; [destruct Hp|].
  cbn [map] in ND. inversion ND as [|? ? Hna NDl]; subst.
  destruct Hp as [->|Hp]; destruct Hq as [->|Hq]; try reflexivity.
  - exfalso. apply Hna. rewrite E. apply in_map. exact Hq.
  - exfalso. apply Hna. rewrite <- E. apply in_map. exact Hp.
  - apply IH; assumption.
Qed.

(* the nodes named by a duplicate-free list of known ids can be moved to the front, in that order *)
Lemma extract_named : forall (told : list string) (nodes : list node_state),
  NoDup told -> (forall t, In t told -> In t (map n_id nodes)) -> NoDup (map n_id nodes) ->
  exists T R, Permutation (T ++ R) nodes /\ map n_id T = told /\ (forall x, In x R -> ~ In (n_id x) told).
Proof.
  induction told as [|t ts IH]; intros nodes NDt Hin NDn.
  - exists [], nodes. split; [apply Permutation_refl|]. split; [reflexivity|]. intros x _ H. exact H.
  - inversion NDt as [|? ? Ht NDts]; subst.
    assert (Htin : In t (map n_id nodes)) by (apply Hin; left; reflexivity).
    apply in_map_iff in Htin. destruct Htin as (p & Ep & Hp).
    destruct (in_split _ _ Hp) as (l1 & l2 & ->).
    assert (NDn' : NoDup (map n_id (l1 ++ l2))).
    { rewrite map_app in *. cbn [map] in NDn. apply NoDup_remove_1 in NDn. exact NDn. }
    assert (Hnotin : ~ In (n_id p) (map n_id (l1 ++ l2))).
    { rewrite map_app in *. cbn [map] in NDn. apply NoDup_remove_2 in NDn. exact NDn. }
    assert (Hin' : forall x, In x ts -> In x (map n_id (l1 ++ l2))).
    { intros x Hx. assert (H : In x (map n_id (l1 ++ p :: l2))) by (apply Hin; right; exact Hx).
      rewrite map_app in *. cbn [map] in H. apply in_app_or in H. apply in_or_app.
      destruct H as [H|[H|H]]; [left; exact H| |right; exact H].
      exfalso. apply Ht. rewrite <- Ep, H. exact Hx. }
    destruct (IH (l1 ++ l2) NDts Hin' NDn') as (T & R & P & ET & HR).
    exists (p :: T), R. split.
    + cbn [app]. apply Permutation_cons_app. exact P.
    + split; [cbn [map]; rewrite Ep, ET; reflexivity|].
      intros x Hx [Hxt|Hxts]; [|exact (HR x Hx Hxts)].
      apply Hnotin. rewrite Ep, Hxt. apply in_map. apply (Permutation_in _ P). apply in_or_app. right. exact Hx.
Qed.

Lemma leave_legal_complete c ack told err :
  NoDup (map n_id (values (c_nodes c))) -> leave_legal c ack told err = true ->
  exists order, Permutation order (values (c_nodes c)) /\
                fst (fst (leave_run c ack order)) = told /\ snd (leave_run c ack order) = err.
Proof.
  intros ND H. unfold leave_legal in H.
  apply andb_true_iff in H. destruct H as [H Herr]. apply andb_true_iff in H. destruct H as [H Hlen].
  apply andb_true_iff in H. destruct H as [Hnd Hsub].
  apply nodup_str_sound in Hnd. rewrite forallb_forall in Hsub.
  set (nodes := values (c_nodes c)) in *.
  set (f := fun s : node_state => leave_candidate (c_local c) s && ack (n_id s)).
  assert (HA : forall t, In t told -> exists q, In q nodes /\ f q = true /\ n_id q = t).
  { intros t Ht. specialize (Hsub t Ht). apply mem_str_In in Hsub. unfold ack_cands in Hsub. apply in_map_iff in Hsub.
    destruct Hsub as (q & Eq & Hq). apply filter_In in Hq. destruct Hq as [Hq Hf]. exists q. repeat split; assumption. }
  assert (Hin : forall t, In t told -> In t (map n_id nodes)).
  { intros t Ht. destruct (HA t Ht) as (q & Hq & _ & <-). apply in_map. exact Hq. }
  destruct (extract_named told nodes Hnd Hin ND) as (T & R & P & ET & HR).
  exists (T ++ R). split; [exact P|].
  assert (HfT : filter f T = T).
  { apply forallb_filter_id || idtac.
    assert (HT : forall p, In p T -> f p = true).
    { intros p Hp. assert (Hpt : In (n_id p) told) by (rewrite <- ET; apply in_map; exact Hp).
      destruct (HA _ Hpt) as (q & Hq & Hfq & Eq).
      assert (p = q).
      { apply (nodup_ids_inj nodes); try assumption; [|symmetry; exact Eq].
        apply (Permutation_in _ P). apply in_or_app. left. exact Hp. }
      subst q. exact Hfq. }
    clear - HT. induction T as [|a l IHl]; [reflexivity|]. cbn [filter]. rewrite (HT a (or_introl eq_refl)). f_equal.
    apply IHl. intros p Hp. apply HT. right. exact Hp. }
  assert (Eack : ackids (c_local c) ack (T ++ R) = told ++ ackids (c_local c) ack R).
  { unfold ackids. fold f. rewrite filter_app, map_app, HfT, ET. reflexivity. }
  assert (PA : Permutation (ackids (c_local c) ack (T ++ R)) (ack_cands c ack)) by (apply perm_filter_map; exact P).
  assert (PN : Permutation (nackids (c_local c) ack (T ++ R)) (nack_cands c ack)) by (apply perm_filter_map; exact P).
  unfold leave_run.
  destruct (leave_loop_spec (c_local c) ack (T ++ R) 0 [] [] false ltac:(lia)) as [A B]. cbn zeta in A, B.
  rewrite A, B. cbn [app Nat.sub orb Nat.eqb andb]. split.
  - rewrite Eack. pose proof (Permutation_length PA) as HL. rewrite Eack, app_length in HL.
    destruct (Nat.leb_spec (List.length (ack_cands c ack)) 4) as [Hle|Hgt]; apply Nat.eqb_eq in Hlen.
    + assert (List.length (ackids (c_local c) ack R) = 0) by lia.
      destruct (ackids (c_local c) ack R); [|discriminate]. rewrite app_nil_r. apply firstn_all2. lia.
    + rewrite firstn_app, Hlen. replace (4 - 4) with 0 by reflexivity. rewrite firstn_O, app_nil_r.
      apply firstn_all2. lia.
  - apply Bool.eqb_prop in Herr. rewrite Herr.
    pose proof (perm_nil_iff _ _ PA) as NA. pose proof (perm_nil_iff _ _ PN) as NN.
    destruct (ackids (c_local c) ack (T ++ R)) as [|a0 ar] eqn:EA.
    + cbn [is_nil]. rewrite (proj1 NA eq_refl).
      destruct (nackids (c_local c) ack (T ++ R)) as [|n0 nr] eqn:EN.
      * cbn [is_nil negb]. rewrite (proj1 NN eq_refl). reflexivity.
      * cbn [is_nil negb]. destruct (nack_cands c ack) as [|m0 mr] eqn:EM; [|reflexivity].
        destruct NN as [_ NN]. specialize (NN eq_refl). discriminate.
    + cbn [is_nil]. destruct (ack_cands c ack) as [|b0 br] eqn:EB; [|reflexivity].
      destruct NA as [_ NA]. specialize (NA eq_refl). discriminate.
Qed.
