(* Facts about the version-ordered insertion sort used to model sort.Slice by Version. *)
From Coq Require Import List String NArith Bool Lia Permutation Sorted.
From Piko Require Import Base.Maps Gossip.Types.
Import ListNotations.
Open Scope list_scope. Open Scope N_scope.

Definition ver_le (a b : entry) : Prop := e_ver a <= e_ver b.
Definition ver_lt (a b : entry) : Prop := e_ver a < e_ver b.

Lemma ins_perm e l : Permutation (ins_by_ver e l) (e :: l).
Proof.
  induction l as [|x l IH]; cbn; [reflexivity|].
  destruct (e_ver e <=? e_ver x); [reflexivity|].
  rewrite IH. apply perm_swap.
Qed.

Lemma sort_perm l : Permutation (sort_by_ver l) l.
Proof.
  induction l as [|x l IH]; cbn; [reflexivity|]. rewrite ins_perm. constructor. exact IH.
Qed.

Lemma In_sort x l : In x (sort_by_ver l) <-> In x l.
Proof. split; apply Permutation_in; [apply sort_perm|symmetry; apply sort_perm]. Qed.

Lemma length_sort l : List.length (sort_by_ver l) = List.length l.
Proof. apply Permutation_length, sort_perm. Qed.

Lemma ins_sorted e l : StronglySorted ver_le l -> StronglySorted ver_le (ins_by_ver e l).
Proof.
  induction l as [|x l IH]; cbn; intros Hs.
  - constructor; constructor.
  - inversion Hs as [|? ? Hs' Hall]; subst.
    destruct (e_ver e <=? e_ver x) eqn:E.
    + apply N.leb_le in E. constructor; [exact Hs|]. constructor; [exact E|].
      eapply Forall_impl; [|exact Hall]. unfold ver_le; intros a Ha; lia.
    + apply N.leb_gt in E. constructor; [apply IH, Hs'|].
      rewrite Forall_forall. intros y Hy. apply (Permutation_in _ (ins_perm e l)) in Hy.
      destruct Hy as [<-|Hy]; [unfold ver_le; lia|]. rewrite Forall_forall in Hall. apply Hall, Hy.
Qed.

Lemma sort_sorted l : StronglySorted ver_le (sort_by_ver l).
Proof. induction l as [|x l IH]; cbn; [constructor|apply ins_sorted, IH]. Qed.

Lemma ins_max a l : (forall x, In x l -> e_ver x < e_ver a) -> ins_by_ver a l = l ++ [a].
Proof.
  induction l as [|x l IH]; cbn; intros H; [reflexivity|].
  destruct (e_ver a <=? e_ver x) eqn:E.
  - apply N.leb_le in E. specialize (H x (or_introl eq_refl)). lia.
  - f_equal. apply IH. intros y Hy. apply H. right; exact Hy.
Qed.

Lemma sort_rev_increasing l : StronglySorted ver_lt l -> sort_by_ver (rev l) = l.
Proof.
  induction l as [|x l IH] using rev_ind; [reflexivity|].
  intros Hs. rewrite rev_app_distr. cbn [rev app]. unfold sort_by_ver. cbn [fold_right]. fold (sort_by_ver (rev l)).
  assert (Hl : StronglySorted ver_lt l /\ forall y, In y l -> e_ver y < e_ver x).
  { clear IH. induction l as [|y l IHl]; cbn in *; [split; [constructor|tauto]|].
    inversion Hs as [|? ? Hs' Hall]; subst. destruct (IHl Hs') as [H1 H2]. split.
    - constructor; [exact H1|]. rewrite Forall_forall in *. intros z Hz. apply Hall. apply in_or_app. left; exact Hz.
    - intros z [<-|Hz]; [|apply H2, Hz]. rewrite Forall_forall in Hall. apply Hall. apply in_or_app. right; left; reflexivity. }
  destruct Hl as [Hl1 Hl2]. rewrite (IH Hl1). apply ins_max. exact Hl2.
Qed.

(* sorted lists: the last element is a maximum *)
Lemma sorted_last_max l top :
  StronglySorted ver_le (l ++ [top]) -> forall x, In x l -> e_ver x <= e_ver top.
Proof.
  induction l as [|y l IH]; cbn; intros Hs x Hx; [tauto|].
  inversion Hs as [|? ? Hs' Hall]; subst. destruct Hx as [<-|Hx].
  - rewrite Forall_forall in Hall. apply Hall. apply in_or_app. right; left; reflexivity.
  - apply IH; assumption.
Qed.

Lemma filter_sorted (R : entry -> entry -> Prop) p l : StronglySorted R l -> StronglySorted R (filter p l).
Proof.
  induction l as [|x l IH]; cbn; intros Hs; [constructor|].
  inversion Hs as [|? ? Hs' Hall]; subst. destruct (p x); [|apply IH, Hs'].
  constructor; [apply IH, Hs'|]. rewrite Forall_forall in *. intros y Hy. apply filter_In in Hy. apply Hall, Hy.
Qed.

(* with pairwise distinct versions a <=-sorted list is <-sorted *)
Lemma sorted_le_lt l :
  StronglySorted ver_le l -> NoDup (map e_ver l) -> StronglySorted ver_lt l.
Proof.
  induction l as [|x l IH]; cbn; intros Hs Hnd; [constructor|].
  inversion Hs as [|? ? Hs' Hall]; subst. inversion Hnd as [|? ? Hni Hnd']; subst.
  constructor; [apply IH; assumption|]. rewrite Forall_forall in *. intros y Hy.
  specialize (Hall y Hy). unfold ver_le, ver_lt in *.
  assert (e_ver x <> e_ver y). { intros Heq. apply Hni. rewrite Heq. apply in_map, Hy. }
  lia.
Qed.

(* a <-sorted list is determined by its set of elements *)
Lemma sorted_lt_unique l1 l2 :
  StronglySorted ver_lt l1 -> StronglySorted ver_lt l2 -> (forall x, In x l1 <-> In x l2) -> l1 = l2.
Proof.
  revert l2. induction l1 as [|x l1 IH]; intros l2 H1 H2 Hin.
  - destruct l2 as [|y l2]; [reflexivity|]. exfalso. apply (Hin y). left; reflexivity.
  - destruct l2 as [|y l2]; [exfalso; apply (Hin x); left; reflexivity|].
    inversion H1 as [|? ? H1' A1]; inversion H2 as [|? ? H2' A2]; subst.
    rewrite Forall_forall in A1, A2.
    assert (x = y).
    { destruct (proj1 (Hin x) (or_introl eq_refl)) as [->|Hx]; [reflexivity|].
      destruct (proj2 (Hin y) (or_introl eq_refl)) as [->|Hy]; [reflexivity|].
      specialize (A1 _ Hy). specialize (A2 _ Hx). unfold ver_lt in *. lia. }
    subst y. f_equal. apply IH; [assumption|assumption|].
    intros z. split; intros Hz.
    + destruct (proj1 (Hin z) (or_intror Hz)) as [<-|Hz']; [|exact Hz'].
      specialize (A1 _ Hz). unfold ver_lt in A1. lia.
    + destruct (proj2 (Hin z) (or_intror Hz)) as [<-|Hz']; [|exact Hz'].
      specialize (A2 _ Hz). unfold ver_lt in A2. lia.
Qed.
