(* The constants of the CURRENT source of pkg/gossip (coq/generated/Constants.v, rewritten at every run from the values the
   Go compiler computed) are the constants the models are written with, and satisfy what the theorems need of them. A
   constant edited in the source breaks one of these proofs. *)
From Coq Require Import List String NArith ZArith Bool Lia.
From Piko Require Import Base.Maps Base.Strs Gossip.Types Gossip.Local Gossip.Codec FD.FD generated.Constants.
Import ListNotations.

(* gossip.go: suspicionThreshold - the threshold UpdateLiveness is called with is the one of FD/FD.v and Compose/LiveFD.v *)
Lemma src_suspicion_threshold : GoConst.suspicionThreshold = FD.suspicionThreshold.
Proof. reflexivity. Qed.

(* state.go: nodeExpiry - a left or unreachable node is kept for the period of Gossip/Types.v *)
Lemma src_node_expiry : GoConst.nodeExpiryNs = Types.nodeExpiry.
Proof. reflexivity. Qed.

(* state.go: the reserved keys *)
Lemma src_reserved_keys : GoConst.leftKey = Types.leftKey /\ GoConst.compactKey = Types.compactKey.
Proof. split; reflexivity. Qed.

(* protocol.go: the first two bytes of every datagram (message type, protocol version) as the codec model writes them *)
Lemma src_packet_prefix :
  forall id addr req,
  firstn 2 (digest_prefix id addr req) = [Z.to_N GoConst.messageTypeDigest; Z.to_N GoConst.supportedVersion] /\
  firstn 2 (delta_prefix id addr) = [Z.to_N GoConst.messageTypeDelta; Z.to_N GoConst.supportedVersion].
Proof. intros. split; reflexivity. Qed.

Lemma src_message_types_distinct :
  NoDup [GoConst.messageTypeDigest; GoConst.messageTypeDelta; GoConst.messageTypeJoin; GoConst.messageTypeLeave].
Proof.
  repeat constructor; cbn [In]; unfold GoConst.messageTypeDigest, GoConst.messageTypeDelta, GoConst.messageTypeJoin, GoConst.messageTypeLeave; lia.
Qed.

(* gossip.go: compactThreshold. CompactLocal indexes the last of the version-sorted entries; with no entry at all that is
   index -1 (a panic). The branch is unreachable for every threshold >= 1 - in particular for the one the scheduler passes *)
Definition compact_hits_empty (th : N) (s : node_state) : bool :=
  let ents := sort_by_ver (values (n_ents s)) in
  negb (N.of_nat (List.length (filter e_del ents)) <? th)%N && match rev ents with [] => true | _ => false end.

Lemma compact_never_empty th s : (1 <= th)%N -> compact_hits_empty th s = false.
Proof.
  intros Hth. unfold compact_hits_empty.
  destruct (rev (sort_by_ver (values (n_ents s)))) as [|x r] eqn:E; [|apply andb_false_r].
  assert (E' : sort_by_ver (values (n_ents s)) = []).
  { rewrite <- (rev_involutive (sort_by_ver (values (n_ents s)))). rewrite E. reflexivity. }
  rewrite E'. cbn [filter List.length N.of_nat]. destruct (N.ltb_spec 0 th); [reflexivity|lia].
Qed.

Lemma src_compaction_never_panics : forall s, compact_hits_empty (Z.to_N GoConst.compactThreshold) s = false.
Proof. intros s. apply compact_never_empty. unfold GoConst.compactThreshold. lia. Qed.

(* and where the empty branch IS hit the model returns the state unchanged while the code panics: threshold 0 on a node
   without entries *)
Example compact_zero_threshold_hits :
  compact_hits_empty 0 (new_node "a" "x") = true.
Proof. reflexivity. Qed.
