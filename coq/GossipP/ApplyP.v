(* Proofs about the receiver-side operations (Gossip/Apply.v): the local node's own state is never
   touched by received digests/deltas, liveness evaluation or expiry; key/id well-formedness. *)
From Coq Require Import List String NArith ZArith Bool Lia.
From Piko Require Import Base.Maps Base.Strs Gossip.Types Gossip.Apply.
Import ListNotations.
Open Scope string_scope. Open Scope list_scope. Open Scope N_scope.

(* every node state is stored under its own id *)
Definition wf_c (c : cstate) : Prop := forall k s, lookup k (c_nodes c) = Some s -> n_id s = k.

(* the local node is present, under its id, never unreachable and never scheduled for expiry *)
Definition local_ok (c : cstate) : Prop :=
  exists s, lookup (c_local c) (c_nodes c) = Some s /\ n_unreach s = false /\ n_expiry s = None.

Lemma wf_new id addr : wf_c (new_cstate id addr) /\ local_ok (new_cstate id addr).
Proof.
  split.
  - intros k s. cbn. destruct (String.eqb k id) eqn:E; [|discriminate].
    apply String.eqb_eq in E. intros [= <-]. cbn. congruence.
  - exists (new_node id addr). cbn. rewrite String.eqb_refl. auto.
Qed.

(* ---------------- apply_digest ---------------- *)
Lemma apply_digest_eq c dg : apply_digest c dg = fold_left dig_step dg (c, []).
Proof. reflexivity. Qed.

Lemma dig_fold_local (dg : list dig_entry) c ev id :
  mem id (c_nodes c) = true ->
  lookup id (c_nodes (fst (fold_left dig_step dg (c, ev)))) = lookup id (c_nodes c)
  /\ c_local (fst (fold_left dig_step dg (c, ev))) = c_local c.
Proof.
  revert c ev. induction dg as [|d dg IH]; intros c ev Hm; cbn [fold_left]; [auto|].
  unfold dig_step at 2 4. destruct (mem (d_id d) (c_nodes c)) eqn:Em; [apply IH, Hm|].
  destruct (d_left d); [apply IH, Hm|].
  assert (Hne : id <> d_id d). { intros ->. congruence. }
  specialize (IH (set_nodes c (insert (d_id d) (new_node (d_id d) (d_addr d)) (c_nodes c))) (ev ++ [EJoin (d_id d)])).
  cbn [c_nodes set_nodes c_local] in IH.
  destruct IH as [IH1 IH2].
  - unfold mem. rewrite lookup_insert_ne by exact Hne. exact Hm.
  - split; [|exact IH2]. rewrite IH1. apply lookup_insert_ne, Hne.
Qed.

Theorem apply_digest_local c dg :
  local_ok c ->
  lookup (c_local c) (c_nodes (fst (apply_digest c dg))) = lookup (c_local c) (c_nodes c)
  /\ c_local (fst (apply_digest c dg)) = c_local c.
Proof.
  intros [s [Hs _]]. rewrite apply_digest_eq. apply dig_fold_local. unfold mem. rewrite Hs. reflexivity.
Qed.

Lemma dig_fold_wf (dg : list dig_entry) c ev :
  wf_c c -> wf_c (fst (fold_left dig_step dg (c, ev))).
Proof.
  revert c ev. induction dg as [|d dg IH]; intros c ev Hw; cbn [fold_left]; [exact Hw|].
  unfold dig_step at 2. destruct (mem (d_id d) (c_nodes c)); [apply IH, Hw|]. destruct (d_left d); [apply IH, Hw|].
  apply IH. intros k s. cbn [c_nodes set_nodes]. rewrite lookup_insert.
  destruct (String.eqb k (d_id d)) eqn:E; [|apply Hw].
  apply String.eqb_eq in E. intros [= <-]. cbn. congruence.
Qed.

Theorem apply_digest_wf c dg : wf_c c -> wf_c (fst (apply_digest c dg)).
Proof. rewrite apply_digest_eq. apply dig_fold_wf. Qed.

(* a digest entry flagged left never creates a node *)
Lemma dig_fold_no_left dg c ev id :
  mem id (c_nodes c) = false ->
  (forall d, In d dg -> d_id d = id -> d_left d = true) ->
  mem id (c_nodes (fst (fold_left dig_step dg (c, ev)))) = false.
Proof.
  revert c ev. induction dg as [|d dg IH]; intros c ev Hm Hl; cbn [fold_left]; [exact Hm|].
  unfold dig_step at 2.
  destruct (mem (d_id d) (c_nodes c)) eqn:Em; [apply IH; [exact Hm|intros; apply Hl; [right|]; assumption]|].
  destruct (d_left d) eqn:El; [apply IH; [exact Hm|intros; apply Hl; [right|]; assumption]|].
  apply IH; [|intros; apply Hl; [right|]; assumption].
  cbn [c_nodes set_nodes]. unfold mem. rewrite lookup_insert.
  destruct (String.eqb id (d_id d)) eqn:E; [|exact Hm].
  apply String.eqb_eq in E. rewrite (Hl d (or_introl eq_refl) (eq_sym E)) in El. discriminate.
Qed.

Theorem apply_digest_no_left c dg id :
  mem id (c_nodes c) = false ->
  (forall d, In d dg -> d_id d = id -> d_left d = true) ->
  mem id (c_nodes (fst (apply_digest c dg))) = false.
Proof. rewrite apply_digest_eq. apply dig_fold_no_left. Qed.

(* ---------------- apply_delta ---------------- *)
Lemma apply_entries_id now nid st es : n_id (fst (apply_entries now nid st es)) = n_id st.
Proof.
  revert st. induction es as [|e es IH]; intros st; cbn [apply_entries]; [reflexivity|].
  assert (H1 : n_id (fst (fst (apply_entry now nid st e))) = n_id st).
  { unfold apply_entry. destruct (e_ver e <=? n_ver st); [reflexivity|].
    destruct (e_int e); [|reflexivity].
    destruct (String.eqb (e_key e) leftKey); [reflexivity|].
    destruct (String.eqb (e_key e) compactKey); [|reflexivity].
    destruct (parse_uint (e_val e)); reflexivity. }
  destruct (apply_entry now nid st e) as [[st' ev] stop]. cbn [fst] in H1.
  destruct stop; [exact H1|].
  specialize (IH st'). destruct (apply_entries now nid st' es) as [st'' ev']. cbn [fst] in *. congruence.
Qed.

Theorem apply_delta_entry_local nows c de :
  lookup (c_local c) (c_nodes (fst (apply_delta_entry nows c de))) = lookup (c_local c) (c_nodes c)
  /\ c_local (fst (apply_delta_entry nows c de)) = c_local c.
Proof.
  unfold apply_delta_entry. destruct (String.eqb (de_id de) (c_local c)) eqn:E; [auto|].
  apply String.eqb_neq in E.
  destruct (lookup (de_id de) (c_nodes c)) as [st|].
  - destruct (apply_entries _ _ st (de_ents de)) as [st' ev]. cbn [fst c_nodes set_nodes c_local].
    split; [apply lookup_insert_ne; congruence|reflexivity].
  - destruct (apply_entries _ _ (new_node (de_id de) (de_addr de)) (de_ents de)) as [st' ev]. cbn [fst c_nodes set_nodes c_local].
    split; [apply lookup_insert_ne; congruence|reflexivity].
Qed.

Lemma delta_fold_local nows dl c ev :
  lookup (c_local c) (c_nodes (fst (fold_left (delta_step nows) dl (c, ev)))) = lookup (c_local c) (c_nodes c)
  /\ c_local (fst (fold_left (delta_step nows) dl (c, ev))) = c_local c.
Proof.
  revert c ev. induction dl as [|de dl IH]; intros c ev; cbn [fold_left]; [auto|].
  unfold delta_step at 2 4.
  pose proof (apply_delta_entry_local nows c de) as [H1 H2].
  destruct (apply_delta_entry nows c de) as [c' ev']. cbn [fst] in H1, H2.
  destruct (IH c' (ev ++ ev')) as [IH1 IH2]. rewrite H2 in IH1. split; congruence.
Qed.

Theorem apply_delta_local nows c dl :
  lookup (c_local c) (c_nodes (fst (apply_delta nows c dl))) = lookup (c_local c) (c_nodes c)
  /\ c_local (fst (apply_delta nows c dl)) = c_local c.
Proof. apply delta_fold_local. Qed.

Theorem apply_delta_entry_wf nows c de : wf_c c -> wf_c (fst (apply_delta_entry nows c de)).
Proof.
  intros Hw. unfold apply_delta_entry. destruct (String.eqb (de_id de) (c_local c)); [exact Hw|].
  destruct (lookup (de_id de) (c_nodes c)) as [st|] eqn:El.
  - pose proof (apply_entries_id (now_of nows (de_id de)) (de_id de) st (de_ents de)) as Hid.
    destruct (apply_entries _ _ st (de_ents de)) as [st' ev]. cbn [fst] in *.
    intros k s. cbn [c_nodes set_nodes]. rewrite lookup_insert. destruct (String.eqb k (de_id de)) eqn:E; [|apply Hw].
    apply String.eqb_eq in E. intros [= <-]. rewrite Hid, (Hw _ _ El). congruence.
  - pose proof (apply_entries_id (now_of nows (de_id de)) (de_id de) (new_node (de_id de) (de_addr de)) (de_ents de)) as Hid.
    destruct (apply_entries _ _ (new_node (de_id de) (de_addr de)) (de_ents de)) as [st' ev]. cbn [fst] in *.
    intros k s. cbn [c_nodes set_nodes]. rewrite lookup_insert. destruct (String.eqb k (de_id de)) eqn:E; [|apply Hw].
    apply String.eqb_eq in E. intros [= <-]. rewrite Hid. cbn. congruence.
Qed.

Lemma delta_fold_wf nows dl c ev : wf_c c -> wf_c (fst (fold_left (delta_step nows) dl (c, ev))).
Proof.
  revert c ev. induction dl as [|de dl IH]; intros c ev Hw; cbn [fold_left]; [exact Hw|].
  unfold delta_step at 2.
  pose proof (apply_delta_entry_wf nows c de Hw) as H1.
  destruct (apply_delta_entry nows c de) as [c' ev']. apply IH, H1.
Qed.

Theorem apply_delta_wf nows c dl : wf_c c -> wf_c (fst (apply_delta nows c dl)).
Proof. apply delta_fold_wf. Qed.

(* ---------------- liveness / expiry ---------------- *)
Lemma lookup_map_nodes (f : node_state -> node_state) (m : amap node_state) k :
  lookup k (map (fun kv => (fst kv, f (snd kv))) m) = option_map f (lookup k m).
Proof.
  induction m as [|[k' s] m IH]; cbn; [reflexivity|]. destruct (String.eqb k k'); [reflexivity|exact IH].
Qed.

Lemma update_liveness_nodes suspect nows c :
  c_nodes (fst (update_liveness suspect nows c))
  = map (fun kv => (fst kv, fst (liveness_node (c_local c) suspect nows (snd kv)))) (c_nodes c).
Proof.
  unfold update_liveness. cbn [fst c_nodes set_nodes]. rewrite map_map. apply map_ext.
  intros [k s]. cbn [fst snd]. destruct (liveness_node (c_local c) suspect nows s). reflexivity.
Qed.

Theorem update_liveness_local suspect nows c :
  wf_c c ->
  lookup (c_local c) (c_nodes (fst (update_liveness suspect nows c))) = lookup (c_local c) (c_nodes c)
  /\ c_local (fst (update_liveness suspect nows c)) = c_local c.
Proof.
  intros Hw. split; [|reflexivity]. rewrite update_liveness_nodes.
  rewrite (lookup_map_nodes (fun s => fst (liveness_node (c_local c) suspect nows s))).
  destruct (lookup (c_local c) (c_nodes c)) as [s|] eqn:E; [|reflexivity]. cbn [option_map].
  unfold liveness_node. rewrite (Hw _ _ E), String.eqb_refl. reflexivity.
Qed.

Theorem update_liveness_wf suspect nows c : wf_c c -> wf_c (fst (update_liveness suspect nows c)).
Proof.
  intros Hw k s. rewrite update_liveness_nodes.
  rewrite (lookup_map_nodes (fun s => fst (liveness_node (c_local c) suspect nows s))).
  destruct (lookup k (c_nodes c)) as [s0|] eqn:E; [|discriminate]. cbn [option_map]. intros [= <-].
  rewrite <- (Hw _ _ E). unfold liveness_node.
  destruct (String.eqb (n_id s0) (c_local c) || n_left s0); [reflexivity|].
  destruct (suspect (n_id s0)); destruct (n_unreach s0); reflexivity.
Qed.

(* left nodes are skipped by the liveness evaluation *)
Theorem update_liveness_left suspect nows c k s :
  lookup k (c_nodes c) = Some s -> n_left s = true ->
  lookup k (c_nodes (fst (update_liveness suspect nows c))) = Some s.
Proof.
  intros Hl Hleft. rewrite update_liveness_nodes.
  rewrite (lookup_map_nodes (fun s => fst (liveness_node (c_local c) suspect nows s))), Hl. cbn [option_map].
  unfold liveness_node. rewrite Hleft, orb_true_r. reflexivity.
Qed.

Theorem remove_expired_local t c :
  local_ok c ->
  lookup (c_local c) (c_nodes (fst (remove_expired t c))) = lookup (c_local c) (c_nodes c).
Proof.
  intros [s [Hs [_ He]]]. unfold remove_expired. cbn [fst c_nodes set_nodes].
  (* mfilter on possibly duplicated keys: reason by induction, the first binding decides *)
  revert Hs. induction (c_nodes c) as [|[k s0] m IH]; cbn; [auto|].
  destruct (String.eqb (c_local c) k) eqn:E.
  - intros [= ->]. unfold expired. rewrite He. cbn. rewrite E. reflexivity.
  - intros Hs. destruct (negb (expired t s0)); cbn; [rewrite E|]; apply IH, Hs.
Qed.

Theorem remove_expired_wf t c : wf_c c -> NoDup (keys (c_nodes c)) -> wf_c (fst (remove_expired t c)).
Proof.
  intros Hw Hnd k s. unfold remove_expired. cbn [fst c_nodes set_nodes].
  rewrite (lookup_mfilter _ _ _ Hnd). destruct (lookup k (c_nodes c)) as [s0|] eqn:E; [|discriminate].
  destruct (negb (expired t s0)); [|discriminate]. intros [= <-]. apply (Hw _ _ E).
Qed.

(* a node is removed by remove_expired iff its expiry is set and t is after it *)
Theorem remove_expired_iff t c k :
  NoDup (keys (c_nodes c)) ->
  lookup k (c_nodes (fst (remove_expired t c))) =
  match lookup k (c_nodes c) with
  | Some s => match n_expiry s with Some e => if (e <? t)%Z then None else Some s | None => Some s end
  | None => None
  end.
Proof.
  intros Hnd. unfold remove_expired. cbn [fst c_nodes set_nodes]. rewrite (lookup_mfilter _ _ _ Hnd).
  destruct (lookup k (c_nodes c)) as [s|]; [|reflexivity]. unfold expired.
  destruct (n_expiry s) as [e|]; [|reflexivity]. destruct (e <? t)%Z; reflexivity.
Qed.
