(* C03, the last composition step: a schedule of whole digest/delta exchanges ("pulls") between the nodes of a cluster
   drives the total deficit Psi to zero - every pull a <- b executed while a is behind b's own state strictly decreases
   Psi, nothing ever increases it, hence at most Psi of them can happen; all-pairs rounds therefore converge within
   Psi rounds. Packets may be cut by the packet size (any max that lets the first missing entry through). *)
From Coq Require Import List String NArith ZArith Bool Lia Permutation.
From Piko Require Import Base.Maps Base.Strs Gossip.Types Gossip.Local Gossip.Apply Gossip.Codec Gossip.World.
From Piko Require Import GossipP.SortP GossipP.LocalP GossipP.ApplyP GossipP.WatchP GossipP.MemberP GossipP.Valid GossipP.ApplyValid
     GossipP.CodecP GossipP.ConvergeP GossipP.WorldInv GossipP.WorldConv GossipP.WorldIds.
Import ListNotations.
Open Scope string_scope. Open Scope list_scope. Open Scope N_scope.

Section Rounds.
  Variable specs : list (string * string).
  Hypothesis ids_nodup : NoDup (map fst specs).
  Hypothesis addrs_nodup : NoDup (map snd specs).

  Definition member (id : string) : Prop := In id (map fst specs).

  (* ---------- what reachability gives ---------- *)
  Lemma reach_WS w j0 x0 a0 : nth_error specs j0 = Some (x0, a0) -> reach (init_world specs) w -> WS specs w.
  Proof.
    intros Hj Hr. destruct (world_invariant specs ids_nodup addrs_nodup j0 x0 a0 Hj w Hr) as [cx [O HW]]. exact (proj1 HW).
  Qed.

  Lemma WS_nodes_wf w : WS specs w -> nodes_wf member w.
  Proof.
    intros [_ Hok] j c Hc. destruct (Hok j c Hc) as [id [addr [me [Hs [Hl [[Hw Hnd] _]]]]]].
    split; [exact Hw|]. split; [exact Hnd|]. rewrite Hl. unfold member.
    apply in_map_iff. exists (id, addr). split; [reflexivity|]. apply (nth_error_In _ _ Hs).
  Qed.

  Lemma init_ids_ok : w_ids_ok member (init_world specs).
  Proof.
    split; [|intros p []]. intros j c Hc. unfold init_world in Hc. cbn [w_nodes] in Hc. rewrite nth_error_map in Hc.
    destruct (nth_error specs j) as [[id addr]|] eqn:E; [|discriminate]. cbn in Hc. injection Hc as <-.
    intros k s Hl. cbn in Hl. destruct (String.eqb k id) eqn:Ek; [|discriminate]. apply String.eqb_eq in Ek. subst k.
    unfold member. apply in_map_iff. exists (id, addr). split; [reflexivity|]. apply (nth_error_In _ _ E).
  Qed.

  Lemma reach_ids_ok w j0 x0 a0 : nth_error specs j0 = Some (x0, a0) -> reach (init_world specs) w -> w_ids_ok member w.
  Proof.
    intros Hj Hr. induction Hr as [|w o Hr IH Ha Hs]; [exact init_ids_ok|].
    apply w_ids_ok_step; [exact IH| |exact Ha]. apply WS_nodes_wf, (reach_WS w j0 x0 a0 Hj Hr).
  Qed.

  (* ---------- addresses identify nodes ---------- *)
  Lemma find_by_addr_go_complete (nodes : list cstate) base addr b :
    (forall j c, nth_error nodes j = Some c -> node_ok specs (base + j) c) ->
    forall idb cb, nth_error specs (base + b) = Some (idb, addr) -> nth_error nodes b = Some cb ->
    (fix go (i : nat) (l : list cstate) :=
       match l with
       | [] => None
       | c :: r => match local_node c with
                   | Some s => if String.eqb (n_addr s) addr then Some i else go (S i) r
                   | None => go (S i) r end
       end) base nodes = Some (base + b)%nat.
  Proof.
    revert base b. induction nodes as [|c r IH]; intros base b Hok idb cb Hs Hb; [destruct b; discriminate|].
    destruct (Hok 0%nat c eq_refl) as [id [a [me [Hs0 [Hl [_ [Hme Ha]]]]]]]. rewrite Nat.add_0_r in Hs0.
    unfold local_node. rewrite Hl, Hme, Ha.
    destruct b as [|b].
    - rewrite Nat.add_0_r in Hs. rewrite Hs in Hs0. injection Hs0 as <- <-. rewrite String.eqb_refl, Nat.add_0_r. reflexivity.
    - destruct (String.eqb a addr) eqn:E.
      + apply String.eqb_eq in E. exfalso.
        assert (base = base + S b)%nat; [|lia].
        apply (proj1 (NoDup_nth_error (map snd specs)) addrs_nodup).
        * rewrite map_length. apply (proj1 (nth_error_Some specs base)). rewrite Hs0. discriminate.
        * rewrite !nth_error_map, Hs0, Hs. cbn. congruence.
      + replace (base + S b)%nat with (S base + b)%nat by lia. apply (IH (S base) b) with (idb := idb) (cb := cb).
        * intros j c' Hj. replace (S base + j)%nat with (base + S j)%nat by lia. apply Hok. exact Hj.
        * replace (S base + b)%nat with (base + S b)%nat by lia. exact Hs.
        * exact Hb.
  Qed.

  Lemma find_by_addr_complete w b idb addr cb :
    WS specs w -> nth_error specs b = Some (idb, addr) -> nth_error (w_nodes w) b = Some cb ->
    find_node_by_addr (w_nodes w) addr = Some b.
  Proof.
    intros [_ Hok] Hs Hb. unfold find_node_by_addr.
    apply (find_by_addr_go_complete (w_nodes w) 0 addr b Hok idb cb Hs Hb).
  Qed.

  (* ---------- the two network steps, computed ---------- *)
  Lemma wstep_send_eq w a b o max ca cb sb p :
    nth_error (w_nodes w) a = Some ca -> nth_error (w_nodes w) b = Some cb -> local_node cb = Some sb ->
    make_digest_packet ca (n_addr sb) true o max = Some p ->
    so_world (wstep w (WSend a b o max)) = with_nodes w (w_nodes w) (w_net w ++ [p]).
  Proof. intros Ha Hb Hs Hm. cbn [wstep]. rewrite Ha, Hb, Hs, Hm. reflexivity. Qed.

  Lemma wstep_deliver_eq w i max nows o p d c :
    nth_error (w_net w) i = Some p -> find_node_by_addr (w_nodes w) (p_dst p) = Some d -> nth_error (w_nodes w) d = Some c ->
    so_world (wstep w (WDeliver i false max nows o)) =
    with_nodes w (set_nth d (h_state (handle_packet c (p_body p) max nows o)) (w_nodes w))
               (remove_nth i (w_net w) ++ h_out (handle_packet c (p_body p) max nows o)).
  Proof. intros Hp Hf Hc. cbn [wstep]. rewrite Hp, Hf, Hc. reflexivity. Qed.

  (* send and deliver leave every node's own state alone: versions stay below the bound, the run stays reachable *)
  Definition netop (o : wop) : Prop :=
    match o with WSend _ _ _ _ => True | WDeliver _ _ _ _ _ => True | _ => False end.

  Lemma handle_own c b max nows order me :
    lookup (c_local c) (c_nodes c) = Some me ->
    c_local (h_state (handle_packet c b max nows order)) = c_local c /\
    lookup (c_local c) (c_nodes (h_state (handle_packet c b max nows order))) = Some me.
  Proof.
    intros Hme. rewrite handle_state. destruct b as [fi fa rq dg|fi fa parts].
    - rewrite apply_digest_eq. assert (Hm : mem (c_local c) (c_nodes c) = true) by (unfold mem; rewrite Hme; reflexivity).
      destruct (dig_fold_local dg c [] (c_local c) Hm) as [H1 H2]. split; [exact H2|congruence].
    - destruct (apply_delta_local nows c (map part_to_delta parts)) as [H1 H2]. split; [exact H2|congruence].
  Qed.

  Lemma netop_wsmall w o j0 x0 a0 :
    nth_error specs j0 = Some (x0, a0) -> reach (init_world specs) w -> netop o -> wsmall w -> wsmall (so_world (wstep w o)).
  Proof.
    intros Hj Hr Hn Hs. destruct o; cbn [netop] in Hn; try contradiction; cbn [wstep].
    - destruct (nth_error (w_nodes w) a); [|exact Hs]. destruct (nth_error (w_nodes w) b); [|exact Hs].
      destruct (local_node c0); [|exact Hs]. destruct (make_digest_packet c (n_addr n) true order max); exact Hs.
    - destruct (nth_error (w_net w) i) as [p|]; [|exact Hs].
      destruct (find_node_by_addr (w_nodes w) (p_dst p)) as [d|]; [|exact Hs].
      destruct (nth_error (w_nodes w) d) as [c|] eqn:Ed; [|exact Hs]. cbn [so_world].
      intros j c' me Hc' Hme. cbn [w_nodes with_nodes] in Hc'. rewrite nth_error_set_nth in Hc'.
      destruct (Nat.eqb d j) eqn:E; [|apply (Hs j c' me Hc' Hme)]. apply Nat.eqb_eq in E. subst j. rewrite Ed in Hc'. injection Hc' as <-.
      destruct (reach_WS w j0 x0 a0 Hj Hr) as [_ Hok]. destruct (Hok d c Ed) as [id [addr [me0 [_ [Hl [_ [Hme0 _]]]]]]].
      rewrite <- Hl in Hme0. destruct (handle_own c (p_body p) max nows order me0 Hme0) as [H1 H2].
      rewrite H1, H2 in Hme. injection Hme as <-. apply (Hs d c me0 Ed Hme0).
  Qed.

  Lemma netop_allowed o : netop o -> allowed o.
  Proof. destruct o; cbn; tauto. Qed.

  Lemma netop_not_local o : netop o -> forall n lo, o <> WLocal n lo.
  Proof. destruct o; cbn; try tauto; intros _ n' lo'; discriminate. Qed.

  Lemma reach_run w ops j0 x0 a0 :
    nth_error specs j0 = Some (x0, a0) -> reach (init_world specs) w -> wsmall w -> Forall netop ops ->
    reach (init_world specs) (wrun w ops) /\ wsmall (wrun w ops).
  Proof.
    intros Hj. revert w. induction ops as [|o ops IH]; intros w Hr Hs Hf; [split; assumption|].
    inversion Hf as [|? ? Ho Hf']; subst. unfold wrun. cbn [fold_left]. apply IH; [|apply (netop_wsmall w o j0 x0 a0 Hj Hr Ho Hs)|exact Hf'].
    apply reach_step; [exact Hr|apply netop_allowed, Ho|exact Hs].
  Qed.

  (* ---------- small facts about digests and deltas ---------- *)
  Lemma digest_in_order_In c order dg id :
    digest_in_order c order = Some dg -> In id order -> exists s, lookup id (c_nodes c) = Some s /\ In (dig_of_node s) dg.
  Proof.
    revert dg. induction order as [|x order IH]; intros dg Hd Hin; [destruct Hin|].
    cbn [digest_in_order fold_right] in Hd. fold (digest_in_order c order) in Hd.
    destruct (digest_in_order c order) as [l|]; [|discriminate].
    destruct (lookup x (c_nodes c)) as [s|] eqn:E; [|discriminate]. injection Hd as <-.
    destruct Hin as [->|Hin]; [exists s; split; [exact E|left; reflexivity]|].
    destruct (IH l eq_refl Hin) as [s' [H1 H2]]. exists s'. split; [exact H1|right; exact H2].
  Qed.

  (* ApplyDigest only adds nodes without entries *)
  Lemma dig_fold_lookup dg : forall c ev id S,
    lookup id (c_nodes (fst (fold_left dig_step dg (c, ev)))) = Some S ->
    lookup id (c_nodes c) = Some S \/ n_ents S = [].
  Proof.
    induction dg as [|d dg IH]; intros c ev id S H; cbn [fold_left] in H; [left; exact H|].
    unfold dig_step at 2 in H. destruct (mem (d_id d) (c_nodes c)) eqn:Em; [apply (IH _ _ _ _ H)|].
    destruct (d_left d); [apply (IH _ _ _ _ H)|].
    destruct (IH _ _ _ _ H) as [Hl|He]; [|right; exact He]. cbn [c_nodes set_nodes] in Hl. rewrite lookup_insert in Hl.
    destruct (String.eqb id (d_id d)); [injection Hl as <-; right; reflexivity|left; exact Hl].
  Qed.

  Lemma apply_digest_lookup c dg id S :
    lookup id (c_nodes (fst (apply_digest c dg))) = Some S -> lookup id (c_nodes c) = Some S \/ n_ents S = [].
  Proof. rewrite apply_digest_eq. apply dig_fold_lookup. Qed.

  Lemma delta_for_nonempty c dg de : In de (delta_for c dg) -> de_ents de <> [].
  Proof.
    intros Hin. unfold delta_for in Hin. apply in_flat_map in Hin as [d [_ Hin]].
    destruct (lookup (d_id d) (c_nodes c)) as [s|]; [|destruct Hin].
    destruct (de_ents (delta_entry_of s (d_ver d))) eqn:E; [destruct Hin|]. destruct Hin as [<-|[]]. rewrite E. discriminate.
  Qed.

  Lemma delta_for_has c dg d s :
    In d dg -> lookup (d_id d) (c_nodes c) = Some s -> de_ents (delta_entry_of s (d_ver d)) <> [] -> delta_for c dg <> [].
  Proof.
    intros Hin Hl Hne Hnil. assert (Hx : In (delta_entry_of s (d_ver d)) (delta_for c dg)); [|rewrite Hnil in Hx; exact Hx].
    unfold delta_for. apply in_flat_map. exists d. split; [exact Hin|]. rewrite Hl.
    destruct (de_ents (delta_entry_of s (d_ver d))); [contradiction|left; reflexivity].
  Qed.

  (* an owner that wrote anything above v has something above v to send *)
  Lemma behind_nonempty O L v : OwnInv O L -> (0 < deficit L v)%nat -> de_ents (delta_entry_of O v) <> [].
  Proof.
    intros HO Hd.
    assert (Hcases : (forall e, In e L -> e_ver e <= v) \/ exists e, In e L /\ v < e_ver e).
    { clear. induction L as [|x L IH]; [left; intros e []|].
      destruct (N.le_gt_cases (e_ver x) v) as [Hle|Hgt]; [|right; exists x; split; [left; reflexivity|exact Hgt]].
      destruct IH as [IH|[e [He Hv]]]; [|right; exists e; split; [right; exact He|exact Hv]].
      left. intros e [<-|He]; [exact Hle|apply IH, He]. }
    assert (Hex : exists e, In e L /\ v < e_ver e).
    { destruct Hcases as [Hall|Hex]; [|exact Hex]. apply (proj2 (deficit_zero L v)) in Hall. lia. }
    destruct Hex as [e [He Hv]]. pose proof (Ob' _ _ HO e He) as Hb.
    assert (Hne : n_ents O <> []).
    { intros Hnil. pose proof (li_zero _ (O_l _ _ HO) Hnil). lia. }
    destruct (li_top _ (O_l _ _ HO) Hne) as [k [t [Hk Ht]]].
    cbn [de_ents delta_entry_of]. intros Hnil.
    assert (Hin : In t (sort_by_ver (filter (fun e0 => v <? e_ver e0) (values (n_ents O))))); [|rewrite Hnil in Hin; exact Hin].
    apply In_sort. apply filter_In. split.
    - apply In_values. exists k. apply lookup_In, Hk.
    - apply N.ltb_lt. lia.
  Qed.

  (* ---------- one pull: a asks b ---------- *)
  (* "the first missing entry fits" (cf. finding G1), for whatever node the reply starts with *)
  Definition roomy (w : world) (max : N) : Prop :=
    forall j c me id S from e es,
      nth_error (w_nodes w) j = Some c -> local_node c = Some me -> lookup id (c_nodes c) = Some S ->
      de_ents (delta_entry_of S from) = e :: es ->
      blen (delta_prefix (n_id me) (n_addr me)) + blen (enc_delta_header (n_id S) (n_addr S) (N.of_nat (List.length (e :: es))))
        + blen (enc_entry e) <= max.

  Lemma handle_digest_out c fi fa rq dg max nows o pd :
    make_delta_packet (fst (apply_digest c dg)) fa (delta_for (fst (apply_digest c dg)) dg) max = Some pd ->
    exists tl, h_out (handle_packet c (PDigest fi fa rq dg) max nows o) = pd :: tl /\
               (tl = [] \/ exists pg, tl = [pg] /\ make_digest_packet (fst (apply_digest c dg)) fa false o max = Some pg).
  Proof.
    intros Hm. cbn [handle_packet]. destruct (apply_digest c dg) as [c1 ev]. cbn [fst] in Hm. rewrite Hm.
    destruct rq; [|exists []; split; [reflexivity|left; reflexivity]].
    destruct (local_node c1) as [me|]; [|exists []; split; [reflexivity|left; reflexivity]].
    destruct (max <? blen (digest_prefix (n_id me) (n_addr me) false)); [exists []; split; [reflexivity|left; reflexivity]|].
    destruct (make_digest_packet c1 fa false o max) as [pg|] eqn:Eg.
    - exists [pg]. split; [reflexivity|right; exists pg; split; [reflexivity|exact Eg]].
    - exists []. split; [reflexivity|left; reflexivity].
  Qed.

  Lemma log_with_nodes w nodes net id : log_of (with_nodes w nodes net) id = log_of w id.
  Proof. reflexivity. Qed.

  Section Pull.
    Variables (w : world) (a b : nat) (ida addra idb addrb : string) (ca cb : cstate).
    Variables (o1 o2 : list string) (max : N) (nowsA nowsB : amap Z) (p : packet).
    Hypothesis Hr : reach (init_world specs) w.
    Hypothesis Hsm : wsmall w.
    Hypothesis Hnet : w_net w = [].
    Hypothesis Hab : a <> b.
    Hypothesis Hsa : nth_error specs a = Some (ida, addra).
    Hypothesis Hsb : nth_error specs b = Some (idb, addrb).
    Hypothesis Hca : nth_error (w_nodes w) a = Some ca.
    Hypothesis Hcb : nth_error (w_nodes w) b = Some cb.
    Hypothesis Hmk : make_digest_packet ca addrb true o1 max = Some p.
    Hypothesis Hlist : In idb o1.
    Hypothesis Hdef : (0 < pair_deficit w a idb)%nat.
    Hypothesis Hroom : roomy w max.

    Let w1 := so_world (wstep w (WSend a b o1 max)).
    Let w2 := so_world (wstep w1 (WDeliver 0 false max nowsB o2)).
    Let w3 := so_world (wstep w2 (WDeliver 0 false max nowsA [])).

    Lemma pull3_progress :
      exists z, member z /\ (pair_deficit w3 a z < pair_deficit w a z)%nat /\
                (w_net w3 = [] \/ exists pg fi fa dg, w_net w3 = [pg] /\ p_body pg = PDigest fi fa false dg).
    Proof.
      pose proof (reach_WS w a ida addra Hsa Hr) as HWS. pose proof HWS as [_ Hok].
      destruct (Hok a ca Hca) as [ida' [addra' [mea [Hsa' [Hla [[Hwa Hnda] [Hmea Haa]]]]]]].
      rewrite Hsa in Hsa'. injection Hsa' as <- <-.
      destruct (Hok b cb Hcb) as [idb' [addrb' [Ob [Hsb' [Hlb [[Hwb Hndb] [Hmeb Hab']]]]]]].
      rewrite Hsb in Hsb'. injection Hsb' as <- <-.
      assert (Hlnb : local_node cb = Some Ob) by (unfold local_node; rewrite Hlb; exact Hmeb).
      (* step 1: the digest *)
      destruct (make_digest_packet_body _ _ _ _ _ _ Hmk) as [Hpd [me [dg [Hlna [Hpb Hdg]]]]].
      assert (Hw1 : w1 = with_nodes w (w_nodes w) [p]).
      { unfold w1. rewrite (wstep_send_eq w a b o1 max ca cb Ob p Hca Hcb Hlnb); [rewrite Hnet; reflexivity|]. rewrite Hab'. exact Hmk. }
      destruct (digest_in_order_In ca o1 dg idb Hdg Hlist) as [B [HB HBdg]].
      (* owner b *)
      destruct (views_valid specs ids_nodup addrs_nodup b idb addrb Hsb w Hr) as [cb' [Ob' [Hcb' [HOb' [HOI HVal]]]]].
      rewrite Hcb in Hcb'. injection Hcb' as <-. rewrite Hmeb in HOb'. injection HOb' as <-.
      pose proof (HVal a ca B Hca Hab HB) as HVB.
      assert (HdefB : (0 < deficit (log_of w idb) (n_ver B))%nat).
      { unfold pair_deficit, node_ver in Hdef. rewrite Hca in Hdef. unfold ver_of in Hdef. rewrite HB in Hdef. exact Hdef. }
      pose proof (behind_nonempty Ob (log_of w idb) (n_ver B) HOI HdefB) as Hbn.
      (* step 2: b handles the digest *)
      set (c1 := fst (apply_digest cb dg)).
      assert (Hm1 : mem idb (c_nodes cb) = true) by (unfold mem; rewrite Hmeb; reflexivity).
      destruct (dig_fold_local dg cb [] idb Hm1) as [Hown1 Hloc1]. rewrite <- apply_digest_eq in Hown1, Hloc1. fold c1 in Hown1, Hloc1.
      assert (Hwc1 : wf_c c1) by (apply apply_digest_wf, Hwb).
      assert (Hln1 : local_node c1 = Some Ob) by (unfold local_node; rewrite Hloc1, Hlb, Hown1; exact Hmeb).
      assert (Hdne : delta_for c1 dg <> []).
      { apply (delta_for_has c1 dg (dig_of_node B) Ob HBdg).
        - cbn [d_id dig_of_node]. rewrite (Hwa _ _ HB), Hown1. exact Hmeb.
        - cbn [d_ver dig_of_node]. exact Hbn. }
      destruct (delta_for c1 dg) as [|de rest] eqn:Edl; [contradiction|].
      assert (Hde : In de (delta_for c1 dg)) by (rewrite Edl; left; reflexivity).
      destruct (delta_for_entries c1 dg de Hwc1 Hde) as [d' [S [Hd' [HS [Hdeq Hdid]]]]].
      pose proof (delta_for_nonempty c1 dg de Hde) as Hdene.
      destruct (de_ents de) as [|e es] eqn:Eents; [contradiction|]. clear Hdene.
      set (z := d_id d') in *.
      destruct (digest_in_order_entries ca o1 dg Hwa Hdg d' Hd') as [Bz [HBz Hver]]. fold z in HBz.
      assert (HScb : lookup z (c_nodes cb) = Some S).
      { destruct (apply_digest_lookup cb dg z S HS) as [Hl|He]; [exact Hl|exfalso].
        rewrite Hdeq in Eents. cbn [de_ents delta_entry_of] in Eents. unfold values in Eents. rewrite He in Eents. discriminate. }
      (* z is a member, with an owner *)
      destruct (reach_ids_ok w a ida addra Hsa Hr) as [Hidn _].
      pose proof (Hidn a ca Hca z Bz HBz) as Hzm. unfold member in Hzm.
      apply in_map_iff in Hzm as [[z' addrz] [Hz' Hzin]]. cbn [fst] in Hz'. subst z'.
      apply In_nth_error in Hzin as [jz Hjz].
      destruct (views_valid specs ids_nodup addrs_nodup jz z addrz Hjz w Hr) as [cz [Oz [Hcz [HOz [HOIz HValz]]]]].
      (* z is not a itself: b cannot know more about a than a does *)
      assert (Hza : jz <> a).
      { intros ->. rewrite Hca in Hcz. injection Hcz as <-. rewrite Hsa in Hjz. injection Hjz as Hz _.
        rewrite <- Hz in *. rewrite HBz in HOz. injection HOz as <-.
        pose proof (HValz b cb S Hcb ltac:(congruence) HScb) as HVS.
        assert (Hin : In e (de_ents de)) by (rewrite Eents; left; reflexivity).
        rewrite Hdeq in Hin. cbn [de_ents delta_entry_of] in Hin. apply (proj1 (In_sort _ _)) in Hin. apply filter_In in Hin as [Hin Hgt].
        apply N.ltb_lt in Hgt. apply In_values in Hin as [k Hk].
        pose proof (In_lookup k e _ (V5 _ _ _ HVS) Hk) as Hlk. destruct (V2 _ _ _ HVS k e Hlk) as [_ [_ Hle]].
        pose proof (V1 _ _ _ HVS). lia. }
      assert (Hzloc : c_local ca <> z).
      { rewrite Hla. intros Hz. apply Hza. rewrite <- Hz in Hjz. apply (spec_id_inj specs ids_nodup jz a ida addrz addra Hjz Hsa). }
      pose proof (HValz a ca Bz Hca ltac:(congruence) HBz) as HVBz.
      assert (HVS : Valid S Oz (log_of w z)).
      { destruct (Nat.eq_dec b jz) as [->|Hbz]; [|apply (HValz b cb S Hcb Hbz HScb)].
        rewrite Hcb in Hcz. injection Hcz as <-. rewrite HScb in HOz. injection HOz as <-. apply Valid_self, HOIz. }
      assert (HSid : n_id S = z) by (apply (Hwb _ _ HScb)).
      assert (Hents : de_ents (delta_entry_of S (n_ver Bz)) = e :: es) by (rewrite <- Hver, <- Hdeq; exact Eents).
      assert (Hfit : blen (delta_prefix (n_id Ob) (n_addr Ob)) + blen (enc_delta_header (n_id S) (n_addr S) (N.of_nat (List.length (e :: es))))
                     + blen (enc_entry e) <= max) by (apply (Hroom b cb Ob z S (n_ver Bz) e es Hcb Hlnb HScb Hents)).
      (* the reply packet *)
      assert (Hcut : exists parts, cut_delta (n_id Ob) (n_addr Ob) (de :: rest) max = Some parts).
      { unfold cut_delta. destruct (max <? blen (delta_prefix (n_id Ob) (n_addr Ob))) eqn:E; [apply N.ltb_lt in E; lia|]. eexists. reflexivity. }
      destruct Hcut as [parts Hcut].
      set (pd := {| p_dst := addra; p_bytes := encode_delta_full (n_id Ob) (n_addr Ob) parts; p_body := PDelta (n_id Ob) (n_addr Ob) parts |}).
      assert (Hmd : make_delta_packet c1 addra (delta_for c1 dg) max = Some pd).
      { unfold make_delta_packet. rewrite Hln1, Edl, Hcut. reflexivity. }
      assert (Hpb' : p_body p = PDigest (n_id mea) addra true dg).
      { unfold local_node in Hlna. rewrite Hla, Hmea in Hlna. injection Hlna as <-. rewrite Haa in Hpb. exact Hpb. }
      destruct (handle_digest_out cb (n_id mea) addra true dg max nowsB o2 pd Hmd) as [tl [Hout Htl]].
      assert (Hf1 : find_node_by_addr (w_nodes w1) (p_dst p) = Some b).
      { rewrite Hw1, Hpd. cbn [w_nodes with_nodes]. apply (find_by_addr_complete w b idb addrb cb HWS Hsb Hcb). }
      assert (Hw2 : w2 = with_nodes w1 (set_nth b c1 (w_nodes w)) (pd :: tl)).
      { unfold w2. rewrite (wstep_deliver_eq w1 0 max nowsB o2 p b cb); [|rewrite Hw1; reflexivity|exact Hf1|rewrite Hw1; exact Hcb].
        rewrite Hpb', Hout, handle_state. rewrite Hw1. reflexivity. }
      (* step 3: a applies the delta *)
      assert (Hr2 : reach (init_world specs) w2).
      { apply (proj1 (reach_run w [WSend a b o1 max; WDeliver 0 false max nowsB o2] a ida addra Hsa Hr Hsm ltac:(repeat constructor))). }
      pose proof (reach_WS w2 a ida addra Hsa Hr2) as HWS2.
      assert (Hca2 : nth_error (w_nodes w2) a = Some ca).
      { rewrite Hw2. cbn [w_nodes with_nodes]. rewrite nth_error_set_nth_ne by congruence. exact Hca. }
      assert (Hf2 : find_node_by_addr (w_nodes w2) (p_dst pd) = Some a) by (apply (find_by_addr_complete w2 a ida addra ca HWS2 Hsa Hca2)).
      set (ca' := fst (apply_delta nowsA ca (map part_to_delta parts))).
      assert (Hw3 : w3 = with_nodes w2 (set_nth a ca' (w_nodes w2)) tl).
      { unfold w3. rewrite (wstep_deliver_eq w2 0 max nowsA [] pd a ca); [|rewrite Hw2; reflexivity|exact Hf2|exact Hca2].
        cbn [p_body pd]. rewrite handle_state. cbn [handle_packet].
        destruct (apply_delta nowsA ca (map part_to_delta parts)) as [cx ev] eqn:Eap. cbn [h_out]. rewrite app_nil_r.
        unfold ca'. replace (w_net w2) with (pd :: tl) by (rewrite Hw2; reflexivity). reflexivity. }
      exists z. split; [unfold member; apply in_map_iff; exists (z, addrz); split; [reflexivity|apply (nth_error_In _ _ Hjz)]|]. split.
      - unfold pair_deficit. rewrite Hw3, Hw2, Hw1. rewrite !log_with_nodes. unfold node_ver. cbn [w_nodes with_nodes].
        rewrite nth_error_set_nth_eq, Hca.
        + apply (exchange_makes_progress Oz (log_of w z) nowsA ca z Bz S e es rest (n_id Ob) (n_addr Ob) max parts HOIz Hzloc HBz HVBz HVS HSid Hents Hfit).
          rewrite <- Hver, <- Hdeq. exact Hcut.
        + rewrite set_nth_length. apply nth_error_Some. rewrite Hca. discriminate.
      - rewrite Hw3. cbn [w_net with_nodes]. destruct Htl as [->|[pg [-> Hpg]]]; [left; reflexivity|right].
        destruct (make_digest_packet_body _ _ _ _ _ _ Hpg) as [_ [me' [dg' [_ [Hb' _]]]]]. exists pg, (n_id me'), (n_addr me'), dg'. auto.
    Qed.
  End Pull.

  (* ---------- nothing regresses during network steps ---------- *)
  Lemma pair_deficit_step w o a id : netop o -> (pair_deficit (so_world (wstep w o)) a id <= pair_deficit w a id)%nat.
  Proof.
    intros Hn. unfold pair_deficit. rewrite (wstep_log w o id (netop_not_local o Hn)).
    apply deficit_mono, wstep_ver_mono, netop_allowed, Hn.
  Qed.

  Lemma pair_deficit_run ops : forall w a id, Forall netop ops -> (pair_deficit (wrun w ops) a id <= pair_deficit w a id)%nat.
  Proof.
    induction ops as [|o ops IH]; intros w a id Hf; [apply Nat.le_refl|].
    inversion Hf as [|? ? Ho Hf']; subst. unfold wrun. cbn [fold_left]. fold (wrun (so_world (wstep w o)) ops).
    pose proof (IH (so_world (wstep w o)) a id Hf'). pose proof (pair_deficit_step w o a id Ho). lia.
  Qed.

  (* ---------- the tail of a pull empties the network again ---------- *)
  Lemma deliver0_empty w max nows o : w_net w = [] -> so_world (wstep w (WDeliver 0 false max nows o)) = w.
  Proof. intros Hn. cbn [wstep]. rewrite Hn. reflexivity. Qed.

  Lemma deliver0_delta w max nows o pk fi fa parts :
    WS specs w -> w_net w = [pk] -> p_body pk = PDelta fi fa parts -> w_net (so_world (wstep w (WDeliver 0 false max nows o))) = [].
  Proof.
    intros HWS Hn Hb. cbn [wstep]. rewrite Hn. cbn [nth_error].
    destruct (find_node_by_addr (w_nodes w) (p_dst pk)) as [d|] eqn:Ef; [|reflexivity].
    destruct (find_by_addr specs w _ d HWS Ef) as [id [c [_ Hc]]]. rewrite Hc. cbn [so_world w_net with_nodes remove_nth].
    rewrite Hb. cbn [handle_packet]. destruct (apply_delta nows c (map part_to_delta parts)). reflexivity.
  Qed.

  Lemma deliver0_digest w max nows o pg fi fa dg :
    WS specs w -> w_net w = [pg] -> p_body pg = PDigest fi fa false dg ->
    let w' := so_world (wstep w (WDeliver 0 false max nows o)) in
    w_net w' = [] \/ exists pk fi' fa' parts, w_net w' = [pk] /\ p_body pk = PDelta fi' fa' parts.
  Proof.
    intros HWS Hn Hb. cbn zeta. cbn [wstep]. rewrite Hn. cbn [nth_error].
    destruct (find_node_by_addr (w_nodes w) (p_dst pg)) as [d|] eqn:Ef; [|left; reflexivity].
    destruct (find_by_addr specs w _ d HWS Ef) as [id [c [_ Hc]]]. rewrite Hc. cbn [so_world w_net with_nodes remove_nth app].
    rewrite Hb. cbn [handle_packet]. destruct (apply_digest c dg) as [c1 ev].
    destruct (make_delta_packet c1 fa (delta_for c1 dg) max) as [pk|] eqn:Em; [|left; reflexivity].
    right. destruct (make_delta_packet_parts _ _ _ _ _ Em) as [_ [fi' [fa' [parts [Hpb _]]]]]. exists pk, fi', fa', parts. split; [reflexivity|exact Hpb].
  Qed.

  (* ---------- a whole pull ---------- *)
  Definition pull (a b : nat) (o1 o2 : list string) (max : N) (nowsA nowsB : amap Z) : list wop :=
    [WSend a b o1 max; WDeliver 0 false max nowsB o2; WDeliver 0 false max nowsA [];
     WDeliver 0 false max nowsA []; WDeliver 0 false max nowsB []].

  Lemma pull_netops a b o1 o2 max nowsA nowsB : Forall netop (pull a b o1 o2 max nowsA nowsB).
  Proof. repeat constructor. Qed.

  Definition all_obs : list nat := seq 0 (List.length specs).
  Definition all_ids : list string := map fst specs.
  Definition PsiAll (w : world) : nat := Psi all_obs all_ids w.

  Lemma sum_nat_app l1 l2 : sum_nat (l1 ++ l2) = (sum_nat l1 + sum_nat l2)%nat.
  Proof. induction l1 as [|x l1 IH]; cbn; [reflexivity|rewrite IH; lia]. Qed.

  Lemma sum_map_le {A} (l : list A) (f g : A -> nat) : (forall x, (f x <= g x)%nat) -> (sum_nat (map f l) <= sum_nat (map g l))%nat.
  Proof. intros H. induction l as [|x l IH]; cbn; [lia|]. specialize (H x). lia. Qed.

  Lemma sum_map_lt {A} (l : list A) (f g : A -> nat) z :
    (forall x, (f x <= g x)%nat) -> In z l -> (f z < g z)%nat -> (sum_nat (map f l) < sum_nat (map g l))%nat.
  Proof.
    intros H Hin Hlt. induction l as [|x l IH]; [destruct Hin|]. cbn.
    pose proof (sum_map_le l f g H). destruct Hin as [->|Hin]; [lia|]. specialize (IH Hin). specialize (H x). lia.
  Qed.

  Lemma Psi_strict_gen obs ids w w' a z :
    (forall o id, (pair_deficit w' o id <= pair_deficit w o id)%nat) ->
    In a obs -> In z ids -> (pair_deficit w' a z < pair_deficit w a z)%nat -> (Psi obs ids w' < Psi obs ids w)%nat.
  Proof.
    intros Hle Ha Hz Hlt. unfold Psi.
    assert (Hall : forall l, (sum_nat (flat_map (fun o => map (fun id => pair_deficit w' o id) ids) l)
                              <= sum_nat (flat_map (fun o => map (fun id => pair_deficit w o id) ids) l))%nat).
    { induction l as [|o l IH]; cbn [flat_map]; [lia|]. rewrite !sum_nat_app.
      pose proof (sum_map_le ids (fun id => pair_deficit w' o id) (fun id => pair_deficit w o id) (Hle o)). lia. }
    induction obs as [|o obs IH]; [destruct Ha|]. cbn [flat_map]. rewrite !sum_nat_app.
    destruct Ha as [->|Ha].
    - pose proof (sum_map_lt ids (fun id => pair_deficit w' a id) (fun id => pair_deficit w a id) z (Hle a) Hz Hlt).
      pose proof (Hall obs). lia.
    - pose proof (sum_map_le ids (fun id => pair_deficit w' o id) (fun id => pair_deficit w o id) (Hle o)).
      specialize (IH Ha). lia.
  Qed.

  Lemma Psi_strict w w' a z :
    (forall o id, (pair_deficit w' o id <= pair_deficit w o id)%nat) ->
    In a all_obs -> In z all_ids -> (pair_deficit w' a z < pair_deficit w a z)%nat -> (PsiAll w' < PsiAll w)%nat.
  Proof. apply Psi_strict_gen. Qed.

  (* ---------- what is in flight during a pull, by kind of packet ---------- *)
  Definition kind (pk : packet) : nat :=
    match p_body pk with PDelta _ _ _ => 0 | PDigest _ _ false _ => 1 | PDigest _ _ true _ => 2 end%nat.

  Definition outs (k : nat) : list (list nat) :=
    match k with 0 => [[]] | 1 => [[]; [0]] | _ => [[]; [0]; [0; 1]] end%nat.

  Lemma delta_packet_kind c dst dl max pk : make_delta_packet c dst dl max = Some pk -> kind pk = 0%nat.
  Proof. intros H. destruct (make_delta_packet_parts _ _ _ _ _ H) as [_ [fi [fa [parts [Hb _]]]]]. unfold kind. rewrite Hb. reflexivity. Qed.

  Lemma digest_packet_kind c dst order max pk : make_digest_packet c dst false order max = Some pk -> kind pk = 1%nat.
  Proof. intros H. destruct (make_digest_packet_body _ _ _ _ _ _ H) as [_ [me [dg [_ [Hb _]]]]]. unfold kind. rewrite Hb. reflexivity. Qed.

  Lemma handle_out_kinds c b max nows o :
    In (map kind (h_out (handle_packet c b max nows o)))
       (outs (match b with PDelta _ _ _ => 0 | PDigest _ _ false _ => 1 | PDigest _ _ true _ => 2 end%nat)).
  Proof.
    destruct b as [fi fa rq dg|fi fa parts]; cbn [handle_packet].
    - destruct (apply_digest c dg) as [c1 ev].
      destruct (make_delta_packet c1 fa (delta_for c1 dg) max) as [pd|] eqn:Ed; [|destruct rq; cbn; auto].
      pose proof (delta_packet_kind _ _ _ _ _ Ed) as Hk.
      destruct rq; [|cbn [h_out map outs]; rewrite Hk; cbn; auto].
      destruct (local_node c1) as [me|]; [|cbn [h_out map outs]; rewrite Hk; cbn; auto].
      destruct (max <? blen (digest_prefix (n_id me) (n_addr me) false)); [cbn [h_out map outs]; rewrite Hk; cbn; auto|].
      destruct (make_digest_packet c1 fa false o max) as [pg|] eqn:Eg; cbn [h_out map outs]; rewrite Hk; [|cbn; auto].
      rewrite (digest_packet_kind _ _ _ _ _ Eg). cbn; auto.
    - destruct (apply_delta nows c (map part_to_delta parts)). cbn. auto.
  Qed.

  Lemma deliver0_kinds w max nows o pk tl :
    WS specs w -> w_net w = pk :: tl ->
    exists x, In x (outs (kind pk)) /\ map kind (w_net (so_world (wstep w (WDeliver 0 false max nows o)))) = map kind tl ++ x.
  Proof.
    intros HWS Hn. cbn [wstep]. rewrite Hn. cbn [nth_error].
    destruct (find_node_by_addr (w_nodes w) (p_dst pk)) as [d|] eqn:Ef.
    - destruct (find_by_addr specs w _ d HWS Ef) as [id [c [_ Hc]]]. rewrite Hc. cbn [so_world w_net with_nodes remove_nth].
      exists (map kind (h_out (handle_packet c (p_body pk) max nows o))). split; [|apply map_app].
      pose proof (handle_out_kinds c (p_body pk) max nows o) as H. unfold kind at 2. destruct (p_body pk) as [? ? [|] ?|? ? ?]; exact H.
    - cbn [so_world plain w_net with_nodes remove_nth]. exists []. split; [|rewrite app_nil_r; reflexivity].
      unfold outs. destruct (kind pk) as [|[|?]]; left; reflexivity.
  Qed.

  Lemma send_kinds w a b o max :
    w_net w = [] -> map kind (w_net (so_world (wstep w (WSend a b o max)))) = [] \/ map kind (w_net (so_world (wstep w (WSend a b o max)))) = [2%nat].
  Proof.
    intros Hn. cbn [wstep]. destruct (nth_error (w_nodes w) a) as [ca|]; [|left; cbn; rewrite Hn; reflexivity].
    destruct (nth_error (w_nodes w) b) as [cb|]; [|left; cbn; rewrite Hn; reflexivity].
    destruct (local_node cb) as [sb|]; [|left; cbn; rewrite Hn; reflexivity].
    destruct (make_digest_packet ca (n_addr sb) true o max) as [pk|] eqn:Em; cbn [so_world w_net with_nodes]; [|left; rewrite Hn; reflexivity].
    right. rewrite Hn. cbn [app map]. destruct (make_digest_packet_body _ _ _ _ _ _ Em) as [_ [me [dg [_ [Hb _]]]]]. unfold kind. rewrite Hb. reflexivity.
  Qed.

  (* four deliveries drain whatever one send has put in flight *)
  Lemma drain w ks max n1 o1 n2 o2 n3 o3 n4 o4 j0 x0 a0 :
    nth_error specs j0 = Some (x0, a0) -> reach (init_world specs) w -> wsmall w ->
    map kind (w_net w) = ks -> (ks = [] \/ ks = [2%nat]) ->
    w_net (wrun w [WDeliver 0 false max n1 o1; WDeliver 0 false max n2 o2; WDeliver 0 false max n3 o3; WDeliver 0 false max n4 o4]) = [].
  Proof.
    intros Hj Hr Hs Hk Hks.
    assert (Hstep : forall w' nows o, reach (init_world specs) w' -> wsmall w' ->
              reach (init_world specs) (so_world (wstep w' (WDeliver 0 false max nows o))) /\ wsmall (so_world (wstep w' (WDeliver 0 false max nows o)))).
    { intros w' nows o Hr' Hs'. apply (reach_run w' [WDeliver 0 false max nows o] j0 x0 a0 Hj Hr' Hs'). repeat constructor. }
    assert (Hone : forall w' nows o k tlk, reach (init_world specs) w' -> map kind (w_net w') = k :: tlk ->
              exists x, In x (outs k) /\ map kind (w_net (so_world (wstep w' (WDeliver 0 false max nows o)))) = tlk ++ x).
    { intros w' nows o k tlk Hr' Hm. destruct (w_net w') as [|pk tl] eqn:En; [discriminate|]. cbn [map] in Hm. injection Hm as <- <-.
      apply (deliver0_kinds w' max nows o pk tl (reach_WS w' j0 x0 a0 Hj Hr') En). }
    assert (Hnil : forall w' nows o, map kind (w_net w') = [] -> map kind (w_net (so_world (wstep w' (WDeliver 0 false max nows o)))) = []).
    { intros w' nows o Hm. destruct (w_net w') eqn:En; [|discriminate]. rewrite (deliver0_empty w' max nows o En), En. reflexivity. }
    unfold wrun. cbn [fold_left].
    set (w1 := so_world (wstep w (WDeliver 0 false max n1 o1))).
    set (w2 := so_world (wstep w1 (WDeliver 0 false max n2 o2))).
    set (w3 := so_world (wstep w2 (WDeliver 0 false max n3 o3))).
    set (w4 := so_world (wstep w3 (WDeliver 0 false max n4 o4))).
    destruct (Hstep w n1 o1 Hr Hs) as [Hr1 Hs1]. fold w1 in Hr1, Hs1.
    destruct (Hstep w1 n2 o2 Hr1 Hs1) as [Hr2 Hs2]. fold w2 in Hr2, Hs2.
    destruct (Hstep w2 n3 o3 Hr2 Hs2) as [Hr3 Hs3]. fold w3 in Hr3, Hs3.
    assert (Hfin : map kind (w_net w4) = []); [|destruct (w_net w4); [reflexivity|discriminate]].
    destruct Hks as [->| ->].
    - pose proof (Hnil w n1 o1 Hk) as K1. fold w1 in K1. pose proof (Hnil w1 n2 o2 K1) as K2. fold w2 in K2.
      pose proof (Hnil w2 n3 o3 K2) as K3. fold w3 in K3. apply (Hnil w3 n4 o4 K3).
    - destruct (Hone w n1 o1 _ _ Hr Hk) as [x1 [Hx1 K1]]. fold w1 in K1. cbn [app outs] in Hx1, K1.
      destruct Hx1 as [<-|[<-|[<-|[]]]].
      + pose proof (Hnil w1 n2 o2 K1) as K2. fold w2 in K2. pose proof (Hnil w2 n3 o3 K2) as K3. fold w3 in K3. apply (Hnil w3 n4 o4 K3).
      + destruct (Hone w1 n2 o2 _ _ Hr1 K1) as [x2 [Hx2 K2]]. fold w2 in K2. cbn [app outs] in Hx2, K2. destruct Hx2 as [<-|[]].
        pose proof (Hnil w2 n3 o3 K2) as K3. fold w3 in K3. apply (Hnil w3 n4 o4 K3).
      + destruct (Hone w1 n2 o2 _ _ Hr1 K1) as [x2 [Hx2 K2]]. fold w2 in K2. cbn [app outs] in Hx2, K2. destruct Hx2 as [<-|[]]. cbn [app] in K2.
        destruct (Hone w2 n3 o3 _ _ Hr2 K2) as [x3 [Hx3 K3]]. fold w3 in K3. cbn [app outs] in Hx3, K3. destruct Hx3 as [<-|[<-|[]]].
        * apply (Hnil w3 n4 o4 K3).
        * destruct (Hone w3 n4 o4 _ _ Hr3 K3) as [x4 [Hx4 K4]]. fold w4 in K4. cbn [app outs] in Hx4, K4. destruct Hx4 as [<-|[]]. exact K4.
  Qed.

  Lemma pull_safe w a b o1 o2 max nowsA nowsB j0 x0 a0 :
    nth_error specs j0 = Some (x0, a0) -> reach (init_world specs) w -> wsmall w -> w_net w = [] ->
    let w' := wrun w (pull a b o1 o2 max nowsA nowsB) in
    reach (init_world specs) w' /\ wsmall w' /\ w_net w' = [] /\
    (forall o id, (pair_deficit w' o id <= pair_deficit w o id)%nat).
  Proof.
    intros Hj Hr Hs Hn. cbn zeta.
    destruct (reach_run w (pull a b o1 o2 max nowsA nowsB) j0 x0 a0 Hj Hr Hs (pull_netops _ _ _ _ _ _ _)) as [Hr' Hs'].
    split; [exact Hr'|]. split; [exact Hs'|]. split; [|intros o id; apply pair_deficit_run, pull_netops].
    unfold pull, wrun. cbn [fold_left]. set (w1 := so_world (wstep w (WSend a b o1 max))).
    destruct (reach_run w [WSend a b o1 max] j0 x0 a0 Hj Hr Hs ltac:(repeat constructor)) as [Hr1 Hs1].
    unfold wrun in Hr1, Hs1. cbn [fold_left] in Hr1, Hs1. fold w1 in Hr1, Hs1.
    apply (drain w1 (map kind (w_net w1)) max nowsB o2 nowsA [] nowsA [] nowsB [] j0 x0 a0 Hj Hr1 Hs1 eq_refl).
    apply (send_kinds w a b o1 max Hn).
  Qed.

  Lemma obs_in a ida addra : nth_error specs a = Some (ida, addra) -> In a all_obs.
  Proof. intros H. unfold all_obs. apply in_seq. split; [lia|]. cbn. apply nth_error_Some. rewrite H. discriminate. Qed.

  Lemma pull_progress w a b ida addra idb addrb ca cb o1 o2 max nowsA nowsB p :
    reach (init_world specs) w -> wsmall w -> w_net w = [] -> a <> b ->
    nth_error specs a = Some (ida, addra) -> nth_error specs b = Some (idb, addrb) ->
    nth_error (w_nodes w) a = Some ca -> nth_error (w_nodes w) b = Some cb ->
    make_digest_packet ca addrb true o1 max = Some p -> In idb o1 ->
    (0 < pair_deficit w a idb)%nat -> roomy w max ->
    (PsiAll (wrun w (pull a b o1 o2 max nowsA nowsB)) < PsiAll w)%nat.
  Proof.
    intros Hr Hs Hn Hab Hsa Hsb Hca Hcb Hmk Hl Hd Hroom.
    destruct (pull3_progress w a b ida addra idb addrb ca cb o1 o2 max nowsA nowsB p Hr Hs Hn Hab Hsa Hsb Hca Hcb Hmk Hl Hd Hroom)
      as [z [Hz [Hlt _]]].
    unfold pull, wrun. cbn [fold_left].
    set (w3 := so_world (wstep (so_world (wstep (so_world (wstep w (WSend a b o1 max))) (WDeliver 0 false max nowsB o2))) (WDeliver 0 false max nowsA []))) in *.
    set (w5 := so_world (wstep (so_world (wstep w3 (WDeliver 0 false max nowsA []))) (WDeliver 0 false max nowsB []))).
    assert (H35 : forall o id, (pair_deficit w5 o id <= pair_deficit w3 o id)%nat).
    { intros o id. apply (pair_deficit_run [WDeliver 0 false max nowsA []; WDeliver 0 false max nowsB []] w3 o id). repeat constructor. }
    assert (H03 : forall o id, (pair_deficit w3 o id <= pair_deficit w o id)%nat).
    { intros o id. apply (pair_deficit_run [WSend a b o1 max; WDeliver 0 false max nowsB o2; WDeliver 0 false max nowsA []] w o id). repeat constructor. }
    apply (Psi_strict w w5 a z).
    - intros o id. specialize (H35 o id). specialize (H03 o id). lia.
    - apply (obs_in a ida addra Hsa).
    - exact Hz.
    - specialize (H35 a z). lia.
  Qed.

  (* ---------- schedules of pulls ---------- *)
  Record pl := { pl_a : nat; pl_b : nat; pl_o1 : list string; pl_o2 : list string; pl_max : N; pl_nA : amap Z; pl_nB : amap Z }.

  Definition pl_ops (q : pl) : list wop := pull (pl_a q) (pl_b q) (pl_o1 q) (pl_o2 q) (pl_max q) (pl_nA q) (pl_nB q).
  Definition run_pulls (w : world) (qs : list pl) : world := fold_left (fun w q => wrun w (pl_ops q)) qs w.

  (* a pull is well formed in w: distinct cluster nodes; a's digest (a legal order oracle, not cut before b) fits the
     packet size and lists b; the first entry of whatever reply may be due fits as well *)
  Definition good (w : world) (q : pl) : Prop :=
    exists ida addra idb addrb ca cb p,
      pl_a q <> pl_b q /\ nth_error specs (pl_a q) = Some (ida, addra) /\ nth_error specs (pl_b q) = Some (idb, addrb) /\
      nth_error (w_nodes w) (pl_a q) = Some ca /\ nth_error (w_nodes w) (pl_b q) = Some cb /\
      make_digest_packet ca addrb true (pl_o1 q) (pl_max q) = Some p /\ In idb (pl_o1 q) /\ roomy w (pl_max q).

  Fixpoint good_run (w : world) (qs : list pl) : Prop :=
    match qs with [] => True | q :: r => good w q /\ good_run (wrun w (pl_ops q)) r end.

  Definition quiet (w : world) : Prop := reach (init_world specs) w /\ wsmall w /\ w_net w = [].

  Lemma run_pulls_safe qs : forall w j0 x0 a0, nth_error specs j0 = Some (x0, a0) -> quiet w ->
    quiet (run_pulls w qs) /\ (forall o id, (pair_deficit (run_pulls w qs) o id <= pair_deficit w o id)%nat).
  Proof.
    induction qs as [|q qs IH]; intros w j0 x0 a0 Hj Hq; [split; [exact Hq|intros; apply Nat.le_refl]|].
    destruct Hq as [Hr [Hs Hn]]. unfold run_pulls. cbn [fold_left]. fold (run_pulls (wrun w (pl_ops q)) qs).
    destruct (pull_safe w (pl_a q) (pl_b q) (pl_o1 q) (pl_o2 q) (pl_max q) (pl_nA q) (pl_nB q) j0 x0 a0 Hj Hr Hs Hn) as [Hr1 [Hs1 [Hn1 Hm1]]].
    destruct (IH (wrun w (pl_ops q)) j0 x0 a0 Hj (conj Hr1 (conj Hs1 Hn1))) as [Hq2 Hm2].
    split; [exact Hq2|]. intros o id. specialize (Hm1 o id). specialize (Hm2 o id). unfold pl_ops in *. lia.
  Qed.

  Lemma Psi_le w w' : (forall o id, (pair_deficit w' o id <= pair_deficit w o id)%nat) -> (PsiAll w' <= PsiAll w)%nat.
  Proof.
    intros H. unfold PsiAll, Psi. induction all_obs as [|o obs IH]; cbn [flat_map]; [lia|]. rewrite !sum_nat_app.
    pose proof (sum_map_le all_ids (fun id => pair_deficit w' o id) (fun id => pair_deficit w o id) (H o)). lia.
  Qed.

  (* if the schedule contains a pull a <- b and a is behind b when the schedule starts, the schedule decreases Psi *)
  Lemma run_pulls_progress qs : forall w a b ida addra idb addrb,
    quiet w -> good_run w qs -> a <> b ->
    nth_error specs a = Some (ida, addra) -> nth_error specs b = Some (idb, addrb) ->
    (exists q, In q qs /\ pl_a q = a /\ pl_b q = b) ->
    (0 < pair_deficit w a idb)%nat ->
    (PsiAll (run_pulls w qs) < PsiAll w)%nat.
  Proof.
    induction qs as [|q0 qs IH]; intros w a b ida addra idb addrb Hq Hg Hab Hsa Hsb [q [Hin [Hqa Hqb]]] Hd; [destruct Hin|].
    destruct Hg as [Hg0 Hg]. destruct Hq as [Hr [Hs Hn]].
    unfold run_pulls. cbn [fold_left]. fold (run_pulls (wrun w (pl_ops q0)) qs).
    destruct (pull_safe w (pl_a q0) (pl_b q0) (pl_o1 q0) (pl_o2 q0) (pl_max q0) (pl_nA q0) (pl_nB q0) a ida addra Hsa Hr Hs Hn) as [Hr1 [Hs1 [Hn1 Hm1]]].
    fold (pl_ops q0) in Hr1, Hs1, Hn1, Hm1.
    destruct (run_pulls_safe qs (wrun w (pl_ops q0)) a ida addra Hsa (conj Hr1 (conj Hs1 Hn1))) as [_ Hm2].
    pose proof (Psi_le _ _ Hm2) as HP2. pose proof (Psi_le _ _ Hm1) as HP1.
    destruct Hin as [<-|Hin].
    - (* this is the pull *)
      destruct Hg0 as [ida' [addra' [idb' [addrb' [ca [cb [p [_ [Hsa' [Hsb' [Hca [Hcb [Hmk [Hl Hroom]]]]]]]]]]]]]].
      rewrite Hqa in *. rewrite Hqb in *. rewrite Hsa in Hsa'. injection Hsa' as <- <-. rewrite Hsb in Hsb'. injection Hsb' as <- <-.
      pose proof (pull_progress w a b ida addra idb addrb ca cb (pl_o1 q0) (pl_o2 q0) (pl_max q0) (pl_nA q0) (pl_nB q0) p
                    Hr Hs Hn Hab Hsa Hsb Hca Hcb Hmk Hl Hd Hroom) as Hlt.
      unfold pl_ops in HP2 |- *. rewrite Hqa, Hqb in HP2 |- *. lia.
    - (* a later pull: either a is still behind then, or it has caught up meanwhile - which is progress too *)
      destruct (Nat.eq_dec (pair_deficit (wrun w (pl_ops q0)) a idb) 0) as [H0|H0].
      + assert (Hlt : (PsiAll (wrun w (pl_ops q0)) < PsiAll w)%nat).
        { apply (Psi_strict w _ a idb Hm1 (obs_in a ida addra Hsa)); [|lia].
          unfold all_ids. apply in_map_iff. exists (idb, addrb). split; [reflexivity|apply (nth_error_In _ _ Hsb)]. }
        lia.
      + pose proof (IH (wrun w (pl_ops q0)) a b ida addra idb addrb (conj Hr1 (conj Hs1 Hn1)) Hg Hab Hsa Hsb
                      ltac:(exists q; auto) ltac:(lia)). lia.
  Qed.

  (* ---------- rounds ---------- *)
  Definition covers (r : list pl) : Prop :=
    forall a b ida addra idb addrb, a <> b -> nth_error specs a = Some (ida, addra) -> nth_error specs b = Some (idb, addrb) ->
      exists q, In q r /\ pl_a q = a /\ pl_b q = b.

  Definition run_rounds (w : world) (rs : list (list pl)) : world := fold_left run_pulls rs w.

  Fixpoint good_rounds (w : world) (rs : list (list pl)) : Prop :=
    match rs with [] => True | r :: rs' => good_run w r /\ good_rounds (run_pulls w r) rs' end.

  (* a node is never behind itself *)
  Lemma own_deficit_zero w a ida addra : reach (init_world specs) w -> nth_error specs a = Some (ida, addra) -> pair_deficit w a ida = 0%nat.
  Proof.
    intros Hr Hsa. destruct (views_valid specs ids_nodup addrs_nodup a ida addra Hsa w Hr) as [ca [O [Hca [HO [HOI _]]]]].
    unfold pair_deficit, node_ver. rewrite Hca. unfold ver_of. rewrite HO. apply deficit_zero. intros e He. apply (Ob' _ _ HOI e He).
  Qed.

  Lemma sum_pos_exists {A} (l : list A) (f : A -> nat) : (0 < sum_nat (map f l))%nat -> exists x, In x l /\ (0 < f x)%nat.
  Proof.
    induction l as [|x l IH]; cbn; [lia|]. intros H. destruct (Nat.eq_dec (f x) 0) as [E|E].
    - destruct (IH ltac:(lia)) as [y [Hy Hf]]. exists y. split; [right; exact Hy|exact Hf].
    - exists x. split; [left; reflexivity|lia].
  Qed.

  Lemma Psi_pos_pair w : reach (init_world specs) w -> (0 < PsiAll w)%nat ->
    exists a b ida addra idb addrb, a <> b /\ nth_error specs a = Some (ida, addra) /\ nth_error specs b = Some (idb, addrb) /\
                                    (0 < pair_deficit w a idb)%nat.
  Proof.
    intros Hr Hpos. unfold PsiAll, Psi in Hpos.
    assert (Hex : exists a, In a all_obs /\ (0 < sum_nat (map (fun id => pair_deficit w a id) all_ids))%nat).
    { revert Hpos. induction all_obs as [|o obs IH]; cbn [flat_map]; [cbn; lia|]. rewrite sum_nat_app. intros H.
      destruct (Nat.eq_dec (sum_nat (map (fun id => pair_deficit w o id) all_ids)) 0) as [E|E].
      - destruct (IH ltac:(lia)) as [a [Ha Hs]]. exists a. split; [right; exact Ha|exact Hs].
      - exists o. split; [left; reflexivity|lia]. }
    destruct Hex as [a [Ha Hs]]. destruct (sum_pos_exists all_ids _ Hs) as [z [Hz Hd]].
    unfold all_obs in Ha. apply in_seq in Ha. destruct (nth_error specs a) as [[ida addra]|] eqn:Esa; [|apply nth_error_None in Esa; lia].
    unfold all_ids in Hz. apply in_map_iff in Hz as [[idb addrb] [Hz Hzin]]. cbn [fst] in Hz. subst z.
    apply In_nth_error in Hzin as [b Hsb].
    exists a, b, ida, addra, idb, addrb. split; [|auto].
    intros <-. rewrite Esa in Hsb. injection Hsb as <- <-. rewrite (own_deficit_zero w a ida addra Hr Esa) in Hd. lia.
  Qed.

  Theorem rounds_converge rs : forall w,
    specs <> [] -> quiet w -> good_rounds w rs -> Forall covers rs -> (PsiAll w <= List.length rs)%nat ->
    quiet (run_rounds w rs) /\ PsiAll (run_rounds w rs) = 0%nat.
  Proof.
    induction rs as [|r rs IH]; intros w Hne Hq Hg Hc Hlen; [split; [exact Hq|cbn in *; lia]|].
    destruct Hg as [Hg0 Hg]. inversion Hc as [|? ? Hc0 Hc']; subst.
    unfold run_rounds. cbn [fold_left]. fold (run_rounds (run_pulls w r) rs).
    destruct (nth_error specs 0) as [[x0 a0]|] eqn:E00; [|apply nth_error_None in E00; destruct specs; [contradiction|cbn in E00; lia]].
    destruct (run_pulls_safe r w 0%nat x0 a0 E00 Hq) as [Hq1 Hm1]. pose proof (Psi_le _ _ Hm1) as HP1.
    destruct (Nat.eq_dec (PsiAll w) 0) as [Ez|Ez].
    - apply IH; [exact Hne|exact Hq1|exact Hg|exact Hc'|lia].
    - destruct Hq as [Hr [Hs Hn]].
      destruct (Psi_pos_pair w Hr ltac:(lia)) as [a [b [ida [addra [idb [addrb [Hab [Hsa [Hsb Hd]]]]]]]]].
      pose proof (run_pulls_progress r w a b ida addra idb addrb (conj Hr (conj Hs Hn)) Hg0 Hab Hsa Hsb (Hc0 a b ida addra idb addrb Hab Hsa Hsb) Hd) as Hlt.
      apply IH; [exact Hne|exact Hq1|exact Hg|exact Hc'|cbn [List.length] in Hlen; lia].
  Qed.

  Lemma sum_zero_in {A} (l : list A) (f : A -> nat) x : sum_nat (map f l) = 0%nat -> In x l -> f x = 0%nat.
  Proof. induction l as [|y l IH]; cbn; intros H Hin; [destruct Hin|]. destruct Hin as [<-|Hin]; [lia|apply IH; [lia|exact Hin]]. Qed.

  Lemma Psi_zero_pair w a z : PsiAll w = 0%nat -> In a all_obs -> In z all_ids -> pair_deficit w a z = 0%nat.
  Proof.
    unfold PsiAll, Psi. induction all_obs as [|o obs IH]; intros H Ha Hz; [destruct Ha|]. cbn [flat_map] in H. rewrite sum_nat_app in H.
    destruct Ha as [->|Ha]; [|apply IH; [lia|exact Ha|exact Hz]].
    apply (sum_zero_in all_ids (fun id => pair_deficit w a id) z); [lia|exact Hz].
  Qed.

  (* zero total deficit = every view of every other node IS that node's own state *)
  Theorem converged_views w a b ida addra idb addrb ca cb V O :
    reach (init_world specs) w -> PsiAll w = 0%nat -> a <> b ->
    nth_error specs a = Some (ida, addra) -> nth_error specs b = Some (idb, addrb) ->
    nth_error (w_nodes w) a = Some ca -> nth_error (w_nodes w) b = Some cb ->
    lookup idb (c_nodes ca) = Some V -> lookup idb (c_nodes cb) = Some O ->
    n_ver V = n_ver O /\ forall k, lookup k (n_ents V) = lookup k (n_ents O).
  Proof.
    intros Hr Hz Hab Hsa Hsb Hca Hcb HV HO.
    destruct (views_valid specs ids_nodup addrs_nodup b idb addrb Hsb w Hr) as [cb' [O' [Hcb' [HO' [HOI HVal]]]]].
    rewrite Hcb in Hcb'. injection Hcb' as <-. rewrite HO in HO'. injection HO' as <-.
    apply (stuck_is_converged O V (log_of w idb) HOI (HVal a ca V Hca Hab HV)).
    assert (Hp : pair_deficit w a idb = 0%nat).
    { apply (Psi_zero_pair w a idb Hz (obs_in a ida addra Hsa)). unfold all_ids. apply in_map_iff.
      exists (idb, addrb). split; [reflexivity|apply (nth_error_In _ _ Hsb)]. }
    unfold pair_deficit, node_ver in Hp. rewrite Hca in Hp. unfold ver_of in Hp. rewrite HV in Hp. exact Hp.
  Qed.
End Rounds.
