(* C02 at the level of the whole cluster: for a fixed owner x, in every world reachable without expiry,
   every other node's view of x is Valid with respect to x's own state and write log. *)
From Coq Require Import List String NArith ZArith Bool Lia Permutation Sorted.
From Piko Require Import Base.Maps Base.Strs Gossip.Types Gossip.Local Gossip.Apply Gossip.Codec Gossip.World.
From Piko Require Import GossipP.SortP GossipP.LocalP GossipP.Valid GossipP.ApplyValid GossipP.ApplyP GossipP.CodecP
     GossipP.WatchP GossipP.MemberP.
Import ListNotations.
Open Scope string_scope. Open Scope list_scope. Open Scope N_scope.

(* ---------- list helpers ---------- *)
Lemma nth_error_set_nth_eq {A} (l : list A) i x : (i < List.length l)%nat -> nth_error (set_nth i x l) i = Some x.
Proof.
  revert i. induction l as [|y l IH]; intros i Hi; cbn in Hi; [lia|].
  destruct i; cbn; [reflexivity|]. apply IH. lia.
Qed.

Lemma nth_error_set_nth_ne {A} (l : list A) i j x : i <> j -> nth_error (set_nth i x l) j = nth_error l j.
Proof.
  revert i j. induction l as [|y l IH]; intros i j Hne; [destruct i; reflexivity|].
  destruct i, j; cbn; try reflexivity; try congruence. apply IH. congruence.
Qed.

Lemma nth_error_set_nth {A} (l : list A) i j x :
  nth_error (set_nth i x l) j = if Nat.eqb i j then (match nth_error l j with Some _ => Some x | None => None end) else nth_error l j.
Proof.
  destruct (Nat.eqb i j) eqn:E.
  - apply Nat.eqb_eq in E. subst j. destruct (nth_error l i) eqn:En.
    + apply nth_error_set_nth_eq. apply nth_error_Some. congruence.
    + apply nth_error_None in En. apply nth_error_None.
      assert (Hl : List.length (set_nth i x l) = List.length l).
      { clear. revert i. induction l as [|y l IH]; intros i; destruct i; cbn; auto. }
      lia.
  - apply Nat.eqb_neq in E. apply nth_error_set_nth_ne, E.
Qed.

Lemma set_nth_length {A} (l : list A) i x : List.length (set_nth i x l) = List.length l.
Proof. revert i. induction l as [|y l IH]; intros i; destruct i; cbn; auto. Qed.

Lemma In_remove_nth {A} (l : list A) i x : In x (remove_nth i l) -> In x l.
Proof.
  revert i. induction l as [|y l IH]; intros i; destruct i; cbn; auto.
  intros [H|H]; [left; exact H|right; apply (IH _ H)].
Qed.

(* ---------- what packets are made of ---------- *)
Lemma delta_cut_parts dl parts :
  delta_cut dl parts -> forall pt, In pt parts -> exists de, In de dl /\ dp_id pt = de_id de /\ is_prefix_of (dp_ents pt) (de_ents de).
Proof.
  induction 1 as [dl|de dl ps Hc IH|de dl es Hp Hl]; intros pt Hin; [destruct Hin| |].
  - destruct Hin as [<-|Hin].
    + exists de. split; [left; reflexivity|]. split; [reflexivity|]. exists []. cbn. rewrite app_nil_r. reflexivity.
    + destruct (IH pt Hin) as [de' [H1 H2]]. exists de'. split; [right; exact H1|exact H2].
  - destruct Hin as [<-|[]]. exists de. split; [left; reflexivity|]. split; [reflexivity|exact Hp].
Qed.

Lemma delta_for_entries c dg de :
  wf_c c -> In de (delta_for c dg) ->
  exists d s, In d dg /\ lookup (d_id d) (c_nodes c) = Some s /\ de = delta_entry_of s (d_ver d) /\ de_id de = d_id d.
Proof.
  intros Hw Hin. unfold delta_for in Hin. apply in_flat_map in Hin. destruct Hin as [d [Hd Hin]].
  destruct (lookup (d_id d) (c_nodes c)) as [s|] eqn:E; [|destruct Hin].
  destruct (de_ents (delta_entry_of s (d_ver d))); [destruct Hin|]. destruct Hin as [<-|[]].
  exists d, s. repeat split; auto. cbn. apply (Hw _ _ E).
Qed.

Lemma digest_in_order_entries c order dg :
  wf_c c -> digest_in_order c order = Some dg ->
  forall de, In de dg -> exists s, lookup (d_id de) (c_nodes c) = Some s /\ d_ver de = n_ver s.
Proof.
  intros Hw. revert dg. induction order as [|id order IH]; intros dg; cbn [digest_in_order fold_right].
  - intros [= <-] de [].
  - fold (digest_in_order c order). destruct (digest_in_order c order) as [l|]; [|discriminate].
    destruct (lookup id (c_nodes c)) as [s|] eqn:E; [|discriminate]. intros [= <-] de [<-|Hin].
    + exists s. cbn. rewrite (Hw _ _ E). auto.
    + apply (IH l eq_refl de Hin).
Qed.

Lemma make_delta_packet_parts c dst dl max p :
  make_delta_packet c dst dl max = Some p ->
  p_dst p = dst /\ exists fid faddr parts, p_body p = PDelta fid faddr parts /\ delta_cut dl parts.
Proof.
  unfold make_delta_packet. destruct (local_node c) as [me|]; [|discriminate].
  unfold cut_delta. destruct (max <? blen (delta_prefix (n_id me) (n_addr me))) eqn:E; [discriminate|].
  apply N.ltb_ge in E. intros [= <-]. split; [reflexivity|]. eexists _, _, _. split; [reflexivity|].
  apply (cut_delta_from_spec max (blen (delta_prefix (n_id me) (n_addr me))) dl E).
Qed.

Lemma make_digest_packet_body c dst req order max p :
  make_digest_packet c dst req order max = Some p ->
  p_dst p = dst /\ exists me dg, local_node c = Some me /\ p_body p = PDigest (n_id me) (n_addr me) req dg /\ digest_in_order c order = Some dg.
Proof.
  unfold make_digest_packet. destruct (local_node c) as [me|]; [|discriminate].
  destruct (max <? blen (digest_prefix (n_id me) (n_addr me) req)); [discriminate|].
  destruct (digest_order_ok c (n_id me) (n_addr me) req order max); [|discriminate].
  destruct (digest_in_order c order) as [dg|] eqn:Ed; [|discriminate].
  intros [= <-]. split; [reflexivity|]. exists me, dg. auto.
Qed.

Lemma handle_state c b max nows order :
  h_state (handle_packet c b max nows order) =
  match b with
  | PDigest _ _ _ dg => fst (apply_digest c dg)
  | PDelta _ _ parts => fst (apply_delta nows c (map part_to_delta parts))
  end.
Proof.
  destruct b as [fid faddr req dg|fid faddr parts]; cbn [handle_packet].
  - destruct (apply_digest c dg) as [c1 ev]. cbn [fst].
    destruct (make_delta_packet c1 faddr (delta_for c1 dg) max); [|reflexivity].
    destruct req; [|reflexivity]. destruct (local_node c1); [|reflexivity].
    destruct (max <? blen (digest_prefix (n_id n) (n_addr n) false)); [reflexivity|].
    destruct (make_digest_packet c1 faddr false order max); reflexivity.
  - destruct (apply_delta nows c (map part_to_delta parts)). reflexivity.
Qed.

Lemma handle_out c b max nows order p' :
  In p' (h_out (handle_packet c b max nows order)) ->
  match b with
  | PDigest _ faddr _ dg =>
      let c1 := fst (apply_digest c dg) in
      make_delta_packet c1 faddr (delta_for c1 dg) max = Some p' \/ make_digest_packet c1 faddr false order max = Some p'
  | PDelta _ _ _ => False
  end.
Proof.
  destruct b as [fid faddr req dg|fid faddr parts]; cbn [handle_packet].
  - destruct (apply_digest c dg) as [c1 ev]. cbn [fst].
    destruct (make_delta_packet c1 faddr (delta_for c1 dg) max) as [pd|] eqn:Ed; [|intros []].
    destruct req; [|intros [<-|[]]; left; reflexivity]. destruct (local_node c1); [|intros [<-|[]]; left; reflexivity].
    destruct (max <? blen (digest_prefix (n_id n) (n_addr n) false)); [intros [<-|[]]; left; reflexivity|].
    destruct (make_digest_packet c1 faddr false order max) as [pg|] eqn:Eg.
    + intros [<-|[<-|[]]]; [left|right]; reflexivity.
    + intros [<-|[]]; left; reflexivity.
  - destruct (apply_delta nows c (map part_to_delta parts)). intros [].
Qed.

Section Owner.
  Variable specs : list (string * string).
  Hypothesis ids_nodup : NoDup (map fst specs).
  Hypothesis addrs_nodup : NoDup (map snd specs).
  Variables (jx : nat) (x xaddr : string).
  Hypothesis Hjx : nth_error specs jx = Some (x, xaddr).

  (* ---------- structural invariant ---------- *)
  Definition node_ok (j : nat) (c : cstate) : Prop :=
    exists id addr me, nth_error specs j = Some (id, addr) /\ c_local c = id /\ (wf_c c /\ NoDup (keys (c_nodes c))) /\
                       lookup id (c_nodes c) = Some me /\ n_addr me = addr.

  Definition WS (w : world) : Prop :=
    List.length (w_nodes w) = List.length specs /\
    forall j c, nth_error (w_nodes w) j = Some c -> node_ok j c.

  Lemma spec_id_inj i j id a1 a2 : nth_error specs i = Some (id, a1) -> nth_error specs j = Some (id, a2) -> i = j.
  Proof.
    intros H1 H2. apply (proj1 (NoDup_nth_error (map fst specs)) ids_nodup).
    - rewrite map_length. apply (proj1 (nth_error_Some specs i)). rewrite H1. discriminate.
    - rewrite !nth_error_map, H1, H2. reflexivity.
  Qed.

  Lemma spec_addr_inj i j i1 i2 a : nth_error specs i = Some (i1, a) -> nth_error specs j = Some (i2, a) -> i = j.
  Proof.
    intros H1 H2. apply (proj1 (NoDup_nth_error (map snd specs)) addrs_nodup).
    - rewrite map_length. apply (proj1 (nth_error_Some specs i)). rewrite H1. discriminate.
    - rewrite !nth_error_map, H1, H2. reflexivity.
  Qed.

  Lemma node_ok_local j c : node_ok j c -> (c_local c = x <-> j = jx).
  Proof.
    intros [id [addr [me [Hs [Hl _]]]]]. split.
    - intros Hx. rewrite Hl in Hx. rewrite Hx in Hs. exact (spec_id_inj j jx x addr xaddr Hs Hjx).
    - intros ->. rewrite Hjx in Hs. injection Hs as <- <-. exact Hl.
  Qed.

  (* find_node_by_addr returns the node whose spec carries that address *)
  Lemma find_by_addr_go (nodes : list cstate) base addr :
    (forall j c, nth_error nodes j = Some c -> node_ok (base + j) c) ->
    forall d, (fix go (i : nat) (l : list cstate) :=
                 match l with
                 | [] => None
                 | c :: r => match local_node c with
                             | Some s => if String.eqb (n_addr s) addr then Some i else go (S i) r
                             | None => go (S i) r end
                 end) base nodes = Some d ->
    exists id, nth_error specs d = Some (id, addr) /\ (base <= d)%nat /\ nth_error nodes (d - base) <> None.
  Proof.
    revert base. induction nodes as [|c r IH]; intros base Hok d; [discriminate|].
    destruct (Hok 0%nat c eq_refl) as [id [a [me [Hs [Hl [_ [Hme Ha]]]]]]]. rewrite Nat.add_0_r in Hs.
    unfold local_node. rewrite Hl, Hme, Ha.
    destruct (String.eqb a addr) eqn:E.
    - intros [= <-]. apply String.eqb_eq in E. exists id. split; [rewrite <- E; exact Hs|]. split; [lia|].
      rewrite Nat.sub_diag. discriminate.
    - intros Hgo. destruct (IH (S base)) with (d := d) as [id' [H1 [H2 H3]]]; [|exact Hgo|].
      + intros j c' Hj. replace (S base + j)%nat with (base + S j)%nat by lia. apply Hok. exact Hj.
      + exists id'. split; [exact H1|]. split; [lia|].
        replace (d - base)%nat with (S (d - S base))%nat by lia. exact H3.
  Qed.

  Lemma find_by_addr w addr d :
    WS w -> find_node_by_addr (w_nodes w) addr = Some d ->
    exists id c, nth_error specs d = Some (id, addr) /\ nth_error (w_nodes w) d = Some c.
  Proof.
    intros [_ Hok] Hf. unfold find_node_by_addr in Hf.
    destruct (find_by_addr_go (w_nodes w) 0 addr Hok d Hf) as [id [H1 [_ H3]]].
    rewrite Nat.sub_0_r in H3. destruct (nth_error (w_nodes w) d) as [c|] eqn:E; [|contradiction].
    exists id, c. auto.
  Qed.

  Lemma node_ok_digest j c dg : node_ok j c -> node_ok j (fst (apply_digest c dg)).
  Proof.
    intros [id [addr [me [Hs [Hl [[Hw Hnd] [Hme Ha]]]]]]].
    assert (Hm : mem id (c_nodes c) = true) by (unfold mem; rewrite Hme; reflexivity).
    destruct (dig_fold_local dg c [] id Hm) as [H1 H2]. fold (apply_digest c dg) in H1, H2.
    exists id, addr, me. split; [exact Hs|]. split; [congruence|].
    split; [split; [apply apply_digest_wf, Hw|apply (dig_fold_nodup dg c [] Hnd)]|]. split; [congruence|exact Ha].
  Qed.

  Lemma node_ok_delta j c nows dl : node_ok j c -> node_ok j (fst (apply_delta nows c dl)).
  Proof.
    intros [id [addr [me [Hs [Hl [[Hw Hnd] [Hme Ha]]]]]]]. destruct (apply_delta_local nows c dl) as [H1 H2].
    exists id, addr, me. split; [exact Hs|]. split; [congruence|].
    split; [split; [apply apply_delta_wf, Hw|apply (delta_fold_nodup nows dl c [] Hnd)]|].
    split; [rewrite <- Hl, H1, Hl; exact Hme|exact Ha].
  Qed.

  Lemma node_ok_liveness j c suspect nows : node_ok j c -> node_ok j (fst (update_liveness suspect nows c)).
  Proof.
    intros [id [addr [me [Hs [Hl [[Hw Hnd] [Hme Ha]]]]]]]. destruct (update_liveness_local suspect nows c Hw) as [H1 H2].
    exists id, addr, me. split; [exact Hs|]. split; [congruence|].
    split; [split; [apply update_liveness_wf, Hw|apply update_liveness_nodup, Hnd]|].
    split; [rewrite <- Hl, H1, Hl; exact Hme|exact Ha].
  Qed.

  Lemma node_ok_handle j c b max nows order : node_ok j c -> node_ok j (h_state (handle_packet c b max nows order)).
  Proof.
    intros H. rewrite handle_state. destruct b; [apply node_ok_digest, H|apply node_ok_delta, H].
  Qed.

  (* ---------- the invariant for owner x ---------- *)
  Definition cur_ver (w : world) (a : nat) : N :=
    match nth_error (w_nodes w) a with
    | Some c => match lookup x (c_nodes c) with Some V => n_ver V | None => 0 end
    | None => 0
    end.

  Definition src (d : N) (S : node_state) : list entry := sort_by_ver (filter (fun e => d <? e_ver e) (values (n_ents S))).

  Definition part_ok (w : world) (O : node_state) (L : list entry) (a : nat) (id : string) (es : list entry) : Prop :=
    id = x -> a <> jx -> exists S d, Valid S O L /\ is_prefix_of es (src d S) /\ d <= cur_ver w a.

  Definition packet_ok (w : world) (O : node_state) (L : list entry) (p : packet) : Prop :=
    match p_body p with
    | PDigest _ from_addr _ dg =>
        forall a ida, nth_error specs a = Some (ida, from_addr) ->
                      forall de, In de dg -> d_id de = x -> d_ver de <= cur_ver w a
    | PDelta _ _ parts =>
        forall a ida, nth_error specs a = Some (ida, p_dst p) ->
                      forall pt, In pt parts -> part_ok w O L a (dp_id pt) (dp_ents pt)
    end.

  Definition WXc (w : world) (cx : cstate) (O : node_state) : Prop :=
    WS w /\ nth_error (w_nodes w) jx = Some cx /\ lookup x (c_nodes cx) = Some O /\
    OwnInv O (log_of w x) /\
    (forall o c V, nth_error (w_nodes w) o = Some c -> o <> jx -> lookup x (c_nodes c) = Some V -> Valid V O (log_of w x)) /\
    (forall p, In p (w_net w) -> packet_ok w O (log_of w x) p).

  Definition WX (w : world) : Prop := exists cx O, WXc w cx O.

  (* ---------- frame: a step that leaves the owner alone ---------- *)
  Lemma part_ok_mono w w' O L a id es :
    (forall b, cur_ver w b <= cur_ver w' b) -> part_ok w O L a id es -> part_ok w' O L a id es.
  Proof.
    intros Hm H Hid Ha. destruct (H Hid Ha) as [S [d [H1 [H2 H3]]]]. exists S, d. split; [exact H1|]. split; [exact H2|].
    specialize (Hm a). lia.
  Qed.

  Lemma packet_ok_mono w w' O L p :
    (forall b, cur_ver w b <= cur_ver w' b) -> packet_ok w O L p -> packet_ok w' O L p.
  Proof.
    intros Hm H. unfold packet_ok in *. destruct (p_body p) as [fi fa rq dg|fi fa parts].
    - intros a ida Ha de Hde Hx. specialize (H a ida Ha de Hde Hx). specialize (Hm a). lia.
    - intros a ida Ha pt Hpt. apply (part_ok_mono w w'); [exact Hm|]. apply (H a ida Ha pt Hpt).
  Qed.

  Definition ver0 (o : option node_state) : N := match o with Some V => n_ver V | None => 0 end.

  Lemma cur_ver_eq w a : cur_ver w a = match nth_error (w_nodes w) a with Some c => ver0 (lookup x (c_nodes c)) | None => 0 end.
  Proof. reflexivity. Qed.

  (* a step that rewrites node d (possibly the owner's node, but not the owner's own state) and the network *)
  Lemma frame_one w cx O d c c' net' :
    WXc w cx O -> nth_error (w_nodes w) d = Some c -> node_ok d c' ->
    (d = jx -> lookup x (c_nodes c') = lookup x (c_nodes c)) ->
    (d <> jx -> forall V, lookup x (c_nodes c') = Some V -> Valid V O (log_of w x)) ->
    ver0 (lookup x (c_nodes c)) <= ver0 (lookup x (c_nodes c')) ->
    (forall p, In p net' -> In p (w_net w) \/ packet_ok (with_nodes w (set_nth d c' (w_nodes w)) net') O (log_of w x) p) ->
    exists cx', WXc (with_nodes w (set_nth d c' (w_nodes w)) net') cx' O.
  Proof.
    intros [[Hlen Hnodes] [Hcx [HO [HOI [Hv Hp]]]]] Hd Hok Hown Hval Hver Hnet.
    set (w' := with_nodes w (set_nth d c' (w_nodes w)) net').
    assert (Hdl : (d < List.length (w_nodes w))%nat). { apply nth_error_Some. congruence. }
    assert (Hmono : forall b, cur_ver w b <= cur_ver w' b).
    { intros b. rewrite !cur_ver_eq. unfold w'. cbn [w_nodes with_nodes]. rewrite nth_error_set_nth. destruct (Nat.eqb d b) eqn:E.
      - apply Nat.eqb_eq in E. subst b. rewrite Hd. exact Hver.
      - destruct (nth_error (w_nodes w) b); lia. }
    assert (Hlog : log_of w' x = log_of w x) by reflexivity.
    exists (if Nat.eqb d jx then c' else cx). unfold WXc. rewrite Hlog. split; [|split; [|split; [|split; [exact HOI|split]]]].
    - split.
      + unfold w'. cbn [w_nodes with_nodes]. clear -Hlen. rewrite <- Hlen. generalize (w_nodes w). intros l. revert d.
        induction l as [|y l IH]; intros d; destruct d; cbn; auto.
      + intros j cj. unfold w'. cbn [w_nodes with_nodes]. rewrite nth_error_set_nth. destruct (Nat.eqb d j) eqn:E.
        * apply Nat.eqb_eq in E. subst j. rewrite Hd. intros [= <-]. exact Hok.
        * apply Hnodes.
    - unfold w'. cbn [w_nodes with_nodes]. rewrite nth_error_set_nth. destruct (Nat.eqb d jx) eqn:E; [|exact Hcx].
      apply Nat.eqb_eq in E. subst d. rewrite Hcx. reflexivity.
    - destruct (Nat.eqb d jx) eqn:E; [|exact HO]. apply Nat.eqb_eq in E. rewrite (Hown E). subst d. congruence.
    - intros o co V. unfold w'. cbn [w_nodes with_nodes]. rewrite nth_error_set_nth. destruct (Nat.eqb d o) eqn:E.
      + apply Nat.eqb_eq in E. subst o. rewrite Hd. intros [= <-] Hne HV. apply (Hval Hne V HV).
      + intros Hco Hne HV. apply (Hv o co V Hco Hne HV).
    - intros p Hin. destruct (Hnet p Hin) as [Hold|Hnew]; [|exact Hnew].
      apply (packet_ok_mono w w'); [exact Hmono|apply Hp, Hold].
  Qed.

  (* ---------- what receiver operations do to a node's view of x ---------- *)
  Lemma dig_fold_view dg : forall c ev,
    lookup x (c_nodes (fst (fold_left dig_step dg (c, ev)))) = lookup x (c_nodes c) \/
    (lookup x (c_nodes c) = None /\ exists addr, lookup x (c_nodes (fst (fold_left dig_step dg (c, ev)))) = Some (new_node x addr)).
  Proof.
    induction dg as [|d dg IH]; intros c ev; cbn [fold_left]; [left; reflexivity|].
    assert (Hstep : dig_step (c, ev) d =
                    if mem (d_id d) (c_nodes c) then (c, ev) else if d_left d then (c, ev)
                    else (set_nodes c (insert (d_id d) (new_node (d_id d) (d_addr d)) (c_nodes c)), ev ++ [EJoin (d_id d)])) by reflexivity.
    rewrite Hstep. destruct (mem (d_id d) (c_nodes c)) eqn:Em; [apply IH|]. destruct (d_left d); [apply IH|].
    set (c1 := set_nodes c (insert (d_id d) (new_node (d_id d) (d_addr d)) (c_nodes c))).
    assert (H1 : lookup x (c_nodes c1) = if String.eqb x (d_id d) then Some (new_node (d_id d) (d_addr d)) else lookup x (c_nodes c)).
    { unfold c1. cbn [c_nodes set_nodes]. apply lookup_insert. }
    destruct (String.eqb x (d_id d)) eqn:E.
    - apply String.eqb_eq in E. right. split; [unfold mem in Em; rewrite <- E in Em; destruct (lookup x (c_nodes c)); [discriminate|reflexivity]|].
      exists (d_addr d). rewrite (dig_fold_keeps dg c1 _ x _ H1). rewrite E. reflexivity.
    - destruct (IH c1 (ev ++ [EJoin (d_id d)])) as [H|[H [addr Ha]]].
      + left. rewrite H, H1. reflexivity.
      + right. split; [rewrite <- H1; exact H|]. exists addr. exact Ha.
  Qed.

  Lemma apply_delta_entry_view O L nows c de :
    OwnInv O L -> c_local c <> x ->
    (forall V, lookup x (c_nodes c) = Some V -> Valid V O L) ->
    (de_id de = x -> exists S d, Valid S O L /\ is_prefix_of (de_ents de) (src d S) /\ d <= ver0 (lookup x (c_nodes c))) ->
    let c' := fst (apply_delta_entry nows c de) in
    (forall V', lookup x (c_nodes c') = Some V' -> Valid V' O L) /\
    ver0 (lookup x (c_nodes c)) <= ver0 (lookup x (c_nodes c')) /\ c_local c' = c_local c.
  Proof.
    intros HO Hloc Hv Hpart. cbn zeta. rewrite apply_delta_entry_nodes.
    split; [|split; [|apply apply_delta_entry_local]].
    - destruct (String.eqb (de_id de) (c_local c)); [exact Hv|]. intros V'. rewrite lookup_insert.
      destruct (String.eqb x (de_id de)) eqn:E; [|apply Hv].
      apply String.eqb_eq in E. intros [= <-]. destruct (Hpart (eq_sym E)) as [S [d [HS [Hp Hd]]]].
      rewrite <- E. destruct (lookup x (c_nodes c)) as [B|] eqn:EB.
      + apply (apply_prefix_valid O S L d _ _ HO HS B (de_ents de) (Hv B eq_refl)); assumption.
      + apply (apply_prefix_valid O S L d _ _ HO HS (new_node x (de_addr de)) (de_ents de) (Valid_new _ _ _ _ HO)); assumption.
    - destruct (String.eqb (de_id de) (c_local c)); [lia|]. rewrite lookup_insert.
      destruct (String.eqb x (de_id de)) eqn:E; [|lia].
      apply String.eqb_eq in E. destruct (Hpart (eq_sym E)) as [S [d [HS [Hp Hd]]]]. rewrite <- E. cbn [ver0].
      destruct (lookup x (c_nodes c)) as [B|] eqn:EB.
      + apply (apply_prefix_valid O S L d _ _ HO HS B (de_ents de) (Hv B eq_refl)); assumption.
      + pose proof (proj2 (apply_prefix_valid O S L d (now_of nows x) x HO HS (new_node x (de_addr de)) (de_ents de) (Valid_new _ _ _ _ HO) Hd Hp)) as H.
        cbn [ver0 n_ver new_node] in *. lia.
  Qed.

  Lemma delta_fold_view O L nows dl : forall c ev,
    OwnInv O L -> c_local c <> x ->
    (forall V, lookup x (c_nodes c) = Some V -> Valid V O L) ->
    (forall de, In de dl -> de_id de = x -> exists S d, Valid S O L /\ is_prefix_of (de_ents de) (src d S) /\ d <= ver0 (lookup x (c_nodes c))) ->
    (forall V', lookup x (c_nodes (fst (fold_left (delta_step nows) dl (c, ev)))) = Some V' -> Valid V' O L) /\
    ver0 (lookup x (c_nodes c)) <= ver0 (lookup x (c_nodes (fst (fold_left (delta_step nows) dl (c, ev))))).
  Proof.
    induction dl as [|de dl IH]; intros c ev HO Hloc Hv Hparts; cbn [fold_left]; [cbn [fst]; split; [exact Hv|lia]|].
    assert (Hstep : delta_step nows (c, ev) de = (fst (apply_delta_entry nows c de), ev ++ snd (apply_delta_entry nows c de))).
    { unfold delta_step. destruct (apply_delta_entry nows c de). reflexivity. }
    rewrite Hstep.
    destruct (apply_delta_entry_view O L nows c de HO Hloc Hv (Hparts de (or_introl eq_refl))) as [H1 [H2 H3]].
    destruct (IH (fst (apply_delta_entry nows c de)) (ev ++ snd (apply_delta_entry nows c de)) HO) as [A B].
    - rewrite H3. exact Hloc.
    - exact H1.
    - intros de' Hin Hid. destruct (Hparts de' (or_intror Hin) Hid) as [S [d [P1 [P2 P3]]]]. exists S, d. split; [exact P1|]. split; [exact P2|lia].
    - split; [exact A|lia].
  Qed.


  (* ---------- steps ---------- *)
  Lemma WXc_net_subset w cx O net' : WXc w cx O -> (forall p, In p net' -> In p (w_net w)) -> WXc (with_nodes w (w_nodes w) net') cx O.
  Proof.
    intros [HS [Hcx [HO [HOI [Hv Hp]]]]] Hsub. unfold WXc. cbn [w_nodes w_net with_nodes].
    change (log_of (with_nodes w (w_nodes w) net') x) with (log_of w x).
    split; [exact HS|]. split; [exact Hcx|]. split; [exact HO|]. split; [exact HOI|]. split; [exact Hv|].
    intros p Hin. apply (packet_ok_mono w); [intros b; apply N.le_refl|apply Hp, Hsub, Hin].
  Qed.

  Lemma own_of_node w cx O d c : WXc w cx O -> nth_error (w_nodes w) d = Some c -> d = jx -> lookup x (c_nodes c) = Some O /\ c_local c = x.
  Proof.
    intros [[_ Hn] [Hcx [HO _]]] Hd ->. assert (c = cx) by congruence. subst c. split; [exact HO|].
    apply (node_ok_local jx cx (Hn _ _ Hcx)). reflexivity.
  Qed.

  Lemma handle_step w cx O d c p max nows order net' idd :
    WXc w cx O -> nth_error (w_nodes w) d = Some c -> In p (w_net w) -> nth_error specs d = Some (idd, p_dst p) ->
    (forall q, In q net' -> In q (w_net w)) ->
    let hd := handle_packet c (p_body p) max nows order in
    exists cx', WXc (with_nodes w (set_nth d (h_state hd) (w_nodes w)) (net' ++ h_out hd)) cx' O.
  Proof.
    intros HW Hd Hpin Hspec Hsub hd. pose proof HW as [[Hlen Hnodes] [Hcx [HO [HOI [Hv Hp]]]]].
    pose proof (Hnodes _ _ Hd) as Hok. pose proof (Hp p Hpin) as Hpok.
    assert (Hloc : d <> jx -> c_local c <> x). { intros Hne Hx. apply Hne. apply (node_ok_local d c Hok), Hx. }
    (* the view of x at d after handling *)
    assert (Hview : (d = jx -> lookup x (c_nodes (h_state hd)) = lookup x (c_nodes c)) /\
                    (d <> jx -> forall V, lookup x (c_nodes (h_state hd)) = Some V -> Valid V O (log_of w x)) /\
                    ver0 (lookup x (c_nodes c)) <= ver0 (lookup x (c_nodes (h_state hd)))).
    { unfold hd. rewrite handle_state. unfold packet_ok in Hpok. destruct (p_body p) as [fid faddr req dg|fid faddr parts].
      - destruct (dig_fold_view dg c []) as [Hsame|[Hnone [addr Hnew]]]; fold (apply_digest c dg) in *.
        + rewrite Hsame. split; [reflexivity|]. split; [|lia]. intros Hne V HV. apply (Hv d c V Hd Hne HV).
        + split; [|split].
          * intros Heq. destruct (own_of_node w cx O d c HW Hd Heq) as [H1 _]. congruence.
          * intros Hne V. rewrite Hnew. intros [= <-]. apply Valid_new, HOI.
          * rewrite Hnone, Hnew. cbn. lia.
      - split; [|split].
        + intros Heq. destruct (own_of_node w cx O d c HW Hd Heq) as [_ H2]. rewrite <- H2.
          apply (apply_delta_local nows c (map part_to_delta parts)).
        + intros Hne. apply (delta_fold_view O (log_of w x) nows (map part_to_delta parts) c [] HOI (Hloc Hne)).
          * intros V HV. apply (Hv d c V Hd Hne HV).
          * intros de Hin Hid. apply in_map_iff in Hin. destruct Hin as [pt [<- Hpt]]. cbn in Hid.
            destruct (Hpok d idd Hspec pt Hpt Hid Hne) as [S [d0 [H1 [H2 H3]]]]. exists S, d0. split; [exact H1|]. split; [exact H2|].
            rewrite cur_ver_eq, Hd in H3. exact H3.
        + destruct (Nat.eq_dec d jx) as [Heq|Hne].
          * destruct (own_of_node w cx O d c HW Hd Heq) as [_ H2]. rewrite <- H2.
            rewrite (proj1 (apply_delta_local nows c (map part_to_delta parts))). lia.
          * apply (delta_fold_view O (log_of w x) nows (map part_to_delta parts) c [] HOI (Hloc Hne)).
            -- intros V HV. apply (Hv d c V Hd Hne HV).
            -- intros de Hin Hid. apply in_map_iff in Hin. destruct Hin as [pt [<- Hpt]]. cbn in Hid.
               destruct (Hpok d idd Hspec pt Hpt Hid Hne) as [S [d0 [H1 [H2 H3]]]]. exists S, d0. split; [exact H1|]. split; [exact H2|].
               rewrite cur_ver_eq, Hd in H3. exact H3. }
    destruct Hview as [Hv1 [Hv2 Hv3]].
    apply (frame_one w cx O d c (h_state hd) (net' ++ h_out hd) HW Hd); auto.
    - apply node_ok_handle, Hok.
    - (* packets *)
      intros q Hq. apply in_app_or in Hq. destruct Hq as [Hq|Hq]; [left; apply Hsub, Hq|]. right.
      set (w' := with_nodes w (set_nth d (h_state hd) (w_nodes w)) (net' ++ h_out hd)).
      assert (Hcur : forall b, cur_ver w b <= cur_ver w' b).
      { intros b. rewrite !cur_ver_eq. unfold w'. cbn [w_nodes with_nodes]. rewrite nth_error_set_nth. destruct (Nat.eqb d b) eqn:E.
        - apply Nat.eqb_eq in E. subst b. rewrite Hd. exact Hv3.
        - destruct (nth_error (w_nodes w) b); lia. }
      assert (Hcurd : cur_ver w' d = ver0 (lookup x (c_nodes (h_state hd)))).
      { rewrite cur_ver_eq. unfold w'. cbn [w_nodes with_nodes]. rewrite nth_error_set_nth_eq; [reflexivity|]. apply nth_error_Some. congruence. }
      pose proof (handle_out c (p_body p) max nows order q Hq) as Hout. fold hd in Hout.
      unfold packet_ok in Hpok. destruct (p_body p) as [fid faddr req dg|fid faddr parts] eqn:Eb; [|destruct Hout].
      assert (Hst : h_state hd = fst (apply_digest c dg)). { unfold hd. rewrite handle_state. reflexivity. }
      cbn zeta in Hout. rewrite <- Hst in Hout.
      pose proof (node_ok_handle d c (PDigest fid faddr req dg) max nows order Hok) as Hok1. fold hd in Hok1.
      destruct Hok1 as [id1 [addr1 [me1 [Hs1 [Hl1 [[Hw1 Hnd1] [Hme1 Ha1]]]]]]].
      destruct Hout as [Hmk|Hmk].
      + (* the delta reply *)
        destruct (make_delta_packet_parts _ _ _ _ _ Hmk) as [Hdst [fi [fa [parts [Hbody Hcut]]]]].
        unfold packet_ok. rewrite Hbody, Hdst. intros a ida Ha pt Hpt Hid Hane.
        destruct (delta_cut_parts _ _ Hcut pt Hpt) as [de [Hde [Hdid Hpre]]].
        destruct (delta_for_entries _ _ _ Hw1 Hde) as [dgi [s [Hdgi [Hs [Hdeq Hdeid]]]]].
        assert (Hsx : d_id dgi = x) by congruence.
        exists s, (d_ver dgi). split; [|split].
        * rewrite Hsx in Hs. destruct (Nat.eq_dec d jx) as [Heq|Hne].
          -- rewrite (Hv1 Heq) in Hs. destruct (own_of_node w cx O d c HW Hd Heq) as [H1 _]. assert (s = O) by congruence. subst s.
             apply Valid_self, HOI.
          -- apply (Hv2 Hne s Hs).
        * rewrite Hdeq in Hpre. exact Hpre.
        * specialize (Hpok a ida Ha dgi Hdgi Hsx). specialize (Hcur a). lia.
      + (* the digest reply *)
        destruct (make_digest_packet_body _ _ _ _ _ _ Hmk) as [Hdst [me [dg' [Hme [Hbody Hord]]]]].
        unfold packet_ok. rewrite Hbody. intros a ida Ha de Hde Hid.
        unfold local_node in Hme. rewrite Hl1, Hme1 in Hme. injection Hme as <-.
        assert (a = d). { rewrite Ha1 in Ha. rewrite Hspec in Hs1. injection Hs1 as <- <-. apply (spec_addr_inj a d ida idd (p_dst p) Ha Hspec). }
        subst a. rewrite Hcurd. destruct (digest_in_order_entries _ _ _ Hw1 Hord de Hde) as [s [Hs Hver]].
        rewrite Hid in Hs. rewrite Hs. cbn. lia.
  Qed.

  Lemma WXc_net w cx O net' :
    WXc w cx O -> (forall p, In p net' -> In p (w_net w) \/ packet_ok w O (log_of w x) p) -> WXc (with_nodes w (w_nodes w) net') cx O.
  Proof.
    intros [HS [Hcx [HO [HOI [Hv Hp]]]]] Hnet. unfold WXc. cbn [w_nodes w_net with_nodes].
    change (log_of (with_nodes w (w_nodes w) net') x) with (log_of w x).
    split; [exact HS|]. split; [exact Hcx|]. split; [exact HO|]. split; [exact HOI|]. split; [exact Hv|].
    intros p Hin. apply (packet_ok_mono w); [intros b; apply N.le_refl|]. destruct (Hnet p Hin) as [H|H]; [apply Hp, H|exact H].
  Qed.

  Lemma WXc_relog w cx O logs' :
    WXc w cx O -> (match lookup x logs' with Some l => l | None => [] end) = log_of w x ->
    WXc {| w_nodes := w_nodes w; w_net := w_net w; w_logs := logs' |} cx O.
  Proof.
    intros [HS [Hcx [HO [HOI [Hv Hp]]]]] Hlog. unfold WXc, log_of. cbn [w_nodes w_net w_logs]. rewrite Hlog.
    split; [exact HS|]. split; [exact Hcx|]. split; [exact HO|]. split; [exact HOI|]. split; [exact Hv|].
    intros p Hin. apply (packet_ok_mono w); [intros b; apply N.le_refl|apply Hp, Hin].
  Qed.

  (* --- send --- *)
  Lemma send_step w cx O a b order max :
    WXc w cx O -> exists cx', WXc (so_world (wstep w (WSend a b order max))) cx' O.
  Proof.
    intros HW. cbn [wstep]. destruct (nth_error (w_nodes w) a) as [ca|] eqn:Ea; [|exists cx; exact HW].
    destruct (nth_error (w_nodes w) b) as [cb|]; [|exists cx; exact HW].
    destruct (local_node cb) as [sb|]; [|exists cx; exact HW].
    destruct (make_digest_packet ca (n_addr sb) true order max) as [p|] eqn:Emk; [|exists cx; exact HW].
    cbn [so_world]. exists cx. apply WXc_net; [exact HW|]. intros q Hq. apply in_app_or in Hq. destruct Hq as [Hq|[<-|[]]]; [left; exact Hq|right].
    destruct (make_digest_packet_body _ _ _ _ _ _ Emk) as [_ [me [dg [Hme [Hbody Hord]]]]].
    pose proof HW as [[_ Hnodes] _]. destruct (Hnodes _ _ Ea) as [ida [adda [mea [Hsa [Hla [[Hwa Hnda] [Hmea Haa]]]]]]].
    unfold local_node in Hme. rewrite Hla, Hmea in Hme. injection Hme as <-.
    unfold packet_ok. rewrite Hbody. intros a' ida' Ha' de Hde Hid.
    assert (a' = a). { rewrite Haa in Ha'. apply (spec_addr_inj a' a ida' ida adda Ha' Hsa). } subst a'.
    destruct (digest_in_order_entries _ _ _ Hwa Hord de Hde) as [s [Hs Hver]]. rewrite Hid in Hs.
    rewrite cur_ver_eq, Ea, Hs. cbn. lia.
  Qed.

  (* --- deliver / duplicate / drop --- *)
  Lemma deliver_step w cx O i keep max nows order :
    WXc w cx O -> exists cx', WXc (so_world (wstep w (WDeliver i keep max nows order))) cx' O.
  Proof.
    intros HW. cbn [wstep]. destruct (nth_error (w_net w) i) as [p|] eqn:Ep; [|exists cx; exact HW].
    assert (Hpin : In p (w_net w)) by (eapply nth_error_In; eassumption).
    set (net' := if keep then w_net w else remove_nth i (w_net w)).
    assert (Hsub : forall q, In q net' -> In q (w_net w)).
    { intros q. unfold net'. destruct keep; [auto|apply In_remove_nth]. }
    destruct (find_node_by_addr (w_nodes w) (p_dst p)) as [d|] eqn:Ef.
    - destruct (find_by_addr w (p_dst p) d (proj1 HW) Ef) as [idd [c [Hspec Hd]]]. rewrite Hd.
      cbn [so_world]. apply (handle_step w cx O d c p max nows order net' idd HW Hd Hpin Hspec Hsub).
    - cbn [so_world plain]. exists cx. apply WXc_net_subset; assumption.
  Qed.

  Lemma drop_step w cx O i : WXc w cx O -> WXc (so_world (wstep w (WDrop i))) cx O.
  Proof. intros HW. cbn [wstep so_world plain]. apply WXc_net_subset; [exact HW|]. intros p. apply In_remove_nth. Qed.

  (* --- liveness: only flags change --- *)
  Lemma liveness_node_keeps local suspect nows s :
    n_ver (fst (liveness_node local suspect nows s)) = n_ver s /\ n_ents (fst (liveness_node local suspect nows s)) = n_ents s.
  Proof.
    unfold liveness_node. destruct (String.eqb (n_id s) local || n_left s); [auto|].
    destruct (suspect (n_id s)); destruct (n_unreach s); auto.
  Qed.

  Lemma liveness_step w cx O n suspects nows :
    WXc w cx O -> exists cx', WXc (so_world (wstep w (WLiveness n suspects nows))) cx' O.
  Proof.
    intros HW. cbn [wstep]. destruct (nth_error (w_nodes w) n) as [c|] eqn:En; [|exists cx; exact HW].
    set (sus := fun id => existsb (String.eqb id) suspects).
    pose proof (update_liveness_nodes sus nows c) as Hnodes'.
    destruct (update_liveness sus nows c) as [c' ev] eqn:Eu. cbn [so_world fst] in *.
    pose proof HW as [[_ Hnodes] [Hcx [HO [HOI [Hv Hp]]]]]. pose proof (Hnodes _ _ En) as Hok.
    assert (Hc' : c' = fst (update_liveness sus nows c)) by (rewrite Eu; reflexivity).
    assert (Hlk : lookup x (c_nodes c') = option_map (fun s => fst (liveness_node (c_local c) sus nows s)) (lookup x (c_nodes c))).
    { rewrite Hnodes'. apply (lookup_map_nodes (fun s => fst (liveness_node (c_local c) sus nows s))). }
    apply (frame_one w cx O n c c' (w_net w) HW En).
    - rewrite Hc'. apply node_ok_liveness, Hok.
    - intros Heq. destruct (own_of_node w cx O n c HW En Heq) as [_ H2]. rewrite Hc', <- H2.
      destruct Hok as [_ [_ [_ [_ [_ [[Hw _] _]]]]]]. apply (update_liveness_local sus nows c Hw).
    - intros Hne V. rewrite Hlk. destruct (lookup x (c_nodes c)) as [V0|] eqn:E0; [|discriminate]. cbn [option_map]. intros [= <-].
      destruct (liveness_node_keeps (c_local c) sus nows V0) as [K1 K2].
      apply (Valid_extV V0); [symmetry; exact K1|symmetry; exact K2|]. apply (Hv n c V0 En Hne E0).
    - rewrite Hlk. destruct (lookup x (c_nodes c)) as [V0|]; cbn [option_map ver0]; [|lia].
      rewrite (proj1 (liveness_node_keeps (c_local c) sus nows V0)). lia.
    - intros p Hin. left. exact Hin.
  Qed.

  (* --- local writes --- *)
  Lemma local_step_meta s o : n_id (local_step s o) = n_id s /\ n_addr (local_step s o) = n_addr s.
  Proof.
    destruct o as [k v|k|th|]; cbn [local_step].
    - unfold upsert_local. destruct (lookup k (n_ents s)) as [ex|]; [destruct (String.eqb (e_val ex) v && negb (e_del ex))|]; auto.
    - unfold delete_local. destruct (lookup k (n_ents s)) as [ex|]; [destruct (e_del ex)|]; auto.
    - unfold compact_local. destruct (N.of_nat _ <? th); [auto|]. destruct (rev _); [auto|].
      destruct (reversion _ _). auto.
    - unfold leave_local. destruct (n_left s); auto.
  Qed.

  Lemma node_ok_local_update j c me o :
    node_ok j c -> lookup (c_local c) (c_nodes c) = Some me ->
    node_ok j (set_nodes c (insert (c_local c) (local_step me o) (c_nodes c))).
  Proof.
    intros [id [addr [me0 [Hs [Hl [[Hw Hnd] [Hme Ha]]]]]]] Hme'. rewrite Hl in Hme'. assert (me0 = me) by congruence. subst me0.
    destruct (local_step_meta me o) as [M1 M2].
    exists id, addr, (local_step me o). split; [exact Hs|]. split; [exact Hl|]. cbn [c_nodes set_nodes c_local]. rewrite Hl. split; [split|].
    - intros k s0. cbn [c_nodes set_nodes]. rewrite lookup_insert. destruct (String.eqb k id) eqn:E; [|apply Hw].
      apply String.eqb_eq in E. intros [= <-]. rewrite M1, E. apply (Hw _ _ Hme).
    - apply NoDup_insert, Hnd.
    - split; [apply lookup_insert_eq|congruence].
  Qed.

  Lemma local_step_world w cx O n lo :
    WXc w cx O -> user_op lo -> (n = jx -> small O) ->
    exists cx' O', WXc (so_world (wstep w (WLocal n lo))) cx' O'.
  Proof.
    intros HW Hu Hsm. cbn [wstep so_world plain]. unfold local_update.
    destruct (nth_error (w_nodes w) n) as [c|] eqn:En; [|exists cx, O; exact HW].
    destruct (local_node c) as [me|] eqn:Eme; [|exists cx, O; exact HW]. unfold local_node in Eme.
    pose proof HW as [[Hlen Hnodes] [Hcx [HO [HOI [Hv Hp]]]]]. pose proof (Hnodes _ _ En) as Hok.
    set (c' := set_nodes c (insert (c_local c) (local_step me lo) (c_nodes c))).
    destruct (Nat.eq_dec n jx) as [Heq|Hne].
    - (* the owner writes *)
      subst n. assert (c = cx) by congruence. subst c.
      assert (Hlx : c_local cx = x) by (apply (node_ok_local jx cx Hok); reflexivity).
      rewrite Hlx in *. assert (me = O) by congruence. subst me.
      destruct (owner_step O (log_of w x) lo HOI Hu (Hsm eq_refl)) as [HOI' HV'].
      exists c', (local_step O lo). unfold WXc, log_of. cbn [w_nodes w_net w_logs]. rewrite lookup_insert_eq.
      change (World.new_entries O (local_step O lo)) with (Valid.new_entries O (local_step O lo)).
      fold (log_of w x).
      assert (Hdl : (jx < List.length (w_nodes w))%nat). { apply nth_error_Some. congruence. }
      split; [|split; [|split; [|split; [exact HOI'|split]]]].
      + split.
        * cbn [w_nodes]. rewrite set_nth_length. exact Hlen.
        * intros j cj. cbn [w_nodes]. rewrite nth_error_set_nth. destruct (Nat.eqb jx j) eqn:E; [|apply Hnodes].
          apply Nat.eqb_eq in E. subst j. rewrite Hcx. intros [= <-].
          apply (node_ok_local_update jx cx O lo Hok). rewrite Hlx. exact HO.
      + cbn [w_nodes]. apply nth_error_set_nth_eq, Hdl.
      + unfold c'. cbn [c_nodes set_nodes]. rewrite Hlx. apply lookup_insert_eq.
      + intros o co V. cbn [w_nodes]. rewrite nth_error_set_nth. destruct (Nat.eqb jx o) eqn:E; [apply Nat.eqb_eq in E; congruence|].
        intros Hco Hno HVl. apply HV'. apply (Hv o co V Hco Hno HVl).
      + intros p Hin. specialize (Hp p Hin). unfold packet_ok in *. destruct (p_body p) as [fi fa rq dg|fi fa parts].
        * intros a ida Ha de Hde Hid. specialize (Hp a ida Ha de Hde Hid). rewrite cur_ver_eq in *. cbn [w_nodes].
          rewrite nth_error_set_nth. destruct (Nat.eqb jx a) eqn:E; [|exact Hp].
          apply Nat.eqb_eq in E. subst a. rewrite Hcx in *. unfold c'. cbn [c_nodes set_nodes]. rewrite Hlx, lookup_insert_eq. rewrite HO in Hp. cbn [ver0] in *.
          pose proof (version_monotone O lo). lia.
        * intros a ida Ha pt Hpt Hid Hane. destruct (Hp a ida Ha pt Hpt Hid Hane) as [S [d [H1 [H2 H3]]]].
          exists S, d. split; [apply HV', H1|]. split; [exact H2|]. rewrite cur_ver_eq in *. cbn [w_nodes].
          rewrite nth_error_set_nth. destruct (Nat.eqb jx a) eqn:E; [apply Nat.eqb_eq in E; congruence|exact H3].
    - (* another node writes: x's views, state and log are untouched *)
      assert (Hlx : c_local c <> x). { intros Hx. apply Hne. apply (node_ok_local n c Hok), Hx. }
      destruct (frame_one w cx O n c c' (w_net w) HW En) as [cx' HW'].
      + apply node_ok_local_update; assumption.
      + intros Heq. contradiction.
      + intros _ V. unfold c'. cbn [c_nodes set_nodes]. rewrite lookup_insert_ne by congruence. apply (Hv n c V En Hne).
      + unfold c'. cbn [c_nodes set_nodes]. rewrite lookup_insert_ne by congruence. lia.
      + intros p Hin. left; exact Hin.
      + exists cx', O. apply (WXc_relog _ cx' O) with (logs' := insert (c_local c) (log_of w (c_local c) ++ World.new_entries me (local_step me lo)) (w_logs w)) in HW'.
        * exact HW'.
        * rewrite lookup_insert_ne by congruence. reflexivity.
  Qed.

  (* --- streams: a node receives another node's full own state --- *)
  Lemma In_values_node c s : wf_c c -> NoDup (keys (c_nodes c)) -> In s (values (c_nodes c)) -> lookup (n_id s) (c_nodes c) = Some s.
  Proof.
    intros Hw Hnd Hin. apply In_values in Hin. destruct Hin as [k Hin]. apply (In_lookup _ _ _ Hnd) in Hin.
    rewrite (Hw _ _ Hin). exact Hin.
  Qed.

  Lemma own_delta_view w cx O a ca ma b cb nows :
    WXc w cx O -> nth_error (w_nodes w) a = Some ca -> lookup (c_local ca) (c_nodes ca) = Some ma ->
    nth_error (w_nodes w) b = Some cb -> b <> jx ->
    let c' := fst (apply_delta nows cb [delta_entry_of ma 0]) in
    (forall V', lookup x (c_nodes c') = Some V' -> Valid V' O (log_of w x)) /\
    ver0 (lookup x (c_nodes cb)) <= ver0 (lookup x (c_nodes c')).
  Proof.
    intros HW Ha Hma Hb Hne. pose proof HW as [[_ Hnodes] [Hcx [HO [HOI [Hv Hp]]]]].
    pose proof (Hnodes _ _ Ha) as Hoka. pose proof (Hnodes _ _ Hb) as Hokb.
    apply (delta_fold_view O (log_of w x) nows [delta_entry_of ma 0] cb [] HOI).
    - intros Hx. apply Hne. apply (node_ok_local b cb Hokb), Hx.
    - intros V HV. apply (Hv b cb V Hb Hne HV).
    - intros de [<-|[]] Hid. cbn [de_id delta_entry_of] in Hid.
      destruct Hoka as [ida [adda [mea [Hsa [Hla [[Hwa Hnda] [Hmea Haa]]]]]]].
      assert (Hidma : n_id ma = c_local ca) by (apply (Hwa _ _ Hma)).
      assert (Haj : a = jx). { apply (node_ok_local a ca (Hnodes _ _ Ha)). congruence. }
      subst a. assert (ca = cx) by congruence. subst ca. assert (Hlx : c_local cx = x) by congruence.
      rewrite Hlx in Hma. assert (ma = O) by congruence. subst ma.
      exists O, 0. split; [apply Valid_self, HOI|]. split; [exists []; rewrite app_nil_r; reflexivity|lia].
  Qed.

  Lemma leavestream_step w cx O a b nows :
    WXc w cx O -> exists cx', WXc (so_world (wstep w (WLeaveStream a b nows))) cx' O.
  Proof.
    intros HW. cbn [wstep]. destruct (Nat.eqb a b); [exists cx; exact HW|].
    destruct (nth_error (w_nodes w) a) as [ca|] eqn:Ea; [|exists cx; exact HW].
    destruct (nth_error (w_nodes w) b) as [cb|] eqn:Eb; [|exists cx; exact HW].
    destruct (local_node ca) as [ma|] eqn:Ema; [|exists cx; exact HW]. unfold local_node in Ema.
    destruct (apply_delta nows cb [delta_entry_of ma 0]) as [cb1 ev1] eqn:Ead. cbn [so_world].
    assert (Hcb1 : cb1 = fst (apply_delta nows cb [delta_entry_of ma 0])) by (rewrite Ead; reflexivity).
    pose proof HW as [[_ Hnodes] _].
    apply (frame_one w cx O b cb cb1 (w_net w) HW Eb).
    - rewrite Hcb1. apply node_ok_delta, (Hnodes _ _ Eb).
    - intros Heq. destruct (own_of_node w cx O b cb HW Eb Heq) as [_ H2]. rewrite Hcb1, <- H2. apply (apply_delta_local nows cb).
    - intros Hne. rewrite Hcb1. apply (own_delta_view w cx O a ca ma b cb nows HW Ea Ema Eb Hne).
    - destruct (Nat.eq_dec b jx) as [Heq|Hne].
      + destruct (own_of_node w cx O b cb HW Eb Heq) as [_ H2]. rewrite Hcb1, <- H2, (proj1 (apply_delta_local nows cb _)). lia.
      + rewrite Hcb1. apply (own_delta_view w cx O a ca ma b cb nows HW Ea Ema Eb Hne).
    - intros p Hin. left; exact Hin.
  Qed.

  Lemma join_step w cx O a b nows_a nows_b :
    WXc w cx O -> exists cx', WXc (so_world (wstep w (WJoin a b nows_a nows_b))) cx' O.
  Proof.
    intros HW. cbn [wstep]. destruct (Nat.eqb a b) eqn:Eab; [exists cx; exact HW|]. apply Nat.eqb_neq in Eab.
    destruct (nth_error (w_nodes w) a) as [ca|] eqn:Ea; [|exists cx; exact HW].
    destruct (nth_error (w_nodes w) b) as [cb|] eqn:Eb; [|exists cx; exact HW].
    destruct (local_node ca) as [ma|] eqn:Ema; [|exists cx; exact HW]. unfold local_node in Ema.
    destruct (apply_delta nows_b cb [delta_entry_of ma 0]) as [cb1 ev1] eqn:Ead.
    destruct (apply_digest cb1 (digest_of ca)) as [cb2 ev2] eqn:Edg.
    set (reply := delta_for cb2 (digest_of ca) ++ delta_extras cb2 (extras_ids cb2 (digest_of ca))).
    destruct (apply_delta nows_a ca reply) as [ca1 ev3] eqn:Ear. cbn [so_world].
    assert (Hcb1 : cb1 = fst (apply_delta nows_b cb [delta_entry_of ma 0])) by (rewrite Ead; reflexivity).
    assert (Hcb2 : cb2 = fst (apply_digest cb1 (digest_of ca))) by (rewrite Edg; reflexivity).
    assert (Hca1 : ca1 = fst (apply_delta nows_a ca reply)) by (rewrite Ear; reflexivity).
    pose proof HW as [[_ Hnodes] [Hcx [HO [HOI [Hv Hp]]]]].
    pose proof (Hnodes _ _ Ea) as Hoka. pose proof (Hnodes _ _ Eb) as Hokb.
    assert (Hokb1 : node_ok b cb1) by (rewrite Hcb1; apply node_ok_delta, Hokb).
    assert (Hokb2 : node_ok b cb2) by (rewrite Hcb2; apply node_ok_digest, Hokb1).
    (* step 1: node b *)
    assert (Hb2 : (b = jx -> lookup x (c_nodes cb2) = lookup x (c_nodes cb)) /\
                  (b <> jx -> forall V, lookup x (c_nodes cb2) = Some V -> Valid V O (log_of w x)) /\
                  ver0 (lookup x (c_nodes cb)) <= ver0 (lookup x (c_nodes cb2))).
    { destruct (Nat.eq_dec b jx) as [Heq|Hne].
      - destruct (own_of_node w cx O b cb HW Eb Heq) as [H1 H2].
        assert (Hsame : lookup x (c_nodes cb2) = lookup x (c_nodes cb)).
        { rewrite Hcb2. destruct (dig_fold_view (digest_of ca) cb1 []) as [Hs|[Hn _]]; fold (apply_digest cb1 (digest_of ca)) in *.
          - rewrite Hs, Hcb1, <- H2. apply (apply_delta_local nows_b cb).
          - exfalso. rewrite Hcb1, <- H2, (proj1 (apply_delta_local nows_b cb _)), H2, H1 in Hn. discriminate. }
        split; [intros _; exact Hsame|]. split; [intros Hc; contradiction|]. rewrite Hsame. lia.
      - destruct (own_delta_view w cx O a ca ma b cb nows_b HW Ea Ema Eb Hne) as [A B]. rewrite <- Hcb1 in A, B.
        split; [intros Hc; contradiction|].
        destruct (dig_fold_view (digest_of ca) cb1 []) as [Hs|[Hn [addr Hnew]]]; fold (apply_digest cb1 (digest_of ca)) in *; rewrite <- Hcb2 in *.
        + rewrite Hs. split; [intros _; exact A|exact B].
        + split; [intros _ V; rewrite Hnew; intros [= <-]; apply Valid_new, HOI|].
          rewrite Hn in B. rewrite Hnew. cbn in *. lia. }
    destruct Hb2 as [B1 [B2 B3]].
    destruct (frame_one w cx O b cb cb2 (w_net w) HW Eb Hokb2 B1 B2 B3) as [cx1 HW1]; [intros p Hin; left; exact Hin|].
    set (w1 := with_nodes w (set_nth b cb2 (w_nodes w)) (w_net w)) in *.
    assert (Ea1 : nth_error (w_nodes w1) a = Some ca).
    { unfold w1. cbn [w_nodes with_nodes]. rewrite nth_error_set_nth_ne by congruence. exact Ea. }
    assert (Eb1 : nth_error (w_nodes w1) b = Some cb2).
    { unfold w1. cbn [w_nodes with_nodes]. apply nth_error_set_nth_eq. apply nth_error_Some. congruence. }
    pose proof HW1 as [[_ Hnodes1] [Hcx1 [HO1 [HOI1 [Hv1 Hp1]]]]].
    change (log_of w1 x) with (log_of w x) in *.
    (* step 2: node a applies the reply *)
    assert (Ha1 : (a = jx -> lookup x (c_nodes ca1) = lookup x (c_nodes ca)) /\
                  (a <> jx -> forall V, lookup x (c_nodes ca1) = Some V -> Valid V O (log_of w x)) /\
                  ver0 (lookup x (c_nodes ca)) <= ver0 (lookup x (c_nodes ca1))).
    { destruct (Nat.eq_dec a jx) as [Heq|Hne].
      - destruct (own_of_node w1 cx1 O a ca HW1 Ea1 Heq) as [H1 H2].
        assert (Hsame : lookup x (c_nodes ca1) = lookup x (c_nodes ca)).
        { rewrite Hca1, <- H2. apply (apply_delta_local nows_a ca). }
        split; [intros _; exact Hsame|]. split; [intros Hc; contradiction|]. rewrite Hsame. lia.
      - split; [intros Hc; contradiction|]. rewrite Hca1.
        destruct Hoka as [ida [adda [mea [Hsa [Hla [[Hwa Hnda] [Hmea Haa]]]]]]].
        destruct Hokb2 as [idb [addb [meb [Hsb [Hlb [[Hwb Hndb] [Hmeb Hab]]]]]]].
        assert (Hsrc : forall s, lookup x (c_nodes cb2) = Some s -> Valid s O (log_of w x)).
        { intros s Hs. destruct (Nat.eq_dec b jx) as [Hbj|Hbj].
          - destruct (own_of_node w1 cx1 O b cb2 HW1 Eb1 Hbj) as [H1 _]. assert (s = O) by congruence. subst s. apply Valid_self, HOI.
          - apply (Hv1 b cb2 s Eb1 Hbj Hs). }
        cut ((forall V', lookup x (c_nodes (fst (apply_delta nows_a ca reply))) = Some V' -> Valid V' O (log_of w x)) /\
             ver0 (lookup x (c_nodes ca)) <= ver0 (lookup x (c_nodes (fst (apply_delta nows_a ca reply))))).
        { intros [D1 D2]. split; [intros _; exact D1|exact D2]. }
        apply (delta_fold_view O (log_of w x) nows_a reply ca [] HOI).
        + intros Hx. apply Hne. apply (node_ok_local a ca (Hnodes _ _ Ea)), Hx.
        + intros V HV. apply (Hv a ca V Ea Hne HV).
        + intros de Hin Hid. unfold reply in Hin. apply in_app_or in Hin. destruct Hin as [Hin|Hin].
          * destruct (delta_for_entries _ _ _ Hwb Hin) as [dgi [s [Hdgi [Hs [Hdeq Hdeid]]]]].
            assert (Hdx : d_id dgi = x) by congruence. rewrite Hdx in Hs.
            exists s, (d_ver dgi). split; [apply Hsrc, Hs|]. split; [rewrite Hdeq; exists []; rewrite app_nil_r; reflexivity|].
            unfold digest_of in Hdgi. apply in_map_iff in Hdgi. destruct Hdgi as [s' [Hs' Hin']].
            pose proof (In_values_node ca s' Hwa Hnda Hin') as Hl'. rewrite <- Hs' in Hdx. cbn in Hdx. rewrite Hdx in Hl'.
            rewrite Hl', <- Hs'. cbn. lia.
          * unfold delta_extras in Hin. apply in_flat_map in Hin. destruct Hin as [id [_ Hin]].
            destruct (lookup id (c_nodes cb2)) as [s|] eqn:Es; [|destruct Hin]. destruct Hin as [<-|[]].
            cbn [de_id delta_entry_of] in Hid. assert (id = x) by (rewrite <- (Hwb _ _ Es); exact Hid). subst id.
            exists s, 0. split; [apply Hsrc, Es|]. split; [exists []; rewrite app_nil_r; reflexivity|lia]. }
    destruct Ha1 as [A1 [A2 A3]].
    assert (Hoka1 : node_ok a ca1) by (rewrite Hca1; apply node_ok_delta, Hoka).
    destruct (frame_one w1 cx1 O a ca ca1 (w_net w1) HW1 Ea1 Hoka1 A1 A2 A3) as [cx2 HW2]; [intros p Hin; left; exact Hin|].
    exists cx2. exact HW2.
  Qed.

  (* ---------- every allowed step preserves the invariant ---------- *)
  Definition allowed (o : wop) : Prop :=
    match o with
    | WLocal _ lo => user_op lo
    | WExpire _ _ => False            (* finding F3: see Properties/C02.v *)
    | WInject _ _ _ _ _ => False      (* packets forged outside the cluster *)
    | _ => True
    end.

  Definition wsmall (w : world) : Prop :=
    forall j c me, nth_error (w_nodes w) j = Some c -> lookup (c_local c) (c_nodes c) = Some me -> small me.

  Lemma step_preserves w o : WX w -> allowed o -> wsmall w -> WX (so_world (wstep w o)).
  Proof.
    intros [cx [O HW]] Ha Hs. destruct o; cbn [allowed] in Ha; try contradiction.
    - assert (Hsm : n = jx -> small O).
      { intros ->. destruct HW as [[_ Hn] [Hcx [HO _]]]. apply (Hs jx cx O Hcx).
        rewrite (proj2 (node_ok_local jx cx (Hn _ _ Hcx)) eq_refl). exact HO. }
      destruct (local_step_world w cx O n o HW Ha Hsm) as [cx' [O' H]]. exists cx', O'. exact H.
    - destruct (send_step w cx O a b order max HW) as [cx' H]. exists cx', O. exact H.
    - destruct (deliver_step w cx O i keep max nows order HW) as [cx' H]. exists cx', O. exact H.
    - exists cx, O. apply drop_step, HW.
    - exists cx, O. exact HW.
    - destruct (liveness_step w cx O n suspects nows HW) as [cx' H]. exists cx', O. exact H.
    - destruct (join_step w cx O a b nows_a nows_b HW) as [cx' H]. exists cx', O. exact H.
    - destruct (leavestream_step w cx O a b nows HW) as [cx' H]. exists cx', O. exact H.
  Qed.

  Inductive reach (w0 : world) : world -> Prop :=
  | reach_init : reach w0 w0
  | reach_step w o : reach w0 w -> allowed o -> wsmall w -> reach w0 (so_world (wstep w o)).

  Lemma WX_init : WX (init_world specs).
  Proof.
    assert (Hnth : forall j c, nth_error (w_nodes (init_world specs)) j = Some c ->
                               exists id addr, nth_error specs j = Some (id, addr) /\ c = new_cstate id addr).
    { intros j c. unfold init_world. cbn [w_nodes]. rewrite nth_error_map. destruct (nth_error specs j) as [[id addr]|]; [|discriminate].
      cbn. intros [= <-]. exists id, addr. auto. }
    destruct (Hnth jx (new_cstate x xaddr)) as [_ _].
    { unfold init_world. cbn [w_nodes]. rewrite nth_error_map, Hjx. reflexivity. }
    exists (new_cstate x xaddr), (new_node x xaddr). unfold WXc. split; [|split; [|split; [|split; [|split]]]].
    - split; [unfold init_world; cbn [w_nodes]; apply map_length|].
      intros j c Hc. destruct (Hnth j c Hc) as [id [addr [Hs ->]]]. exists id, addr, (new_node id addr).
      split; [exact Hs|]. split; [reflexivity|]. split; [split; [apply (proj1 (wf_new id addr))|cbn; constructor; [intros []|constructor]]|].
      split; [cbn; rewrite String.eqb_refl; reflexivity|reflexivity].
    - unfold init_world. cbn [w_nodes]. rewrite nth_error_map, Hjx. reflexivity.
    - cbn. rewrite String.eqb_refl. reflexivity.
    - apply OwnInv_new.
    - intros o c V Hc Hne. destruct (Hnth o c Hc) as [id [addr [Hs ->]]]. cbn.
      destruct (String.eqb x id) eqn:E; [|discriminate]. apply String.eqb_eq in E. subst id.
      exfalso. apply Hne. apply (spec_id_inj o jx x addr xaddr Hs Hjx).
    - intros p [].
  Qed.

  Theorem world_invariant w : reach (init_world specs) w -> WX w.
  Proof. induction 1 as [|w o Hr IH Ha Hs]; [exact WX_init|apply step_preserves; assumption]. Qed.

  (* the statement of the property for owner x *)
  Theorem views_valid w :
    reach (init_world specs) w ->
    exists cx O, nth_error (w_nodes w) jx = Some cx /\ lookup x (c_nodes cx) = Some O /\ OwnInv O (log_of w x) /\
      forall o c V, nth_error (w_nodes w) o = Some c -> o <> jx -> lookup x (c_nodes c) = Some V -> Valid V O (log_of w x).
  Proof.
    intros Hr. destruct (world_invariant w Hr) as [cx [O [_ [H1 [H2 [H3 [H4 _]]]]]]]. exists cx, O. auto.
  Qed.
End Owner.
