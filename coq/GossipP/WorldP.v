(* Proofs about the packet handlers of Gossip/World.v. *)
From Coq Require Import List String NArith ZArith Bool Lia.
From Piko Require Import Base.Maps Base.Strs Gossip.Types Gossip.Local Gossip.Apply Gossip.Codec Gossip.World.
From Piko Require Import GossipP.ApplyP GossipP.CodecP.
Import ListNotations.
Open Scope string_scope. Open Scope list_scope. Open Scope N_scope.

(* whatever a received packet decodes to, the receiver's own node state is unchanged *)
Theorem handle_packet_own c b max nows order :
  local_ok c ->
  lookup (c_local c) (c_nodes (h_state (handle_packet c b max nows order))) = lookup (c_local c) (c_nodes c)
  /\ c_local (h_state (handle_packet c b max nows order)) = c_local c.
Proof.
  intros Hl. destruct b as [fid faddr req dg|fid faddr parts]; cbn [handle_packet].
  - pose proof (apply_digest_local c dg Hl) as [H1 H2].
    destruct (apply_digest c dg) as [c1 ev]. cbn [fst] in H1, H2.
    destruct (make_delta_packet c1 faddr (delta_for c1 dg) max); [|cbn; auto].
    destruct req; [|cbn; auto].
    destruct (local_node c1); [|cbn; auto].
    destruct (max <? blen (digest_prefix (n_id n) (n_addr n) false)); [cbn; auto|].
    destruct (make_digest_packet c1 faddr false order max); cbn; auto.
  - pose proof (apply_delta_local nows c (map part_to_delta parts)) as [H1 H2].
    destruct (apply_delta nows c (map part_to_delta parts)) as [c1 ev]. cbn [fst] in H1, H2. cbn. auto.
Qed.

(* every packet a handler emits respects the size limit given to it *)
Lemma make_delta_packet_size c dst dl max p :
  make_delta_packet c dst dl max = Some p -> blen (p_bytes p) <= max.
Proof.
  unfold make_delta_packet. destruct (local_node c) as [me|]; [|discriminate].
  destruct (cut_delta (n_id me) (n_addr me) dl max) as [parts|] eqn:E; [|discriminate].
  intros [= <-]. cbn [p_bytes]. apply (encode_delta_size (n_id me) (n_addr me) dl max).
  unfold encode_delta. rewrite E. reflexivity.
Qed.

Lemma make_digest_packet_size c dst req order max p :
  make_digest_packet c dst req order max = Some p -> blen (p_bytes p) <= max.
Proof.
  unfold make_digest_packet. destruct (local_node c) as [me|]; [|discriminate].
  destruct (max <? blen (digest_prefix (n_id me) (n_addr me) req)); [discriminate|].
  destruct (digest_order_ok c (n_id me) (n_addr me) req order max) eqn:E; [|discriminate].
  destruct (digest_in_order c order) as [dg|] eqn:Ed; [|discriminate].
  intros [= <-]. cbn [p_bytes]. unfold digest_order_ok in E. rewrite Ed in E.
  apply andb_prop in E. destruct E as [_ E]. apply andb_prop in E. destruct E as [E _].
  apply N.leb_le in E. exact E.
Qed.

Theorem handle_packet_sizes c b max nows order p :
  In p (h_out (handle_packet c b max nows order)) -> blen (p_bytes p) <= max.
Proof.
  destruct b as [fid faddr req dg|fid faddr parts]; cbn [handle_packet].
  - destruct (apply_digest c dg) as [c1 ev].
    destruct (make_delta_packet c1 faddr (delta_for c1 dg) max) as [pd|] eqn:Ed; [|cbn; tauto].
    pose proof (make_delta_packet_size _ _ _ _ _ Ed) as Hd.
    destruct req; [|cbn; intros [<-|[]]; exact Hd].
    destruct (local_node c1); [|cbn; intros [<-|[]]; exact Hd].
    destruct (max <? blen (digest_prefix (n_id n) (n_addr n) false)); [cbn; intros [<-|[]]; exact Hd|].
    destruct (make_digest_packet c1 faddr false order max) as [pg|] eqn:Eg; cbn.
    + intros [<-|[<-|[]]]; [exact Hd|]. apply (make_digest_packet_size _ _ _ _ _ _ Eg).
    + intros [<-|[]]; exact Hd.
  - destruct (apply_delta nows c (map part_to_delta parts)). cbn. tauto.
Qed.
