(* Proofs about the owner-side operations (Gossip/Local.v): structural invariant, last-write-wins
   refinement, version discipline, compaction. *)
From Coq Require Import List String NArith ZArith Bool Lia Permutation Sorted.
From Piko Require Import Base.Maps Base.Strs Gossip.Types Gossip.Local.
Import ListNotations.
Open Scope string_scope. Open Scope list_scope. Open Scope N_scope.

Definition internal_key (k : string) : bool := String.eqb k leftKey || String.eqb k compactKey.
Definition user_key (k : string) : bool := negb (internal_key k).

Definition user_op (o : lop) : Prop :=
  match o with
  | LUpsert k _ => user_key k = true
  | LDelete k => user_key k = true
  | LCompact th => 1 <= th
  | LLeave => True
  end.

(* structural invariant of an owner's state *)
Record LInv (s : node_state) : Prop := {
  li_nodup : NoDup (keys (n_ents s));
  li_key : forall k e, lookup k (n_ents s) = Some e -> e_key e = k;
  li_ver : forall k e, lookup k (n_ents s) = Some e -> 1 <= e_ver e <= n_ver s;
  li_int : forall k e, lookup k (n_ents s) = Some e -> e_int e = internal_key k;
  li_distinct : forall k k' e e', lookup k (n_ents s) = Some e -> lookup k' (n_ents s) = Some e' ->
                                  e_ver e = e_ver e' -> k = k';
  li_top : n_ents s <> [] -> exists k e, lookup k (n_ents s) = Some e /\ e_ver e = n_ver s;
  li_zero : n_ents s = [] -> n_ver s = 0;
}.

Lemma LInv_new id addr : LInv (new_node id addr).
Proof.
  constructor; cbn; try discriminate; try constructor; try congruence.
Qed.

(* the visible (live) value of a key *)
Definition live (s : node_state) (k : string) : option string :=
  match lookup k (n_ents s) with
  | Some e => if e_del e || e_int e then None else Some (e_val e)
  | None => None
  end.

Definition spec_step (m : amap string) (o : lop) : amap string :=
  match o with LUpsert k v => insert k v m | LDelete k => remove k m | _ => m end.
Definition spec_run (m : amap string) (ops : list lop) : amap string := fold_left spec_step ops m.

(* ------------------------------------------------------------------ fresh write *)
Definition write (k : string) (e : entry) (s : node_state) : node_state :=
  set_ents s (insert k e (n_ents s)) (n_ver s + 1).

Lemma LInv_write s k e :
  LInv s -> e_key e = k -> e_ver e = n_ver s + 1 -> e_int e = internal_key k ->
  LInv (write k e s).
Proof.
  intros H Hk Hv Hi. destruct H as [Hnd Hkey Hver Hint Hdis Htop Hzero].
  constructor; unfold write; cbn [n_ents n_ver set_ents].
  - apply NoDup_insert, Hnd.
  - intros k0 e0. rewrite lookup_insert. destruct (String.eqb k0 k) eqn:E.
    + apply String.eqb_eq in E. intros [= <-]. congruence.
    + apply Hkey.
  - intros k0 e0. rewrite lookup_insert. destruct (String.eqb k0 k) eqn:E.
    + intros [= <-]. lia.
    + intros H0. specialize (Hver _ _ H0). lia.
  - intros k0 e0. rewrite lookup_insert. destruct (String.eqb k0 k) eqn:E.
    + apply String.eqb_eq in E. intros [= <-]. congruence.
    + apply Hint.
  - intros k1 k2 e1 e2. rewrite !lookup_insert.
    destruct (String.eqb k1 k) eqn:E1; destruct (String.eqb k2 k) eqn:E2.
    + apply String.eqb_eq in E1, E2. congruence.
    + intros [= <-] H2 Heq. specialize (Hver _ _ H2). lia.
    + intros H1 [= <-] Heq. specialize (Hver _ _ H1). lia.
    + apply Hdis.
  - intros _. exists k, e. rewrite lookup_insert_eq. split; [reflexivity|exact Hv].
  - unfold insert. discriminate.
Qed.

(* ------------------------------------------------------------------ upsert / delete / leave *)
Lemma upsert_cases k v s :
  upsert_local k v s = s /\ (exists ex, lookup k (n_ents s) = Some ex /\ e_val ex = v /\ e_del ex = false)
  \/ upsert_local k v s = write k (mk_entry k v (n_ver s + 1) false false) s
     /\ ~ (exists ex, lookup k (n_ents s) = Some ex /\ e_val ex = v /\ e_del ex = false).
Proof.
  unfold upsert_local, write. destruct (lookup k (n_ents s)) as [ex|] eqn:E.
  - destruct (String.eqb (e_val ex) v) eqn:Ev; destruct (e_del ex) eqn:Ed; cbn [andb negb].
    + right. split; [reflexivity|]. intros [ex' [[= <-] [_ Hd]]]. congruence.
    + left. split; [reflexivity|]. exists ex. apply String.eqb_eq in Ev. auto.
    + right. split; [reflexivity|]. intros [ex' [[= <-] [Hv _]]]. apply String.eqb_neq in Ev. congruence.
    + right. split; [reflexivity|]. intros [ex' [[= <-] [Hv _]]]. apply String.eqb_neq in Ev. congruence.
  - right. split; [reflexivity|]. intros [ex' [[=] _]].
Qed.

Lemma LInv_upsert k v s : LInv s -> user_key k = true -> LInv (upsert_local k v s).
Proof.
  intros H Hu. destruct (upsert_cases k v s) as [[-> _]|[-> _]]; [exact H|].
  apply LInv_write; cbn; auto.
  - unfold user_key in Hu. destruct (internal_key k); [discriminate|reflexivity].
Qed.

Lemma LInv_delete k s : LInv s -> LInv (delete_local k s).
Proof.
  intros H. unfold delete_local. destruct (lookup k (n_ents s)) as [ex|] eqn:E; [|exact H].
  destruct (e_del ex) eqn:Ed; [exact H|].
  pose proof (li_key _ H _ _ E) as Hk. pose proof (li_int _ H _ _ E) as Hi.
  change (LInv (write k (mk_entry (e_key ex) "" (n_ver s + 1) (e_int ex) true) s)).
  apply LInv_write; cbn; auto.
Qed.

Lemma LInv_leave s : LInv s -> LInv (leave_local s).
Proof.
  intros H. unfold leave_local. destruct (n_left s); [exact H|].
  pose proof (LInv_write s leftKey (mk_entry leftKey "" (n_ver s + 1) true false) H eq_refl eq_refl eq_refl) as Hw.
  destruct Hw as [A B C D E F G]. constructor; cbn in *; assumption.
Qed.

(* ------------------------------------------------------------------ compaction *)
From Piko Require Import GossipP.SortP.

Fixpoint renum (keep : list entry) (v : N) : list entry :=
  match keep with
  | [] => []
  | e :: r => mk_entry (e_key e) (e_val e) (v + 1) (e_int e) (e_del e) :: renum r (v + 1)
  end.

Definition ins_all (l : list entry) (m : amap entry) : amap entry :=
  fold_left (fun m e => insert (e_key e) e m) l m.

Lemma reversion_renum keep v m0 :
  fold_left (fun '(m, ver) e =>
               let ver' := ver + 1 in
               (insert (e_key e) (mk_entry (e_key e) (e_val e) ver' (e_int e) (e_del e)) m, ver'))
            keep (m0, v)
  = (ins_all (renum keep v) m0, v + N.of_nat (List.length keep)).
Proof.
  revert v m0. induction keep as [|e r IH]; intros v m0; cbn [fold_left renum ins_all List.length].
  - f_equal. lia.
  - rewrite IH. unfold ins_all. cbn [fold_left e_key mk_entry]. f_equal. lia.
Qed.

Lemma renum_keys l v : map e_key (renum l v) = map e_key l.
Proof. revert v; induction l as [|e r IH]; intros v; cbn; [reflexivity|]. f_equal. apply IH. Qed.

Lemma renum_length l v : List.length (renum l v) = List.length l.
Proof. revert v; induction l as [|e r IH]; intros v; cbn; [reflexivity|]. f_equal. apply IH. Qed.

Lemma renum_In l v e' :
  In e' (renum l v) -> exists e, In e l /\ e_key e' = e_key e /\ e_val e' = e_val e /\ e_int e' = e_int e
                                  /\ e_del e' = e_del e /\ v < e_ver e' <= v + N.of_nat (List.length l).
Proof.
  revert v. induction l as [|e r IH]; intros v; cbn [renum In List.length]; [tauto|].
  intros [<-|Hin].
  - exists e. cbn. repeat split; auto; lia.
  - destruct (IH _ Hin) as [e0 [H0 [H1 [H2 [H3 [H4 H5]]]]]]. exists e0. repeat split; auto; lia.
Qed.

Lemma renum_In_inv l v e :
  In e l -> exists e', In e' (renum l v) /\ e_key e' = e_key e /\ e_val e' = e_val e /\ e_int e' = e_int e
                        /\ e_del e' = e_del e.
Proof.
  revert v. induction l as [|x r IH]; intros v; cbn [renum In]; [tauto|].
  intros [->|Hin].
  - eexists. split; [left; reflexivity|]. cbn. auto.
  - destruct (IH (v + 1) Hin) as [e' [H0 H1]]. exists e'. split; [right; exact H0|exact H1].
Qed.

Lemma renum_sorted l v : StronglySorted ver_lt (renum l v).
Proof.
  revert v. induction l as [|e r IH]; intros v; cbn [renum]; constructor; [apply IH|].
  rewrite Forall_forall. intros y Hy. apply renum_In in Hy. destruct Hy as [_ [_ [_ [_ [_ [_ Hv]]]]]].
  unfold ver_lt; cbn. lia.
Qed.

Lemma lookup_ins_all l m k :
  NoDup (map e_key l) ->
  lookup k (ins_all l m) = match find (fun e => String.eqb (e_key e) k) l with Some e => Some e | None => lookup k m end.
Proof.
  revert m. induction l as [|e r IH]; intros m Hnd; cbn [ins_all fold_left find]; [reflexivity|].
  inversion Hnd as [|? ? Hni Hnd']; subst. change (fold_left _ r ?x) with (ins_all r x). rewrite (IH _ Hnd').
  destruct (String.eqb (e_key e) k) eqn:E.
  - apply String.eqb_eq in E. subst k.
    destruct (find (fun e0 => String.eqb (e_key e0) (e_key e)) r) as [e1|] eqn:F.
    + exfalso. apply find_some in F. destruct F as [F1 F2]. apply String.eqb_eq in F2.
      apply Hni. rewrite <- F2. apply in_map, F1.
    + apply lookup_insert_eq.
  - apply String.eqb_neq in E.
    destruct (find (fun e0 => String.eqb (e_key e0) k) r); [reflexivity|].
    apply lookup_insert_ne. congruence.
Qed.

Lemma values_ins_all l m :
  NoDup (map e_key l) -> (forall e, In e l -> ~ In (e_key e) (keys m)) ->
  ins_all l m = rev (map (fun e => (e_key e, e)) l) ++ m.
Proof.
  revert m. induction l as [|e r IH]; intros m Hnd Hfresh; cbn [ins_all fold_left map rev]; [reflexivity|].
  inversion Hnd as [|? ? Hni Hnd']; subst. change (fold_left _ r ?x) with (ins_all r x).
  rewrite IH; [|exact Hnd'|].
  - unfold insert. rewrite remove_notin_id; [|apply Hfresh; left; reflexivity].
    rewrite <- app_assoc. reflexivity.
  - intros e0 H0. unfold insert; cbn. intros [Heq|Hin].
    + apply Hni. rewrite Heq. apply in_map, H0.
    + apply keys_remove_subset in Hin. exact (Hfresh e0 (or_intror H0) Hin).
Qed.

Definition keepb (e : entry) : bool := negb (e_del e) && negb (is_marker e).

Definition marker_of (cv ver : N) : entry := mk_entry compactKey (format_uint cv) ver true false.

(* the result of a compaction that fires *)
Definition compacted (s : node_state) : node_state :=
  let ents := sort_by_ver (values (n_ents s)) in
  let keep := filter keepb ents in
  let ver := n_ver s + N.of_nat (List.length keep) in
  set_ents s (insert compactKey (marker_of (e_ver (last ents (mk_entry "" "" 0 false false))) (ver + 1))
                     (ins_all (renum keep (n_ver s)) [])) (ver + 1).

Lemma rev_last {A} (l : list A) (x d : A) r : rev l = x :: r -> last l d = x.
Proof.
  intros H. assert (l = rev r ++ [x]). { rewrite <- (rev_involutive l), H. reflexivity. }
  subst l. apply last_last.
Qed.

Lemma compact_cases th s :
  compact_local th s = s \/ (compact_local th s = compacted s /\ n_ents s <> [] /\
                             th <= N.of_nat (List.length (filter e_del (values (n_ents s))))).
Proof.
  unfold compact_local.
  destruct (N.of_nat (List.length (filter e_del (sort_by_ver (values (n_ents s))))) <? th) eqn:Et; [left; reflexivity|].
  destruct (rev (sort_by_ver (values (n_ents s)))) as [|top r] eqn:Er; [left; reflexivity|].
  right. split; [|split].
  - unfold compacted. fold keepb.
    change (fun e => negb (e_del e) && negb (is_marker e)) with keepb.
    unfold reversion. rewrite reversion_renum.
    rewrite (rev_last _ top (mk_entry "" "" 0 false false) r Er). reflexivity.
  - intros Hn. rewrite Hn in Er. cbn in Er. discriminate.
  - apply N.ltb_ge in Et.
    assert (Hp : Permutation (filter e_del (sort_by_ver (values (n_ents s)))) (filter e_del (values (n_ents s)))).
    { clear. generalize (values (n_ents s)) as l. intros l.
      assert (H := sort_perm l). remember (sort_by_ver l) as l'. clear Heql'.
      induction H; cbn; try constructor; auto.
      - destruct (e_del x); [constructor|]; assumption.
      - destruct (e_del x), (e_del y); try apply perm_swap; reflexivity.
      - etransitivity; eassumption. }
    rewrite (Permutation_length Hp) in Et. exact Et.
Qed.

Lemma lookup_ins_all_iff l k e' :
  NoDup (map e_key l) -> (lookup k (ins_all l []) = Some e' <-> In e' l /\ e_key e' = k).
Proof.
  intros Hnd. rewrite (lookup_ins_all l [] k Hnd). cbn [lookup]. split.
  - destruct (find _ l) as [e|] eqn:F; [|discriminate]. intros [= <-].
    apply find_some in F. destruct F as [F1 F2]. apply String.eqb_eq in F2. auto.
  - intros [Hin Hk]. destruct (find (fun e => String.eqb (e_key e) k) l) as [e|] eqn:F.
    + apply find_some in F. destruct F as [F1 F2]. apply String.eqb_eq in F2. f_equal.
      clear -Hnd Hin F1 Hk F2. induction l as [|x l IH]; [destruct Hin|].
      inversion Hnd as [|? ? Hni Hnd']; subst. destruct Hin as [<-|Hin]; destruct F1 as [<-|F1]; auto.
      * exfalso. apply Hni. rewrite <- F2. apply in_map, F1.
      * exfalso. apply Hni. rewrite F2. apply in_map, Hin.
    + exfalso. apply (find_none _ _ F) in Hin. rewrite Hk, String.eqb_refl in Hin. discriminate.
Qed.

Section Compacted.
  Variable s : node_state.
  Hypothesis HI : LInv s.

  Let ents := sort_by_ver (values (n_ents s)).
  Let keep := filter keepb ents.

  Lemma vals_keys : map e_key (values (n_ents s)) = keys (n_ents s).
  Proof.
    destruct HI as [Hnd Hkey _ _ _ _ _]. clear -Hnd Hkey. unfold values, keys.
    induction (n_ents s) as [|[k e] m IH]; cbn; [reflexivity|].
    inversion Hnd as [|? ? Hni Hnd']; subst. f_equal.
    - apply (Hkey k e). cbn. rewrite String.eqb_refl. reflexivity.
    - apply IH; [exact Hnd'|]. intros k0 e0 H0. apply Hkey. cbn.
      destruct (String.eqb k0 k) eqn:E; [|exact H0].
      apply String.eqb_eq in E. subst. exfalso. apply Hni. apply lookup_In in H0.
      change k with (fst (k, e0)). apply in_map, H0.
  Qed.

  Lemma In_values_lookup e : In e (values (n_ents s)) <-> lookup (e_key e) (n_ents s) = Some e.
  Proof.
    split.
    - intros Hin. apply In_values in Hin. destruct Hin as [k Hin].
      pose proof (In_lookup _ _ _ (li_nodup _ HI) Hin) as Hl.
      rewrite (li_key _ HI _ _ Hl). exact Hl.
    - intros Hl. apply In_values. exists (e_key e). apply lookup_In, Hl.
  Qed.

  Lemma keep_nodup : NoDup (map e_key keep).
  Proof.
    assert (H : NoDup (map e_key ents)).
    { unfold ents. eapply Permutation_NoDup; [apply Permutation_map; symmetry; apply sort_perm|].
      rewrite vals_keys. apply (li_nodup _ HI). }
    unfold keep. clear -H. induction ents as [|x l IH]; cbn; [constructor|].
    inversion H as [|? ? Hni Hnd]; subst. destruct (keepb x); cbn; [|apply IH, Hnd].
    constructor; [|apply IH, Hnd]. intros Hin. apply Hni. apply in_map_iff in Hin.
    destruct Hin as [y [Hy1 Hy2]]. apply filter_In in Hy2. rewrite <- Hy1. apply in_map, Hy2.
  Qed.

  Lemma In_keep e : In e keep <-> lookup (e_key e) (n_ents s) = Some e /\ keepb e = true.
  Proof.
    unfold keep. rewrite filter_In. unfold ents. rewrite In_sort, In_values_lookup. tauto.
  Qed.

  Lemma renum_nodup v : NoDup (map e_key (renum keep v)).
  Proof. rewrite renum_keys. apply keep_nodup. Qed.

  Lemma lookup_compacted_other k :
    k <> compactKey -> lookup k (n_ents (compacted s)) = lookup k (ins_all (renum keep (n_ver s)) []).
  Proof. intros Hne. unfold compacted. cbn [n_ents set_ents]. apply lookup_insert_ne. exact Hne. Qed.

  Lemma lookup_compacted_kept k e :
    k <> compactKey -> lookup k (n_ents s) = Some e -> keepb e = true ->
    exists e', lookup k (n_ents (compacted s)) = Some e' /\ e_key e' = k /\ e_val e' = e_val e
               /\ e_int e' = e_int e /\ e_del e' = e_del e /\ n_ver s < e_ver e'.
  Proof.
    intros Hne Hl Hk. rewrite (lookup_compacted_other k Hne).
    pose proof (li_key _ HI _ _ Hl) as Hkey.
    assert (Hin : In e keep). { apply In_keep. rewrite Hkey. auto. }
    destruct (renum_In_inv keep (n_ver s) e Hin) as [e' [H0 [H1 [H2 [H3 H4]]]]].
    exists e'. split.
    - apply lookup_ins_all_iff; [apply renum_nodup|]. split; [exact H0|congruence].
    - destruct (renum_In _ _ _ H0) as [_ [_ [_ [_ [_ [_ Hv]]]]]]. repeat split; try congruence; lia.
  Qed.

  Lemma lookup_compacted_dropped k :
    k <> compactKey ->
    (forall e, lookup k (n_ents s) = Some e -> keepb e = false) ->
    lookup k (n_ents (compacted s)) = None.
  Proof.
    intros Hne Hd. rewrite (lookup_compacted_other k Hne).
    destruct (lookup k (ins_all (renum keep (n_ver s)) [])) as [e'|] eqn:E; [|reflexivity].
    exfalso. apply lookup_ins_all_iff in E; [|apply renum_nodup]. destruct E as [E1 E2].
    destruct (renum_In _ _ _ E1) as [e [H0 [H1 _]]]. apply In_keep in H0. destruct H0 as [H0 H0'].
    rewrite <- H1, E2 in H0. rewrite (Hd _ H0) in H0'. discriminate.
  Qed.

  Lemma compacted_entry k e' :
    lookup k (n_ents (compacted s)) = Some e' ->
    (k = compactKey /\ e' = marker_of (e_ver (last ents (mk_entry "" "" 0 false false))) (n_ver (compacted s)))
    \/ (k <> compactKey /\ In e' (renum keep (n_ver s)) /\ e_key e' = k).
  Proof.
    destruct (String.eqb k compactKey) eqn:E.
    - apply String.eqb_eq in E. subst k. unfold compacted. cbn [n_ents n_ver set_ents].
      rewrite lookup_insert_eq. intros [= <-]. left. split; reflexivity.
    - apply String.eqb_neq in E. rewrite (lookup_compacted_other k E). intros H.
      apply lookup_ins_all_iff in H; [|apply renum_nodup]. right. tauto.
  Qed.

  Lemma compacted_no_tombstone k e' : lookup k (n_ents (compacted s)) = Some e' -> e_del e' = false.
  Proof.
    intros H. destruct (compacted_entry _ _ H) as [[_ ->]|[_ [Hin _]]]; [reflexivity|].
    destruct (renum_In _ _ _ Hin) as [e [H0 [_ [_ [_ [H4 _]]]]]]. rewrite H4.
    apply In_keep in H0. destruct H0 as [_ H0]. unfold keepb in H0. apply andb_prop in H0.
    destruct H0 as [H0 _]. destruct (e_del e); [discriminate|reflexivity].
  Qed.

  Lemma compacted_ver : n_ver (compacted s) = n_ver s + N.of_nat (List.length keep) + 1.
  Proof. reflexivity. Qed.

  Lemma LInv_compacted : LInv (compacted s).
  Proof.
    constructor.
    - unfold compacted. cbn [n_ents set_ents]. apply NoDup_insert.
      rewrite values_ins_all; [|apply renum_nodup|intros e _ []]. rewrite app_nil_r.
      unfold keys. rewrite map_rev, map_map. cbn [fst]. apply NoDup_rev. apply renum_nodup.
    - intros k e H. destruct (compacted_entry _ _ H) as [[-> ->]|[_ [_ Hk]]]; [reflexivity|exact Hk].
    - intros k e H. rewrite compacted_ver. destruct (compacted_entry _ _ H) as [[_ ->]|[_ [Hin _]]].
      + rewrite compacted_ver. cbn. lia.
      + destruct (renum_In _ _ _ Hin) as [_ [_ [_ [_ [_ [_ Hv]]]]]]. lia.
    - intros k e H. destruct (compacted_entry _ _ H) as [[-> ->]|[_ [Hin Hk]]]; [reflexivity|].
      destruct (renum_In _ _ _ Hin) as [e0 [H0 [H1 [_ [H3 _]]]]]. apply In_keep in H0. destruct H0 as [H0 _].
      rewrite H3, (li_int _ HI _ _ H0). congruence.
    - intros k k' e e' H H' Hv.
      destruct (compacted_entry _ _ H) as [[-> ->]|[Hn [Hin Hk]]];
        destruct (compacted_entry _ _ H') as [[-> ->]|[Hn' [Hin' Hk']]]; auto.
      + exfalso. destruct (renum_In _ _ _ Hin') as [_ [_ [_ [_ [_ [_ Hb]]]]]]. rewrite compacted_ver in Hv. cbn in Hv. lia.
      + exfalso. destruct (renum_In _ _ _ Hin) as [_ [_ [_ [_ [_ [_ Hb]]]]]]. rewrite compacted_ver in Hv. cbn in Hv. lia.
      + assert (e = e'); [|congruence].
        pose proof (renum_sorted keep (n_ver s)) as Hs. clear -Hs Hin Hin' Hv.
        induction (renum keep (n_ver s)) as [|x l IH]; [destruct Hin|].
        inversion Hs as [|? ? Hs' Hall]; subst. rewrite Forall_forall in Hall. unfold ver_lt in Hall.
        destruct Hin as [<-|Hin]; destruct Hin' as [<-|Hin']; auto.
        * specialize (Hall _ Hin'). lia.
        * specialize (Hall _ Hin). lia.
    - intros _. exists compactKey. eexists. split.
      + unfold compacted. cbn [n_ents set_ents]. apply lookup_insert_eq.
      + reflexivity.
    - unfold compacted. cbn [n_ents set_ents]. unfold insert. discriminate.
  Qed.
End Compacted.

(* ------------------------------------------------------------------ invariant over runs *)
Lemma LInv_step s o : LInv s -> user_op o -> LInv (local_step s o).
Proof.
  intros H Hu. destruct o as [k v|k|th|]; cbn [local_step].
  - apply LInv_upsert; assumption.
  - apply LInv_delete; assumption.
  - destruct (compact_cases th s) as [->|[-> _]]; [exact H|apply LInv_compacted, H].
  - apply LInv_leave; assumption.
Qed.

Lemma LInv_run s ops : LInv s -> Forall user_op ops -> LInv (local_run s ops).
Proof.
  revert s. induction ops as [|o ops IH]; intros s H Hu; cbn; [exact H|].
  inversion Hu; subst. apply IH; [apply LInv_step; assumption|assumption].
Qed.

(* ------------------------------------------------------------------ last write wins *)
Lemma user_not_internal k : user_key k = true -> internal_key k = false.
Proof. unfold user_key. destruct (internal_key k); [discriminate|reflexivity]. Qed.

Lemma user_not_compact k : user_key k = true -> k <> compactKey.
Proof.
  intros H ->. apply user_not_internal in H. unfold internal_key in H. rewrite String.eqb_refl, orb_true_r in H. discriminate.
Qed.

Lemma user_not_left k : user_key k = true -> k <> leftKey.
Proof.
  intros H ->. apply user_not_internal in H. unfold internal_key in H. rewrite String.eqb_refl in H. discriminate.
Qed.

Lemma live_write s k e k0 :
  live (write k e s) k0 = if String.eqb k0 k then (if e_del e || e_int e then None else Some (e_val e)) else live s k0.
Proof. unfold live, write. cbn [n_ents set_ents]. rewrite lookup_insert. destruct (String.eqb k0 k); reflexivity. Qed.

Lemma live_step s m o k :
  LInv s -> user_op o -> user_key k = true ->
  (forall k0, user_key k0 = true -> live s k0 = lookup k0 m) ->
  live (local_step s o) k = lookup k (spec_step m o).
Proof.
  intros HI Hu Hk Hm. destruct o as [k1 v|k1|th|]; cbn [local_step spec_step].
  - cbn in Hu. rewrite lookup_insert.
    destruct (upsert_cases k1 v s) as [[-> [ex [E1 [E2 E3]]]]|[-> _]].
    + destruct (String.eqb k k1) eqn:E; [|apply Hm, Hk].
      apply String.eqb_eq in E. subst k1. unfold live. rewrite E1, E3.
      rewrite (li_int _ HI _ _ E1), (user_not_internal _ Hk). cbn. congruence.
    + rewrite live_write. cbn. destruct (String.eqb k k1); [reflexivity|apply Hm, Hk].
  - cbn in Hu. rewrite lookup_remove. unfold delete_local.
    destruct (lookup k1 (n_ents s)) as [ex|] eqn:E.
    + destruct (e_del ex) eqn:Ed.
      * destruct (String.eqb k k1) eqn:Ek; [|apply Hm, Hk].
        apply String.eqb_eq in Ek. subst k1. unfold live. rewrite E, Ed. reflexivity.
      * change (set_ents s _ _) with (write k1 (mk_entry (e_key ex) "" (n_ver s + 1) (e_int ex) true) s).
        rewrite live_write. cbn. destruct (String.eqb k k1); [reflexivity|apply Hm, Hk].
    + destruct (String.eqb k k1) eqn:Ek; [|apply Hm, Hk].
      apply String.eqb_eq in Ek. subst k1. unfold live. rewrite E. reflexivity.
  - rewrite <- (Hm k Hk). destruct (compact_cases th s) as [->|[-> _]]; [reflexivity|].
    pose proof (user_not_compact _ Hk) as Hnc. unfold live at 2.
    destruct (lookup k (n_ents s)) as [e|] eqn:E.
    + destruct (keepb e) eqn:Ek.
      * destruct (lookup_compacted_kept s HI k e Hnc E Ek) as [e' [H0 [_ [H2 [H3 [H4 _]]]]]].
        unfold live. rewrite H0, H2, H3, H4. reflexivity.
      * unfold live. rewrite (lookup_compacted_dropped s HI k Hnc).
        -- unfold keepb in Ek. apply andb_false_iff in Ek. destruct Ek as [Ek|Ek].
           ++ destruct (e_del e); [reflexivity|discriminate].
           ++ exfalso. unfold is_marker in Ek. rewrite (li_key _ HI _ _ E) in Ek.
              destruct (String.eqb k compactKey) eqn:E2; [apply String.eqb_eq in E2; contradiction|].
              rewrite andb_false_r in Ek. discriminate.
        -- intros e0 H0. congruence.
    + unfold live. rewrite (lookup_compacted_dropped s HI k Hnc); [reflexivity|]. intros e0 H0. congruence.
  - rewrite <- (Hm k Hk). unfold leave_local. destruct (n_left s); [reflexivity|].
    unfold live. cbn [n_ents]. rewrite lookup_insert_ne; [reflexivity|apply user_not_left, Hk].
Qed.

Theorem lww_refinement ops s m :
  LInv s -> Forall user_op ops ->
  (forall k, user_key k = true -> live s k = lookup k m) ->
  forall k, user_key k = true -> live (local_run s ops) k = lookup k (spec_run m ops).
Proof.
  revert s m. induction ops as [|o ops IH]; intros s m HI Hu Hm k Hk; cbn; [apply Hm, Hk|].
  inversion Hu; subst. apply IH; auto.
  - apply LInv_step; assumption.
  - intros k0 Hk0. apply live_step; assumption.
Qed.

(* ------------------------------------------------------------------ version discipline *)
Definition effective (s : node_state) (o : lop) : Prop :=
  match o with
  | LUpsert k v => live s k <> Some v
  | LDelete k => exists ex, lookup k (n_ents s) = Some ex /\ e_del ex = false
  | _ => False
  end.

Theorem version_step s o :
  LInv s -> user_op o ->
  match o with
  | LUpsert k _ | LDelete k =>
      (effective s o -> n_ver (local_step s o) = n_ver s + 1 /\
                        exists e, lookup k (n_ents (local_step s o)) = Some e /\ e_ver e = n_ver s + 1) /\
      (~ effective s o -> local_step s o = s)
  | _ => True
  end.
Proof.
  intros HI Hu. destruct o as [k v|k|th|]; cbn [local_step]; auto.
  - cbn in Hu. split.
    + intros He. destruct (upsert_cases k v s) as [[_ [ex [E1 [E2 E3]]]]|[-> _]].
      * exfalso. apply He. unfold live. rewrite E1, E3, (li_int _ HI _ _ E1), (user_not_internal _ Hu). cbn. congruence.
      * unfold write. cbn [n_ver n_ents set_ents]. split; [reflexivity|]. eexists. rewrite lookup_insert_eq. split; reflexivity.
    + intros He. destruct (upsert_cases k v s) as [[-> _]|[_ Hn]]; [reflexivity|].
      exfalso. apply He. cbn. intros Hl. apply Hn. unfold live in Hl.
      destruct (lookup k (n_ents s)) as [ex|] eqn:E; [|discriminate].
      exists ex. destruct (e_del ex); [discriminate|]. cbn in Hl. destruct (e_int ex); [discriminate|].
      injection Hl as ->. auto.
  - split.
    + intros [ex [E Ed]]. unfold delete_local. rewrite E, Ed. cbn [n_ver n_ents set_ents].
      split; [reflexivity|]. eexists. rewrite lookup_insert_eq. split; reflexivity.
    + intros He. unfold delete_local. destruct (lookup k (n_ents s)) as [ex|] eqn:E; [|reflexivity].
      destruct (e_del ex) eqn:Ed; [reflexivity|]. exfalso. apply He. exists ex. auto.
Qed.

Theorem version_monotone s o : n_ver s <= n_ver (local_step s o).
Proof.
  destruct o as [k v|k|th|]; cbn [local_step].
  - destruct (upsert_cases k v s) as [[-> _]|[-> _]]; unfold write; cbn; lia.
  - unfold delete_local. destruct (lookup k (n_ents s)) as [ex|]; [destruct (e_del ex)|]; cbn; lia.
  - destruct (compact_cases th s) as [->|[-> _]]; [lia|]. unfold compacted. cbn. lia.
  - unfold leave_local. destruct (n_left s); cbn; lia.
Qed.

(* ------------------------------------------------------------------ compaction theorems *)
Lemma top_version s : LInv s -> n_ents s <> [] ->
  e_ver (last (sort_by_ver (values (n_ents s))) (mk_entry "" "" 0 false false)) = n_ver s.
Proof.
  intros HI Hne. destruct (li_top _ HI Hne) as [k [e [Hl Hv]]].
  assert (Hin : In e (sort_by_ver (values (n_ents s)))).
  { apply In_sort, In_values. exists k. apply lookup_In, Hl. }
  pose proof (sort_sorted (values (n_ents s))) as Hs.
  destruct (sort_by_ver (values (n_ents s))) as [|x l] eqn:El using rev_ind; [destruct Hin|].
  clear IHl. rewrite last_last.
  assert (Hx : e_ver x <= n_ver s).
  { assert (In x (values (n_ents s))). { apply In_sort. rewrite El. apply in_or_app. right; left; reflexivity. }
    apply In_values in H. destruct H as [kx Hx]. apply (In_lookup _ _ _ (li_nodup _ HI)) in Hx.
    apply (li_ver _ HI _ _ Hx). }
  apply in_app_or in Hin. destruct Hin as [Hin|[<-|[]]]; [|exact Hv].
  pose proof (sorted_last_max _ _ Hs _ Hin). lia.
Qed.

Theorem compact_spec th s :
  LInv s -> 1 <= th ->
  let s' := compact_local th s in
  (* below the threshold nothing changes *)
  (N.of_nat (List.length (filter e_del (values (n_ents s)))) < th -> s' = s) /\
  (th <= N.of_nat (List.length (filter e_del (values (n_ents s)))) ->
     (* every live key keeps its value; nothing deleted survives *)
     (forall k, user_key k = true -> live s' k = live s k) /\
     (forall k e, lookup k (n_ents s') = Some e -> e_del e = false) /\
     (* the marker carries the pre-compaction version and is the newest entry *)
     lookup compactKey (n_ents s') = Some (marker_of (n_ver s) (n_ver s')) /\
     (* kept entries are re-versioned consecutively above the old version, in their old order *)
     dump_entries s' =
       renum (filter keepb (sort_by_ver (values (n_ents s)))) (n_ver s) ++ [marker_of (n_ver s) (n_ver s')]).
Proof.
  intros HI Hth s'. split.
  - intros Hlt. unfold s', compact_local.
    assert (Hp : List.length (filter e_del (sort_by_ver (values (n_ents s)))) = List.length (filter e_del (values (n_ents s)))).
    { apply Permutation_length. generalize (sort_perm (values (n_ents s))).
      generalize (sort_by_ver (values (n_ents s))) (values (n_ents s)). intros l1 l2 H.
      induction H; cbn; auto.
      - destruct (e_del x); [constructor|]; assumption.
      - destruct (e_del x), (e_del y); try apply perm_swap; reflexivity.
      - etransitivity; eassumption. }
    rewrite Hp. apply N.ltb_lt in Hlt. rewrite Hlt. reflexivity.
  - intros Hge.
    assert (Hne : n_ents s <> []).
    { intros Hn. rewrite Hn in Hge. cbn in Hge. lia. }
    assert (Hc : s' = compacted s).
    { unfold s'. destruct (compact_cases th s) as [Hs|[Hs _]]; [|exact Hs].
      exfalso. unfold compact_local in Hs.
      assert (Hp : List.length (filter e_del (sort_by_ver (values (n_ents s)))) = List.length (filter e_del (values (n_ents s)))).
      { apply Permutation_length. generalize (sort_perm (values (n_ents s))).
        generalize (sort_by_ver (values (n_ents s))) (values (n_ents s)). intros l1 l2 H.
        induction H; cbn; auto.
        - destruct (e_del x); [constructor|]; assumption.
        - destruct (e_del x), (e_del y); try apply perm_swap; reflexivity.
        - etransitivity; eassumption. }
      rewrite Hp in Hs. apply N.ltb_ge in Hge. rewrite Hge in Hs.
      destruct (rev (sort_by_ver (values (n_ents s)))) as [|top r] eqn:Er.
      - assert (Hl := length_sort (values (n_ents s))). apply (f_equal (@List.length _)) in Er.
        rewrite rev_length, Hl in Er. unfold values in Er. rewrite map_length in Er.
        destruct (n_ents s); [contradiction|discriminate].
      - (* the compacted state differs from s: its version is larger *)
        apply (f_equal n_ver) in Hs. revert Hs.
        change (fun e => negb (e_del e) && negb (is_marker e)) with keepb.
        unfold reversion. rewrite reversion_renum. cbn [n_ver set_ents]. lia. }
    rewrite Hc. split; [|split; [|split]].
    + intros k Hk.
      pose proof (user_not_compact _ Hk) as Hnc. unfold live at 2.
      destruct (lookup k (n_ents s)) as [e|] eqn:E.
      * destruct (keepb e) eqn:Ek.
        -- destruct (lookup_compacted_kept s HI k e Hnc E Ek) as [e' [H0 [_ [H2 [H3 [H4 _]]]]]].
           unfold live. rewrite H0, H2, H3, H4. reflexivity.
        -- unfold live. rewrite (lookup_compacted_dropped s HI k Hnc).
           ++ unfold keepb in Ek. apply andb_false_iff in Ek. destruct Ek as [Ek|Ek].
              ** destruct (e_del e); [reflexivity|discriminate].
              ** exfalso. unfold is_marker in Ek. rewrite (li_key _ HI _ _ E) in Ek.
                 destruct (String.eqb k compactKey) eqn:E2; [apply String.eqb_eq in E2; contradiction|].
                 rewrite andb_false_r in Ek. discriminate.
           ++ intros e0 H0. congruence.
      * unfold live. rewrite (lookup_compacted_dropped s HI k Hnc); [reflexivity|]. intros e0 H0. congruence.
    + intros k e. apply compacted_no_tombstone, HI.
    + unfold compacted. cbn [n_ents n_ver set_ents]. rewrite lookup_insert_eq, (top_version s HI Hne). reflexivity.
    + unfold dump_entries, compacted. cbn [n_ents n_ver set_ents].
      rewrite (top_version s HI Hne).
      set (keep := filter keepb (sort_by_ver (values (n_ents s)))).
      set (mk := marker_of (n_ver s) (n_ver s + N.of_nat (List.length keep) + 1)).
      rewrite values_ins_all; [|apply renum_nodup, HI|intros e _ []]. rewrite app_nil_r.
      unfold insert. rewrite remove_notin_id.
      2:{ unfold keys. rewrite map_rev, map_map. cbn [fst]. rewrite <- in_rev, renum_keys.
          intros Hin. apply in_map_iff in Hin. destruct Hin as [e [He1 He2]].
          apply (In_keep s HI) in He2. destruct He2 as [Hl Hkb]. unfold keepb, is_marker in Hkb.
          rewrite He1, String.eqb_refl, andb_true_r in Hkb.
          rewrite (li_int _ HI _ _ Hl), He1 in Hkb. unfold internal_key in Hkb.
          rewrite String.eqb_refl, orb_true_r in Hkb. cbn in Hkb. rewrite andb_false_r in Hkb. discriminate. }
      unfold values. cbn [map snd]. rewrite map_rev, map_map. cbn [snd]. rewrite map_id.
      change (mk :: rev (renum keep (n_ver s))) with (rev (renum keep (n_ver s) ++ [mk])) || idtac.
      replace (mk :: rev (renum keep (n_ver s))) with (rev (renum keep (n_ver s) ++ [mk])).
      2:{ rewrite rev_app_distr. reflexivity. }
      apply sort_rev_increasing.
      (* renum keep is <-sorted and the marker is above all of it *)
      assert (Hs := renum_sorted keep (n_ver s)).
      assert (Hb : forall y, In y (renum keep (n_ver s)) -> e_ver y < e_ver mk).
      { intros y Hy. destruct (renum_In _ _ _ Hy) as [_ [_ [_ [_ [_ [_ Hv]]]]]]. cbn. lia. }
      clear -Hs Hb. induction (renum keep (n_ver s)) as [|x l IH]; cbn.
      * constructor; constructor.
      * inversion Hs as [|? ? Hs' Hall]; subst. constructor.
        -- apply IH; [exact Hs'|]. intros y Hy. apply Hb. right; exact Hy.
        -- rewrite Forall_forall in *. intros y Hy. apply in_app_or in Hy. destruct Hy as [Hy|[<-|[]]].
           ++ apply Hall, Hy.
           ++ apply Hb. left; reflexivity.
Qed.
