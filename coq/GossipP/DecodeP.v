(* C13 round trip: decoding what the encoder produced gives back exactly the cut content. *)
From Coq Require Import List String Ascii NArith ZArith Bool Lia.
From Piko Require Import Base.Maps Base.Strs Gossip.Types Gossip.Codec Gossip.Decode GossipP.CodecP.
Import ListNotations.
Open Scope string_scope. Open Scope list_scope. Open Scope N_scope.

(* ---- numbers ---- *)
Lemma be_S k n : be (S k) n = (n / 256 ^ N.of_nat k) mod 256 :: be k n.
Proof. reflexivity. Qed.

Lemma unbe_be k : forall n acc rest, unbe k (be k n ++ rest) acc = Some (acc * 256 ^ N.of_nat k + n mod 256 ^ N.of_nat k, rest).
Proof.
  induction k as [|k IH]; intros n acc rest.
  - cbn. rewrite N.mod_1_r. f_equal. f_equal. lia.
  - rewrite be_S. cbn [app unbe]. rewrite IH. f_equal. f_equal.
    replace (N.of_nat (S k)) with (N.succ (N.of_nat k)) by lia. rewrite N.pow_succ_r'.
    assert (Hp : 256 ^ N.of_nat k <> 0) by (apply N.pow_nonzero; discriminate).
    rewrite (N.mul_comm 256 (256 ^ N.of_nat k)).
    rewrite (N.mod_mul_r n (256 ^ N.of_nat k) 256 Hp ltac:(discriminate)). lia.
Qed.

Lemma unbe_be_small k n rest : n < 256 ^ N.of_nat k -> unbe k (be k n ++ rest) 0 = Some (n, rest).
Proof. intros H. rewrite unbe_be. rewrite (N.mod_small n _ H). f_equal. Qed.

Lemma dec_uint_enc n rest : n < 2 ^ 64 -> dec_uint (enc_uint n ++ rest) = Some (n, rest).
Proof.
  intros Hn. unfold enc_uint.
  destruct (n <=? 127) eqn:E1; [cbn [app dec_uint]; rewrite E1; reflexivity|].
  destruct (n <=? 255) eqn:E2.
  - cbn [app dec_uint]. change (204 <=? 127) with false. change (204 =? 204) with true.
    cbn [unbe]. reflexivity.
  - destruct (n <=? 65535) eqn:E3.
    + apply N.leb_le in E3. cbn [app dec_uint]. change (205 <=? 127) with false. change (205 =? 204) with false. change (205 =? 205) with true.
      apply unbe_be_small. cbn. lia.
    + destruct (n <=? 4294967295) eqn:E4.
      * apply N.leb_le in E4. cbn [app dec_uint]. change (206 <=? 127) with false. change (206 =? 204) with false.
        change (206 =? 205) with false. change (206 =? 206) with true. apply unbe_be_small. cbn. lia.
      * cbn [app dec_uint]. change (207 <=? 127) with false. change (207 =? 204) with false.
        change (207 =? 205) with false. change (207 =? 206) with false. change (207 =? 207) with true.
        apply unbe_be_small. cbn. lia.
Qed.

Lemma dec_int_enc n rest : n < 2 ^ 63 -> dec_int (enc_int n ++ rest) = Some (n, rest).
Proof.
  intros Hn. unfold enc_int.
  destruct (n <=? 127) eqn:E1; [cbn [app dec_int]; rewrite E1; reflexivity|].
  destruct (n <=? 32767) eqn:E2.
  - apply N.leb_le in E2. cbn [app dec_int]. change (209 <=? 127) with false. change (209 =? 209) with true.
    apply unbe_be_small. cbn. lia.
  - destruct (n <=? 2147483647) eqn:E3.
    + apply N.leb_le in E3. cbn [app dec_int]. change (210 <=? 127) with false. change (210 =? 209) with false. change (210 =? 210) with true.
      apply unbe_be_small. cbn. lia.
    + cbn [app dec_int]. change (211 <=? 127) with false. change (211 =? 209) with false. change (211 =? 210) with false.
      change (211 =? 211) with true. apply unbe_be_small. cbn. lia.
Qed.

Lemma dec_bool_enc b rest : dec_bool (enc_bool b ++ rest) = Some (b, rest).
Proof. destruct b; reflexivity. Qed.

(* ---- strings ---- *)
Lemma take_bytes_app hd rest : take_bytes (List.length hd) (hd ++ rest) = Some (hd, rest).
Proof. induction hd as [|x hd IH]; cbn; [reflexivity|]. rewrite IH. reflexivity. Qed.

Lemma string_bytes_roundtrip s : string_of_bytes (bytes_of_string s) = s.
Proof.
  unfold string_of_bytes, bytes_of_string. rewrite map_map.
  induction s as [|a s IH]; cbn; [reflexivity|]. rewrite ascii_N_embedding, IH. reflexivity.
Qed.

Lemma bytes_of_string_length s : List.length (bytes_of_string s) = String.length s.
Proof. unfold bytes_of_string. rewrite map_length. induction s; cbn; auto. Qed.

Lemma dec_str_enc s rest : N.of_nat (String.length s) < 2 ^ 32 -> dec_str (enc_str s ++ rest) = Some (s, rest).
Proof.
  intros Hl. unfold enc_str. set (l := N.of_nat (String.length s)) in *.
  assert (Hget : take_bytes (N.to_nat l) (bytes_of_string s ++ rest) = Some (bytes_of_string s, rest)).
  { unfold l. rewrite Nnat.Nat2N.id, <- bytes_of_string_length. apply take_bytes_app. }
  destruct (l <? 32) eqn:E1.
  - apply N.ltb_lt in E1. cbn [app dec_str].
    assert (H1 : (160 <=? 160 + l) = true) by (apply N.leb_le; lia).
    assert (H2 : (160 + l <=? 191) = true) by (apply N.leb_le; lia).
    rewrite H1, H2. cbn [andb]. replace (160 + l - 160) with l by lia. rewrite Hget, string_bytes_roundtrip. reflexivity.
  - destruct (l <? 65536) eqn:E2.
    + apply N.ltb_lt in E2. rewrite <- app_assoc. cbn [app dec_str].
      change ((160 <=? 218) && (218 <=? 191)) with false. change (218 =? 218) with true.
      rewrite (unbe_be_small 2 l); [|cbn; lia]. rewrite Hget, string_bytes_roundtrip. reflexivity.
    + rewrite <- app_assoc. cbn [app dec_str].
      change ((160 <=? 219) && (219 <=? 191)) with false. change (219 =? 218) with false. change (219 =? 219) with true.
      rewrite (unbe_be_small 4 l); [|cbn; lia]. rewrite Hget, string_bytes_roundtrip. reflexivity.
Qed.

Lemma expect_app lit rest : expect lit (lit ++ rest) = Some rest.
Proof. induction lit as [|x l IH]; cbn; [reflexivity|]. rewrite N.eqb_refl. exact IH. Qed.

(* ---- well-formed (representable) values: Go lengths and integer ranges ---- *)
Definition str_ok (s : string) : Prop := N.of_nat (String.length s) < 2 ^ 32.
Definition entry_ok (e : entry) : Prop := str_ok (e_key e) /\ str_ok (e_val e) /\ e_ver e < 2 ^ 64.
Definition dig_ok (d : dig_entry) : Prop := str_ok (d_id d) /\ str_ok (d_addr d) /\ d_ver d < 2 ^ 64.

Lemma dec_entry_enc e rest : entry_ok e -> dec_entry (enc_entry e ++ rest) = Some (e, rest).
Proof.
  intros [Hk [Hv Hn]]. unfold enc_entry, dec_entry. rewrite <- !app_assoc.
  rewrite (app_assoc (enc_maphdr 5) (enc_str "key")), expect_app.
  rewrite dec_str_enc by exact Hk. rewrite expect_app. rewrite dec_str_enc by exact Hv. rewrite expect_app.
  rewrite dec_uint_enc by exact Hn. rewrite expect_app, dec_bool_enc, expect_app, dec_bool_enc.
  destruct e; reflexivity.
Qed.

Lemma dec_dig_entry_enc d rest : dig_ok d -> dec_dig_entry (enc_dig_entry d ++ rest) = Some (d, rest).
Proof.
  intros [Hk [Hv Hn]]. unfold enc_dig_entry, dec_dig_entry. rewrite <- !app_assoc.
  rewrite (app_assoc (enc_maphdr 4) (enc_str "id")), expect_app.
  rewrite dec_str_enc by exact Hk. rewrite expect_app. rewrite dec_str_enc by exact Hv. rewrite expect_app.
  rewrite dec_uint_enc by exact Hn. rewrite expect_app, dec_bool_enc.
  destruct d; reflexivity.
Qed.

Lemma dec_digest_header_enc id addr rq rest :
  str_ok id -> str_ok addr -> dec_digest_header (enc_digest_header id addr rq ++ rest) = Some (id, addr, rq, rest).
Proof.
  intros Hi Ha. unfold enc_digest_header, dec_digest_header. rewrite <- !app_assoc.
  rewrite (app_assoc (enc_maphdr 3) (enc_str "node_id")), expect_app.
  rewrite dec_str_enc by exact Hi. rewrite expect_app. rewrite dec_str_enc by exact Ha. rewrite expect_app, dec_bool_enc. reflexivity.
Qed.

Lemma dec_delta_header_enc id addr n rest :
  str_ok id -> str_ok addr -> n < 2 ^ 63 -> dec_delta_header (enc_delta_header id addr n ++ rest) = Some (id, addr, n, rest).
Proof.
  intros Hi Ha Hn. unfold enc_delta_header, dec_delta_header. rewrite <- !app_assoc.
  rewrite (app_assoc (enc_maphdr 3) (enc_str "node_id")), expect_app.
  rewrite dec_str_enc by exact Hi. rewrite expect_app. rewrite dec_str_enc by exact Ha. rewrite expect_app, dec_int_enc by exact Hn. reflexivity.
Qed.

(* ---- lists ---- *)
Lemma enc_dig_entry_cons d : exists x r, enc_dig_entry d = x :: r.
Proof. unfold enc_dig_entry, enc_maphdr. cbn [app]. eauto. Qed.

Lemma enc_entry_cons e : exists x r, enc_entry e = x :: r.
Proof. unfold enc_entry, enc_maphdr. cbn [app]. eauto. Qed.

Lemma enc_delta_header_cons id addr n : exists x r, enc_delta_header id addr n = x :: r.
Proof. unfold enc_delta_header, enc_maphdr. cbn [app]. eauto. Qed.

Lemma dec_dig_entries_enc l : Forall dig_ok l -> forall fuel, (List.length l <= fuel)%nat ->
  dec_dig_entries fuel (flat_map enc_dig_entry l) = Some l.
Proof.
  induction l as [|d l IH]; intros Hok fuel Hf; [destruct fuel; reflexivity|].
  inversion Hok as [|? ? Hd Hl]; subst. cbn [flat_map].
  destruct (enc_dig_entry_cons d) as [x [r Hx]]. destruct fuel as [|fuel]; [cbn in Hf; lia|].
  unfold dec_dig_entries; fold dec_dig_entries. rewrite Hx. cbn [app]. rewrite (app_comm_cons r), <- Hx.
  rewrite (dec_dig_entry_enc d _ Hd), IH; [reflexivity|exact Hl|cbn in Hf; lia].
Qed.

Lemma flat_map_length_ge {A} (enc : A -> bytes) l :
  (forall a, exists x r, enc a = x :: r) -> (List.length l <= List.length (flat_map enc l))%nat.
Proof.
  intros Hne. induction l as [|a l IH]; cbn; [lia|]. destruct (Hne a) as [x [r ->]]. cbn. rewrite app_length. lia.
Qed.

Theorem decode_digest_enc id addr rq dg :
  str_ok id -> str_ok addr -> Forall dig_ok dg ->
  decode_digest (encode_digest_full id addr rq dg) = Some (id, addr, rq, dg).
Proof.
  intros Hi Ha Hd. unfold decode_digest, encode_digest_full, digest_prefix. rewrite <- app_assoc.
  rewrite expect_app, dec_digest_header_enc by assumption.
  rewrite dec_dig_entries_enc; [reflexivity|exact Hd|]. apply flat_map_length_ge, enc_dig_entry_cons.
Qed.

Lemma dec_entries_full es rest : Forall entry_ok es ->
  dec_entries (List.length es) (flat_map enc_entry es ++ rest) = Some (es, rest).
Proof.
  induction es as [|e es IH]; intros Hok; [reflexivity|]. inversion Hok as [|? ? He Hes]; subst.
  cbn [flat_map List.length]. destruct (enc_entry_cons e) as [x [r Hx]].
  unfold dec_entries; fold dec_entries. rewrite <- app_assoc, Hx. cbn [app]. rewrite (app_comm_cons r), <- Hx.
  rewrite (dec_entry_enc e _ He), (IH Hes). reflexivity.
Qed.

Lemma dec_entries_eof es : Forall entry_ok es -> forall n, (List.length es <= n)%nat ->
  dec_entries n (flat_map enc_entry es) = Some (es, []).
Proof.
  induction es as [|e es IH]; intros Hok n Hn; [destruct n; reflexivity|]. inversion Hok as [|? ? He Hes]; subst.
  destruct n as [|n]; [cbn in Hn; lia|]. cbn [flat_map]. destruct (enc_entry_cons e) as [x [r Hx]].
  unfold dec_entries; fold dec_entries. rewrite Hx. cbn [app]. rewrite (app_comm_cons r), <- Hx.
  rewrite (dec_entry_enc e _ He), (IH Hes n); [reflexivity|cbn in Hn; lia].
Qed.

Definition part_ok (p : delta_part) : Prop :=
  str_ok (dp_id p) /\ str_ok (dp_addr p) /\ dp_count p < 2 ^ 63 /\ Forall entry_ok (dp_ents p).

(* what a delta packet may look like: complete nodes, then possibly one node with fewer entries than announced *)
Inductive good_parts : list delta_part -> Prop :=
| gp_nil : good_parts []
| gp_last p : part_ok p -> (List.length (dp_ents p) <= N.to_nat (dp_count p))%nat -> good_parts [p]
| gp_cons p ps : part_ok p -> List.length (dp_ents p) = N.to_nat (dp_count p) -> good_parts ps -> good_parts (p :: ps).

Lemma dec_parts_enc ps : good_parts ps -> forall fuel, (List.length ps <= fuel)%nat ->
  dec_parts fuel (flat_map enc_part ps) = Some ps.
Proof.
  induction 1 as [|p [Hi [Ha [Hc He]]] Hl|p ps [Hi [Ha [Hc He]]] Hl Hg IH]; intros fuel Hf.
  - destruct fuel; reflexivity.
  - destruct fuel as [|fuel]; [cbn in Hf; lia|]. cbn [flat_map]. rewrite app_nil_r. unfold enc_part.
    destruct (enc_delta_header_cons (dp_id p) (dp_addr p) (dp_count p)) as [x [r Hx]].
    unfold dec_parts; fold dec_parts. rewrite Hx. cbn [app]. rewrite (app_comm_cons r), <- Hx.
    rewrite (dec_delta_header_enc _ _ _ _ Hi Ha Hc), (dec_entries_eof _ He _ Hl).
    destruct fuel; destruct p; reflexivity.
  - destruct fuel as [|fuel]; [cbn in Hf; lia|]. cbn [flat_map]. unfold enc_part at 1. rewrite <- app_assoc.
    destruct (enc_delta_header_cons (dp_id p) (dp_addr p) (dp_count p)) as [x [r Hx]].
    unfold dec_parts; fold dec_parts. rewrite Hx. cbn [app]. rewrite (app_comm_cons r), <- Hx.
    rewrite (dec_delta_header_enc _ _ _ _ Hi Ha Hc). rewrite <- Hl, (dec_entries_full _ _ He).
    rewrite IH by (cbn in Hf; lia). destruct p; reflexivity.
Qed.

Theorem decode_delta_enc id addr ps :
  str_ok id -> str_ok addr -> good_parts ps ->
  decode_delta (encode_delta_full id addr ps) = Some (id, addr, ps).
Proof.
  intros Hi Ha Hg. unfold decode_delta, encode_delta_full, delta_prefix. rewrite <- app_assoc.
  rewrite expect_app, dec_delta_header_enc by (try assumption; cbn; lia).
  rewrite dec_parts_enc; [reflexivity|exact Hg|].
  apply flat_map_length_ge. intros p. unfold enc_part. destruct (enc_delta_header_cons (dp_id p) (dp_addr p) (dp_count p)) as [x [r ->]].
  cbn. eauto.
Qed.

(* the cut of a representable delta is a good packet *)
Definition delta_entry_ok (de : delta_entry) : Prop :=
  str_ok (de_id de) /\ str_ok (de_addr de) /\ N.of_nat (List.length (de_ents de)) < 2 ^ 63 /\ Forall entry_ok (de_ents de).

Lemma delta_cut_good dl ps : Forall delta_entry_ok dl -> delta_cut dl ps -> good_parts ps.
Proof.
  intros Hok Hc. induction Hc as [dl|de dl ps Hc IH|de dl es [post Hp] Hl].
  - constructor.
  - inversion Hok as [|? ? [Hi [Ha [Hn He]]] Hrest]; subst.
    assert (Hpo : part_ok {| dp_id := de_id de; dp_addr := de_addr de; dp_count := N.of_nat (List.length (de_ents de)); dp_ents := de_ents de |}).
    { repeat split; assumption. }
    destruct ps as [|q ps'].
    + apply gp_last; [exact Hpo|]. cbn. rewrite Nnat.Nat2N.id. lia.
    + apply gp_cons; [exact Hpo| |apply IH, Hrest]. cbn. rewrite Nnat.Nat2N.id. reflexivity.
  - inversion Hok as [|? ? [Hi [Ha [Hn He]]] Hrest]; subst. apply gp_last.
    + repeat split; try assumption. cbn [dp_ents]. rewrite Hp in He. apply Forall_app in He. tauto.
    + cbn. rewrite Nnat.Nat2N.id. lia.
Qed.

(* round trip through the truncating encoder *)
Theorem roundtrip_delta id addr dl max b :
  str_ok id -> str_ok addr -> Forall delta_entry_ok dl -> encode_delta id addr dl max = Some b ->
  exists parts, delta_cut dl parts /\ decode_delta b = Some (id, addr, parts).
Proof.
  intros Hi Ha Hok Henc. destruct (encode_delta_prefix id addr dl max b Henc) as [parts [Hc ->]].
  exists parts. split; [exact Hc|]. apply decode_delta_enc; [assumption|assumption|]. apply (delta_cut_good dl); assumption.
Qed.

Theorem roundtrip_digest id addr rq dg max b :
  str_ok id -> str_ok addr -> Forall dig_ok dg -> encode_digest id addr rq dg max = Some b ->
  exists sent rest, dg = sent ++ rest /\ decode_digest b = Some (id, addr, rq, sent).
Proof.
  intros Hi Ha Hok Henc. destruct (encode_digest_prefix id addr rq dg max b Henc) as [sent [rest [Hs [-> _]]]].
  exists sent, rest. split; [exact Hs|]. apply decode_digest_enc; [assumption|assumption|].
  rewrite Hs in Hok. apply Forall_app in Hok. tauto.
Qed.
