(* C02 core lemma: applying any version-prefix of a delta cut from a valid source view to a valid
   observer view yields a valid view (also across compaction markers, current or stale). *)
From Coq Require Import List String NArith ZArith Bool Lia Permutation Sorted.
From Piko Require Import Base.Maps Base.Strs Gossip.Types Gossip.Local Gossip.Apply.
From Piko Require Import GossipP.SortP GossipP.LocalP GossipP.Valid.
Import ListNotations.
Open Scope string_scope. Open Scope list_scope. Open Scope N_scope.

Lemma Valid_extV V V' O L : n_ver V = n_ver V' -> n_ents V = n_ents V' -> Valid V O L -> Valid V' O L.
Proof.
  intros Hv He [A1 A2 A3 A4 A5]. constructor; rewrite <- ?Hv, <- ?He; assumption.
Qed.

Section OneStep.
  Variables (O S B : node_state) (L : list entry) (d : N) (e : entry).
  Hypothesis HO : OwnInv O L.
  Hypothesis HS : Valid S O L.
  Hypothesis HB : Valid B O L.
  Hypothesis Hd : d <= n_ver B.
  Hypothesis HeS : lookup (e_key e) (n_ents S) = Some e.
  Hypothesis Hnew : n_ver B < e_ver e.
  (* everything of the source between the digest version and e has already been absorbed *)
  Hypothesis Hgap : forall k x, lookup k (n_ents S) = Some x -> d < e_ver x -> e_ver x < e_ver e -> e_ver x <= n_ver B.

  Let st1 := set_ents B (insert (e_key e) e (n_ents B)) (e_ver e).

  Lemma e_in_L : In e L /\ e_ver e <= n_ver S.
  Proof. destruct (V2 _ _ _ HS _ _ HeS) as [H1 [_ H3]]. auto. Qed.

  (* an owner-current entry under e's key and not newer than e is e itself *)
  Lemma cur_same_key x : lookup (e_key e) (n_ents O) = Some x -> e_ver x <= e_ver e -> x = e.
  Proof.
    intros Hx Hle. destruct e_in_L as [HeL _].
    destruct (Oc _ _ HO _ HeL) as [[x' [Hx' Hle']]|[Hn _]]; [|congruence].
    assert (x' = x) by congruence. subst x'.
    apply (Ob _ _ HO); [apply (Oa _ _ HO _ _ Hx)|exact HeL|lia].
  Qed.

  Lemma st1_V1 : n_ver st1 <= n_ver O.
  Proof. cbn. destruct e_in_L as [_ H]. pose proof (V1 _ _ _ HS). lia. Qed.

  Lemma st1_V2 k x : lookup k (n_ents st1) = Some x -> In x L /\ e_key x = k /\ e_ver x <= n_ver st1.
  Proof.
    cbn [st1 n_ents n_ver set_ents]. rewrite lookup_insert. destruct (String.eqb k (e_key e)) eqn:E.
    - apply String.eqb_eq in E. intros [= <-]. destruct e_in_L as [H _]. repeat split; auto; lia.
    - intros Hl. destruct (V2 _ _ _ HB _ _ Hl) as [H1 [H2 H3]]. repeat split; auto; lia.
  Qed.

  Lemma st1_V3 k x : lookup k (n_ents O) = Some x -> e_ver x <= n_ver st1 -> lookup k (n_ents st1) = Some x.
  Proof.
    cbn [st1 n_ents n_ver set_ents]. intros Hx Hle. rewrite lookup_insert.
    destruct (String.eqb k (e_key e)) eqn:E.
    - apply String.eqb_eq in E. subst k. f_equal. symmetry. apply cur_same_key; assumption.
    - apply String.eqb_neq in E.
      destruct (N.le_gt_cases (e_ver x) (n_ver B)) as [Hb|Hb]; [apply (V3 _ _ _ HB _ _ Hx Hb)|].
      exfalso. destruct e_in_L as [HeL HeS'].
      assert (HxS : lookup k (n_ents S) = Some x). { apply (V3 _ _ _ HS _ _ Hx). lia. }
      assert (Hne : e_ver x <> e_ver e).
      { intros Heq. apply E. assert (x = e).
        { apply (Ob _ _ HO); [apply (Oa _ _ HO _ _ Hx)|exact HeL|exact Heq]. }
        subst x. symmetry. apply (li_key _ (O_l _ _ HO) _ _ Hx). }
      pose proof (Hgap _ _ HxS). lia.
  Qed.

  Lemma st1_V5 : NoDup (keys (n_ents st1)).
  Proof. unfold st1. cbn [n_ents set_ents]. apply NoDup_insert. apply (V5 _ _ _ HB). Qed.

  (* orphans of st1 are below the owner's marker, unless e is that marker *)
  Lemma st1_V4 k x :
    lookup k (n_ents st1) = Some x -> lookup k (n_ents O) = None ->
    exists m, cur_marker O = Some m /\ (n_ver st1 < e_ver m \/ (m = e /\ k <> e_key e)).
  Proof.
    cbn [st1 n_ents n_ver set_ents]. rewrite lookup_insert. destruct (String.eqb k (e_key e)) eqn:E.
    - apply String.eqb_eq in E. subst k. intros [= <-] Hn.
      destruct (V4 _ _ _ HS _ _ HeS Hn) as [m [Hm Hv]]. exists m. split; [exact Hm|]. left.
      destruct e_in_L as [_ H]. lia.
    - apply String.eqb_neq in E. intros Hl Hn.
      destruct (V4 _ _ _ HB _ _ Hl Hn) as [m [Hm Hv]]. exists m. split; [exact Hm|].
      destruct (N.lt_ge_cases (e_ver e) (e_ver m)) as [Hlt|Hge]; [left; exact Hlt|].
      right. unfold cur_marker in Hm.
      destruct (String.eqb (e_key e) compactKey) eqn:Ek.
      + apply String.eqb_eq in Ek. split; [|exact E]. rewrite <- Ek in Hm. apply cur_same_key; assumption.
      + exfalso. apply String.eqb_neq in Ek.
        assert (Hm1 : lookup compactKey (n_ents st1) = Some m) by (apply st1_V3; [exact Hm|cbn; exact Hge]).
        cbn [st1 n_ents set_ents] in Hm1. rewrite lookup_insert_ne in Hm1 by congruence.
        destruct (V2 _ _ _ HB _ _ Hm1) as [_ [_ H3]]. lia.
  Qed.

  (* non-marker entries: st1 is valid *)
  Lemma st1_valid : e_key e <> compactKey -> Valid st1 O L.
  Proof.
    intros Hnm. constructor.
    - exact st1_V1.
    - exact st1_V2.
    - exact st1_V3.
    - intros k x Hl Hn. destruct (st1_V4 _ _ Hl Hn) as [m [Hm [Hv|[-> _]]]].
      + exists m. auto.
      + exfalso. apply Hnm. unfold cur_marker in Hm. apply (li_key _ (O_l _ _ HO) _ _ Hm).
    - exact st1_V5.
  Qed.

  (* marker entries: the purge makes the result valid *)
  Lemma purge_valid c :
    e_key e = compactKey -> parse_uint (e_val e) = Some c ->
    Valid (set_ents st1 (mfilter (fun x => c <? e_ver x) (n_ents st1)) (n_ver st1)) O L.
  Proof.
    intros Hk Hp. destruct e_in_L as [HeL _].
    destruct (Oe _ _ HO _ HeL Hk) as [c' [Hp' [Hc1 Hc2]]]. assert (c' = c) by congruence. subst c'.
    constructor; cbn [n_ver n_ents set_ents].
    - exact st1_V1.
    - intros k x. rewrite (lookup_mfilter _ _ _ st1_V5).
      destruct (lookup k (n_ents st1)) as [y|] eqn:Ey; [|discriminate].
      destruct (c <? e_ver y); [|discriminate]. intros [= <-]. apply st1_V2, Ey.
    - intros k x Hx Hle. rewrite (lookup_mfilter _ _ _ st1_V5), (st1_V3 _ _ Hx Hle).
      pose proof (Od _ _ HO _ _ Hx) as Hd'. assert (Hlt : c <? e_ver x = true) by (apply N.ltb_lt; lia).
      rewrite Hlt. reflexivity.
    - intros k x. rewrite (lookup_mfilter _ _ _ st1_V5).
      destruct (lookup k (n_ents st1)) as [y|] eqn:Ey; [|discriminate].
      destruct (c <? e_ver y) eqn:Ec; [|discriminate]. intros [= <-] Hn. apply N.ltb_lt in Ec.
      destruct (st1_V4 _ _ Ey Hn) as [m [Hm [Hv|[-> Hne]]]]; [exists m; auto|].
      (* e is the owner's current marker: every orphan is at or below its compaction point *)
      exfalso. assert (Hcv : cv O = c). { unfold cv. rewrite Hm, Hp. reflexivity. }
      destruct (st1_V2 _ _ Ey) as [HyL [Hyk _]].
      destruct (Oc _ _ HO _ HyL) as [[y' [Hy' _]]|[_ Hle]]; [rewrite Hyk in Hy'; congruence|]. lia.
    - apply NoDup_mfilter, st1_V5.
  Qed.

  Lemma apply_entry_valid now nid :
    let '(st', _, stop) := apply_entry now nid B e in Valid st' O L /\ stop = false /\ n_ver st' = e_ver e.
  Proof.
    unfold apply_entry. assert (Hle : e_ver e <=? n_ver B = false) by (apply N.leb_gt; exact Hnew). rewrite Hle.
    fold st1. destruct e_in_L as [HeL _]. pose proof (Of _ _ HO _ HeL) as Hint.
    destruct (e_int e) eqn:Ei.
    - destruct (String.eqb (e_key e) leftKey) eqn:El.
      + apply String.eqb_eq in El. split; [|split; reflexivity].
        apply (Valid_extV st1); [reflexivity|reflexivity|]. apply st1_valid. rewrite El. discriminate.
      + destruct (String.eqb (e_key e) compactKey) eqn:Ec.
        * apply String.eqb_eq in Ec. destruct (Oe _ _ HO _ HeL Ec) as [c [Hp _]]. rewrite Hp.
          split; [|split; reflexivity]. apply purge_valid; assumption.
        * apply String.eqb_neq in Ec. split; [|split; reflexivity]. apply st1_valid, Ec.
    - split; [|split; reflexivity]. apply st1_valid. intros Hk. rewrite Hk in Hint. discriminate.
  Qed.
End OneStep.

Definition is_prefix_of {A} (p l : list A) : Prop := exists r, l = p ++ r.

Lemma sorted_before (pre rest : list entry) (e x : entry) :
  StronglySorted ver_lt (pre ++ e :: rest) -> In x (pre ++ e :: rest) -> e_ver x < e_ver e -> In x pre.
Proof.
  induction pre as [|p pre IH]; cbn; intros Hs Hin Hlt.
  - inversion Hs as [|? ? _ Hall]; subst. destruct Hin as [<-|Hin]; [lia|].
    rewrite Forall_forall in Hall. specialize (Hall _ Hin). unfold ver_lt in Hall. lia.
  - inversion Hs as [|? ? Hs' _]; subst. destruct Hin as [<-|Hin]; [left; reflexivity|].
    right. apply IH; assumption.
Qed.

Lemma NoDup_map_inj_in {A B} (g : A -> B) (l : list A) :
  NoDup l -> (forall x y, In x l -> In y l -> g x = g y -> x = y) -> NoDup (map g l).
Proof.
  induction l as [|a l IH]; cbn; intros Hnd Hinj; [constructor|].
  inversion Hnd as [|? ? Hni Hnd']; subst. constructor.
  - intros Hin. apply in_map_iff in Hin. destruct Hin as [y [Hy Hin]].
    assert (y = a) by (apply Hinj; auto). subst y. contradiction.
  - apply IH; [exact Hnd'|]. intros x y Hx Hy. apply Hinj; auto.
Qed.

Lemma NoDup_map_filter {A B} (g : A -> B) p (l : list A) : NoDup (map g l) -> NoDup (map g (filter p l)).
Proof.
  induction l as [|a l IH]; cbn; intros Hnd; [constructor|].
  inversion Hnd as [|? ? Hni Hnd']; subst. destruct (p a); cbn; [|apply IH, Hnd'].
  constructor; [|apply IH, Hnd']. intros Hin. apply Hni. apply in_map_iff in Hin.
  destruct Hin as [y [Hy Hin]]. apply filter_In in Hin. rewrite <- Hy. apply in_map, Hin.
Qed.

Section Prefix.
  Variables (O S : node_state) (L : list entry) (d : N) (now : Z) (nid : string).
  Hypothesis HO : OwnInv O L.
  Hypothesis HS : Valid S O L.

  Let T := sort_by_ver (filter (fun e => d <? e_ver e) (values (n_ents S))).

  Lemma S_value x : In x (values (n_ents S)) <-> lookup (e_key x) (n_ents S) = Some x.
  Proof.
    split.
    - intros Hin. apply In_values in Hin. destruct Hin as [k Hin].
      apply (In_lookup _ _ _ (V5 _ _ _ HS)) in Hin. destruct (V2 _ _ _ HS _ _ Hin) as [_ [Hk _]]. rewrite Hk. exact Hin.
    - intros Hl. apply In_values. exists (e_key x). apply lookup_In, Hl.
  Qed.

  Lemma T_elem x : In x T <-> lookup (e_key x) (n_ents S) = Some x /\ d < e_ver x.
  Proof. unfold T. rewrite In_sort, filter_In, N.ltb_lt, S_value. tauto. Qed.

  Lemma S_vers_nodup : NoDup (map e_ver (values (n_ents S))).
  Proof.
    apply NoDup_map_inj_in.
    - (* values are distinct because their keys are *)
      apply (NoDup_map_inv e_key).
      replace (map e_key (values (n_ents S))) with (keys (n_ents S)); [apply (V5 _ _ _ HS)|].
      unfold keys, values. rewrite map_map. apply map_ext_in. intros [k x] Hin. cbn.
      apply (In_lookup _ _ _ (V5 _ _ _ HS)) in Hin. destruct (V2 _ _ _ HS _ _ Hin) as [_ [Hk _]]. auto.
    - intros x y Hx Hy Heq. apply S_value in Hx, Hy.
      destruct (V2 _ _ _ HS _ _ Hx) as [Lx _], (V2 _ _ _ HS _ _ Hy) as [Ly _]. apply (Ob _ _ HO); assumption.
  Qed.

  Lemma T_sorted : StronglySorted ver_lt T.
  Proof.
    apply sorted_le_lt; [apply sort_sorted|]. unfold T.
    eapply Permutation_NoDup; [apply Permutation_map; symmetry; apply sort_perm|].
    apply NoDup_map_filter, S_vers_nodup.
  Qed.

  Lemma apply_sorted_valid es : forall pre post B,
    T = pre ++ es ++ post -> (forall x, In x pre -> e_ver x <= n_ver B) -> d <= n_ver B -> Valid B O L ->
    Valid (fst (apply_entries now nid B es)) O L /\ n_ver B <= n_ver (fst (apply_entries now nid B es)).
  Proof.
    induction es as [|e es IH]; intros pre post B HT Hpre Hd HB; cbn [apply_entries fst]; [split; [exact HB|lia]|].
    assert (HeT : In e T). { rewrite HT. apply in_or_app. right. left. reflexivity. }
    destruct (N.le_gt_cases (e_ver e) (n_ver B)) as [Hold|Hnew].
    - (* already known: skipped *)
      unfold apply_entry. assert (Hle : e_ver e <=? n_ver B = true) by (apply N.leb_le; exact Hold). rewrite Hle.
      specialize (IH (pre ++ [e]) post B).
      destruct (apply_entries now nid B es) as [B' ev']. cbn [fst] in *. apply IH; auto.
      + rewrite HT, <- app_assoc. reflexivity.
      + intros x Hx. apply in_app_or in Hx. destruct Hx as [Hx|[<-|[]]]; auto.
    - apply T_elem in HeT as [HeS HeD].
      assert (Hgap : forall k x, lookup k (n_ents S) = Some x -> d < e_ver x -> e_ver x < e_ver e -> e_ver x <= n_ver B).
      { intros k x Hx Hdx Hlt. apply Hpre.
        assert (HxT : In x T). { apply T_elem. destruct (V2 _ _ _ HS _ _ Hx) as [_ [Hk _]]. rewrite Hk. auto. }
        pose proof T_sorted as Hs. rewrite HT in Hs, HxT. cbn [app] in Hs, HxT.
        apply (sorted_before pre (es ++ post) e x Hs HxT Hlt). }
      pose proof (apply_entry_valid O S B L d e HO HS HB Hd HeS Hnew Hgap now nid) as H1.
      destruct (apply_entry now nid B e) as [[st' ev] stop]. destruct H1 as [HV [-> Hv]].
      specialize (IH (pre ++ [e]) post st').
      destruct (apply_entries now nid st' es) as [B' ev']. cbn [fst] in *.
      destruct IH as [IH1 IH2]; auto.
      + rewrite HT, <- app_assoc. reflexivity.
      + intros x Hx. apply in_app_or in Hx. destruct Hx as [Hx|[<-|[]]]; [|lia]. specialize (Hpre _ Hx). lia.
      + lia.
      + split; [exact IH1|lia].
  Qed.

  (* the central lemma of C02 *)
  Theorem apply_prefix_valid B es :
    Valid B O L -> d <= n_ver B -> is_prefix_of es T ->
    Valid (fst (apply_entries now nid B es)) O L /\ n_ver B <= n_ver (fst (apply_entries now nid B es)).
  Proof.
    intros HB Hd [post HT]. apply (apply_sorted_valid es [] post B); auto. intros x [].
  Qed.
End Prefix.

(* an observer that has caught up with the owner's version holds exactly the owner's entries *)
Theorem caught_up_exact O V L :
  OwnInv O L -> Valid V O L -> n_ver V = n_ver O -> forall k, lookup k (n_ents V) = lookup k (n_ents O).
Proof.
  intros HO HV Heq k. destruct (lookup k (n_ents O)) as [e|] eqn:E.
  - apply (V3 _ _ _ HV _ _ E). rewrite Heq. apply (li_ver _ (O_l _ _ HO) _ _ E).
  - destruct (lookup k (n_ents V)) as [x|] eqn:Ex; [|reflexivity]. exfalso.
    destruct (V4 _ _ _ HV _ _ Ex E) as [m [Hm Hv]]. unfold cur_marker in Hm.
    pose proof (li_ver _ (O_l _ _ HO) _ _ Hm). lia.
Qed.
