(* C11: membership lifecycle on the receiver model (Gossip/Apply.v). *)
From Coq Require Import List String NArith ZArith Bool Lia.
From Piko Require Import Base.Maps Base.Strs Gossip.Types Gossip.Local Gossip.Apply.
From Piko Require Import GossipP.LocalP GossipP.ApplyP GossipP.WatchP.
Import ListNotations.
Open Scope string_scope. Open Scope list_scope. Open Scope N_scope.

(* ---- left is final ---- *)
Lemma apply_entry_left now nid st e : n_left st = true -> n_left (fst (fst (apply_entry now nid st e))) = true.
Proof.
  intros H. unfold apply_entry. destruct (e_ver e <=? n_ver st); [exact H|].
  destruct (e_int e); [|exact H]. destruct (String.eqb (e_key e) leftKey); [reflexivity|].
  destruct (String.eqb (e_key e) compactKey); [|exact H]. destruct (parse_uint (e_val e)); exact H.
Qed.

Lemma apply_entries_left now nid es : forall st, n_left st = true -> n_left (fst (apply_entries now nid st es)) = true.
Proof.
  induction es as [|e es IH]; intros st H; cbn [apply_entries]; [exact H|].
  pose proof (apply_entry_left now nid st e H) as H1.
  destruct (apply_entry now nid st e) as [[st1 ev1] stop]. cbn [fst] in H1. destruct stop; [exact H1|].
  specialize (IH st1 H1). destruct (apply_entries now nid st1 es). exact IH.
Qed.

Definition is_left (c : cstate) (id : string) : Prop := exists s, lookup id (c_nodes c) = Some s /\ n_left s = true.

Lemma apply_delta_entry_nodes nows c de :
  c_nodes (fst (apply_delta_entry nows c de)) =
  if String.eqb (de_id de) (c_local c) then c_nodes c else
  insert (de_id de)
    (fst (apply_entries (now_of nows (de_id de)) (de_id de)
            (match lookup (de_id de) (c_nodes c) with Some st => st | None => new_node (de_id de) (de_addr de) end) (de_ents de)))
    (c_nodes c).
Proof.
  unfold apply_delta_entry. destruct (String.eqb (de_id de) (c_local c)); [reflexivity|].
  destruct (lookup (de_id de) (c_nodes c)) as [st|].
  - destruct (apply_entries (now_of nows (de_id de)) (de_id de) st (de_ents de)). reflexivity.
  - destruct (apply_entries (now_of nows (de_id de)) (de_id de) (new_node (de_id de) (de_addr de)) (de_ents de)). reflexivity.
Qed.

Lemma apply_delta_entry_left nows c de id : is_left c id -> is_left (fst (apply_delta_entry nows c de)) id.
Proof.
  intros [s [Hs Hl]]. unfold is_left. rewrite apply_delta_entry_nodes.
  destruct (String.eqb (de_id de) (c_local c)); [exists s; auto|].
  rewrite lookup_insert. destruct (String.eqb id (de_id de)) eqn:E; [|exists s; auto].
  apply String.eqb_eq in E. subst id. rewrite Hs. eexists. split; [reflexivity|].
  apply apply_entries_left, Hl.
Qed.

Lemma delta_fold_left nows dl : forall c ev id, is_left c id -> is_left (fst (fold_left (delta_step nows) dl (c, ev))) id.
Proof.
  induction dl as [|de dl IH]; intros c ev id H; cbn [fold_left]; [exact H|].
  assert (Hstep : delta_step nows (c, ev) de = (fst (apply_delta_entry nows c de), ev ++ snd (apply_delta_entry nows c de))).
  { unfold delta_step. destruct (apply_delta_entry nows c de). reflexivity. }
  rewrite Hstep. apply IH. apply apply_delta_entry_left, H.
Qed.

Lemma dig_fold_keeps dg : forall c ev id s, lookup id (c_nodes c) = Some s ->
  lookup id (c_nodes (fst (fold_left dig_step dg (c, ev)))) = Some s.
Proof.
  intros c ev id s H. rewrite (proj1 (dig_fold_local dg c ev id ltac:(unfold mem; rewrite H; reflexivity))). exact H.
Qed.

(* a node that is left stays left under every receiver operation, until an expiry sweep removes it *)
Theorem left_is_final c o id :
  wf_c c -> NoDup (keys (c_nodes c)) -> is_left c id ->
  is_left (fst (rstep c o)) id \/
  (exists t, o = RExpire t /\ lookup id (c_nodes (fst (rstep c o))) = None).
Proof.
  intros Hw Hnd [s [Hs Hl]]. destruct o as [dg|nows dl|sus nows|t]; cbn [rstep].
  - left. exists s. split; [|exact Hl]. apply dig_fold_keeps, Hs.
  - left. apply delta_fold_left. exists s. auto.
  - left. exists s. split; [|exact Hl]. apply update_liveness_left; assumption.
  - pose proof (remove_expired_iff t c id Hnd) as H. rewrite Hs in H.
    destruct (n_expiry s) as [e|]; [destruct (e <? t)%Z|].
    + right. exists t. auto.
    + left. exists s. auto.
    + left. exists s. auto.
Qed.

(* ---- the stamps ---- *)
Theorem left_stamps_expiry now nid st e :
  n_ver st < e_ver e -> e_int e = true -> e_key e = leftKey ->
  let st' := fst (fst (apply_entry now nid st e)) in
  n_left st' = true /\ n_expiry st' = Some (now + nodeExpiry)%Z /\ snd (fst (apply_entry now nid st e)) = [ELeave nid].
Proof.
  intros Hv Hi Hk. unfold apply_entry. assert (H : e_ver e <=? n_ver st = false) by (apply N.leb_gt; exact Hv).
  rewrite H, Hi, Hk. cbn. auto.
Qed.

Theorem liveness_verdict local suspect nows s :
  n_id s <> local -> n_left s = false ->
  let s' := fst (liveness_node local suspect nows s) in
  n_unreach s' = suspect (n_id s) /\
  (suspect (n_id s) = true -> n_unreach s = false -> n_expiry s' = Some (now_of nows (n_id s) + nodeExpiry)%Z) /\
  (suspect (n_id s) = false -> n_unreach s = true -> n_expiry s' = None) /\
  (suspect (n_id s) = n_unreach s -> s' = s).
Proof.
  intros Hne Hl. unfold liveness_node. apply String.eqb_neq in Hne. rewrite Hne, Hl. cbn [orb].
  destruct (suspect (n_id s)); destruct (n_unreach s) eqn:Eu; cbn; repeat split; auto; try discriminate.
Qed.

(* ---- the local node is immune ---- *)
Lemma local_ok_step c o : wf_c c -> local_ok c -> local_ok (fst (rstep c o)) /\ c_local (fst (rstep c o)) = c_local c.
Proof.
  intros Hw [s [Hs [Hu He]]]. assert (Hlo : local_ok c) by (exists s; auto).
  destruct o as [dg|nows dl|sus nows|t]; cbn [rstep].
  - destruct (apply_digest_local c dg Hlo) as [H1 H2]. split; [|exact H2]. exists s. rewrite H2, H1. auto.
  - destruct (apply_delta_local nows c dl) as [H1 H2]. split; [|exact H2]. exists s. rewrite H2, H1. auto.
  - destruct (update_liveness_local (fun id => existsb (String.eqb id) sus) nows c Hw) as [H1 H2].
    split; [|exact H2]. exists s. rewrite H2, H1. auto.
  - split; [|reflexivity]. exists s.
    change (c_local (fst (remove_expired t c))) with (c_local c).
    rewrite (remove_expired_local t c Hlo). auto.
Qed.

Theorem local_immune ops : forall c, wf_c c -> NoDup (keys (c_nodes c)) -> local_ok c ->
  local_ok (fst (rrun c ops)) /\
  lookup (c_local c) (c_nodes (fst (rrun c ops))) = lookup (c_local c) (c_nodes c).
Proof.
  induction ops as [|o ops IH]; intros c Hw Hnd Hl; cbn [rrun]; [auto|].
  destruct (local_ok_step c o Hw Hl) as [Hl1 Hc1].
  assert (Hw1 : wf_c (fst (rstep c o)) /\ NoDup (keys (c_nodes (fst (rstep c o))))).
  { destruct o as [dg|nows dl|sus nows|t]; cbn [rstep].
    - split; [apply apply_digest_wf, Hw|apply (dig_fold_nodup dg c [] Hnd)].
    - split; [apply apply_delta_wf, Hw|apply (delta_fold_nodup nows dl c [] Hnd)].
    - split; [apply update_liveness_wf, Hw|apply update_liveness_nodup, Hnd].
    - split; [apply remove_expired_wf; assumption|cbn; apply NoDup_mfilter, Hnd]. }
  assert (Hsame : lookup (c_local c) (c_nodes (fst (rstep c o))) = lookup (c_local c) (c_nodes c)).
  { destruct o as [dg|nows dl|sus nows|t]; cbn [rstep].
    - apply (apply_digest_local c dg Hl).
    - apply (apply_delta_local nows c dl).
    - apply (update_liveness_local _ nows c Hw).
    - apply (remove_expired_local t c Hl). }
  destruct (rstep c o) as [c1 ev1]. cbn [fst] in *. destruct Hw1 as [Hw1 Hn1].
  destruct (IH c1 Hw1 Hn1 Hl1) as [A B]. destruct (rrun c1 ops) as [c2 ev2]. cbn [fst] in *.
  split; [exact A|]. rewrite <- Hc1, B, Hc1. exact Hsame.
Qed.

(* ---- reported versions never move backwards (for ANY received entries) ---- *)
Lemma apply_entry_ver_mono now nid st e : n_ver st <= n_ver (fst (fst (apply_entry now nid st e))).
Proof.
  unfold apply_entry. destruct (e_ver e <=? n_ver st) eqn:E; [cbn; lia|]. apply N.leb_gt in E.
  destruct (e_int e); [|cbn; lia]. destruct (String.eqb (e_key e) leftKey); [cbn; lia|].
  destruct (String.eqb (e_key e) compactKey); [|cbn; lia]. destruct (parse_uint (e_val e)); cbn; lia.
Qed.

Lemma apply_entries_ver_mono now nid es : forall st, n_ver st <= n_ver (fst (apply_entries now nid st es)).
Proof.
  induction es as [|e es IH]; intros st; cbn [apply_entries]; [cbn; lia|].
  pose proof (apply_entry_ver_mono now nid st e) as H1.
  destruct (apply_entry now nid st e) as [[st1 ev1] stop]. cbn [fst] in H1. destruct stop; [exact H1|].
  specialize (IH st1). destruct (apply_entries now nid st1 es). cbn [fst] in *. lia.
Qed.

Definition ver_of (c : cstate) (id : string) : N := match lookup id (c_nodes c) with Some s => n_ver s | None => 0 end.
Definition known (c : cstate) (id : string) : Prop := lookup id (c_nodes c) <> None.

Lemma apply_delta_entry_ver_mono nows c de id :
  known c id -> known (fst (apply_delta_entry nows c de)) id /\ ver_of c id <= ver_of (fst (apply_delta_entry nows c de)) id.
Proof.
  unfold known, ver_of. intros Hk. rewrite apply_delta_entry_nodes.
  destruct (String.eqb (de_id de) (c_local c)); [split; [exact Hk|lia]|]. rewrite lookup_insert.
  destruct (String.eqb id (de_id de)) eqn:E; [|split; [exact Hk|lia]].
  apply String.eqb_eq in E. subst id. split; [discriminate|].
  destruct (lookup (de_id de) (c_nodes c)) as [s|]; [|contradiction]. apply apply_entries_ver_mono.
Qed.

Theorem version_never_backwards c o id :
  known c id -> (forall t, o <> RExpire t) ->
  known (fst (rstep c o)) id /\ ver_of c id <= ver_of (fst (rstep c o)) id.
Proof.
  intros Hk Hne. destruct o as [dg|nows dl|sus nows|t]; cbn [rstep].
  - unfold known, ver_of in *. destruct (lookup id (c_nodes c)) as [s|] eqn:E; [|contradiction].
    unfold apply_digest. rewrite (dig_fold_keeps dg c [] id s E). split; [discriminate|lia].
  - clear Hne. unfold apply_delta. generalize (@nil event). revert c Hk. induction dl as [|de dl IH]; intros c Hk ev; cbn [fold_left]; [cbn [fst]; split; [exact Hk|lia]|].
    assert (Hstep : delta_step nows (c, ev) de = (fst (apply_delta_entry nows c de), ev ++ snd (apply_delta_entry nows c de))).
    { unfold delta_step. destruct (apply_delta_entry nows c de). reflexivity. }
    rewrite Hstep. destruct (apply_delta_entry_ver_mono nows c de id Hk) as [K1 K2].
    destruct (IH _ K1 (ev ++ snd (apply_delta_entry nows c de))) as [K3 K4]. split; [exact K3|lia].
  - unfold known, ver_of in *. rewrite update_liveness_nodes.
    rewrite (lookup_map_nodes (fun s => fst (liveness_node (c_local c) (fun id0 => existsb (String.eqb id0) sus) nows s))).
    destruct (lookup id (c_nodes c)) as [s|]; [|contradiction]. cbn [option_map]. split; [discriminate|].
    unfold liveness_node. destruct (String.eqb (n_id s) (c_local c) || n_left s); [cbn; lia|].
    destruct (existsb _ sus); destruct (n_unreach s); cbn; lia.
  - exfalso. apply (Hne t). reflexivity.
Qed.
