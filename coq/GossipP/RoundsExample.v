(* Non-vacuity of GossipP/WorldRounds.rounds_converge: a concrete two-node cluster in which node a is one write behind
   node b; one all-pairs round of well-formed pulls is a schedule the theorem applies to, and running it (by
   computation) indeed leaves a's view of b equal to b's own state. *)
From Coq Require Import List String NArith ZArith Bool Lia.
From Piko Require Import Base.Maps Base.Strs Gossip.Types Gossip.Local Gossip.Apply Gossip.Codec Gossip.World.
From Piko Require Import GossipP.LocalP GossipP.Valid GossipP.ConvergeP GossipP.WorldInv GossipP.WorldConv GossipP.WorldRounds.
Import ListNotations.
Open Scope string_scope. Open Scope list_scope. Open Scope N_scope.

Definition ex_specs : list (string * string) := [("a", "10.0.0.1:7000"); ("b", "10.0.0.2:7000")].
Definition ex_ops : list wop := [WLocal 1 (LUpsert "k" "v"); WJoin 0 1 [] []; WLocal 1 (LUpsert "j" "w")].
Definition ex_w : world := wrun (init_world ex_specs) ex_ops.
Definition ex_round : list pl :=
  [ {| pl_a := 0; pl_b := 1; pl_o1 := ["a"; "b"]; pl_o2 := ["b"; "a"]; pl_max := 1400; pl_nA := []; pl_nB := [] |};
    {| pl_a := 1; pl_b := 0; pl_o1 := ["b"; "a"]; pl_o2 := ["a"; "b"]; pl_max := 1400; pl_nA := []; pl_nB := [] |} ].

Lemma ex_reach_ops ops w0 : Forall allowed ops ->
  (forall k, wsmall (wrun w0 (firstn k ops))) -> reach w0 (wrun w0 ops).
Proof.
  intros Ha Hs. assert (H : forall k, reach w0 (wrun w0 (firstn k ops))).
  { induction k as [|k IH]; [apply reach_init|].
    destruct (Nat.lt_ge_cases k (List.length ops)) as [Hlt|Hge].
    - destruct (nth_error ops k) as [o|] eqn:Eo; [|apply nth_error_None in Eo; lia].
      assert (Hf : firstn (S k) ops = firstn k ops ++ [o]).
      { clear - Eo. revert k Eo. induction ops as [|x ops IH]; intros k Eo; [destruct k; discriminate|].
        destruct k; cbn in *; [injection Eo as ->; reflexivity|]. f_equal. apply IH, Eo. }
      rewrite Hf. unfold wrun. rewrite fold_left_app. cbn [fold_left]. apply reach_step; [exact IH| |apply Hs].
      apply (proj1 (Forall_forall _ _) Ha o (nth_error_In _ _ Eo)).
    - rewrite firstn_all2 by lia. rewrite firstn_all2 in IH by lia. exact IH. }
  specialize (H (List.length ops)). rewrite firstn_all in H. exact H.
Qed.

Lemma ex_quiet : quiet ex_specs ex_w.
Proof.
  split; [|split].
  - apply ex_reach_ops.
    + repeat (apply Forall_cons; [vm_compute; try reflexivity; try exact I|]). apply Forall_nil.
    + intros k. destruct k as [|[|[|[|k]]]]; intros j c me Hc Hme;
        (destruct j as [|[|j]]; [| |vm_compute in Hc; destruct j; discriminate]); vm_compute in Hc; injection Hc as <-;
        vm_compute in Hme; injection Hme as <-; unfold small; vm_compute; reflexivity.
  - intros j c me Hc Hme. destruct j as [|[|j]]; [| |vm_compute in Hc; destruct j; discriminate]; vm_compute in Hc; injection Hc as <-;
      vm_compute in Hme; injection Hme as <-; unfold small; vm_compute; reflexivity.
  - vm_compute. reflexivity.
Qed.

Example ex_behind : PsiAll ex_specs ex_w = 1%nat.
Proof. vm_compute. reflexivity. Qed.

(* "roomy" for a concrete small world: finitely many nodes, views and cut points *)
Ltac roomy_concrete :=
  let j := fresh "j" in let c := fresh "c" in let me := fresh "me" in let id := fresh "id" in let S := fresh "S" in
  let from := fresh "from" in let e := fresh "e" in let es := fresh "es" in
  let Hc := fresh "Hc" in let Hl := fresh "Hl" in let Hs := fresh "Hs" in let He := fresh "He" in
  intros j c me id S from e es Hc Hl Hs He;
  (destruct j as [|[|j]]; [| |vm_compute in Hc; destruct j; discriminate]);
  vm_compute in Hc; injection Hc as <-; vm_compute in Hl; injection Hl as <-;
  cbn [lookup c_nodes] in Hs;
  repeat match type of Hs with
         | (if ?t then _ else _) = _ => destruct t; [injection Hs as <-|]
         | None = _ => discriminate Hs
         end;
  cbn [de_ents delta_entry_of values n_ents map snd filter e_ver] in He;
  repeat match type of He with context [?x <? ?y] => destruct (x <? y) end;
  cbn in He; try discriminate He; injection He as <- <-; vm_compute; intros Hx; discriminate Hx.

Lemma ex_good_rounds : good_rounds ex_specs ex_w [ex_round].
Proof.
  split; [|exact I]. split; [|split; [|exact I]].
  - exists "a", "10.0.0.1:7000", "b", "10.0.0.2:7000". eexists. eexists. eexists.
    split; [cbn; lia|]. split; [reflexivity|]. split; [reflexivity|].
    split; [vm_compute; reflexivity|]. split; [vm_compute; reflexivity|].
    split; [vm_compute; reflexivity|]. split; [cbn; auto|]. roomy_concrete.
  - exists "b", "10.0.0.2:7000", "a", "10.0.0.1:7000". eexists. eexists. eexists.
    split; [cbn; lia|]. split; [reflexivity|]. split; [reflexivity|].
    split; [vm_compute; reflexivity|]. split; [vm_compute; reflexivity|].
    split; [vm_compute; reflexivity|]. split; [cbn; auto|]. roomy_concrete.
Qed.

Lemma ex_covers : covers ex_specs ex_round.
Proof.
  intros a b ida addra idb addrb Hab Hsa Hsb.
  destruct a as [|[|a]]; [| |cbn in Hsa; destruct a; discriminate]; (destruct b as [|[|b]]; [| |cbn in Hsb; destruct b; discriminate]); try congruence.
  - eexists. split; [left; reflexivity|]. split; reflexivity.
  - eexists. split; [right; left; reflexivity|]. split; reflexivity.
Qed.

(* the theorem applies ... *)
Example ex_converges :
  quiet ex_specs (run_rounds ex_w [ex_round]) /\ PsiAll ex_specs (run_rounds ex_w [ex_round]) = 0%nat.
Proof.
  apply (rounds_converge ex_specs ltac:(repeat constructor; cbn; intuition congruence) ltac:(repeat constructor; cbn; intuition congruence)).
  - discriminate.
  - exact ex_quiet.
  - exact ex_good_rounds.
  - repeat constructor. exact ex_covers.
  - rewrite ex_behind. cbn. lia.
Qed.

(* ... and the run shows what it says: a's view of b is b's own state (both entries, version 2) *)
Example ex_final_views :
  let w := run_rounds ex_w [ex_round] in
  option_map (fun c => option_map (fun s => (n_ver s, dump_entries s)) (lookup "b" (c_nodes c))) (nth_error (w_nodes w) 0) =
  option_map (fun c => option_map (fun s => (n_ver s, dump_entries s)) (lookup "b" (c_nodes c))) (nth_error (w_nodes w) 1)
  /\ option_map (fun c => option_map (fun s => n_ver s) (lookup "b" (c_nodes c))) (nth_error (w_nodes w) 0) = Some (Some 2).
Proof. vm_compute. split; reflexivity. Qed.
