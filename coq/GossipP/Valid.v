(* C02 core: validity of a view with respect to its owner's state and write log; owner invariants. *)
From Coq Require Import List String NArith ZArith Bool Lia Permutation Sorted.
From Piko Require Import Base.Maps Base.Strs Gossip.Types Gossip.Local Gossip.Apply.
From Piko Require Import GossipP.SortP GossipP.LocalP.
Import ListNotations.
Open Scope string_scope. Open Scope list_scope. Open Scope N_scope.

Definition cur_marker (O : node_state) : option entry := lookup compactKey (n_ents O).

(* the owner's current compaction point: parsed value of its current marker, 0 when it never compacted *)
Definition cv (O : node_state) : N :=
  match cur_marker O with
  | Some m => match parse_uint (e_val m) with Some c => c | None => 0 end
  | None => 0
  end.

(* V1-V4 of DESIGN.md: what an observer's view V of an owner with state O and write log L may contain *)
Record Valid (V O : node_state) (L : list entry) : Prop := {
  V1 : n_ver V <= n_ver O;
  V2 : forall k e, lookup k (n_ents V) = Some e -> In e L /\ e_key e = k /\ e_ver e <= n_ver V;
  V3 : forall k e, lookup k (n_ents O) = Some e -> e_ver e <= n_ver V -> lookup k (n_ents V) = Some e;
  V4 : forall k e, lookup k (n_ents V) = Some e -> lookup k (n_ents O) = None ->
                   exists m, cur_marker O = Some m /\ n_ver V < e_ver m;
  V5 : NoDup (keys (n_ents V));
}.

(* owner invariants relating the state to the ghost log of everything it ever wrote *)
Record OwnInv (O : node_state) (L : list entry) : Prop := {
  O_l : LInv O;
  Oa : forall k e, lookup k (n_ents O) = Some e -> In e L;
  Ob : forall e e', In e L -> In e' L -> e_ver e = e_ver e' -> e = e';
  Ob' : forall e, In e L -> 1 <= e_ver e <= n_ver O;
  Oc : forall e, In e L -> (exists e', lookup (e_key e) (n_ents O) = Some e' /\ e_ver e <= e_ver e')
                        \/ (lookup (e_key e) (n_ents O) = None /\ e_ver e <= cv O);
  Od : forall k e, lookup k (n_ents O) = Some e -> cv O < e_ver e;
  Oe : forall m, In m L -> e_key m = compactKey -> exists c, parse_uint (e_val m) = Some c /\ c <= cv O /\ c < e_ver m;
  Of : forall e, In e L -> e_int e = internal_key (e_key e);
}.

Lemma OwnInv_new id addr : OwnInv (new_node id addr) [].
Proof.
  constructor; try (intros; contradiction); try (cbn; intros; discriminate).
  apply LInv_new.
Qed.

Lemma Valid_new id addr O L : OwnInv O L -> Valid (new_node id addr) O L.
Proof.
  intros H. constructor; cbn; try (intros; discriminate); try lia; [|constructor].
  intros k e Hl Hle. pose proof (Ob' _ _ H _ (Oa _ _ H _ _ Hl)). lia.
Qed.

(* the owner's own state is a valid view of itself *)
Lemma Valid_self O L : OwnInv O L -> Valid O O L.
Proof.
  intros H. constructor.
  - lia.
  - intros k e Hl. split; [apply (Oa _ _ H _ _ Hl)|]. split; [apply (li_key _ (O_l _ _ H) _ _ Hl)|].
    apply (li_ver _ (O_l _ _ H) _ _ Hl).
  - auto.
  - intros k e Hl Hn. congruence.
  - apply (li_nodup _ (O_l _ _ H)).
Qed.

(* ------------------------------------------------------------------ owner steps *)
(* the log grows by the entries that changed *)
Definition new_entries (old new : node_state) : list entry :=
  filter (fun e => match lookup (e_key e) (n_ents old) with
                   | Some e' => negb (entry_eqb e e') | None => true end) (values (n_ents new)).

Definition small (O : node_state) : Prop := n_ver O < 2^64.

Lemma cv_write_user k e s : k <> compactKey -> cv (write k e s) = cv s.
Proof.
  intros Hne. unfold cv, cur_marker, write. cbn [n_ents set_ents]. rewrite lookup_insert_ne; [reflexivity|congruence].
Qed.

Lemma In_new_entries_write k e s x :
  LInv s -> e_key e = k ->
  (In x (new_entries s (write k e s)) <-> x = e /\ lookup k (n_ents s) <> Some e).
Proof.
  intros HI Hk. unfold new_entries, write. cbn [n_ents set_ents]. rewrite filter_In. split.
  - intros [Hin Hf]. apply In_values in Hin. destruct Hin as [k0 Hin].
    unfold insert in Hin. destruct Hin as [Heq|Hin].
    + injection Heq as <- <-. split; [reflexivity|]. rewrite Hk in Hf.
      destruct (lookup k (n_ents s)) as [e'|]; [|discriminate].
      intros [= ->]. rewrite (proj2 (entry_eqb_eq e e) eq_refl) in Hf. discriminate.
    + exfalso. apply In_remove in Hin. destruct Hin as [Hin Hne].
      apply (In_lookup _ _ _ (li_nodup _ HI)) in Hin.
      rewrite (li_key _ HI _ _ Hin), Hin in Hf.
      rewrite (proj2 (entry_eqb_eq x x) eq_refl) in Hf. discriminate.
  - intros [-> Hne]. split.
    + apply In_values. exists k. left. reflexivity.
    + rewrite Hk. destruct (lookup k (n_ents s)) as [e'|] eqn:E; [|reflexivity].
      destruct (entry_eqb e e') eqn:Eq; [|reflexivity]. apply entry_eqb_eq in Eq. subst. congruence.
Qed.

(* a fresh write (upsert / delete / leave) preserves the owner invariants and every valid view *)
Lemma OwnInv_write O L k e :
  OwnInv O L -> e_key e = k -> e_ver e = n_ver O + 1 -> e_int e = internal_key k -> k <> compactKey ->
  OwnInv (write k e O) (L ++ new_entries O (write k e O)).
Proof.
  intros H Hk Hv Hi Hnc.
  pose proof (O_l _ _ H) as HI.
  assert (Hnew : forall x, In x (L ++ new_entries O (write k e O)) <-> In x L \/ x = e).
  { intros x. rewrite in_app_iff, (In_new_entries_write k e O x HI Hk). split.
    - intros [Hx|[-> _]]; auto.
    - intros [Hx| ->]; auto. right. split; [reflexivity|]. intros Hl.
      pose proof (li_ver _ HI _ _ Hl). lia. }
  constructor.
  - apply LInv_write; assumption.
  - intros k0 e0. unfold write. cbn [n_ents set_ents]. rewrite lookup_insert. destruct (String.eqb k0 k).
    + intros [= <-]. apply Hnew. right; reflexivity.
    + intros Hl. apply Hnew. left. apply (Oa _ _ H _ _ Hl).
  - intros x y Hx Hy Heq. apply Hnew in Hx, Hy. destruct Hx as [Hx| ->]; destruct Hy as [Hy| ->]; auto.
    + apply (Ob _ _ H); assumption.
    + pose proof (Ob' _ _ H _ Hx). lia.
    + pose proof (Ob' _ _ H _ Hy). lia.
  - intros x Hx. apply Hnew in Hx. unfold write; cbn [n_ver set_ents]. destruct Hx as [Hx| ->].
    + pose proof (Ob' _ _ H _ Hx). lia.
    + lia.
  - intros x Hx. apply Hnew in Hx. rewrite cv_write_user by exact Hnc. unfold write. cbn [n_ents set_ents].
    rewrite lookup_insert. destruct Hx as [Hx| ->].
    + destruct (String.eqb (e_key x) k) eqn:E.
      * left. exists e. split; [reflexivity|]. pose proof (Ob' _ _ H _ Hx). lia.
      * apply (Oc _ _ H _ Hx).
    + rewrite Hk, String.eqb_refl. left. exists e. split; [reflexivity|lia].
  - intros k0 e0. rewrite cv_write_user by exact Hnc. unfold write. cbn [n_ents set_ents]. rewrite lookup_insert.
    destruct (String.eqb k0 k).
    + intros [= <-]. rewrite Hv.
      (* cv O <= n_ver O: the marker, if any, is a current entry *)
      unfold cv, cur_marker. destruct (lookup compactKey (n_ents O)) as [m|] eqn:Em; [|lia].
      pose proof (Od _ _ H _ _ Em) as Hd. unfold cv, cur_marker in Hd. rewrite Em in Hd.
      pose proof (li_ver _ HI _ _ Em). destruct (parse_uint (e_val m)); lia.
    + apply (Od _ _ H).
  - intros m Hm Hmk. apply Hnew in Hm. rewrite cv_write_user by exact Hnc. destruct Hm as [Hm| ->].
    + apply (Oe _ _ H _ Hm Hmk).
    + congruence.
  - intros x Hx. apply Hnew in Hx. destruct Hx as [Hx| ->]; [apply (Of _ _ H _ Hx)|congruence].
Qed.

Lemma Valid_write V O L k e :
  OwnInv O L -> Valid V O L -> e_key e = k -> e_ver e = n_ver O + 1 -> k <> compactKey ->
  Valid V (write k e O) (L ++ new_entries O (write k e O)).
Proof.
  intros H HV Hk Hv Hnc. destruct HV as [A1 A2 A3 A4 A5]. constructor.
  - unfold write; cbn. lia.
  - intros k0 e0 Hl. destruct (A2 _ _ Hl) as [B1 B2]. split; [apply in_or_app; left; exact B1|exact B2].
  - intros k0 e0. unfold write. cbn [n_ents set_ents]. rewrite lookup_insert. destruct (String.eqb k0 k).
    + intros [= <-] Hle. lia.
    + apply A3.
  - intros k0 e0 Hl. unfold write, cur_marker. cbn [n_ents set_ents]. rewrite !lookup_insert.
    destruct (String.eqb k0 k) eqn:E; [discriminate|]. intros Hn.
    destruct (String.eqb compactKey k) eqn:E2; [apply String.eqb_eq in E2; congruence|].
    apply (A4 _ _ Hl Hn).
  - exact A5.
Qed.

(* ------------------------------------------------------------------ compaction as an owner step *)
Lemma cv_le_ver O L : OwnInv O L -> cv O <= n_ver O.
Proof.
  intros H. unfold cv, cur_marker. destruct (lookup compactKey (n_ents O)) as [m|] eqn:Em; [|lia].
  pose proof (Od _ _ H _ _ Em) as Hd. unfold cv, cur_marker in Hd. rewrite Em in Hd.
  pose proof (li_ver _ (O_l _ _ H) _ _ Em). destruct (parse_uint (e_val m)); lia.
Qed.

Lemma cv_compacted O : LInv O -> n_ents O <> [] -> small O -> cv (compacted O) = n_ver O.
Proof.
  intros HI Hne Hs. unfold cv, cur_marker, compacted. cbn [n_ents set_ents]. rewrite lookup_insert_eq.
  cbn [marker_of mk_entry e_val]. rewrite (top_version O HI Hne), parse_format_uint; [reflexivity|exact Hs].
Qed.

Lemma compacted_entry_new O k x : LInv O -> lookup k (n_ents (compacted O)) = Some x -> n_ver O < e_ver x.
Proof.
  intros HI Hl. destruct (compacted_entry O HI _ _ Hl) as [[_ ->]|[_ [Hin _]]].
  - cbn [e_ver marker_of mk_entry]. rewrite compacted_ver. lia.
  - destruct (renum_In _ _ _ Hin) as [_ [_ [_ [_ [_ [_ Hv]]]]]]. lia.
Qed.

Lemma In_new_entries_compacted O x :
  LInv O -> (In x (new_entries O (compacted O)) <-> lookup (e_key x) (n_ents (compacted O)) = Some x).
Proof.
  intros HI. pose proof (LInv_compacted O HI) as HI'. unfold new_entries. rewrite filter_In. split.
  - intros [Hin _]. apply In_values in Hin. destruct Hin as [k Hin].
    apply (In_lookup _ _ _ (li_nodup _ HI')) in Hin. rewrite (li_key _ HI' _ _ Hin). exact Hin.
  - intros Hl. split; [apply In_values; exists (e_key x); apply lookup_In, Hl|].
    destruct (lookup (e_key x) (n_ents O)) as [e'|] eqn:E; [|reflexivity].
    destruct (entry_eqb x e') eqn:Eq; [|reflexivity]. apply entry_eqb_eq in Eq. subst e'.
    pose proof (compacted_entry_new O _ _ HI Hl). pose proof (li_ver _ HI _ _ E). lia.
Qed.

Lemma OwnInv_compacted O L :
  OwnInv O L -> n_ents O <> [] -> small O ->
  OwnInv (compacted O) (L ++ new_entries O (compacted O)).
Proof.
  intros H Hne Hs. pose proof (O_l _ _ H) as HI. pose proof (LInv_compacted O HI) as HI'.
  pose proof (cv_compacted O HI Hne Hs) as Hcv. pose proof (cv_le_ver _ _ H) as Hcl.
  assert (Hnew : forall x, In x (L ++ new_entries O (compacted O)) <->
                           In x L \/ lookup (e_key x) (n_ents (compacted O)) = Some x).
  { intros x. rewrite in_app_iff, (In_new_entries_compacted O x HI). tauto. }
  assert (Hverc : n_ver O < n_ver (compacted O)). { rewrite compacted_ver. lia. }
  constructor.
  - exact HI'.
  - intros k e Hl. apply Hnew. right. rewrite (li_key _ HI' _ _ Hl). exact Hl.
  - intros x y Hx Hy Heq. apply Hnew in Hx, Hy. destruct Hx as [Hx|Hx]; destruct Hy as [Hy|Hy].
    + apply (Ob _ _ H); assumption.
    + pose proof (Ob' _ _ H _ Hx). pose proof (compacted_entry_new O _ _ HI Hy). lia.
    + pose proof (Ob' _ _ H _ Hy). pose proof (compacted_entry_new O _ _ HI Hx). lia.
    + pose proof (li_distinct _ HI' _ _ _ _ Hx Hy Heq) as Hk. rewrite Hk in Hx. congruence.
  - intros x Hx. apply Hnew in Hx. destruct Hx as [Hx|Hx].
    + pose proof (Ob' _ _ H _ Hx). lia.
    + apply (li_ver _ HI' _ _ Hx).
  - intros x Hx. apply Hnew in Hx. rewrite Hcv. destruct Hx as [Hx|Hx].
    + pose proof (Ob' _ _ H _ Hx) as Hb.
      destruct (String.eqb (e_key x) compactKey) eqn:Ek.
      * apply String.eqb_eq in Ek. left. rewrite Ek. unfold compacted. cbn [n_ents set_ents].
        rewrite lookup_insert_eq. eexists. split; [reflexivity|]. cbn. lia.
      * apply String.eqb_neq in Ek.
        destruct (Oc _ _ H _ Hx) as [[e0 [E0 Hle]]|[E0 Hle]].
        -- destruct (keepb e0) eqn:Ekb.
           ++ destruct (lookup_compacted_kept O HI _ _ Ek E0 Ekb) as [e' [H0 [_ [_ [_ [_ Hv]]]]]].
              left. exists e'. split; [exact H0|lia].
           ++ right. split.
              ** apply (lookup_compacted_dropped O HI _ Ek). intros e1 H1. congruence.
              ** pose proof (li_ver _ HI _ _ E0). lia.
        -- right. split; [|lia]. apply (lookup_compacted_dropped O HI _ Ek). intros e1 H1. congruence.
    + left. exists x. split; [exact Hx|lia].
  - intros k e Hl. rewrite Hcv. apply (compacted_entry_new O _ _ HI Hl).
  - intros m Hm Hmk. apply Hnew in Hm. rewrite Hcv. destruct Hm as [Hm|Hm].
    + destruct (Oe _ _ H _ Hm Hmk) as [c [P1 [P2 P3]]]. exists c. split; [exact P1|]. split; [lia|exact P3].
    + rewrite Hmk in Hm. unfold compacted in Hm. cbn [n_ents set_ents] in Hm. rewrite lookup_insert_eq in Hm.
      injection Hm as <-. cbn [marker_of mk_entry e_val e_ver]. rewrite (top_version O HI Hne).
      exists (n_ver O). split; [apply parse_format_uint, Hs|]. split; lia.
  - intros x Hx. apply Hnew in Hx. destruct Hx as [Hx|Hx]; [apply (Of _ _ H _ Hx)|].
    apply (li_int _ HI' _ _ Hx).
Qed.

Lemma Valid_compacted V O L :
  OwnInv O L -> Valid V O L -> Valid V (compacted O) (L ++ new_entries O (compacted O)).
Proof.
  intros H HV. pose proof (O_l _ _ H) as HI. destruct HV as [A1 A2 A3 A4 A5]. constructor.
  - rewrite compacted_ver. lia.
  - intros k e Hl. destruct (A2 _ _ Hl) as [B1 B2]. split; [apply in_or_app; left; exact B1|exact B2].
  - intros k e Hl Hle. pose proof (compacted_entry_new O _ _ HI Hl). lia.
  - intros k e Hl Hn. unfold cur_marker, compacted. cbn [n_ents set_ents]. rewrite lookup_insert_eq.
    eexists. split; [reflexivity|]. cbn. lia.
  - exact A5.
Qed.


(* ------------------------------------------------------------------ any owner step *)
Lemma filter_none {A} (p : A -> bool) l : (forall x, In x l -> p x = false) -> filter p l = [].
Proof.
  induction l as [|x l IH]; cbn; intros H; [reflexivity|].
  rewrite (H x (or_introl eq_refl)). apply IH. intros y Hy. apply H. right; exact Hy.
Qed.

Lemma new_entries_same O : LInv O -> new_entries O O = [].
Proof.
  intros HI. unfold new_entries. apply filter_none. intros x Hx.
  apply (In_values_lookup O HI) in Hx. rewrite Hx. rewrite (proj2 (entry_eqb_eq x x) eq_refl). reflexivity.
Qed.

Lemma LInv_ext O O' : n_ver O = n_ver O' -> n_ents O = n_ents O' -> LInv O -> LInv O'.
Proof.
  intros Hv He [l1 l2 l3 l4 l5 l6 l7]. constructor; rewrite <- ?Hv, <- ?He; assumption.
Qed.

Lemma OwnInv_ext O O' L : n_ver O = n_ver O' -> n_ents O = n_ents O' -> OwnInv O L -> OwnInv O' L.
Proof.
  intros Hv He [l a b b' c d e f].
  assert (Hcv : cv O' = cv O). { unfold cv, cur_marker. rewrite He. reflexivity. }
  constructor; rewrite ?Hcv, <- ?Hv, <- ?He; try assumption.
  apply (LInv_ext O O'); assumption.
Qed.

Lemma Valid_ext V O O' L : n_ver O = n_ver O' -> n_ents O = n_ents O' -> Valid V O L -> Valid V O' L.
Proof.
  intros Hv He [A1 A2 A3 A4 A5]. constructor; unfold cur_marker in *; rewrite <- ?Hv, <- ?He; assumption.
Qed.

Theorem owner_step O L o :
  OwnInv O L -> user_op o -> small O ->
  OwnInv (local_step O o) (L ++ new_entries O (local_step O o)) /\
  forall V, Valid V O L -> Valid V (local_step O o) (L ++ new_entries O (local_step O o)).
Proof.
  intros H Hu Hs. pose proof (O_l _ _ H) as HI.
  assert (Hsame : OwnInv O (L ++ new_entries O O) /\ forall V, Valid V O L -> Valid V O (L ++ new_entries O O)).
  { rewrite (new_entries_same O HI), app_nil_r. auto. }
  destruct o as [k v|k|th|]; cbn [local_step].
  - cbn in Hu. pose proof (user_not_compact _ Hu) as Hnc.
    destruct (upsert_cases k v O) as [[-> _]|[-> _]]; [exact Hsame|]. split.
    + apply OwnInv_write; auto. cbn. symmetry. apply user_not_internal, Hu.
    + intros V HV. apply Valid_write; auto.
  - cbn in Hu. pose proof (user_not_compact _ Hu) as Hnc. unfold delete_local.
    destruct (lookup k (n_ents O)) as [ex|] eqn:E; [|exact Hsame].
    destruct (e_del ex); [exact Hsame|].
    change (set_ents O _ _) with (write k (mk_entry (e_key ex) "" (n_ver O + 1) (e_int ex) true) O).
    pose proof (li_key _ HI _ _ E) as Hk. split.
    + apply OwnInv_write; auto. cbn. apply (li_int _ HI _ _ E).
    + intros V HV. apply Valid_write; auto.
  - destruct (compact_cases th O) as [->|[-> [Hne _]]]; [exact Hsame|]. split.
    + apply OwnInv_compacted; assumption.
    + intros V HV. apply Valid_compacted; assumption.
  - unfold leave_local. destruct (n_left O); [exact Hsame|].
    set (e := mk_entry leftKey "" (n_ver O + 1) true false).
    set (O' := {| n_id := n_id O; n_addr := n_addr O; n_ver := n_ver O + 1; n_left := true; n_unreach := n_unreach O;
                  n_expiry := n_expiry O; n_ents := insert leftKey e (n_ents O) |}).
    assert (Hne : new_entries O O' = new_entries O (write leftKey e O)) by reflexivity.
    assert (Hlc : leftKey <> compactKey) by discriminate.
    rewrite Hne. split.
    + apply (OwnInv_ext (write leftKey e O) O'); [reflexivity|reflexivity|].
      apply OwnInv_write; auto.
    + intros V HV. apply (Valid_ext V (write leftKey e O) O'); [reflexivity|reflexivity|].
      apply Valid_write; auto.
Qed.
