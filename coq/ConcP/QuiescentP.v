(* C20 - after any sequence of completed AddConn/RemoveConn calls the upstream registry, the routing table
   entry of the local node and the published gossip state agree on every endpoint. *)
From Coq Require Import List String Bool Arith Lia.
From Piko Require Import Conc.Quiescent.
Import ListNotations.

Definition consistent (s : reg_state) : Prop :=
  forall e, reg s e = rt s e /\ rt s e = pub s e.

Lemma reg_step_consistent : forall s o, consistent s -> consistent (reg_step s o).
Proof.
  intros s o H. destruct o as [e | e registered]; cbn [reg_step].
  - intro x. cbn [reg rt pub]. unfold upd. rewrite String.eqb_refl.
    destruct (String.eqb x e) eqn:E.
    + destruct (H e) as [H1 H2]. lia.
    + apply H.
  - destruct ((reg s e =? 0) || negb registered); [exact H|].
    destruct (rt s e =? 0) eqn:Ez.
    + apply Nat.eqb_eq in Ez. intro x. cbn [reg rt pub]. unfold upd.
      destruct (String.eqb x e) eqn:E.
      * apply String.eqb_eq in E. subst x. destruct (H e) as [H1 H2]. lia.
      * apply H.
    + intro x. cbn [reg rt pub]. unfold upd. rewrite String.eqb_refl.
      destruct (String.eqb x e) eqn:E.
      * destruct (H e) as [H1 H2]. lia.
      * apply H.
Qed.

Lemma fold_consistent : forall ops s, consistent s -> consistent (fold_left reg_step ops s).
Proof.
  induction ops as [|o ops IH]; intros s H; cbn [fold_left].
  - exact H.
  - apply IH. apply reg_step_consistent. exact H.
Qed.

Theorem quiescent_consistent : forall ops e,
  reg (reg_run ops) e = rt (reg_run ops) e /\ rt (reg_run ops) e = pub (reg_run ops) e.
Proof.
  intros ops. apply fold_consistent. intro e. cbn. split; reflexivity.
Qed.
