(* C20 - soundness of the acyclicity checker: acceptance yields a strict ranking of the mutexes. *)
From Coq Require Import List String Bool Arith Lia.
From Piko Require Import Conc.LockOrder Conc.Acyclic.
Import ListNotations.

Lemma has_incoming_in : forall es a b, In (a, b) es -> has_incoming es b = true.
Proof.
  intros es a b Hin. unfold has_incoming. apply existsb_exists.
  exists (a, b). split; [exact Hin | apply String.eqb_refl].
Qed.

Lemma acyclic_fuel_rank : forall fuel es,
  acyclic_fuel fuel es = true ->
  forall a b, In (a, b) es -> rank_fuel fuel es a < rank_fuel fuel es b.
Proof.
  induction fuel as [|f IH]; intros es Hacc a b Hin.
  - destruct es as [|e es']; [inversion Hin | discriminate Hacc].
  - destruct es as [|e es']; [inversion Hin|].
    cbn [acyclic_fuel] in Hacc. cbn [rank_fuel].
    rewrite (has_incoming_in _ _ _ Hin).
    destruct (has_incoming (e :: es') a) eqn:Ha.
    + apply -> Nat.succ_lt_mono. apply IH; [exact Hacc|].
      unfold peel. apply filter_In. split; [exact Hin | exact Ha].
    + lia.
Qed.

(* acyclic_sound: an accepted edge list has a ranking function that strictly increases along every edge *)
Theorem acyclic_sound : forall es, acyclic es = true ->
  exists rank : string -> nat, forall a b, In (a, b) es -> rank a < rank b.
Proof.
  intros es H. exists (rank_of es). intros a b Hin.
  unfold rank_of. apply acyclic_fuel_rank; assumption.
Qed.

Lemma rank_path : forall es (rank : string -> nat),
  (forall a b, In (a, b) es -> rank a < rank b) ->
  forall a b, path es a b -> rank a < rank b.
Proof.
  intros es rank Hr a b Hp. induction Hp as [a b Hin | a b c Hin Hp IH].
  - apply Hr; exact Hin.
  - specialize (Hr _ _ Hin). lia.
Qed.

(* an accepted graph has no cycle at all ... *)
Theorem acyclic_no_cycle : forall es, acyclic es = true -> forall a, ~ path es a a.
Proof.
  intros es H a Hp. destruct (acyclic_sound es H) as [rank Hr].
  pose proof (rank_path es rank Hr a a Hp). lia.
Qed.

(* ... in particular no self edge (re-acquiring a held, non-reentrant mutex) *)
Theorem self_edge_rejected : forall es a, In (a, a) es -> acyclic es = false.
Proof.
  intros es a Hin. destruct (acyclic es) eqn:H; [|reflexivity].
  exfalso. apply (acyclic_no_cycle es H a). apply path_edge; exact Hin.
Qed.

(* and any cycle whatsoever is rejected *)
Theorem cycle_rejected : forall es a, path es a a -> acyclic es = false.
Proof.
  intros es a Hp. destruct (acyclic es) eqn:H; [|reflexivity].
  exfalso. exact (acyclic_no_cycle es H a Hp).
Qed.
