(* C20 - the generic theorems instantiated with the lock relation extracted from the source
   (generated/LockEdges.v, rewritten from /repo's current tree by props/C20.py on every run). *)
From Coq Require Import List String Bool Arith Lia.
From Piko Require Import Conc.LockOrder Conc.Acyclic Conc.Expected ConcP.LockOrderP ConcP.AcyclicP.
From Piko Require Import generated.LockEdges.
Import ListNotations.

(* for ANY edge list accepted by the checker: threads whose nested acquisitions all are edges never deadlock,
   can always complete, and runs are bounded *)
Theorem acyclic_no_deadlock : forall es, acyclic es = true ->
  forall s0 s, init_within es s0 -> steps s0 s -> ~ deadlocked s.
Proof.
  intros es Hac s0 s Hinit Hsteps. destruct (acyclic_sound es Hac) as [rank Hr].
  apply (ordered_no_deadlock rank s0 s); [|exact Hsteps].
  eapply init_within_ordered; eassumption.
Qed.

Theorem acyclic_completes : forall es, acyclic es = true ->
  forall s0 s, init_within es s0 -> steps s0 s ->
  (all_finished s \/ exists s', step s s') /\ (exists s', steps s s' /\ all_finished s').
Proof.
  intros es Hac s0 s Hinit Hsteps. destruct (acyclic_sound es Hac) as [rank Hr].
  assert (Hi : init_ordered rank s0) by (eapply init_within_ordered; eassumption).
  split; [eapply ordered_progress | eapply ordered_completes]; eassumption.
Qed.

(* the computations on the extracted list *)
Lemma lock_edges_acyclic : acyclic lock_edges = true.
Proof. vm_compute. reflexivity. Qed.

Lemma lock_edges_expected : within_expected lock_edges = true.
Proof. vm_compute. reflexivity. Qed.

Lemma lock_edges_no_deadlock : forall s0 s, init_within lock_edges s0 -> steps s0 s -> ~ deadlocked s.
Proof. exact (acyclic_no_deadlock lock_edges lock_edges_acyclic). Qed.

Lemma lock_edges_completes : forall s0 s, init_within lock_edges s0 -> steps s0 s ->
  (all_finished s \/ exists s', step s s') /\ (exists s', steps s s' /\ all_finished s').
Proof. exact (acyclic_completes lock_edges lock_edges_acyclic). Qed.

Lemma lock_edges_exclusive : forall s0 s, init_within lock_edges s0 -> steps s0 s -> exclusive s.
Proof.
  intros s0 s Hinit Hsteps. apply (mutual_exclusion s0 s); [|exact Hsteps].
  eapply Forall_impl; [|exact Hinit]. intros t [Hh _]. exact Hh.
Qed.

(* the hand-written hierarchy itself is acyclic and the example scripts follow it *)
Lemma expected_edges_acyclic : acyclic expected_edges = true.
Proof. vm_compute. reflexivity. Qed.

Lemma expected_edges_expected : within_expected expected_edges = true.
Proof. vm_compute. reflexivity. Qed.

Lemma example_state_init : init_within expected_edges example_state.
Proof.
  unfold init_within, example_state. repeat constructor.
Qed.

(* the broken script (subscribers called under State.mu) is outside every acyclic relation:
   it needs the self edge *)
Lemma broken_script_needs_self_edge : forall es,
  within es [] script_add_conn_broken = true -> acyclic es = false.
Proof.
  intros es H. apply (self_edge_rejected es mu_cluster).
  cbn in H. rewrite !andb_true_iff in H.
  destruct H as [_ [[H _] _]]. apply edge_in_In. exact H.
Qed.

(* and the model really deadlocks on it: one thread, blocked on itself *)
Lemma broken_script_deadlocks :
  exists s, steps [mkThread [] script_add_conn_broken] s /\ deadlocked s.
Proof.
  exists [mkThread [mu_cluster; mu_manager]
            [Acq mu_cluster; Rel mu_cluster; Acq mu_gossip; Rel mu_gossip; Rel mu_cluster; Rel mu_manager]].
  split.
  - unfold script_add_conn_broken.
    eapply steps_next. { eapply (step_at [] _ _ []). apply t_acq. reflexivity. }
    eapply steps_next. { eapply (step_at [] _ _ []). apply t_acq. reflexivity. }
    apply steps_refl.
  - split.
    + intro H. inversion H as [|? ? Hf _]; subst. discriminate Hf.
    + intros s' Hs. inversion Hs as [pre t t' post Ht E1 E2]; subst.
      destruct pre as [|p pre].
      * cbn in E1. inversion E1; subst. inversion Ht; subst.
        match goal with Hh : held_by_any _ _ = false |- _ => vm_compute in Hh; discriminate Hh end.
      * cbn in E1. inversion E1 as [[Ep Epre]]. destruct pre; discriminate Epre.
Qed.

(* the per-function facts of the regenerated table contain what the atomicity argument needs *)
Lemma holders_present_sound : forall hs, holders_present hs = true -> forall r, In r required_holders -> In r hs.
Proof.
  intros hs H r Hr. unfold holders_present in H. rewrite forallb_forall in H. specialize (H r Hr).
  apply existsb_exists in H. destruct H as (x & Hx & E). destruct r as [[f1 h1] t1], x as [[f2 h2] t2].
  cbn [holder_eqb] in E. apply andb_true_iff in E. destruct E as [E E3]. apply andb_true_iff in E. destruct E as [E1 E2].
  apply String.eqb_eq in E1, E2, E3. subst. exact Hx.
Qed.

Lemma lock_holders_required : holders_present lock_holders = true.
Proof. vm_compute. reflexivity. Qed.
