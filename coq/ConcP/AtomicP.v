(* Under one mutex, every schedule of the micro-steps of any number of goroutines leaves registry, routing table and
   published count equal once everybody has finished - and releasing the mutex before the cluster is told does not. *)
From Coq Require Import List String Bool Arith Lia.
From Piko Require Import Conc.Quiescent Conc.Atomic.
Import ListNotations.

(* ---- a whole call body, run without interruption, preserves consistency ---- *)
Lemma upd_same f k v : upd f k v k = v.
Proof. unfold upd. rewrite String.eqb_refl. reflexivity. Qed.
Lemma upd_other f k v x : x <> k -> upd f k v x = f x.
Proof. intros H. unfold upd. destruct (String.eqb x k) eqn:E; [apply String.eqb_eq in E; contradiction|reflexivity]. Qed.

Lemma body_preserves c l s : consistent s -> consistent (snd (run_body (body_of c) l s)).
Proof.
  intros Hc. destruct c as [e|e]; cbn [body_of body_add body_remove run_body data_step snd reg rt pub]; intros x;
    destruct (String.eqb x e) eqn:E.
  - apply String.eqb_eq in E. subst x. cbn [reg rt pub]. rewrite !upd_same. destruct (Hc e) as [A B]. split; congruence.
  - apply String.eqb_neq in E. cbn [reg rt pub]. rewrite !upd_other by exact E. apply Hc.
  - apply String.eqb_eq in E. subst x. cbn [reg rt pub]. rewrite !upd_same. destruct (Hc e) as [A B]. split; congruence.
  - apply String.eqb_neq in E. cbn [reg rt pub]. rewrite !upd_other by exact E. apply Hc.
Qed.

(* ---- the invariant ---- *)
(* a thread between calls: what is left is a sequence of whole locked calls *)
Definition at_boundary (th : thread) : Prop := exists cs, code th = program cs.

(* thread h is inside a call: r = the rest of its body; finishing it from here restores consistency *)
Definition inside (g : gstate) (h : nat) : Prop :=
  exists th r cs, nth_error (threads g) h = Some th /\ code th = r ++ Rel :: program cs /\
                  (forall i, In i r -> i <> Acq /\ i <> Rel) /\
                  consistent (snd (run_body r (loc th) (st g))) /\
                  forall t th', t <> h -> nth_error (threads g) t = Some th' -> at_boundary th'.

Definition ginv (g : gstate) : Prop :=
  if held g then exists h, inside g h
  else consistent (st g) /\ forall t th, nth_error (threads g) t = Some th -> at_boundary th.

Lemma nth_set_nth_eq {A} (l : list A) n x : n < List.length l -> nth_error (set_nth n x l) n = Some x.
Proof. revert n. induction l as [|y l IH]; intros n H; cbn in H; [lia|]. destruct n; cbn; [reflexivity|apply IH; lia]. Qed.
Lemma nth_set_nth_ne {A} (l : list A) n m x : n <> m -> nth_error (set_nth n x l) m = nth_error l m.
Proof.
  revert n m. induction l as [|y l IH]; intros n m H; [destruct n; reflexivity|].
  destruct n, m; cbn; try reflexivity; try congruence. apply IH. congruence.
Qed.

Lemma body_no_lock c i : In i (body_of c) -> i <> Acq /\ i <> Rel.
Proof. destruct c; cbn; intros H; repeat (destruct H as [<-|H]; [split; discriminate|]); destruct H. Qed.

Lemma gstep_inv g t g' : ginv g -> gstep g t = Some g' -> ginv g'.
Proof.
  unfold ginv, gstep. intros Hi Hs.
  destruct (nth_error (threads g) t) as [th|] eqn:Et; [|discriminate].
  assert (Hlen : t < List.length (threads g)) by (apply nth_error_Some; rewrite Et; discriminate).
  destruct (held g) eqn:Eh.
  - (* the mutex is held by h *)
    destruct Hi as [h [thh [r [cs [Hh [Hcode [Hnl [Hfin Hoth]]]]]]]].
    destruct (Nat.eq_dec t h) as [->|Hne].
    + rewrite Hh in Et. injection Et as <-. rewrite Hcode in Hs.
      destruct r as [|i r].
      * (* Unlock *)
        cbn [app] in Hs. injection Hs as <-. cbn [held st threads]. split; [exact Hfin|].
        intros t' th' Ht'. destruct (Nat.eq_dec h t') as [<-|Hn].
        -- rewrite nth_set_nth_eq in Ht' by exact Hlen. injection Ht' as <-. exists cs. reflexivity.
        -- rewrite nth_set_nth_ne in Ht' by exact Hn. apply (Hoth t' th' ltac:(congruence) Ht').
      * (* one more update of the body *)
        destruct (Hnl i (or_introl eq_refl)) as [Ha Hr]. cbn [app] in Hs.
        destruct i; try contradiction;
          (cbn [run_body] in Hfin; destruct (data_step _ (loc thh) (st g)) as [l' s'] eqn:Ed; injection Hs as <-;
           cbn [held]; exists h; eexists; exists r, cs; cbn [threads st loc code];
           split; [apply nth_set_nth_eq, Hlen|]; split; [reflexivity|]; split; [intros j Hj; apply Hnl; right; exact Hj|];
           split; [exact Hfin|]; intros t' th' Hn Ht'; rewrite nth_set_nth_ne in Ht' by congruence; apply (Hoth t' th' Hn Ht')).
    + (* another thread: it is between calls, so it is finished or wants the mutex *)
      destruct (Hoth t th Hne Et) as [cs' Hc']. rewrite Hc' in Hs. destruct cs' as [|c cs']; [discriminate|].
      cbn [program flat_map locked app] in Hs. discriminate.
  - (* the mutex is free: only Lock (or nothing) can happen *)
    destruct Hi as [Hc Hb]. destruct (Hb t th Et) as [cs Hcs]. rewrite Hcs in Hs.
    destruct cs as [|c cs]; [discriminate|]. cbn [program flat_map locked app] in Hs. injection Hs as <-.
    cbn [held]. exists t. eexists. exists (body_of c), cs. cbn [threads st loc code].
    split; [apply nth_set_nth_eq, Hlen|]. split; [rewrite <- app_assoc; reflexivity|].
    split; [apply body_no_lock|]. split; [apply body_preserves, Hc|].
    intros t' th' Hn Ht'. rewrite nth_set_nth_ne in Ht' by congruence. apply (Hb t' th' Ht').
Qed.

Lemma grun_inv sched : forall g, ginv g -> ginv (grun g sched).
Proof.
  induction sched as [|t r IH]; intros g Hi; [exact Hi|]. cbn [grun].
  destruct (gstep g t) as [g'|] eqn:E; [apply IH, (gstep_inv g t g' Hi E)|apply IH, Hi].
Qed.

(* start: nothing registered, the mutex free, every goroutine about to run a sequence of locked calls *)
Definition ginit (progs : list (list call)) : gstate :=
  mkG reg_init false (map (fun cs => mkT (program cs) 0) progs).

Lemma ginit_inv progs : ginv (ginit progs).
Proof.
  unfold ginv, ginit. cbn [held st threads]. split; [intros e; split; reflexivity|].
  intros t th Ht. rewrite nth_error_map in Ht. destruct (nth_error progs t) as [cs|]; [|discriminate]. injection Ht as <-. exists cs. reflexivity.
Qed.

(* Every schedule whatsoever: once all goroutines have finished, the three counts agree for every endpoint. *)
Theorem atomic_calls_consistent progs sched :
  let g := grun (ginit progs) sched in finished g -> consistent (st g).
Proof.
  cbn zeta. intros Hf. pose proof (grun_inv sched _ (ginit_inv progs)) as Hi. unfold ginv in Hi.
  destruct (held (grun (ginit progs) sched)); [|exact (proj1 Hi)].
  (* the mutex cannot be held by a finished thread *)
  destruct Hi as [h [th [r [cs [Hh [Hcode _]]]]]]. exfalso.
  pose proof (proj1 (Forall_forall _ _) Hf th (nth_error_In _ _ Hh)) as H0. cbn beta in H0. rewrite Hcode in H0.
  destruct r; discriminate.
Qed.

(* ... and it is the mutex that does it: with the early unlock two connects of one endpoint can finish with the
   published count one short (thread 0 reads 1, thread 1 reads 2 and publishes it, thread 0 publishes its stale 1) *)
Definition ginit_early (progs : list (list call)) : gstate :=
  mkG reg_init false (map (fun cs => mkT (flat_map early_unlock cs) 0) progs).

Example early_unlock_refuted :
  let g := grun (ginit_early [[CAdd "e"]; [CAdd "e"]]) [0; 0; 0; 0; 0; 1; 1; 1; 1; 1; 1; 0] in
  finished g /\ reg (st g) "e" = 2 /\ rt (st g) "e" = 2 /\ pub (st g) "e" = 1.
Proof. vm_compute. split; [repeat constructor|]. split; [reflexivity|]. split; reflexivity. Qed.

(* the hypotheses of the theorem are met by a real run as well: same goroutines, same schedule, locked calls *)
Example atomic_example :
  let g := grun (ginit [[CAdd "e"; CRemove "e"]; [CAdd "e"]; [CAdd "f"]]) (List.concat (repeat [0; 1; 0; 2; 2; 1] 12)) in
  finished g /\ reg (st g) "e" = 1 /\ rt (st g) "e" = 1 /\ pub (st g) "e" = 1 /\ pub (st g) "f" = 1.
Proof. vm_compute. split; [repeat constructor|]. repeat split; reflexivity. Qed.
