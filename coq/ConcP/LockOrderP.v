(* C20 - ordered lock acquisition excludes deadlock (any number of threads, any number of steps),
   every run is finite and can always be completed; the model keeps mutexes exclusive. *)
From Coq Require Import List String Bool Arith Lia Permutation.
From Piko Require Import Conc.LockOrder.
Import ListNotations.

(* ------------------------------------------------------------------ the invariant *)
Definition inv (rank : mutex -> nat) (s : state) : Prop :=
  Forall (fun t => ordered rank (held t) (code t)) s.

Lemma init_inv : forall rank s, init_ordered rank s -> inv rank s.
Proof.
  intros rank s H. unfold inv, init_ordered in *.
  eapply Forall_impl; [|exact H]. intros t [Hh Ho]. rewrite Hh. exact Ho.
Qed.

Lemma tstep_ordered : forall rank g t t', tstep g t t' ->
  ordered rank (held t) (code t) -> ordered rank (held t') (code t').
Proof.
  intros rank g t t' Hst Ho. inversion Hst; subst; cbn in *.
  - destruct Ho as [_ Ho]. exact Ho.
  - exact Ho.
Qed.

Lemma step_inv : forall rank s s', step s s' -> inv rank s -> inv rank s'.
Proof.
  intros rank s s' Hst Hinv. inversion Hst as [pre t t' post Ht]; subst.
  unfold inv in *. apply Forall_app in Hinv. destruct Hinv as [Hpre Hrest].
  inversion Hrest as [|x l Hx Hpost]; subst.
  apply Forall_app. split; [exact Hpre|]. constructor; [|exact Hpost].
  eapply tstep_ordered; eassumption.
Qed.

Lemma steps_inv : forall rank s s', steps s s' -> inv rank s -> inv rank s'.
Proof.
  intros rank s s' H. induction H as [s | s1 s2 s3 H12 H23 IH]; intro Hinv.
  - exact Hinv.
  - apply IH. eapply step_inv; eassumption.
Qed.

(* ------------------------------------------------------------------ who can move *)
Definition blocked (g : state) (t : thread) : Prop :=
  exists m c, code t = Acq m :: c /\ held_by_any g m = true.

Lemma classify : forall (g l : state),
  (exists pre t post t', l = pre ++ t :: post /\ tstep g t t') \/
  (forall t, In t l -> finished t \/ blocked g t).
Proof.
  intros g l. induction l as [|t l IH].
  - right. intros t [].
  - destruct t as [h c]. destruct c as [|i c].
    + destruct IH as [[pre [t [post [t' [E Ht]]]]] | Hall].
      * left. exists (mkThread h [] :: pre), t, post, t'. split; [rewrite E; reflexivity | exact Ht].
      * right. intros t [E | Hin]; [subst; left; reflexivity | apply Hall; exact Hin].
    + destruct i as [m | m].
      * destruct (held_by_any g m) eqn:Hb.
        -- destruct IH as [[pre [t [post [t' [E Ht]]]]] | Hall].
           ++ left. exists (mkThread h (Acq m :: c) :: pre), t, post, t'.
              split; [rewrite E; reflexivity | exact Ht].
           ++ right. intros t [E | Hin]; [|apply Hall; exact Hin].
              subst. right. exists m, c. split; [reflexivity | exact Hb].
        -- left. exists [], (mkThread h (Acq m :: c)), l, (mkThread (m :: h) c).
           split; [reflexivity | constructor; exact Hb].
      * left. exists [], (mkThread h (Rel m :: c)), l, (mkThread (remove_m m h) c).
        split; [reflexivity | constructor].
Qed.

Lemma mem_In : forall m l, mem m l = true -> In m l.
Proof.
  intros m l H. unfold mem in H. apply existsb_exists in H. destruct H as [x [Hin He]].
  apply String.eqb_eq in He. subst. exact Hin.
Qed.

Lemma In_mem : forall m l, In m l -> mem m l = true.
Proof.
  intros m l H. unfold mem. apply existsb_exists. exists m. split; [exact H | apply String.eqb_refl].
Qed.

Definition want_rank (rank : mutex -> nat) (t : thread) : nat :=
  match code t with Acq m :: _ => rank m | _ => 0 end.

(* whoever is blocked waits for a thread that is itself blocked on a strictly higher mutex *)
Lemma ascent : forall rank s,
  inv rank s ->
  (forall t, In t s -> finished t \/ blocked s t) ->
  forall t m c, In t s -> code t = Acq m :: c -> held_by_any s m = true ->
  exists t' m' c', In t' s /\ code t' = Acq m' :: c' /\ held_by_any s m' = true /\ rank m < rank m'.
Proof.
  intros rank s Hinv Hall t m c Hin Hc Hb.
  unfold held_by_any in Hb. apply existsb_exists in Hb. destruct Hb as [t' [Hin' Hm]].
  apply mem_In in Hm.
  unfold inv in Hinv. rewrite Forall_forall in Hinv. pose proof (Hinv t' Hin') as Ho.
  destruct (Hall t' Hin') as [Hf | [m' [c' [Hc' Hb']]]].
  - unfold finished in Hf. rewrite Hf in Ho. cbn in Ho. rewrite Ho in Hm. inversion Hm.
  - exists t', m', c'. rewrite Hc' in Ho. cbn in Ho. destruct Ho as [Hlt _].
    repeat split; try assumption. apply Hlt. exact Hm.
Qed.

Lemma want_rank_bound : forall rank (s : state) t, In t s ->
  want_rank rank t <= list_max (map (want_rank rank) s).
Proof.
  intros rank s t Hin.
  assert (H : Forall (fun k => k <= list_max (map (want_rank rank) s)) (map (want_rank rank) s)).
  { apply (proj1 (list_max_le (map (want_rank rank) s) (list_max (map (want_rank rank) s)))). apply Nat.le_refl. }
  rewrite Forall_forall in H. apply H. apply in_map. exact Hin.
Qed.

Lemma no_all_blocked : forall rank s,
  inv rank s ->
  (forall t, In t s -> finished t \/ blocked s t) ->
  forall t, In t s -> ~ blocked s t.
Proof.
  intros rank s Hinv Hall.
  set (B := list_max (map (want_rank rank) s)).
  assert (Hk : forall k t m c, In t s -> code t = Acq m :: c -> held_by_any s m = true ->
                               B - rank m < k -> False).
  { induction k as [|k IH]; intros t m c Hin Hc Hb Hlt.
    - lia.
    - destruct (ascent rank s Hinv Hall t m c Hin Hc Hb) as [t' [m' [c' [Hin' [Hc' [Hb' Hr]]]]]].
      assert (Hbound : rank m' <= B).
      { pose proof (want_rank_bound rank s t' Hin') as Hw. fold B in Hw.
        unfold want_rank at 1 in Hw. rewrite Hc' in Hw. exact Hw. }
      apply (IH t' m' c' Hin' Hc' Hb'). lia. }
  intros t Hin [m [c [Hc Hb]]].
  apply (Hk (S B) t m c Hin Hc Hb). lia.
Qed.

(* ------------------------------------------------------------------ progress and deadlock freedom *)
Theorem progress : forall rank s, inv rank s -> all_finished s \/ exists s', step s s'.
Proof.
  intros rank s Hinv. destruct (classify s s) as [[pre [t [post [t' [E Ht]]]]] | Hall].
  - right. exists (pre ++ t' :: post). rewrite E. constructor. rewrite <- E. exact Ht.
  - left. unfold all_finished. apply Forall_forall. intros t Hin.
    destruct (Hall t Hin) as [Hf | Hb]; [exact Hf|].
    exfalso. exact (no_all_blocked rank s Hinv Hall t Hin Hb).
Qed.

(* ordered_no_deadlock: if some ranking of the mutexes is respected by every thread (each acquires only
   mutexes strictly above all those it currently holds), no reachable state is a deadlock - for any number of
   threads and any number of steps. *)
Theorem ordered_no_deadlock : forall rank s0 s,
  init_ordered rank s0 -> steps s0 s -> ~ deadlocked s.
Proof.
  intros rank s0 s Hinit Hsteps [Hnf Hstuck].
  assert (Hinv : inv rank s) by (eapply steps_inv; [exact Hsteps | apply init_inv; exact Hinit]).
  destruct (progress rank s Hinv) as [Hf | [s' Hs]].
  - exact (Hnf Hf).
  - exact (Hstuck s' Hs).
Qed.

Theorem ordered_progress : forall rank s0 s,
  init_ordered rank s0 -> steps s0 s -> all_finished s \/ exists s', step s s'.
Proof.
  intros rank s0 s Hinit Hsteps. apply (progress rank).
  eapply steps_inv; [exact Hsteps | apply init_inv; exact Hinit].
Qed.

(* ------------------------------------------------------------------ bounded runs, completion *)
Lemma remaining_app : forall a b, remaining (a ++ b) = remaining a + remaining b.
Proof. intros a b. unfold remaining. rewrite map_app, list_sum_app. reflexivity. Qed.

Lemma step_remaining : forall s s', step s s' -> remaining s = S (remaining s').
Proof.
  intros s s' H. inversion H as [pre t t' post Ht]; subst.
  rewrite !remaining_app. unfold remaining.
  inversion Ht; subst; cbn [map list_sum fold_right code List.length]; lia.
Qed.

(* every run from s has exactly as many steps as lock operations it consumed: at most remaining s *)
Theorem run_bounded : forall n s s', steps_n n s s' -> n + remaining s' = remaining s.
Proof.
  intros n s s' H. induction H as [s | n s1 s2 s3 H12 H23 IH].
  - reflexivity.
  - apply step_remaining in H12. lia.
Qed.

Lemma remaining_0_finished : forall s, remaining s = 0 -> all_finished s.
Proof.
  induction s as [|t s IH]; intro H.
  - constructor.
  - unfold remaining in H. cbn [map list_sum fold_right] in H.
    constructor.
    + unfold finished. destruct (code t); [reflexivity | cbn [List.length] in H; lia].
    + apply IH. unfold remaining, list_sum. lia.
Qed.

Lemma completes_from_inv : forall rank n s, remaining s <= n -> inv rank s ->
  exists s', steps s s' /\ all_finished s'.
Proof.
  induction n as [|n IH]; intros s Hn Hinv.
  - exists s. split; [constructor | apply remaining_0_finished; lia].
  - destruct (progress rank s Hinv) as [Hf | [s1 Hs]].
    + exists s. split; [constructor | exact Hf].
    + pose proof (step_remaining _ _ Hs) as Hr.
      destruct (IH s1) as [s' [Hss Hf]]; [lia | eapply step_inv; eassumption |].
      exists s'. split; [econstructor; eassumption | exact Hf].
Qed.

(* from every reachable state all threads can still run to completion *)
Theorem ordered_completes : forall rank s0 s,
  init_ordered rank s0 -> steps s0 s -> exists s', steps s s' /\ all_finished s'.
Proof.
  intros rank s0 s Hinit Hsteps. apply (completes_from_inv rank (remaining s)); [lia|].
  eapply steps_inv; [exact Hsteps | apply init_inv; exact Hinit].
Qed.

(* a run that cannot be continued has finished every thread (no thread is stuck for ever) *)
Theorem ordered_maximal_run_finishes : forall rank s0 s,
  init_ordered rank s0 -> steps s0 s -> (forall s', ~ step s s') -> all_finished s.
Proof.
  intros rank s0 s Hinit Hsteps Hstuck.
  destruct (ordered_progress rank s0 s Hinit Hsteps) as [Hf | [s' Hs]]; [exact Hf|].
  exfalso. exact (Hstuck s' Hs).
Qed.

(* ------------------------------------------------------------------ from an edge relation to a ranking *)
Lemma edge_in_In : forall es x m, edge_in es x m = true -> In (x, m) es.
Proof.
  intros es x m H. unfold edge_in in H. apply existsb_exists in H.
  destruct H as [[a b] [Hin He]]. cbn in He. apply andb_true_iff in He. destruct He as [Ha Hb].
  apply String.eqb_eq in Ha. apply String.eqb_eq in Hb. subst. exact Hin.
Qed.

Lemma within_ordered : forall es (rank : mutex -> nat),
  (forall a b, In (a, b) es -> rank a < rank b) ->
  forall c h, within es h c = true -> ordered rank h c.
Proof.
  intros es rank Hr. induction c as [|i c IH]; intros h H.
  - cbn in *. destruct h; [reflexivity | discriminate].
  - destruct i as [m | m]; cbn in *.
    + apply andb_true_iff in H. destruct H as [Hall Hrest]. split.
      * intros x Hin. rewrite forallb_forall in Hall. apply Hr. apply edge_in_In. apply Hall. exact Hin.
      * apply IH. exact Hrest.
    + apply IH. exact H.
Qed.

Lemma init_within_ordered : forall es (rank : mutex -> nat),
  (forall a b, In (a, b) es -> rank a < rank b) ->
  forall s, init_within es s -> init_ordered rank s.
Proof.
  intros es rank Hr s H. unfold init_within, init_ordered in *.
  eapply Forall_impl; [|exact H]. intros t [Hh Hw]. split; [exact Hh|].
  eapply within_ordered; eassumption.
Qed.

(* ------------------------------------------------------------------ mutual exclusion (sanity of the model) *)
Lemma held_by_any_false : forall s m, held_by_any s m = false -> ~ In m (List.concat (map held s)).
Proof.
  intros s m H Hin. apply in_concat in Hin. destruct Hin as [l [Hl Hm]].
  apply in_map_iff in Hl. destruct Hl as [t [Et Ht]]. subst l.
  assert (held_by_any s m = true).
  { unfold held_by_any. apply existsb_exists. exists t. split; [exact Ht | apply In_mem; exact Hm]. }
  congruence.
Qed.

Lemma NoDup_filter_mid : forall (f : mutex -> bool) a h c,
  NoDup (a ++ h ++ c) -> NoDup (a ++ filter f h ++ c).
Proof.
  intros f a h c. induction a as [|x a IH]; intro H.
  - cbn in *. induction h as [|y h IHh].
    + exact H.
    + cbn in *. inversion H as [|? ? Hnot Hnd]; subst. destruct (f y).
      * constructor; [|apply IHh; exact Hnd].
        intro Hin. apply Hnot. apply in_app_iff in Hin. apply in_app_iff.
        destruct Hin as [Hin | Hin]; [left; apply filter_In in Hin; tauto | right; exact Hin].
      * apply IHh. exact Hnd.
  - cbn in *. inversion H as [|? ? Hnot Hnd]; subst. constructor; [|apply IH; exact Hnd].
    intro Hin. apply Hnot. rewrite !in_app_iff in *.
    destruct Hin as [Hin | [Hin | Hin]]; [tauto | right; left; apply filter_In in Hin; tauto | tauto].
Qed.

Lemma step_exclusive : forall s s', step s s' -> exclusive s -> exclusive s'.
Proof.
  intros s s' Hst Hex. inversion Hst as [pre t t' post Ht]; subst.
  unfold exclusive in *. rewrite map_app, concat_app in *. cbn [map List.concat] in *.
  inversion Ht as [m h c Hfree | m h c]; subst; cbn [held] in *.
  - apply held_by_any_false in Hfree.
    rewrite map_app, concat_app in Hfree. cbn [map List.concat held] in Hfree.
    eapply Permutation_NoDup; [apply (Permutation_middle (List.concat (map held pre)) (h ++ List.concat (map held post)) m)|].
    constructor; assumption.
  - unfold remove_m. apply NoDup_filter_mid. exact Hex.
Qed.

Lemma init_exclusive : forall s, Forall (fun t => held t = []) s -> exclusive s.
Proof.
  intros s H. unfold exclusive. induction H as [|t s Ht _ IH].
  - constructor.
  - cbn. rewrite Ht. exact IH.
Qed.

(* a mutex is never held by two threads (nor twice by one) in any reachable state *)
Theorem mutual_exclusion : forall s0 s,
  Forall (fun t => held t = []) s0 -> steps s0 s -> exclusive s.
Proof.
  intros s0 s Hinit Hsteps. apply init_exclusive in Hinit.
  induction Hsteps as [s | s1 s2 s3 H12 H23 IH]; [exact Hinit|].
  apply IH. eapply step_exclusive; eassumption.
Qed.
