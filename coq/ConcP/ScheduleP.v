(* Proofs about the scheduler jitter (Conc/Schedule.v). *)
From Coq Require Import ZArith Bool Lia.
From Piko Require Import Conc.Schedule.
Local Open Scope Z_scope.

Ltac Zify.zify_post_hook ::= Z.div_mod_to_equations.

(* after the fix: for every interval the configuration accepts and every random number the jitter is defined, non-negative
   and at most a tenth of the interval *)
Lemma jitter_total interval r :
  interval_ok interval = true -> exists j, jitter interval r = Some j /\ 0 <= j <= interval / 10.
Proof.
  unfold interval_ok, jitter. intros H. apply Z.ltb_lt in H.
  destruct (Z.leb_spec interval 0); [lia|]. eexists. split; [reflexivity|].
  pose proof (Z.mod_pos_bound r interval ltac:(lia)). split.
  - apply Z.div_pos; lia.
  - apply Z.div_le_mono; lia.
Qed.

(* hence every run of a task starts within its own period: the k-th run (k >= 1) starts in [k*I, k*I + I/10], strictly
   before the next tick - in bounded time *)
Lemma run_within_period interval k r j :
  interval_ok interval = true -> jitter interval r = Some j -> 1 <= k ->
  k * interval <= run_time interval k j <= k * interval + interval / 10 /\ run_time interval k j < (k + 1) * interval.
Proof.
  intros H Hj Hk. destruct (jitter_total interval r H) as (j' & Hj' & Hb). rewrite Hj in Hj'. inversion Hj'; subst j'.
  unfold interval_ok in H. apply Z.ltb_lt in H. unfold run_time.
  assert (interval / 10 < interval) by (apply Z.div_lt_upper_bound; lia). lia.
Qed.

(* the pinned expression panics (division by zero) exactly for the intervals below one millisecond, all of which
   Config.Validate accepts; from one millisecond on both agree up to the millisecond granularity *)
Lemma jitter_pinned_defined_iff interval r :
  interval_ok interval = true -> (jitter_pinned interval r = None <-> interval < 1000000).
Proof.
  unfold interval_ok, jitter_pinned, millis. intros H. apply Z.ltb_lt in H.
  destruct (Z.eqb_spec (interval / 1000000) 0) as [E|E]; split; intros H1; try reflexivity; try discriminate.
  - assert (interval / 1000000 = 0 -> interval < 1000000) by (intros; apply Z.div_small_iff in E; lia). auto.
  - exfalso. apply E. apply Z.div_small. lia.
Qed.

Lemma jitter_pinned_refuted :
  exists interval r, interval_ok interval = true /\ jitter_pinned interval r = None /\ jitter interval r <> None.
Proof. exists 500000, 12345. repeat split; discriminate || reflexivity. Qed.

Lemma jitter_pinned_bound interval r j :
  interval_ok interval = true -> 0 <= r -> jitter_pinned interval r = Some j -> 0 <= j <= interval / 10.
Proof.
  unfold interval_ok, jitter_pinned, millis. intros H Hr Hj. apply Z.ltb_lt in H.
  destruct (Z.eqb_spec (interval / 1000000) 0) as [E|E]; [discriminate|]. inversion Hj; subst j; clear Hj.
  assert (Hm : 0 < interval / 1000000).
  { assert (0 <= interval / 1000000) by (apply Z.div_pos; lia). lia. }
  pose proof (Z.mod_pos_bound r (interval / 1000000) Hm) as Hb.
  set (m := interval / 1000000) in *. set (x := r mod m) in *.
  assert (Hx : x / 10 * 1000000 <= m * 1000000 / 10).
  { assert (x / 10 <= m / 10) by (apply Z.div_le_mono; lia).
    assert (m / 10 * 1000000 <= m * 1000000 / 10) by (apply Z.div_le_lower_bound; [lia|]; pose proof (Z.mul_div_le m 10 ltac:(lia)); nia).
    nia. }
  assert (Hmi : m * 1000000 <= interval) by (unfold m; pose proof (Z.mul_div_le interval 1000000 ltac:(lia)); lia).
  split.
  - assert (0 <= x / 10) by (apply Z.div_pos; lia). lia.
  - etransitivity; [exact Hx|]. apply Z.div_le_mono; lia.
Qed.

Example ex_jitter :
  jitter 100000000 123456789012 = Some 5678901 /\ jitter_pinned 100000000 123456789012 = Some 1000000 /\
  jitter 500000 7 = Some 0 /\ jitter_pinned 500000 7 = None /\ jitter 999999 999998 = Some 99999.
Proof. vm_compute. repeat split. Qed.
