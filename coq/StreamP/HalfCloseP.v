(* The half-close variant loses close propagation: the client (peer of X) sends and closes, the service (peer of Y) has seen
   end-of-stream but neither closes nor writes - the pair is stuck with copier B still reading Y and neither connection
   released. The same actions on the real pair end, after the copiers' remaining moves, with both legs closed. *)
From Coq Require Import List Bool Arith.
From Piko Require Import Stream.WsConn Stream.CopyPair Stream.HalfClose.
Import ListNotations.

Definition hc_acts : list (act nat) :=
  [AEnvWrite X [1; 2; 3]; ACopier X 3 false; ACopier X 1 false; AEnvClose X; ACopier X 1 false; ACopier X 1 false].

Lemma half_close_refuted :
  exists s, run_hc (init nat) hc_acts = Some s /\ stuck_hc s = true /\ final s = false /\
            e_lclosed (cy s) = false /\ e_lclosed (cx s) = false /\ is_done (tb s) = false /\
            e_out (cy s) = [1; 2; 3].
Proof. eexists. vm_compute. repeat split. Qed.

Lemma real_pair_releases :
  exists s, run (init nat) (hc_acts ++ [ACopier Y 1 false; ACopier Y 1 false]) = Some s /\ stuck s = true /\ final s = true /\
            e_out (cy s) = [1; 2; 3].
Proof. eexists. vm_compute. repeat split. Qed.
