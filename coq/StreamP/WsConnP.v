(* Lemmas about the Conn.Read / Conn.Write model (Stream/WsConn.v). *)
From Coq Require Import List Bool Arith Lia.
From Piko Require Import Stream.WsConn.
Import ListNotations.
Set Implicit Arguments.

Lemma clamp_bounds k hi : 1 <= hi -> 1 <= clamp k 1 hi /\ clamp k 1 hi <= hi.
Proof. unfold clamp. lia. Qed.

Lemma clamp_id k hi : 1 <= k -> k <= hi -> clamp k 1 hi = k.
Proof. unfold clamp. lia. Qed.

Section WsConnP.
Variable A : Type.
Implicit Types (c : conn A) (rem d : list A) (ib : list (frame A)) (r : rres A).

(* ------------------------------------------------------------------ the message reader *)
Lemma reader_read_spec rem t n k e d err rem' :
  reader_read rem t n k e = (d, err, rem') ->
  rem = d ++ rem'
  /\ length d <= n
  /\ (rem <> [] -> 0 < n -> d <> [])
  /\ (err <> None -> rem' = [])
  /\ (forall t', err = Some t' -> t' = t)
  /\ (rem = [] -> err = Some t).
Proof.
  unfold reader_read. destruct rem as [|a rem0].
  - intros H; inversion H; subst. repeat split; auto; try congruence; try (cbn; lia).
  - destruct (Nat.eqb n 0) eqn:En.
    + apply Nat.eqb_eq in En. intros H; inversion H; subst.
      repeat split; auto; try congruence; try lia; try (cbn; lia).
    + apply Nat.eqb_neq in En.
      assert (HL : 1 <= length (a :: rem0)) by (cbn; lia).
      remember (a :: rem0) as L eqn:EL.
      remember (clamp k 1 (Nat.min n (length L))) as k' eqn:Ek.
      assert (Hk : 1 <= k' /\ k' <= Nat.min n (length L)).
      { subst k'. apply clamp_bounds. destruct n; [congruence|]. lia. }
      assert (Hsplit : L = firstn k' L ++ skipn k' L) by (symmetry; apply firstn_skipn).
      assert (Hlen : length (firstn k' L) = k') by (rewrite firstn_length; lia).
      assert (Hne : firstn k' L <> []).
      { intro H0. rewrite H0 in Hlen. cbn in Hlen. lia. }
      destruct (skipn k' L) as [|b rem1] eqn:Hs.
      * destruct e; intros H; inversion H; subst; repeat split; auto; try congruence; try lia.
      * intros H; inversion H; subst. repeat split; auto; try congruence; try lia.
Qed.

(* ------------------------------------------------------------------ conservation of bytes *)
Lemma with_reader_none rem t ib n k e :
  with_reader rem t ib n k e = None -> rem = [] /\ t = TEOF.
Proof.
  unfold with_reader. destruct (reader_read rem t n k e) as [[d err] rem'] eqn:E.
  apply reader_read_spec in E. destruct E as (Hs & _ & _ & Hr & Ht & _).
  destruct d; [|destruct err as [[]|]; discriminate].
  destruct err as [[]|]; try discriminate. intros _.
  rewrite (Hr ltac:(discriminate)) in Hs. cbn in Hs. split; [exact Hs|]. symmetry; apply Ht; reflexivity.
Qed.

Lemma with_reader_pend rem t ib n k e c' r :
  with_reader rem t ib n k e = Some (c', r) ->
  rem ++ flat_map (@frame_bytes A) ib = r_data r ++ pend c'.
Proof.
  unfold with_reader. destruct (reader_read rem t n k e) as [[d err] rem'] eqn:E.
  apply reader_read_spec in E. destruct E as (Hs & _ & _ & Hr & _ & _).
  destruct d as [|a d]; destruct err as [[]|]; intros H; inversion H; subst; clear H;
    unfold pend; cbn [cur inbox r_data];
    try (rewrite (Hr ltac:(discriminate)); cbn; rewrite ?app_nil_r; reflexivity);
    try (rewrite <- app_assoc; reflexivity); try reflexivity.
Qed.

Lemma next_msg_pend ib n k e c' r :
  next_msg ib n k e = (c', r) -> flat_map (@frame_bytes A) ib = r_data r ++ pend c'.
Proof.
  revert c' r. induction ib as [|f rest IH]; intros c' r; cbn [next_msg].
  - intros H; inversion H; reflexivity.
  - destruct f as [b|b cl|b| |].
    + destruct (with_reader b TEOF rest n k e) as [[c1 r1]|] eqn:E.
      * intros H; inversion H; subst. cbn [flat_map frame_bytes]. eapply with_reader_pend; eauto.
      * intros H. apply with_reader_none in E. destruct E as [-> _]. cbn. apply IH; exact H.
    + set (ib' := (if cl then CloseFrame else Err) :: rest).
      assert (Hfm : flat_map (@frame_bytes A) ib' = flat_map (@frame_bytes A) rest) by (unfold ib'; destruct cl; reflexivity).
      destruct (with_reader b (if cl then TClosed else TOther) ib' n k e) as [[c1 r1]|] eqn:E.
      * intros H; inversion H; subst. cbn [flat_map frame_bytes]. rewrite <- Hfm. eapply with_reader_pend; eauto.
      * apply with_reader_none in E. destruct E as [_ E]. destruct cl; discriminate.
    + intros H; inversion H; subst. reflexivity.
    + intros H; inversion H; subst. reflexivity.
    + intros H; inversion H; subst. reflexivity.
Qed.

(* every byte is either returned by this Read or still pending afterwards: nothing lost, duplicated,
   reordered or altered *)
Lemma read_pend c n k e c' r : read c n k e = (c', r) -> pend c = r_data r ++ pend c'.
Proof.
  unfold read, pend at 1. destruct (cur c) as [[rem t]|].
  - destruct (with_reader rem t (inbox c) n k e) as [[c1 r1]|] eqn:E.
    + intros H; inversion H; subst. eapply with_reader_pend; eauto.
    + apply with_reader_none in E. destruct E as [-> _]. cbn. apply next_msg_pend.
  - cbn. apply next_msg_pend.
Qed.

Lemma write_pend c b : pend (write c b) = pend c ++ b.
Proof.
  unfold write, pend; cbn [cur inbox]. rewrite flat_map_app. cbn. rewrite app_nil_r, app_assoc. reflexivity.
Qed.

Lemma push_close_pend c : pend (push_close c) = pend c.
Proof.
  unfold push_close, pend; cbn [cur inbox]. rewrite flat_map_app. cbn. rewrite app_nil_r. reflexivity.
Qed.

(* ------------------------------------------------------------------ well-formed one-way channels *)
(* only complete binary messages, then a close iff the writer closed; the reader (if any) is a whole message *)
Definition sfx (closed : bool) : list (frame A) := if closed then [CloseFrame] else [].
Definition wfc c (closed : bool) : Prop :=
  (cur c = None \/ exists rem, cur c = Some (rem, TEOF))
  /\ exists ms, inbox c = map (@Bin A) ms ++ sfx closed.

(* what one Read on a well-formed channel can do; P = bytes pending before the call *)
Definition rd_ok (closed : bool) (P : list A) (n : nat) c' r : Prop :=
  wfc c' closed
  /\ (r_err r = ENone \/ r_err r = EClosed \/ r_err r = EBlock)
  /\ length (r_data r) <= n
  /\ (r_err r = ENone -> 0 < n -> r_data r <> [])
  /\ (r_err r = EClosed -> closed = true /\ P = [] /\ r_data r = [])
  /\ (r_err r = EBlock -> closed = false /\ P = [] /\ r_data r = []).

Lemma with_reader_wf rem ib n k e c' r :
  with_reader rem TEOF ib n k e = Some (c', r) ->
  inbox c' = ib
  /\ (cur c' = None \/ exists rem', cur c' = Some (rem', TEOF))
  /\ r_err r = ENone /\ length (r_data r) <= n /\ (0 < n -> r_data r <> []).
Proof.
  unfold with_reader. destruct (reader_read rem TEOF n k e) as [[d err] rem'] eqn:E.
  apply reader_read_spec in E. destruct E as (Hs & Hl & Hne & Hr & Ht & He).
  destruct d as [|a d]; destruct err as [t'|].
  - pose proof (Ht _ eq_refl) as ->. discriminate.
  - intros H; inversion H; clear H; subst c' r; cbn. repeat split; eauto.
    intros Hn. exfalso. destruct rem as [|x rem0].
    + specialize (He eq_refl). discriminate.
    + apply (Hne ltac:(discriminate) Hn). reflexivity.
  - pose proof (Ht _ eq_refl) as ->. intros H; inversion H; subst; cbn in *.
    repeat split; auto. intros _; discriminate.
  - intros H; inversion H; subst; cbn in *. repeat split; eauto. intros _; discriminate.
Qed.

Lemma next_msg_wf ms closed n k e c' r :
  next_msg (map (@Bin A) ms ++ sfx closed) n k e = (c', r) -> rd_ok closed (concat ms) n c' r.
Proof.
  revert c' r. induction ms as [|m ms IH]; intros c' r.
  - cbn [map app concat]. destruct closed; cbn; intros H; inversion H; subst; cbn.
    + unfold rd_ok, wfc; cbn. repeat split; auto; try lia; try discriminate.
      exists []. reflexivity.
    + unfold rd_ok, wfc; cbn. repeat split; auto; try lia; try discriminate.
      exists []. reflexivity.
  - cbn [map app next_msg concat].
    destruct (with_reader m TEOF (map (@Bin A) ms ++ sfx closed) n k e) as [[c1 r1]|] eqn:E.
    + intros H; inversion H; subst. apply with_reader_wf in E.
      destruct E as (Hib & Hcur & Herr & Hlen & Hne).
      unfold rd_ok, wfc. rewrite Herr. repeat split; auto; try discriminate.
      exists ms. exact Hib.
    + apply with_reader_none in E. destruct E as [-> _]. cbn. apply IH.
Qed.

Lemma pend_wf_none c closed ms :
  cur c = None -> inbox c = map (@Bin A) ms ++ sfx closed -> pend c = concat ms.
Proof.
  intros Hc Hi. unfold pend. rewrite Hc, Hi, flat_map_app. cbn.
  assert (flat_map (@frame_bytes A) (sfx closed) = []) as -> by (destruct closed; reflexivity).
  rewrite app_nil_r. clear Hi. induction ms as [|m ms IH]; cbn; [reflexivity|]. rewrite IH. reflexivity.
Qed.

Lemma read_wf c closed n k e c' r :
  wfc c closed -> read c n k e = (c', r) -> rd_ok closed (pend c) n c' r.
Proof.
  intros [Hcur [ms Hib]] H. unfold read in H.
  destruct Hcur as [Hc|[rem Hc]]; rewrite Hc in H.
  - rewrite Hib in H. apply next_msg_wf in H. erewrite pend_wf_none; eauto.
  - destruct (with_reader rem TEOF (inbox c) n k e) as [[c1 r1]|] eqn:E.
    + inversion H; subst. apply with_reader_wf in E.
      destruct E as (Hib' & Hcur' & Herr & Hlen & Hne).
      unfold rd_ok, wfc. rewrite Herr. repeat split; auto; try discriminate.
      exists ms. rewrite Hib'. exact Hib.
    + apply with_reader_none in E. destruct E as [-> _].
      rewrite Hib in H. apply next_msg_wf in H.
      assert (pend c = concat ms) as ->; [|exact H].
      unfold pend. rewrite Hc. cbn. change (pend (mkConn None (inbox c)) = concat ms).
      eapply pend_wf_none; eauto.
Qed.

Lemma write_wf c b : wfc c false -> wfc (write c b) false.
Proof.
  intros [Hc [ms Hi]]. split; [exact Hc|]. exists (ms ++ [b]). unfold write; cbn [inbox].
  rewrite Hi, map_app. unfold sfx. cbn [map]. rewrite !app_nil_r. reflexivity.
Qed.

Lemma push_close_wf c : wfc c false -> wfc (push_close c) true.
Proof.
  intros [Hc [ms Hi]]. split; [exact Hc|]. exists ms. unfold push_close; cbn [inbox].
  rewrite Hi. unfold sfx. rewrite app_nil_r. reflexivity.
Qed.

(* on a closed, well-formed channel a Read with a non-empty buffer returns net.ErrClosed exactly
   when nothing is pending, and data (without error) otherwise *)
Lemma read_closed_iff c n k e c' r :
  wfc c true -> 0 < n -> read c n k e = (c', r) ->
  (r_err r = EClosed <-> pend c = []) /\ (r_err r = ENone <-> pend c <> []).
Proof.
  intros Hwf Hn H. pose proof (read_pend _ _ _ _ H) as Hp.
  apply (read_wf _ _ _ Hwf) in H. destruct H as (_ & Hcls & _ & Hne & Hc & Hb).
  destruct Hcls as [E|[E|E]].
  - specialize (Hne E Hn). split; split; intros H0; try congruence.
    + exfalso. rewrite H0 in Hp. symmetry in Hp. apply app_eq_nil in Hp. tauto.
    + intros H1. rewrite H1 in Hp. symmetry in Hp. apply app_eq_nil in Hp. tauto.
  - destruct (Hc E) as (_ & HP & _). split; split; intros H0; try congruence; tauto.
  - destruct (Hb E) as (Hf & _). discriminate.
Qed.

(* ------------------------------------------------------------------ sequences of reads *)
Lemma run_reads_length c rs : length (fst (run_reads c rs)) = length rs.
Proof.
  revert c. induction rs as [|[[n k] e] rs IH]; intros c; cbn; [reflexivity|].
  destruct (read c n k e) as [c' r]. specialize (IH c').
  destruct (run_reads c' rs) as [outs c'']. cbn in *. lia.
Qed.

Lemma run_reads_pend c rs :
  pend c = concat (map (@r_data A) (fst (run_reads c rs))) ++ pend (snd (run_reads c rs)).
Proof.
  revert c. induction rs as [|[[n k] e] rs IH]; intros c; cbn; [reflexivity|].
  destruct (read c n k e) as [c' r] eqn:E. specialize (IH c').
  destruct (run_reads c' rs) as [outs c'']. cbn in *.
  rewrite (read_pend _ _ _ _ E), IH, app_assoc. reflexivity.
Qed.

Lemma run_reads_app c rs1 rs2 :
  run_reads c (rs1 ++ rs2) =
  (fst (run_reads c rs1) ++ fst (run_reads (snd (run_reads c rs1)) rs2),
   snd (run_reads (snd (run_reads c rs1)) rs2)).
Proof.
  revert c. induction rs1 as [|[[n k] e] rs1 IH]; intros c; cbn.
  - destruct (run_reads c rs2); reflexivity.
  - destruct (read c n k e) as [c' r]. rewrite IH.
    destruct (run_reads c' rs1) as [o1 c1]. cbn. destruct (run_reads c1 rs2); reflexivity.
Qed.

Lemma run_reads_wf c closed rs : wfc c closed -> wfc (snd (run_reads c rs)) closed.
Proof.
  revert c. induction rs as [|[[n k] e] rs IH]; intros c Hwf; cbn; [exact Hwf|].
  destruct (read c n k e) as [c' r] eqn:E. apply (read_wf _ _ _ Hwf) in E. destruct E as (Hwf' & _).
  specialize (IH c' Hwf'). destruct (run_reads c' rs); exact IH.
Qed.

(* per-read facts along a sequence of reads of a closed well-formed channel *)
Lemma run_reads_closed_all c rs :
  wfc c true -> Forall (fun x => 0 < fst (fst x)) rs ->
  Forall (fun o => (r_err o = ENone \/ r_err o = EClosed)
                   /\ ~ (r_data o = [] /\ r_err o = ENone)
                   /\ (r_err o = EClosed -> r_data o = [])) (fst (run_reads c rs))
  /\ Forall2 (fun x o => length (r_data o) <= fst (fst x)) rs (fst (run_reads c rs)).
Proof.
  revert c. induction rs as [|[[n k] e] rs IH]; intros c Hwf Hpos; cbn.
  - split; constructor.
  - inversion Hpos as [|? ? Hn Hpos']; subst. cbn in Hn.
    destruct (read c n k e) as [c' r] eqn:E.
    pose proof (read_wf _ _ _ Hwf E) as (Hwf' & Hcls & Hlen & Hne & Hc & Hb).
    destruct (IH c' Hwf' Hpos') as [IH1 IH2].
    destruct (run_reads c' rs) as [outs c'']. cbn in *.
    split; constructor; auto.
    repeat split.
    + destruct Hcls as [?|[?|Eb]]; auto. destruct (Hb Eb); discriminate.
    + intros [Hd He]. apply (Hne He Hn Hd).
    + intros He. apply Hc; exact He.
Qed.

(* position-wise: the i-th read reports net.ErrClosed iff everything was delivered before it *)
Lemma run_reads_closed_at c rs pre o post :
  wfc c true -> Forall (fun x => 0 < fst (fst x)) rs ->
  fst (run_reads c rs) = pre ++ o :: post ->
  (r_err o = EClosed <-> concat (map (@r_data A) pre) = pend c).
Proof.
  revert c pre. induction rs as [|[[n k] e] rs IH]; intros c pre Hwf Hpos; cbn.
  - intros H. destruct pre; discriminate.
  - inversion Hpos as [|? ? Hn Hpos']; subst. cbn in Hn.
    destruct (read c n k e) as [c' r] eqn:E.
    pose proof (read_pend _ _ _ _ E) as Hp.
    pose proof (read_closed_iff _ _ Hwf Hn E) as [Hiff _].
    pose proof (read_wf _ _ _ Hwf E) as (Hwf' & _ & _ & _ & Hc & _).
    specialize (IH c').
    destruct (run_reads c' rs) as [outs c'']. cbn in *.
    destruct pre as [|p pre]; cbn; intros H; inversion H; subst.
    + rewrite Hiff. split; intros H0; congruence.
    + rewrite (IH pre Hwf' Hpos' eq_refl), Hp. split; intros H0.
      * rewrite H0; reflexivity.
      * apply app_inv_head in H0; exact H0.
Qed.

End WsConnP.

(* ------------------------------------------------------------------ naturality: Conn never looks at the bytes *)
Section Natural.
Variables (A B : Type) (f : A -> B).

Lemma reader_read_map rem t n k e :
  reader_read (map f rem) t n k e =
  (let '(d, err, rem') := reader_read rem t n k e in (map f d, err, map f rem')).
Proof.
  unfold reader_read. destruct rem as [|a rem0]; [reflexivity|]. cbn [map].
  destruct (Nat.eqb n 0); [reflexivity|].
  change (f a :: map f rem0) with (map f (a :: rem0)). rewrite map_length.
  set (k' := clamp k 1 (Nat.min n (length (a :: rem0)))).
  rewrite firstn_map, skipn_map.
  destruct (skipn k' (a :: rem0)); cbn [map]; [destruct e|]; reflexivity.
Qed.

Definition opt_map (x : option (conn A * rres A)) : option (conn B * rres B) :=
  match x with Some (c, r) => Some (conn_map f c, rres_map f r) | None => None end.

Lemma with_reader_map rem t ib n k e :
  with_reader (map f rem) t (map (frame_map f) ib) n k e = opt_map (with_reader rem t ib n k e).
Proof.
  unfold with_reader. rewrite reader_read_map.
  destruct (reader_read rem t n k e) as [[d err] rem'].
  destruct d as [|a d]; destruct err as [[]|]; reflexivity.
Qed.

Lemma next_msg_map ib n k e :
  next_msg (map (frame_map f) ib) n k e =
  (let (c, r) := next_msg ib n k e in (conn_map f c, rres_map f r)).
Proof.
  induction ib as [|x rest IH]; [reflexivity|].
  destruct x as [b|b cl|b| |]; cbn [map frame_map next_msg].
  - rewrite with_reader_map. destruct (with_reader b TEOF rest n k e) as [[c r]|]; [reflexivity|exact IH].
  - destruct cl; cbn zeta.
    + change (@CloseFrame B :: map (frame_map f) rest) with (map (frame_map f) (@CloseFrame A :: rest)).
      rewrite with_reader_map.
      destruct (with_reader b TClosed (CloseFrame :: rest) n k e) as [[c r]|]; reflexivity.
    + change (@Err B :: map (frame_map f) rest) with (map (frame_map f) (@Err A :: rest)).
      rewrite with_reader_map.
      destruct (with_reader b TOther (Err :: rest) n k e) as [[c r]|]; reflexivity.
  - reflexivity.
  - reflexivity.
  - reflexivity.
Qed.

(* Read commutes with any renaming of payload bytes *)
Lemma read_map c n k e :
  read (conn_map f c) n k e = (let (c', r) := read c n k e in (conn_map f c', rres_map f r)).
Proof.
  unfold read. destruct c as [[[rem t]|] ib]; cbn [conn_map cur inbox].
  - rewrite with_reader_map. destruct (with_reader rem t ib n k e) as [[c r]|]; [reflexivity|].
    cbn [opt_map]. apply next_msg_map.
  - apply next_msg_map.
Qed.

End Natural.
