(* Invariants of a chain of channels and copy stages (Stream/Pipe.v). *)
From Coq Require Import List Bool Arith Lia.
From Piko Require Import Stream.WsConn Stream.Pipe StreamP.WsConnP.
Import ListNotations.
Set Implicit Arguments.

Ltac splits := repeat match goal with |- _ /\ _ => split end.

Section PipeP.
Variable A : Type.
Implicit Types (c src dst : chan A) (chs : list (chan A)) (s : pstate A).

Definition wfch c : Prop := wfc (ch_conn c) (ch_closed c).

(* a copier closes its destination only after its source was closed and drained *)
Fixpoint chain_ok chs : Prop :=
  match chs with
  | c0 :: rest =>
      match rest with
      | c1 :: _ => (ch_closed c1 = true -> ch_closed c0 = true /\ pend (ch_conn c0) = []) /\ chain_ok rest
      | [] => True
      end
  | [] => True
  end.

Definition all_closed chs : Prop := Forall (fun c => ch_closed c = true) chs.
Definition is_closed_err (o : rres A) : Prop := r_err o = EClosed.

Record pinv s : Prop := mkInv {
  inv_ne : p_chs s <> [];
  inv_wf : Forall wfch (p_chs s);
  inv_chain : chain_ok (p_chs s);
  inv_bytes : p_written s = p_delivered s ++ pend_all (p_chs s);
  inv_outs : concat (map (@r_data A) (rev (p_outs s))) = p_delivered s;
  inv_errs : Forall (fun o => r_err o = ENone \/ r_err o = EClosed) (p_outs s);
  inv_eof : Exists is_closed_err (p_outs s) -> all_closed (p_chs s) /\ pend_all (p_chs s) = []
}.

(* ------------------------------------------------------------------ channel operations *)
Lemma ch_write_open c b : ch_closed c = false ->
  ch_closed (ch_write c b) = false /\ pend (ch_conn (ch_write c b)) = pend (ch_conn c) ++ b
  /\ (wfch c -> wfch (ch_write c b)).
Proof.
  intros H. unfold ch_write. rewrite H. cbn. split; [reflexivity|split].
  - apply write_pend.
  - unfold wfch. rewrite H. cbn. apply write_wf.
Qed.

Lemma ch_close_spec c :
  ch_closed (ch_close c) = true /\ pend (ch_conn (ch_close c)) = pend (ch_conn c)
  /\ (wfch c -> wfch (ch_close c)).
Proof.
  unfold ch_close. destruct (ch_closed c) eqn:H; cbn; (split; [auto|split]); auto.
  - apply push_close_pend.
  - unfold wfch. rewrite H. cbn. apply push_close_wf.
Qed.

(* ------------------------------------------------------------------ one copier iteration *)
Lemma copy_step_spec src dst n k e (s' d' : chan A) :
  wfch src -> wfch dst -> copy_step src dst n k e = (s', d') ->
  wfch s' /\ wfch d'
  /\ pend (ch_conn d') ++ pend (ch_conn s') = pend (ch_conn dst) ++ pend (ch_conn src)
  /\ ch_closed s' = ch_closed src
  /\ (pend (ch_conn src) = [] -> pend (ch_conn s') = [])
  /\ (ch_closed dst = true -> s' = src /\ d' = dst)
  /\ (ch_closed d' = true -> ch_closed dst = true \/ (ch_closed src = true /\ pend (ch_conn s') = [])).
Proof.
  intros Hws Hwd. unfold copy_step. destruct (ch_closed dst) eqn:Hcd.
  - intros H; inversion H; subst. splits; auto.
  - destruct (read (ch_conn src) n k e) as [c' r] eqn:E.
    pose proof (read_pend _ _ _ _ E) as Hp.
    pose proof (read_wf _ _ _ Hws E) as (Hwf' & Hcls & _ & _ & Hc & Hb).
    (* the destination after the optional write *)
    set (dw := match r_data r with [] => dst | _ :: _ => ch_write dst (r_data r) end).
    assert (Hdw : ch_closed dw = false /\ pend (ch_conn dw) = pend (ch_conn dst) ++ r_data r /\ wfch dw).
    { unfold dw. destruct (r_data r) as [|a l] eqn:Ed.
      - rewrite app_nil_r. auto.
      - destruct (ch_write_open dst (a :: l) Hcd) as (H1 & H2 & H3). auto. }
    destruct Hdw as (Hdc & Hdp & Hdwf).
    assert (Hsrc' : wfch (mkChan c' (ch_closed src))) by exact Hwf'.
    assert (Hshrink : pend (ch_conn src) = [] -> pend c' = []).
    { intros H0. rewrite H0 in Hp. symmetry in Hp. apply app_eq_nil in Hp. tauto. }
    destruct Hcls as [Er|[Er|Er]]; rewrite Er.
    + intros H; inversion H; subst s' d'. fold dw. cbn [ch_conn ch_closed].
      splits; auto; try (intros; discriminate);
        try (rewrite Hdp, Hp, app_assoc; reflexivity);
        try (intros H0; rewrite Hdc in H0; discriminate).
    + intros H; inversion H; subst s' d'. fold dw. cbn [ch_conn ch_closed].
      destruct (ch_close_spec dw) as (Hc1 & Hc2 & Hc3).
      destruct (Hc Er) as (Hcl & HP & Hd).
      splits; auto; try (intros; discriminate);
        try (rewrite Hc2, Hdp, Hp, app_assoc; reflexivity);
        try (intros _; right; split; [exact Hcl|apply Hshrink; exact HP]).
    + intros H; inversion H; subst s' d'. splits; auto; try (intros; discriminate);
        try (intros H0; rewrite Hcd in H0; discriminate).
Qed.

(* ------------------------------------------------------------------ copy_at *)
Lemma copy_at_spec i chs n k e :
  Forall wfch chs -> chain_ok chs ->
  Forall wfch (copy_at i chs n k e)
  /\ chain_ok (copy_at i chs n k e)
  /\ pend_all (copy_at i chs n k e) = pend_all chs
  /\ (copy_at i chs n k e = [] <-> chs = [])
  /\ head_closed (copy_at i chs n k e) = head_closed chs
  /\ (forall c0 r0 c1 r1, chs = c0 :: r0 -> copy_at i chs n k e = c1 :: r1 ->
        pend (ch_conn c0) = [] -> pend (ch_conn c1) = [])
  /\ (all_closed chs -> copy_at i chs n k e = chs).
Proof.
  revert chs. induction i as [|i IH]; intros chs Hwf Hch.
  - destruct chs as [|src [|dst rest]]; cbn [copy_at].
    + splits; auto; try tauto; try congruence.
    + splits; auto; try tauto; try congruence;
        try (intros ? ? ? ? H1 H2; inversion H1; inversion H2; subst; auto).
    + destruct (copy_step src dst n k e) as [s' d'] eqn:E.
      inversion Hwf as [|? ? Hws Hwf1]; subst. inversion Hwf1 as [|? ? Hwd Hwf2]; subst.
      destruct (copy_step_spec _ _ _ Hws Hwd E) as (Hs' & Hd' & Hpend & Hcs & Hsh & Hnop & Hcl).
      cbn [chain_ok] in Hch. destruct Hch as [Hc01 Hch1].
      splits.
      * constructor; [exact Hs'|]. constructor; [exact Hd'|exact Hwf2].
      * cbn [chain_ok]. split.
        -- intros Hd'c. destruct (Hcl Hd'c) as [Hdc|[Hsc Hsp]].
           ++ destruct (Hnop Hdc) as [-> ->]. apply Hc01; exact Hdc.
           ++ rewrite Hcs. auto.
        -- destruct rest as [|nx rest']; [exact I|].
           cbn [chain_ok] in Hch1. destruct Hch1 as [Hc12 Hch2]. split; [|exact Hch2].
           intros Hnx. destruct (Hc12 Hnx) as [Hdc Hdp].
           destruct (Hnop Hdc) as [_ ->]. auto.
      * cbn [pend_all]. rewrite <- !app_assoc. rewrite Hpend. reflexivity.
      * split; discriminate.
      * cbn [head_closed]. exact Hcs.
      * intros ? ? ? ? H1 H2 H3; inversion H1; inversion H2; subst. apply Hsh; exact H3.
      * intros Hall. inversion Hall as [|? ? _ Hall1]; subst. inversion Hall1 as [|? ? Hdc _]; subst.
        destruct (Hnop Hdc) as [-> ->]. reflexivity.
  - destruct chs as [|c rest]; cbn [copy_at].
    + splits; auto; try tauto; try congruence.
    + inversion Hwf as [|? ? Hwc Hwf1]; subst.
      assert (Hch1 : chain_ok rest).
      { cbn [chain_ok] in Hch. destruct rest; [exact I|]. tauto. }
      destruct (IH rest Hwf1 Hch1) as (IHwf & IHch & IHp & IHnil & IHhd & IHsh & IHall).
      splits.
      * constructor; auto.
      * destruct (copy_at i rest n k e) as [|h' t'] eqn:Ec.
        -- exact I.
        -- destruct rest as [|h t].
           { exfalso. destruct IHnil as [_ H2]. specialize (H2 eq_refl). discriminate. }
           cbn [chain_ok] in Hch |- *. destruct Hch as [Hc0 _]. split; [|exact IHch].
           cbn [head_closed] in IHhd. rewrite IHhd. exact Hc0.
      * cbn [pend_all]. rewrite IHp. reflexivity.
      * split; discriminate.
      * reflexivity.
      * intros ? ? ? ? H1 H2 H3; inversion H1; inversion H2; subst. exact H3.
      * intros Hall. inversion Hall; subst. rewrite IHall; auto.
Qed.

(* ------------------------------------------------------------------ read_last *)
Lemma read_last_cons c c1 rest n k e :
  read_last (c :: c1 :: rest) n k e =
  (let (rest', r) := read_last (c1 :: rest) n k e in (c :: rest', r)).
Proof. reflexivity. Qed.

Lemma read_last_spec chs n k e chs' r :
  chs <> [] -> Forall wfch chs -> chain_ok chs -> read_last chs n k e = (chs', r) ->
  Forall wfch chs' /\ chain_ok chs' /\ chs' <> []
  /\ pend_all chs = r_data r ++ pend_all chs'
  /\ head_closed chs' = head_closed chs
  /\ (forall c0 r0 c1 r1, chs = c0 :: r0 -> chs' = c1 :: r1 -> pend (ch_conn c0) = [] -> pend (ch_conn c1) = [])
  /\ (all_closed chs -> all_closed chs')
  /\ (r_err r = ENone \/ r_err r = EClosed \/ r_err r = EBlock)
  /\ (r_err r = ENone -> 0 < n -> r_data r <> [])
  /\ (r_err r = EClosed -> all_closed chs' /\ pend_all chs' = []).
Proof.
  revert chs' r. induction chs as [|c rest IH]; intros chs' r Hne Hwf Hch; [congruence|].
  inversion Hwf as [|? ? Hwc Hwf1]; subst.
  destruct rest as [|c1 rest1].
  - cbn [read_last]. destruct (read (ch_conn c) n k e) as [c' r'] eqn:E.
    intros H; inversion H; subst chs' r.
    pose proof (read_pend _ _ _ _ E) as Hp.
    pose proof (read_wf _ _ _ Hwc E) as (Hwf' & Hcls & _ & Hnz & Hc & _).
    assert (Hshrink : pend (ch_conn c) = [] -> pend c' = []).
    { intros H0. rewrite H0 in Hp. symmetry in Hp. apply app_eq_nil in Hp. tauto. }
    splits; auto; try discriminate.
    + intros ? ? ? ? H1 H2 H3; inversion H1; inversion H2; subst. cbn. auto.
    + intros Hall. inversion Hall; subst. constructor; [|constructor]. cbn. assumption.
    + intros Er. destruct (Hc Er) as (Hcl & HP & _). split.
      * constructor; [|constructor]. cbn. exact Hcl.
      * cbn. apply Hshrink. exact HP.
  - rewrite read_last_cons.
    destruct (read_last (c1 :: rest1) n k e) as [rest' r'] eqn:E.
    intros H; inversion H; clear H; subst.
    cbn [chain_ok] in Hch. destruct Hch as [Hc01 Hch1].
    destruct (IH _ _ ltac:(discriminate) Hwf1 Hch1 eq_refl)
      as (IHwf & IHch & IHne & IHp & IHhd & IHsh & IHall & IHcls & IHnz & IHc).
    destruct rest' as [|h' t']; [congruence|].
    splits; auto.
    + cbn [chain_ok]. split; [|exact IHch]. cbn [head_closed] in IHhd. rewrite IHhd. exact Hc01.
    + discriminate.
    + change (pend_all (c1 :: rest1) ++ pend (ch_conn c) = r_data r ++ (pend_all (h' :: t') ++ pend (ch_conn c))).
      rewrite IHp, app_assoc. reflexivity.
    + intros ? ? ? ? H1 H2 H3; inversion H1; inversion H2; subst. exact H3.
    + intros Hall. inversion Hall as [|? ? Hcc Hall1]; subst. constructor; [exact Hcc|]. apply IHall. exact Hall1.
    + intros Er. destruct (IHc Er) as [Hall Hpa].
      inversion Hall as [|? ? Hh' _]; subst.
      cbn [head_closed] in IHhd. rewrite Hh' in IHhd. symmetry in IHhd.
      destruct (Hc01 IHhd) as [Hcc Hcp]. split.
      * constructor; auto.
      * change (pend_all (h' :: t') ++ pend (ch_conn c) = []). rewrite Hpa, Hcp. reflexivity.
Qed.

(* ------------------------------------------------------------------ the invariant *)
Lemma pinit_inv hops : pinv (pinit A hops).
Proof.
  unfold pinit. constructor; cbn [p_chs p_written p_delivered p_outs].
  - discriminate.
  - apply Forall_forall. intros c Hin. apply repeat_spec in Hin. subst. split; cbn; auto; try (exists []; reflexivity).
  - generalize (S hops). intros m. induction m as [|m IH]; cbn; auto.
    destruct m; cbn in *; auto; try (split; auto; intros; discriminate).
  - cbn [app]. symmetry. generalize (S hops). intros m. induction m as [|m IH]; [reflexivity|].
    cbn [repeat pend_all]. rewrite IH. reflexivity.
  - reflexivity.
  - constructor.
  - intros H. inversion H.
Qed.

Lemma all_closed_head chs : chs <> [] -> all_closed chs -> head_closed chs = true.
Proof. destruct chs; [congruence|]. intros _ H. inversion H; auto. Qed.

Lemma pstep_inv s o : pinv s -> pinv (pstep s o).
Proof.
  intros [Hne Hwf Hch Hb Ho He Heof]. destruct o as [b| |i n k e|n k e]; cbn [pstep].
  - (* PWrite *)
    destruct (head_closed (p_chs s)) eqn:Hhc; [constructor; auto|].
    destruct (p_chs s) as [|c rest] eqn:Ec; [congruence|]. cbn [head_closed] in Hhc.
    destruct (ch_write_open c b Hhc) as (Hw1 & Hw2 & Hw3).
    inversion Hwf as [|? ? Hwc Hwf1]; subst.
    constructor; cbn [p_chs p_written p_delivered p_outs on_head]; auto.
    + discriminate.
    + cbn [chain_ok] in *. destruct rest as [|c1 rest1]; [exact I|]. destruct Hch as [H01 H1].
      split; [|exact H1]. intros Hc1. destruct (H01 Hc1) as [Hcc _]. congruence.
    + cbn [pend_all] in *. rewrite Hw2, Hb, !app_assoc. reflexivity.
    + intros Hx. destruct (Heof Hx) as [Hall _]. inversion Hall; subst. congruence.
  - (* PClose *)
    destruct (p_chs s) as [|c rest] eqn:Ec; [congruence|].
    destruct (ch_close_spec c) as (Hc1 & Hc2 & Hc3).
    inversion Hwf as [|? ? Hwc Hwf1]; subst.
    constructor; cbn [p_chs p_written p_delivered p_outs on_head]; auto.
    + discriminate.
    + cbn [chain_ok] in *. destruct rest as [|c1 rest1]; [exact I|]. destruct Hch as [H01 H1].
      split; [|exact H1]. intros Hcl. destruct (H01 Hcl) as [_ Hp]. rewrite Hc2. auto.
    + cbn [pend_all] in *. rewrite Hc2. exact Hb.
    + intros Hx. destruct (Heof Hx) as [Hall Hp]. split.
      * inversion Hall; subst. constructor; auto.
      * cbn [pend_all] in *. rewrite Hc2. exact Hp.
  - (* PCopy *)
    destruct (copy_at_spec i n k e Hwf Hch) as (Cwf & Cch & Cp & Cnil & _ & _ & Call).
    constructor; cbn [p_chs p_written p_delivered p_outs]; auto.
    + intros H0. apply Cnil in H0. congruence.
    + rewrite Cp. exact Hb.
    + intros Hx. destruct (Heof Hx) as [Hall Hp]. rewrite (Call Hall). auto.
  - (* PRead *)
    destruct (read_last (p_chs s) n k e) as [chs' r] eqn:E.
    destruct (read_last_spec n k e Hne Hwf Hch E)
      as (Rwf & Rch & Rne & Rp & _ & _ & Rall & Rcls & _ & Rc).
    destruct (r_err r) eqn:Er.
    + constructor; cbn [p_chs p_written p_delivered p_outs]; auto.
      * rewrite Hb, Rp, app_assoc. reflexivity.
      * cbn [rev]. rewrite map_app, concat_app. cbn. rewrite app_nil_r, Ho. reflexivity.
      * intros Hx. inversion Hx as [? ? Hh|? ? Ht]; subst.
        -- unfold is_closed_err in Hh. congruence.
        -- destruct (Heof Ht) as [Hall Hp]. split; auto.
           rewrite Hp in Rp. symmetry in Rp. apply app_eq_nil in Rp. tauto.
    + constructor; cbn [p_chs p_written p_delivered p_outs]; auto.
      * rewrite Hb, Rp, app_assoc. reflexivity.
      * cbn [rev]. rewrite map_app, concat_app. cbn. rewrite app_nil_r, Ho. reflexivity.
    + destruct Rcls as [?|[?|?]]; discriminate.
    + destruct Rcls as [?|[?|?]]; discriminate.
    + constructor; auto.
Qed.

Lemma prun_inv ops s : pinv s -> pinv (prun s ops).
Proof.
  revert s. induction ops as [|o ops IH]; intros s H; cbn; [exact H|]. apply IH. apply pstep_inv. exact H.
Qed.

(* ------------------------------------------------------------------ no Read returns (0, nil) *)
Definition pos_read (o : pop A) : Prop := match o with PRead n _ _ => 0 < n | _ => True end.
Definition nonzero (o : rres A) : Prop := ~ (r_data o = [] /\ r_err o = ENone).

Lemma pstep_nonzero s o : pinv s -> pos_read o -> Forall nonzero (p_outs s) -> Forall nonzero (p_outs (pstep s o)).
Proof.
  intros [Hne Hwf Hch _ _ _ _] Hpos Hnz. destruct o as [b| |i n k e|n k e]; cbn [pstep]; auto.
  - destruct (head_closed (p_chs s)); auto.
  - destruct (read_last (p_chs s) n k e) as [chs' r] eqn:E.
    destruct (read_last_spec n k e Hne Hwf Hch E) as (_ & _ & _ & _ & _ & _ & _ & _ & Rnz & _).
    cbn in Hpos.
    destruct (r_err r) eqn:Er; cbn [p_outs]; auto; constructor; auto;
      intros [Hd He']; try congruence.
    apply (Rnz eq_refl Hpos Hd).
Qed.

Lemma prun_nonzero ops s :
  pinv s -> Forall pos_read ops -> Forall nonzero (p_outs s) -> Forall nonzero (p_outs (prun s ops)).
Proof.
  revert s. induction ops as [|o ops IH]; intros s Hi Hp Hn; cbn; [exact Hn|].
  inversion Hp; subst. apply IH; auto.
  - apply pstep_inv; exact Hi.
  - apply pstep_nonzero; auto.
Qed.

(* ------------------------------------------------------------------ main statement *)
Theorem pipeline_faithful hops (ops : list (pop A)) :
  let s := prun (pinit A hops) ops in
  (* exactly once, in order, unmodified: what the sink got followed by what is still in flight
     (nearest the sink first) is what the source wrote *)
  p_written s = p_delivered s ++ pend_all (p_chs s)
  (* what the sink got is the concatenation of its Read results *)
  /\ concat (map (@r_data A) (rev (p_outs s))) = p_delivered s
  (* Read only ever fails with net.ErrClosed *)
  /\ Forall (fun o => r_err o = ENone \/ r_err o = EClosed) (p_outs s)
  (* end of stream is reported only after everything written has been delivered *)
  /\ (Exists is_closed_err (p_outs s) -> p_delivered s = p_written s)
  (* no Read with a non-empty buffer returns (0, nil) *)
  /\ (Forall pos_read ops -> Forall nonzero (p_outs s)).
Proof.
  intros s. pose proof (prun_inv ops (pinit_inv hops)) as Hi. fold s in Hi.
  destruct Hi as [Hne Hwf Hch Hb Ho He Heof]. splits; auto.
  - intros Hx. destruct (Heof Hx) as [_ Hp]. rewrite Hb, Hp, app_nil_r. reflexivity.
  - intros Hp. apply prun_nonzero; auto. apply pinit_inv. constructor.
Qed.

End PipeP.
