(* Close propagation and stream preservation for the two-goroutine copy pair (Stream/CopyPair.v). *)
From Coq Require Import List Bool Arith Lia.
From Piko Require Import Stream.WsConn Stream.CopyPair StreamP.WsConnP.
Import ListNotations.
Set Implicit Arguments.

Section CopyPairP.
Variable A : Type.
Implicit Types (s : state A) (a : act A) (p : phase A) (src dst : endp A).

Inductive reachable : state A -> Prop :=
| reach_init : reachable (init A)
| reach_step s a s' : reachable s -> step s a = Some s' -> reachable s'.

Lemma run_reachable acts s s' : reachable s -> run s acts = Some s' -> reachable s'.
Proof.
  revert s. induction acts as [|a acts IH]; intros s Hr; cbn [run].
  - intros E; inversion E; subst; exact Hr.
  - destruct (step s a) as [s1|] eqn:E; [|discriminate]. apply IH. eapply reach_step; eauto.
Qed.

(* ------------------------------------------------------------------ one copier move *)
Lemma copier_step_spec p src dst k w p' src' dst' :
  copier_step p src dst k w = Some (p', src', dst') ->
  3 * length (e_in src') + phase_weight p' < 3 * length (e_in src) + phase_weight p
  /\ e_in dst' = e_in dst
  /\ e_rclosed src' = e_rclosed src /\ e_rclosed dst' = e_rclosed dst
  /\ e_lclosed src' = e_lclosed src
  /\ (e_lclosed dst = true -> e_lclosed dst' = true)
  /\ (p' = Done -> e_lclosed dst' = true)
  /\ e_recv src' = e_recv src /\ e_recv dst' = e_recv dst /\ e_out src' = e_out src.
Proof.
  unfold copier_step. destruct p as [|d| |].
  - destruct (e_lclosed src) eqn:Hl.
    + intros H; inversion H; subst. cbn. repeat split; auto; try lia; try discriminate.
    + destruct (e_in src) as [|x l] eqn:Hin.
      * destruct (e_rclosed src) eqn:Hrc; [|discriminate].
        intros H; inversion H; subst. rewrite Hin. cbn. repeat split; auto; try lia; try discriminate.
      * intros H; inversion H; subst; clear H. cbn [e_in e_out e_recv e_rclosed e_lclosed phase_weight].
        assert (Hk : 1 <= clamp k 1 (length (x :: l)) /\ clamp k 1 (length (x :: l)) <= length (x :: l))
          by (apply clamp_bounds; cbn; lia).
        rewrite skipn_length. repeat split; auto; try lia; try discriminate; try (cbn [length] in *; lia).
  - destruct (e_lclosed dst) eqn:Hl.
    + intros H; inversion H; subst. cbn. repeat split; auto; try lia; try discriminate.
    + destruct (e_rclosed dst && w).
      * intros H; inversion H; subst. cbn. repeat split; auto; try lia; try discriminate.
      * intros H; inversion H; subst. cbn. repeat split; auto; try lia; try discriminate.
  - intros H; inversion H; subst. cbn. repeat split; auto; try lia.
  - discriminate.
Qed.

(* whether a copier can move does not depend on the oracles *)
Lemma copier_step_enabled p src dst k w k' w' :
  copier_step p src dst k w = None -> copier_step p src dst k' w' = None.
Proof.
  unfold copier_step. destruct p as [|d| |]; auto.
  - destruct (e_lclosed src); [discriminate|]. destruct (e_in src); [|discriminate].
    destruct (e_rclosed src); [discriminate|auto].
  - destruct (e_lclosed dst); [discriminate|]. destruct (e_rclosed dst && w); discriminate.
Qed.

Lemma stuck_spec s : stuck s = true -> forall a, is_copier a = true -> step s a = None.
Proof.
  unfold stuck. intros H a Ha. destruct a as [c k w| | |]; try discriminate.
  destruct (step s (ACopier X 1 false)) eqn:EX; [discriminate|].
  destruct (step s (ACopier Y 1 false)) eqn:EY; [discriminate|].
  destruct c; cbn [step] in *.
  - destruct (copier_step (ta s) (cx s) (cy s) 1 false) as [[[? ?] ?]|] eqn:E1; [discriminate|].
    rewrite (copier_step_enabled _ _ _ _ _ k w E1). reflexivity.
  - destruct (copier_step (tb s) (cy s) (cx s) 1 false) as [[[? ?] ?]|] eqn:E1; [discriminate|].
    rewrite (copier_step_enabled _ _ _ _ _ k w E1). reflexivity.
Qed.

(* ------------------------------------------------------------------ measure *)
Lemma step_copier_measure s c k w s' :
  step s (ACopier c k w) = Some s' -> measure s' < measure s.
Proof.
  destruct c; cbn [step].
  - destruct (copier_step (ta s) (cx s) (cy s) k w) as [[[p x] y]|] eqn:E; [|discriminate].
    intros H; inversion H; subst; clear H. apply copier_step_spec in E.
    destruct E as (Hm & Hin & _). unfold measure; cbn [cx cy ta tb]. rewrite Hin. lia.
  - destruct (copier_step (tb s) (cy s) (cx s) k w) as [[[p y] x]|] eqn:E; [|discriminate].
    intros H; inversion H; subst; clear H. apply copier_step_spec in E.
    destruct E as (Hm & Hin & _). unfold measure; cbn [cx cy ta tb]. rewrite Hin. lia.
Qed.

Lemma step_measure s a s' :
  step s a = Some s' ->
  (if is_copier a then 1 else 0) + measure s' <= measure s + 3 * env_bytes [a].
Proof.
  destruct a as [c k w|c d|c|c].
  - intros H. apply step_copier_measure in H. cbn [is_copier env_bytes]. lia.
  - cbn [step]. destruct d as [|x d]; [discriminate|]. destruct (e_rclosed (get s c)); [discriminate|].
    intros H; inversion H; subst; clear H.
    destruct c; unfold measure, set, get; cbn [cx cy ta tb e_in env_bytes is_copier];
      rewrite app_length; cbn [length]; lia.
  - cbn [step]. destruct (e_rclosed (get s c)); [discriminate|].
    intros H; inversion H; subst; clear H.
    destruct c; unfold measure, set, get; cbn; lia.
  - cbn [step]. intros H; inversion H; subst; clear H.
    destruct c; unfold measure, set, get; cbn; lia.
Qed.

Lemma env_bytes_cons a acts : env_bytes (a :: acts) = env_bytes [a] + env_bytes acts.
Proof. destruct a; cbn; lia. Qed.

(* every run is bounded: each copier move costs one unit of the measure, only bytes sent by the
   environment add to it *)
Lemma run_measure acts s s' :
  run s acts = Some s' -> count_copier acts + measure s' <= measure s + 3 * env_bytes acts.
Proof.
  revert s. induction acts as [|a acts IH]; intros s; cbn [run].
  - intros H; inversion H; subst. cbn. lia.
  - destruct (step s a) as [s1|] eqn:E; [|discriminate]. intros H.
    apply IH in H. apply step_measure in E. rewrite env_bytes_cons.
    unfold count_copier in *. cbn [filter]. destruct (is_copier a); cbn [length] in *; lia.
Qed.

(* ------------------------------------------------------------------ invariants *)
Definition cinv s : Prop :=
  (ta s = Done -> e_lclosed (cy s) = true) /\ (tb s = Done -> e_lclosed (cx s) = true).

Definition close_started s : bool :=
  e_rclosed (cx s) || e_rclosed (cy s) || e_lclosed (cx s) || e_lclosed (cy s).

Lemma init_cinv : cinv (init A).
Proof. split; discriminate. Qed.

Lemma step_cinv s a s' : cinv s -> step s a = Some s' -> cinv s'.
Proof.
  intros [HA HB]. destruct a as [c k w|c d|c|c]; cbn [step].
  - destruct c.
    + destruct (copier_step (ta s) (cx s) (cy s) k w) as [[[p x] y]|] eqn:E; [|discriminate].
      intros H; inversion H; subst; clear H. apply copier_step_spec in E.
      destruct E as (_ & _ & _ & _ & Hls & Hld & Hdone & _). split; cbn [ta tb cx cy].
      * exact Hdone.
      * intros Hb. rewrite Hls. auto.
    + destruct (copier_step (tb s) (cy s) (cx s) k w) as [[[p y] x]|] eqn:E; [|discriminate].
      intros H; inversion H; subst; clear H. apply copier_step_spec in E.
      destruct E as (_ & _ & _ & _ & Hls & Hld & Hdone & _). split; cbn [ta tb cx cy].
      * intros Ha. rewrite Hls. auto.
      * exact Hdone.
  - destruct d as [|x d]; [discriminate|]. destruct (e_rclosed (get s c)); [discriminate|].
    intros H; inversion H; subst; clear H. destruct c; split; cbn; auto.
  - destruct (e_rclosed (get s c)); [discriminate|].
    intros H; inversion H; subst; clear H. destruct c; split; cbn; auto.
  - intros H; inversion H; subst; clear H. destruct c; split; cbn; auto.
Qed.

Lemma reachable_cinv s : reachable s -> cinv s.
Proof. induction 1; [apply init_cinv|eapply step_cinv; eauto]. Qed.

Lemma or4_mono4 (a b c d d' : bool) :
  a || b || c || d = true -> (d = true -> d' = true) -> a || b || c || d' = true.
Proof. destruct a, b, c; cbn; auto. Qed.

Lemma or4_mono3 (a b c d c' : bool) :
  a || b || c || d = true -> (c = true -> c' = true) -> a || b || c' || d = true.
Proof.
  destruct a, b; cbn; auto. destruct c; cbn; intros H1 H2.
  - rewrite (H2 eq_refl). reflexivity.
  - rewrite H1. apply orb_true_r.
Qed.

Lemma step_close_started s a s' : close_started s = true -> step s a = Some s' -> close_started s' = true.
Proof.
  unfold close_started. intros Hc. destruct a as [c k w|c d|c|c]; cbn [step].
  - destruct c.
    + destruct (copier_step (ta s) (cx s) (cy s) k w) as [[[p x] y]|] eqn:E; [|discriminate].
      intros H; inversion H; subst; clear H. apply copier_step_spec in E.
      destruct E as (_ & _ & Hr1 & Hr2 & Hl1 & Hl2 & _). cbn [cx cy]. rewrite Hr1, Hr2, Hl1.
      eapply or4_mono4; eauto.
    + destruct (copier_step (tb s) (cy s) (cx s) k w) as [[[p y] x]|] eqn:E; [|discriminate].
      intros H; inversion H; subst; clear H. apply copier_step_spec in E.
      destruct E as (_ & _ & Hr1 & Hr2 & Hl1 & Hl2 & _). cbn [cx cy]. rewrite Hr1, Hr2, Hl1.
      eapply or4_mono3; eauto.
  - destruct d as [|x d]; [discriminate|]. destruct (e_rclosed (get s c)) eqn:Er; [discriminate|].
    intros H; inversion H; subst; clear H. destruct c; cbn in *; rewrite Er in Hc; exact Hc.
  - destruct (e_rclosed (get s c)); [discriminate|].
    intros H; inversion H; subst; clear H. destruct c; cbn; rewrite ?orb_true_r; reflexivity.
  - intros H; inversion H; subst; clear H. destruct c; cbn; rewrite ?orb_true_r; reflexivity.
Qed.

Lemma close_act_started s a s' : is_close a = true -> step s a = Some s' -> close_started s' = true.
Proof.
  unfold close_started. destruct a as [c k w|c d|c|c]; try discriminate; intros _; cbn [step].
  - destruct (e_rclosed (get s c)); [discriminate|].
    intros H; inversion H; subst; clear H. destruct c; cbn; rewrite ?orb_true_r; reflexivity.
  - intros H; inversion H; subst; clear H. destruct c; cbn; rewrite ?orb_true_r; reflexivity.
Qed.

Lemma run_cinv acts s s' : cinv s -> run s acts = Some s' -> cinv s'.
Proof.
  revert s. induction acts as [|a acts IH]; intros s Hi; cbn [run].
  - intros H; inversion H; subst; exact Hi.
  - destruct (step s a) as [s1|] eqn:E; [|discriminate]. apply IH. eapply step_cinv; eauto.
Qed.

Lemma run_close_started acts s s' : close_started s = true -> run s acts = Some s' -> close_started s' = true.
Proof.
  revert s. induction acts as [|a acts IH]; intros s Hi; cbn [run].
  - intros H; inversion H; subst; exact Hi.
  - destruct (step s a) as [s1|] eqn:E; [|discriminate]. apply IH. eapply step_close_started; eauto.
Qed.

(* ------------------------------------------------------------------ progress: no deadlock short of the final state *)
Lemma stuck_final s : cinv s -> close_started s = true -> stuck s = true -> final s = true.
Proof.
  intros [HA HB] Hc Hs. unfold stuck in Hs. cbn [step] in Hs.
  destruct (copier_step (ta s) (cx s) (cy s) 1 false) as [[[? ?] ?]|] eqn:EA; [discriminate|].
  destruct (copier_step (tb s) (cy s) (cx s) 1 false) as [[[? ?] ?]|] eqn:EB; [discriminate|].
  unfold copier_step in EA, EB. unfold final, close_started in *.
  destruct (ta s) as [|da| |] eqn:Ta; destruct (tb s) as [|db| |] eqn:Tb;
    try discriminate;
    try (destruct (e_lclosed (cy s)); [discriminate|]; destruct (e_rclosed (cy s) && false); discriminate);
    try (destruct (e_lclosed (cx s)); [discriminate|]; destruct (e_rclosed (cx s) && false); discriminate).
  - (* both blocked in Read *)
    destruct (e_lclosed (cx s)); [discriminate|]. destruct (e_in (cx s)); [|discriminate].
    destruct (e_rclosed (cx s)); [discriminate|].
    destruct (e_lclosed (cy s)); [discriminate|]. destruct (e_in (cy s)); [|discriminate].
    destruct (e_rclosed (cy s)); [discriminate|]. discriminate.
  - (* A blocked in Read, B done: X is closed locally, so A's Read fails: contradiction *)
    rewrite (HB eq_refl) in EA. discriminate.
  - (* B blocked in Read, A done *)
    rewrite (HA eq_refl) in EB. discriminate.
  - rewrite (HA eq_refl), (HB eq_refl). reflexivity.
Qed.

(* ------------------------------------------------------------------ a maximal run exists *)
Lemma maximal_run_exists m : forall s, measure s <= m ->
  exists acts s', Forall (fun a => is_copier a = true) acts /\ run s acts = Some s' /\ stuck s' = true.
Proof.
  induction m as [|m IH]; intros s Hm.
  - exists [], s. split; [constructor|]. split; [reflexivity|].
    unfold stuck.
    destruct (step s (ACopier X 1 false)) as [s1|] eqn:E1.
    { apply step_copier_measure in E1. lia. }
    destruct (step s (ACopier Y 1 false)) as [s1|] eqn:E2.
    { apply step_copier_measure in E2. lia. }
    reflexivity.
  - destruct (step s (ACopier X 1 false)) as [s1|] eqn:E1.
    { pose proof (step_copier_measure _ _ _ _ E1) as Hlt.
      destruct (IH s1 ltac:(lia)) as (acts & s' & Hall & Hrun & Hst).
      exists (ACopier X 1 false :: acts), s'. split; [constructor; auto|].
      split; [cbn [run]; rewrite E1; exact Hrun|exact Hst]. }
    destruct (step s (ACopier Y 1 false)) as [s1|] eqn:E2.
    { pose proof (step_copier_measure _ _ _ _ E2) as Hlt.
      destruct (IH s1 ltac:(lia)) as (acts & s' & Hall & Hrun & Hst).
      exists (ACopier Y 1 false :: acts), s'. split; [constructor; auto|].
      split; [cbn [run]; rewrite E2; exact Hrun|exact Hst]. }
    exists [], s. split; [constructor|]. split; [reflexivity|].
    unfold stuck. rewrite E1, E2. reflexivity.
Qed.

(* ------------------------------------------------------------------ main statement *)
Theorem close_propagates s a s1 :
  reachable s -> is_close a = true -> step s a = Some s1 ->
  (* termination: in every continuation the number of copier moves is bounded by the measure of s1
     plus three per byte the peers still send *)
  (forall acts s2, run s1 acts = Some s2 -> count_copier acts + measure s2 <= measure s1 + 3 * env_bytes acts)
  (* every maximal continuation (no copier can move any more), whatever the peers do meanwhile, ends
     with both goroutines finished and both connections closed *)
  /\ (forall acts s2, run s1 acts = Some s2 -> stuck s2 = true -> final s2 = true)
  (* and such a continuation exists using copier moves only *)
  /\ (exists acts s2, Forall (fun a => is_copier a = true) acts /\ run s1 acts = Some s2
                      /\ stuck s2 = true /\ final s2 = true).
Proof.
  intros Hr Hc Hs.
  assert (Hi1 : cinv s1) by (eapply step_cinv; [apply reachable_cinv; exact Hr|exact Hs]).
  assert (Hc1 : close_started s1 = true) by (eapply close_act_started; eauto).
  assert (Hfin : forall acts s2, run s1 acts = Some s2 -> stuck s2 = true -> final s2 = true).
  { intros acts s2 Hrun Hst. apply stuck_final; auto.
    - eapply run_cinv; eauto.
    - eapply run_close_started; eauto. }
  split; [|split].
  - intros acts s2 Hrun. apply run_measure; exact Hrun.
  - exact Hfin.
  - destruct (maximal_run_exists (m := measure s1) s1 (le_n _)) as (acts & s2 & Hall & Hrun & Hst).
    exists acts, s2. repeat split; auto. eapply Hfin; eauto.
Qed.

(* ------------------------------------------------------------------ the pair preserves both byte streams *)
Definition is_prefix (l1 l2 : list A) : Prop := exists rest, l2 = l1 ++ rest.

(* what copier [p] (reading src, writing dst) has achieved: while it runs nothing is lost *)
Definition dir_ok p src dst : Prop :=
  match p with
  | Reading => e_recv src = e_out dst ++ e_in src
  | Writing d => e_recv src = e_out dst ++ d ++ e_in src
  | _ => is_prefix (e_out dst) (e_recv src)
  end.

Definition sinv s : Prop := dir_ok (ta s) (cx s) (cy s) /\ dir_ok (tb s) (cy s) (cx s).

Lemma dir_ok_prefix p src dst : dir_ok p src dst -> is_prefix (e_out dst) (e_recv src).
Proof.
  destruct p; cbn; auto; intros H; rewrite H; eexists; reflexivity.
Qed.

Lemma copier_step_dir p src dst k w p' src' dst' :
  copier_step p src dst k w = Some (p', src', dst') -> dir_ok p src dst -> dir_ok p' src' dst'.
Proof.
  unfold copier_step. destruct p as [|d| |].
  - destruct (e_lclosed src).
    + intros H; inversion H; subst. intros Hd. cbn in *. rewrite Hd. eexists; reflexivity.
    + destruct (e_in src) as [|x l] eqn:Hin.
      * destruct (e_rclosed src); [|discriminate].
        intros H; inversion H; subst. intros Hd. cbn in *. rewrite Hd. eexists; reflexivity.
      * intros H; inversion H; subst; clear H. cbn. intros Hd. rewrite firstn_skipn, Hd, Hin. reflexivity.
  - destruct (e_lclosed dst).
    + intros H; inversion H; subst. intros Hd. cbn in *. rewrite Hd. eexists; reflexivity.
    + destruct (e_rclosed dst && w).
      * intros H; inversion H; subst. intros Hd. cbn in *. rewrite Hd. eexists; reflexivity.
      * intros H; inversion H; subst. cbn. intros Hd. rewrite Hd, app_assoc. reflexivity.
  - intros H; inversion H; subst. cbn. auto.
  - discriminate.
Qed.

(* the other copier's move (it reads [dst], writes [src]) does not disturb this direction *)
Lemma copier_step_other p q src dst k w q' dst' src' :
  copier_step q dst src k w = Some (q', dst', src') -> dir_ok p src dst -> dir_ok p src' dst'.
Proof.
  intros H. apply copier_step_spec in H.
  destruct H as (_ & Hin & _ & _ & _ & _ & _ & Hrd & Hrs & Hod).
  unfold dir_ok. rewrite Hin, Hrs, Hod. auto.
Qed.

Lemma step_sinv s a s' : sinv s -> step s a = Some s' -> sinv s'.
Proof.
  intros [HA HB]. destruct a as [c k w|c d|c|c]; cbn [step].
  - destruct c.
    + destruct (copier_step (ta s) (cx s) (cy s) k w) as [[[p x] y]|] eqn:E; [|discriminate].
      intros H; inversion H; subst; clear H. split; cbn [ta tb cx cy].
      * eapply copier_step_dir; eauto.
      * eapply copier_step_other; eauto.
    + destruct (copier_step (tb s) (cy s) (cx s) k w) as [[[p y] x]|] eqn:E; [|discriminate].
      intros H; inversion H; subst; clear H. split; cbn [ta tb cx cy].
      * eapply copier_step_other; eauto.
      * eapply copier_step_dir; eauto.
  - destruct d as [|x d]; [discriminate|]. destruct (e_rclosed (get s c)); [discriminate|].
    intros H; inversion H; subst; clear H. unfold sinv, dir_ok, is_prefix in *.
    destruct c; cbn [set get ta tb cx cy e_in e_out e_recv]; split; auto.
    + destruct (ta s); try (rewrite HA, <- ?app_assoc; reflexivity).
      * destruct HA as [rest HA]. rewrite HA. exists (rest ++ x :: d). rewrite app_assoc. reflexivity.
      * destruct HA as [rest HA]. rewrite HA. exists (rest ++ x :: d). rewrite app_assoc. reflexivity.
    + destruct (tb s); try (rewrite HB, <- ?app_assoc; reflexivity).
      * destruct HB as [rest HB]. rewrite HB. exists (rest ++ x :: d). rewrite app_assoc. reflexivity.
      * destruct HB as [rest HB]. rewrite HB. exists (rest ++ x :: d). rewrite app_assoc. reflexivity.
  - destruct (e_rclosed (get s c)); [discriminate|].
    intros H; inversion H; subst; clear H. destruct c; split; cbn; auto.
  - intros H; inversion H; subst; clear H. destruct c; split; cbn; auto.
Qed.

Lemma reachable_sinv s : reachable s -> sinv s.
Proof.
  induction 1.
  - split; reflexivity.
  - eapply step_sinv; eauto.
Qed.

(* both directions at once: whatever the interleaving, each peer receives a prefix of what the other
   peer sent, and while a copier is still in its loop the rest is exactly what it holds or has yet to read *)
Theorem pair_streams s :
  reachable s ->
  is_prefix (e_out (cy s)) (e_recv (cx s)) /\ is_prefix (e_out (cx s)) (e_recv (cy s))
  /\ (ta s = Reading -> e_recv (cx s) = e_out (cy s) ++ e_in (cx s))
  /\ (tb s = Reading -> e_recv (cy s) = e_out (cx s) ++ e_in (cy s)).
Proof.
  intros H. destruct (reachable_sinv H) as [HA HB]. repeat split.
  - eapply dir_ok_prefix; eauto.
  - eapply dir_ok_prefix; eauto.
  - intros E. rewrite E in HA. exact HA.
  - intros E. rewrite E in HB. exact HB.
Qed.

End CopyPairP.
