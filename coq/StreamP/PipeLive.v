(* Liveness of the channel/copier chain (Stream/Pipe.v): from every reachable state the copiers and the sink
   can always make progress, and a schedule exists that delivers everything written and, once the source
   has closed, shows the sink the end of the stream. *)
From Coq Require Import List Bool Arith Lia.
From Piko Require Import Stream.WsConn Stream.Pipe StreamP.WsConnP StreamP.PipeP StreamP.StreamThms.
Import ListNotations.
Set Implicit Arguments.

Section PipeLive.
Variable A : Type.
Implicit Types (c : chan A) (chs : list (chan A)) (s : pstate A).

(* bytes in flight weighted by the number of stages they still have to cross *)
Fixpoint wsum chs : nat :=
  match chs with
  | [] => 0
  | c :: rest => length chs * length (pend (ch_conn c)) + wsum rest
  end.

(* index of the first channel holding bytes *)
Fixpoint next_idx chs : option nat :=
  match chs with
  | [] => None
  | c :: rest =>
      match pend (ch_conn c) with
      | _ :: _ => Some 0
      | [] => option_map S (next_idx rest)
      end
  end.

(* the move that advances those bytes: the copier after that channel, or the sink for the last one *)
Definition move_at (i : nat) chs : pop A :=
  if Nat.eqb (S i) (length chs) then PRead 1 1 false else PCopy i 1 1 false.

Lemma wsum_cons_empty c rest : pend (ch_conn c) = [] -> wsum (c :: rest) = wsum rest.
Proof. intros H. cbn [wsum]. rewrite H. cbn [length]. rewrite Nat.mul_0_r. reflexivity. Qed.

Lemma next_idx_none chs : next_idx chs = None -> pend_all chs = [].
Proof.
  induction chs as [|c rest IH]; cbn [next_idx pend_all]; [reflexivity|].
  destruct (pend (ch_conn c)) as [|x l] eqn:E; [|discriminate].
  destruct (next_idx rest); [discriminate|]. intros _. rewrite IH by reflexivity. reflexivity.
Qed.

(* a Read with a 1-byte buffer on a well-formed channel holding bytes returns one of them *)
Lemma read_progress (cn : conn A) closed (c' : conn A) (r : rres A) :
  wfc cn closed -> pend cn <> [] -> read cn 1 1 false = (c', r) ->
  r_err r = ENone /\ r_data r <> [] /\ pend cn = r_data r ++ pend c' /\ wfc c' closed.
Proof.
  intros Hwf Hne E. pose proof (read_pend _ _ _ _ E) as Hp.
  destruct (read_wf _ _ _ Hwf E) as (Hwf' & Hcls & _ & Hnz & Hc & Hb).
  destruct Hcls as [Er|[Er|Er]].
  - split; [exact Er|]. split; [apply Hnz; [exact Er|lia]|]. split; [exact Hp|exact Hwf'].
  - destruct (Hc Er) as (_ & HP & _). congruence.
  - destruct (Hb Er) as (_ & HP & _). congruence.
Qed.

Lemma copy_at_length i chs n k e : length (copy_at i chs n k e) = length chs.
Proof.
  revert chs. induction i as [|i IH]; intros chs.
  - destruct chs as [|a [|b rest]]; cbn [copy_at]; auto.
    destruct (copy_step a b n k e). reflexivity.
  - destruct chs as [|a rest]; cbn [copy_at]; auto. cbn [length]. rewrite IH. reflexivity.
Qed.

Lemma read_last_length chs n k e : chs <> [] -> length (fst (read_last chs n k e)) = length chs.
Proof.
  induction chs as [|a rest IH]; [congruence|]. intros _.
  destruct rest as [|b rest'].
  - cbn [read_last]. destruct (read (ch_conn a) n k e). reflexivity.
  - rewrite read_last_cons. specialize (IH ltac:(discriminate)).
    destruct (read_last (b :: rest') n k e) as [r' x]. cbn [fst length] in *. rewrite IH. reflexivity.
Qed.

(* the chosen move strictly decreases the weighted sum *)
Lemma move_progress chs i :
  Forall (@wfch A) chs -> chain_ok chs -> next_idx chs = Some i ->
  (S i < length chs /\ wsum (copy_at i chs 1 1 false) < wsum chs)
  \/ (S i = length chs /\ wsum (fst (read_last chs 1 1 false)) < wsum chs
      /\ r_err (snd (read_last chs 1 1 false)) = ENone).
Proof.
  revert i. induction chs as [|c rest IH]; intros i Hwf Hch; cbn [next_idx]; [discriminate|].
  inversion Hwf as [|? ? Hwc Hwf1]; subst.
  destruct (pend (ch_conn c)) as [|x l] eqn:Ep.
  - (* this channel is empty: the move is further down *)
    destruct (next_idx rest) as [j|] eqn:Ej; [|discriminate]. cbn [option_map]. intros H; inversion H; subst i.
    assert (Hch1 : chain_ok rest) by (cbn [chain_ok] in Hch; destruct rest; [exact I|tauto]).
    destruct (IH j Hwf1 Hch1 eq_refl) as [[Hlt Hw]|(Heq & Hw & Her)].
    + left. split; [cbn [length]; lia|]. cbn [copy_at]. rewrite !(wsum_cons_empty _ _ Ep). exact Hw.
    + right. destruct rest as [|d rest']; [discriminate|].
      rewrite read_last_cons. destruct (read_last (d :: rest') 1 1 false) as [rest1 r1] eqn:Er.
      cbn [fst snd] in *. split; [cbn [length] in *; lia|]. split; [|exact Her].
      rewrite !(wsum_cons_empty _ _ Ep). exact Hw.
  - intros H; inversion H; subst i.
    assert (Hne : pend (ch_conn c) <> []) by (rewrite Ep; discriminate).
    destruct rest as [|d rest'].
    + (* the sink reads *)
      right. split; [reflexivity|]. cbn [read_last].
      destruct (read (ch_conn c) 1 1 false) as [c' r] eqn:E.
      destruct (read_progress Hwc Hne E) as (Her & Hd & Hp & _). cbn [fst snd]. split; [|exact Her].
      cbn [wsum length ch_conn]. rewrite Hp, app_length. destruct (r_data r); [congruence|]. cbn [length]. lia.
    + (* copier 0 moves at least one byte one stage on *)
      left. split; [cbn [length]; lia|]. cbn [copy_at]. unfold copy_step.
      inversion Hwf1 as [|? ? Hwd _]; subst.
      cbn [chain_ok] in Hch. destruct Hch as [Hcd _].
      destruct (ch_closed d) eqn:Hdc.
      { destruct (Hcd eq_refl) as [_ Hp0]. congruence. }
      destruct (read (ch_conn c) 1 1 false) as [c' r] eqn:E.
      destruct (read_progress Hwc Hne E) as (Her & Hd & Hp & _). rewrite Her.
      destruct (r_data r) as [|y dl] eqn:Ed; [congruence|].
      destruct (ch_write_open d (y :: dl) Hdc) as (_ & Hpw & _).
      cbn [wsum length ch_conn]. rewrite Hpw, Hp, !app_length. cbn [length]. lia.
Qed.

Lemma move_step s i :
  pinv s -> next_idx (p_chs s) = Some i ->
  wsum (p_chs (pstep s (move_at i (p_chs s)))) < wsum (p_chs s)
  /\ p_written (pstep s (move_at i (p_chs s))) = p_written s.
Proof.
  intros Hi Hn. destruct Hi as [Hne Hwf Hch _ _ _ _].
  unfold move_at. destruct (move_progress Hwf Hch Hn) as [[Hlt Hw]|(Heq & Hw & Her)].
  - replace (Nat.eqb (S i) (length (p_chs s))) with false by (symmetry; apply Nat.eqb_neq; lia).
    cbn [pstep p_chs p_written]. auto.
  - replace (Nat.eqb (S i) (length (p_chs s))) with true by (symmetry; apply Nat.eqb_eq; exact Heq).
    cbn [pstep]. destruct (read_last (p_chs s) 1 1 false) as [chs' r]. cbn [fst snd] in *.
    rewrite Her. cbn [p_chs p_written]. auto.
Qed.

(* copier iterations and sink reads with non-empty buffers: what the tunnel does on its own *)
Definition is_move (o : pop A) : Prop :=
  match o with PCopy _ n _ _ => 0 < n | PRead n _ _ => 0 < n | _ => False end.

Lemma move_at_is_move i chs : is_move (move_at i chs).
Proof. unfold move_at. destruct (Nat.eqb (S i) (length chs)); cbn; lia. Qed.

(* everything in flight can be delivered *)
Lemma drain_exists m : forall s, pinv s -> wsum (p_chs s) <= m ->
  exists ops, pend_all (p_chs (prun s ops)) = [] /\ p_written (prun s ops) = p_written s
              /\ head_closed (p_chs (prun s ops)) = head_closed (p_chs s)
              /\ Forall is_move ops.
Proof.
  induction m as [|m IH]; intros s Hi Hm.
  - destruct (next_idx (p_chs s)) as [i|] eqn:E.
    + destruct (move_step Hi E). lia.
    + exists []. cbn. repeat split; auto. apply next_idx_none; exact E.
  - destruct (next_idx (p_chs s)) as [i|] eqn:E.
    + destruct (move_step Hi E) as [Hlt Hw].
      set (o := move_at i (p_chs s)) in *.
      assert (Hhc : head_closed (p_chs (pstep s o)) = head_closed (p_chs s)).
      { rewrite (pstep_head_closed o Hi). unfold o, move_at.
        destruct (Nat.eqb (S i) (length (p_chs s))); reflexivity. }
      destruct (IH (pstep s o) (pstep_inv o Hi) ltac:(lia)) as (ops & H1 & H2 & H3 & H4).
      exists (o :: ops). cbn [prun fold_left]. change (fold_left (@pstep A) ops (pstep s o)) with (prun (pstep s o) ops).
      repeat split; auto; try congruence.
      constructor; auto. apply move_at_is_move.
    + exists []. cbn. repeat split; auto. apply next_idx_none; exact E.
Qed.

(* ------------------------------------------------------------------ the close travels down the chain *)
Fixpoint count_open chs : nat :=
  match chs with
  | [] => 0
  | c :: rest => (if ch_closed c then 0 else 1) + count_open rest
  end.

(* the copier whose source is closed while its destination is still open *)
Fixpoint close_idx chs : option nat :=
  match chs with
  | [] => None
  | c :: rest =>
      match rest with
      | [] => None
      | d :: _ => if ch_closed d then option_map S (close_idx rest) else Some 0
      end
  end.

Lemma close_idx_cons c d rest :
  close_idx (c :: d :: rest) = if ch_closed d then option_map S (close_idx (d :: rest)) else Some 0.
Proof. reflexivity. Qed.

Lemma close_idx_none chs : head_closed chs = true -> close_idx chs = None -> all_closed chs.
Proof.
  induction chs as [|c rest IH]; intros Hh Hn; [constructor|].
  cbn [head_closed] in Hh. constructor; [exact Hh|].
  destruct rest as [|d rest']; [constructor|].
  rewrite close_idx_cons in Hn. destruct (ch_closed d) eqn:Hd; [|discriminate].
  apply IH; [exact Hd|]. destruct (close_idx (d :: rest')); [discriminate|reflexivity].
Qed.

Lemma pend_all_nil_cons c rest : pend_all (c :: rest) = [] -> pend (ch_conn c) = [] /\ pend_all rest = [].
Proof. cbn [pend_all]. intros H. apply app_eq_nil in H. tauto. Qed.

Lemma close_progress chs i :
  Forall (@wfch A) chs -> pend_all chs = [] -> head_closed chs = true -> close_idx chs = Some i ->
  count_open (copy_at i chs 1 1 false) < count_open chs.
Proof.
  revert i. induction chs as [|c rest IH]; intros i Hwf Hp Hh; cbn [close_idx]; [discriminate|].
  destruct rest as [|d rest']; [discriminate|].
  inversion Hwf as [|? ? Hwc Hwf1]; subst.
  destruct (pend_all_nil_cons _ _ Hp) as [Hpc Hpr]. cbn [head_closed] in Hh.
  destruct (ch_closed d) eqn:Hd.
  - destruct (close_idx (d :: rest')) as [j|] eqn:Ej; [|discriminate]. cbn [option_map].
    intros H; inversion H; subst i.
    change (copy_at (S j) (c :: d :: rest') 1 1 false) with (c :: copy_at j (d :: rest') 1 1 false).
    specialize (IH j Hwf1 Hpr Hd eq_refl).
    change (count_open (c :: copy_at j (d :: rest') 1 1 false))
      with ((if ch_closed c then 0 else 1) + count_open (copy_at j (d :: rest') 1 1 false)).
    change (count_open (c :: d :: rest')) with ((if ch_closed c then 0 else 1) + count_open (d :: rest')).
    lia.
  - intros H; inversion H; subst i. cbn [copy_at]. unfold copy_step. rewrite Hd.
    destruct (read (ch_conn c) 1 1 false) as [c' r] eqn:E.
    assert (Hwc' : wfc (ch_conn c) true) by (unfold wfch in Hwc; rewrite Hh in Hwc; exact Hwc).
    destruct (read_closed_iff _ _ Hwc' (le_n 1) E) as [Hiff _].
    rewrite (proj2 Hiff Hpc).
    assert (Hcl : ch_closed (ch_close (match r_data r with [] => d | _ :: _ => ch_write d (r_data r) end)) = true)
      by apply ch_close_spec.
    cbn [count_open ch_closed]. rewrite Hcl, Hh, Hd. lia.
Qed.

Lemma close_exists m : forall s, pinv s -> count_open (p_chs s) <= m ->
  pend_all (p_chs s) = [] -> head_closed (p_chs s) = true ->
  exists ops, all_closed (p_chs (prun s ops)) /\ pend_all (p_chs (prun s ops)) = []
              /\ p_written (prun s ops) = p_written s /\ Forall is_move ops.
Proof.
  induction m as [|m IH]; intros s Hi Hm Hp Hh.
  - destruct (close_idx (p_chs s)) as [i|] eqn:E.
    + pose proof (close_progress (inv_wf Hi) Hp Hh E). lia.
    + exists []. cbn. repeat split; auto. apply close_idx_none; auto.
  - destruct (close_idx (p_chs s)) as [i|] eqn:E.
    + pose proof (close_progress (inv_wf Hi) Hp Hh E) as Hlt.
      set (o := PCopy i 1 1 false : pop A).
      destruct (copy_at_spec i 1 1 false (inv_wf Hi) (inv_chain Hi)) as (_ & _ & Cp & _ & Chd & _ & _).
      destruct (IH (pstep s o) (pstep_inv o Hi)) as (ops & H1 & H2 & H3 & H4).
      * unfold o. cbn [pstep p_chs]. lia.
      * unfold o. cbn [pstep p_chs]. rewrite Cp. exact Hp.
      * unfold o. cbn [pstep p_chs]. rewrite Chd. exact Hh.
      * exists (o :: ops). cbn [prun fold_left].
        change (fold_left (@pstep A) ops (pstep s o)) with (prun (pstep s o) ops).
        repeat split; auto. constructor; auto. cbn. lia.
    + exists []. cbn. repeat split; auto. apply close_idx_none; auto.
Qed.

Lemma read_last_closed chs :
  chs <> [] -> Forall (@wfch A) chs -> all_closed chs -> pend_all chs = [] ->
  r_err (snd (read_last chs 1 1 false)) = EClosed.
Proof.
  induction chs as [|c rest IH]; intros Hne Hwf Hall Hp; [congruence|].
  inversion Hwf as [|? ? Hwc Hwf1]; subst. inversion Hall as [|? ? Hcc Hall1]; subst.
  destruct (pend_all_nil_cons _ _ Hp) as [Hpc Hpr].
  destruct rest as [|d rest'].
  - cbn [read_last]. destruct (read (ch_conn c) 1 1 false) as [c' r] eqn:E. cbn [snd].
    assert (Hwc' : wfc (ch_conn c) true) by (unfold wfch in Hwc; rewrite Hcc in Hwc; exact Hwc).
    destruct (read_closed_iff _ _ Hwc' (le_n 1) E) as [Hiff _]. apply Hiff. exact Hpc.
  - rewrite read_last_cons. specialize (IH ltac:(discriminate) Hwf1 Hall1 Hpr).
    destruct (read_last (d :: rest') 1 1 false) as [rest1 r1]. exact IH.
Qed.

(* ------------------------------------------------------------------ main statement *)
Theorem pipeline_live hops (ops : list (pop A)) :
  let s := prun (pinit A hops) ops in
  exists more,
    Forall is_move more
    /\ p_delivered (prun s more) = accepted ops
    /\ (head_closed (p_chs s) = true -> Exists (@is_closed_err A) (p_outs (prun s more))).
Proof.
  intros s.
  assert (Hi : pinv s) by (apply prun_inv, pinit_inv).
  assert (Hw : p_written s = accepted ops) by (apply (pipeline_stream hops ops)).
  destruct (drain_exists Hi (le_n _)) as (ops1 & D1 & D2 & D3 & D4).
  set (s1 := prun s ops1) in *.
  assert (Hi1 : pinv s1) by (apply prun_inv; exact Hi).
  assert (Hdel : forall s', pinv s' -> pend_all (p_chs s') = [] -> p_written s' = p_written s ->
                            p_delivered s' = accepted ops).
  { intros s' Hi' Hp' Hw'. pose proof (inv_bytes Hi') as Hb. rewrite Hp', app_nil_r in Hb. congruence. }
  destruct (head_closed (p_chs s)) eqn:Hh.
  - destruct (close_exists Hi1 (le_n _) D1 ltac:(congruence)) as (ops2 & C1 & C2 & C3 & C4).
    set (s2 := prun s1 ops2) in *.
    assert (Hi2 : pinv s2) by (apply prun_inv; exact Hi1).
    exists (ops1 ++ ops2 ++ [PRead 1 1 false]).
    unfold prun. rewrite !fold_left_app. fold (prun s ops1). fold s1. fold (prun s1 ops2). fold s2.
    cbn [fold_left].
    pose proof (read_last_closed (inv_ne Hi2) (inv_wf Hi2) C1 C2) as Hcl.
    assert (Hi3 : pinv (pstep s2 (PRead 1 1 false))) by (apply pstep_inv; exact Hi2).
    assert (Hex : Exists (@is_closed_err A) (p_outs (pstep s2 (PRead 1 1 false)))).
    { cbn [pstep]. destruct (read_last (p_chs s2) 1 1 false) as [chs' r]. cbn [snd] in Hcl.
      rewrite Hcl. cbn [p_outs]. constructor. exact Hcl. }
    split; [|split].
    + apply Forall_app. split; [exact D4|]. apply Forall_app. split; [exact C4|]. constructor; [cbn; lia|constructor].
    + destruct (inv_eof Hi3 Hex) as [_ Hp3]. apply Hdel; auto.
      rewrite pstep_written. congruence.
    + intros _. exact Hex.
  - exists ops1. fold s1. split; [exact D4|]. split; [|discriminate]. apply Hdel; auto.
Qed.

End PipeLive.
