(* The statements quoted by Properties/C07.v, assembled from WsConnP / PipeP / CopyPairP. *)
From Coq Require Import List Bool Arith Lia.
From Piko Require Import Stream.WsConn Stream.Pipe Stream.CopyPair
                         StreamP.WsConnP StreamP.PipeP StreamP.CopyPairP.
Import ListNotations.
Set Implicit Arguments.

Section StreamThms.
Variable A : Type.

Definition pos_buf (x : nat * nat * bool) : Prop := 0 < fst (fst x).
Definition closed_res (o : rres A) : Prop := r_err o = EClosed.

(* the reading side of a connection on which the peer sent the binary messages [msgs] and then closed *)
Definition closed_conn (msgs : list (list A)) : conn A := mkConn None (map (@Bin A) msgs ++ [CloseFrame]).

Lemma closed_conn_wf msgs : wfc (closed_conn msgs) true /\ pend (closed_conn msgs) = concat msgs.
Proof.
  split.
  - split; [left; reflexivity|]. exists msgs. reflexivity.
  - apply (@pend_wf_none A (closed_conn msgs) true msgs); reflexivity.
Qed.

(* with more reads than bytes everything is delivered and the close is seen *)
Lemma run_reads_complete (c : conn A) rs :
  wfc c true -> Forall pos_buf rs -> length (pend c) < length rs ->
  pend (snd (run_reads c rs)) = [] /\ Exists closed_res (fst (run_reads c rs)).
Proof.
  revert c. induction rs as [|[[n k] e] rs IH]; intros c Hwf Hpos Hlen; [cbn in Hlen; lia|].
  inversion Hpos as [|? ? Hn Hpos']; subst. unfold pos_buf in Hn; cbn in Hn.
  pose proof (run_reads_pend c ((n, k, e) :: rs)) as Hall.
  cbn [run_reads] in *. destruct (read c n k e) as [c' r] eqn:E.
  pose proof (read_pend _ _ _ _ E) as Hp.
  pose proof (read_closed_iff _ _ Hwf Hn E) as [Hcl Hno].
  pose proof (read_wf _ _ _ Hwf E) as (Hwf' & _ & _ & Hnz & _ & _).
  specialize (IH c' Hwf' Hpos').
  destruct (run_reads c' rs) as [outs c''] eqn:Er. cbn [fst snd] in *.
  destruct (pend c) as [|x p] eqn:Epc.
  - split.
    + symmetry in Hall. apply app_eq_nil in Hall. tauto.
    + constructor. apply Hcl. reflexivity.
  - assert (Hne : r_err r = ENone) by (apply Hno; discriminate).
    specialize (Hnz Hne Hn).
    assert (Hlt : length (pend c') < length rs).
    { assert (length (x :: p) = length (r_data r) + length (pend c')) by (rewrite Hp, app_length; reflexivity).
      destruct (r_data r); [congruence|]. cbn [length] in *. lia. }
    destruct (IH Hlt) as [IH1 IH2]. split; [exact IH1|]. apply Exists_cons_tl. exact IH2.
Qed.

(* ------------------------------------------------------------------ C07_read_stream *)
Theorem read_stream (msgs : list (list A)) (rs : list (nat * nat * bool)) :
  Forall pos_buf rs ->
  let outs := fst (run_reads (closed_conn msgs) rs) in
  let got := concat (map (@r_data A) outs) in
  got = firstn (length got) (concat msgs)
  /\ Forall (fun o => ~ (r_data o = [] /\ r_err o = ENone)) outs
  /\ (forall pre o post, outs = pre ++ o :: post ->
        (r_err o = EClosed <-> concat (map (@r_data A) pre) = concat msgs))
  /\ Forall (fun o => (r_err o = ENone \/ r_err o = EClosed) /\ (r_err o = EClosed -> r_data o = [])) outs
  /\ Forall2 (fun x o => length (r_data o) <= fst (fst x)) rs outs
  /\ (length (concat msgs) < length rs -> got = concat msgs /\ Exists closed_res outs).
Proof.
  intros Hpos outs got. destruct (closed_conn_wf msgs) as [Hwf Hpend].
  pose proof (run_reads_pend (closed_conn msgs) rs) as Hall. fold outs in Hall. fold got in Hall.
  rewrite Hpend in Hall.
  destruct (run_reads_closed_all Hwf Hpos) as [Hf1 Hf2]. fold outs in Hf1, Hf2.
  split; [|split; [|split; [|split; [|split]]]].
  - rewrite Hall, firstn_app, firstn_all, Nat.sub_diag. cbn. rewrite app_nil_r. reflexivity.
  - eapply Forall_impl; [|exact Hf1]. cbn. tauto.
  - intros pre o post Ho. rewrite <- Hpend. eapply run_reads_closed_at; eauto.
  - eapply Forall_impl; [|exact Hf1]. cbn. tauto.
  - exact Hf2.
  - intros Hlen. rewrite <- Hpend in Hlen.
    destruct (run_reads_complete Hwf Hpos Hlen) as [H1 H2]. fold outs in H2. split; [|exact H2].
    rewrite H1, app_nil_r in Hall. symmetry. exact Hall.
Qed.

(* ------------------------------------------------------------------ writes build the inbox *)
Definition conn0 : conn A := mkConn None [].

Lemma fold_write ws (c : conn A) :
  fold_left (@write A) ws c = mkConn (cur c) (inbox c ++ map (@Bin A) ws).
Proof.
  revert c. induction ws as [|w ws IH]; intros c; cbn [fold_left map].
  - rewrite app_nil_r. destruct c; reflexivity.
  - rewrite IH. unfold write; cbn [cur inbox]. rewrite <- app_assoc. reflexivity.
Qed.

Lemma writes_then_close ws : push_close (fold_left (@write A) ws conn0) = closed_conn ws.
Proof. rewrite fold_write. reflexivity. Qed.

(* ------------------------------------------------------------------ what the source managed to write *)
(* the payloads of the writes before the first PClose *)
Fixpoint accepted (ops : list (pop A)) : list A :=
  match ops with
  | [] => []
  | PWrite b :: rest => b ++ accepted rest
  | PClose :: _ => []
  | _ :: rest => accepted rest
  end.

Lemma pstep_head_closed (s : pstate A) o :
  pinv s ->
  head_closed (p_chs (pstep s o)) = match o with PClose => true | _ => head_closed (p_chs s) end.
Proof.
  intros [Hne Hwf Hch _ _ _ _]. destruct o as [b| |i n k e|n k e]; cbn [pstep].
  - destruct (head_closed (p_chs s)) eqn:H; [exact H|]. cbn [p_chs].
    destruct (p_chs s) as [|c rest]; [congruence|]. cbn [on_head head_closed] in *.
    unfold ch_write. rewrite H. reflexivity.
  - cbn [p_chs]. destruct (p_chs s) as [|c rest]; [congruence|]. cbn [on_head head_closed].
    apply ch_close_spec.
  - cbn [p_chs]. apply (copy_at_spec i n k e Hwf Hch).
  - destruct (read_last (p_chs s) n k e) as [chs' r] eqn:E.
    destruct (read_last_spec n k e Hne Hwf Hch E) as (_ & _ & _ & _ & Hh & _).
    destruct (r_err r); cbn [p_chs]; auto.
Qed.

Lemma pstep_written (s : pstate A) o :
  p_written (pstep s o) =
  match o with PWrite b => if head_closed (p_chs s) then p_written s else p_written s ++ b | _ => p_written s end.
Proof.
  destruct o as [b| |i n k e|n k e]; cbn [pstep]; auto.
  - destruct (head_closed (p_chs s)); reflexivity.
  - destruct (read_last (p_chs s) n k e) as [chs' r]. destruct (r_err r); reflexivity.
Qed.

Lemma prun_written ops (s : pstate A) :
  pinv s ->
  p_written (prun s ops) = p_written s ++ (if head_closed (p_chs s) then [] else accepted ops).
Proof.
  revert s. induction ops as [|o ops IH]; intros s Hi; cbn [prun fold_left accepted].
  - destruct (head_closed (p_chs s)); rewrite app_nil_r; reflexivity.
  - change (fold_left (@pstep A) ops (pstep s o)) with (prun (pstep s o) ops).
    rewrite (IH _ (pstep_inv o Hi)), pstep_written, (pstep_head_closed o Hi).
    destruct o as [b| |i n k e|n k e]; destruct (head_closed (p_chs s)); cbn [accepted];
      rewrite ?app_nil_r, ?app_assoc; reflexivity.
Qed.

Lemma pinit_head_open hops : head_closed (p_chs (pinit A hops)) = false.
Proof. reflexivity. Qed.

(* ------------------------------------------------------------------ C07_two_hops / C07_write_read_roundtrip *)
Theorem pipeline_stream hops (ops : list (pop A)) :
  let s := prun (pinit A hops) ops in
  p_written s = accepted ops
  /\ accepted ops = p_delivered s ++ pend_all (p_chs s)
  /\ concat (map (@r_data A) (rev (p_outs s))) = p_delivered s
  /\ Forall (fun o => r_err o = ENone \/ r_err o = EClosed) (p_outs s)
  /\ (Exists (@is_closed_err A) (p_outs s) -> p_delivered s = accepted ops)
  /\ (Forall (@pos_read A) ops -> Forall (@nonzero A) (p_outs s)).
Proof.
  intros s. destruct (pipeline_faithful hops ops) as (H1 & H2 & H3 & H4 & H5). fold s in H1, H2, H3, H4, H5.
  assert (Hw : p_written s = accepted ops).
  { unfold s. rewrite (prun_written ops (pinit_inv A hops)), pinit_head_open. reflexivity. }
  rewrite <- Hw. repeat split; auto.
Qed.

Theorem roundtrip (ws : list (list A)) (rs : list (nat * nat * bool)) :
  Forall pos_buf rs -> length (concat ws) < length rs ->
  let outs := fst (run_reads (push_close (fold_left (@write A) ws conn0)) rs) in
  concat (map (@r_data A) outs) = concat ws /\ Exists closed_res outs.
Proof.
  intros Hpos Hlen. rewrite writes_then_close.
  destruct (read_stream ws Hpos) as (_ & _ & _ & _ & _ & H). exact (H Hlen).
Qed.

End StreamThms.
