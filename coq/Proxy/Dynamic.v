(* The proxy data path over time: upstreams register and deregister BETWEEN requests, listeners announce go-away, and
   the proxies themselves deregister an upstream whose dial answers ErrGone
   (httpproxy.go:143-152 dialUpstream, tcpproxy.go:73-78: `if errors.Is(err, upstream.ErrGone) { RemoveConn(u) }`).
   Models only, no proofs (ProxyP/DynamicP.v).

   The state is the cluster of Proxy/Route.v plus the set of upstream ids that have announced go-away; a request is
   delivered by Route.deliver on the cluster "as the dial sees it" (a go-away upstream refuses the dial) - the servers
   keep nothing else from one request to the next: no pooled connections, no remembered routing decision. *)
From Coq Require Import List String Ascii NArith ZArith Bool Arith.
From Piko Require Import Base.Maps Base.Strs Proxy.Endpoint Proxy.Http Proxy.Route.
Import ListNotations.
Open Scope string_scope. Open Scope list_scope.

Definition set_local (n : node) (m : amap (list upstream)) : node :=
  mkN (n_id n) (n_addr n) (n_timeout n) m (n_view n).

Fixpoint update_nth {A} (i : nat) (f : A -> A) (l : list A) : list A :=
  match l, i with
  | [], _ => []
  | x :: r, O => f x :: r
  | x :: r, S k => x :: update_nth k f r
  end.

(* LoadBalancedManager.RemoveConn (manager.go:137-160): the upstream leaves the balancer of its endpoint; an empty
   balancer is deleted *)
Definition remove_conn (ep uid : string) (m : amap (list upstream)) : amap (list upstream) :=
  match lookup ep m with
  | None => m
  | Some us =>
      match filter (fun u => negb (String.eqb (u_id u) uid)) us with
      | [] => remove ep m
      | us' => insert ep us' m
      end
  end.

Record dstate := mkD { d_c : cluster; d_gone : list string }.

Definition is_gone (gone : list string) (uid : string) : bool := existsb (String.eqb uid) gone.

(* what a dial of the upstream answers: ErrGone once the listener has announced go-away (the proxy maps every dial
   error to 502) *)
Definition mask_up (gone : list string) (u : upstream) : upstream :=
  if is_gone gone (u_id u) then mkU (u_id u) (u_ep u) UDialFail else u.

Definition mask_node (gone : list string) (n : node) : node :=
  set_local n (map (fun kv => (fst kv, map (mask_up gone) (snd kv))) (n_local n)).

Definition as_seen (s : dstate) : cluster := map (mask_node (d_gone s)) (d_c s).

Definition set_beh (uid : string) (b : ubeh) (n : node) : node :=
  set_local n (map (fun kv => (fst kv, map (fun u => if String.eqb (u_id u) uid then mkU (u_id u) (u_ep u) b else u) (snd kv)))
                   (n_local n)).

Inductive dop :=
| DConnect (ni : nat) (u : upstream)            (* upstreamRoute: AddConn *)
| DDisconnect (ni : nat) (ep uid : string)      (* the connection ended: RemoveConn *)
| DGoAway (uid : string)                        (* the listener announced go-away (still connected) *)
| DSetBeh (uid : string) (b : ubeh)             (* environment: a listener starts / stops answering *)
| DRequest (e : env) (entry : nat) (rq : request).

(* the node that dialled an upstream in this delivery *)
Fixpoint dialler (tr : list event) : option nat :=
  match tr with
  | [] => None
  | EDialUp ni _ :: _ => Some ni
  | _ :: r => dialler r
  end.

(* the registry change a delivery itself makes: the dial of a go-away upstream deregisters it on the dialling node *)
Definition after_request (s : dstate) (r : result) : dstate :=
  match res_up r, dialler (res_trace r) with
  | Some u, Some ni =>
      if is_gone (d_gone s) (u_id u)
      then mkD (update_nth ni (fun n => set_local n (remove_conn (u_ep u) (u_id u) (n_local n))) (d_c s)) (d_gone s)
      else s
  | _, _ => s
  end.

Definition dstep (s : dstate) (o : dop) : dstate * option result :=
  match o with
  | DConnect ni u => (mkD (update_nth ni (fun n => set_local n (add_conn u (n_local n))) (d_c s)) (d_gone s), None)
  | DDisconnect ni ep uid =>
      (mkD (update_nth ni (fun n => set_local n (remove_conn ep uid (n_local n))) (d_c s)) (d_gone s), None)
  | DGoAway uid => (mkD (d_c s) (uid :: d_gone s), None)
  | DSetBeh uid b => (mkD (map (set_beh uid b) (d_c s)) (d_gone s), None)
  | DRequest e entry rq =>
      let r := deliver (as_seen s) e entry rq in
      (after_request s r, Some r)
  end.

Fixpoint drun (s : dstate) (ops : list dop) : dstate * list (option result) :=
  match ops with
  | [] => (s, [])
  | o :: r => let '(s1, x) := dstep s o in let '(s2, xs) := drun s1 r in (s2, x :: xs)
  end.

(* is upstream id [uid] registered anywhere *)
Definition registered_anywhere (c : cluster) (uid : string) : bool :=
  existsb (fun n => existsb (fun kv => existsb (fun u => String.eqb (u_id u) uid) (snd kv)) (n_local n)) c.
