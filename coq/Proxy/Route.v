(* Cluster-wide model of piko's proxy data path. Models only, no proofs.

   node        server/proxy.Server + upstream.LoadBalancedManager + cluster.State of one piko server
   select      LoadBalancedManager.Select          server/upstream/manager.go:96-116
   lookup_endpoint  cluster.State.LookupEndpoint   server/cluster/state.go:113-132
   route_of    gin route table                     server/proxy/server.go:107-114
   handle      proxyHTTPRoute / proxyTCPRoute -> HTTPProxy.ServeHTTP / TCPProxy.ServeHTTP
               server.go:117-183, httpproxy.go:66-117, tcpproxy.go:46-97
   forward step  NodeUpstream.Dial (upstream.go:86-92) + ReverseProxy, request = Http.proxy_transform
   deliver     one client request entering the cluster at a node

   Nondeterminism of the real code (Go map iteration in LookupEndpoint, the round-robin cursor of the balancer)
   is an oracle argument: any member of the candidate list may be chosen. *)
From Coq Require Import List String Ascii NArith ZArith Bool Arith.
From Piko Require Import Base.Maps Base.Strs Proxy.Endpoint Proxy.Http.
Import ListNotations.
Open Scope string_scope. Open Scope list_scope.

(* cluster.NodeStatus *)
Inductive nstatus := Active | Unreachable | Left.

(* what a node believes about another node: cluster.Node (server/cluster/node.go:29-55) *)
Record ventry := mkV {
  v_id : string;
  v_status : nstatus;
  v_addr : string;               (* ProxyAddr *)
  v_eps : amap Z }.              (* Endpoints map[string]int *)

(* behaviour of an upstream listener (environment): answers after [delay] ms, refuses the dial,
   or accepts and closes without answering *)
Inductive ubeh := UAnswer (delay : Z) | UDialFail | UReset.

Record upstream := mkU {
  u_id : string;
  u_ep : string;                 (* Upstream.EndpointID(): the endpoint it registered under *)
  u_beh : ubeh }.

Record node := mkN {
  n_id : string;
  n_addr : string;               (* the address its proxy port really listens on *)
  n_timeout : Z;                 (* config.Proxy.Timeout in ms, 0 = disabled *)
  n_local : amap (list upstream);  (* LoadBalancedManager.localUpstreams *)
  n_view : list ventry }.        (* cluster.State.nodes without the local entry's special role *)

Definition cluster := list node.

(* LoadBalancedManager.AddConn (manager.go:118-135) *)
Definition add_conn (u : upstream) (m : amap (list upstream)) : amap (list upstream) :=
  match lookup (u_ep u) m with
  | Some us => insert (u_ep u) (us ++ [u]) m
  | None => insert (u_ep u) [u] m
  end.

Definition place (us : list upstream) : amap (list upstream) := fold_left (fun m u => add_conn u m) us [].

(* a node as the real code builds it: upstreams registered one by one *)
Definition build_node (id addr : string) (timeout : Z) (us : list upstream) (view : list ventry) : node :=
  mkN id addr timeout (place us) view.

Definition is_active (s : nstatus) : bool := match s with Active => true | _ => false end.

(* State.LookupEndpoint: every entry the map iteration may return *)
Definition lookup_endpoint (n : node) (ep : string) : list ventry :=
  filter (fun v => negb (String.eqb (v_id v) (n_id n))
                   && is_active (v_status v)
                   && match lookup ep (v_eps v) with Some k => (0 <? k)%Z | None => false end)
         (n_view n).

Inductive selection := SelLocal (cands : list upstream) | SelRemote (cands : list ventry) | SelNone.

(* LoadBalancedManager.Select *)
Definition select (n : node) (ep : string) (allow_remote : bool) : selection :=
  match lookup ep (n_local n) with
  | Some us => SelLocal us
  | None =>
      if allow_remote then
        match lookup_endpoint n ep with [] => SelNone | cs => SelRemote cs end
      else SelNone
  end.

(* ---- routes ---- *)
Inductive route := RHttp | RTcp (ep : string).

Definition tcp_prefix := "/_piko/v1/tcp/".

(* gin: v1.GET("/tcp/:endpointID") else NoRoute. Path grammar: the TCP route is only addressed with a single
   non-empty unescaped segment (a trailing slash would be answered by gin's redirect, outside the model). *)
Definition route_of (rq : request) : route :=
  if String.eqb (r_method rq) "GET" && prefixb tcp_prefix (r_path rq) then
    let seg := drop (String.length tcp_prefix) (r_path rq) in
    if String.eqb seg "" || contains_byte "/" seg then RHttp else RTcp seg
  else RHttp.

(* the endpoint a request addresses, as the route it matches derives it ("" = none) *)
Definition addressed_endpoint (rq : request) : string :=
  match route_of rq with
  | RHttp => endpoint_id_from_request (hget "x-piko-endpoint" (r_headers rq)) (r_host rq)
  | RTcp ep => ep
  end.

(* auth.Token.EndpointPermitted (pkg/auth/verifier.go:34): None = no verifier configured / no token in context *)
Definition permitted (tok : option (list string)) (ep : string) : bool :=
  match tok with
  | None => true
  | Some [] => true
  | Some eps => existsb (String.eqb ep) eps
  end.

(* ---- outcomes ---- *)
Inductive outcome :=
| Served (ni : nat) (u : upstream) (rs : response)    (* the upstream's own (transformed) response *)
| Status (code : N).                                  (* piko's own answer; 0 = model out of fuel / bad node index *)

Inductive event :=
| EInvoke (ni : nat)                       (* a proxy handler ran on node ni *)
| EDialNode (ni : nat) (addr : string)     (* node ni opened a request to another node's proxy port *)
| EDialUp (ni : nat) (uid : string).       (* node ni opened a request/stream to a local upstream *)

Record result := mkR {
  res_out : outcome;
  res_trace : list event;
  res_up : option upstream;       (* the upstream the request was handed to (dialled), if any *)
  res_upreq : option request;     (* the request as the serving upstream received it *)
  res_elapsed : Z }.              (* ms until the answer is available *)

(* environment / configuration of one delivery *)
Record env := mkEnv {
  e_keep : bool;                                 (* true: code as it stands; false: pinned transform *)
  e_client_ip : string;                          (* what ReverseProxy appends to X-Forwarded-For *)
  e_token : option (list string);                (* endpoints of the verified token, if auth is on *)
  e_respond : upstream -> request -> response;   (* what the upstream answers *)
  e_pick_node : nat;                             (* oracle: which LookupEndpoint candidate *)
  e_pick_up : nat }.                             (* oracle: which member of the balancer *)

Definition pick {A} (k : nat) (l : list A) : option A := nth_error l (Nat.modulo k (List.length l)).

Fixpoint find_index {A} (p : A -> bool) (l : list A) : option nat :=
  match l with
  | [] => None
  | x :: r => if p x then Some O else option_map S (find_index p r)
  end.

(* the node whose proxy port listens on [addr] (None: nothing listens there, the dial fails) *)
Definition owner (c : cluster) (addr : string) : option nat :=
  find_index (fun n => String.eqb (n_addr n) addr) c.

(* httpproxy.go:86 *)
Definition applies_timeout (n : node) (rq : request) : bool :=
  negb (Z.eqb (n_timeout n) 0) && negb (is_ws_upgrade rq).

Definition fin (o : outcome) (tr : list event) : result := mkR o tr None None 0.
Definition fin_up (o : outcome) (tr : list event) (u : upstream) : result := mkR o tr (Some u) None 0.

(* serving from a local upstream.
   HTTP (ServeHTTPWithUpstream -> ReverseProxy -> dialUpstream -> errorHandler): dial error / EOF -> 502,
   deadline -> 504, otherwise the upstream's response.
   TCP (tcpproxy.go:73-96): dial error -> 502, otherwise the stream is attached (no timeout). *)
Definition serve_local (e : env) (ni : nat) (n : node) (rt : route) (rq : request) (u : upstream) : result :=
  let tr := [EInvoke ni; EDialUp ni (u_id u)] in
  match rt with
  | RHttp =>
      let rq' := proxy_transform_gen (e_keep e) (e_client_ip e) (addressed_endpoint rq) rq in
      match u_beh u with
      | UDialFail => fin_up (Status 502) tr u
      | UReset => fin_up (Status 502) tr u
      | UAnswer d =>
          if applies_timeout n rq && (n_timeout n <=? d)%Z
          then mkR (Status 504) tr (Some u) None (n_timeout n)
          else mkR (Served ni u (resp_transform (e_respond e u rq'))) tr (Some u) (Some rq') d
      end
  | RTcp _ =>
      match u_beh u with
      | UDialFail => fin_up (Status 502) tr u
      | _ => mkR (Served ni u (e_respond e u rq)) tr (Some u) (Some rq) 0
      end
  end.

(* what node [ni] answers after it forwarded to another node and that node's handler produced [r]
   (ServeHTTPWithUpstream with a NodeUpstream: the deadline of this node may fire first; otherwise the other
   node's answer is passed on, through ReverseProxy's response path for the HTTP route) *)
Definition forward_result (ni : nat) (n : node) (rq : request) (addr : string) (r : result) : result :=
  let tr := [EInvoke ni; EDialNode ni addr] in
  if applies_timeout n rq && (n_timeout n <=? res_elapsed r)%Z
  then mkR (Status 504) (tr ++ res_trace r) (res_up r) None (n_timeout n)
  else
    mkR (match res_out r with
         | Served k u rs => Served k u (match route_of rq with RHttp => resp_transform rs | RTcp _ => rs end)
         | Status s => Status s end)
        (tr ++ res_trace r) (res_up r) (res_upreq r) (res_elapsed r).

(* One proxy handler invocation on node [ni]; [rec mi rq'] is the handler of node [mi] receiving the forwarded
   request [rq'] over the wire. *)
Definition handle_step (rec : nat -> request -> result) (c : cluster) (e : env) (ni : nat) (rq : request) : result :=
  match nth_error c ni with
  | None => fin (Status 0) []
  | Some n =>
      let rt := route_of rq in
      let ep := addressed_endpoint rq in
      if (match rt with RHttp => String.eqb ep "" | RTcp _ => false end)
      then fin (Status 400) [EInvoke ni]                                   (* server.go:119-126 *)
      else if negb (permitted (e_token e) ep) then fin (Status 401) [EInvoke ni]  (* server.go:129-147 *)
      else
        match select n ep (negb (is_forwarded rq)) with
        | SelNone => fin (Status 502) [EInvoke ni]                         (* httpproxy.go:75-83 *)
        | SelLocal us =>
            match pick (e_pick_up e) us with
            | None => fin (Status 500) [EInvoke ni]    (* empty balancer: nil upstream; excluded by wf *)
            | Some u => serve_local e ni n rt rq u
            end
        | SelRemote vs =>
            match pick (e_pick_node e) vs with
            | None => fin (Status 502) [EInvoke ni]    (* unreachable: vs is never empty *)
            | Some v =>
                match owner c (v_addr v) with
                | None => fin (Status 502) [EInvoke ni; EDialNode ni (v_addr v)]   (* dial error -> errorHandler *)
                | Some mi =>
                    forward_result ni n rq (v_addr v)
                      (rec mi (proxy_transform_gen (e_keep e) (e_client_ip e) ep rq))
                end
            end
        end
  end.

Fixpoint handle (fuel : nat) (c : cluster) (e : env) (ni : nat) (rq : request) : result :=
  match fuel with
  | O => fin (Status 0) []
  | S f => handle_step (handle f c e) c e ni rq
  end.

(* one client request entering at node [entry]; the fuel only bounds the recursion of the model (the theorems
   show that two handler invocations are all that ever happen with the code as it stands) *)
Definition deliver (c : cluster) (e : env) (entry : nat) (rq : request) : result :=
  handle (S (S (S (List.length c)))) c e entry rq.

(* ---- observables derived from a trace ---- *)
Definition is_invoke (ev : event) : bool := match ev with EInvoke _ => true | _ => false end.
Definition is_dial (ev : event) : bool := match ev with EInvoke _ => false | _ => true end.
Definition invocations (r : result) : nat := List.length (filter is_invoke (res_trace r)).
Definition dials (r : result) : nat := List.length (filter is_dial (res_trace r)).
Definition invocations_on (ni : nat) (r : result) : nat :=
  List.length (filter (fun ev => match ev with EInvoke k => Nat.eqb k ni | _ => false end) (res_trace r)).

(* the only shapes a delivery may have: one handler invocation makes at most one outgoing request, and at most
   one inter-node request exists per client request *)
Definition trace_ok (tr : list event) : bool :=
  match tr with
  | [] => true
  | [EInvoke _] => true
  | [EInvoke a; EDialUp a' _] => Nat.eqb a a'
  | [EInvoke a; EDialNode a' _] => Nat.eqb a a'
  | [EInvoke a; EDialNode a' _; EInvoke _] => Nat.eqb a a'
  | [EInvoke a; EDialNode a' _; EInvoke b; EDialUp b' _] => Nat.eqb a a' && Nat.eqb b b'
  | _ => false
  end.

(* ---- ground truth, for the "settled" statements ---- *)
Definition has_local (n : node) (ep : string) : bool :=
  match lookup ep (n_local n) with Some (_ :: _) => true | _ => false end.

Definition local_count (n : node) (ep : string) : Z :=
  match lookup ep (n_local n) with Some us => Z.of_nat (List.length us) | None => 0%Z end.

(* node [a]'s view says the truth about the reachable nodes (= the members of [c]; a node that is down is simply
   not in [c]): every entry it holds as Active is a member with that address and a positive count for exactly the
   endpoints that member has upstreams for, and every other member is held as such an entry (the conclusion
   of C04 for every pair). Entries that are Unreachable/Left are unconstrained. *)
Definition view_true (c : cluster) (a : node) : Prop :=
  (forall v, In v (n_view a) -> v_id v <> n_id a -> v_status v = Active ->
     exists m, In m c /\ n_id m = v_id v /\ n_addr m = v_addr v /\
               forall ep, (match lookup ep (v_eps v) with Some k => (0 <? k)%Z | None => false end) = has_local m ep)
  /\ (forall m, In m c -> n_id m <> n_id a -> exists v, In v (n_view a) /\ v_id v = n_id m /\ v_addr v = n_addr m /\ v_status v = Active /\
               forall ep, (match lookup ep (v_eps v) with Some k => (0 <? k)%Z | None => false end) = has_local m ep).

Definition settled (c : cluster) : Prop := forall a, In a c -> view_true c a.

(* static well-formedness every cluster built by the real code has *)
Definition wf_node (n : node) : Prop :=
  forall ep us, lookup ep (n_local n) = Some us -> us <> [] /\ forall u, In u us -> u_ep u = ep.

Definition wf_cluster (c : cluster) : Prop :=
  (forall n, In n c -> wf_node n)
  /\ NoDup (map n_addr c)        (* one listener per address *)
  /\ NoDup (map n_id c).

(* ---- vocabulary of the theorems ---- *)
(* the request passes the two checks every handler makes before selecting an upstream: an endpoint is derivable
   (HTTP route) and the token, if any, permits it *)
Definition pre_ok (e : env) (rq : request) : Prop :=
  (route_of rq = RHttp -> addressed_endpoint rq <> "") /\ permitted (e_token e) (addressed_endpoint rq) = true.


(* upstream [u] is registered (listening) on node [k] under its endpoint *)
Definition registered_on (c : cluster) (k : nat) (u : upstream) : Prop :=
  exists m us, nth_error c k = Some m /\ lookup (u_ep u) (n_local m) = Some us /\ In u us.


(* how long the answer took is bounded by the upstream's own delay (or nothing was waited for) *)
Definition elapsed_ok (r : result) (u : upstream) : Prop :=
  (res_elapsed r <= 0)%Z \/ exists d, u_beh u = UAnswer d /\ (res_elapsed r <= d)%Z.

(* the request was handed to an upstream registered for [ep]; what came back is that upstream's answer, a 502
   because that upstream refused / closed, or a 504 because a configured timeout fired *)
Definition reaches (c : cluster) (ep : string) (r : result) : Prop :=
  exists k u, registered_on c k u /\ u_ep u = ep /\ res_up r = Some u /\ elapsed_ok r u /\
    ((exists rs, res_out r = Served k u rs)
     \/ (res_out r = Status 502 /\ (u_beh u = UDialFail \/ u_beh u = UReset))
     \/ (res_out r = Status 504 /\ exists n, In n c /\ n_timeout n <> 0%Z /\ res_elapsed r = n_timeout n)).


(* every upstream answers, and in time *)
Definition healthy (c : cluster) : Prop :=
  (forall n, In n c -> (0 <= n_timeout n)%Z) /\
  (forall m ep us u, In m c -> lookup ep (n_local m) = Some us -> In u us ->
     exists d, u_beh u = UAnswer d /\ forall n, In n c -> n_timeout n = 0%Z \/ (d < n_timeout n)%Z).

