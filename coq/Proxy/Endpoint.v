(* Model of EndpointIDFromRequest (server/proxy/server.go:203-236) together with the two library functions
   it calls, net.SplitHostPort (net/ipsock.go:165) and net.ParseIP (net/ip.go:527 -> netip.ParseAddr,
   net/netip/netip.go:115-345), transcribed function by function. Models only, no proofs.

   Host grammar this file is stated over: arbitrary byte strings. (What net/http lets through as a Host
   header is narrower; the correspondence check compares the model with the real function on generated hosts.) *)
From Coq Require Import List String Ascii NArith Bool Arith.
From Piko Require Import Base.Strs.
Import ListNotations.
Open Scope string_scope. Open Scope list_scope.

(* bytealg.IndexByteString *)
Fixpoint index_byte (c : ascii) (s : string) : option nat :=
  match s with
  | EmptyString => None
  | String a r => if Ascii.eqb a c then Some O else option_map S (index_byte c r)
  end.

(* bytealg.LastIndexByteString *)
Fixpoint last_index_byte (c : ascii) (s : string) : option nat :=
  match s with
  | EmptyString => None
  | String a r =>
      match last_index_byte c r with
      | Some i => Some (S i)
      | None => if Ascii.eqb a c then Some O else None
      end
  end.

Definition contains_byte (c : ascii) (s : string) : bool :=
  match index_byte c s with Some _ => true | None => false end.

(* s[:n] *)
Fixpoint take (n : nat) (s : string) : string :=
  match n, s with
  | O, _ => EmptyString
  | S n', String a r => String a (take n' r)
  | S _, EmptyString => EmptyString
  end.

(* net.SplitHostPort (net/ipsock.go:165-218); None = any of its errors *)
Definition split_host_port (hp : string) : option (string * string) :=
  match last_index_byte ":" hp with
  | None => None                                                  (* missing port *)
  | Some i =>
      match hp with
      | String "["%char _ =>
          match index_byte "]" hp with
          | None => None                                          (* missing ']' *)
          | Some e =>
              if Nat.eqb (S e) (String.length hp) then None       (* missing port *)
              else if Nat.eqb (S e) i then
                (* host = hostport[1:end]; j, k = 1, end+1 *)
                if contains_byte "[" (drop 1 hp) then None        (* unexpected '[' *)
                else if contains_byte "]" (drop (S e) hp) then None (* unexpected ']' *)
                else Some (take (e - 1) (drop 1 hp), drop (S i) hp)
              else None                                           (* too many colons / missing port *)
          end
      | _ =>
          let host := take i hp in
          if contains_byte ":" host then None                     (* too many colons *)
          else if contains_byte "[" hp then None
          else if contains_byte "]" hp then None
          else Some (host, drop (S i) hp)
      end
  end.

(* ---- netip.parseIPv4Fields (netip.go:155-193) as a validity test on the whole string.
   state: val = value of the current octet, diglen = its digit count, pos = fields completed,
   prev_dot = previous byte was '.', first = at index 0 *)
Definition is_digit (a : ascii) : bool := let n := N_of_ascii a in (48 <=? n)%N && (n <=? 57)%N.

Fixpoint ipv4_go (s : string) (val : N) (diglen pos : nat) (first prev_dot : bool) : bool :=
  match s with
  | EmptyString => Nat.eqb pos 3          (* pos < 3 -> too short; a trailing '.' was rejected below *)
  | String a r =>
      if is_digit a then
        if Nat.eqb diglen 1 && N.eqb val 0 then false              (* leading zero *)
        else
          let val' := (val * 10 + (N_of_ascii a - 48))%N in
          if (255 <? val')%N then false
          else ipv4_go r val' (S diglen) pos false false
      else if Ascii.eqb a "." then
        (* i == 0 || i == len(s)-1 || s[i-1] == '.' *)
        if first || prev_dot || (match r with EmptyString => true | _ => false end) then false
        else if Nat.eqb pos 3 then false                           (* too long *)
        else ipv4_go r 0%N 0 (S pos) false true
      else false                                                   (* unexpected character *)
  end.

Definition parse_ipv4_ok (s : string) : bool := ipv4_go s 0%N 0 0 true false.

(* ---- netip.parseIPv6 (netip.go:206-345) as a validity test (zone already excluded by the caller) *)
Definition is_hex (a : ascii) : bool :=
  let n := N_of_ascii a in
  ((48 <=? n)%N && (n <=? 57)%N) || ((97 <=? n)%N && (n <=? 102)%N) || ((65 <=? n)%N && (n <=? 70)%N).

(* consume hex digits; returns (number of digits, rest); more than 4 digits is an error (None) *)
Fixpoint hex_run (s : string) (off : nat) : option (nat * string) :=
  match s with
  | String a r =>
      if is_hex a then (if Nat.leb 4 off then None else hex_run r (S off))
      else Some (off, s)
  | EmptyString => Some (off, s)
  end.

(* the main loop `for i < 16`; [i] = bytes filled so far, [ell] = an ellipsis was seen.
   Returns Some (i, ell) when the whole string was consumed legally, None on any error. *)
Fixpoint ipv6_loop (fuel : nat) (s : string) (i : nat) (ell : bool) : option (nat * bool) :=
  match fuel with
  | O => None
  | S f =>
      if Nat.leb 16 i then (match s with EmptyString => Some (i, ell) | _ => None end)  (* trailing garbage *)
      else
        match hex_run s 0 with
        | None => None                                             (* more than 4 digits *)
        | Some (O, _) => None                                      (* no digits *)
        | Some (_, rest) =>
            match rest with
            | String "."%char _ =>
                (* embedded IPv4 must be at the end: parse the whole remaining group string [s] *)
                if negb ell && negb (Nat.eqb i 12) then None
                else if Nat.ltb 16 (i + 4) then None
                else if parse_ipv4_ok s then Some (i + 4, ell) else None
            | EmptyString => Some (i + 2, ell)
            | String ":"%char EmptyString => None                   (* colon must be followed by more *)
            | String ":"%char (String ":"%char r2) =>
                if ell then None                                   (* multiple :: *)
                else (match r2 with
                      | EmptyString => Some (i + 2, true)
                      | _ => ipv6_loop f r2 (i + 2) true end)
            | String ":"%char r1 => ipv6_loop f r1 (i + 2) ell
            | _ => None                                            (* unexpected character, want colon *)
            end
        end
  end.

Definition parse_ipv6_ok (s : string) : bool :=
  let '(s1, ell0, only) :=
    match s with
    | String ":"%char (String ":"%char r) => (r, true, match r with EmptyString => true | _ => false end)
    | _ => (s, false, false)
    end in
  if only then true
  else match ipv6_loop 10 s1 0 ell0 with
       | None => false
       | Some (i, ell) => if Nat.ltb i 16 then ell else negb ell   (* too short without :: / :: must expand *)
       end.

(* netip.ParseAddr dispatch (netip.go:115-129): the first of '.', ':', '%' decides *)
Fixpoint parse_addr_dispatch (whole s : string) : bool :=
  match s with
  | EmptyString => false
  | String a r =>
      if Ascii.eqb a "." then parse_ipv4_ok whole
      else if Ascii.eqb a ":" then
        (* parseIPv6 splits a zone off at the first '%': an empty zone is an error and a non-empty zone makes
           net.parseIP (ip.go:534) reject the address, so any '%' means "not an IP" for net.ParseIP *)
        if contains_byte "%" whole then false else parse_ipv6_ok whole
      else if Ascii.eqb a "%" then false
      else parse_addr_dispatch whole r
  end.

(* net.ParseIP(s) != nil *)
Definition parse_ip (s : string) : bool := parse_addr_dispatch s s.

(* strings.Split(host, ".")[0] *)
Fixpoint first_label (s : string) : string :=
  match s with
  | EmptyString => EmptyString
  | String a r => if Ascii.eqb a "." then EmptyString else String a (first_label r)
  end.

(* EndpointIDFromRequest (server.go:203-236). [hdr] = r.Header.Get("x-piko-endpoint") ("" when absent),
   [host_hdr] = r.Host. The result "" means "no endpoint". *)
Definition endpoint_id_from_request (hdr host_hdr : string) : string :=
  if negb (String.eqb hdr "") then hdr
  else
    let host := match split_host_port host_hdr with Some (hst, _) => hst | None => host_hdr end in
    if String.eqb host "" then ""
    else if parse_ip host then ""
    else if contains_byte "." host then first_label host
    else "".
