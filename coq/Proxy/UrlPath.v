(* How an endpoint id travels in a URL path: client/dialer.go dialURL and client/upstream.go listenURL append the id to
   url.URL.Path and call String(), which escapes the path (net/url escape(s, encodePath)); the server's net/http parses
   the request target (net/url unescape(s, encodePath)) and gin matches `/_piko/v1/tcp/:endpointID` resp.
   `/piko/v1/upstream/:endpointID` on the decoded path. Models only; proofs in ProxyP/UrlPathP.v. *)
From Coq Require Import List String Ascii NArith Bool.
Import ListNotations.
Local Open Scope string_scope.

Definition code (c : ascii) : N := N_of_ascii c.
Definition between (lo hi : N) (n : N) : bool := (lo <=? n)%N && (n <=? hi)%N.

(* net/url shouldEscape(c, encodePath): letters, digits, - _ . ~ and $ & + , / : ; = @ stay; everything else - in particular
   ? # % space and every byte above 0x7e - is escaped *)
Definition should_escape_path (c : ascii) : bool :=
  let n := code c in
  if between 97 122 n || between 65 90 n || between 48 57 n then false
  else if existsb (N.eqb n) [45; 95; 46; 126]%N then false                       (* - _ . ~ *)
  else if existsb (N.eqb n) [36; 38; 43; 44; 47; 58; 59; 61; 64]%N then false     (* $ & + , / : ; = @ *)
  else true.

Definition hex_digit (n : N) : ascii := ascii_of_N (if (n <? 10)%N then 48 + n else 55 + n).   (* "0123456789ABCDEF" *)

Fixpoint escape_path (s : string) : string :=
  match s with
  | EmptyString => EmptyString
  | String c r =>
      if should_escape_path c
      then String "%" (String (hex_digit (code c / 16)) (String (hex_digit (code c mod 16)) (escape_path r)))
      else String c (escape_path r)
  end.

(* net/url unhex / ishex: both cases are accepted *)
Definition unhex (c : ascii) : option N :=
  let n := code c in
  if between 48 57 n then Some (n - 48)%N
  else if between 97 102 n then Some (n - 87)%N
  else if between 65 70 n then Some (n - 55)%N
  else None.

(* net/url unescape(s, encodePath): %XX decoded, an incomplete or non-hex escape is an error (the server answers 400),
   '+' is left alone in paths. Structural on the string: fuel = its length. *)
Fixpoint unescape_fuel (fuel : nat) (s : string) : option string :=
  match fuel with
  | O => match s with EmptyString => Some EmptyString | _ => None end
  | S f =>
      match s with
      | EmptyString => Some EmptyString
      | String c r =>
          if Ascii.eqb c "%" then
            match r with
            | String a (String b r') =>
                match unhex a, unhex b with
                | Some x, Some y => option_map (String (ascii_of_N (16 * x + y))) (unescape_fuel f r')
                | _, _ => None
                end
            | _ => None
            end
          else option_map (String c) (unescape_fuel f r)
      end
  end.
Definition unescape_path (s : string) : option string := unescape_fuel (String.length s) s.

(* gin: a route `<prefix>:param` matches a path that is the prefix followed by ONE non-empty segment *)
Fixpoint has_slash (s : string) : bool :=
  match s with EmptyString => false | String c r => Ascii.eqb c "/" || has_slash r end.

Fixpoint strip_prefix (p s : string) : option string :=
  match p with
  | EmptyString => Some s
  | String a p' => match s with String b s' => if Ascii.eqb a b then strip_prefix p' s' else None | EmptyString => None end
  end.

Definition route_param (prefix path : string) : option string :=
  match strip_prefix prefix path with
  | Some seg => if has_slash seg then None else match seg with EmptyString => None | _ => Some seg end
  | None => None
  end.

Definition tcp_prefix := "/_piko/v1/tcp/".
Definition upstream_prefix := "/piko/v1/upstream/".

(* the endpoint id the server routes a dial / a listen of `id` to: escape on the client, unescape and match on the server *)
Definition dialled_endpoint (prefix id : string) : option string :=
  match unescape_path (escape_path (prefix ++ id)) with
  | Some path => route_param prefix path
  | None => None
  end.

(* the VARIANT of seeded change C01-14: the id is appended to the already rendered URL, unescaped; the server sees the
   request target up to the first '?' / '#' as the path *)
Fixpoint cut_at_query (s : string) : string :=
  match s with
  | EmptyString => EmptyString
  | String c r => if Ascii.eqb c "?" || Ascii.eqb c "#" then EmptyString else String c (cut_at_query r)
  end.
Definition dialled_endpoint_concat (prefix id : string) : option string :=
  match unescape_path (cut_at_query (prefix ++ id)) with
  | Some path => route_param prefix path
  | None => None
  end.
