(* HTTP request/response model and the transformation a request undergoes when piko proxies it
   (server/proxy/httpproxy.go:79-165 ServeHTTPWithUpstream + keepControlHeaders, and the part of
   net/http/httputil.ReverseProxy.ServeHTTP (reverseproxy.go:345-470) that piko relies on).
   Models only, no proofs.

   Header grammar this file is stated over: names are HTTP tokens, values are printable ASCII / TAB without
   leading or trailing blanks (what net/http hands to a handler). Header maps (Go: map[string][]string keyed by the
   canonical name) are modelled as lists of (name, value) in arrival order; a name is compared case-insensitively,
   and only the per-name order of values is meaningful. *)
From Coq Require Import List String Ascii NArith ZArith Bool Arith.
From Piko Require Import Base.Strs.
Import ListNotations.
Open Scope string_scope. Open Scope list_scope.

Definition header := (string * string)%type.

Record request := mkReq {
  r_method : string;
  r_path : string;               (* raw (still escaped) path of the request target *)
  r_query : option string;       (* raw query; None = no '?' in the target *)
  r_host : string;               (* r.Host *)
  r_headers : list header;       (* r.Header (Host is not in it) *)
  r_body : string }.

Record response := mkResp {
  s_status : N;
  s_headers : list header;
  s_body : string }.

(* ---- ASCII helpers ---- *)
Definition lower_ascii (a : ascii) : ascii :=
  let n := N_of_ascii a in if (65 <=? n)%N && (n <=? 90)%N then ascii_of_N (n + 32) else a.

Fixpoint lower (s : string) : string :=
  match s with EmptyString => EmptyString | String a r => String (lower_ascii a) (lower r) end.

(* textproto.CanonicalMIMEHeaderKey equality == ASCII case-insensitive equality on tokens *)
Definition name_eqb (a b : string) : bool := String.eqb (lower a) (lower b).

(* strings.EqualFold on ASCII *)
Definition equal_fold (a b : string) : bool := String.eqb (lower a) (lower b).

Definition is_blank (a : ascii) : bool := Ascii.eqb a " " || Ascii.eqb a "009".

Fixpoint trim_left (s : string) : string :=
  match s with String a r => if is_blank a then trim_left r else s | EmptyString => EmptyString end.

Fixpoint all_blank (s : string) : bool :=
  match s with EmptyString => true | String a r => is_blank a && all_blank r end.

Fixpoint trim_right (s : string) : string :=
  match s with
  | EmptyString => EmptyString
  | String a r => if all_blank s then EmptyString else String a (trim_right r)
  end.

(* textproto.TrimString / httpguts trimOWS / strings.TrimSpace on the header grammar above *)
Definition trim (s : string) : string := trim_right (trim_left s).

(* strings.Split(s, ",") (never empty: Split("", ",") = [""]) *)
Fixpoint split_comma (s : string) : list string :=
  match s with
  | EmptyString => [EmptyString]
  | String a r =>
      if Ascii.eqb a "," then EmptyString :: split_comma r
      else match split_comma r with
           | x :: rest => String a x :: rest
           | [] => [String a EmptyString]
           end
  end.

(* strings.Join(l, ",") *)
Fixpoint join_comma (l : list string) : string :=
  match l with
  | [] => EmptyString
  | [x] => x
  | x :: r => x ++ "," ++ join_comma r
  end.

(* strings.Join(l, ", ") *)
Fixpoint join_comma_sp (l : list string) : string :=
  match l with
  | [] => EmptyString
  | [x] => x
  | x :: r => x ++ ", " ++ join_comma_sp r
  end.

(* ---- http.Header operations ---- *)
(* h.Values(name) *)
Fixpoint hvalues (nm : string) (hs : list header) : list string :=
  match hs with
  | [] => []
  | (k, v) :: r => if name_eqb nm k then v :: hvalues nm r else hvalues nm r
  end.

(* h.Get(name): first value or "" *)
Definition hget (nm : string) (hs : list header) : string :=
  match hvalues nm hs with v :: _ => v | [] => EmptyString end.

(* h.Del(name) *)
Definition hdel (nm : string) (hs : list header) : list header :=
  filter (fun kv => negb (name_eqb nm (fst kv))) hs.

(* h.Set(name, v) *)
Definition hset (nm v : string) (hs : list header) : list header := hdel nm hs ++ [(nm, v)].

Definition hdel_all (names : list string) (hs : list header) : list header :=
  filter (fun kv => negb (existsb (fun n => name_eqb n (fst kv)) names)) hs.

(* ---- keepControlHeaders (httpproxy.go:119-141) ---- *)
Definition is_control_token (tok : string) : bool := prefixb "x-piko-" (lower (trim tok)).

Definition keep_control_value (v : string) : option string :=
  match filter (fun t => negb (is_control_token t)) (split_comma v) with
  | [] => None
  | toks => Some (join_comma toks)
  end.

Fixpoint filter_map {A B} (f : A -> option B) (l : list A) : list B :=
  match l with
  | [] => []
  | x :: r => match f x with Some y => y :: filter_map f r | None => filter_map f r end
  end.

Definition keep_control_headers (hs : list header) : list header :=
  match hvalues "Connection" hs with
  | [] => hs
  | vals => hdel "Connection" hs ++ map (fun v => ("Connection", v)) (filter_map keep_control_value vals)
  end.

(* ---- httputil.removeHopByHopHeaders (reverseproxy.go:590-605) ---- *)
Definition connection_tokens (hs : list header) : list string :=
  flat_map (fun v => filter (fun t => negb (String.eqb t "")) (map trim (split_comma v))) (hvalues "Connection" hs).

(* reverseproxy.go:307-317 *)
Definition hop_headers : list string :=
  ["Connection"; "Proxy-Connection"; "Keep-Alive"; "Proxy-Authenticate"; "Proxy-Authorization";
   "Te"; "Trailer"; "Transfer-Encoding"; "Upgrade"].

Definition remove_hop_by_hop (hs : list header) : list header :=
  hdel_all hop_headers (hdel_all (connection_tokens hs) hs).

(* httputil.upgradeType (reverseproxy.go:743-748): Connection contains the token "upgrade" ? Upgrade : "" *)
Definition upgrade_type (hs : list header) : string :=
  if existsb (fun t => String.eqb (lower t) "upgrade") (connection_tokens hs) then hget "Upgrade" hs else "".

(* httpguts.HeaderValuesContainsToken(req.Header["Te"], "trailers") *)
Definition te_trailers (hs : list header) : bool :=
  existsb (fun t => String.eqb (lower t) "trailers")
          (flat_map (fun v => map trim (split_comma v)) (hvalues "Te" hs)).

(* X-Forwarded-For folding (reverseproxy.go:437-447) *)
Definition xff_value (prior : list string) (client_ip : string) : string :=
  match prior with [] => client_ip | _ => join_comma_sp prior ++ ", " ++ client_ip end.

(* The header transformation of one proxy hop.
   [keep] = true is the code as it stands (keepControlHeaders runs first, fix 5024de3);
   [keep] = false is the pinned behaviour: the headers named in Connection are deleted by the reverse
   proxy AFTER piko has set x-piko-forward, control headers included. *)
Definition transform_headers (keep : bool) (client_ip : string) (h0 : list header) : list header :=
  let h1 := if keep then keep_control_headers h0 else h0 in      (* httpproxy.go:97 *)
  let h2 := hset "X-Piko-Forward" "true" h1 in                   (* httpproxy.go:99 *)
  let up := upgrade_type h2 in                                   (* reverseproxy.go:407 *)
  let h3 := remove_hop_by_hop h2 in                              (* :412 *)
  let h4 := if te_trailers h2 then hset "Te" "trailers" h3 else h3 in        (* :419 *)
  let h5 := if String.eqb up "" then h4
            else hset "Upgrade" up (hset "Connection" "Upgrade" h4) in       (* :425 *)
  hset "X-Forwarded-For" (xff_value (hvalues "X-Forwarded-For" h5) client_ip) h5.  (* :437 *)

(* The request the next hop (upstream or node) receives: method, target and body are passed on as they are.
   Director only sets URL.Scheme and URL.Host := endpoint id (httpproxy.go:50-53); outreq.Host stays the client's
   Host, and http.Transport writes `Host: outreq.Host`, falling back to URL.Host when that is empty
   (net/http/request.go write: host := r.Host; if host == "" { host = r.URL.Host }) - so a request that arrived with
   an EMPTY Host header leaves with Host = endpoint id. [ep] is the endpoint the forwarding handler derived. *)
Definition proxy_transform_gen (keep : bool) (client_ip : string) (ep : string) (rq : request) : request :=
  mkReq (r_method rq) (r_path rq) (r_query rq)
        (if String.eqb (r_host rq) "" then ep else r_host rq)
        (transform_headers keep client_ip (r_headers rq)) (r_body rq).

Definition proxy_transform := proxy_transform_gen true.
Definition proxy_transform_pinned := proxy_transform_gen false.

(* Response direction (reverseproxy.go:489-507): hop-by-hop removal, everything else copied. *)
Definition resp_transform (rs : response) : response :=
  mkResp (s_status rs) (remove_hop_by_hop (s_headers rs)) (s_body rs).

(* ---- piko's own decisions on a request ---- *)
(* httpproxy.go:68 / tcpproxy.go:47 *)
Definition is_forwarded (rq : request) : bool := String.eqb (hget "x-piko-forward" (r_headers rq)) "true".

(* httpproxy.go:86: strings.EqualFold(r.Header.Get("upgrade"), "websocket") *)
Definition is_ws_upgrade (rq : request) : bool := equal_fold (hget "upgrade" (r_headers rq)) "websocket".

(* a client-side well formed upgrade: the Upgrade header is announced in Connection (RFC 7230 6.7) *)
Definition announces_upgrade (rq : request) : bool :=
  existsb (fun t => String.eqb (lower t) "upgrade") (connection_tokens (r_headers rq)).

(* ---- which names a transparency statement can speak about ---- *)
Definition is_hop_name (nm : string) : bool := existsb (fun n => name_eqb n nm) hop_headers.

(* end-to-end header name of a request: not hop-by-hop, not declared hop-by-hop by the client through Connection,
   and not one of the two headers a proxy hop is meant to write (x-piko-forward, X-Forwarded-For) *)
Definition e2e_name (hs : list header) (nm : string) : bool :=
  negb (is_hop_name nm)
  && negb (existsb (fun t => name_eqb t nm) (connection_tokens hs))
  && negb (name_eqb "X-Piko-Forward" nm)
  && negb (name_eqb "X-Forwarded-For" nm).

(* end-to-end header name of a response *)
Definition e2e_resp_name (hs : list header) (nm : string) : bool :=
  negb (is_hop_name nm) && negb (existsb (fun t => name_eqb t nm) (connection_tokens hs)).


(* ---- vocabulary of the transparency statements (C08) ---- *)
(* [rq'] is what an upstream sees of the client's [rq] *)
Definition req_transparent (rq rq' : request) : Prop :=
  r_method rq' = r_method rq /\ r_path rq' = r_path rq /\ r_query rq' = r_query rq /\ r_body rq' = r_body rq
  /\ (r_host rq <> "" -> r_host rq' = r_host rq)
  /\ (forall nm, e2e_name (r_headers rq) nm = true -> hvalues nm (r_headers rq') = hvalues nm (r_headers rq)).

(* [rs] is what the client sees of the upstream's [rs0] *)
Definition resp_transparent (rs0 rs : response) : Prop :=
  s_status rs = s_status rs0 /\ s_body rs = s_body rs0
  /\ (forall nm, e2e_resp_name (s_headers rs0) nm = true -> hvalues nm (s_headers rs) = hvalues nm (s_headers rs0)).

