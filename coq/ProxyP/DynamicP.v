(* Proofs about Proxy/Dynamic.v: the proxy data path while upstreams come and go. *)
From Coq Require Import List String Ascii NArith ZArith Bool Arith Lia.
From Piko Require Import Base.Maps Base.Strs Proxy.Endpoint Proxy.Http Proxy.Route Proxy.Dynamic.
From Piko Require Import ProxyP.RouteP ProxyP.StatusP ProxyP.Final.
Import ListNotations.
Open Scope string_scope. Open Scope list_scope.

(* ---------------- maps ---------------- *)
Lemma lookup_map_vals {A B} (f : A -> B) (m : amap A) k :
  lookup k (map (fun kv => (fst kv, f (snd kv))) m) = option_map f (lookup k m).
Proof.
  induction m as [|[k' v] m IH]; cbn; [reflexivity|]. destruct (String.eqb k k'); [reflexivity|exact IH].
Qed.

(* ---------------- registries stay well formed ---------------- *)
Lemma wf_add_conn n u : wf_node n -> wf_node (set_local n (add_conn u (n_local n))).
Proof.
  intros Hw ep us. cbn [set_local n_local]. unfold add_conn.
  destruct (lookup (u_ep u) (n_local n)) as [us0|] eqn:E; rewrite lookup_insert;
    destruct (String.eqb_spec ep (u_ep u)) as [->|Hne].
  - intros [= <-]. split; [destruct us0; discriminate|]. intros x Hx. apply in_app_or in Hx.
    destruct Hx as [Hx|[<-|[]]]; [apply (Hw _ _ E), Hx|reflexivity].
  - apply Hw.
  - intros [= <-]. split; [discriminate|]. intros x [<-|[]]. reflexivity.
  - apply Hw.
Qed.

Lemma remove_conn_lookup ep uid m ep' :
  lookup ep' (remove_conn ep uid m) =
  if String.eqb ep' ep then
    match lookup ep m with
    | None => None
    | Some us => match filter (fun u => negb (String.eqb (u_id u) uid)) us with [] => None | us' => Some us' end
    end
  else lookup ep' m.
Proof.
  unfold remove_conn. destruct (lookup ep m) as [us|] eqn:E.
  - destruct (filter _ us) as [|x xs] eqn:Ef.
    + rewrite lookup_remove. destruct (String.eqb ep' ep); reflexivity.
    + rewrite lookup_insert. destruct (String.eqb ep' ep); reflexivity.
  - destruct (String.eqb_spec ep' ep) as [->|]; [exact E|reflexivity].
Qed.

Lemma wf_remove_conn n ep uid : wf_node n -> wf_node (set_local n (remove_conn ep uid (n_local n))).
Proof.
  intros Hw ep' us. cbn [set_local n_local]. rewrite remove_conn_lookup.
  destruct (String.eqb_spec ep' ep) as [->|Hne]; [|apply Hw].
  destruct (lookup ep (n_local n)) as [us0|] eqn:E; [|discriminate].
  destruct (filter _ us0) as [|x xs] eqn:Ef; [discriminate|]. intros [= <-].
  split; [discriminate|]. intros u Hu. rewrite <- Ef in Hu. apply filter_In in Hu. apply (Hw _ _ E), Hu.
Qed.

Lemma wf_map_ups (f : upstream -> upstream) n :
  (forall u, u_ep (f u) = u_ep u) -> wf_node n ->
  wf_node (set_local n (map (fun kv => (fst kv, map f (snd kv))) (n_local n))).
Proof.
  intros Hf Hw ep us. cbn [set_local n_local]. rewrite lookup_map_vals.
  destruct (lookup ep (n_local n)) as [us0|] eqn:E; [|discriminate]. cbn [option_map]. intros [= <-].
  destruct (Hw _ _ E) as [Hne Hall]. split; [destruct us0; [contradiction|discriminate]|].
  intros u Hu. apply in_map_iff in Hu. destruct Hu as (u0 & <- & Hu0). rewrite Hf. apply Hall, Hu0.
Qed.

Lemma mask_up_ep gone u : u_ep (mask_up gone u) = u_ep u.
Proof. unfold mask_up. destruct (is_gone gone (u_id u)); reflexivity. Qed.
Lemma mask_up_id gone u : u_id (mask_up gone u) = u_id u.
Proof. unfold mask_up. destruct (is_gone gone (u_id u)); reflexivity. Qed.

Lemma update_nth_map {A B} (g : A -> B) (f : A -> A) i l : (forall x, g (f x) = g x) -> map g (update_nth i f l) = map g l.
Proof.
  intros H. revert i. induction l as [|x l IH]; intros [|i]; cbn; try reflexivity; [rewrite H|rewrite IH]; reflexivity.
Qed.

Lemma update_nth_In {A} (f : A -> A) i l y : In y (update_nth i f l) -> In y l \/ exists x, In x l /\ y = f x.
Proof.
  revert i. induction l as [|x l IH]; intros [|i]; cbn; try tauto.
  - intros [<-|H]; [right; exists x; auto|auto].
  - intros [<-|H]; [auto|]. destruct (IH i H) as [H1|(z & Hz & ->)]; [auto|right; exists z; auto].
Qed.

Lemma update_nth_nth {A} (f : A -> A) i l k :
  nth_error (update_nth i f l) k = if Nat.eqb k i then option_map f (nth_error l k) else nth_error l k.
Proof.
  revert i k. induction l as [|x l IH]; intros [|i] [|k]; cbn; try reflexivity.
  - destruct (Nat.eqb k i); reflexivity.
  - apply IH.
Qed.

Lemma wf_update c i f :
  wf_cluster c -> (forall n, wf_node n -> wf_node (f n)) -> (forall n, n_addr (f n) = n_addr n) -> (forall n, n_id (f n) = n_id n) ->
  wf_cluster (update_nth i f c).
Proof.
  intros (Hn & Ha & Hi) Hf Haddr Hid. split; [|split].
  - intros n Hin. destruct (update_nth_In f i c n Hin) as [H|(x & Hx & ->)]; [apply Hn, H|apply Hf, Hn, Hx].
  - rewrite update_nth_map by exact Haddr. exact Ha.
  - rewrite update_nth_map by exact Hid. exact Hi.
Qed.

Lemma wf_map c f :
  wf_cluster c -> (forall n, wf_node n -> wf_node (f n)) -> (forall n, n_addr (f n) = n_addr n) -> (forall n, n_id (f n) = n_id n) ->
  wf_cluster (map f c).
Proof.
  intros (Hn & Ha & Hi) Hf Haddr Hid. split; [|split].
  - intros n Hin. apply in_map_iff in Hin. destruct Hin as (x & <- & Hx). apply Hf, Hn, Hx.
  - rewrite map_map. rewrite (map_ext _ n_addr) by exact Haddr. exact Ha.
  - rewrite map_map. rewrite (map_ext _ n_id) by exact Hid. exact Hi.
Qed.

Theorem as_seen_wf s : wf_cluster (d_c s) -> wf_cluster (as_seen s).
Proof.
  intros Hw. unfold as_seen. apply wf_map; auto.
  intros n Hn. unfold mask_node. apply wf_map_ups; [apply mask_up_ep|exact Hn].
Qed.

Lemma after_request_wf s r : wf_cluster (d_c s) -> wf_cluster (d_c (after_request s r)).
Proof.
  intros Hw. unfold after_request. destruct (res_up r) as [u|]; [|exact Hw].
  destruct (dialler (res_trace r)) as [ni|]; [|exact Hw].
  destruct (is_gone (d_gone s) (u_id u)); [|exact Hw]. cbn [d_c].
  apply wf_update; auto. intros n Hn. apply wf_remove_conn, Hn.
Qed.

(* every state reachable by connects, disconnects, go-aways, environment changes and requests is well formed *)
Theorem dstep_wf s o : wf_cluster (d_c s) -> wf_cluster (d_c (fst (dstep s o))).
Proof.
  intros Hw. destruct o as [ni u|ni ep uid|uid|uid b|e entry rq]; cbn [dstep fst d_c].
  - apply wf_update; auto. intros n Hn. apply wf_add_conn, Hn.
  - apply wf_update; auto. intros n Hn. apply wf_remove_conn, Hn.
  - exact Hw.
  - apply wf_map; auto. intros n Hn. unfold set_beh. apply wf_map_ups; [|exact Hn].
    intros u. destruct (String.eqb (u_id u) uid); reflexivity.
  - apply after_request_wf, Hw.
Qed.

Theorem drun_wf ops : forall s, wf_cluster (d_c s) -> wf_cluster (d_c (fst (drun s ops))).
Proof.
  induction ops as [|o ops IH]; intros s Hw; cbn [drun]; [exact Hw|].
  pose proof (dstep_wf s o Hw) as H1. destruct (dstep s o) as [s1 x]. cbn [fst] in H1.
  specialize (IH s1 H1). destruct (drun s1 ops) as [s2 xs]. exact IH.
Qed.

(* ---------------- what a request sees ---------------- *)
Lemma as_seen_nth s k a : nth_error (d_c s) k = Some a -> nth_error (as_seen s) k = Some (mask_node (d_gone s) a).
Proof. intros H. unfold as_seen. rewrite nth_error_map, H. reflexivity. Qed.

Lemma mask_lookup gone a ep :
  lookup ep (n_local (mask_node gone a)) = option_map (map (mask_up gone)) (lookup ep (n_local a)).
Proof. unfold mask_node. cbn [set_local n_local]. apply lookup_map_vals. Qed.

(* Local first, whatever happened before: in the state reached by ANY history, a node that holds a balancer for the
   addressed endpoint dials one of its members itself - nothing the servers remember from earlier requests (an earlier
   forward to another node, an upstream that has since gone) enters the decision. *)
Theorem dyn_local_first s0 ops e entry a rq us :
  let s := fst (drun s0 ops) in
  nth_error (d_c s) entry = Some a -> pre_ok e rq ->
  lookup (addressed_endpoint rq) (n_local a) = Some us -> us <> [] ->
  let r := deliver (as_seen s) e entry rq in
  exists u, In u us
    /\ res_trace r = [EInvoke entry; EDialUp entry (u_id u)]
    /\ res_up r = Some (mask_up (d_gone s) u)
    /\ ((exists rs, res_out r = Served entry (mask_up (d_gone s) u) rs) \/ res_out r = Status 502 \/ res_out r = Status 504).
Proof.
  intros s Ha Hpre Hl Hus r.
  pose proof (as_seen_nth s entry a Ha) as Ha'.
  assert (Hl' : lookup (addressed_endpoint rq) (n_local (mask_node (d_gone s) a)) = Some (map (mask_up (d_gone s)) us))
    by (rewrite mask_lookup, Hl; reflexivity).
  assert (Hus' : map (mask_up (d_gone s)) us <> []) by (destruct us; [contradiction|discriminate]).
  destruct (local_first_final (as_seen s) e entry _ rq _ Ha' Hpre Hl' Hus') as (u' & Hin & Htr & Hup & Hout).
  apply in_map_iff in Hin. destruct Hin as (u & <- & Hu). exists u. rewrite mask_up_id in Htr. auto.
Qed.

(* One hop at most, for every request of every history *)
Definition ops_keep (ops : list dop) : Prop :=
  Forall (fun o => match o with DRequest e _ _ => e_keep e = true | _ => True end) ops.

Theorem dyn_one_hop ops : forall s, ops_keep ops ->
  Forall (fun x => match x with
                   | Some r => trace_ok (res_trace r) = true /\ invocations r <= 2 /\ dials r <= invocations r
                   | None => True end) (snd (drun s ops)).
Proof.
  induction ops as [|o ops IH]; intros s Hk; cbn [drun]; [constructor|].
  inversion Hk as [|o' ops' Ho Hk']; subst.
  destruct (dstep s o) as [s1 x] eqn:Es. specialize (IH s1 Hk'). destruct (drun s1 ops) as [s2 xs]. cbn [snd] in *.
  constructor; [|exact IH].
  destruct o as [ni u|ni ep uid|uid|uid b|e entry rq]; cbn [dstep] in Es; injection Es as <- <-; try exact I.
  destruct (one_hop_final (as_seen s) e entry rq Ho) as (H1 & H2 & H3 & _). auto.
Qed.

(* ---------------- the go-away branch of dialUpstream ---------------- *)
Lemma is_gone_mask gone u : is_gone gone (u_id u) = true -> u_beh (mask_up gone u) = UDialFail.
Proof. intros H. unfold mask_up. rewrite H. reflexivity. Qed.

(* a request (HTTP route) that dials an upstream which refuses the dial - in particular one that has announced go-away - is
   answered 502: it is neither retried on another upstream nor passed to another node *)
Theorem dyn_refused_dial_is_502 s e T entry a rq u :
  wf_cluster (d_c s) -> e_keep e = true ->
  (forall n, In n (d_c s) -> n_timeout n = T) -> (0 <= T)%Z ->
  nth_error (d_c s) entry = Some a -> route_of rq = RHttp ->
  permitted (e_token e) (addressed_endpoint rq) = true ->
  (is_ws_upgrade rq = false \/ announces_upgrade rq = true) ->
  let r := deliver (as_seen s) e entry rq in
  res_up r = Some u -> u_beh u = UDialFail ->
  res_out r = Status 502 /\ invocations r <= 2 /\ dials r <= invocations r.
Proof.
  intros Hw Hk HT HT0 Ha Hr Hp Hws r Hup Hb.
  assert (HT' : forall n, In n (as_seen s) -> n_timeout n = T).
  { intros n Hn. unfold as_seen in Hn. apply in_map_iff in Hn. destruct Hn as (m & <- & Hm). exact (HT m Hm). }
  pose proof (deliver_table (as_seen s) e T (as_seen_wf s Hw) Hk HT' HT0 entry _ rq (as_seen_nth s entry a Ha) Hr Hp Hws) as Ht.
  fold r in Ht. destruct (one_hop_final (as_seen s) e entry rq Hk) as (_ & H2 & H3 & _). fold r in H2, H3.
  split; [|auto].
  destruct Ht as [r He Ho Hu Hel | r Hne Ho Hu Hel | r u' Hne Ho Hu Hb' Hel | r u' d Hne Ho Hu Hb' Hfi Hel | r k u' rs d Hne Ho Hu Hb' Hfi Hel];
    try congruence.
Qed.

Lemma remove_conn_no_uid ep uid m us : lookup ep (remove_conn ep uid m) = Some us -> forall u, In u us -> u_id u <> uid.
Proof.
  rewrite remove_conn_lookup, String.eqb_refl. destruct (lookup ep m) as [us0|]; [|discriminate].
  destruct (filter _ us0) as [|x xs] eqn:Ef; [discriminate|]. intros [= <-] u Hu. rewrite <- Ef in Hu.
  apply filter_In in Hu. destruct Hu as [_ Hu]. apply negb_true_iff, String.eqb_neq in Hu. exact Hu.
Qed.

(* ... and the dial of a go-away upstream deregisters it on the dialling node: its balancer no longer holds it, the other
   endpoints of that node and all other nodes are untouched, views are untouched *)
Theorem dyn_gone_deregistered s r u ni :
  res_up r = Some u -> dialler (res_trace r) = Some ni -> is_gone (d_gone s) (u_id u) = true ->
  let s' := after_request s r in
  d_gone s' = d_gone s
  /\ (forall k, k <> ni -> nth_error (d_c s') k = nth_error (d_c s) k)
  /\ (forall n, nth_error (d_c s) ni = Some n ->
        exists n', nth_error (d_c s') ni = Some n' /\ n_view n' = n_view n /\ n_id n' = n_id n /\ n_addr n' = n_addr n
          /\ (forall ep, ep <> u_ep u -> lookup ep (n_local n') = lookup ep (n_local n))
          /\ (forall us, lookup (u_ep u) (n_local n') = Some us -> forall x, In x us -> u_id x <> u_id u)).
Proof.
  intros Hup Hd Hg s'. unfold s', after_request. rewrite Hup, Hd, Hg. cbn [d_c d_gone].
  split; [reflexivity|]. split.
  - intros k Hk. rewrite update_nth_nth. apply Nat.eqb_neq in Hk. rewrite Hk. reflexivity.
  - intros n Hn. rewrite update_nth_nth, Nat.eqb_refl, Hn. cbn [option_map]. eexists. split; [reflexivity|].
    cbn [set_local n_view n_id n_addr n_local]. repeat split.
    + intros ep Hne. rewrite remove_conn_lookup. apply String.eqb_neq in Hne. rewrite Hne. reflexivity.
    + intros us Hl. eapply remove_conn_no_uid, Hl.
Qed.

(* a dial that fails for any other reason, a timeout, a reset, a served request: the registry is left alone *)
Theorem dyn_other_outcomes_keep_registry s r :
  (forall u, res_up r = Some u -> is_gone (d_gone s) (u_id u) = false) -> after_request s r = s.
Proof.
  intros H. unfold after_request. destruct (res_up r) as [u|]; [|reflexivity].
  rewrite (H u eq_refl). destruct (dialler (res_trace r)); reflexivity.
Qed.

(* ---------------- two concrete histories (the scenarios the harness runs on the real servers) ---------------- *)
Definition dx_env : env := mkEnv true "1.2.3.4" None (fun u _ => mkResp 200 [("X-Up", u_id u)] "ok") 0 0.
Definition dx_rq (fw : bool) : request :=
  mkReq "GET" "/" None "gw.example.com" ([("x-piko-endpoint", "e")] ++ (if fw then [("x-piko-forward", "true")] else [])) "".

(* reconnect: e is served by n1; then an upstream for e connects to n0: from then on n0 serves it itself, also for a request
   that arrives marked as forwarded; after it disconnects n0 forwards again *)
Definition dx_reconnect : dstate :=
  mkD [build_node "n0" "node:0" 0 [] [mkV "n1" Active "node:1" [("e", 1%Z)]];
       build_node "n1" "node:1" 0 [mkU "ub" "e" (UAnswer 0)] [mkV "n0" Active "node:0" []]] [].
Definition dx_reconnect_ops : list dop :=
  [DRequest dx_env 0 (dx_rq false); DConnect 0 (mkU "ua" "e" (UAnswer 0)); DRequest dx_env 0 (dx_rq false);
   DRequest dx_env 0 (dx_rq true); DDisconnect 0 "e" "ua"; DRequest dx_env 0 (dx_rq false)].

Definition served_by (x : option result) : option (nat * string) :=
  match x with Some r => match res_out r with Served k u _ => Some (k, u_id u) | Status _ => None end | None => None end.
Definition status_of (x : option result) : option N :=
  match x with Some r => match res_out r with Status c => Some c | Served _ _ _ => None end | None => None end.

Example dyn_reconnect_example :
  wf_cluster (d_c dx_reconnect)
  /\ map served_by (snd (drun dx_reconnect dx_reconnect_ops))
     = [Some (1, "ub"); None; Some (0, "ua"); Some (0, "ua"); None; Some (1, "ub")]
  /\ map (fun x => match x with Some r => invocations r | None => 0 end) (snd (drun dx_reconnect dx_reconnect_ops)) = [2; 0; 1; 1; 0; 2].
Proof.
  split; [|split; vm_compute; reflexivity].
  split; [|split].
  - intros n [<-|[<-|[]]] ep us; cbn; [discriminate|].
    destruct (String.eqb ep "e") eqn:E; [|discriminate]. apply String.eqb_eq in E. subst. intros [= <-].
    split; [discriminate|]. intros u [<-|[]]. reflexivity.
  - cbn. apply NoDup_2. discriminate.
  - cbn. apply NoDup_2. discriminate.
Qed.

(* go-away: n0 believes n1 serves e; n1's only upstream for e has announced go-away; n1 believes n2 serves e. The first
   request (forwarded by n0) is answered 502 by n1 - not passed on to n2 - and deregisters the upstream; the next one from
   n0 finds nothing at n1 (502, still no third node); a fresh request entering at n1 is forwarded to n2 *)
Definition dx_goaway : dstate :=
  mkD [build_node "n0" "node:0" 0 [] [mkV "n1" Active "node:1" [("e", 1%Z)]];
       build_node "n1" "node:1" 0 [mkU "ug" "e" (UAnswer 0)] [mkV "n2" Active "node:2" [("e", 1%Z)]];
       build_node "n2" "node:2" 0 [mkU "uc" "e" (UAnswer 0)] [mkV "n1" Active "node:1" [("e", 1%Z)]]] [].
Definition dx_goaway_ops : list dop :=
  [DGoAway "ug"; DRequest dx_env 0 (dx_rq false); DRequest dx_env 0 (dx_rq false); DRequest dx_env 1 (dx_rq false)].

Example dyn_goaway_example :
  map status_of (snd (drun dx_goaway dx_goaway_ops)) = [None; Some 502%N; Some 502%N; None]
  /\ map served_by (snd (drun dx_goaway dx_goaway_ops)) = [None; None; None; Some (2, "uc")]
  /\ map (fun x => match x with Some r => invocations r | None => 0 end) (snd (drun dx_goaway dx_goaway_ops)) = [0; 2; 2; 2]
  /\ registered_anywhere (d_c (fst (drun dx_goaway dx_goaway_ops))) "ug" = false
  /\ registered_anywhere (d_c (fst (drun dx_goaway dx_goaway_ops))) "uc" = true.
Proof. repeat split; vm_compute; reflexivity. Qed.
