(* The endpoint id survives the URL: escape on the client, unescape and route matching on the server (Proxy/UrlPath.v). *)
From Coq Require Import List String Ascii NArith Bool Arith Lia.
From Piko Require Import Proxy.UrlPath.
Import ListNotations.
Local Open Scope string_scope.

(* every byte: its two hex digits decode to its nibbles, which give the byte back (finite check, 256 cases) *)
Lemma byte_roundtrip (c : ascii) :
  unhex (hex_digit (code c / 16)) = Some (code c / 16)%N /\
  unhex (hex_digit (code c mod 16)) = Some (code c mod 16)%N /\
  ascii_of_N (16 * (code c / 16) + code c mod 16) = c.
Proof. destruct c as [[] [] [] [] [] [] [] []]; vm_compute; repeat split; reflexivity. Qed.

(* a byte that is not escaped is not the escape character itself *)
Lemma unescaped_not_percent (c : ascii) : should_escape_path c = false -> Ascii.eqb c "%" = false.
Proof. destruct c as [[] [] [] [] [] [] [] []]; vm_compute; intros H; try reflexivity; discriminate. Qed.

Lemma unescape_escape_fuel : forall s fuel, String.length (escape_path s) <= fuel -> unescape_fuel fuel (escape_path s) = Some s.
Proof.
  induction s as [|c r IH]; intros fuel Hf.
  - destruct fuel; reflexivity.
  - cbn [escape_path] in *. destruct (should_escape_path c) eqn:E.
    + cbn [String.length] in Hf. destruct fuel as [|f]; [lia|]. cbn [unescape_fuel].
      change (Ascii.eqb "%" "%") with true. cbn iota.
      destruct (byte_roundtrip c) as (H1 & H2 & H3). rewrite H1, H2. rewrite IH by lia. cbn [option_map]. rewrite H3. reflexivity.
    + cbn [String.length] in Hf. destruct fuel as [|f]; [lia|]. cbn [unescape_fuel].
      rewrite (unescaped_not_percent c E). rewrite IH by lia. reflexivity.
Qed.

(* net/url round trip: what the client escapes the server decodes to the same bytes, for EVERY byte string *)
Lemma unescape_escape s : unescape_path (escape_path s) = Some s.
Proof. unfold unescape_path. apply unescape_escape_fuel. apply le_n. Qed.

Lemma strip_prefix_app p s : strip_prefix p (p ++ s) = Some s.
Proof. induction p as [|a p IH]; cbn [strip_prefix append]; [reflexivity|]. rewrite Ascii.eqb_refl. exact IH. Qed.

Lemma route_param_app prefix id :
  route_param prefix (prefix ++ id) = if has_slash id then None else match id with EmptyString => None | _ => Some id end.
Proof. unfold route_param. rewrite strip_prefix_app. reflexivity. Qed.

(* a dial (listen) of an endpoint id that is one non-empty path segment reaches the route with exactly that id ... *)
Lemma dialled_is_named prefix id : has_slash id = false -> id <> "" -> dialled_endpoint prefix id = Some id.
Proof.
  intros Hs Hne. unfold dialled_endpoint. rewrite unescape_escape, route_param_app, Hs. destruct id; [contradiction|reflexivity].
Qed.

(* ... and whatever the id is, never the route of ANOTHER endpoint: it is routed under its own name or not at all *)
Lemma dialled_only_named prefix id e : dialled_endpoint prefix id = Some e -> e = id.
Proof.
  unfold dialled_endpoint. rewrite unescape_escape, route_param_app. destruct (has_slash id); [discriminate|].
  destruct id; [discriminate|]. intros H. inversion H. reflexivity.
Qed.

(* the variant that appends the id to the rendered URL (seeded change C01-14) delivers to another endpoint *)
Lemma concat_variant_refuted :
  dialled_endpoint_concat tcp_prefix "db?replica" = Some "db" /\ dialled_endpoint tcp_prefix "db?replica" = Some "db?replica" /\
  dialled_endpoint_concat tcp_prefix "cach%65" = Some "cache" /\ dialled_endpoint tcp_prefix "cach%65" = Some "cach%65" /\
  escape_path (tcp_prefix ++ "a b#c?d%") = "/_piko/v1/tcp/a%20b%23c%3Fd%25".
Proof. vm_compute. repeat split. Qed.

(* the rendered path contains neither '?' nor '#': the request parser's split of the target into path, query and fragment
   cannot cut it - which is why the server decodes exactly what the client escaped *)
Lemma unescaped_not_delim (c : ascii) :
  should_escape_path c = false -> (Ascii.eqb c "?" || Ascii.eqb c "#")%bool = false.
Proof. destruct c as [[] [] [] [] [] [] [] []]; vm_compute; intros H; try reflexivity; discriminate. Qed.

Lemma hex_digit_not_delim (c : ascii) :
  (Ascii.eqb (hex_digit (code c / 16)) "?" || Ascii.eqb (hex_digit (code c / 16)) "#")%bool = false /\
  (Ascii.eqb (hex_digit (code c mod 16)) "?" || Ascii.eqb (hex_digit (code c mod 16)) "#")%bool = false.
Proof. destruct c as [[] [] [] [] [] [] [] []]; vm_compute; split; reflexivity. Qed.

Lemma escaped_not_split s : cut_at_query (escape_path s) = escape_path s.
Proof.
  induction s as [|c r IH]; [reflexivity|]. cbn [escape_path]. destruct (should_escape_path c) eqn:E.
  - cbn [cut_at_query]. change (Ascii.eqb "%" "?" || Ascii.eqb "%" "#")%bool with false. cbn iota.
    destruct (hex_digit_not_delim c) as [H1 H2]. rewrite H1, H2, IH. reflexivity.
  - cbn [cut_at_query]. rewrite (unescaped_not_delim c E), IH. reflexivity.
Qed.

(* so the endpoint the server routes to, INCLUDING the parser's split at '?' / '#', is the one the client named *)
Lemma dialled_through_parser prefix id :
  match unescape_path (cut_at_query (escape_path (prefix ++ id))) with
  | Some path => route_param prefix path
  | None => None
  end = dialled_endpoint prefix id.
Proof. rewrite escaped_not_split. reflexivity. Qed.
