(* Lemmas about the header model (Proxy/Http.v): what one proxy hop does to a header list. *)
From Coq Require Import List String Ascii NArith ZArith Bool Arith Lia.
From Piko Require Import Base.Strs Proxy.Http.
Import ListNotations.
Open Scope string_scope. Open Scope list_scope.

(* ---- names ---- *)
Lemma name_eqb_refl a : name_eqb a a = true.
Proof. unfold name_eqb. apply String.eqb_refl. Qed.

Lemma name_eqb_sym a b : name_eqb a b = name_eqb b a.
Proof. unfold name_eqb. apply String.eqb_sym. Qed.

Lemma name_eqb_true a b : name_eqb a b = true <-> lower a = lower b.
Proof. unfold name_eqb. apply String.eqb_eq. Qed.

Lemma name_eqb_trans a b c : name_eqb a b = true -> name_eqb b c = true -> name_eqb a c = true.
Proof. rewrite !name_eqb_true. congruence. Qed.

Lemma name_eqb_cong a b c : name_eqb a b = true -> name_eqb a c = name_eqb b c.
Proof.
  intros H. apply name_eqb_true in H. unfold name_eqb. rewrite H. reflexivity.
Qed.

Lemma name_eqb_cong_r a b c : name_eqb a b = true -> name_eqb c a = name_eqb c b.
Proof. intros H. rewrite (name_eqb_sym c a), (name_eqb_sym c b). apply name_eqb_cong, H. Qed.

(* ---- hvalues through the header operations ---- *)
Lemma hvalues_app nm a b : hvalues nm (a ++ b) = hvalues nm a ++ hvalues nm b.
Proof.
  induction a as [|[k v] a IH]; cbn; [reflexivity|].
  destruct (name_eqb nm k); cbn; rewrite IH; reflexivity.
Qed.

Lemma hvalues_filter_keep nm (p : header -> bool) hs :
  (forall k v, name_eqb nm k = true -> p (k, v) = true) ->
  hvalues nm (filter p hs) = hvalues nm hs.
Proof.
  intros Hp. induction hs as [|[k v] hs IH]; cbn; [reflexivity|].
  destruct (name_eqb nm k) eqn:E.
  - rewrite (Hp k v E). cbn. rewrite E, IH. reflexivity.
  - destruct (p (k, v)); cbn; [rewrite E|]; exact IH.
Qed.

Lemma hvalues_filter_drop nm (p : header -> bool) hs :
  (forall k v, name_eqb nm k = true -> p (k, v) = false) ->
  hvalues nm (filter p hs) = [].
Proof.
  intros Hp. induction hs as [|[k v] hs IH]; cbn; [reflexivity|].
  destruct (p (k, v)) eqn:E; [|exact IH].
  cbn. destruct (name_eqb nm k) eqn:E2; [|exact IH].
  rewrite (Hp k v E2) in E. discriminate.
Qed.

Lemma hvalues_hdel nm k hs :
  hvalues nm (hdel k hs) = if name_eqb k nm then [] else hvalues nm hs.
Proof.
  unfold hdel. destruct (name_eqb k nm) eqn:E.
  - apply hvalues_filter_drop. intros k' v H. cbn.
    rewrite (name_eqb_trans k nm k' E H). reflexivity.
  - apply hvalues_filter_keep. intros k' v H. cbn.
    destruct (name_eqb k k') eqn:E2; [|reflexivity].
    rewrite name_eqb_sym in H. rewrite (name_eqb_trans k k' nm E2 H) in E. discriminate.
Qed.

Lemma hvalues_hset nm k v hs :
  hvalues nm (hset k v hs) = if name_eqb k nm then [v] else hvalues nm hs.
Proof.
  unfold hset. rewrite hvalues_app, hvalues_hdel. cbn. rewrite (name_eqb_sym nm k).
  destruct (name_eqb k nm); cbn; [reflexivity|apply app_nil_r].
Qed.

Lemma hvalues_hdel_all nm names hs :
  hvalues nm (hdel_all names hs) = if existsb (fun n => name_eqb n nm) names then [] else hvalues nm hs.
Proof.
  unfold hdel_all. destruct (existsb (fun n => name_eqb n nm) names) eqn:E.
  - apply hvalues_filter_drop. intros k v H. cbn.
    apply existsb_exists in E. destruct E as [n [Hin Hn]].
    assert (Hx : existsb (fun n0 => name_eqb n0 k) names = true).
    { apply existsb_exists. exists n. split; [exact Hin|]. exact (name_eqb_trans n nm k Hn H). }
    rewrite Hx. reflexivity.
  - apply hvalues_filter_keep. intros k v H. cbn.
    destruct (existsb (fun n => name_eqb n k) names) eqn:E2; [|reflexivity].
    apply existsb_exists in E2. destruct E2 as [n [Hin Hn]].
    rewrite name_eqb_sym in H.
    assert (Hx : existsb (fun n0 => name_eqb n0 nm) names = true).
    { apply existsb_exists. exists n. split; [exact Hin|]. exact (name_eqb_trans n k nm Hn H). }
    rewrite Hx in E. discriminate.
Qed.

Lemma hvalues_map_const nm k (vs : list string) :
  hvalues nm (map (fun v => (k, v)) vs) = if name_eqb nm k then vs else [].
Proof.
  induction vs as [|v vs IH]; cbn; [destruct (name_eqb nm k); reflexivity|].
  destruct (name_eqb nm k) eqn:E; rewrite IH; reflexivity.
Qed.

Lemma hget_hvalues nm hs hs' : hvalues nm hs = hvalues nm hs' -> hget nm hs = hget nm hs'.
Proof. unfold hget. intros ->. reflexivity. Qed.

Lemma hvalues_name_cong a b hs : name_eqb a b = true -> hvalues a hs = hvalues b hs.
Proof.
  intros H. induction hs as [|[k v] hs IH]; cbn; [reflexivity|].
  rewrite (name_eqb_cong a b k H), IH. reflexivity.
Qed.

(* ---- split / join ---- *)
Fixpoint comma_free (s : string) : bool :=
  match s with EmptyString => true | String a r => negb (Ascii.eqb a ",") && comma_free r end.

Lemma split_comma_nonempty s : split_comma s <> [].
Proof.
  destruct s as [|a r]; cbn; [discriminate|].
  destruct (Ascii.eqb a ","); [discriminate|]. destruct (split_comma r); discriminate.
Qed.

Lemma split_comma_free x : comma_free x = true -> split_comma x = [x].
Proof.
  induction x as [|a x IH]; cbn; [reflexivity|].
  intros H. apply andb_true_iff in H. destruct H as [Ha Hx].
  destruct (Ascii.eqb a ","); [discriminate|]. rewrite (IH Hx). reflexivity.
Qed.

Lemma split_comma_cons x s :
  comma_free x = true -> split_comma (x ++ String "," s)%string = x :: split_comma s.
Proof.
  induction x as [|a x IH]; cbn.
  - reflexivity.
  - intros H. apply andb_true_iff in H. destruct H as [Ha Hx].
    destruct (Ascii.eqb a ","); [discriminate|]. rewrite (IH Hx). reflexivity.
Qed.

Lemma split_comma_all_free s : Forall (fun t => comma_free t = true) (split_comma s).
Proof.
  induction s as [|a s IH]; cbn.
  - constructor; [reflexivity|constructor].
  - destruct (Ascii.eqb a ",") eqn:E.
    + constructor; [reflexivity|exact IH].
    + destruct (split_comma s) as [|x rest].
      * constructor; [cbn; rewrite E; reflexivity|constructor].
      * inversion IH as [|? ? Hx Hr]; subst. constructor; [cbn; rewrite E, Hx; reflexivity|exact Hr].
Qed.

Lemma split_join l :
  Forall (fun t => comma_free t = true) l -> l <> [] -> split_comma (join_comma l) = l.
Proof.
  induction l as [|x l IH]; [congruence|].
  intros HF _. inversion HF as [|? ? Hx Hl]; subst.
  destruct l as [|y l].
  - cbn. apply split_comma_free, Hx.
  - change (join_comma (x :: y :: l)) with (x ++ String "," (join_comma (y :: l)))%string.
    rewrite (split_comma_cons _ _ Hx). rewrite IH; [reflexivity|exact Hl|discriminate].
Qed.

Lemma Forall_filter {A} (P : A -> Prop) p (l : list A) : Forall P l -> Forall P (filter p l).
Proof.
  induction 1 as [|x l Hx Hl IH]; cbn; [constructor|]. destruct (p x); [constructor; assumption|assumption].
Qed.

(* ---- Connection tokens ---- *)
Definition tokens_of_value (v : string) : list string :=
  filter (fun t => negb (String.eqb t "")) (map trim (split_comma v)).

Definition tokens_of_values (vals : list string) : list string := flat_map tokens_of_value vals.

Lemma connection_tokens_values hs : connection_tokens hs = tokens_of_values (hvalues "Connection" hs).
Proof. reflexivity. Qed.

Definition not_control (t : string) : bool := negb (prefixb "x-piko-" (lower t)).

Lemma filter_trim_control l :
  filter (fun t => negb (String.eqb t "")) (map trim (filter (fun t => negb (is_control_token t)) l))
  = filter not_control (filter (fun t => negb (String.eqb t "")) (map trim l)).
Proof.
  induction l as [|t l IH]; [reflexivity|].
  cbn [filter map].
  assert (En : not_control (trim t) = negb (is_control_token t)) by reflexivity.
  destruct (is_control_token t) eqn:E; cbn [negb] in *.
  - destruct (negb (String.eqb (trim t) "")) eqn:E2; cbn [filter]; [rewrite En|]; exact IH.
  - cbn [map filter]. destruct (negb (String.eqb (trim t) "")) eqn:E2; cbn [filter];
      [rewrite En, IH; reflexivity | exact IH].
Qed.

Lemma tokens_keep_value v :
  match keep_control_value v with Some v' => tokens_of_value v' | None => [] end
  = filter not_control (tokens_of_value v).
Proof.
  unfold keep_control_value, tokens_of_value.
  rewrite <- filter_trim_control.
  destruct (filter (fun t => negb (is_control_token t)) (split_comma v)) as [|t ts] eqn:E.
  - reflexivity.
  - rewrite split_join; [reflexivity| |discriminate].
    rewrite <- E. apply Forall_filter, split_comma_all_free.
Qed.

Lemma tokens_keep_values vals :
  tokens_of_values (filter_map keep_control_value vals) = filter not_control (tokens_of_values vals).
Proof.
  induction vals as [|v vals IH]; cbn; [reflexivity|].
  unfold tokens_of_values in *. cbn.
  rewrite filter_app, <- tokens_keep_value, <- IH.
  destruct (keep_control_value v); reflexivity.
Qed.

Lemma hvalues_connection_keep hs :
  hvalues "Connection" (keep_control_headers hs) = filter_map keep_control_value (hvalues "Connection" hs).
Proof.
  unfold keep_control_headers. destruct (hvalues "Connection" hs) as [|v vs] eqn:E.
  - rewrite E. reflexivity.
  - rewrite hvalues_app, hvalues_hdel, name_eqb_refl, hvalues_map_const, name_eqb_refl. reflexivity.
Qed.

Lemma hvalues_keep_other nm hs :
  name_eqb "Connection" nm = false -> hvalues nm (keep_control_headers hs) = hvalues nm hs.
Proof.
  intros Hn. unfold keep_control_headers. destruct (hvalues "Connection" hs) as [|v vs]; [reflexivity|].
  rewrite hvalues_app, hvalues_hdel, Hn, hvalues_map_const.
  rewrite name_eqb_sym, Hn. apply app_nil_r.
Qed.

(* the characterisation of keepControlHeaders: exactly the control tokens disappear from Connection *)
Lemma connection_tokens_keep hs :
  connection_tokens (keep_control_headers hs) = filter not_control (connection_tokens hs).
Proof. rewrite !connection_tokens_values, hvalues_connection_keep. apply tokens_keep_values. Qed.

Lemma connection_tokens_hset nm v hs :
  name_eqb nm "Connection" = false -> connection_tokens (hset nm v hs) = connection_tokens hs.
Proof.
  intros H. rewrite !connection_tokens_values, hvalues_hset. rewrite H. reflexivity.
Qed.

(* ---- string prefix facts for the fixed names ---- *)
Lemma prefixb_true p s : prefixb p s = true -> exists r, s = (p ++ r)%string.
Proof.
  revert s. induction p as [|a p IH]; intros s H; cbn in *.
  - exists s. reflexivity.
  - destruct s as [|b s]; [discriminate|]. apply andb_true_iff in H. destruct H as [Hab Hp].
    apply Ascii.eqb_eq in Hab. subst b. destruct (IH s Hp) as [r ->]. exists r. reflexivity.
Qed.

Definition control_name (nm : string) : bool := prefixb "x-piko-" (lower nm).

Ltac control_name_ne H :=
  unfold control_name in H; apply prefixb_true in H; destruct H as [?r H];
  unfold name_eqb; rewrite H; reflexivity.

Lemma control_not_hop nm : control_name nm = true -> is_hop_name nm = false.
Proof.
  intros H. unfold control_name in H. apply prefixb_true in H. destruct H as [r H].
  unfold is_hop_name, hop_headers, name_eqb. cbn [existsb]. rewrite H. reflexivity.
Qed.

Lemma control_not_connection nm : control_name nm = true -> name_eqb "Connection" nm = false.
Proof. intros H. control_name_ne H. Qed.
Lemma control_not_te nm : control_name nm = true -> name_eqb "Te" nm = false.
Proof. intros H. control_name_ne H. Qed.
Lemma control_not_upgrade nm : control_name nm = true -> name_eqb "Upgrade" nm = false.
Proof. intros H. control_name_ne H. Qed.
Lemma control_not_xff nm : control_name nm = true -> name_eqb "X-Forwarded-For" nm = false.
Proof. intros H. control_name_ne H. Qed.

Lemma existsb_filter_false {A} (p q : A -> bool) l :
  (forall x, p x = true -> q x = false) -> existsb p (filter q l) = false.
Proof.
  intros H. induction l as [|x l IH]; cbn; [reflexivity|].
  destruct (q x) eqn:E; [|exact IH]. cbn. rewrite IH.
  destruct (p x) eqn:E2; [|reflexivity]. rewrite (H x E2) in E. discriminate.
Qed.

(* no control header name is matched by a token that survived keepControlHeaders *)
Lemma control_not_in_kept_tokens nm toks :
  control_name nm = true -> existsb (fun t => name_eqb t nm) (filter not_control toks) = false.
Proof.
  intros H. apply existsb_filter_false. intros t Ht.
  apply name_eqb_true in Ht. unfold not_control. rewrite Ht. unfold control_name in H. rewrite H. reflexivity.
Qed.

Lemma hvalues_remove_hop nm hs :
  hvalues nm (remove_hop_by_hop hs) =
  if is_hop_name nm || existsb (fun t => name_eqb t nm) (connection_tokens hs) then [] else hvalues nm hs.
Proof.
  unfold remove_hop_by_hop. rewrite !hvalues_hdel_all. fold (is_hop_name nm).
  destruct (is_hop_name nm); [reflexivity|]. cbn. reflexivity.
Qed.

(* the tail of transform_headers (everything after removeHopByHopHeaders) leaves a name alone when it is none of
   Te / Connection / Upgrade / X-Forwarded-For *)
Lemma hvalues_transform_tail nm keep ip hs :
  name_eqb "Te" nm = false -> name_eqb "Connection" nm = false -> name_eqb "Upgrade" nm = false ->
  name_eqb "X-Forwarded-For" nm = false ->
  hvalues nm (transform_headers keep ip hs) =
  hvalues nm (remove_hop_by_hop (hset "X-Piko-Forward" "true" (if keep then keep_control_headers hs else hs))).
Proof.
  intros Hte Hc Hu Hx. unfold transform_headers.
  rewrite hvalues_hset, Hx.
  set (h2 := hset "X-Piko-Forward" "true" (if keep then keep_control_headers hs else hs)).
  destruct (String.eqb (upgrade_type h2) "").
  - destruct (te_trailers h2); [rewrite hvalues_hset, Hte|]; reflexivity.
  - rewrite hvalues_hset, Hu, hvalues_hset, Hc.
    destruct (te_trailers h2); [rewrite hvalues_hset, Hte|]; reflexivity.
Qed.

(* ---- the two facts C01 and C06 rest on (fix 5024de3): control headers survive a hop ---- *)
Lemma transform_keeps_control nm ip hs :
  control_name nm = true -> name_eqb "X-Piko-Forward" nm = false ->
  hvalues nm (transform_headers true ip hs) = hvalues nm hs.
Proof.
  intros Hc Hf.
  rewrite hvalues_transform_tail;
    [|apply control_not_te, Hc|apply control_not_connection, Hc|apply control_not_upgrade, Hc|apply control_not_xff, Hc].
  rewrite hvalues_remove_hop, (control_not_hop nm Hc). cbn [orb].
  rewrite connection_tokens_hset by reflexivity.
  rewrite connection_tokens_keep, (control_not_in_kept_tokens nm _ Hc).
  rewrite hvalues_hset, Hf. apply hvalues_keep_other, control_not_connection, Hc.
Qed.

Lemma transform_sets_forward ip hs :
  hvalues "x-piko-forward" (transform_headers true ip hs) = ["true"].
Proof.
  rewrite hvalues_transform_tail by reflexivity.
  rewrite hvalues_remove_hop. change (is_hop_name "x-piko-forward") with false. cbn [orb].
  rewrite connection_tokens_hset by reflexivity.
  rewrite connection_tokens_keep, (control_not_in_kept_tokens "x-piko-forward" _ eq_refl).
  rewrite hvalues_hset. reflexivity.
Qed.

Lemma transform_forwarded ip ep rq : is_forwarded (proxy_transform_gen true ip ep rq) = true.
Proof.
  unfold is_forwarded, proxy_transform_gen, hget. cbn [r_headers].
  rewrite transform_sets_forward. reflexivity.
Qed.

Lemma transform_keeps_endpoint_header ip ep rq :
  hget "x-piko-endpoint" (r_headers (proxy_transform_gen true ip ep rq)) = hget "x-piko-endpoint" (r_headers rq).
Proof.
  apply hget_hvalues. unfold proxy_transform_gen. cbn [r_headers].
  apply transform_keeps_control; reflexivity.
Qed.

(* ---- transparency of the header list (C08) ---- *)
Lemma existsb_filter_sub {A} (p q : A -> bool) l : existsb p l = false -> existsb p (filter q l) = false.
Proof.
  induction l as [|x l IH]; cbn; [reflexivity|].
  intros H. apply orb_false_iff in H. destruct H as [H1 H2].
  destruct (q x); cbn; [rewrite H1|]; apply IH, H2.
Qed.

Lemma e2e_name_parts hs nm :
  e2e_name hs nm = true ->
  is_hop_name nm = false /\ existsb (fun t => name_eqb t nm) (connection_tokens hs) = false
  /\ name_eqb "X-Piko-Forward" nm = false /\ name_eqb "X-Forwarded-For" nm = false.
Proof.
  unfold e2e_name. intros H.
  repeat (apply andb_true_iff in H; destruct H as [H ?]).
  repeat match goal with X : negb _ = true |- _ => apply negb_true_iff in X end.
  auto.
Qed.

Lemma hop_name_of n nm : In n hop_headers -> is_hop_name nm = false -> name_eqb n nm = false.
Proof.
  intros Hin H. unfold is_hop_name in H.
  destruct (name_eqb n nm) eqn:E; [|reflexivity].
  assert (Hx : existsb (fun n0 => name_eqb n0 nm) hop_headers = true).
  { apply existsb_exists. exists n. split; assumption. }
  rewrite Hx in H. discriminate.
Qed.

Lemma transform_e2e ip hs nm :
  e2e_name hs nm = true -> hvalues nm (transform_headers true ip hs) = hvalues nm hs.
Proof.
  intros H. destruct (e2e_name_parts hs nm H) as [Hhop [Htok [Hf Hx]]].
  assert (Hc : name_eqb "Connection" nm = false) by (apply hop_name_of; [cbn; tauto|exact Hhop]).
  rewrite hvalues_transform_tail;
    [|apply hop_name_of; [cbn; tauto|exact Hhop]|exact Hc|apply hop_name_of; [cbn; tauto|exact Hhop]|exact Hx].
  rewrite hvalues_remove_hop, Hhop. cbn [orb].
  rewrite connection_tokens_hset by reflexivity.
  rewrite connection_tokens_keep, (existsb_filter_sub _ _ _ Htok).
  rewrite hvalues_hset, Hf. apply hvalues_keep_other, Hc.
Qed.

(* after a hop the Connection header is absent or exactly "Upgrade" *)
Lemma transform_connection keep ip hs :
  hvalues "Connection" (transform_headers keep ip hs) = [] \/
  hvalues "Connection" (transform_headers keep ip hs) = ["Upgrade"].
Proof.
  unfold transform_headers.
  set (h2 := hset "X-Piko-Forward" "true" (if keep then keep_control_headers hs else hs)).
  rewrite hvalues_hset. change (name_eqb "X-Forwarded-For" "Connection") with false. cbn match.
  assert (H3 : hvalues "Connection" (remove_hop_by_hop h2) = []).
  { rewrite hvalues_remove_hop. reflexivity. }
  destruct (String.eqb (upgrade_type h2) "").
  - left. destruct (te_trailers h2); [rewrite hvalues_hset; cbn|]; exact H3.
  - right. rewrite hvalues_hset. change (name_eqb "Upgrade" "Connection") with false. cbn match.
    rewrite hvalues_hset. reflexivity.
Qed.

Lemma tokens_of_upgrade : tokens_of_values ["Upgrade"] = ["Upgrade"].
Proof. reflexivity. Qed.

Lemma e2e_name_after keep ip hs nm :
  e2e_name hs nm = true -> e2e_name (transform_headers keep ip hs) nm = true.
Proof.
  intros H. destruct (e2e_name_parts hs nm H) as [Hhop [Htok [Hf Hx]]].
  unfold e2e_name. rewrite Hhop, Hf, Hx.
  rewrite connection_tokens_values.
  destruct (transform_connection keep ip hs) as [-> | ->].
  - reflexivity.
  - rewrite tokens_of_upgrade. cbn [existsb].
    rewrite (hop_name_of "Upgrade" nm); [reflexivity|cbn [hop_headers In]; tauto|exact Hhop].
Qed.

Lemma transform_e2e_twice ip ip' hs nm :
  e2e_name hs nm = true ->
  hvalues nm (transform_headers true ip' (transform_headers true ip hs)) = hvalues nm hs.
Proof.
  intros H. rewrite transform_e2e by (apply e2e_name_after, H). apply transform_e2e, H.
Qed.

(* response direction *)
Lemma resp_e2e hs nm : e2e_resp_name hs nm = true -> hvalues nm (remove_hop_by_hop hs) = hvalues nm hs.
Proof.
  unfold e2e_resp_name. intros H. apply andb_true_iff in H. destruct H as [H1 H2].
  apply negb_true_iff in H1, H2. rewrite hvalues_remove_hop, H1, H2. reflexivity.
Qed.

Lemma resp_e2e_twice hs nm :
  e2e_resp_name hs nm = true -> hvalues nm (remove_hop_by_hop (remove_hop_by_hop hs)) = hvalues nm hs.
Proof.
  intros H. rewrite <- (resp_e2e hs nm H). apply resp_e2e.
  unfold e2e_resp_name in *. apply andb_true_iff in H. destruct H as [H1 H2]. rewrite H1.
  rewrite connection_tokens_values, hvalues_remove_hop. reflexivity.
Qed.

(* ---- the Upgrade header across a hop (timeout decision of the second node) ---- *)
Lemma announces_kept hs :
  existsb (fun t => String.eqb (lower t) "upgrade")
          (connection_tokens (hset "X-Piko-Forward" "true" (keep_control_headers hs)))
  = existsb (fun t => String.eqb (lower t) "upgrade") (connection_tokens hs).
Proof.
  rewrite connection_tokens_hset by reflexivity. rewrite connection_tokens_keep.
  induction (connection_tokens hs) as [|t l IH]; [reflexivity|].
  cbn [filter existsb]. unfold not_control at 1. destruct (prefixb "x-piko-" (lower t)) eqn:E; cbn [negb].
  - rewrite IH. destruct (String.eqb (lower t) "upgrade") eqn:E2; [|reflexivity].
    apply String.eqb_eq in E2. rewrite E2 in E. discriminate.
  - cbn [existsb]. rewrite IH. reflexivity.
Qed.

Lemma hvalues_upgrade_removed hs : hvalues "Upgrade" (remove_hop_by_hop hs) = [].
Proof. rewrite hvalues_remove_hop. reflexivity. Qed.

Lemma transform_upgrade_header ip hs :
  hvalues "Upgrade" (transform_headers true ip hs) =
  if existsb (fun t => String.eqb (lower t) "upgrade") (connection_tokens hs)
     && negb (String.eqb (hget "Upgrade" hs) "")
  then [hget "Upgrade" hs] else [].
Proof.
  unfold transform_headers.
  set (h2 := hset "X-Piko-Forward" "true" (keep_control_headers hs)).
  rewrite hvalues_hset. change (name_eqb "X-Forwarded-For" "Upgrade") with false. cbv iota.
  assert (Hup : upgrade_type h2 =
                if existsb (fun t => String.eqb (lower t) "upgrade") (connection_tokens hs)
                then hget "Upgrade" hs else "").
  { unfold upgrade_type. unfold h2 at 1. rewrite announces_kept.
    destruct (existsb _ (connection_tokens hs)); [|reflexivity].
    apply hget_hvalues. unfold h2. rewrite hvalues_hset. change (name_eqb "X-Piko-Forward" "Upgrade") with false.
    cbv iota. apply hvalues_keep_other. reflexivity. }
  assert (H3 : hvalues "Upgrade" (remove_hop_by_hop h2) = []) by apply hvalues_upgrade_removed.
  assert (H4 : hvalues "Upgrade" (if te_trailers h2 then hset "Te" "trailers" (remove_hop_by_hop h2)
                                  else remove_hop_by_hop h2) = []).
  { destruct (te_trailers h2); [rewrite hvalues_hset; change (name_eqb "Te" "Upgrade") with false; cbv iota|]; exact H3. }
  rewrite Hup.
  destruct (existsb (fun t => String.eqb (lower t) "upgrade") (connection_tokens hs)); cbn [andb].
  - destruct (String.eqb (hget "Upgrade" hs) "") eqn:E; cbn [negb].
    + exact H4.
    + rewrite hvalues_hset, name_eqb_refl. reflexivity.
  - change (String.eqb "" "") with true. cbv iota. exact H4.
Qed.

Lemma upgrade_name_eq : name_eqb "upgrade" "Upgrade" = true.
Proof. reflexivity. Qed.

Lemma transform_ws_upgrade ip ep rq :
  is_ws_upgrade rq = false \/ announces_upgrade rq = true ->
  is_ws_upgrade (proxy_transform_gen true ip ep rq) = is_ws_upgrade rq.
Proof.
  unfold is_ws_upgrade, announces_upgrade, proxy_transform_gen. cbn [r_headers].
  intros H. unfold hget at 1.
  rewrite (hvalues_name_cong "upgrade" "Upgrade" _ upgrade_name_eq).
  rewrite transform_upgrade_header.
  assert (Hg : hget "Upgrade" (r_headers rq) = hget "upgrade" (r_headers rq)).
  { unfold hget. rewrite (hvalues_name_cong "upgrade" "Upgrade" _ upgrade_name_eq). reflexivity. }
  destruct (existsb (fun t => String.eqb (lower t) "upgrade") (connection_tokens (r_headers rq))) eqn:Ea; cbn [andb].
  - destruct (String.eqb (hget "Upgrade" (r_headers rq)) "") eqn:E; cbn [negb].
    + apply String.eqb_eq in E. rewrite <- Hg, E. reflexivity.
    + rewrite Hg. reflexivity.
  - destruct H as [H|H]; [|discriminate]. rewrite H. reflexivity.
Qed.
