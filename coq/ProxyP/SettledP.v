(* Proofs about the cluster model, part 2: local first, the second hop, settled routing tables, and
   well-formedness of clusters built by AddConn. *)
From Coq Require Import List String Ascii NArith ZArith Bool Arith Lia.
From Piko Require Import Base.Maps Base.Strs Proxy.Endpoint Proxy.Http Proxy.Route ProxyP.HttpP ProxyP.RouteP.
Import ListNotations.
Open Scope string_scope. Open Scope list_scope.

(* ---- clusters built by the real registration path are well formed ---- *)
Definition local_ok (m : amap (list upstream)) : Prop :=
  forall ep us, lookup ep m = Some us -> us <> [] /\ forall u, In u us -> u_ep u = ep.

Lemma add_conn_ok u m : local_ok m -> local_ok (add_conn u m).
Proof.
  intros Hm ep us. unfold add_conn.
  destruct (lookup (u_ep u) m) as [old|] eqn:E; rewrite lookup_insert;
    destruct (String.eqb ep (u_ep u)) eqn:Ee; try (apply Hm).
  - apply String.eqb_eq in Ee. subst ep. intros [= <-]. split.
    + destruct old; discriminate.
    + intros x Hx. apply in_app_or in Hx. destruct Hx as [Hx|[<-|[]]]; [|reflexivity].
      apply (proj2 (Hm _ _ E)), Hx.
  - apply String.eqb_eq in Ee. subst ep. intros [= <-]. split; [discriminate|].
    intros x [<-|[]]. reflexivity.
Qed.

Lemma place_ok us : local_ok (place us).
Proof.
  unfold place.
  assert (H : forall m, local_ok m -> local_ok (fold_left (fun m u => add_conn u m) us m)).
  { induction us as [|u us IH]; intros m Hm; cbn; [exact Hm|]. apply IH, add_conn_ok, Hm. }
  apply H. intros ep l. cbn. discriminate.
Qed.

Lemma build_node_wf id addr t us view : wf_node (build_node id addr t us view).
Proof. unfold wf_node, build_node. cbn [n_local]. apply place_ok. Qed.

(* ---- helpers ---- *)
Lemma NoDup_map_inj {A B} (f : A -> B) l x y :
  NoDup (map f l) -> In x l -> In y l -> f x = f y -> x = y.
Proof.
  induction l as [|z l IH]; cbn; [tauto|].
  intros Hnd Hx Hy Hf. inversion Hnd as [|? ? Hni Hnd']; subst.
  destruct Hx as [->|Hx], Hy as [->|Hy]; auto.
  - exfalso. apply Hni. rewrite Hf. apply in_map, Hy.
  - exfalso. apply Hni. rewrite <- Hf. apply in_map, Hx.
Qed.

Lemma has_local_lookup n ep : wf_node n -> has_local n ep = false -> lookup ep (n_local n) = None.
Proof.
  intros Hwf. unfold has_local. destruct (lookup ep (n_local n)) as [[|u us]|] eqn:E; try discriminate; [|reflexivity].
  destruct (Hwf _ _ E) as [Hx _]. congruence.
Qed.

Lemma has_local_true n ep : has_local n ep = true -> exists us, lookup ep (n_local n) = Some us /\ us <> [].
Proof.
  unfold has_local. destruct (lookup ep (n_local n)) as [[|u us]|]; try discriminate.
  intros _. eexists. split; [reflexivity|discriminate].
Qed.

Lemma pre_ok_e4 e rq : pre_ok e rq ->
  (match route_of rq with RHttp => String.eqb (addressed_endpoint rq) "" | RTcp _ => false end) = false
  /\ negb (permitted (e_token e) (addressed_endpoint rq)) = false.
Proof.
  intros [Hne Hp]. split; [|rewrite Hp; reflexivity].
  destruct (route_of rq); [|reflexivity]. apply String.eqb_neq, Hne. reflexivity.
Qed.

Lemma step_none rec c e ni n rq :
  nth_error c ni = Some n -> pre_ok e rq -> lookup (addressed_endpoint rq) (n_local n) = None ->
  (is_forwarded rq = true \/ lookup_endpoint n (addressed_endpoint rq) = []) ->
  handle_step rec c e ni rq = fin (Status 502) [EInvoke ni].
Proof.
  intros Hn Hpre Hl Hor. unfold handle_step. rewrite Hn.
  destruct (pre_ok_e4 e rq Hpre) as [-> ->]. unfold select. rewrite Hl.
  destruct Hor as [-> | ->]; [reflexivity|]. destruct (negb (is_forwarded rq)); reflexivity.
Qed.

Lemma step_remote rec c e ni n rq :
  nth_error c ni = Some n -> pre_ok e rq -> lookup (addressed_endpoint rq) (n_local n) = None ->
  is_forwarded rq = false -> lookup_endpoint n (addressed_endpoint rq) <> [] ->
  exists v, In v (lookup_endpoint n (addressed_endpoint rq)) /\
    handle_step rec c e ni rq =
    match owner c (v_addr v) with
    | None => fin (Status 502) [EInvoke ni; EDialNode ni (v_addr v)]
    | Some mi => forward_result ni n rq (v_addr v)
                   (rec mi (proxy_transform_gen (e_keep e) (e_client_ip e) (addressed_endpoint rq) rq))
    end.
Proof.
  intros Hn Hpre Hl Hf Hne. unfold handle_step. rewrite Hn.
  destruct (pre_ok_e4 e rq Hpre) as [-> ->]. unfold select. rewrite Hl, Hf. cbn [negb].
  destruct (lookup_endpoint n (addressed_endpoint rq)) as [|v0 vs] eqn:E; [congruence|].
  destruct (pick_some (e_pick_node e) (v0 :: vs) ltac:(discriminate)) as [v Hv]. rewrite Hv.
  exists v. split; [eapply pick_In, Hv|reflexivity].
Qed.

Lemma lookup_endpoint_In n ep v :
  In v (lookup_endpoint n ep) <->
  In v (n_view n) /\ v_id v <> n_id n /\ v_status v = Active /\
  (match lookup ep (v_eps v) with Some k => (0 <? k)%Z | None => false end) = true.
Proof.
  unfold lookup_endpoint. rewrite filter_In. split.
  - intros [Hin H]. apply andb_true_iff in H. destruct H as [H H3]. apply andb_true_iff in H. destruct H as [H1 H2].
    apply negb_true_iff, String.eqb_neq in H1. destruct (v_status v); try discriminate. auto.
  - intros [Hin [H1 [H2 H3]]]. split; [exact Hin|]. rewrite H2, H3.
    apply String.eqb_neq in H1. rewrite H1. reflexivity.
Qed.

(* the precise outcomes of serving from a local upstream *)
Lemma serve_local_cases e ni n rt rq u :
  (exists rs, res_out (serve_local e ni n rt rq u) = Served ni u rs)
  \/ (res_out (serve_local e ni n rt rq u) = Status 502 /\ (u_beh u = UDialFail \/ u_beh u = UReset))
  \/ (res_out (serve_local e ni n rt rq u) = Status 504 /\
      exists d, u_beh u = UAnswer d /\ applies_timeout n rq = true /\ (n_timeout n <= d)%Z).
Proof.
  unfold serve_local. destruct rt; destruct (u_beh u) eqn:Eb; cbn; eauto 10.
  destruct (applies_timeout n rq && (n_timeout n <=? delay)%Z) eqn:E; cbn; eauto.
  apply andb_true_iff in E. destruct E as [E1 E2]. apply Z.leb_le in E2. right. right. eauto 10.
Qed.

Lemma forward_result_up ni n rq addr r : res_up (forward_result ni n rq addr r) = res_up r.
Proof.
  unfold forward_result. destruct (applies_timeout n rq && (n_timeout n <=? res_elapsed r)%Z); reflexivity.
Qed.

(* ---- settled routing tables ---- *)
Lemma applies_timeout_nonzero n rq : applies_timeout n rq = true -> n_timeout n <> 0%Z.
Proof.
  unfold applies_timeout. intros H. apply andb_true_iff in H. destruct H as [H _].
  apply negb_true_iff, Z.eqb_neq in H. exact H.
Qed.

Lemma serve_local_reaches c e ni n rt rq u us ep :
  wf_cluster c -> nth_error c ni = Some n -> lookup ep (n_local n) = Some us -> In u us ->
  reaches c ep (serve_local e ni n rt rq u).
Proof.
  intros Hwf Hn Hl Hin.
  assert (Hu : u_ep u = ep) by (apply (proj2 (wf_nth _ _ _ Hwf Hn ep us Hl)), Hin).
  assert (Hnin : In n c) by (eapply nth_error_In, Hn).
  exists ni, u. split; [exists n, us; rewrite Hu; auto|]. split; [exact Hu|]. split; [apply serve_local_up|].
  unfold serve_local, elapsed_ok. destruct rt; destruct (u_beh u) eqn:Eb; cbn; try (split; [left; lia|eauto 10]).
  destruct (applies_timeout n rq && (n_timeout n <=? delay)%Z) eqn:E; cbn.
  - apply andb_true_iff in E. destruct E as [E1 E2]. apply Z.leb_le in E2.
    split; [right; eauto|]. right. right. split; [reflexivity|].
    exists n. split; [exact Hnin|]. split; [apply applies_timeout_nonzero with rq, E1|reflexivity].
  - split; [right; exists delay; split; [reflexivity|lia]|eauto].
Qed.

Lemma forward_reaches c ep ni n rq addr r :
  In n c -> reaches c ep r -> reaches c ep (forward_result ni n rq addr r).
Proof.
  intros Hnin [k [u [Hreg [Hep [Hup [Hel Hout]]]]]]. exists k, u. split; [exact Hreg|]. split; [exact Hep|].
  split; [rewrite forward_result_up; exact Hup|].
  unfold forward_result.
  destruct (applies_timeout n rq && (n_timeout n <=? res_elapsed r)%Z) eqn:E; cbn [res_out res_elapsed].
  - apply andb_true_iff in E. destruct E as [E1 E2]. apply Z.leb_le in E2. split.
    + unfold elapsed_ok in *. cbn [res_elapsed].
      destruct Hel as [Hel | [d [Hb Hel]]]; [left; lia|right; exists d; split; [exact Hb|lia]].
    + right. right. split; [reflexivity|]. exists n. split; [exact Hnin|].
      split; [apply applies_timeout_nonzero with rq, E1|reflexivity].
  - split; [exact Hel|].
    destruct Hout as [[rs Hs] | [[Hs Hb] | [Hs Hn]]]; rewrite Hs; eauto.
Qed.

Theorem settled_served c e entry a rq :
  wf_cluster c -> settled c -> e_keep e = true ->
  nth_error c entry = Some a -> pre_ok e rq -> is_forwarded rq = false ->
  (exists m, In m c /\ has_local m (addressed_endpoint rq) = true) ->
  reaches c (addressed_endpoint rq) (deliver c e entry rq).
Proof.
  intros Hwf Hset Hk Ha Hpre Hf [m [Hm Hhas]].
  rewrite deliver_two by exact Hk. cbn [handle].
  set (rec := handle_step (fun _ _ => fin (Status 0) []) c e).
  set (ep := addressed_endpoint rq) in *.
  assert (Hain : In a c) by (eapply nth_error_In, Ha).
  destruct (has_local a ep) eqn:Eloc.
  - (* served by the entry node itself *)
    destruct (has_local_true _ _ Eloc) as [us [Hl Hus]].
    destruct (step_local_first rec c e entry a rq us Ha Hpre Hl Hus) as [u [Hin ->]].
    eapply serve_local_reaches; eauto.
  - assert (Hlnone : lookup ep (n_local a) = None).
    { apply has_local_lookup; [eapply wf_nth; eauto|exact Eloc]. }
    pose proof Hwf as [Hwfn [Haddr Hids]].
    destruct (Hset a Hain) as [Hv1 Hv2].
    assert (Hma : n_id m <> n_id a).
    { intros Heq. assert (m = a) by (apply (NoDup_map_inj n_id c); assumption). subst m. congruence. }
    destruct (Hv2 m Hm Hma) as [v [Hvin [Hvid [Hvaddr [Hvst Hveps]]]]].
    assert (Hcand : lookup_endpoint a ep <> []).
    { intros Hnil. assert (Hx : In v (lookup_endpoint a ep)).
      { apply lookup_endpoint_In. repeat split; auto; [congruence|]. rewrite Hveps. exact Hhas. }
      rewrite Hnil in Hx. exact Hx. }
    destruct (step_remote rec c e entry a rq Ha Hpre Hlnone Hf Hcand) as [v' [Hv'in ->]].
    apply lookup_endpoint_In in Hv'in. destruct Hv'in as [Hv'view [Hv'id [Hv'st Hv'cnt]]].
    destruct (Hv1 v' Hv'view Hv'id Hv'st) as [m' [Hm' [Hm'id [Hm'addr Hm'eps]]]].
    assert (Hm'has : has_local m' ep = true) by (rewrite <- Hm'eps; exact Hv'cnt).
    destruct (owner c (v_addr v')) as [mi|] eqn:Eo.
    + destruct (owner_some _ _ _ Eo) as [m'' [Hmi Hm''addr]].
      assert (m'' = m').
      { apply (NoDup_map_inj n_addr c); [exact Haddr|eapply nth_error_In, Hmi|exact Hm'|congruence]. }
      subst m''.
      apply forward_reaches; [exact Hain|].
      destruct (pre_ok_transform e rq Hk Hpre) as [Hpre' Ha'].
      fold ep in Ha'.
      set (rq' := proxy_transform_gen (e_keep e) (e_client_ip e) ep rq) in *.
      destruct (has_local_true _ _ Hm'has) as [us [Hl Hus]].
      rewrite <- Ha' in Hl.
      change (reaches c ep (handle_step (fun _ _ => fin (Status 0) []) c e mi rq')).
      destruct (step_local_first (fun _ _ => fin (Status 0) []) c e mi m' rq' us Hmi Hpre' Hl Hus) as [u [Hin ->]].
      rewrite Ha' in Hl. eapply serve_local_reaches; eauto.
    + exfalso. unfold owner in Eo.
      pose proof (find_index_none _ _ m' Eo Hm') as Hx. cbn in Hx.
      rewrite Hm'addr, String.eqb_refl in Hx. discriminate.
Qed.

Theorem settled_none c e entry a rq :
  wf_cluster c -> settled c -> e_keep e = true ->
  nth_error c entry = Some a -> pre_ok e rq ->
  (forall m, In m c -> has_local m (addressed_endpoint rq) = false) ->
  deliver c e entry rq = fin (Status 502) [EInvoke entry].
Proof.
  intros Hwf Hset Hk Ha Hpre Hno.
  rewrite deliver_two by exact Hk. cbn [handle].
  assert (Hain : In a c) by (eapply nth_error_In, Ha).
  apply step_none with (n := a); auto.
  - apply has_local_lookup; [eapply wf_nth; eauto|apply Hno, Hain].
  - right. destruct (lookup_endpoint a (addressed_endpoint rq)) as [|v vs] eqn:E; [reflexivity|exfalso].
    assert (Hv : In v (lookup_endpoint a (addressed_endpoint rq))) by (rewrite E; left; reflexivity).
    apply lookup_endpoint_In in Hv. destruct Hv as [Hview [Hid [Hst Hcnt]]].
    destruct (Hset a Hain) as [Hv1 _].
    destruct (Hv1 v Hview Hid Hst) as [m' [Hm' [_ [_ Heps]]]].
    rewrite Heps, (Hno m' Hm') in Hcnt. discriminate.
Qed.

Lemma reaches_healthy c ep r :
  healthy c -> reaches c ep r ->
  exists k u rs, res_out r = Served k u rs /\ u_ep u = ep /\ registered_on c k u.
Proof.
  intros [Hpos Hh] [k [u [Hreg [Hep [Hup [Hel Hout]]]]]].
  destruct Hreg as [m [us [Hm [Hl Hin]]]].
  assert (Hmin : In m c) by (eapply nth_error_In, Hm).
  destruct (Hh m _ us u Hmin Hl Hin) as [d [Hb Ht]].
  destruct Hout as [[rs Hs] | [[Hs [Hx|Hx]] | [Hs [n [Hn [Hnz Hen]]]]]]; try congruence.
  - exists k, u, rs. split; [exact Hs|]. split; [exact Hep|]. exists m, us. auto.
  - exfalso. specialize (Hpos n Hn). destruct (Ht n Hn) as [H0|Hlt]; [congruence|].
    destruct Hel as [Hel | [d' [Hb' Hel]]]; [lia|]. rewrite Hb in Hb'. injection Hb' as <-. lia.
Qed.

Lemma exists_local_dec (c : cluster) ep :
  (exists m, In m c /\ has_local m ep = true) \/ (forall m, In m c -> has_local m ep = false).
Proof.
  induction c as [|n c IH]; [right; intros m []|].
  destruct (has_local n ep) eqn:E; [left; exists n; split; [left; reflexivity|exact E]|].
  destruct IH as [[m [Hm Hh]] | Hno]; [left; exists m; split; [right; exact Hm|exact Hh]|].
  right. intros m [<-|Hm]; [exact E|apply Hno, Hm].
Qed.
