(* Proofs for C08 (transparency, status table, totality) and the second-hop clause of C06. *)
From Coq Require Import List String Ascii NArith ZArith Bool Arith Lia.
From Piko Require Import Base.Maps Base.Strs Proxy.Endpoint Proxy.Http Proxy.Route ProxyP.HttpP ProxyP.RouteP ProxyP.SettledP.
Import ListNotations.
Open Scope string_scope. Open Scope list_scope.

(* ---- transparency ---- *)
Lemma host_kept ip ep rq : r_host rq <> "" -> r_host (proxy_transform_gen true ip ep rq) = r_host rq.
Proof.
  intros H. cbn [proxy_transform_gen r_host]. apply String.eqb_neq in H. rewrite H. reflexivity.
Qed.

Lemma req_transparent_once ip ep rq : req_transparent rq (proxy_transform_gen true ip ep rq).
Proof.
  repeat split; try reflexivity.
  - apply host_kept.
  - intros nm H. cbn [proxy_transform_gen r_headers]. apply transform_e2e, H.
Qed.

Lemma req_transparent_twice ip ep ip' ep' rq :
  req_transparent rq (proxy_transform_gen true ip' ep' (proxy_transform_gen true ip ep rq)).
Proof.
  repeat split; try reflexivity.
  - intros H. rewrite host_kept; rewrite host_kept; auto.
  - intros nm H. cbn [proxy_transform_gen r_headers]. apply transform_e2e_twice, H.
Qed.

Lemma resp_transparent_once rs0 : resp_transparent rs0 (resp_transform rs0).
Proof. repeat split. intros nm H. cbn. apply resp_e2e, H. Qed.

Lemma resp_transparent_twice rs0 : resp_transparent rs0 (resp_transform (resp_transform rs0)).
Proof. repeat split. intros nm H. cbn. apply resp_e2e_twice, H. Qed.

Lemma serve_local_http_served e ni n rq u k u' rs :
  res_out (serve_local e ni n RHttp rq u) = Served k u' rs ->
  let rq' := proxy_transform_gen (e_keep e) (e_client_ip e) (addressed_endpoint rq) rq in
  k = ni /\ u' = u /\ res_upreq (serve_local e ni n RHttp rq u) = Some rq' /\ rs = resp_transform (e_respond e u rq').
Proof.
  unfold serve_local. destruct (u_beh u); try discriminate.
  destruct (applies_timeout n rq && (n_timeout n <=? delay)%Z); [discriminate|].
  cbn. intros [= <- <- <-]. auto.
Qed.

Lemma forward_result_served ni n rq addr r k u rs :
  route_of rq = RHttp ->
  res_out (forward_result ni n rq addr r) = Served k u rs ->
  exists rs2, res_out r = Served k u rs2 /\ rs = resp_transform rs2
              /\ res_upreq (forward_result ni n rq addr r) = res_upreq r.
Proof.
  intros Hr. unfold forward_result. rewrite Hr.
  destruct (applies_timeout n rq && (n_timeout n <=? res_elapsed r)%Z); [discriminate|].
  cbn. destruct (res_out r) as [k2 u2 rs2|]; [|discriminate]. intros [= <- <- <-]. eauto.
Qed.

Theorem transparent c e entry rq k u rs :
  e_keep e = true -> route_of rq = RHttp ->
  res_out (deliver c e entry rq) = Served k u rs ->
  exists rq', res_upreq (deliver c e entry rq) = Some rq' /\ req_transparent rq rq'
              /\ resp_transparent (e_respond e u rq') rs.
Proof.
  intros Hk Hr. rewrite deliver_two by exact Hk. cbn [handle].
  set (rec := handle_step (fun _ _ => fin (Status 0) []) c e).
  assert (Hrec : forall mi rq', is_forwarded rq' = true -> hop2_spec c e mi rq' (rec mi rq')).
  { intros mi rq' Hf. apply hop2_holds, Hf. }
  destruct (handle_step_spec rec c e entry rq) as
      [Hn | n Hn Hr' He | n Hn Hne Hp | n Hn Hpre Hs | n us Hn Hpre Hs Hp | n us u0 Hn Hpre Hs Hp
       | n vs Hn Hpre Hs Hp | n vs v Hn Hpre Hs Hp Ho | n vs v mi Hn Hpre Hs Hp Ho]; try discriminate.
  - rewrite Hr. intros H. destruct (serve_local_http_served _ _ _ _ _ _ _ _ H) as [-> [-> [Hup ->]]].
    rewrite Hk in *. eexists. split; [exact Hup|]. split; [apply req_transparent_once|apply resp_transparent_once].
  - intros H. destruct (forward_result_served _ _ _ _ _ _ _ _ Hr H) as [rs2 [H2 [-> Hup]]]. rewrite Hup.
    rewrite Hk in *.
    set (rq1 := proxy_transform_gen true (e_client_ip e) (addressed_endpoint rq) rq) in *.
    assert (Hf : is_forwarded rq1 = true) by apply transform_forwarded.
    destruct (Hrec mi rq1 Hf) as [Hb | Hr1 He | Hp' | m Hm _ Hl | m Hm Hl | m us u1 Hm _ Hl Hin]; try discriminate.
    assert (Hr1 : route_of rq1 = RHttp) by exact Hr. rewrite Hr1 in *.
    destruct (serve_local_http_served _ _ _ _ _ _ _ _ H2) as [-> [-> [Hup2 ->]]].
    rewrite Hk in *. eexists. split; [exact Hup2|].
    split; [apply req_transparent_twice|apply resp_transparent_twice].
Qed.

(* ---- the status table ---- *)
Section Table.
  Variables (c : cluster) (e : env) (T : Z).
  Hypothesis Hwf : wf_cluster c.
  Hypothesis Hk : e_keep e = true.
  Hypothesis HT : forall n, In n c -> n_timeout n = T.
  Hypothesis HT0 : (0 <= T)%Z.

  (* the timeout fires for upstream delay d on request rq *)
  Definition fires (rq : request) (d : Z) : bool := negb (Z.eqb T 0) && negb (is_ws_upgrade rq) && (T <=? d)%Z.

  Inductive table (rq : request) : result -> Prop :=
  | T400 r : addressed_endpoint rq = "" -> res_out r = Status 400 -> res_up r = None -> res_elapsed r = 0%Z -> table rq r
  | T502n r : addressed_endpoint rq <> "" -> res_out r = Status 502 -> res_up r = None -> res_elapsed r = 0%Z -> table rq r
  | T502u r u : addressed_endpoint rq <> "" -> res_out r = Status 502 -> res_up r = Some u ->
      (u_beh u = UDialFail \/ u_beh u = UReset) -> res_elapsed r = 0%Z -> table rq r
  | T504 r u d : addressed_endpoint rq <> "" -> res_out r = Status 504 -> res_up r = Some u -> u_beh u = UAnswer d ->
      fires rq d = true -> res_elapsed r = T -> table rq r
  | TServed r k u rs d : addressed_endpoint rq <> "" -> res_out r = Served k u rs -> res_up r = Some u -> u_beh u = UAnswer d ->
      fires rq d = false -> res_elapsed r = d -> table rq r.

  Lemma applies_fires n rq d : In n c -> applies_timeout n rq && (n_timeout n <=? d)%Z = fires rq d.
  Proof. intros Hn. unfold applies_timeout, fires. rewrite (HT n Hn). reflexivity. Qed.

  Lemma serve_local_table ni n rq u :
    In n c -> addressed_endpoint rq <> "" -> table rq (serve_local e ni n RHttp rq u).
  Proof.
    intros Hn Hne. unfold serve_local. destruct (u_beh u) eqn:Eb.
    - rewrite (applies_fires n rq delay Hn). destruct (fires rq delay) eqn:Ef.
      + apply (T504 rq _ u delay); cbn; auto.
      + apply (TServed rq _ ni u (resp_transform (e_respond e u (proxy_transform_gen (e_keep e) (e_client_ip e) (addressed_endpoint rq) rq))) delay); cbn; auto.
    - apply (T502u rq _ u); cbn; auto.
    - apply (T502u rq _ u); cbn; auto.
  Qed.

  Lemma fires_zero rq : fires rq 0 = false.
  Proof.
    unfold fires. destruct (Z.eqb_spec T 0) as [->|Hne]; [reflexivity|]. cbn.
    destruct (Z.leb_spec T 0); [lia|]. apply andb_false_r.
  Qed.

  Lemma fires_T rq d : fires rq d = true -> fires rq T = true.
  Proof.
    unfold fires. intros H. apply andb_true_iff in H. destruct H as [H _]. rewrite H. cbn. apply Z.leb_refl.
  Qed.

  (* passing a second-hop result back through the first node keeps the table row, as long as both nodes take the
     same timeout decision for the request *)
  Lemma forward_table ni n rq rq1 addr r :
    In n c -> route_of rq = RHttp -> addressed_endpoint rq <> "" ->
    is_ws_upgrade rq1 = is_ws_upgrade rq -> addressed_endpoint rq1 = addressed_endpoint rq ->
    table rq1 r -> table rq (forward_result ni n rq addr r).
  Proof.
    intros Hn Hr Hne Hws Hep Ht. unfold forward_result. rewrite (applies_fires n rq _ Hn), Hr.
    assert (Hf : forall d, fires rq1 d = fires rq d) by (intros d; unfold fires; rewrite Hws; reflexivity).
    destruct Ht as [r He Ho Hu Hel | r _ Ho Hu Hel | r u _ Ho Hu Hb Hel | r u d _ Ho Hu Hb Hfi Hel | r k u rs d _ Ho Hu Hb Hfi Hel].
    - congruence.
    - rewrite Hel, fires_zero, Ho. eapply T502n; cbn [res_out res_up res_elapsed]; eauto.
    - rewrite Hel, fires_zero, Ho. eapply T502u; cbn [res_out res_up res_elapsed]; eauto.
    - rewrite Hf in Hfi. rewrite Hel, (fires_T rq d Hfi). eapply T504; cbn [res_out res_up res_elapsed]; eauto.
    - rewrite Hf in Hfi. rewrite Hel, Hfi, Ho. eapply TServed; cbn [res_out res_up res_elapsed]; eauto.
  Qed.

  Lemma hop2_table mi rq r :
    (exists m, nth_error c mi = Some m) -> route_of rq = RHttp -> pre_ok e rq ->
    hop2_spec c e mi rq r -> table rq r.
  Proof.
    intros [m0 Hm0] Hr [Hne Hp] H.
    destruct H as [Hb | Hr1 He | Hp' | m Hm _ Hl | m Hm Hl | m us u Hm _ Hl Hin].
    - congruence.
    - exfalso. exact (Hne Hr1 He).
    - congruence.
    - eapply T502n; cbn; eauto.
    - exfalso. destruct (wf_nth _ _ _ Hwf Hm _ _ Hl) as [Hx _]. congruence.
    - rewrite Hr. apply serve_local_table; [eapply nth_error_In, Hm|auto].
  Qed.

  Theorem deliver_table entry a rq :
    nth_error c entry = Some a -> route_of rq = RHttp ->
    permitted (e_token e) (addressed_endpoint rq) = true ->
    (is_ws_upgrade rq = false \/ announces_upgrade rq = true) ->
    table rq (deliver c e entry rq).
  Proof.
    intros Ha Hr Hperm Hws. rewrite deliver_two by exact Hk. cbn [handle].
    set (rec := handle_step (fun _ _ => fin (Status 0) []) c e).
    assert (Hrec : forall mi rq', is_forwarded rq' = true -> hop2_spec c e mi rq' (rec mi rq')).
    { intros mi rq' Hf. apply hop2_holds, Hf. }
    assert (Hain : In a c) by (eapply nth_error_In, Ha).
    destruct (handle_step_spec rec c e entry rq) as
        [Hn | n Hn Hr' He | n Hn Hne Hp | n Hn Hpre Hs | n us Hn Hpre Hs Hp | n us u0 Hn Hpre Hs Hp
         | n vs Hn Hpre Hs Hp | n vs v Hn Hpre Hs Hp Ho | n vs v mi Hn Hpre Hs Hp Ho];
      try (rewrite Ha in Hn; injection Hn as <-).
    - congruence.
    - eapply T400; cbn; eauto.
    - congruence.
    - destruct Hpre as [Hne _]. eapply T502n; cbn; eauto.
    - exfalso. apply select_local_inv in Hs. destruct (wf_nth _ _ _ Hwf Ha _ _ Hs) as [Hx _].
      unfold pick in Hp. destruct us as [|x us]; [congruence|]. apply nth_error_None in Hp.
      pose proof (Nat.mod_upper_bound (e_pick_up e) (List.length (x :: us))) as Hb. cbn [List.length] in *. lia.
    - destruct Hpre as [Hne _]. rewrite Hr. apply serve_local_table; auto.
    - destruct Hpre as [Hne _]. eapply T502n; cbn; eauto.
    - destruct Hpre as [Hne _]. eapply T502n; cbn; eauto.
    - destruct (pre_ok_transform e rq Hk Hpre) as [Hpre' Ha'].
      destruct (owner_some _ _ _ Ho) as [m [Hm _]].
      set (rq1 := proxy_transform_gen (e_keep e) (e_client_ip e) (addressed_endpoint rq) rq) in *.
      assert (Hf : is_forwarded rq1 = true) by (unfold rq1; rewrite Hk; apply transform_forwarded).
      assert (Hws1 : is_ws_upgrade rq1 = is_ws_upgrade rq) by (unfold rq1; rewrite Hk; apply transform_ws_upgrade, Hws).
      destruct Hpre as [Hne _].
      apply forward_table with (rq1 := rq1); auto.
      apply hop2_table with (mi := mi); eauto.
  Qed.
End Table.

(* the rows of the table read as the clauses of the property *)
Lemma table_400 T rq r : table T rq r -> (res_out r = Status 400 <-> addressed_endpoint rq = "").
Proof. intros H. destruct H; split; intros; try congruence. Qed.

Lemma table_502 T rq r :
  table T rq r ->
  (res_out r = Status 502 <->
   addressed_endpoint rq <> "" /\
   (res_up r = None \/ exists u, res_up r = Some u /\ (u_beh u = UDialFail \/ u_beh u = UReset))).
Proof.
  intros H. destruct H as [r He Ho Hu Hel | r Hne Ho Hu Hel | r u Hne Ho Hu Hb Hel | r u d Hne Ho Hu Hb Hfi Hel | r k u rs d Hne Ho Hu Hb Hfi Hel];
    split; intros Hx; try congruence.
  - destruct Hx. congruence.
  - split; [exact Hne|]. left. exact Hu.
  - split; [exact Hne|]. right. eauto.
  - exfalso. destruct Hx as [_ [Hx | [u' [Hx Hb']]]]; [congruence|].
    rewrite Hu in Hx. injection Hx as <-. destruct Hb'; congruence.
  - exfalso. destruct Hx as [_ [Hx | [u' [Hx Hb']]]]; [congruence|].
    rewrite Hu in Hx. injection Hx as <-. destruct Hb'; congruence.
Qed.

Lemma table_504 T rq r :
  table T rq r ->
  (res_out r = Status 504 <->
   exists u d, res_up r = Some u /\ u_beh u = UAnswer d /\ T <> 0%Z /\ (T <= d)%Z /\ is_ws_upgrade rq = false).
Proof.
  assert (Hfires : forall d, fires T rq d = true <-> T <> 0%Z /\ (T <= d)%Z /\ is_ws_upgrade rq = false).
  { intros d. unfold fires. rewrite !andb_true_iff, !negb_true_iff, Z.eqb_neq, Z.leb_le. tauto. }
  intros H. destruct H as [r He Ho Hu Hel | r Hne Ho Hu Hel | r u Hne Ho Hu Hb Hel | r u d Hne Ho Hu Hb Hfi Hel | r k u rs d Hne Ho Hu Hb Hfi Hel];
    split; intros Hx; try congruence;
    try (match type of Hx with ex _ => destruct Hx as [u' [d' [Hx _]]]; congruence end).
  - destruct Hx as [u' [d' [Hx [Hb' _]]]]. rewrite Hu in Hx. injection Hx as <-. destruct Hb; congruence.
  - exists u, d. apply Hfires in Hfi. tauto.
  - exfalso. destruct Hx as [u' [d' [Hx [Hb' Hrest]]]]. rewrite Hu in Hx. injection Hx as <-.
    rewrite Hb in Hb'. injection Hb' as <-. apply Hfires in Hrest. congruence.
Qed.

Lemma table_served T rq r k u rs :
  table T rq r -> res_out r = Served k u rs ->
  res_up r = Some u /\ exists d, u_beh u = UAnswer d /\ (T = 0%Z \/ (d < T)%Z \/ is_ws_upgrade rq = true).
Proof.
  intros H Ho. destruct H as [r He Ho' Hu Hel | r Hne Ho' Hu Hel | r u' Hne Ho' Hu Hb Hel | r u' d Hne Ho' Hu Hb Hfi Hel | r k' u' rs' d Hne Ho' Hu Hb Hfi Hel];
    try congruence.
  rewrite Ho in Ho'. injection Ho' as -> -> ->. split; [exact Hu|]. exists d. split; [exact Hb|].
  unfold fires in Hfi. destruct (Z.eqb_spec T 0); [auto|]. destruct (is_ws_upgrade rq); [auto|].
  cbn in Hfi. apply Z.leb_gt in Hfi. auto.
Qed.

Lemma table_total T rq r :
  table T rq r ->
  res_out r = Status 400 \/ res_out r = Status 502 \/ res_out r = Status 504 \/ exists k u rs, res_out r = Served k u rs.
Proof. intros H. destruct H; eauto 10. Qed.

(* ---- bounded answer time (no hang while a timeout is configured) ---- *)
Theorem bounded_time rec c e ni n rq :
  nth_error c ni = Some n -> applies_timeout n rq = true -> (0 <= n_timeout n)%Z ->
  (res_elapsed (handle_step rec c e ni rq) <= n_timeout n)%Z.
Proof.
  intros Hn Ha HT.
  destruct (handle_step_spec rec c e ni rq) as
      [Hn' | n' Hn' Hr' He | n' Hn' Hne Hp | n' Hn' Hpre Hs | n' us Hn' Hpre Hs Hp | n' us u0 Hn' Hpre Hs Hp
       | n' vs Hn' Hpre Hs Hp | n' vs v Hn' Hpre Hs Hp Ho | n' vs v mi Hn' Hpre Hs Hp Ho].
  all: rewrite Hn in Hn'; first [discriminate | injection Hn' as <-].
  all: cbn [res_elapsed fin]; try lia.
  - unfold serve_local. destruct (route_of rq); destruct (u_beh u0) eqn:Eb; cbn [res_elapsed fin fin_up]; try lia.
    rewrite Ha. cbn [andb]. destruct (Z.leb_spec (n_timeout n) delay); cbn [res_elapsed]; lia.
  - unfold forward_result. rewrite Ha. cbn [andb].
    destruct (Z.leb_spec (n_timeout n) (res_elapsed (rec mi (proxy_transform_gen (e_keep e) (e_client_ip e) (addressed_endpoint rq) rq))));
      cbn [res_elapsed]; lia.
Qed.
