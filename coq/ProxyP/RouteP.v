(* Proofs about the cluster model (Proxy/Route.v): shape of a delivery, one hop, addressed endpoint. *)
From Coq Require Import List String Ascii NArith ZArith Bool Arith Lia.
From Piko Require Import Base.Maps Base.Strs Proxy.Endpoint Proxy.Http Proxy.Route ProxyP.HttpP.
Import ListNotations.
Open Scope string_scope. Open Scope list_scope.

(* ---- small facts ---- *)
Lemma pick_In {A} k (l : list A) x : pick k l = Some x -> In x l.
Proof. unfold pick. apply nth_error_In. Qed.

Lemma pick_some {A} k (l : list A) : l <> [] -> exists x, pick k l = Some x.
Proof.
  intros Hl. unfold pick.
  destruct (nth_error l (k mod List.length l)) eqn:E; [eauto|].
  apply nth_error_None in E. destruct l; [congruence|].
  pose proof (Nat.mod_upper_bound k (List.length (a :: l))) as Hb. cbn [List.length] in *. lia.
Qed.

Lemma find_index_some {A} (p : A -> bool) l i :
  find_index p l = Some i -> exists x, nth_error l i = Some x /\ p x = true.
Proof.
  revert i. induction l as [|y l IH]; cbn; [discriminate|].
  intros i. destruct (p y) eqn:E.
  - intros [= <-]. exists y. split; [reflexivity|exact E].
  - destruct (find_index p l) as [j|]; cbn; [|discriminate].
    intros [= <-]. destruct (IH j eq_refl) as [x Hx]. exists x. exact Hx.
Qed.

Lemma find_index_none {A} (p : A -> bool) l x : find_index p l = None -> In x l -> p x = false.
Proof.
  induction l as [|y l IH]; cbn; [tauto|].
  destruct (p y) eqn:E; [discriminate|].
  destruct (find_index p l); cbn; [discriminate|].
  intros _ [->|Hin]; [exact E|apply IH; [reflexivity|exact Hin]].
Qed.

Lemma owner_some c addr mi : owner c addr = Some mi -> exists m, nth_error c mi = Some m /\ n_addr m = addr.
Proof.
  unfold owner. intros H. destruct (find_index_some _ _ _ H) as [m [H1 H2]].
  exists m. split; [exact H1|]. apply String.eqb_eq, H2.
Qed.

Lemma route_of_transform keep ip ep rq : route_of (proxy_transform_gen keep ip ep rq) = route_of rq.
Proof. reflexivity. Qed.

(* [endpoint_id_from_request] of an empty Host is "" unless the header decides *)
Lemma endpoint_empty_host hdr : hdr = "" -> endpoint_id_from_request hdr "" = "".
Proof. intros ->. reflexivity. Qed.

(* the endpoint a forwarded request addresses is the endpoint the first node derived (needs the repaired transform) *)
Lemma addressed_transform ip rq :
  (route_of rq = RHttp -> addressed_endpoint rq <> "") ->
  addressed_endpoint (proxy_transform_gen true ip (addressed_endpoint rq) rq) = addressed_endpoint rq.
Proof.
  intros Hne. unfold addressed_endpoint at 1 3. rewrite route_of_transform.
  destruct (route_of rq) eqn:Er; [|reflexivity].
  rewrite transform_keeps_endpoint_header. cbn [r_host proxy_transform_gen].
  destruct (String.eqb (r_host rq) "") eqn:Eh; [|reflexivity].
  apply String.eqb_eq in Eh.
  specialize (Hne eq_refl). unfold addressed_endpoint in Hne. rewrite Er in Hne.
  unfold endpoint_id_from_request in *.
  destruct (negb (String.eqb (hget "x-piko-endpoint" (r_headers rq)) "")) eqn:Eg; [reflexivity|].
  rewrite Eh in Hne. cbn in Hne. congruence.
Qed.

(* ---- Select ---- *)
Lemma select_no_remote n ep : forall vs, select n ep false <> SelRemote vs.
Proof. intros vs. unfold select. destruct (lookup ep (n_local n)); discriminate. Qed.

Lemma select_local_inv n ep b us : select n ep b = SelLocal us -> lookup ep (n_local n) = Some us.
Proof.
  unfold select. destruct (lookup ep (n_local n)) as [us'|]; [intros [= ->]; reflexivity|].
  destruct b; [destruct (lookup_endpoint n ep)|]; discriminate.
Qed.

Lemma select_remote_inv n ep b vs :
  select n ep b = SelRemote vs -> b = true /\ lookup ep (n_local n) = None /\ vs = lookup_endpoint n ep /\ vs <> [].
Proof.
  unfold select. destruct (lookup ep (n_local n)); [discriminate|].
  destruct b; [|discriminate]. destruct (lookup_endpoint n ep) eqn:E; [discriminate|].
  intros [= <-]. repeat split; discriminate.
Qed.

Lemma select_none_inv n ep b :
  select n ep b = SelNone -> lookup ep (n_local n) = None /\ (b = true -> lookup_endpoint n ep = []).
Proof.
  unfold select. destruct (lookup ep (n_local n)); [discriminate|].
  destruct b; [|intros _; split; [reflexivity|discriminate]].
  destruct (lookup_endpoint n ep); [intros _; split; reflexivity|discriminate].
Qed.

(* ---- serve_local ---- *)
Lemma serve_local_trace e ni n rt rq u :
  res_trace (serve_local e ni n rt rq u) = [EInvoke ni; EDialUp ni (u_id u)].
Proof.
  unfold serve_local. destruct rt; destruct (u_beh u); try reflexivity.
  destruct (applies_timeout n rq && (n_timeout n <=? delay)%Z); reflexivity.
Qed.

Lemma serve_local_up e ni n rt rq u : res_up (serve_local e ni n rt rq u) = Some u.
Proof.
  unfold serve_local. destruct rt; destruct (u_beh u); try reflexivity.
  destruct (applies_timeout n rq && (n_timeout n <=? delay)%Z); reflexivity.
Qed.

Lemma serve_local_out e ni n rt rq u :
  (exists rs, res_out (serve_local e ni n rt rq u) = Served ni u rs)
  \/ res_out (serve_local e ni n rt rq u) = Status 502
  \/ res_out (serve_local e ni n rt rq u) = Status 504.
Proof.
  unfold serve_local. destruct rt; destruct (u_beh u); cbn; eauto.
  destruct (applies_timeout n rq && (n_timeout n <=? delay)%Z); cbn; eauto.
Qed.

(* ---- one handler invocation, as a relation (inversion principle for handle_step) ---- *)
Inductive step_spec (rec : nat -> request -> result) (c : cluster) (e : env) (ni : nat) (rq : request) : result -> Prop :=
| SS_bad : nth_error c ni = None -> step_spec rec c e ni rq (fin (Status 0) [])
| SS_400 n : nth_error c ni = Some n -> route_of rq = RHttp -> addressed_endpoint rq = "" ->
    step_spec rec c e ni rq (fin (Status 400) [EInvoke ni])
| SS_401 n : nth_error c ni = Some n -> (route_of rq = RHttp -> addressed_endpoint rq <> "") ->
    permitted (e_token e) (addressed_endpoint rq) = false ->
    step_spec rec c e ni rq (fin (Status 401) [EInvoke ni])
| SS_none n : nth_error c ni = Some n -> pre_ok e rq ->
    select n (addressed_endpoint rq) (negb (is_forwarded rq)) = SelNone ->
    step_spec rec c e ni rq (fin (Status 502) [EInvoke ni])
| SS_local_nil n us : nth_error c ni = Some n -> pre_ok e rq ->
    select n (addressed_endpoint rq) (negb (is_forwarded rq)) = SelLocal us -> pick (e_pick_up e) us = None ->
    step_spec rec c e ni rq (fin (Status 500) [EInvoke ni])
| SS_local n us u : nth_error c ni = Some n -> pre_ok e rq ->
    select n (addressed_endpoint rq) (negb (is_forwarded rq)) = SelLocal us -> pick (e_pick_up e) us = Some u ->
    step_spec rec c e ni rq (serve_local e ni n (route_of rq) rq u)
| SS_rem_nil n vs : nth_error c ni = Some n -> pre_ok e rq ->
    select n (addressed_endpoint rq) (negb (is_forwarded rq)) = SelRemote vs -> pick (e_pick_node e) vs = None ->
    step_spec rec c e ni rq (fin (Status 502) [EInvoke ni])
| SS_rem_dead n vs v : nth_error c ni = Some n -> pre_ok e rq ->
    select n (addressed_endpoint rq) (negb (is_forwarded rq)) = SelRemote vs -> pick (e_pick_node e) vs = Some v ->
    owner c (v_addr v) = None ->
    step_spec rec c e ni rq (fin (Status 502) [EInvoke ni; EDialNode ni (v_addr v)])
| SS_rem n vs v mi : nth_error c ni = Some n -> pre_ok e rq ->
    select n (addressed_endpoint rq) (negb (is_forwarded rq)) = SelRemote vs -> pick (e_pick_node e) vs = Some v ->
    owner c (v_addr v) = Some mi ->
    step_spec rec c e ni rq
      (forward_result ni n rq (v_addr v)
         (rec mi (proxy_transform_gen (e_keep e) (e_client_ip e) (addressed_endpoint rq) rq))).

Lemma handle_step_spec rec c e ni rq : step_spec rec c e ni rq (handle_step rec c e ni rq).
Proof.
  unfold handle_step.
  destruct (nth_error c ni) as [n|] eqn:En; [|apply SS_bad; exact En].
  destruct (match route_of rq with RHttp => String.eqb (addressed_endpoint rq) "" | RTcp _ => false end) eqn:E4.
  - destruct (route_of rq) eqn:Er; [|discriminate]. apply String.eqb_eq in E4.
    eapply SS_400; eauto.
  - assert (Hne : route_of rq = RHttp -> addressed_endpoint rq <> "").
    { intros Hr. rewrite Hr in E4. apply String.eqb_neq in E4. exact E4. }
    destruct (negb (permitted (e_token e) (addressed_endpoint rq))) eqn:Ep.
    + apply negb_true_iff in Ep. eapply SS_401; eauto.
    + apply negb_false_iff in Ep.
      assert (Hpre : pre_ok e rq) by (split; assumption).
      destruct (select n (addressed_endpoint rq) (negb (is_forwarded rq))) as [us|vs|] eqn:Es.
      * destruct (pick (e_pick_up e) us) as [u|] eqn:Ek.
        -- eapply SS_local; eauto.
        -- eapply SS_local_nil; eauto.
      * destruct (pick (e_pick_node e) vs) as [v|] eqn:Ek.
        -- destruct (owner c (v_addr v)) as [mi|] eqn:Eo.
           ++ eapply SS_rem; eauto.
           ++ eapply SS_rem_dead; eauto.
        -- eapply SS_rem_nil; eauto.
      * eapply SS_none; eauto.
Qed.

(* ---- a request that carries the forward marker is never forwarded ---- *)
Lemma step_forwarded_indep rec rec' c e ni rq :
  is_forwarded rq = true -> handle_step rec c e ni rq = handle_step rec' c e ni rq.
Proof.
  intros Hf. unfold handle_step. rewrite Hf. cbn [negb].
  destruct (nth_error c ni) as [n|]; [|reflexivity].
  destruct (match route_of rq with RHttp => _ | RTcp _ => false end); [reflexivity|].
  destruct (negb (permitted (e_token e) (addressed_endpoint rq))); [reflexivity|].
  destruct (select n (addressed_endpoint rq) false) as [us|vs|] eqn:Es; try reflexivity.
  exfalso. exact (select_no_remote _ _ _ Es).
Qed.

Lemma handle_forwarded f c e ni rq :
  is_forwarded rq = true -> handle (S f) c e ni rq = handle 1 c e ni rq.
Proof. intros Hf. cbn [handle]. apply step_forwarded_indep, Hf. Qed.

Lemma step_ext rec rec' c e ni rq :
  (forall mi, rec mi (proxy_transform_gen (e_keep e) (e_client_ip e) (addressed_endpoint rq) rq)
              = rec' mi (proxy_transform_gen (e_keep e) (e_client_ip e) (addressed_endpoint rq) rq)) ->
  handle_step rec c e ni rq = handle_step rec' c e ni rq.
Proof.
  intros H. unfold handle_step.
  destruct (nth_error c ni) as [n|]; [|reflexivity].
  destruct (match route_of rq with RHttp => _ | RTcp _ => false end); [reflexivity|].
  destruct (negb (permitted (e_token e) (addressed_endpoint rq))); [reflexivity|].
  destruct (select n (addressed_endpoint rq) (negb (is_forwarded rq))) as [us|vs|]; try reflexivity.
  destruct (pick (e_pick_node e) vs) as [v|]; [|reflexivity].
  destruct (owner c (v_addr v)); [|reflexivity].
  rewrite H. reflexivity.
Qed.

(* with the code as it stands two levels of the recursion are all there is *)
Lemma handle_two f c e ni rq :
  e_keep e = true -> handle (S (S f)) c e ni rq = handle 2 c e ni rq.
Proof.
  intros Hk. cbn [handle]. apply step_ext. intros mi. rewrite Hk.
  fold (handle (S f) c e mi (proxy_transform_gen true (e_client_ip e) (addressed_endpoint rq) rq)).
  fold (handle 1 c e mi (proxy_transform_gen true (e_client_ip e) (addressed_endpoint rq) rq)).
  apply handle_forwarded, transform_forwarded.
Qed.

Lemma deliver_two c e entry rq : e_keep e = true -> deliver c e entry rq = handle 2 c e entry rq.
Proof. intros Hk. unfold deliver. apply handle_two, Hk. Qed.

(* ---- the second hop ---- *)
(* what the handler of a node answers to a request carrying the forward marker *)
Inductive hop2_spec (c : cluster) (e : env) (mi : nat) (rq : request) : result -> Prop :=
| H2_bad : nth_error c mi = None -> hop2_spec c e mi rq (fin (Status 0) [])
| H2_400 : route_of rq = RHttp -> addressed_endpoint rq = "" -> hop2_spec c e mi rq (fin (Status 400) [EInvoke mi])
| H2_401 : permitted (e_token e) (addressed_endpoint rq) = false -> hop2_spec c e mi rq (fin (Status 401) [EInvoke mi])
| H2_none m : nth_error c mi = Some m -> pre_ok e rq -> lookup (addressed_endpoint rq) (n_local m) = None ->
    hop2_spec c e mi rq (fin (Status 502) [EInvoke mi])
| H2_nil m : nth_error c mi = Some m -> lookup (addressed_endpoint rq) (n_local m) = Some [] ->
    hop2_spec c e mi rq (fin (Status 500) [EInvoke mi])
| H2_local m us u : nth_error c mi = Some m -> pre_ok e rq -> lookup (addressed_endpoint rq) (n_local m) = Some us -> In u us ->
    hop2_spec c e mi rq (serve_local e mi m (route_of rq) rq u).

Lemma hop2_holds rec c e mi rq :
  is_forwarded rq = true -> hop2_spec c e mi rq (handle_step rec c e mi rq).
Proof.
  intros Hf. destruct (handle_step_spec rec c e mi rq) as
      [Hn | n Hn Hr He | n Hn Hne Hp | n Hn Hpre Hs | n us Hn Hpre Hs Hk | n us u Hn Hpre Hs Hk
       | n vs Hn Hpre Hs Hk | n vs v Hn Hpre Hs Hk Ho | n vs v k Hn Hpre Hs Hk Ho];
    rewrite ?Hf in *; cbn [negb] in *.
  - apply H2_bad, Hn.
  - apply H2_400; assumption.
  - apply H2_401; assumption.
  - eapply H2_none; eauto. apply (select_none_inv _ _ _ Hs).
  - apply select_local_inv in Hs. eapply H2_nil; eauto.
    unfold pick in Hk. destruct us as [|x us]; [exact Hs|].
    exfalso. apply nth_error_None in Hk.
    pose proof (Nat.mod_upper_bound (e_pick_up e) (List.length (x :: us))) as Hb. cbn [List.length] in *. lia.
  - apply select_local_inv in Hs. eapply H2_local; eauto. eapply pick_In, Hk.
  - exfalso. exact (select_no_remote _ _ _ Hs).
  - exfalso. exact (select_no_remote _ _ _ Hs).
  - exfalso. exact (select_no_remote _ _ _ Hs).
Qed.

Lemma hop2_trace c e mi rq r :
  hop2_spec c e mi rq r ->
  res_trace r = [] \/ res_trace r = [EInvoke mi] \/ exists uid, res_trace r = [EInvoke mi; EDialUp mi uid].
Proof.
  intros H. destruct H; cbn; auto.
  right. right. eexists. apply serve_local_trace.
Qed.

(* ---- shape of every delivery (C06) ---- *)
Lemma forward_result_trace ni n rq addr r :
  res_trace (forward_result ni n rq addr r) = [EInvoke ni; EDialNode ni addr] ++ res_trace r.
Proof.
  unfold forward_result. destruct (applies_timeout n rq && (n_timeout n <=? res_elapsed r)%Z); reflexivity.
Qed.

Lemma step_trace_ok rec c e ni rq :
  (forall mi rq', is_forwarded rq' = true -> hop2_spec c e mi rq' (rec mi rq')) ->
  e_keep e = true ->
  trace_ok (res_trace (handle_step rec c e ni rq)) = true.
Proof.
  intros Hrec Hk.
  destruct (handle_step_spec rec c e ni rq) as
      [Hn | n Hn Hr He | n Hn Hne Hp | n Hn Hpre Hs | n us Hn Hpre Hs Hp | n us u Hn Hpre Hs Hp
       | n vs Hn Hpre Hs Hp | n vs v Hn Hpre Hs Hp Ho | n vs v mi Hn Hpre Hs Hp Ho]; try reflexivity.
  - rewrite serve_local_trace. cbn. apply Nat.eqb_refl.
  - cbn. apply Nat.eqb_refl.
  - rewrite forward_result_trace. rewrite Hk.
    pose proof (Hrec mi (proxy_transform_gen true (e_client_ip e) (addressed_endpoint rq) rq)
                  (transform_forwarded _ _ _)) as H2.
    destruct (hop2_trace _ _ _ _ _ H2) as [-> | [-> | [uid ->]]]; cbn;
      rewrite ?Nat.eqb_refl; reflexivity.
Qed.

Lemma handle1_hop2 c e : forall mi rq', is_forwarded rq' = true -> hop2_spec c e mi rq' (handle 1 c e mi rq').
Proof. intros mi rq' Hf. cbn [handle]. apply hop2_holds, Hf. Qed.

Lemma trace_ok_counts tr :
  trace_ok tr = true ->
  List.length (filter is_invoke tr) <= 2 /\ List.length (filter is_dial tr) <= List.length (filter is_invoke tr).
Proof.
  destruct tr as [|[a|a x|a x] [|[b|b y|b y] [|[d|d z|d z] [|[f|f w|f w] [|? ?]]]]]; cbn; try discriminate; intros _; lia.
Qed.

Lemma deliver_trace_ok c e entry rq :
  e_keep e = true -> trace_ok (res_trace (deliver c e entry rq)) = true.
Proof.
  intros Hk. rewrite deliver_two by exact Hk. cbn [handle].
  apply step_trace_ok; [|exact Hk]. intros mi rq' Hf.
  fold (handle 1 c e mi rq'). apply handle1_hop2, Hf.
Qed.

(* ---- local first ---- *)
Lemma step_local_first rec c e ni n rq us :
  nth_error c ni = Some n -> pre_ok e rq ->
  lookup (addressed_endpoint rq) (n_local n) = Some us -> us <> [] ->
  exists u, In u us /\ handle_step rec c e ni rq = serve_local e ni n (route_of rq) rq u.
Proof.
  intros Hn [Hne Hp] Hl Hus. unfold handle_step. rewrite Hn.
  assert (E4 : (match route_of rq with RHttp => String.eqb (addressed_endpoint rq) "" | RTcp _ => false end) = false).
  { destruct (route_of rq); [|reflexivity]. apply String.eqb_neq, Hne. reflexivity. }
  rewrite E4, Hp. cbn [negb]. unfold select. rewrite Hl.
  destruct (pick_some (e_pick_up e) us Hus) as [u Hu]. rewrite Hu.
  exists u. split; [eapply pick_In, Hu|reflexivity].
Qed.

(* ---- addressed endpoint (C01) ---- *)
Lemma wf_nth c k m : wf_cluster c -> nth_error c k = Some m -> wf_node m.
Proof. intros [H _] Hn. apply H. eapply nth_error_In, Hn. Qed.

Definition out_ok (c : cluster) (ep : string) (o : outcome) : Prop :=
  match o with
  | Served k u _ => u_ep u = ep /\ registered_on c k u
  | Status s => In s [400; 401; 502; 504]%N
  end.

Lemma serve_local_out_ok c e ni n rt rq u us ep :
  wf_cluster c -> nth_error c ni = Some n -> lookup ep (n_local n) = Some us -> In u us ->
  out_ok c ep (res_out (serve_local e ni n rt rq u)).
Proof.
  intros Hwf Hn Hl Hin.
  assert (Hu : u_ep u = ep) by (apply (proj2 (wf_nth _ _ _ Hwf Hn ep us Hl)), Hin).
  destruct (serve_local_out e ni n rt rq u) as [[rs ->] | [-> | ->]]; cbn; auto 10.
  split; [exact Hu|]. exists n, us. rewrite Hu. auto.
Qed.

Lemma hop2_out_ok c e mi rq r ep :
  wf_cluster c -> (exists m, nth_error c mi = Some m) ->
  addressed_endpoint rq = ep -> pre_ok e rq ->
  hop2_spec c e mi rq r -> out_ok c ep (res_out r).
Proof.
  intros Hwf [m0 Hm0] Hep [Hne Hp] H. destruct H as [Hb | Hr He | Hp' | m Hm _ Hl | m Hm Hl | m us u Hm _ Hl Hin].
  - congruence.
  - exfalso. exact (Hne Hr He).
  - congruence.
  - cbn. auto 10.
  - exfalso. destruct (wf_nth _ _ _ Hwf Hm _ _ Hl) as [Hx _]. congruence.
  - rewrite Hep in Hl. eapply serve_local_out_ok; eauto.
Qed.

Lemma forward_result_out ni n rq addr r :
  res_out (forward_result ni n rq addr r) = Status 504 \/
  (match res_out r with
   | Served k u rs => exists rs', res_out (forward_result ni n rq addr r) = Served k u rs'
   | Status s => res_out (forward_result ni n rq addr r) = Status s
   end).
Proof.
  unfold forward_result. destruct (applies_timeout n rq && (n_timeout n <=? res_elapsed r)%Z); [left; reflexivity|].
  right. cbn. destruct (res_out r); eauto.
Qed.

Lemma pre_ok_transform e rq :
  e_keep e = true -> pre_ok e rq ->
  pre_ok e (proxy_transform_gen (e_keep e) (e_client_ip e) (addressed_endpoint rq) rq)
  /\ addressed_endpoint (proxy_transform_gen (e_keep e) (e_client_ip e) (addressed_endpoint rq) rq) = addressed_endpoint rq.
Proof.
  intros Hk [Hne Hp]. rewrite Hk.
  assert (Ha := addressed_transform (e_client_ip e) rq Hne).
  split; [|exact Ha]. split.
  - rewrite Ha. rewrite route_of_transform. exact Hne.
  - rewrite Ha. exact Hp.
Qed.

Theorem only_addressed_endpoint c e entry rq :
  wf_cluster c -> e_keep e = true -> entry < List.length c ->
  out_ok c (addressed_endpoint rq) (res_out (deliver c e entry rq)).
Proof.
  intros Hwf Hk Hentry. rewrite deliver_two by exact Hk. cbn [handle].
  set (rec := handle_step (fun _ _ => fin (Status 0) []) c e).
  assert (Hrec : forall mi rq', is_forwarded rq' = true -> hop2_spec c e mi rq' (rec mi rq')).
  { intros mi rq' Hf. apply hop2_holds, Hf. }
  destruct (handle_step_spec rec c e entry rq) as
      [Hn | n Hn Hr He | n Hn Hne Hp | n Hn Hpre Hs | n us Hn Hpre Hs Hp | n us u Hn Hpre Hs Hp
       | n vs Hn Hpre Hs Hp | n vs v Hn Hpre Hs Hp Ho | n vs v mi Hn Hpre Hs Hp Ho]; cbn [res_out fin].
  - apply nth_error_None in Hn. lia.
  - cbn. auto.
  - cbn. auto.
  - cbn. auto 10.
  - exfalso. apply select_local_inv in Hs. destruct (wf_nth _ _ _ Hwf Hn _ _ Hs) as [Hx _].
    unfold pick in Hp. destruct us; [congruence|]. apply nth_error_None in Hp.
    pose proof (Nat.mod_upper_bound (e_pick_up e) (List.length (u :: us))) as Hb. cbn [List.length] in *. lia.
  - apply select_local_inv in Hs. eapply serve_local_out_ok; eauto. eapply pick_In, Hp.
  - cbn. auto 10.
  - cbn. auto 10.
  - destruct (pre_ok_transform e rq Hk Hpre) as [Hpre' Ha'].
    destruct (owner_some _ _ _ Ho) as [m [Hm _]].
    set (rq' := proxy_transform_gen (e_keep e) (e_client_ip e) (addressed_endpoint rq) rq) in *.
    assert (Hf : is_forwarded rq' = true) by (unfold rq'; rewrite Hk; apply transform_forwarded).
    pose proof (hop2_out_ok c e mi rq' _ (addressed_endpoint rq) Hwf (ex_intro _ m Hm) Ha' Hpre' (Hrec mi rq' Hf)) as H2.
    destruct (forward_result_out entry n rq (v_addr v) (rec mi rq')) as [-> | H3].
    + cbn. auto 10.
    + destruct (res_out (rec mi rq')) as [k u rs|s].
      * destruct H3 as [rs' ->]. exact H2.
      * rewrite H3. exact H2.
Qed.
