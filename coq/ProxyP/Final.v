(* The statements of C01 / C06 / C08 in their final form (Properties/C0x.v only re-states them), the
   refutation witnesses for the pinned transform, and examples showing the hypotheses are satisfiable. *)
From Coq Require Import List String Ascii NArith ZArith Bool Arith Lia.
From Piko Require Import Base.Maps Base.Strs Proxy.Endpoint Proxy.Http Proxy.Route
     ProxyP.HttpP ProxyP.RouteP ProxyP.SettledP ProxyP.StatusP.
Import ListNotations.
Open Scope string_scope. Open Scope list_scope.

Lemma handle_S f c e ni rq : handle (S f) c e ni rq = handle_step (handle f c e) c e ni rq.
Proof. reflexivity. Qed.

(* ------------------------------------------------------------------ C01 *)
Theorem only_addressed_endpoint_final :
  forall (c : cluster) (e : env) (entry : nat) (rq : request),
    wf_cluster c -> e_keep e = true -> entry < List.length c ->
    match res_out (deliver c e entry rq) with
    | Served k u _ => u_ep u = addressed_endpoint rq /\ registered_on c k u
    | Status s => In s [400; 401; 502; 504]%N
    end.
Proof. intros c e entry rq Hwf Hk He. exact (only_addressed_endpoint c e entry rq Hwf Hk He). Qed.

Theorem settled_final :
  forall (c : cluster) (e : env) (entry : nat) (a : node) (rq : request),
    wf_cluster c -> settled c -> e_keep e = true ->
    nth_error c entry = Some a -> pre_ok e rq -> is_forwarded rq = false ->
    let ep := addressed_endpoint rq in
    let r := deliver c e entry rq in
    ((exists m, In m c /\ has_local m ep = true) -> reaches c ep r)
    /\ ((forall m, In m c -> has_local m ep = false) -> r = fin (Status 502) [EInvoke entry])
    /\ (healthy c ->
        ((exists m, In m c /\ has_local m ep = true) <->
         (exists k u rs, res_out r = Served k u rs /\ u_ep u = ep /\ registered_on c k u))
        /\ ((forall m, In m c -> has_local m ep = false) <-> res_out r = Status 502)).
Proof.
  intros c e entry a rq Hwf Hset Hk Ha Hpre Hf ep r.
  assert (H1 : (exists m, In m c /\ has_local m ep = true) -> reaches c ep r).
  { intros H. exact (settled_served c e entry a rq Hwf Hset Hk Ha Hpre Hf H). }
  assert (H2 : (forall m, In m c -> has_local m ep = false) -> r = fin (Status 502) [EInvoke entry]).
  { intros H. exact (settled_none c e entry a rq Hwf Hset Hk Ha Hpre H). }
  split; [exact H1|]. split; [exact H2|].
  intros Hh. split; split.
  - intros H. exact (reaches_healthy c ep r Hh (H1 H)).
  - intros [k [u [rs [Hs _]]]]. destruct (exists_local_dec c ep) as [H|H]; [exact H|].
    rewrite (H2 H) in Hs. discriminate.
  - intros H. rewrite (H2 H). reflexivity.
  - intros Hs. destruct (exists_local_dec c ep) as [H|H]; [|exact H].
    destruct (reaches_healthy c ep r Hh (H1 H)) as [k [u [rs [Hx _]]]]. congruence.
Qed.

Lemma route_of_tcp rq seg :
  r_method rq = "GET" -> r_path rq = (tcp_prefix ++ seg)%string -> seg <> "" -> contains_byte "/" seg = false ->
  route_of rq = RTcp seg.
Proof.
  intros Hm Hp Hne Hs. unfold route_of. rewrite Hm, Hp, prefixb_append, drop_append. cbn [andb String.eqb].
  apply String.eqb_neq in Hne. rewrite Hne, Hs. reflexivity.
Qed.

Theorem tcp_route_final :
  forall (c : cluster) (e : env) (entry : nat) (rq : request) (seg : string),
    wf_cluster c -> e_keep e = true -> entry < List.length c ->
    r_method rq = "GET" -> r_path rq = (tcp_prefix ++ seg)%string -> seg <> "" -> contains_byte "/" seg = false ->
    addressed_endpoint rq = seg /\
    match res_out (deliver c e entry rq) with
    | Served k u _ => u_ep u = seg /\ registered_on c k u
    | Status s => In s [400; 401; 502; 504]%N
    end.
Proof.
  intros c e entry rq seg Hwf Hk He Hm Hp Hne Hs.
  assert (Ha : addressed_endpoint rq = seg).
  { unfold addressed_endpoint. rewrite (route_of_tcp rq seg Hm Hp Hne Hs). reflexivity. }
  split; [exact Ha|]. rewrite <- Ha. exact (only_addressed_endpoint c e entry rq Hwf Hk He).
Qed.

(* ------------------------------------------------------------------ witnesses *)
Definition w_resp (u : upstream) (rq : request) : response := mkResp 200 [("X-Up", u_id u)] "ok".
Definition w_env (keep : bool) : env := mkEnv keep "127.0.0.1" None w_resp 0 0.
Definition w_uo := mkU "uo" "other" (UAnswer 0).
Definition w_ue := mkU "ue" "e" (UAnswer 0).

(* H2: node a has nothing and believes b serves e; b serves "other" only *)
Definition w_c2 : cluster :=
  [ build_node "a" "A" 30000 [] [mkV "b" Active "B" [("e", 1%Z); ("other", 1%Z)]];
    build_node "b" "B" 30000 [w_uo] [] ].
Definition w_rq2 : request :=
  mkReq "GET" "/x" None "other.example.com" [("x-piko-endpoint", "e"); ("Connection", "x-piko-endpoint")] "".

(* H1: a ring of stale beliefs, nobody serves e *)
Definition w_c3 : cluster :=
  [ build_node "a" "A" 30000 [] [mkV "b" Active "B" [("e", 1%Z)]];
    build_node "b" "B" 30000 [] [mkV "c" Active "C" [("e", 1%Z)]];
    build_node "c" "C" 30000 [] [mkV "a" Active "A" [("e", 1%Z)]] ].
Definition w_rq1 : request := mkReq "GET" "/x" None "e.example.com" [("Connection", "x-piko-forward")] "".

Lemma NoDup_2 {A} (x y : A) : x <> y -> NoDup [x; y].
Proof. intros H. constructor; [intros [E|[]]; congruence|]. constructor; [intros []|constructor]. Qed.

Lemma NoDup_3 {A} (x y z : A) : x <> y -> x <> z -> y <> z -> NoDup [x; y; z].
Proof.
  intros H1 H2 H3. constructor; [intros [E|[E|[]]]; congruence|]. apply NoDup_2, H3.
Qed.

Lemma w_c2_wf : wf_cluster w_c2.
Proof.
  split; [|split].
  - intros n [<-|[<-|[]]]; apply build_node_wf.
  - apply NoDup_2. discriminate.
  - apply NoDup_2. discriminate.
Qed.

Lemma w_c3_wf : wf_cluster w_c3.
Proof.
  split; [|split].
  - intros n [<-|[<-|[<-|[]]]]; apply build_node_wf.
  - apply NoDup_3; discriminate.
  - apply NoDup_3; discriminate.
Qed.

Theorem c01_refuted_pinned :
  exists (c : cluster) (e : env) (entry : nat) (rq : request) (k : nat) (u : upstream) (rs : response),
    wf_cluster c /\ e_keep e = false /\ entry < List.length c /\
    res_out (deliver c e entry rq) = Served k u rs /\ u_ep u <> addressed_endpoint rq.
Proof.
  exists w_c2, (w_env false), 0, w_rq2, 1, w_uo, (mkResp 200 [("X-Up", "uo")] "ok").
  split; [exact w_c2_wf|]. split; [reflexivity|]. split; [cbn; lia|].
  split; [vm_compute; reflexivity|]. vm_compute. discriminate.
Qed.

(* the same request on the code as it stands: refused with 502, "other" is never reached *)
Example c01_witness_repaired : res_out (deliver w_c2 (w_env true) 0 w_rq2) = Status 502.
Proof. vm_compute. reflexivity. Qed.

Theorem c06_refuted_pinned :
  exists (c : cluster) (e : env) (entry : nat) (rq : request),
    wf_cluster c /\ e_keep e = false /\ invocations (deliver c e entry rq) = 3.
Proof.
  exists w_c3, (w_env false), 0, w_rq1. split; [exact w_c3_wf|]. split; [reflexivity|]. vm_compute. reflexivity.
Qed.

Example c06_witness_repaired : invocations (deliver w_c3 (w_env true) 0 w_rq1) = 2.
Proof. vm_compute. reflexivity. Qed.

(* ------------------------------------------------------------------ C06 *)
Theorem local_first_final :
  forall (c : cluster) (e : env) (entry : nat) (a : node) (rq : request) (us : list upstream),
    nth_error c entry = Some a -> pre_ok e rq ->
    lookup (addressed_endpoint rq) (n_local a) = Some us -> us <> [] ->
    exists u, In u us
      /\ res_trace (deliver c e entry rq) = [EInvoke entry; EDialUp entry (u_id u)]
      /\ res_up (deliver c e entry rq) = Some u
      /\ ((exists rs, res_out (deliver c e entry rq) = Served entry u rs)
          \/ res_out (deliver c e entry rq) = Status 502 \/ res_out (deliver c e entry rq) = Status 504).
Proof.
  intros c e entry a rq us Ha Hpre Hl Hus. unfold deliver. rewrite handle_S.
  destruct (step_local_first (handle (S (S (List.length c))) c e) c e entry a rq us Ha Hpre Hl Hus) as [u [Hin ->]].
  exists u. split; [exact Hin|]. split; [apply serve_local_trace|]. split; [apply serve_local_up|apply serve_local_out].
Qed.

Lemma hop2_second c e mi rq r :
  wf_cluster c -> pre_ok e rq -> hop2_spec c e mi rq r ->
  res_trace r = [] \/
  (res_trace r = [EInvoke mi] /\ res_out r = Status 502) \/
  (exists u, res_trace r = [EInvoke mi; EDialUp mi (u_id u)] /\ registered_on c mi u /\
             ((exists rs, res_out r = Served mi u rs) \/ res_out r = Status 502 \/ res_out r = Status 504)).
Proof.
  intros Hwf [Hne Hp] H. destruct H as [Hb | Hr1 He | Hp' | m Hm _ Hl | m Hm Hl | m us u Hm _ Hl Hin].
  - left. reflexivity.
  - exfalso. exact (Hne Hr1 He).
  - congruence.
  - right. left. split; reflexivity.
  - exfalso. destruct (wf_nth _ _ _ Hwf Hm _ _ Hl) as [Hx _]. congruence.
  - right. right. exists u. split; [apply serve_local_trace|]. split.
    + assert (Hu : u_ep u = addressed_endpoint rq) by (apply (proj2 (wf_nth _ _ _ Hwf Hm _ us Hl)), Hin).
      exists m, us. rewrite Hu. auto.
    + apply serve_local_out.
Qed.

Theorem one_hop_final :
  forall (c : cluster) (e : env) (entry : nat) (rq : request),
    e_keep e = true ->
    let r := deliver c e entry rq in
    trace_ok (res_trace r) = true
    /\ invocations r <= 2
    /\ dials r <= invocations r
    /\ (wf_cluster c -> forall a addr b rest,
          res_trace r = EInvoke a :: EDialNode a addr :: EInvoke b :: rest ->
          (rest = [] \/ exists uid, rest = [EDialUp b uid])
          /\ ((exists u rs, res_out r = Served b u rs /\ registered_on c b u)
              \/ res_out r = Status 502 \/ res_out r = Status 504)).
Proof.
  intros c e entry rq Hk r.
  assert (Hok : trace_ok (res_trace r) = true) by (apply deliver_trace_ok, Hk).
  destruct (trace_ok_counts _ Hok) as [H1 H2].
  split; [exact Hok|]. split; [exact H1|]. split; [exact H2|].
  intros Hwf a addr b rest. unfold r. rewrite deliver_two by exact Hk. cbn [handle].
  set (rec := handle_step (fun _ _ => fin (Status 0) []) c e).
  assert (Hrec : forall mi rq', is_forwarded rq' = true -> hop2_spec c e mi rq' (rec mi rq')).
  { intros mi rq' Hf. apply hop2_holds, Hf. }
  destruct (handle_step_spec rec c e entry rq) as
      [Hn | n Hn Hr' He | n Hn Hne Hp | n Hn Hpre Hs | n us Hn Hpre Hs Hp | n us u0 Hn Hpre Hs Hp
       | n vs Hn Hpre Hs Hp | n vs v Hn Hpre Hs Hp Ho | n vs v mi Hn Hpre Hs Hp Ho];
    try (cbn [res_trace fin]; discriminate).
  - rewrite serve_local_trace. discriminate.
  - destruct (pre_ok_transform e rq Hk Hpre) as [Hpre' Ha'].
    set (rq1 := proxy_transform_gen (e_keep e) (e_client_ip e) (addressed_endpoint rq) rq) in *.
    assert (Hf : is_forwarded rq1 = true) by (unfold rq1; rewrite Hk; apply transform_forwarded).
    rewrite forward_result_trace. cbn [app]. intros Heq.
    assert (Ht : res_trace (rec mi rq1) = EInvoke b :: rest) by (injection Heq; auto).
    assert (Hab : entry = a) by (injection Heq; auto).
    clear Heq. subst a.
    destruct (forward_result_out entry n rq (v_addr v) (rec mi rq1)) as [H504 | Hpass].
    + destruct (hop2_second c e mi rq1 _ Hwf Hpre' (Hrec mi rq1 Hf)) as [Hx | [[Hx _] | [u [Hx _]]]];
        rewrite Hx in Ht; try discriminate; injection Ht as <- <-.
      * split; [left; reflexivity|]. right. right. exact H504.
      * split; [right; eexists; reflexivity|]. right. right. exact H504.
    + destruct (hop2_second c e mi rq1 _ Hwf Hpre' (Hrec mi rq1 Hf)) as [Hx | [[Hx Ho2] | [u [Hx [Hreg Ho2]]]]];
        rewrite Hx in Ht; try discriminate; injection Ht as <- <-.
      * split; [left; reflexivity|]. rewrite Ho2 in Hpass. right. left. exact Hpass.
      * split; [right; eexists; reflexivity|].
        destruct Ho2 as [[rs Ho2] | [Ho2 | Ho2]]; rewrite Ho2 in Hpass.
        -- destruct Hpass as [rs' Hpass]. left. exists u, rs'. split; assumption.
        -- right. left. exact Hpass.
        -- right. right. exact Hpass.
Qed.

Theorem forwarded_stays_final :
  forall (fuel : nat) (c : cluster) (e : env) (ni : nat) (rq : request),
    is_forwarded rq = true ->
    forall ev, In ev (res_trace (handle fuel c e ni rq)) -> match ev with EDialNode _ _ => False | _ => True end.
Proof.
  intros fuel c e ni rq Hf ev. destruct fuel as [|f]; [cbn; tauto|].
  cbn [handle].
  destruct (hop2_trace _ _ _ _ _ (hop2_holds (handle f c e) c e ni rq Hf)) as [-> | [-> | [uid ->]]]; cbn.
  - tauto.
  - intros [<-|[]]. exact I.
  - intros [<-|[<-|[]]]; exact I.
Qed.

(* a request that reached an upstream cost exactly one outgoing request per handler invocation *)
Definition trace_full (tr : list event) : bool :=
  match tr with
  | [EInvoke _; EDialUp _ _] => true
  | [EInvoke _; EDialNode _ _; EInvoke _; EDialUp _ _] => true
  | _ => false
  end.

Lemma hop2_up c e mi rq r u :
  hop2_spec c e mi rq r -> res_up r = Some u -> exists uid, res_trace r = [EInvoke mi; EDialUp mi uid].
Proof.
  intros H. destruct H; cbn; try discriminate. intros _. eexists. apply serve_local_trace.
Qed.

Theorem no_amplification_final :
  forall (c : cluster) (e : env) (entry : nat) (rq : request),
    e_keep e = true ->
    let r := deliver c e entry rq in
    dials r <= invocations r /\ (forall u, res_up r = Some u -> dials r = invocations r /\ 1 <= invocations r).
Proof.
  intros c e entry rq Hk r.
  assert (Hok : trace_ok (res_trace r) = true) by (apply deliver_trace_ok, Hk).
  split; [apply (trace_ok_counts _ Hok)|].
  intros u. unfold r, dials, invocations. rewrite deliver_two by exact Hk. cbn [handle].
  set (rec := handle_step (fun _ _ => fin (Status 0) []) c e).
  assert (Hrec : forall mi rq', is_forwarded rq' = true -> hop2_spec c e mi rq' (rec mi rq')).
  { intros mi rq' Hf. apply hop2_holds, Hf. }
  destruct (handle_step_spec rec c e entry rq) as
      [Hn | n Hn Hr' He | n Hn Hne Hp | n Hn Hpre Hs | n us Hn Hpre Hs Hp | n us u0 Hn Hpre Hs Hp
       | n vs Hn Hpre Hs Hp | n vs v Hn Hpre Hs Hp Ho | n vs v mi Hn Hpre Hs Hp Ho];
    try (cbn [res_up fin]; discriminate).
  - intros _. rewrite serve_local_trace. cbn. lia.
  - rewrite forward_result_up, forward_result_trace. intros Hu.
    set (rq1 := proxy_transform_gen (e_keep e) (e_client_ip e) (addressed_endpoint rq) rq) in *.
    assert (Hf : is_forwarded rq1 = true) by (unfold rq1; rewrite Hk; apply transform_forwarded).
    destruct (hop2_up _ _ _ _ _ _ (Hrec mi rq1 Hf) Hu) as [uid ->]. cbn. lia.
Qed.

(* ------------------------------------------------------------------ C08 *)
Theorem transparent_final :
  forall (c : cluster) (e : env) (entry : nat) (rq : request) (k : nat) (u : upstream) (rs : response),
    e_keep e = true -> route_of rq = RHttp ->
    res_out (deliver c e entry rq) = Served k u rs ->
    exists rq', res_upreq (deliver c e entry rq) = Some rq'
                /\ req_transparent rq rq' /\ resp_transparent (e_respond e u rq') rs.
Proof. intros c e entry rq k u rs Hk Hr H. exact (transparent c e entry rq k u rs Hk Hr H). Qed.

Theorem status_table_final :
  forall (c : cluster) (e : env) (T : Z) (entry : nat) (a : node) (rq : request),
    wf_cluster c -> e_keep e = true ->
    (forall n, In n c -> n_timeout n = T) -> (0 <= T)%Z ->
    nth_error c entry = Some a -> route_of rq = RHttp ->
    permitted (e_token e) (addressed_endpoint rq) = true ->
    (is_ws_upgrade rq = false \/ announces_upgrade rq = true) ->
    let r := deliver c e entry rq in
    (res_out r = Status 400 <-> addressed_endpoint rq = "")
    /\ (res_out r = Status 502 <->
        addressed_endpoint rq <> "" /\
        (res_up r = None \/ exists u, res_up r = Some u /\ (u_beh u = UDialFail \/ u_beh u = UReset)))
    /\ (res_out r = Status 504 <->
        exists u d, res_up r = Some u /\ u_beh u = UAnswer d /\ T <> 0%Z /\ (T <= d)%Z /\ is_ws_upgrade rq = false)
    /\ (forall k u rs, res_out r = Served k u rs ->
        res_up r = Some u /\ exists d, u_beh u = UAnswer d /\ (T = 0%Z \/ (d < T)%Z \/ is_ws_upgrade rq = true))
    /\ (res_out r = Status 400 \/ res_out r = Status 502 \/ res_out r = Status 504
        \/ exists k u rs, res_out r = Served k u rs).
Proof.
  intros c e T entry a rq Hwf Hk HT HT0 Ha Hr Hp Hws r.
  pose proof (deliver_table c e T Hwf Hk HT HT0 entry a rq Ha Hr Hp Hws) as Ht. fold r in Ht.
  split; [apply (table_400 T rq r Ht)|]. split; [apply (table_502 T rq r Ht)|].
  split; [apply (table_504 T rq r Ht)|]. split; [intros k u rs; apply (table_served T rq r k u rs Ht)|].
  apply (table_total T rq r Ht).
Qed.

Theorem total_final :
  forall (c : cluster) (e : env) (entry : nat) (n : node) (rq : request),
    nth_error c entry = Some n -> applies_timeout n rq = true -> (0 <= n_timeout n)%Z ->
    (res_elapsed (deliver c e entry rq) <= n_timeout n)%Z.
Proof.
  intros c e entry n rq Hn Ha HT. unfold deliver. rewrite handle_S. apply bounded_time; assumption.
Qed.

(* ------------------------------------------------------------------ examples: the hypotheses are satisfiable *)
Definition x_c : cluster :=
  [ build_node "a" "A" 200 [] [mkV "b" Active "B" [("e", 1%Z)]];
    build_node "b" "B" 200 [w_ue] [mkV "a" Active "A" []] ].
Definition x_rq : request := mkReq "POST" "/p%2Fq" (Some "x=1;y") "e.example.com:8000" [("X-A", "1"); ("x-a", "2"); ("Keep-Alive", "t")] "body".

Example x_c_wf : wf_cluster x_c.
Proof.
  split; [|split].
  - intros n [<-|[<-|[]]]; apply build_node_wf.
  - apply NoDup_2. discriminate.
  - apply NoDup_2. discriminate.
Qed.

Lemma x_eps_b ep :
  (match lookup ep [("e", 1%Z)] with Some k => (0 <? k)%Z | None => false end)
  = has_local (build_node "b" "B" 200 [w_ue] [mkV "a" Active "A" []]) ep.
Proof.
  unfold has_local, build_node, place. cbn [n_local fold_left add_conn u_ep w_ue lookup insert Maps.remove].
  destruct (String.eqb ep "e"); reflexivity.
Qed.

Lemma x_eps_a ep :
  (match lookup ep (@nil (string * Z)) with Some k => (0 <? k)%Z | None => false end)
  = has_local (build_node "a" "A" 200 [] [mkV "b" Active "B" [("e", 1%Z)]]) ep.
Proof. reflexivity. Qed.

Example x_c_settled : settled x_c.
Proof.
  intros n [<-|[<-|[]]]; split.
  - intros v [<-|[]] _ _. eexists. split; [right; left; reflexivity|]. repeat split. exact x_eps_b.
  - intros m [<-|[<-|[]]] Hid; [cbn in Hid; congruence|].
    eexists. split; [left; reflexivity|]. repeat split. exact x_eps_b.
  - intros v [<-|[]] _ _. eexists. split; [left; reflexivity|]. repeat split.
  - intros m [<-|[<-|[]]] Hid; [|cbn in Hid; congruence].
    eexists. split; [left; reflexivity|]. repeat split.
Qed.

Example x_c_healthy : healthy x_c.
Proof.
  split.
  - intros n [<-|[<-|[]]]; cbn; lia.
  - intros m ep us u [<-|[<-|[]]]; cbn [n_local build_node place fold_left]; [cbn; discriminate|].
    unfold add_conn. cbn [lookup u_ep w_ue insert Maps.remove].
    destruct (String.eqb ep "e"); [|discriminate]. intros [= <-] [<-|[]].
    exists 0%Z. split; [reflexivity|]. intros n [<-|[<-|[]]]; right; cbn; lia.
Qed.

Example x_pre_ok : pre_ok (w_env true) x_rq /\ is_forwarded x_rq = false /\ route_of x_rq = RHttp
                   /\ (is_ws_upgrade x_rq = false \/ announces_upgrade x_rq = true).
Proof.
  split; [split; [intros _; vm_compute; discriminate|reflexivity]|].
  split; [reflexivity|]. split; [reflexivity|]. left. reflexivity.
Qed.

(* the two-hop delivery of the example: served by b's upstream, the upstream sees the request line, Host and body
   unchanged and the end-to-end headers, without the hop-by-hop one *)
Example x_delivery :
  res_out (deliver x_c (w_env true) 0 x_rq) = Served 1 w_ue (mkResp 200 [("X-Up", "ue")] "ok")
  /\ res_trace (deliver x_c (w_env true) 0 x_rq) = [EInvoke 0; EDialNode 0 "B"; EInvoke 1; EDialUp 1 "ue"]
  /\ res_upreq (deliver x_c (w_env true) 0 x_rq) =
     Some (mkReq "POST" "/p%2Fq" (Some "x=1;y") "e.example.com:8000"
                 [("X-A", "1"); ("x-a", "2"); ("X-Piko-Forward", "true"); ("X-Forwarded-For", "127.0.0.1, 127.0.0.1")] "body").
Proof. vm_compute. repeat split. Qed.

(* why the status table asks for an announced upgrade: `Upgrade: websocket` without `Connection: Upgrade` loses the
   Upgrade header at the first hop, so the second node applies its timeout although the first did not *)
Definition x_slow := mkU "us" "e" (UAnswer 1000).
Definition x_c_slow : cluster :=
  [ build_node "a" "A" 200 [] [mkV "b" Active "B" [("e", 1%Z)]];
    build_node "b" "B" 200 [x_slow] [] ].
Example x_unannounced_upgrade :
  res_out (deliver x_c_slow (w_env true) 0 (mkReq "GET" "/" None "e.example.com" [("Upgrade", "websocket")] "")) = Status 504
  /\ (exists rs, res_out (deliver x_c_slow (w_env true) 0
                   (mkReq "GET" "/" None "e.example.com" [("Upgrade", "WebSocket"); ("Connection", "Upgrade")] "")) = Served 1 x_slow rs)
  /\ (exists rs, res_out (deliver x_c_slow (w_env true) 1 (mkReq "GET" "/" None "e.example.com" [("Upgrade", "websocket")] "")) = Served 1 x_slow rs).
Proof. split; [vm_compute; reflexivity|]. split; eexists; vm_compute; reflexivity. Qed.
