(* C20 - Concurrent operation never deadlocks, panics or races on shared state.
   Proved here: deadlock freedom, completion and bounded runs of ANY set of goroutines whose nested lock
   acquisitions lie in the relation extracted from the current source (generated/LockEdges.v), plus the
   consistency of registry / routing table / published state after completed operations.
   Partial: data-race freedom, absence of panics and wall-clock bounds are tested (race detector + watchdog
   stress harness, props/C20.py), and the extractor harness/lockorder is trusted. *)
From Coq Require Import List String Bool Arith.
From Piko Require Import Conc.LockOrder Conc.Acyclic Conc.Expected Conc.Quiescent.
From Piko Require Conc.Atomic ConcP.AtomicP.
From Piko Require Import ConcP.LockOrderP ConcP.AcyclicP ConcP.QuiescentP ConcP.LockEdgesP.
From Piko Require Import generated.LockEdges.
From Coq Require Import ZArith.
From Piko Require Import Conc.Schedule ConcP.ScheduleP.
Import ListNotations.

(* generic: "if there is a strict order on mutexes such that every thread only acquires mutexes above all those
   it holds, then no reachable state has every unfinished thread blocked" - any number of threads and steps *)
Theorem C20_ordered_no_deadlock : forall (rank : mutex -> nat) (s0 s : state),
  Forall (fun t => held t = [] /\ ordered rank [] (code t)) s0 -> steps s0 s ->
  ~ (~ Forall (fun t => code t = []) s /\ forall s', ~ step s s').
Proof. exact ordered_no_deadlock. Qed.

(* generic: the checker is sound - acceptance gives a ranking, so no cycle and no self edge is accepted *)
Theorem C20_acyclic_sound : forall es : list (string * string), acyclic es = true ->
  exists rank : string -> nat, forall a b, In (a, b) es -> rank a < rank b.
Proof. exact acyclic_sound. Qed.

Theorem C20_cycle_rejected : forall (es : list (string * string)) a, path es a a -> acyclic es = false.
Proof. exact cycle_rejected. Qed.

Theorem C20_self_edge_rejected : forall (es : list (string * string)) a, In (a, a) es -> acyclic es = false.
Proof. exact self_edge_rejected. Qed.

(* "never deadlock": the lock graph extracted from the current source is acyclic ... *)
Theorem C20_lock_graph_acyclic : acyclic lock_edges = true.
Proof. exact lock_edges_acyclic. Qed.

(* ... hence any set of goroutines whose nested acquisitions are all extracted edges never deadlocks *)
Theorem C20_no_deadlock : forall s0 s : state,
  Forall (fun t => held t = [] /\ within lock_edges [] (code t) = true) s0 -> steps s0 s ->
  ~ (~ Forall (fun t => code t = []) s /\ forall s', ~ step s s').
Proof. exact lock_edges_no_deadlock. Qed.

(* "every operation completes": in every reachable state either all threads are done or one can move, and all
   threads can be run to completion; "in bounded time": a run has at most as many steps as lock operations *)
Theorem C20_completes : forall s0 s : state,
  Forall (fun t => held t = [] /\ within lock_edges [] (code t) = true) s0 -> steps s0 s ->
  (Forall (fun t => code t = []) s \/ exists s', step s s') /\
  (exists s', steps s s' /\ Forall (fun t => code t = []) s').
Proof. exact lock_edges_completes. Qed.

Theorem C20_run_bounded : forall n (s s' : state), steps_n n s s' ->
  n + list_sum (map (fun t => List.length (code t)) s') = list_sum (map (fun t => List.length (code t)) s).
Proof. exact run_bounded. Qed.

(* sanity of the model: a mutex is held at most once *)
Theorem C20_mutual_exclusion : forall s0 s : state,
  Forall (fun t => held t = [] /\ within lock_edges [] (code t) = true) s0 -> steps s0 s ->
  NoDup (List.concat (map held s)).
Proof. exact lock_edges_exclusive. Qed.

(* the extracted edges are within manager.mu < gossip clusterState.mu < syncer.mu < cluster State.mu
   < leaves (failure detector, sessions) *)
Theorem C20_expected_order : forallb edge_expected lock_edges = true.
Proof. exact lock_edges_expected. Qed.

(* the hypotheses are satisfiable by a non-trivial state: eight goroutines running the scripts of AddConn (x2),
   Select, ApplyDelta (x2), UpdateLiveness, a status read and addSession, over the hand-written hierarchy *)
Example C20_example_state :
  acyclic expected_edges = true /\
  Forall (fun t => held t = [] /\ within expected_edges [] (code t) = true) example_state.
Proof. exact (conj expected_edges_acyclic example_state_init). Qed.

(* the mutation "subscribers called while State.mu is held" cannot hide: its script needs a self edge, which no
   accepted relation contains, and the model does deadlock on it *)
Theorem C20_broken_script_rejected : forall es : list (string * string),
  within es [] script_add_conn_broken = true -> acyclic es = false.
Proof. exact broken_script_needs_self_edge. Qed.

Theorem C20_broken_script_deadlocks : exists s : state,
  steps [mkThread [] script_add_conn_broken] s /\
  ~ Forall (fun t => code t = []) s /\ forall s', ~ step s s'.
Proof. exact broken_script_deadlocks. Qed.

(* "When activity stops, the upstream registry, the routing table and the published gossip state are mutually
   consistent": after any sequence of completed AddConn/RemoveConn calls (serialised by manager.mu) *)
Theorem C20_quiescent_consistent : forall (ops : list reg_op) (e : string),
  reg (reg_run ops) e = rt (reg_run ops) e /\ rt (reg_run ops) e = pub (reg_run ops) e.
Proof. exact quiescent_consistent. Qed.

(* The whole-call granularity of C20_quiescent_consistent is itself a theorem (Conc/Atomic.v, ConcP/AtomicP.v): any
   number of goroutines, each running any sequence of AddConn / RemoveConn calls made of the individual updates
   (registry; routing table; read the listener count; publish the count read) between Lock and Unlock of the manager's
   mutex, under EVERY schedule of their micro-steps: once all have finished, registry = routing table = published count
   for every endpoint. (That the cluster and gossip updates do happen inside that mutex is what the extracted lock
   graph shows: C20_expected_order.) *)
Theorem C20_atomic_calls_consistent : forall (progs : list (list Conc.Atomic.call)) (sched : list nat),
  let g := Conc.Atomic.grun (ConcP.AtomicP.ginit progs) sched in
  Conc.Atomic.finished g -> Conc.Atomic.consistent (Conc.Atomic.st g).
Proof. exact ConcP.AtomicP.atomic_calls_consistent. Qed.

(* ... and it is the mutex that does it: releasing it after the registry update, before the cluster is told (seeded
   changes C05-1, C16-2, C20-1), two connects of one endpoint can finish with the published count one short *)
Example C20_early_unlock_refuted :
  let g := Conc.Atomic.grun (ConcP.AtomicP.ginit_early [[Conc.Atomic.CAdd "e"]; [Conc.Atomic.CAdd "e"]]) [0; 0; 0; 0; 0; 1; 1; 1; 1; 1; 1; 0] in
  Conc.Atomic.finished g /\ reg (Conc.Atomic.st g) "e" = 2 /\ rt (Conc.Atomic.st g) "e" = 2 /\ pub (Conc.Atomic.st g) "e" = 1.
Proof. exact ConcP.AtomicP.early_unlock_refuted. Qed.

(* the hypothesis of C20_atomic_calls_consistent, read off the CURRENT source: in the table regenerated by the lock-order
   extractor, AddConn and RemoveConn acquire the cluster state's mutex (the routing-table update) and the gossip state's
   mutex (the publication) at points where they hold the manager's mutex - so each of them is one critical section of the
   micro-step machine. A change that releases the manager's mutex before the cluster is told (or publishes from another
   goroutine) makes this theorem fail on the regenerated table. *)
Theorem C20_registry_changes_publish_under_manager_lock :
  holders_present lock_holders = true /\
  (forall hs, holders_present hs = true -> forall r, In r required_holders -> In r hs).
Proof. exact (conj lock_holders_required holders_present_sound). Qed.

(* "... never deadlock, panic ..., and every operation completes in bounded time": the periodic tasks themselves (gossip round,
   liveness evaluation, compaction, expiry: gossip.go schedule / scheduleFunc). Each fires on a ticker and waits a random
   jitter first (Conc/Schedule.v, the random number is an oracle). For EVERY interval the configuration accepts and every
   random number the jitter is defined and at most a tenth of the interval, so every run starts within its own period.
   The same clause is FALSE of the pinned tree (finding S1, repaired by the commit "fix: compute the gossip scheduling
   jitter on the duration ..."): `rand.Int63() % interval.Milliseconds()` divides by zero for every interval below one
   millisecond - all of which Config.Validate accepts - and the panic on the task's goroutine kills the process. *)
Theorem C20_schedule_jitter_total :
  forall interval r, interval_ok interval = true -> exists j, jitter interval r = Some j /\ (0 <= j <= interval / 10)%Z.
Proof. exact jitter_total. Qed.

Theorem C20_schedule_run_within_period :
  forall interval k r j, interval_ok interval = true -> jitter interval r = Some j -> (1 <= k)%Z ->
  (k * interval <= run_time interval k j <= k * interval + interval / 10)%Z /\ (run_time interval k j < (k + 1) * interval)%Z.
Proof. exact run_within_period. Qed.

Theorem C20_schedule_refuted_pinned :
  (exists interval r, interval_ok interval = true /\ jitter_pinned interval r = None /\ jitter interval r <> None) /\
  (forall interval r, interval_ok interval = true -> (jitter_pinned interval r = None <-> (interval < 1000000)%Z)).
Proof. exact (conj jitter_pinned_refuted jitter_pinned_defined_iff). Qed.

Print Assumptions C20_atomic_calls_consistent.
Print Assumptions C20_early_unlock_refuted.
Print Assumptions C20_ordered_no_deadlock.
Print Assumptions C20_acyclic_sound.
Print Assumptions C20_cycle_rejected.
Print Assumptions C20_self_edge_rejected.
Print Assumptions C20_lock_graph_acyclic.
Print Assumptions C20_no_deadlock.
Print Assumptions C20_completes.
Print Assumptions C20_run_bounded.
Print Assumptions C20_mutual_exclusion.
Print Assumptions C20_expected_order.
Print Assumptions C20_example_state.
Print Assumptions C20_broken_script_rejected.
Print Assumptions C20_broken_script_deadlocks.
Print Assumptions C20_quiescent_consistent.
Print Assumptions C20_registry_changes_publish_under_manager_lock.
Print Assumptions C20_schedule_jitter_total.
Print Assumptions C20_schedule_run_within_period.
Print Assumptions C20_schedule_refuted_pinned.
