(* C02 - Gossip never loses, fabricates or rolls back another node's state.
   Only statements here; proofs are in GossipP/Valid.v, ApplyValid.v, ApplyP.v, WorldP.v.
   Model: Gossip/Local.v, Apply.v, World.v (pkg/gossip/state.go, listener.go, gossip.go). *)
From Coq Require Import List String NArith ZArith Bool Lia.
From Piko Require Import Base.Maps Base.Strs Gossip.Types Gossip.Local Gossip.Apply Gossip.Codec Gossip.World.
From Piko Require Import GossipP.SortP GossipP.LocalP GossipP.Valid GossipP.ApplyValid GossipP.ApplyP GossipP.WorldP GossipP.WatchP GossipP.MemberP GossipP.WorldInv.
Import ListNotations.
Open Scope string_scope. Open Scope list_scope. Open Scope N_scope.

(* The invariant of the property, for a view V of an owner with current state O and write log L (Valid):
   V1  V reports a version the owner has reached;
   V2  "everything a node reports ... was genuinely written by that owner": every entry of V is in the log;
   V3  "whenever it reports having seen the owner's state up to version v, every key whose latest write is at or
       below v shows exactly the owner's current value" (tombstones included);
   V4  an entry the owner no longer holds (deleted and compacted away) may linger only until V reaches the
       owner's compaction marker - "which may take effect only on reaching the owner's compaction point". *)

(* every local write of the owner (upsert, delete, leave, compaction) preserves the owner invariants and keeps
   EVERY valid view valid - also views cut earlier and still in flight inside a packet *)
Theorem C02_owner_step_preserves_valid :
  forall O L o, OwnInv O L -> user_op o -> small O ->
  OwnInv (local_step O o) (L ++ new_entries O (local_step O o)) /\
  forall V, Valid V O L -> Valid V (local_step O o) (L ++ new_entries O (local_step O o)).
Proof. exact owner_step. Qed.

(* the delta rule: source view S valid, observer view B valid, the digest version d is one B has reached;
   then applying ANY prefix (truncated packet) of the version-sorted entries of S above d keeps B valid and never
   moves its version backwards - including across current or stale compaction markers *)
Theorem C02_apply_prefix_valid :
  forall O S L d now nid B es, OwnInv O L -> Valid S O L -> Valid B O L -> d <= n_ver B ->
  is_prefix_of es (sort_by_ver (filter (fun e => d <? e_ver e) (values (n_ents S)))) ->
  Valid (fst (apply_entries now nid B es)) O L /\ n_ver B <= n_ver (fst (apply_entries now nid B es)).
Proof. intros O S L d now nid B es HO HS HB Hd Hp. exact (apply_prefix_valid O S L d now nid HO HS B es HB Hd Hp). Qed.

(* the owner's own state is a valid source; an unknown node starts from a valid (empty) view *)
Theorem C02_sources_valid :
  forall O L id addr, OwnInv O L -> Valid O O L /\ Valid (new_node id addr) O L.
Proof. intros O L id addr H. split; [apply Valid_self, H|apply Valid_new, H]. Qed.

(* caught up => identical keys, values and tombstones *)
Theorem C02_caught_up_exact :
  forall O V L, OwnInv O L -> Valid V O L -> n_ver V = n_ver O -> forall k, lookup k (n_ents V) = lookup k (n_ents O).
Proof. exact caught_up_exact. Qed.

(* "A node's own published state is changed only by its own local writes, never by received messages" *)
Theorem C02_own_state_local_only :
  forall c b max nows order, local_ok c ->
  lookup (c_local c) (c_nodes (h_state (handle_packet c b max nows order))) = lookup (c_local c) (c_nodes c).
Proof. intros c b max nows order H. exact (proj1 (handle_packet_own c b max nows order H)). Qed.

Theorem C02_own_state_liveness_expiry :
  forall c suspect nows t, wf_c c -> local_ok c ->
  lookup (c_local c) (c_nodes (fst (update_liveness suspect nows c))) = lookup (c_local c) (c_nodes c) /\
  lookup (c_local c) (c_nodes (fst (remove_expired t c))) = lookup (c_local c) (c_nodes c).
Proof.
  intros c suspect nows t Hw Hl. split; [exact (proj1 (update_liveness_local suspect nows c Hw))|exact (remove_expired_local t c Hl)].
Qed.

(* the pinned behaviour with expiry (finding F3) is outside these theorems: remove_expired forgets the view, so a
   delta cut for a digest version d > 0 no longer meets d <= n_ver B (B is re-created at version 0) *)
Definition own_step (p : node_state * list entry) (o : lop) : node_state * list entry :=
  (local_step (fst p) o, snd p ++ new_entries (fst p) (local_step (fst p) o)).

Example C02_refuted_with_expiry :
  exists O L S B d es now,
    OwnInv O L /\ Valid S O L /\ Valid B O L /\ ~ d <= n_ver B /\
    is_prefix_of es (sort_by_ver (filter (fun e => d <? e_ver e) (values (n_ents S)))) /\
    ~ Valid (fst (apply_entries now "b" B es)) O L.
Proof.
  set (p0 := (new_node "b" "b:1", @nil entry)).
  set (p4 := own_step (own_step (own_step (own_step p0 (LUpsert "k1" "1")) (LUpsert "k2" "2")) (LUpsert "k3" "3")) (LUpsert "k4" "4")).
  exists (fst p4), (snd p4), (fst p4), (new_node "b" "b:1"), 3, [mk_entry "k4" "4" 4 false false], 0%Z.
  assert (HO : OwnInv (fst p4) (snd p4)).
  { assert (Hstep : forall p o, OwnInv (fst p) (snd p) -> user_op o -> n_ver (fst p) < 10 ->
                               OwnInv (fst (own_step p o)) (snd (own_step p o))).
    { intros p o H Hu Hs. assert (Hsm : small (fst p)) by (unfold small; lia).
      exact (proj1 (owner_step _ _ o H Hu Hsm)). }
    unfold p4. repeat (apply Hstep; [|reflexivity|vm_compute; reflexivity]). apply OwnInv_new. }
  split; [exact HO|]. split; [apply Valid_self, HO|]. split; [apply Valid_new, HO|].
  split; [cbn; lia|]. split; [exists []; vm_compute; reflexivity|].
  intros HV. pose proof (V3 _ _ _ HV "k1" (mk_entry "k1" "1" 1 false false) eq_refl) as H.
  vm_compute in H. specialize (H ltac:(discriminate)). discriminate.
Qed.

(* THE property over whole clusters: for every cluster (any number of nodes with distinct ids and addresses), every
   owner x and every world reachable from the initial one by ANY interleaving of local writes/deletes/leave/
   compactions on any node, digest sends with any entry order and any maximum packet size, delivery, duplication
   and loss of packets in any order, liveness evaluations, join and leave streams (relay through third parties
   included), as long as versions stay below 2^64 and no node expires another (finding F3) and no packet is forged
   outside the cluster: every other node's view of x is Valid with respect to x's CURRENT own state and write log. *)
Theorem C02_world_invariant :
  forall specs jx x xaddr w,
  NoDup (map fst specs) -> NoDup (map snd specs) -> nth_error specs jx = Some (x, xaddr) ->
  reach (init_world specs) w ->
  exists cx O, nth_error (w_nodes w) jx = Some cx /\ lookup x (c_nodes cx) = Some O /\ OwnInv O (log_of w x) /\
    forall o c V, nth_error (w_nodes w) o = Some c -> o <> jx -> lookup x (c_nodes c) = Some V -> Valid V O (log_of w x).
Proof. intros specs jx x xaddr w H1 H2 H3 Hr. exact (views_valid specs H1 H2 jx x xaddr H3 w Hr). Qed.

(* corollary: whoever has caught up with x's version holds exactly x's entries (keys, values, tombstones) *)
Theorem C02_world_caught_up :
  forall specs jx x xaddr w,
  NoDup (map fst specs) -> NoDup (map snd specs) -> nth_error specs jx = Some (x, xaddr) ->
  reach (init_world specs) w ->
  forall o c V cx O, nth_error (w_nodes w) o = Some c -> o <> jx -> lookup x (c_nodes c) = Some V ->
  nth_error (w_nodes w) jx = Some cx -> lookup x (c_nodes cx) = Some O -> n_ver V = n_ver O ->
  forall k, lookup k (n_ents V) = lookup k (n_ents O).
Proof.
  intros specs jx x xaddr w H1 H2 H3 Hr o c V cx O Hc Hne HV Hcx HO Heq.
  destruct (views_valid specs H1 H2 jx x xaddr H3 w Hr) as [cx' [O' [A [B [C D]]]]].
  assert (cx' = cx) by congruence. subst cx'. assert (O' = O) by congruence. subst O'.
  apply (caught_up_exact O V (log_of w x) C (D o c V Hc Hne HV) Heq).
Qed.

(* "the version it reports for any node never moves backwards": for ANY received digest, delta (honest or not)
   and any liveness evaluation, a known node stays known and its reported version does not decrease *)
Theorem C02_version_never_backwards :
  forall c o id, known c id -> (forall t, o <> RExpire t) ->
  known (fst (rstep c o)) id /\ ver_of c id <= ver_of (fst (rstep c o)) id.
Proof. exact version_never_backwards. Qed.

(* non-vacuity: a 3-node history with relay, truncation, duplication and a compaction is reachable *)
Example C02_reachable_example :
  let specs := [("a", "10.0.0.1:7000"); ("b", "10.0.0.2:7000"); ("c", "10.0.0.3:7000")] in
  let ops := [WLocal 1 (LUpsert "k" "v"); WLocal 1 (LUpsert "j" "w"); WJoin 0 1 [] []; WLocal 1 (LDelete "k");
              WLocal 1 (LCompact 1); WSend 2 0 ["c"] 1400; WDeliver 0 true 120 [] ["a"; "b"; "c"]; WDeliver 0 false 1400 [] ["a"; "c"; "b"];
              WSend 0 1 ["b"; "a"; "c"] 1400; WDeliver 3 false 90 [] ["b"; "a"; "c"]] in
  Forall (allowed) ops /\ List.length (w_net (wrun (init_world specs) ops)) = 4%nat.
Proof.
  cbn zeta. split; [|vm_compute; reflexivity].
  repeat (apply Forall_cons; [vm_compute; try reflexivity; try exact I; try discriminate|]). apply Forall_nil.
Qed.

Print Assumptions C02_owner_step_preserves_valid.
Print Assumptions C02_apply_prefix_valid.
Print Assumptions C02_sources_valid.
Print Assumptions C02_caught_up_exact.
Print Assumptions C02_own_state_local_only.
Print Assumptions C02_own_state_liveness_expiry.
Print Assumptions C02_refuted_with_expiry.
Print Assumptions C02_world_invariant.
Print Assumptions C02_world_caught_up.
Print Assumptions C02_version_never_backwards.
Print Assumptions C02_reachable_example.
