(* C02 - Gossip never loses, fabricates or rolls back another node's state.
   Only statements here; proofs are in GossipP/Valid.v, ApplyValid.v, ApplyP.v, WorldP.v.
   Model: Gossip/Local.v, Apply.v, World.v (pkg/gossip/state.go, listener.go, gossip.go). *)
From Coq Require Import List String NArith ZArith Bool Lia.
From Piko Require Import Base.Maps Base.Strs Gossip.Types Gossip.Local Gossip.Apply Gossip.Codec Gossip.World.
From Piko Require Import GossipP.SortP GossipP.LocalP GossipP.Valid GossipP.ApplyValid GossipP.ApplyP GossipP.WorldP.
Import ListNotations.
Open Scope string_scope. Open Scope list_scope. Open Scope N_scope.

(* The invariant of the property, for a view V of an owner with current state O and write log L (Valid):
   V1  V reports a version the owner has reached;
   V2  "everything a node reports ... was genuinely written by that owner": every entry of V is in the log;
   V3  "whenever it reports having seen the owner's state up to version v, every key whose latest write is at or
       below v shows exactly the owner's current value" (tombstones included);
   V4  an entry the owner no longer holds (deleted and compacted away) may linger only until V reaches the
       owner's compaction marker - "which may take effect only on reaching the owner's compaction point". *)

(* every local write of the owner (upsert, delete, leave, compaction) preserves the owner invariants and keeps
   EVERY valid view valid - also views cut earlier and still in flight inside a packet *)
Theorem C02_owner_step_preserves_valid :
  forall O L o, OwnInv O L -> user_op o -> small O ->
  OwnInv (local_step O o) (L ++ new_entries O (local_step O o)) /\
  forall V, Valid V O L -> Valid V (local_step O o) (L ++ new_entries O (local_step O o)).
Proof. exact owner_step. Qed.

(* the delta rule: source view S valid, observer view B valid, the digest version d is one B has reached;
   then applying ANY prefix (truncated packet) of the version-sorted entries of S above d keeps B valid and never
   moves its version backwards - including across current or stale compaction markers *)
Theorem C02_apply_prefix_valid :
  forall O S L d now nid B es, OwnInv O L -> Valid S O L -> Valid B O L -> d <= n_ver B ->
  is_prefix_of es (sort_by_ver (filter (fun e => d <? e_ver e) (values (n_ents S)))) ->
  Valid (fst (apply_entries now nid B es)) O L /\ n_ver B <= n_ver (fst (apply_entries now nid B es)).
Proof. intros O S L d now nid B es HO HS HB Hd Hp. exact (apply_prefix_valid O S L d now nid HO HS B es HB Hd Hp). Qed.

(* the owner's own state is a valid source; an unknown node starts from a valid (empty) view *)
Theorem C02_sources_valid :
  forall O L id addr, OwnInv O L -> Valid O O L /\ Valid (new_node id addr) O L.
Proof. intros O L id addr H. split; [apply Valid_self, H|apply Valid_new, H]. Qed.

(* caught up => identical keys, values and tombstones *)
Theorem C02_caught_up_exact :
  forall O V L, OwnInv O L -> Valid V O L -> n_ver V = n_ver O -> forall k, lookup k (n_ents V) = lookup k (n_ents O).
Proof. exact caught_up_exact. Qed.

(* "A node's own published state is changed only by its own local writes, never by received messages" *)
Theorem C02_own_state_local_only :
  forall c b max nows order, local_ok c ->
  lookup (c_local c) (c_nodes (h_state (handle_packet c b max nows order))) = lookup (c_local c) (c_nodes c).
Proof. intros c b max nows order H. exact (proj1 (handle_packet_own c b max nows order H)). Qed.

Theorem C02_own_state_liveness_expiry :
  forall c suspect nows t, wf_c c -> local_ok c ->
  lookup (c_local c) (c_nodes (fst (update_liveness suspect nows c))) = lookup (c_local c) (c_nodes c) /\
  lookup (c_local c) (c_nodes (fst (remove_expired t c))) = lookup (c_local c) (c_nodes c).
Proof.
  intros c suspect nows t Hw Hl. split; [exact (proj1 (update_liveness_local suspect nows c Hw))|exact (remove_expired_local t c Hl)].
Qed.

(* the pinned behaviour with expiry (finding F3) is outside these theorems: remove_expired forgets the view, so a
   delta cut for a digest version d > 0 no longer meets d <= n_ver B (B is re-created at version 0) *)
Definition own_step (p : node_state * list entry) (o : lop) : node_state * list entry :=
  (local_step (fst p) o, snd p ++ new_entries (fst p) (local_step (fst p) o)).

Example C02_refuted_with_expiry :
  exists O L S B d es now,
    OwnInv O L /\ Valid S O L /\ Valid B O L /\ ~ d <= n_ver B /\
    is_prefix_of es (sort_by_ver (filter (fun e => d <? e_ver e) (values (n_ents S)))) /\
    ~ Valid (fst (apply_entries now "b" B es)) O L.
Proof.
  set (p0 := (new_node "b" "b:1", @nil entry)).
  set (p4 := own_step (own_step (own_step (own_step p0 (LUpsert "k1" "1")) (LUpsert "k2" "2")) (LUpsert "k3" "3")) (LUpsert "k4" "4")).
  exists (fst p4), (snd p4), (fst p4), (new_node "b" "b:1"), 3, [mk_entry "k4" "4" 4 false false], 0%Z.
  assert (HO : OwnInv (fst p4) (snd p4)).
  { assert (Hstep : forall p o, OwnInv (fst p) (snd p) -> user_op o -> n_ver (fst p) < 10 ->
                               OwnInv (fst (own_step p o)) (snd (own_step p o))).
    { intros p o H Hu Hs. assert (Hsm : small (fst p)) by (unfold small; lia).
      exact (proj1 (owner_step _ _ o H Hu Hsm)). }
    unfold p4. repeat (apply Hstep; [|reflexivity|vm_compute; reflexivity]). apply OwnInv_new. }
  split; [exact HO|]. split; [apply Valid_self, HO|]. split; [apply Valid_new, HO|].
  split; [cbn; lia|]. split; [exists []; vm_compute; reflexivity|].
  intros HV. pose proof (V3 _ _ _ HV "k1" (mk_entry "k1" "1" 1 false false) eq_refl) as H.
  vm_compute in H. specialize (H ltac:(discriminate)). discriminate.
Qed.

(* PARTIAL (named): the lift of these lemmas to "for every op list of the world model, every pair observer/owner:
   Valid (view o x) (own x) (log x)" (C02_world_invariant, with the packet invariant of DESIGN.md appendix A) is in
   progress; until it is closed the world-level statement is carried by the per-step monitor and the correspondence. *)

Print Assumptions C02_owner_step_preserves_valid.
Print Assumptions C02_apply_prefix_valid.
Print Assumptions C02_sources_valid.
Print Assumptions C02_caught_up_exact.
Print Assumptions C02_own_state_local_only.
Print Assumptions C02_own_state_liveness_expiry.
Print Assumptions C02_refuted_with_expiry.
