(* C13 - Gossip packets fit the size limit, decode to prefixes, survive hostile input.
   Only statements here; proofs are in GossipP/CodecP.v, ApplyP.v, WorldP.v.
   Model: Gossip/Codec.v (encodeDigest / encodeDelta / Gossip.gossip, pkg/gossip/protocol.go, gossip.go:342)
   and the packet handlers of Gossip/World.v (pkg/gossip/listener.go). *)
From Coq Require Import List String NArith ZArith Bool.
From Piko Require Import Base.Maps Base.Strs Gossip.Types Gossip.Local Gossip.Apply Gossip.Codec Gossip.World.
From Piko Require Import Gossip.Decode GossipP.CodecP GossipP.ApplyP GossipP.WorldP GossipP.DecodeP.
From Piko Require Import generated.Constants GossipP.ConstantsP.
From Piko Require Import Gossip.SkipFit GossipP.SkipFitP.
Import ListNotations.
Open Scope string_scope. Open Scope list_scope. Open Scope N_scope.

(* "Every gossip datagram a node emits fits within the configured maximum packet size":
   for EVERY header, content and max the encoder returns an error or at most max bytes *)
Theorem C13_size_digest :
  forall id addr req dg max b, encode_digest id addr req dg max = Some b -> blen b <= max.
Proof. exact encode_digest_size. Qed.

Theorem C13_size_delta :
  forall id addr dl max b, encode_delta id addr dl max = Some b -> blen b <= max.
Proof. exact encode_delta_size. Qed.

(* an error is returned exactly when the fixed header alone does not fit *)
Theorem C13_error_iff_header :
  forall id addr req dg max, encode_digest id addr req dg max = None <-> max < blen (digest_prefix id addr req).
Proof. exact encode_digest_error. Qed.

(* "...and decodes to a prefix of what was intended: whole entries only": the bytes are the encoding of the
   header followed by a prefix of the digest entries; the first entry left out does not fit (maximal cut) *)
Theorem C13_prefix_digest :
  forall id addr req dg max b, encode_digest id addr req dg max = Some b ->
  exists sent rest, dg = sent ++ rest /\ b = encode_digest_full id addr req sent /\
    match rest with [] => True | x :: _ => max < blen b + blen (enc_dig_entry x) end.
Proof. exact encode_digest_prefix. Qed.

(* deltas: complete nodes in order, then at most one node with a strict prefix of its entries (in the order
   given, which is version order - Gossip/Apply.v delta_entry_of sorts), nothing after the cut *)
Theorem C13_prefix_delta :
  forall id addr dl max b, encode_delta id addr dl max = Some b ->
  exists parts, delta_cut dl parts /\ b = encode_delta_full id addr parts.
Proof. exact encode_delta_prefix. Qed.

(* "at least one entry whenever the next one fits" *)
Theorem C13_at_least_one_entry :
  forall id addr de e es dl max,
  de_ents de = e :: es ->
  blen (delta_prefix id addr) + blen (enc_delta_header (de_id de) (de_addr de) (N.of_nat (List.length (de_ents de))))
    + blen (enc_entry e) <= max ->
  exists p ps t, cut_delta id addr (de :: dl) max = Some (p :: ps) /\ dp_id p = de_id de /\ dp_ents p = e :: t.
Proof. exact encode_delta_at_least_one. Qed.

Theorem C13_cut_maximal :
  forall (enc : entry -> bytes) max used items taken u x rest,
  take_fit enc max used items = (taken, u) -> items = taken ++ x :: rest -> max < u + blen (enc x).
Proof. exact (@take_fit_maximal entry). Qed.

(* every packet a handler sends in reply respects the limit as well *)
Theorem C13_replies_fit :
  forall c b max nows order p, In p (h_out (handle_packet c b max nows order)) -> blen (p_bytes p) <= max.
Proof. exact handle_packet_sizes. Qed.

(* "Any received datagram ... without altering the node's own published state": for EVERY decoded body
   (arbitrary ids incl. the receiver's own, versions, flags, non-numeric compaction values) the handler is a
   total function and the receiver's own node state is unchanged *)
Theorem C13_local_untouched :
  forall c b max nows order, local_ok c ->
  lookup (c_local c) (c_nodes (h_state (handle_packet c b max nows order))) = lookup (c_local c) (c_nodes c)
  /\ c_local (h_state (handle_packet c b max nows order)) = c_local c.
Proof. exact handle_packet_own. Qed.

(* "...and decodes to a prefix of what was intended": the round trip through the truncating encoder and the decoder
   of the canonical format (Gossip/Decode.v: what decodeDigest / decodeDelta read - entries until EOF, per node up to
   the announced count or EOF). For every representable header and content (Go string lengths < 2^32, versions
   < 2^64, counts < 2^63) and EVERY max: decoding the emitted bytes yields exactly the header and the cut - for a
   delta: complete nodes in order, then at most one node with a strict prefix of its entries, nothing after it. *)
Theorem C13_roundtrip_delta :
  forall id addr dl max b, str_ok id -> str_ok addr -> Forall delta_entry_ok dl ->
  encode_delta id addr dl max = Some b ->
  exists parts, delta_cut dl parts /\ decode_delta b = Some (id, addr, parts).
Proof. exact roundtrip_delta. Qed.

Theorem C13_roundtrip_digest :
  forall id addr rq dg max b, str_ok id -> str_ok addr -> Forall dig_ok dg ->
  encode_digest id addr rq dg max = Some b ->
  exists sent rest, dg = sent ++ rest /\ decode_digest b = Some (id, addr, rq, sent).
Proof. exact roundtrip_digest. Qed.

(* PARTIAL (named): Gossip/Decode.v models the decoder on the canonical grammar only; that the real ugorji decoder
   agrees with it on emitted packets is checked on every run (the real decoder's output for every emitted packet is
   compared with the model's cut), and its termination / memory safety on hostile bytes is tested, not proved. *)

(* non-vacuity: a concrete delta that is cut inside its first node at max = 150 *)
Example C13_example_cut :
  let e1 := mk_entry "k1" "v1" 1 false false in
  let e2 := mk_entry "k2" (String.concat "" (repeat "x" 40)) 2 false false in
  let dl := [{| de_id := "b"; de_addr := "10.0.0.2:7000"; de_ents := [e1; e2] |}] in
  exists b parts, encode_delta "a" "10.0.0.1:7000" dl 150 = Some b /\ blen b <= 150 /\
    cut_delta "a" "10.0.0.1:7000" dl 150 = Some parts /\ map (fun p => List.length (dp_ents p)) parts = [1%nat].
Proof. cbn zeta. eexists; eexists. vm_compute. repeat split; discriminate. Qed.

(* the message type bytes and the protocol version the codec model writes are those of the current source (regenerated
   constants), and the four message types are distinct *)
Theorem C13_packet_prefix_is_the_sources :
  forall id addr req,
  firstn 2 (digest_prefix id addr req) = [Z.to_N GoConst.messageTypeDigest; Z.to_N GoConst.supportedVersion] /\
  firstn 2 (delta_prefix id addr) = [Z.to_N GoConst.messageTypeDelta; Z.to_N GoConst.supportedVersion].
Proof. exact src_packet_prefix. Qed.

Theorem C13_message_types_distinct :
  NoDup [GoConst.messageTypeDigest; GoConst.messageTypeDelta; GoConst.messageTypeJoin; GoConst.messageTypeLeave].
Proof. exact src_message_types_distinct. Qed.

(* "decodes to a prefix of what was intended: whole entries only, per node in version order" is what the packing variant
   "skip the entry that does not fit and go on with the smaller ones" loses (Gossip/SkipFit.v; written independently by five
   authors of seeded changes). On small / LARGE / small outstanding entries the real loop packs the first one; the variant
   packs the first and the third - not a prefix - and the observer that applies it reports version 3 of the owner while it
   has no entry for the key written at version 2 (the hole of C02's V3; its next digest carries version 3, so the skipped
   entry is never asked for again). *)
Theorem C13_skip_variant_refuted :
  map e_key sk_real = ["a"] /\
  map e_key sk_var = ["a"; "c"] /\ (forall rest, sk_entries <> (sk_var ++ rest)%list) /\
  (exists V, sk_view = Some V /\ n_ver V = 3%N /\ lookup "b" (n_ents V) = None /\
             exists e, In e sk_entries /\ e_key e = "b" /\ (e_ver e <= n_ver V)%N).
Proof. exact skip_variant_refuted. Qed.

Print Assumptions C13_size_digest.
Print Assumptions C13_size_delta.
Print Assumptions C13_error_iff_header.
Print Assumptions C13_prefix_digest.
Print Assumptions C13_prefix_delta.
Print Assumptions C13_at_least_one_entry.
Print Assumptions C13_cut_maximal.
Print Assumptions C13_replies_fit.
Print Assumptions C13_local_untouched.
Print Assumptions C13_roundtrip_delta.
Print Assumptions C13_roundtrip_digest.
Print Assumptions C13_example_cut.
Print Assumptions C13_packet_prefix_is_the_sources.
Print Assumptions C13_message_types_distinct.
Print Assumptions C13_skip_variant_refuted.
