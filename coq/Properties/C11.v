(* C11 - Membership lifecycle: left, unreachable, recovered and expired nodes.
   Only statements here; proofs in GossipP/ApplyP.v, MemberP.v. Model: Gossip/Apply.v, Local.v
   (ApplyDigest / applyDeltaEntry / UpdateLiveness / RemoveExpiredAt / LeaveLocal, pkg/gossip/state.go). *)
From Coq Require Import List String NArith ZArith Bool.
From Piko Require Import Base.Maps Base.Strs Gossip.Types Gossip.Local Gossip.Apply.
From Piko Require Import GossipP.LocalP GossipP.ApplyP GossipP.WatchP GossipP.MemberP.
From Piko Require Import FD.FD Compose.LiveFD GossipP.RediscoverP.
From Coq Require Import Permutation.
From Piko Require Import Gossip.Round GossipP.RoundP.
From Piko Require Import generated.Constants GossipP.ConstantsP.
Import ListNotations.
Open Scope string_scope. Open Scope list_scope. Open Scope N_scope.

(* "never again ... re-learned from peers that know it has left": a digest whose entries for id are all flagged
   left never creates id *)
Theorem C11_no_relearn_left :
  forall c dg id, mem id (c_nodes c) = false ->
  (forall d, In d dg -> d_id d = id -> d_left d = true) ->
  mem id (c_nodes (fst (apply_digest c dg))) = false.
Proof. exact apply_digest_no_left. Qed.

(* "A node that leaves gracefully is seen as left ... is never again treated as live": once left, a view stays
   left under every receiver operation; only an expiry sweep removes it *)
Theorem C11_left_is_final :
  forall c o id, wf_c c -> NoDup (keys (c_nodes c)) -> is_left c id ->
  is_left (fst (rstep c o)) id \/ (exists t, o = RExpire t /\ lookup id (c_nodes (fst (rstep c o))) = None).
Proof. exact left_is_final. Qed.

(* receiving the owner's left marker marks the view left and schedules expiry 60 s later *)
Theorem C11_leave_marks_and_stamps :
  forall now nid st e, n_ver st < e_ver e -> e_int e = true -> e_key e = leftKey ->
  let st' := fst (fst (apply_entry now nid st e)) in
  n_left st' = true /\ n_expiry st' = Some (now + nodeExpiry)%Z /\ snd (fst (apply_entry now nid st e)) = [ELeave nid].
Proof. exact left_stamps_expiry. Qed.

(* "is forgotten after the expiry period": a sweep at time t removes exactly the nodes whose expiry is set and
   before t *)
Theorem C11_expiry :
  forall t c k, NoDup (keys (c_nodes c)) ->
  lookup k (c_nodes (fst (remove_expired t c))) =
  match lookup k (c_nodes c) with
  | Some s => match n_expiry s with Some e => if (e <? t)%Z then None else Some s | None => Some s end
  | None => None
  end.
Proof. exact remove_expired_iff. Qed.

(* "marked unreachable and excluded ... restored if it is heard from again": after a liveness evaluation the flag
   of every remote, non-left node equals the detector's verdict; becoming unreachable stamps expiry = now + 60 s,
   recovery clears it, no change otherwise *)
Theorem C11_unreachable_excluded_restored :
  forall local suspect nows s, n_id s <> local -> n_left s = false ->
  let s' := fst (liveness_node local suspect nows s) in
  n_unreach s' = suspect (n_id s) /\
  (suspect (n_id s) = true -> n_unreach s = false -> n_expiry s' = Some (now_of nows (n_id s) + nodeExpiry)%Z) /\
  (suspect (n_id s) = false -> n_unreach s = true -> n_expiry s' = None) /\
  (suspect (n_id s) = n_unreach s -> s' = s).
Proof. exact liveness_verdict. Qed.

(* "The local node is never marked unreachable or removed": for EVERY sequence of receiver operations (any
   digests, deltas, verdicts, sweep times) the local node's state is untouched, it stays present, reachable and
   without expiry *)
Theorem C11_local_immune :
  forall ops c, wf_c c -> NoDup (keys (c_nodes c)) -> local_ok c ->
  local_ok (fst (rrun c ops)) /\ lookup (c_local c) (c_nodes (fst (rrun c ops))) = lookup (c_local c) (c_nodes c).
Proof. exact local_immune. Qed.

(* "only it can declare itself left": the local left flag is written by LeaveLocal only (previous theorem: no
   receiver operation changes the local node state at all); LeaveLocal sets it and publishes the marker *)
Theorem C11_only_self_leaves :
  forall s, n_left s = false ->
  n_left (leave_local s) = true /\ lookup leftKey (n_ents (leave_local s)) = Some (mk_entry leftKey "" (n_ver s + 1) true false).
Proof. intros s H. unfold leave_local. rewrite H. cbn [n_left n_ents]. rewrite lookup_insert_eq. auto. Qed.

(* "...and otherwise is forgotten after the expiry period and stays forgotten unless it really returns" is FALSE
   of the faithful model and of the real code (finding F2): a survivor that expired the crashed node x re-learns it
   as live from the digest of a peer that has not expired it yet. Witness: *)
Theorem C11_refuted_zombie :
  exists c dg t,
    (exists s, lookup "x" (c_nodes c) = Some s /\ n_unreach s = true) /\
    mem "x" (c_nodes (fst (remove_expired t c))) = false /\
    (exists d, In d dg /\ d_id d = "x" /\ d_left d = false) /\
    let c' := fst (apply_digest (fst (remove_expired t c)) dg) in
    exists s', lookup "x" (c_nodes c') = Some s' /\ n_unreach s' = false /\ n_left s' = false /\ n_expiry s' = None.
Proof.
  exists {| c_local := "b"; c_nodes := [("b", new_node "b" "b:1");
            ("x", {| n_id := "x"; n_addr := "x:1"; n_ver := 3; n_left := false; n_unreach := true; n_expiry := Some 100%Z; n_ents := [] |})] |},
         [{| d_id := "x"; d_addr := "x:1"; d_ver := 3; d_left := false |}], 101%Z.
  repeat split.
  - eexists. split; [reflexivity|reflexivity].
  - eexists. split; [left; reflexivity|]. split; reflexivity.
  - eexists. split; [reflexivity|]. repeat split.
Qed.

(* The verdicts above take the detector's answer as given. With the REAL detector in place (Compose/LiveFD.v: the
   accrual detector of C12 asked by UpdateLiveness for every node that is neither local nor left; the delta handler
   reports the sender): "is marked unreachable and excluded from routing while so marked, is restored if it is heard
   from again" - for every schedule of later liveness evaluations (clock not before t1) and of messages from anybody
   else, a peer found unreachable at t1 is still unreachable: nothing but hearing from it restores it ... *)
Theorem C11_silent_stays_unreachable :
  forall (s : lstate) (p : string) (st : node_state) (t1 : Z) (nows1 : amap Z) (ops : list lop),
  wf_c (l_c s) -> lookup p (c_nodes (l_c s)) = Some st -> p <> c_local (l_c s) -> n_left st = false ->
  flag p (fst (ltick t1 nows1 s)) = Some true ->
  Forall (quiet p t1) ops ->
  flag p (lrun (fst (ltick t1 nows1 s)) ops) = Some true.
Proof. exact silent_stays_unreachable. Qed.

(* ... and hearing from it does: an evaluation at the instant of its message finds it reachable *)
Theorem C11_heard_is_reachable :
  forall (s : lstate) (p : string) (st : node_state) (t : Z) (nows : amap Z),
  wf_c (l_c s) -> lookup p (c_nodes (l_c s)) = Some st -> p <> c_local (l_c s) -> n_left st = false ->
  flag p (fst (ltick t nows (lhear p t s))) = Some false.
Proof. exact heard_is_reachable. Qed.

(* a run in which all of it happens: b is heard three times, reachable at 300, unreachable at 5000, still so at 6000
   and 7000 although a third party is heard meanwhile, and reachable again the moment it is heard at 7100 *)
Example C11_live_fd_example :
  wf_c ex_c /\ lookup "b" (c_nodes ex_c) = Some (new_node "b" "10.0.0.2:7000") /\ "b" <> c_local ex_c
  /\ flag "b" (lrun ex_s ex_ops1) = Some false
  /\ flag "b" (fst (ltick 5000 [] (lrun ex_s ex_ops1))) = Some true
  /\ Forall (quiet "b" 5000) ex_ops2
  /\ flag "b" (lrun (fst (ltick 5000 [] (lrun ex_s ex_ops1))) ex_ops2) = Some true
  /\ flag "b" (fst (ltick 7100 [] (lhear "b" 7100 (lrun (fst (ltick 5000 [] (lrun ex_s ex_ops1))) ex_ops2)))) = Some false.
Proof. exact livefd_example. Qed.


(* "... and stays forgotten unless it really" comes back: a node that IS alive comes back at its first digest - a node's digest
   always lists the node itself, and ApplyDigest adds every listed node it does not know that is not flagged left. Whatever the
   observer b remembers or has forgotten, after applying the digest of the live node a it knows a again *)
Theorem C11_forgotten_live_node_relearned :
  forall (a b : cstate) (sa : node_state),
  lookup (c_local a) (c_nodes a) = Some sa -> n_id sa = c_local a -> n_left sa = false ->
  mem (c_local a) (c_nodes (fst (apply_digest b (digest_of a)))) = true.
Proof. exact forgotten_live_node_relearned. Qed.

(* "... is restored if it is heard from again": for that an unreachable peer has to be talked to. Every gossip round
   (gossip.go gossipRound, Gossip/Round.v) sends a digest to one of the unreachable peers whenever there is one, every
   unreachable peer being the target for a whole residue class of the random number; the reply it sends if it is alive is
   what C11_heard_is_reachable starts from. And a round never addresses the node itself nor a peer that has left (unless
   the peer is also still marked unreachable) - for every order of Go's map iteration and all random numbers. *)
Theorem C11_round_contacts_unreachable :
  forall lives unreach p, In p unreach ->
  exists i, (i < List.length unreach)%nat /\
  forall r1 r2, Nat.modulo r2 (List.length unreach) = i -> In p (round_targets lives unreach r1 r2).
Proof. exact round_reaches_unreach. Qed.

Theorem C11_round_never_self_nor_departed :
  forall c lives unreach r1 r2 x,
  Permutation lives (live_peers c) -> Permutation unreach (unreach_peers c) ->
  In x (round_targets lives unreach r1 r2) ->
  In x (values (c_nodes c)) /\ n_id x <> c_local c /\ (n_left x = true -> n_unreach x = true).
Proof. exact round_targets_sound. Qed.

(* the expiry period and the departure marker of the theorems above are those of the current source (regenerated constants) *)
Theorem C11_expiry_and_marker_are_the_sources :
  GoConst.nodeExpiryNs = Types.nodeExpiry /\ GoConst.leftKey = Types.leftKey.
Proof. exact (conj src_node_expiry (proj1 src_reserved_keys)). Qed.

Print Assumptions C11_no_relearn_left.
Print Assumptions C11_left_is_final.
Print Assumptions C11_leave_marks_and_stamps.
Print Assumptions C11_expiry.
Print Assumptions C11_unreachable_excluded_restored.
Print Assumptions C11_local_immune.
Print Assumptions C11_only_self_leaves.
Print Assumptions C11_refuted_zombie.
Print Assumptions C11_silent_stays_unreachable.
Print Assumptions C11_heard_is_reachable.
Print Assumptions C11_forgotten_live_node_relearned.
Print Assumptions C11_round_contacts_unreachable.
Print Assumptions C11_round_never_self_nor_departed.
Print Assumptions C11_expiry_and_marker_are_the_sources.
