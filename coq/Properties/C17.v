(* C17 - Own state is a last-write-wins map; compaction preserves live keys.
   Only statements here; proofs are in GossipP/LocalP.v. Model: Gossip/Local.v
   (clusterState.UpsertLocal / DeleteLocal / LeaveLocal / CompactLocal, pkg/gossip/state.go:230-374). *)
From Coq Require Import List String NArith Bool.
From Piko Require Import Base.Maps Base.Strs Gossip.Types Gossip.Local Gossip.Apply Gossip.World GossipP.SortP GossipP.LocalP.
From Piko Require Import GossipP.Valid GossipP.ApplyValid GossipP.WorldInv.
From Coq Require Import ZArith.
From Piko Require Import generated.Constants GossipP.ConstantsP.
From Piko Require Import Gossip.DeltaVariants GossipP.DeltaVariantsP.
Import ListNotations.
Open Scope string_scope. Open Scope N_scope.

(* "after any sequence of upserts and deletes each key shows its most recent value or is deleted":
   the live view of the state reached by ANY op list (upserts, deletes, compactions with threshold >= 1,
   leave) over user keys equals the plain map obtained by insert/remove. *)
Theorem C17_lww_refinement :
  forall (ops : list lop) (id addr : string),
    Forall user_op ops ->
    forall k, user_key k = true ->
      live (local_run (new_node id addr) ops) k = lookup k (spec_run [] ops).
Proof.
  intros ops id addr Hu k Hk.
  exact (lww_refinement ops (new_node id addr) [] (LInv_new id addr) Hu (fun _ _ => eq_refl) k Hk).
Qed.

(* the same from any state satisfying the structural invariant (which every reachable state does) *)
Theorem C17_lww_refinement_from :
  forall ops s m, LInv s -> Forall user_op ops ->
    (forall k, user_key k = true -> live s k = lookup k m) ->
    forall k, user_key k = true -> live (local_run s ops) k = lookup k (spec_run m ops).
Proof. exact lww_refinement. Qed.

Theorem C17_invariant_reachable :
  forall ops id addr, Forall user_op ops -> LInv (local_run (new_node id addr) ops).
Proof. intros ops id addr Hu. exact (LInv_run _ ops (LInv_new id addr) Hu). Qed.

(* "every effective change receives a fresh, strictly larger version and no-op writes consume none" *)
Theorem C17_versions :
  forall s o, LInv s -> user_op o ->
    match o with
    | LUpsert k _ | LDelete k =>
        (effective s o -> n_ver (local_step s o) = n_ver s + 1 /\
                          exists e, lookup k (n_ents (local_step s o)) = Some e /\ e_ver e = n_ver s + 1) /\
        (~ effective s o -> local_step s o = s)
    | _ => True
    end.
Proof. exact version_step. Qed.

Theorem C17_version_never_decreases : forall s o, n_ver s <= n_ver (local_step s o).
Proof. exact version_monotone. Qed.

(* "Compaction removes deletion markers without changing any live key or value" (+ relative order of the
   kept entries, consecutive fresh versions, marker = pre-compaction version) *)
Theorem C17_compact :
  forall th s, LInv s -> 1 <= th ->
  let s' := compact_local th s in
  (N.of_nat (List.length (filter e_del (values (n_ents s)))) < th -> s' = s) /\
  (th <= N.of_nat (List.length (filter e_del (values (n_ents s)))) ->
     (forall k, user_key k = true -> live s' k = live s k) /\
     (forall k e, lookup k (n_ents s') = Some e -> e_del e = false) /\
     lookup compactKey (n_ents s') = Some (marker_of (n_ver s) (n_ver s')) /\
     dump_entries s' =
       (renum (filter keepb (sort_by_ver (values (n_ents s)))) (n_ver s) ++ [marker_of (n_ver s) (n_ver s')])%list).
Proof. exact compact_spec. Qed.

(* "observers that synchronise afterwards end up with the same live state": in every world reachable from the
   initial cluster (any interleaving of writes, compactions, lossy/duplicating/reordering/truncating gossip, relays;
   see C02_world_invariant for the exact step set), an observer whose view of x has reached x's version sees
   exactly x's live keys and values - in particular after x compacted its deletions away *)
Theorem C17_observers_agree :
  forall specs jx x xaddr w,
  NoDup (map fst specs) -> NoDup (map snd specs) -> nth_error specs jx = Some (x, xaddr) ->
  reach (init_world specs) w ->
  forall o c V cx O, nth_error (w_nodes w) o = Some c -> o <> jx -> lookup x (c_nodes c) = Some V ->
  nth_error (w_nodes w) jx = Some cx -> lookup x (c_nodes cx) = Some O -> n_ver V = n_ver O ->
  forall k, live V k = live O k.
Proof.
  intros specs jx x xaddr w H1 H2 H3 Hr o c V cx O Hc Hne HV Hcx HO Heq k.
  destruct (views_valid specs H1 H2 jx x xaddr H3 w Hr) as [cx' [O' [A [B [C D]]]]].
  assert (cx' = cx) by congruence. subst cx'. assert (O' = O) by congruence. subst O'.
  unfold live. rewrite (caught_up_exact O V (log_of w x) C (D o c V Hc Hne HV) Heq k). reflexivity.
Qed.

(* The pinned tree (before fix D2) treated UpsertLocal(k, "") over a tombstone as unchanged. *)
Definition upsert_local_pinned (k v : string) (s : node_state) : node_state :=
  match lookup k (n_ents s) with
  | Some ex => if String.eqb (e_val ex) v then s
               else let ver := n_ver s + 1 in set_ents s (insert k (mk_entry k v ver false false) (n_ents s)) ver
  | None => let ver := n_ver s + 1 in set_ents s (insert k (mk_entry k v ver false false) (n_ents s)) ver
  end.

Theorem C17_refuted_pinned :
  exists k, user_key k = true /\
    live (upsert_local_pinned k "" (delete_local k (upsert_local k "v" (new_node "a" "a:1")))) k
    <> lookup k (spec_run [] [LUpsert k "v"; LDelete k; LUpsert k ""]).
Proof. exists "k". split; [reflexivity|]. vm_compute. discriminate. Qed.

(* non-vacuity: a concrete history meeting every hypothesis, crossing a compaction *)
Example C17_example_history :
  let ops := [LUpsert "k" "1"; LUpsert "j" "2"; LDelete "k"; LCompact 1; LUpsert "k" ""; LLeave] in
  Forall user_op ops /\
  live (local_run (new_node "a" "a:1") ops) "k" = Some "" /\
  live (local_run (new_node "a" "a:1") ops) "j" = Some "2" /\
  n_ver (local_run (new_node "a" "a:1") ops) = 7.
Proof.
  cbn zeta. split; [|vm_compute; auto].
  repeat constructor; vm_compute; discriminate.
Qed.

(* compaction as the running node invokes it (gossip.go: CompactLocal(compactThreshold) every ten intervals): CompactLocal
   indexes the last of its version-sorted entries, which would be index -1 on a state without entries; that branch is
   unreachable for every threshold >= 1, in particular for the threshold of the current source (regenerated constants) -
   and it IS reached with threshold 0 (the model returns the state unchanged there, the code panics: precondition) *)
Theorem C17_compaction_never_indexes_empty :
  (forall th s, (1 <= th)%N -> compact_hits_empty th s = false) /\
  (forall s, compact_hits_empty (Z.to_N GoConst.compactThreshold) s = false) /\
  compact_hits_empty 0 (new_node "a" "x") = true /\
  GoConst.compactKey = Types.compactKey.
Proof. exact (conj compact_never_empty (conj src_compaction_never_panics (conj compact_zero_threshold_hits (proj2 src_reserved_keys)))). Qed.

(* "observers that synchronise afterwards end up with the same live state" depends on the compaction marker travelling AFTER
   the re-versioned entries. The variant that sorts internal entries first (seeded change C17-12) is refuted on the model:
   an observer holding the pre-compaction state, synchronised with the real delta, ends with the owner's live keys; with the
   marker first it ends at the owner's version with none of them. *)
Theorem C17_marker_first_variant_refuted :
  live_keys dv_post = ["a"; "b"] /\
  (exists V, dv_sync (delta_entry_of dv_post 3) = Some V /\ n_ver V = n_ver dv_post /\ live_keys V = ["a"; "b"]) /\
  (exists V, dv_sync (delta_entry_marker_first dv_post 3) = Some V /\ n_ver V = n_ver dv_post /\ live_keys V = []).
Proof. exact marker_first_variant_refuted. Qed.

Print Assumptions C17_lww_refinement.
Print Assumptions C17_lww_refinement_from.
Print Assumptions C17_invariant_reachable.
Print Assumptions C17_versions.
Print Assumptions C17_version_never_decreases.
Print Assumptions C17_compact.
Print Assumptions C17_observers_agree.
Print Assumptions C17_refuted_pinned.
Print Assumptions C17_example_history.
Print Assumptions C17_compaction_never_indexes_empty.
Print Assumptions C17_marker_first_variant_refuted.
