From Piko Require Import Gossip.Local.
Example C17_placeholder : True. Proof. exact I. Qed.
Print Assumptions C17_placeholder.
