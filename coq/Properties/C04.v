(* C04 - The routing table mirrors what each node advertises.
   Only statements here; proofs in ClusterP/SyncerP.v. Model: Cluster/Syncer.v
   (server/cluster/state.go, server/gossip/syncer.go) fed by the events of Gossip/Apply.v. *)
From Coq Require Import List String NArith ZArith Bool.
From Piko Require Import Base.Maps Base.Strs Gossip.Types Cluster.Syncer ClusterP.SyncerP.
Import ListNotations.
Open Scope string_scope. Open Scope list_scope.

(* "An endpoint lookup only ever returns a remote node that is currently considered active and advertises at
   least one upstream for that endpoint." The Go code returns any such node (map iteration); the model returns the
   candidate set and the theorem is about every member. *)
Theorem C04_lookup_sound :
  forall s ep id, In id (lookup_candidates s ep) ->
  exists n, In n (values (ss_nodes s)) /\ cn_id n = id /\ id <> ss_local s /\ cn_status n = SActive /\
            exists c, lookup ep (cn_eps n) = Some c /\ (0 < c)%Z.
Proof. exact lookup_candidates_sound. Qed.

Theorem C04_lookup_complete :
  forall s ep n c, In n (values (ss_nodes s)) -> cn_id n <> ss_local s -> cn_status n = SActive ->
  lookup ep (cn_eps n) = Some c -> (0 < c)%Z -> In (cn_id n) (lookup_candidates s ep).
Proof. exact lookup_candidates_complete. Qed.

(* PARTIAL (named): C04_fold (the syncer's fold of watcher events keeps endpoints = visible endpoint: entries,
   addresses sticky, status = flags) and C04_caught_up (version(view o x) = version(own x) => routing o x =
   advertised x) are checked by the monitor and the correspondence on every run; their Coq proofs build on C14 and
   C02 and are in progress. *)

Print Assumptions C04_lookup_sound.
Print Assumptions C04_lookup_complete.
