(* C04 - The routing table mirrors what each node advertises.
   Only statements here; proofs in ClusterP/SyncerP.v, ClusterP/FoldP.v (and C02 / C14 for the composition).
   Model: Cluster/Syncer.v (server/cluster/state.go, server/gossip/syncer.go) fed by the events of Gossip/Apply.v. *)
From Coq Require Import List String NArith ZArith Bool.
From Piko Require Import Base.Maps Base.Strs Gossip.Types Gossip.Local Gossip.Apply Cluster.Syncer.
From Piko Require Import GossipP.LocalP GossipP.ApplyP GossipP.WatchP GossipP.MemberP ClusterP.SyncerP ClusterP.FoldP ClusterP.LinkP.
Import ListNotations.
Open Scope string_scope. Open Scope list_scope.

(* "An endpoint lookup only ever returns a remote node that is currently considered active and advertises at
   least one upstream for that endpoint." The Go code returns any such node (map iteration); the model returns the
   candidate set and the theorem is about every member. *)
Theorem C04_lookup_sound :
  forall s ep id, In id (lookup_candidates s ep) ->
  exists n, In n (values (ss_nodes s)) /\ cn_id n = id /\ id <> ss_local s /\ cn_status n = SActive /\
            exists c, lookup ep (cn_eps n) = Some c /\ (0 < c)%Z.
Proof. exact lookup_candidates_sound. Qed.

Theorem C04_lookup_complete :
  forall s ep n c, In n (values (ss_nodes s)) -> cn_id n <> ss_local s -> cn_status n = SActive ->
  lookup ep (cn_eps n) = Some c -> (0 < c)%Z -> In (cn_id n) (lookup_candidates s ep).
Proof. exact lookup_candidates_complete. Qed.

(* The syncer's fold: for EVERY sequence of watcher events that is well formed with respect to the watcher's own
   fold (joins of unknown nodes only, reachability flips of non-left nodes, immutable announced addresses, numeric
   endpoint counts - what the gossip layer emits for honest owners), the routing state stays in the relation `rel`
   with the shadow: every node of the shadow is promoted (in the table with the announced addresses, status = flags,
   endpoints = parsed visible endpoint: entries), pending (an address still missing), or dropped (left while pending);
   nodes outside the shadow are in neither table. Join, leave, (un)reachable, expired, upsert and delete of any key
   are covered, including re-versioned addresses after a compaction (ignored once promoted) and deletions announced
   only through a compaction marker. *)
Theorem C04_fold :
  forall (addr_of : string -> string * string),
  (forall id, fst (addr_of id) <> "" /\ snd (addr_of id) <> "") ->
  forall evs s sh, rel addr_of s sh -> pend_wf s -> evs_ok addr_of sh evs ->
  rel addr_of (on_events s evs) (fold_events sh evs) /\ pend_wf (on_events s evs).
Proof. intros addr_of Hne evs s sh. exact (fold_rel addr_of Hne evs s sh). Qed.

Theorem C04_fold_from_start :
  forall addr_of id proxy admin, rel addr_of (new_sstate id proxy admin) [] /\ pend_wf (new_sstate id proxy admin).
Proof. exact rel_init. Qed.

(* ... and the events the gossip receiver emits ARE well formed whenever the data is honest (key-consistent entries,
   each owner's two immutable addresses, numeric endpoint counts - what Sync/onLocalEndpointUpdate publish, cf. C05):
   for EVERY sequence of digests, deltas (truncated, duplicated, reordered, relayed), liveness evaluations and expiry
   sweeps on an observer, feeding the emitted events to the syncer keeps the routing state in `rel` with the fold,
   and the fold agrees with the observer's gossip state (C14) *)
Theorem C04_syncer_follows_gossip :
  forall (addr_of : string -> string * string) ops c sh s,
  (forall id, fst (addr_of id) <> "" /\ snd (addr_of id) <> "") ->
  LInvC c -> Forall (rop_honest addr_of) ops -> agree sh c -> rel addr_of s sh -> pend_wf s ->
  let evs := snd (rrun c ops) in
  rel addr_of (on_events s evs) (fold_events sh evs) /\ pend_wf (on_events s evs) /\
  agree (fold_events sh evs) (fst (rrun c ops)) /\ LInvC (fst (rrun c ops)).
Proof. intros addr_of ops c sh s. exact (syncer_follows_gossip addr_of ops c sh s). Qed.

(* consequences for the table itself *)
Theorem C04_routing_mirrors_visible :
  forall addr_of s sh id sn, rel addr_of s sh -> id <> ss_local s -> lookup id sh = Some sn ->
  lookup "proxy_addr" (sn_kv sn) <> None -> lookup "admin_addr" (sn_kv sn) <> None -> sn_left sn = false ->
  exists n, lookup id (ss_nodes s) = Some n /\ cn_proxy n = fst (addr_of id) /\ cn_admin n = snd (addr_of id) /\
            cn_status n = status_of sn /\ eps_agree n sn.
Proof. exact routing_mirrors_visible. Qed.

Theorem C04_routing_entries_sound :
  forall addr_of s sh id n, rel addr_of s sh -> id <> ss_local s -> lookup id (ss_nodes s) = Some n ->
  exists sn, lookup id sh = Some sn /\ cn_status n = status_of sn /\ eps_agree n sn /\
             cn_proxy n = fst (addr_of id) /\ cn_admin n = snd (addr_of id).
Proof. exact routing_entries_sound. Qed.

(* "Whenever a node has caught up with everything another node has published, its routing table lists exactly that
   node's proxy and admin address and exactly its active endpoints with their upstream counts; endpoints the owner
   has withdrawn are gone": composition of (1) C02_world_caught_up - a caught-up view V holds exactly the owner's
   entries O, (2) C14 - the watcher's fold `sh` agrees with the observer's gossip state c, (3) C04_fold - the routing
   state is in `rel` with `sh`. The routing entry's endpoint map is then the owner's CURRENT live endpoint: entries,
   parsed - withdrawn (deleted or compacted-away) endpoints are absent because they are not live at the owner. *)
Theorem C04_caught_up :
  forall addr_of s sh c x V O,
  rel addr_of s sh -> agree sh c -> x <> ss_local s -> x <> c_local c ->
  lookup x (c_nodes c) = Some V ->
  (forall k, lookup k (n_ents V) = lookup k (n_ents O)) ->          (* caught up: C02_world_caught_up *)
  live O "proxy_addr" <> None -> live O "admin_addr" <> None -> n_left V = false ->
  exists n, lookup x (ss_nodes s) = Some n /\ cn_proxy n = fst (addr_of x) /\ cn_admin n = snd (addr_of x) /\
            cn_status n = (if n_unreach V then SUnreach else SActive) /\
            forall ep, lookup ep (cn_eps n) = match live O (ep_key ep) with Some v => atoi v | None => None end.
Proof.
  intros addr_of s sh c x V O Hrel Hag Hxs Hxc HV Heq Hp Ha Hl.
  specialize (Hag x Hxc). rewrite HV in Hag. destruct (lookup x sh) as [sn|] eqn:Esn; [|contradiction].
  destruct Hag as [A1 [A2 A3]].
  assert (Hlive : forall k, live V k = live O k). { intros k. unfold live. rewrite Heq. reflexivity. }
  destruct (routing_mirrors_visible addr_of s sh x sn Hrel Hxs Esn) as [n [H1 [H2 [H3 [H4 H5]]]]].
  - rewrite A3, Hlive. exact Hp.
  - rewrite A3, Hlive. exact Ha.
  - congruence.
  - exists n. split; [exact H1|]. split; [exact H2|]. split; [exact H3|]. split.
    + rewrite H4. unfold status_of. rewrite A1, A2, Hl. reflexivity.
    + intros ep. rewrite (H5 ep), A3, Hlive. reflexivity.
Qed.

(* non-vacuity: a node joins, announces both addresses and two endpoints, withdraws one *)
Example C04_example :
  let evs := [EJoin "b"; EUpsert "b" "proxy_addr" "10.1.0.2:8000"; EUpsert "b" "endpoint:e" "2";
              EUpsert "b" "admin_addr" "10.1.0.2:8001"; EUpsert "b" "endpoint:f" "1"; EDelete "b" "endpoint:e"] in
  let s := on_events (new_sstate "a" "10.1.0.1:8000" "10.1.0.1:8001") evs in
  lookup_candidates s "f" = ["b"] /\ lookup_candidates s "e" = [].
Proof. vm_compute. auto. Qed.

Print Assumptions C04_lookup_sound.
Print Assumptions C04_lookup_complete.
Print Assumptions C04_fold.
Print Assumptions C04_fold_from_start.
Print Assumptions C04_syncer_follows_gossip.
Print Assumptions C04_routing_mirrors_visible.
Print Assumptions C04_routing_entries_sound.
Print Assumptions C04_caught_up.
Print Assumptions C04_example.
