(* C18 - Losing a node: traffic is withdrawn from it and recovers on the survivors.
   Only statements here; proofs in NodeLossP/{DecisionP,ShutdownP,LeaveP,RecoveryP,Examples}.v.
   Models: NodeLoss/NodeLoss.v (client/listener.go AcceptWithContext, server/server.go Shutdown, the composition) on top of
   the shared models Gossip/Local.v (LeaveLocal), Gossip/Apply.v (ApplyDelta, UpdateLiveness), Cluster/Syncer.v (syncer
   callbacks, LookupEndpoint).

   PARTIAL - what is NOT proved here and is only observed by the harness (harness/nodeloss, props/C18.py):
     * timing: that Shutdown returns within the grace period, that the failure detector reaches its verdict, that gossip
       converges (liveness half of C03);
     * process death: a crash is modelled by its consequence (the detector's verdict raises OnUnreachable);
     * real reconnection: that the dial succeeds, that the yamux/websocket libraries report the loss of the session;
     * that every upstream handler does return after the cancellation (library behaviour); the theorem quantifies over all
       schedules of the handlers' exits and assumes each connection's handler exits once. *)
From Coq Require Import List String NArith ZArith Bool Permutation.
From Piko Require Import Base.Maps Base.Strs Gossip.Types Gossip.Local Gossip.Apply Cluster.Syncer.
From Piko Require Import GossipP.Valid NodeLoss.NodeLoss.
From Piko Require Import NodeLoss.Backoff NodeLossP.BackoffP.
From Piko Require Import NodeLossP.DecisionP NodeLossP.ShutdownP NodeLossP.LeaveP NodeLossP.RecoveryP NodeLossP.Examples.
From Piko Require Import Gossip.Round GossipP.RoundP.
Import ListNotations.
Open Scope string_scope. Open Scope list_scope.

(* "A server node shutting down gracefully stops advertising its upstreams, announces its departure ... and terminates":
   for every set of connected upstreams whose advertised counts are the connection counts (C05/C16), every list of live
   peers and EVERY schedule that consists of the steps of Server.Shutdown in their real order (not ready, upstream server
   shutdown = cancel every upstream connection, proxy shutdown, Leave, gossip Close, admin shutdown) interleaved in any way
   with the exits of the upstream handlers (they run in their own goroutines; each exit is one RemoveConn), once every
   handler has exited: the node holds no upstream connection, advertises no endpoint, its left marker is published, the
   live peers (at most 4) were notified, every listener is closed.
   [partial: "within the grace period" is a timing statement, observed by the harness; that every handler does exit after
   the cancellation is library behaviour (yamux AcceptStreamWithContext returns on context cancel), observed] *)
Theorem C18_shutdown_withdraws :
  forall conns eps live sched, counts_ok conns eps ->
  script_of sched = shutdown_script live ->
  Permutation (exits_of sched) conns ->
  let fin := run_script (serving conns eps) sched in
  ns_ready fin = false /\ ns_upstream_open fin = false /\ ns_cancelled fin = true /\
  ns_conns fin = [] /\ (forall ep, lookup ep (ns_eps fin) = None) /\
  ns_proxy_open fin = false /\ ns_left fin = true /\ ns_notified fin = notified_of live /\
  ns_gossip_open fin = false /\ ns_admin_open fin = false.
Proof. exact shutdown_withdraws. Qed.

(* at every point of every schedule the node advertises exactly the connections it still holds *)
Theorem C18_advertises_what_it_holds :
  forall sched n, counts_ok (ns_conns n) (ns_eps n) ->
  counts_ok (ns_conns (run_script n sched)) (ns_eps (run_script n sched)).
Proof. exact run_counts_ok. Qed.

(* the cancellation of the upstream connections is initiated before the departure is announced *)
Theorem C18_cancel_before_leave :
  forall live, exists pre post, shutdown_script live = pre ++ StLeave live :: post /\ In StUpstream pre /\
                                forall n, ns_left n = false -> ns_left (run_script n pre) = false.
Proof. exact cancel_before_leave. Qed.

(* the hypothesis holds for the counts any list of connections produces *)
Theorem C18_counts_satisfiable : forall conns, counts_ok conns (eps_of_conns conns).
Proof. exact counts_ok_eps_of_conns. Qed.

Example C18_ex_shutdown :
  let n := serving ["e"; "f"; "e"] (eps_of_conns ["e"; "f"; "e"]) in
  ns_eps n = [("e", 2%Z); ("f", 1%Z)] /\
  script_of ex_sched = shutdown_script ["p1"; "p2"; "p3"; "p4"; "p5"] /\ exits_of ex_sched = ["e"; "f"; "e"] /\
  ns_eps (run_script n [StNotReady; StUpstream; StExit "e"; StProxy; StLeave ["p1"; "p2"; "p3"; "p4"; "p5"]]) = [("e", 1%Z); ("f", 1%Z)] /\
  run_script n ex_sched =
  {| ns_ready := false; ns_upstream_open := false; ns_cancelled := true; ns_conns := []; ns_eps := []; ns_proxy_open := false;
     ns_left := true; ns_notified := ["p1"; "p2"; "p3"; "p4"]; ns_gossip_open := false; ns_admin_open := false |}.
Proof. exact ex_shutdown. Qed.

(* "...so that the nodes it notifies stop routing to it at once": for EVERY leaver state O that can arise (leaver_ok, an
   invariant of every owner state - next theorem), every peer gossip state c whose view of the leaver is not ahead of the
   leaver (or that has never heard of it), every routing table s of that peer filed under node ids, and every endpoint:
   after the peer applied the leaver's full local delta (what the leave stream carries) its view of the leaver is left,
   the last watcher event is OnLeave, the routing table has the leaver with status left whenever it had it at all, and
   LookupEndpoint cannot return the leaver - whatever the leaver still advertises. *)
Theorem C18_notified_peer_stops_routing :
  forall nows c s O ep c' s' evs,
  leaver_ok O -> n_left O = false ->
  n_id O <> c_local c -> ss_local s = c_local c ->
  (forall V, lookup (n_id O) (c_nodes c) = Some V -> (n_ver V <= n_ver O)%N) ->
  wf_nodes s ->
  peer_receives_leave nows c s O = (c', s', evs) ->
  (exists V', lookup (n_id O) (c_nodes c') = Some V' /\ n_left V' = true) /\
  (exists evs0, evs = evs0 ++ [ELeave (n_id O)]) /\
  (forall n, lookup (n_id O) (ss_nodes s) = Some n ->
     exists n', lookup (n_id O) (ss_nodes s') = Some n' /\ cn_status n' = SLeft) /\
  ~ In (n_id O) (lookup_candidates s' ep).
Proof. exact notified_peer_stops_routing. Qed.

(* the hypotheses are invariants: every owner state reachable by local writes (GossipP.Valid.owner_step keeps OwnInv) is
   leaver_ok; the syncer keeps its table filed under node ids *)
Theorem C18_leaver_ok_invariant : forall O L, OwnInv O L -> leaver_ok O.
Proof. exact OwnInv_leaver_ok. Qed.

Theorem C18_wf_nodes_invariant :
  (forall id p a, wf_nodes (new_sstate id p a)) /\ (forall evs s, wf_nodes s -> wf_nodes (on_events s evs)).
Proof. split; [exact wf_new|exact on_events_wf]. Qed.

Example C18_ex_leave :
  (leaver_ok ex_leaver /\ n_left ex_leaver = false /\ n_ver ex_leaver = 5%N) /\
  (n_id ex_leaver <> c_local ex_peer /\ ss_local ex_route = c_local ex_peer /\ wf_nodes ex_route /\
   (forall V, lookup (n_id ex_leaver) (c_nodes ex_peer) = Some V -> (n_ver V <= n_ver ex_leaver)%N) /\
   lookup_candidates ex_route "e" = ["a"]) /\
  let '(c', s', evs) := peer_receives_leave [] ex_peer ex_route ex_leaver in
  evs = [EDelete "a" "endpoint:f"; ELeave "a"] /\
  lookup_candidates s' "e" = [] /\
  option_map cn_status (lookup "a" (ss_nodes s')) = Some SLeft /\
  option_map n_left (lookup "a" (c_nodes c')) = Some true.
Proof. exact (conj ex_leaver_ok (conj ex_hypotheses ex_leave_computed)). Qed.

(* "Whether a node departs gracefully or crashes ...": the crash side of the withdrawal. When a survivor's failure detector
   suspects a node that is neither left nor already unreachable, UpdateLiveness raises OnUnreachable, the routing table
   marks the node unreachable and LookupEndpoint cannot return it. [partial: that the detector does reach this verdict
   after a crash is timing, observed; the verdict function itself is C12] *)
Theorem C18_crash_detected_stops_routing :
  forall local suspect nows V s ep,
  n_id V <> local -> n_left V = false -> n_unreach V = false -> suspect (n_id V) = true ->
  wf_nodes s -> ss_local s = local ->
  let s' := on_events s (snd (liveness_node local suspect nows V)) in
  ~ In (n_id V) (lookup_candidates s' ep) /\
  forall n, lookup (n_id V) (ss_nodes s) = Some n -> lookup (n_id V) (ss_nodes s') = Some (with_status n SUnreach).
Proof. exact crash_detected_stops_routing. Qed.

(* "upstream listeners reconnect to a surviving node": the decision of AcceptWithContext when the session is lost, for
   every way the loss can surface in the error: not closed locally and context live => reconnect; closed locally =>
   ErrClosed; context cancelled => the context's error (checked first). *)
Theorem C18_reconnect_decision :
  (forall e, accept_decision false false e = DReconnect) /\
  (forall e, accept_decision false true e = DErrClosed) /\
  (forall cl e, accept_decision true cl e = DCtxErr).
Proof. exact reconnect_decision. Qed.

(* ... as often as needed: any number of session losses, each followed by a successful reconnection, never makes Accept
   return an error; and Accept returns ErrClosed only after a local close *)
Theorem C18_accept_loop_survives :
  forall errs,
  accept_loop (map (fun e => AErr false false e CConnected) errs ++ [AStream]) = OConn /\
  accept_loop (map (fun e => AErr false false e CConnected) errs) = OBlocked.
Proof. exact accept_loop_survives. Qed.

Theorem C18_errclosed_only_local :
  forall its, accept_loop its = OErrClosed -> exists e c, In (AErr false true e c) its.
Proof. exact accept_loop_errclosed. Qed.

(* the same clause is FALSE of the pinned tree (finding D4, repaired by the commit "fix: reconnect the listener when the
   server closes the connection"): the server closing the connection surfaces as net.ErrClosed, which the old decision
   took for a local close *)
Theorem C18_refuted_pinned :
  exists e, accept_decision_pinned false false e = DErrClosed /\ accept_decision false false e = DReconnect.
Proof. exact pinned_refuted. Qed.

(* "...and, once routing information settles, requests for their endpoints succeed again from every surviving node."
   Composition statement. ASSUMED (hypotheses): some listener of ep is registered on a surviving node (the reconnection
   happened - observed); every survivor is settled: it has every other survivor as active, what its active entries say
   about ep is the truth (C04 caught-up), and its entries about nodes that are not survivors are not active (previous
   theorems for the notified peers; C03 convergence / detector timing for the others - observed).
   PROVED: then a request for ep entering at ANY survivor is served - by a local upstream of ep, or by forwarding, and
   every node LookupEndpoint can return is a survivor holding a local upstream of ep (never the lost node). That the
   forwarded request is then served locally there is C01/C06. *)
Theorem C18_recovery_partial :
  forall w ep,
  (exists b sb, lookup b w = Some sb /\ (0 < local_count sb ep)%Z) ->
  (forall a sa, lookup a w = Some sa -> settled w ep a sa) ->
  forall a sa, lookup a w = Some sa -> served_from w sa ep.
Proof. exact recovery. Qed.

Theorem C18_recovery_never_lost :
  forall w ep a sa x, settled w ep a sa -> lookup x w = None -> ~ In x (lookup_candidates sa ep).
Proof. exact recovery_never_lost. Qed.

Example C18_ex_recovery :
  (forall a sa, lookup a ex_cluster = Some sa -> settled ex_cluster "e" a sa) /\
  (forall a sa, lookup a ex_cluster = Some sa -> served_from ex_cluster sa "e").
Proof. exact (conj ex_settled ex_recovery). Qed.

(* "upstream listeners reconnect to a surviving node" - how soon. The reconnection loop (client/upstream.go Upstream.connect)
   waits between two dials for the time pkg/backoff hands out; NodeLoss/Backoff.v models Backoff() with the jitter as an
   oracle (legal outcomes: base <= w <= 1.1*base + 1ns). For EVERY sequence of legal jitter outcomes, any number of calls:
   the loop's backoff (retries = 0) never tells it to give up; every wait lies between min(min,max) and max + 10 % + 1ns;
   consecutive waits at least double until they reach max. [partial: that time.After really sleeps that long and that a
   dial to a reachable node succeeds is runtime behaviour, observed by harness/reconnect] *)
Theorem C18_backoff_never_gives_up :
  forall cmin cmax ws, (0 <= cmin)%Z -> (0 <= cmax)%Z -> ~ In None (backoff_run (connect_backoff cmin cmax) ws).
Proof. intros cmin cmax ws A B. apply forever_never_aborts. exact (proj1 (proj2 (connect_backoff_ok cmin cmax A B))). Qed.

Theorem C18_backoff_waits_bounded :
  forall b ws w, bo_inv b -> legal_run b ws = true -> In (Some w) (backoff_run b ws) ->
  (Z.min (bo_min b) (bo_max b) <= w <= bo_max b + bo_max b / 10 + 1)%Z.
Proof. exact waits_bounded. Qed.

Theorem C18_backoff_exponential :
  forall b w1 w2 b1 b2,
  bo_inv b -> valid_wait (base_wait b) w1 = true -> backoff_step b w1 = Some (b1, w1) ->
  (0 < bo_min b)%Z -> (0 < bo_max b)%Z ->
  valid_wait (base_wait b1) w2 = true -> backoff_step b1 w2 = Some (b2, w2) ->
  (Z.min (2 * w1) (bo_max b) <= w2)%Z.
Proof. exact consecutive_doubles. Qed.

(* a backoff with a retry limit n > 0 grants exactly the calls 0..n and refuses every later one (the comment in the source
   calls n "the maximum number of attempts"; it is the number of RETRIES: n+1 calls are granted) *)
Theorem C18_backoff_retries_exact :
  forall n mn mx ws k, (0 < n)%Z -> (k < List.length ws)%nat ->
  ((exists w, nth k (backoff_run (bo_new n mn mx) ws) None = Some w) <-> (Z.of_nat k <= n)%Z).
Proof. exact retries_exact. Qed.

(* the loop over time, dial i starting at s_i, taking d_i and failing: the next dial starts between min(min,max) and
   max + 10 % + 1ns after the failure - for every schedule of dial durations and legal jitter outcomes; hence once the node
   (or a surviving node behind the same address) is reachable from time T on, a dial starts no later than T + D + that
   bound, D bounding the duration of a failing dial *)
Theorem C18_redial_gaps :
  forall s b dws, bo_inv b -> bo_retries b = 0%Z -> legal_dials b dws = true ->
  gaps_within (Z.min (bo_min b) (bo_max b)) (bo_max b + bo_max b / 10 + 1) (dial_starts s b dws) dws.
Proof. exact redial_gaps. Qed.

Theorem C18_redial_within :
  forall s b dws T D, bo_inv b -> bo_retries b = 0%Z -> legal_dials b dws = true ->
  (forall d w, In (d, w) dws -> 0 <= d <= D)%Z ->
  (T <= last (dial_starts s b dws) s)%Z ->
  exists t, In t (dial_starts s b dws) /\ (T <= t)%Z /\ (t = s \/ t <= T + D + (bo_max b + bo_max b / 10 + 1))%Z.
Proof. exact redial_within. Qed.

(* the hypotheses hold for the backoff Upstream.connect builds from any non-negative configuration; with the fields left
   zero it is 100ms .. 15s, so a listener redials at the latest 16.5s (+1ns) after a failed attempt *)
Theorem C18_connect_backoff_ok :
  forall cmin cmax, (0 <= cmin)%Z -> (0 <= cmax)%Z ->
  bo_inv (connect_backoff cmin cmax) /\ bo_retries (connect_backoff cmin cmax) = 0%Z /\
  (0 < bo_min (connect_backoff cmin cmax))%Z /\ (0 < bo_max (connect_backoff cmin cmax))%Z.
Proof. exact connect_backoff_ok. Qed.

Theorem C18_connect_backoff_defaults :
  bo_min (connect_backoff 0 0) = 100000000%Z /\ bo_max (connect_backoff 0 0) = 15000000000%Z /\
  (bo_max (connect_backoff 0 0) + bo_max (connect_backoff 0 0) / 10 + 1 = 16500000001)%Z.
Proof. exact connect_backoff_defaults. Qed.

Example C18_ex_backoff :
  legal_run (bo_new 0 100 1000) [100; 220; 440; 968; 1000; 1101]%Z = true /\
  backoff_run (bo_new 0 100 1000) [100; 220; 440; 968; 1000; 1101]%Z = [Some 100; Some 220; Some 440; Some 968; Some 1000; Some 1101]%Z /\
  legal_run (bo_new 0 100 1000) [100; 222]%Z = false /\
  backoff_run (bo_new 2 100 1000) [100; 200; 400; 800; 1000]%Z = [Some 100; Some 200; Some 400; None; None]%Z /\
  dial_starts 0 (bo_new 0 100 1000) [(5, 100); (7, 210); (5, 420)]%Z = [0; 105; 322; 747]%Z.
Proof. exact ex_backoff_run. Qed.

(* "announces its departure so that the nodes it notifies stop routing to it at once": whom Gossip.Leave tells
   (gossip.go Leave, Gossip/Round.v leave_run; rand.Shuffle = the order, `ack` = whether a peer acknowledges the stream).
   For EVERY shuffle and every pattern of acknowledgements: only peers that are neither the node itself, nor departed, nor
   considered unreachable, and that acknowledged; min(4, number of acknowledging live peers) of them; no error as soon as
   one acknowledges; with all streams acknowledged exactly the first four live peers in shuffle order (the `notified_of`
   of the shutdown model above); and the observable outcome (told set, error verdict) is legal in the sense the harness
   checks on the real Leave. *)
Theorem C18_leave_told_sound :
  forall c ack order x, Permutation order (values (c_nodes c)) ->
  In x (fst (fst (leave_run c ack order))) ->
  exists s, In s (values (c_nodes c)) /\ n_id s = x /\ n_id s <> c_local c /\ n_left s = false /\ n_unreach s = false /\ ack x = true.
Proof. exact leave_told_sound. Qed.

Theorem C18_leave_told_count :
  forall c ack order,
  List.length (fst (fst (leave_run c ack order))) = Nat.min 4 (List.length (ackids (c_local c) ack order)) /\
  (ackids (c_local c) ack order <> [] -> snd (leave_run c ack order) = false).
Proof. exact leave_told_count. Qed.

Theorem C18_leave_all_ack_is_notified_of :
  forall c order,
  fst (fst (leave_run c (fun _ => true) order)) = notified_of (map n_id (filter (leave_candidate (c_local c)) order)).
Proof. exact leave_all_ack. Qed.

Theorem C18_leave_observation_legal :
  forall c ack order, Permutation order (values (c_nodes c)) -> NoDup (map n_id (values (c_nodes c))) ->
  leave_legal c ack (fst (fst (leave_run c ack order))) (snd (leave_run c ack order)) = true.
Proof. exact leave_run_legal. Qed.

(* the NoDup hypothesis is an invariant of the cluster states of the gossip model (GossipP.ApplyP.wf_c + unique keys) *)
Theorem C18_leave_ids_nodup :
  forall c, (forall k s, lookup k (c_nodes c) = Some s -> n_id s = k) -> NoDup (keys (c_nodes c)) ->
  NoDup (map n_id (values (c_nodes c))).
Proof. exact ids_nodup. Qed.

Example C18_ex_leave_run :
  leave_run ex_round_state (fun id => negb (String.eqb id "e")) (rev (values (c_nodes ex_round_state))) = (["b"], ["e"; "b"], false) /\
  leave_legal ex_round_state (fun id => negb (String.eqb id "e")) ["b"] false = true /\
  leave_legal ex_round_state (fun _ => true) ["b"] false = false /\
  leave_run ex_round_state (fun _ => false) (values (c_nodes ex_round_state)) = ([], ["b"; "e"], true).
Proof. exact ex_round_leave. Qed.

(* which failed attempts are retried (pkg/websocket Dial: no response, or a response with status 408 429 500 502 503 504):
   a listener never gives up on transient failures - for EVERY script of dial results without a non-retryable answer the loop
   is still retrying or has connected, and it connects at the first success, after exactly that many dials; a non-retryable
   answer (401, 403, 404 ...) ends it at once. Compared with the real Upstream.connect against a server failing with each
   of 14 statuses. *)
Theorem C18_transient_failures_are_retried :
  forall rs, (forall r, In r rs -> dial_fatal r = false) ->
  snd (connect_script rs) <> Some false /\
  (forall pre post, rs = (pre ++ DRConnected :: post)%list -> ~ In DRConnected pre ->
     connect_script rs = (S (List.length pre), Some true)).
Proof. exact connect_script_transient. Qed.

Theorem C18_fatal_answer_ends_loop :
  forall r rest, dial_fatal r = true -> connect_script (r :: rest) = (1%nat, Some false).
Proof. exact connect_script_fatal. Qed.

(* ... quantitatively: the k-th wait of the reconnection loop (k = 0 first) is at least min(2^k * min, max) - with the
   defaults 100 ms, 200 ms, 400 ms ... up to 15 s - and at most max + 10 % + 1ns, for every legal jitter sequence *)
Theorem C18_backoff_kth_wait :
  forall cmin cmax ws k w, (0 <= cmin)%Z -> (0 <= cmax)%Z -> legal_run (connect_backoff cmin cmax) ws = true ->
  nth_error (backoff_run (connect_backoff cmin cmax) ws) k = Some (Some w) ->
  (Z.min (2 ^ Z.of_nat k * Z.min (bo_min (connect_backoff cmin cmax)) (bo_max (connect_backoff cmin cmax))) (bo_max (connect_backoff cmin cmax)) <= w
   /\ w <= bo_max (connect_backoff cmin cmax) + bo_max (connect_backoff cmin cmax) / 10 + 1)%Z.
Proof. exact connect_kth_wait. Qed.

(* ... and the check is tight: every told set / error verdict the harness accepts for a membership and an acknowledgement
   pattern IS the outcome of Leave for some shuffle - leave_legal characterises the outcomes of leave_run exactly *)
Theorem C18_leave_observation_complete :
  forall c ack told err, NoDup (map n_id (values (c_nodes c))) -> leave_legal c ack told err = true ->
  exists order, Permutation order (values (c_nodes c)) /\
                fst (fst (leave_run c ack order)) = told /\ snd (leave_run c ack order) = err.
Proof. exact leave_legal_complete. Qed.

Print Assumptions C18_shutdown_withdraws.
Print Assumptions C18_advertises_what_it_holds.
Print Assumptions C18_cancel_before_leave.
Print Assumptions C18_counts_satisfiable.
Print Assumptions C18_ex_shutdown.
Print Assumptions C18_notified_peer_stops_routing.
Print Assumptions C18_leaver_ok_invariant.
Print Assumptions C18_wf_nodes_invariant.
Print Assumptions C18_ex_leave.
Print Assumptions C18_crash_detected_stops_routing.
Print Assumptions C18_reconnect_decision.
Print Assumptions C18_accept_loop_survives.
Print Assumptions C18_errclosed_only_local.
Print Assumptions C18_refuted_pinned.
Print Assumptions C18_recovery_partial.
Print Assumptions C18_recovery_never_lost.
Print Assumptions C18_ex_recovery.
Print Assumptions C18_backoff_never_gives_up.
Print Assumptions C18_backoff_waits_bounded.
Print Assumptions C18_backoff_exponential.
Print Assumptions C18_backoff_retries_exact.
Print Assumptions C18_redial_gaps.
Print Assumptions C18_redial_within.
Print Assumptions C18_connect_backoff_ok.
Print Assumptions C18_connect_backoff_defaults.
Print Assumptions C18_ex_backoff.
Print Assumptions C18_leave_told_sound.
Print Assumptions C18_leave_told_count.
Print Assumptions C18_leave_all_ack_is_notified_of.
Print Assumptions C18_leave_observation_legal.
Print Assumptions C18_leave_ids_nodup.
Print Assumptions C18_ex_leave_run.
Print Assumptions C18_transient_failures_are_retried.
Print Assumptions C18_fatal_answer_ends_loop.
Print Assumptions C18_backoff_kth_wait.
Print Assumptions C18_leave_observation_complete.
