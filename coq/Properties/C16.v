(* C16 - Upstreams are registered exactly while connected; expiry ends connections.
   Statements over the model Lifecycle/Lifecycle.v (upstreamRoute, LoadBalancedManager.AddConn/RemoveConn,
   cluster Add/RemoveLocalEndpoint, proxy RemoveConn after ErrGone, shedSessions, Shutdown, token deadline),
   for ALL event lists `evs` (run cfg evs = fold of step from the empty server). Proofs: LifecycleP/. *)
From Coq Require Import List String ZArith Bool.
From Piko Require Import Base.Maps Lifecycle.Lifecycle LifecycleP.Inv LifecycleP.Theorems.
From Piko Require Import NodeLoss.Connect NodeLossP.ConnectP.
Import ListNotations.
Open Scope string_scope. Open Scope list_scope.

(* "An upstream is available for routing exactly while its connection to the server is open":
   in every reachable state a connection is in a balancer iff it is open and has not been dropped by the
   proxy after announcing go-away (and then under its own endpoint, once); the session table is exactly the open set. *)
Theorem C16_registered_iff_open : forall cfg evs,
  cfg_d1_fixed cfg = true ->
  let s := run cfg evs in
  (forall c, registered s c <-> In c (s_open s) /\ is_dropped s c = false)
  /\ (forall e c, In c (lookup_list e (s_reg s)) <->
                  In c (s_open s) /\ is_dropped s c = false /\ option_map c_ep (lookup c (s_conns s)) = Some e)
  /\ (forall e, NoDup (lookup_list e (s_reg s)))
  /\ (forall c, In c (s_sessions s) <-> In c (s_open s))
  /\ NoDup (s_sessions s) /\ NoDup (s_open s).
Proof. exact registered_iff_open. Qed.

Example C16_ex_registered_minus_dropped :
  let s := run cfg_plain [EvDial "u1" "e" None; EvAccept "u1"; EvDial "u2" "e" None; EvAccept "u2"; EvDial "u3" "f" None; EvAccept "u3";
                          EvGoAway "u1"; EvProxyErrGone "u1"] in
  s_open s = ["u1"; "u2"; "u3"] /\ is_dropped s "u1" = true /\ lookup_list "e" (s_reg s) = ["u2"] /\ lookup_list "f" (s_reg s) = ["u3"]
  /\ count_of "e" (s_counts s) = 1 /\ s_sessions s = ["u1"; "u2"; "u3"].
Proof. exact ex_registered_minus_dropped. Qed.

(* "however the connection ends - client close, go-away followed by close, network drop, server-initiated
   shedding, server shutdown ... - it is deregistered and its session released" (token expiry: C16_deadline) *)
Theorem C16_every_end_releases : forall cfg evs c ev,
  cfg_d1_fixed cfg = true ->
  In ev [EvClientClose c; EvNetDrop c; EvShed c; EvServerShutdown] ->
  let s' := run cfg (evs ++ [ev]) in
  is_live s' c = false /\ ~ registered s' c /\ ~ In c (s_sessions s') /\ ~ In c (s_open s').
Proof. exact every_end_releases. Qed.

(* "so that once all upstreams are gone the node advertises nothing and holds no sessions" *)
Theorem C16_no_leak : forall cfg evs,
  cfg_d1_fixed cfg = true ->
  let s := run cfg evs in
  s_open s = [] -> s_reg s = [] /\ s_counts s = [] /\ s_sessions s = [].
Proof. exact no_leak. Qed.

Example C16_ex_all_gone :
  let s := run cfg_plain (d1_witness ++ [EvShed "u2"]) in s_open s = [] /\ s_conns s <> [].
Proof. exact ex_all_gone. Qed.

(* server shutdown: nothing open, nothing advertised, no sessions *)
Theorem C16_shutdown_holds_nothing : forall cfg evs,
  cfg_d1_fixed cfg = true ->
  let s := run cfg evs in
  s_shutdown s = true -> s_open s = [] /\ s_reg s = [] /\ s_counts s = [] /\ s_sessions s = [].
Proof. exact shutdown_holds_nothing. Qed.

(* advertised count per endpoint = number registered (RemoveConn with the D1 fix, commit e05aed6) *)
Theorem C16_counts : forall cfg evs,
  cfg_d1_fixed cfg = true ->
  let s := run cfg evs in
  forall e, count_of e (s_counts s) = List.length (lookup_list e (s_reg s))
            /\ (lookup e (s_counts s) = None <-> lookup e (s_reg s) = None).
Proof. exact counts. Qed.

(* false for the pinned tree's RemoveConn: go-away, proxy removes it after ErrGone, it disconnects ->
   the sibling u2 is registered and open but the node advertises 0 upstreams for the endpoint *)
Theorem C16_refuted_pinned_d1 :
  exists evs e, let s := run cfg_pinned evs in
    evs = d1_witness /\ lookup_list e (s_reg s) = ["u2"] /\ s_open s = ["u2"] /\ count_of e (s_counts s) = 0
    /\ count_of e (s_counts s) <> List.length (lookup_list e (s_reg s)).
Proof. exact refuted_pinned_d1. Qed.

Example C16_ex_d1_fixed :
  let s := run cfg_plain d1_witness in
  lookup_list "e" (s_reg s) = ["u2"] /\ count_of "e" (s_counts s) = 1 /\ s_open s = ["u2"].
Proof. exact ex_d1_fixed. Qed.

(* "A connection authenticated with an expiring token is closed by the server at that expiry":
   with a verifier and disconnect-on-expiry enabled, a connection whose token expires at T is not open, not
   registered and has no session in any state whose clock is >= T (the clock only moves in EvTick / EvDeadline,
   which include the server's step: every context whose deadline has passed fires) *)
Theorem C16_deadline : forall cfg evs c k t T,
  cfg_d1_fixed cfg = true ->
  let s := run cfg evs in
  cfg_auth cfg = true -> cfg_disable_expiry cfg = false ->
  lookup c (s_conns s) = Some k -> c_tok k = Some t -> tk_exp t = Some T ->
  (T <= s_clock s)%Z ->
  (c_state k = Ended \/ c_state k = Handshaking)
  /\ is_live s c = false /\ ~ registered s c /\ ~ In c (s_sessions s) /\ ~ In c (s_open s).
Proof. exact deadline_closes. Qed.

Theorem C16_deadline_ended : forall cfg evs c k T,
  cfg_d1_fixed cfg = true ->
  let s := run cfg evs in
  lookup c (s_conns s) = Some k -> c_deadline k = Some T -> (T <= s_clock s)%Z -> c_state k = Ended.
Proof. exact deadline_ended. Qed.

(* "and not before": an end with cause Deadline carries an end time >= the token's expiry, and the Deadline
   event of a connection is enabled only from its expiry on *)
Theorem C16_deadline_not_before : forall cfg evs c k,
  cfg_d1_fixed cfg = true ->
  let s := run cfg evs in
  lookup c (s_conns s) = Some k -> c_cause k = Some CDeadline ->
  exists T at_ t, c_tok k = Some t /\ tk_exp t = Some T /\ c_deadline k = Some T /\ c_ended_at k = Some at_ /\ (T <= at_)%Z
                  /\ cfg_auth cfg = true /\ cfg_disable_expiry cfg = false.
Proof. exact deadline_not_before. Qed.

Theorem C16_deadline_enabled_only_from_T : forall cfg evs c t,
  cfg_d1_fixed cfg = true ->
  let s := run cfg evs in
  deadline_enabled s c t = true ->
  exists k T, lookup c (s_conns s) = Some k /\ c_deadline k = Some T /\ (T <= t)%Z /\ In c (s_open s).
Proof. exact deadline_event_enabled_only_from_T. Qed.

Example C16_ex_deadline :
  let evs := [EvDial "u1" "e" (tok_exp 1000); EvAccept "u1"; EvTick 999] in
  is_live (run cfg_jwt evs) "u1" = true
  /\ deadline_enabled (run cfg_jwt evs) "u1" 999 = false /\ deadline_enabled (run cfg_jwt evs) "u1" 1000 = true
  /\ option_map (fun k => (c_state k, c_cause k, c_ended_at k)) (lookup "u1" (s_conns (run cfg_jwt (evs ++ [EvTick 1000]))))
     = Some (Ended, Some CDeadline, Some 1000%Z)
  /\ s_open (run cfg_jwt (evs ++ [EvTick 1000])) = [].
Proof. exact ex_deadline. Qed.

(* "unless disconnect-on-expiry is disabled": then (and without a verifier) no connection has a deadline,
   no Deadline event is ever enabled and nothing ends with cause Deadline *)
Theorem C16_no_deadline_when_disabled : forall cfg evs,
  cfg_d1_fixed cfg = true ->
  cfg_disable_expiry cfg = true \/ cfg_auth cfg = false ->
  let s := run cfg evs in
  forall c, (forall t, deadline_enabled s c t = false)
            /\ (forall k, lookup c (s_conns s) = Some k -> c_deadline k = None /\ c_cause k <> Some CDeadline).
Proof. exact no_deadline_when_disabled. Qed.

Example C16_ex_deadline_disabled :
  let s := run cfg_jwt_nodisc [EvDial "u1" "e" (tok_exp 1000); EvAccept "u1"; EvTick 5000; EvDial "u2" "e" (tok_exp 1000); EvAccept "u2"] in
  s_open s = ["u1"] /\ option_map c_cause (lookup "u2" (s_conns s)) = Some (Some CRejected).
Proof. exact ex_deadline_disabled. Qed.

Print Assumptions C16_registered_iff_open.
Print Assumptions C16_every_end_releases.
Print Assumptions C16_no_leak.
Print Assumptions C16_shutdown_holds_nothing.
(* ---- the client's side of "client close" (NodeLoss/Connect.v: client/listener.go AcceptWithContext over
   client/upstream.go connect). The server deregisters an upstream when its connection ends; that the connection STAYS ended
   after the application closed its listener is the client's doing: whatever the schedule - when the session is lost, when
   Close/Shutdown is called, how the dials go while the server is unreachable - no session is established by a dial that
   started after the listener was closed ... *)
Theorem C16_closed_listener_never_reconnects :
  forall (accept_done close_done : nat -> bool) (p : nat) (dials : list dial) (q : nat),
  monotone close_done ->
  on_session_lost UseCloseCtx accept_done close_done p dials = AReconnected q -> close_done q = false.
Proof. exact closed_listener_never_reconnects. Qed.

(* ... which is lost when the reconnect runs under the context of the Accept call instead (seeded change C16-6): a listener
   closed while the server is unreachable connects when the server is back *)
Theorem C16_accept_ctx_variant_refuted :
  exists accept_done close_done p dials q,
    monotone accept_done /\ monotone close_done /\
    on_session_lost UseAcceptCtx accept_done close_done p dials = AReconnected q /\ close_done q = true.
Proof. exact accept_ctx_variant_refuted. Qed.

Example C16_ex_closed_during_outage :
  on_session_lost UseCloseCtx (fun _ => false) (fun k => Nat.leb 2 k) 0 [DialRetryable; DialRetryable; DialOk] = AConnectErr
  /\ on_session_lost UseCloseCtx (fun _ => false) (fun _ => false) 0 [DialRetryable; DialRetryable; DialOk] = AReconnected 4.
Proof. split; [exact close_ctx_on_that_schedule|exact open_listener_reconnects]. Qed.

Print Assumptions C16_counts.
Print Assumptions C16_refuted_pinned_d1.
Print Assumptions C16_deadline.
Print Assumptions C16_deadline_ended.
Print Assumptions C16_deadline_not_before.
Print Assumptions C16_deadline_enabled_only_from_T.
Print Assumptions C16_no_deadline_when_disabled.
Print Assumptions C16_ex_registered_minus_dropped.
Print Assumptions C16_ex_all_gone.
Print Assumptions C16_ex_d1_fixed.
Print Assumptions C16_ex_deadline.
Print Assumptions C16_ex_deadline_disabled.
Print Assumptions C16_closed_listener_never_reconnects.
Print Assumptions C16_accept_ctx_variant_refuted.
